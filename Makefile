# setup: build everything the checks need from the files on disk (offline)
export GOFLAGS=-mod=mod
export GOPROXY=off
export GOSUMDB=off
export GOTOOLCHAIN=local

.PHONY: setup clean
setup:
	mkdir -p build/run evidence replays
	cd go2v && go build -o ../build/go2v .
	./build/go2v /repo coq/theories/Gen
	cd coq && coq_makefile -f _CoqProject -o Makefile $$(find theories -name '*.v' | grep -v /Extract/ | sort) && rm -f .vfiles.sig && timeout 3000 make -k -j16
	cd ocaml && coqc -Q ../coq/theories GH ../coq/theories/Extract/Extract.v && ocamlfind ocamlopt -w -a -O2 model.mli model.ml driver_kinds.ml util.ml driver_ext.ml driver.ml -o ../build/modelrun
	cd harness && cp /repo/go.sum go.sum && go build -tags verif -o ../build/hx .

clean:
	rm -rf build coq/Makefile coq/Makefile.conf coq/.Makefile.d coq/.vfiles.sig ocaml/model.ml ocaml/model.mli
	find coq ocaml -name '*.vo' -o -name '*.vok' -o -name '*.vos' -o -name '*.glob' -o -name '.*.aux' -o -name '*.cm[iox]' -o -name '*.o' | xargs rm -f
