#!/usr/bin/env python3
"""Self-validation of the checks (development aid, not part of any registered check).

Generates small mechanical mutants of /repo (one token-level change each), keeps those that still
compile and pass the repository's own 33 tests, runs the quick checks of the properties anchored in
the mutated file and reports which mutants no check noticed.  /repo is restored after every mutant
(git checkout) and the clean-tree evidence is put back at the end.

usage: selftest/mutate.py [--per-file N] [--seed S] [--files a.go,b.go] [--out build/mutants.json]
"""
import argparse, json, os, random, re, shutil, subprocess, sys, time
V = os.path.dirname(os.path.dirname(os.path.abspath(__file__)))
REPO = "/repo"
ENV = dict(os.environ, GOFLAGS="-mod=mod", GOPROXY="off", GOSUMDB="off", GOTOOLCHAIN="local")
RULES = [
    (r"==", "!="), (r"!=", "=="), (r"<=", "<"), (r">=", ">"), (r"(?<![<-])<(?![<=-])", "<="), (r"(?<![>-])>(?![>=])", ">="),
    (r"&&", "||"), (r"\|\|", "&&"), (r"\+ 1\b", "+ 2"), (r"- 1\b", "- 2"), (r"\btrue\b", "false"), (r"\bfalse\b", "true"),
    (r"\bbreak\b", "continue"), (r"\+\+", "--"), (r"<<", ">>"), (r"\b0x([0-9a-f]{2})\b", None), (r"\[0\]", "[1]"), (r"\+= ", "-= "),
]
def sh(cmd, cwd=None, timeout=1800):
    p = subprocess.run(cmd, cwd=cwd, env=ENV, stdout=subprocess.PIPE, stderr=subprocess.STDOUT, text=True, errors="replace", timeout=timeout)
    return p.returncode, p.stdout
def props_of():
    m = {}
    for l in open(os.path.join(V, "properties.jsonl")):
        d = json.loads(l)
        for f in d["anchors"]["files"]:
            m.setdefault(f, []).append(d["id"])
    return m
COST = {"C07": 1, "C13": 1, "C09": 1, "C10": 1, "C15": 1, "C11": 1, "C08": 2, "C16": 2, "C17": 2, "C14": 3, "C05": 3, "C06": 3,
        "C01": 4, "C12": 4, "C04": 5, "C02": 5, "C03": 6}
def candidates(path):
    out = []
    lines = open(path).read().split("\n")
    for i, line in enumerate(lines):
        code = line.split("//")[0]
        if not code.strip() or code.strip().startswith(("import", "package", "/*", "*")):
            continue
        for pat, rep in RULES:
            for mt in re.finditer(pat, code):
                if rep is None:
                    v = int(mt.group(1), 16)
                    new = "0x%02x" % ((v + 1) % 256)
                else:
                    new = rep
                out.append((i, mt.start(), mt.end(), new))
    return lines, out
def main():
    ap = argparse.ArgumentParser()
    ap.add_argument("--per-file", type=int, default=4)
    ap.add_argument("--seed", type=int, default=1)
    ap.add_argument("--files", default="")
    ap.add_argument("--out", default=os.path.join(V, "build", "mutants.json"))
    a = ap.parse_args()
    rc, out = sh(["git", "status", "--porcelain"], cwd=REPO)
    if out.strip():
        sys.exit("/repo not clean")
    pm = props_of()
    files = [f for f in (a.files.split(",") if a.files else sorted(pm)) if f not in ("logger.go",)]
    rnd = random.Random(a.seed)
    keep = os.path.join(V, "build", "evidence.keep")
    shutil.rmtree(keep, ignore_errors=True); shutil.copytree(os.path.join(V, "evidence"), keep)
    results = []
    try:
        for f in files:
            path = os.path.join(REPO, f)
            lines, cands = candidates(path)
            rnd.shuffle(cands)
            done = 0
            for (i, s, e, new) in cands:
                if done >= a.per_file:
                    break
                mut = list(lines); mut[i] = lines[i][:s] + new + lines[i][e:]
                open(path, "w").write("\n".join(mut))
                desc = "%s:%d  %s  ->  %s" % (f, i + 1, lines[i].strip()[:90], mut[i].strip()[:90])
                rc, _ = sh(["go", "build", "./..."], cwd=REPO, timeout=300)
                if rc == 0:
                    rc, _ = sh(["go", "test", "-vet=off", "-count=1", "-timeout", "120s", "."], cwd=REPO, timeout=300)
                if rc != 0:
                    sh(["git", "checkout", "-q", "--", "."], cwd=REPO)
                    continue           # does not compile or is caught by the existing tests
                done += 1
                caught = None
                t0 = time.time()
                for p in sorted(pm[f], key=lambda p: COST.get(p, 3)):
                    rc, o = sh([os.path.join(V, "bin", "check"), p, "--tier", "quick"], cwd=V)
                    if rc != 0:
                        v = [l for l in o.split("\n") if "VIOLATION" in l]
                        caught = (p, v[0] if v else "exit %d" % rc)
                        break
                sh(["git", "checkout", "-q", "--", "."], cwd=REPO)
                r = {"mutant": desc, "caught_by": caught[0] if caught else None, "line": caught[1] if caught else None,
                     "checks_run": len(pm[f]) if not caught else None, "seconds": round(time.time() - t0)}
                results.append(r)
                print(("CAUGHT %-4s" % caught[0]) if caught else "MISSED     ", desc, flush=True)
                json.dump(results, open(a.out, "w"), indent=1)
    finally:
        sh(["git", "checkout", "-q", "--", "."], cwd=REPO)
        shutil.rmtree(os.path.join(V, "evidence"), ignore_errors=True); shutil.copytree(keep, os.path.join(V, "evidence"))
    n = len(results); c = sum(1 for r in results if r["caught_by"])
    print("mutants surviving the test suite: %d, caught by the checks: %d, missed: %d" % (n, c, n - c))
main()
