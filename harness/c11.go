// C11: a reused serializer behaves exactly like a fresh one; calls have no side effects.
package main

import (
	"bytes"
	"fmt"
	"reflect"

	hessian "github.com/vogo/gohessian"
)

func init() { props["C11"] = runC11 }

type histOp struct {
	kind string // encok encfail encfailwriter decok decgarbage stream reset
	val  interface{}
	bs   []byte
}

func cloneNameMap(m map[string]string) map[string]string {
	c := make(map[string]string, len(m))
	for k, v := range m {
		c[k] = v
	}
	return c
}
func cloneTypeMap(m map[string]reflect.Type) map[string]reflect.Type {
	c := make(map[string]reflect.Type, len(m))
	for k, v := range m {
		c[k] = v
	}
	return c
}
func sameNameMap(a, b map[string]string) bool { return reflect.DeepEqual(a, b) }
func sameTypeMap(a, b map[string]reflect.Type) bool {
	if len(a) != len(b) {
		return false
	}
	for k, v := range a {
		if b[k] != v {
			return false
		}
	}
	return true
}

// damaged input that cannot ask for huge allocations: truncations and scalar-tag substitutions
func safeGarbage(r *rng, valid []byte) []byte {
	b := append([]byte{}, valid...)
	if len(b) == 0 {
		return []byte{0x51}
	}
	switch r.intn(3) {
	case 0:
		return b[:r.intn(len(b))]
	case 1:
		safe := []byte{'N', 'T', 'F', 0x90, 0x00, 0x5b, 'Z', 0x60, 0x61, 0x51, 'C', 'O', 'H'}
		b[r.intn(len(b))] = safe[r.intn(len(safe))]
		return b
	}
	return append(b[:r.intn(len(b))], 0x51, 0x95)
}

func c11History(c *ctx, seed uint64, n int, inst string) {
	r := newRng(seed, "hist")
	in := map[string]interface{}{"op": "history", "hseed": seed, "n": n, "instance": inst}
	// a pool of values of different types and the complete maps for all of them
	var vals []interface{}
	for i := 0; i < 6; i++ {
		t := zooTypes[r.intn(len(zooTypes))]
		if t.Kind() == reflect.Map || t == reflect.TypeOf(Collide{}) {
			t = reflect.TypeOf(Deep{})
		}
		vals = append(vals, genValue(t, seed*17+uint64(i), 15, 20))
	}
	tm, nm := mergeMaps(vals)
	tm0, nm0 := cloneTypeMap(tm), cloneNameMap(nm)
	var valid [][]byte
	for _, v := range vals {
		b, err := hessian.ToBytes(v, cloneNameMap(nm))
		if err == nil {
			valid = append(valid, b)
		}
	}
	if len(valid) == 0 {
		return
	}
	ser := hessian.NewSerializer(tm, nm)
	enc := hessian.NewEncoder(nil, nm)
	dec := hessian.NewDecoder(nil, tm)
	var trace []string
	for i := 0; i < n; i++ {
		switch r.intn(7) {
		case 0: // encode ok
			v := vals[r.intn(len(vals))]
			before := canonTop(v)
			guard(func() error {
				var e error
				if inst == "serializer" {
					_, e = ser.ToBytes(v)
				} else {
					_, e = enc.Encode(v)
				}
				return e
			})
			if canonTop(v) != before {
				c.fail("encoding modified the value being encoded", in, "step "+fmt.Sprint(i), "")
			}
			trace = append(trace, "encok")
		case 1: // encode failing: unsupported kind inside
			v := []interface{}{vals[r.intn(len(vals))], make(chan int), int32(3)}
			guard(func() error {
				var e error
				if inst == "serializer" {
					_, e = ser.ToBytes(v)
				} else {
					_, e = enc.Encode(v)
				}
				return e
			})
			trace = append(trace, "encfail")
		case 2: // encode failing: writer dies in the middle
			v := vals[r.intn(len(vals))]
			fw := &faultWriter{k: r.intn(8), kind: "fromk"}
			guard(func() error {
				if inst == "serializer" {
					return ser.WriteTo(fw, v)
				}
				return enc.WriteTo(fw, v)
			})
			trace = append(trace, "encfailwriter")
		case 3: // decode ok
			b := valid[r.intn(len(valid))]
			cp := append([]byte{}, b...)
			guard(func() error {
				var e error
				if inst == "serializer" {
					_, e = ser.ToObject(cp)
				} else {
					_, e = dec.Decode(cp)
				}
				return e
			})
			if !bytes.Equal(cp, b) {
				c.fail("decoding modified the bytes being decoded", in, "step "+fmt.Sprint(i), "")
			}
			trace = append(trace, "decok")
		case 4: // decode of damaged input
			g := safeGarbage(r, valid[r.intn(len(valid))])
			guard(func() error {
				var e error
				if inst == "serializer" {
					_, e = ser.ToObject(g)
				} else {
					_, e = dec.Decode(g)
				}
				return e
			})
			trace = append(trace, "decgarbage")
		case 5: // streaming write/read of two values without a reset in between
			var buf bytes.Buffer
			a, b := vals[r.intn(len(vals))], vals[r.intn(len(vals))]
			guard(func() error {
				if inst == "serializer" {
					if e := ser.WriteTo(&buf, a); e != nil {
						return e
					}
					return ser.Write(b)
				}
				enc.Reset(&buf)
				if e := enc.WriteObject(a); e != nil {
					return e
				}
				return enc.WriteObject(b)
			})
			rd := &countingReader{b: buf.Bytes()}
			guard(func() error {
				if inst == "serializer" {
					if _, e := ser.ReadFrom(rd); e != nil {
						return e
					}
					_, e := ser.Read()
					return e
				}
				dec.Reset(rd)
				if _, e := dec.ReadObject(); e != nil {
					return e
				}
				_, e := dec.ReadObject()
				return e
			})
			trace = append(trace, "stream")
		default:
			if inst != "serializer" {
				enc.Reset(&bytes.Buffer{})
				dec.Reset(&countingReader{})
			}
			trace = append(trace, "reset")
		}
	}
	in["trace"] = fmt.Sprint(trace)
	// probes: one-shot encode and one-shot decode, compared with a fresh instance
	pv := vals[r.intn(len(vals))]
	pb := valid[r.intn(len(valid))]
	if r.intn(4) == 0 {
		pb = safeGarbage(r, pb)
	}
	var gotB, wantB []byte
	var gotV, wantV interface{}
	oe1, _ := guard(func() error {
		var e error
		if inst == "serializer" {
			gotB, e = ser.ToBytes(pv)
		} else {
			gotB, e = enc.Encode(pv)
		}
		return e
	})
	oe2, _ := guard(func() error {
		var e error
		if inst == "serializer" {
			wantB, e = hessian.NewSerializer(cloneTypeMap(tm0), cloneNameMap(nm0)).ToBytes(pv)
		} else {
			wantB, e = hessian.NewEncoder(nil, cloneNameMap(nm0)).Encode(pv)
		}
		return e
	})
	if oe1 != oe2 || !sameMapOrderInsensitive(gotB, wantB, pv) {
		c.fail("encode probe on a reused instance differs from a fresh instance", in, fmt.Sprintf("outcome %v vs %v, %d vs %d bytes", oe1, oe2, len(gotB), len(wantB)), "")
	}
	od1, _ := guard(func() error {
		var e error
		if inst == "serializer" {
			gotV, e = ser.ToObject(pb)
		} else {
			gotV, e = dec.Decode(pb)
		}
		return e
	})
	od2, _ := guard(func() error {
		var e error
		if inst == "serializer" {
			wantV, e = hessian.NewSerializer(cloneTypeMap(tm0), cloneNameMap(nm0)).ToObject(pb)
		} else {
			wantV, e = hessian.NewDecoder(nil, cloneTypeMap(tm0)).Decode(pb)
		}
		return e
	})
	if od1 != od2 || (od1 == oOK && canonTop(gotV) != canonTop(wantV)) {
		c.fail("decode probe on a reused instance differs from a fresh instance", in, fmt.Sprintf("outcome %v vs %v; %s", od1, od2, diffStr(canonTop(wantV), canonTop(gotV))), "")
	}
	if !sameNameMap(nm, nm0) {
		c.fail("a complete caller-supplied name map was modified", in, fmt.Sprint(len(nm), " vs ", len(nm0)), "")
	}
	if !sameTypeMap(tm, tm0) {
		c.fail("a complete caller-supplied type map was modified", in, fmt.Sprint(len(tm), " vs ", len(tm0)), "")
	}
	// table sizes after a one-shot call are those of a single message
	c.sample(map[string]interface{}{"hseed": seed, "instance": inst, "trace": fmt.Sprint(trace)})
}

// byte equality, except that Go map iteration order may differ between two encodings of the same
// value: then compare what the bytes denote
func sameMapOrderInsensitive(a, b []byte, v interface{}) bool {
	if bytes.Equal(a, b) {
		return true
	}
	if a == nil || b == nil {
		return false
	}
	ha, e1 := hparseAll(a)
	hb, e2 := hparseAll(b)
	if e1 != nil || e2 != nil || len(a) != len(b) {
		return false
	}
	_, nm := hessian.ExtractTypeNameMap(v)
	p1, _ := denotes(ha, v, nm)
	p2, _ := denotes(hb, v, nm)
	return p1 == p2
}

func runC11(c *ctx) {
	if rp, ok := c.extra["replay"].(string); ok {
		in := loadReplay(rp)
		c11History(c, uint64(in["hseed"].(float64)), int(in["n"].(float64)), in["instance"].(string))
		return
	}
	c.rule = "histories of length 0..30 over {encode ok, encode failing (unsupported kind), encode failing (writer dies), decode ok, decode of damaged input, streaming write/read of two values, Reset} with values of different zoo types from step to step, on one Serializer or one Encoder+Decoder pair, followed by a one-shot encode probe and a one-shot decode probe compared with a freshly constructed instance (bytes; outcome class and canonical value); inputs (value, bytes, complete name/type maps) compared before/after. Distinct by (seed, length, instance kind); non-trivial = length >= 1."
	n := 1200
	if c.tier == "thorough" {
		n = 60000
	}
	c11Registration(c)
	for i := 0; i < n; i++ {
		seed := c.seed*31337 + uint64(i)
		ln := int(seed % 31)
		for _, inst := range []string{"serializer", "codec"} {
			key := ""
			if ln >= 1 {
				key = fmt.Sprint(seed, ":", inst)
			}
			c.eval(key)
			c.dist["inst:"+inst]++
			c11History(c, seed, ln, inst)
		}
	}
}

// registration entry points: an instance whose maps were supplied by RegisterNameMap /
// RegisterNameType / RegisterTypeMap / RegisterType / RegisterVal behaves as one constructed
// with those maps, and registering does not disturb a later one-shot call
func c11Registration(c *ctx) {
	for ti, t := range zooTypes {
		for k := 0; k < 3; k++ {
			seed := c.seed*7919 + uint64(ti)*13 + uint64(k)
			val := genValue(t, seed, 40, 60)
			tm, nm, ok := safeExtract(val)
			if !ok {
				continue
			}
			in := map[string]interface{}{"op": "register", "type": t.String(), "gseed": seed}
			c.eval(fmt.Sprint("reg:", t.String(), "#", seed))
			var want, got1, got2 []byte
			o0, _ := guard(func() error { var e error; want, e = hessian.NewEncoder(nil, cloneNameMap(nm)).Encode(val); return e })
			o1, _ := guard(func() error {
				enc := hessian.NewEncoder(nil, map[string]string{})
				enc.RegisterNameMap(cloneNameMap(nm))
				var e error
				got1, e = enc.Encode(val)
				return e
			})
			o2, _ := guard(func() error {
				enc := hessian.NewEncoder(nil, map[string]string{})
				for a, b := range nm {
					enc.RegisterNameType(a, b)
				}
				var e error
				got2, e = enc.Encode(val)
				return e
			})
			if o0 != o1 || o0 != o2 || (o0 == oOK && (!sameMapOrderInsensitive(want, got1, val) || !sameMapOrderInsensitive(want, got2, val))) {
				c.fail("an encoder given its name map by registration differs from one constructed with it", in, fmt.Sprint(o0, o1, o2), "")
				continue
			}
			if o0 != oOK {
				continue
			}
			var dv0, dv1, dv2, dv3 interface{}
			d0, _ := guard(func() error { var e error; dv0, e = hessian.NewDecoder(nil, cloneTypeMap(tm)).Decode(want); return e })
			d1, _ := guard(func() error {
				dec := hessian.NewDecoder(nil, map[string]reflect.Type{})
				dec.RegisterTypeMap(cloneTypeMap(tm))
				var e error
				dv1, e = dec.Decode(want)
				return e
			})
			d2, _ := guard(func() error {
				dec := hessian.NewDecoder(nil, map[string]reflect.Type{})
				for a, b := range tm {
					dec.RegisterType(a, b)
				}
				var e error
				dv2, e = dec.Decode(want)
				return e
			})
			d3, _ := guard(func() error {
				dec := hessian.NewDecoder(nil, map[string]reflect.Type{})
				for a, b := range tm {
					dec.RegisterVal(a, reflect.Zero(b).Interface())
				}
				var e error
				dv3, e = dec.Decode(want)
				return e
			})
			if d0 != d1 || d0 != d2 || d0 != d3 || (d0 == oOK && (canonTop(dv0) != canonTop(dv1) || canonTop(dv0) != canonTop(dv2) || canonTop(dv0) != canonTop(dv3))) {
				c.fail("a decoder given its type map by registration differs from one constructed with it", in, fmt.Sprint(d0, d1, d2, d3), "")
			}
		}
	}
}
