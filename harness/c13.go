// C13: encoding is fail-stop: an unrepresentable value yields an error, never bad bytes.
package main

import (
	"fmt"
	"reflect"
	"time"
	"unsafe"

	hessian "github.com/vogo/gohessian"
)

func init() { props["C13"] = runC13 }

type BadChanF struct {
	A int32
	C chan int
	B string
}
type BadFuncF struct {
	A int32
	F func()
	B string
}
type BadCplxF struct {
	A int32
	Z complex128
	B string
}
type BadC64F struct {
	Z complex64
}
type BadUptrF struct {
	U uintptr
	B string
}
type BadUnsafeF struct {
	P unsafe.Pointer
}
type BadSliceF struct {
	A  int32
	Cs []chan int
	B  string
}
type BadMapF struct {
	M map[string]func()
}
type BadNested struct {
	Name string
	In   *BadChanF
	L    []*BadFuncF
}
type BadIface struct { // an interface-typed field holding something unrepresentable
	A int32
	X interface{}
}
type hiddenField struct {
	A int32
	b int32 // unexported: cannot be read through reflection's Interface()
}
type StampedChan struct {
	time.Time
	C chan int
	N int32
}
type StampedFunc struct {
	time.Time
	F func()
}
type MyInt int32
type MyStr string
type NamedScalars struct {
	I MyInt
	S MyStr
}

func badValues() map[string]interface{} {
	ch := make(chan int)
	fn := func() {}
	var x int
	return map[string]interface{}{
		"chan": ch, "nilchan": (chan int)(nil), "func": fn, "complex128": complex(1, 2), "complex64": complex64(complex(1, 2)),
		"uintptr": uintptr(7), "unsafe": unsafe.Pointer(&x),
		"chanslice": []chan int{ch}, "funcmap": map[string]func(){"f": fn},
	}
}

// every position x every unsupported kind
func c13Cases() (out []struct {
	name string
	v    interface{}
	bad  bool // must be rejected (true) or may be accepted if it round-trips (false)
}) {
	add := func(name string, v interface{}, bad bool) {
		out = append(out, struct {
			name string
			v    interface{}
			bad  bool
		}{name, v, bad})
	}
	ch := make(chan int)
	fn := func() {}
	var x int
	for kind, b := range badValues() {
		add("top/"+kind, b, true)
		add("listelem-first/"+kind, []interface{}{b, int32(1), "s"}, true)
		add("listelem-middle/"+kind, []interface{}{int32(1), b, int32(3)}, true)
		add("listelem-last/"+kind, []interface{}{int32(1), "s", b}, true)
		add("mapvalue/"+kind, map[string]interface{}{"a": int32(1), "k": b}, true)
		add("ifacefield/"+kind, &BadIface{1, b}, true)
		add("nested-list-in-list/"+kind, []interface{}{int32(1), []interface{}{"x", b}}, true)
		add("nested-map-in-list/"+kind, []interface{}{map[string]interface{}{"k": b}}, true)
		add("nested-struct-in-list/"+kind, []interface{}{&Inner{1, "a"}, &BadIface{2, b}}, true)
		add("ptr-struct-in-map/"+kind, map[string]interface{}{"p": &BadIface{2, b}}, true)
		if reflect.TypeOf(b).Comparable() {
			add("mapkey/"+kind, map[interface{}]string{b: "v", "ok": "w"}, true)
		}
	}
	add("field/chan", &BadChanF{1, ch, "b"}, true)
	add("field/nilchan", &BadChanF{1, nil, "b"}, true)
	add("field/func", &BadFuncF{1, fn, "b"}, true)
	add("field/nilfunc", &BadFuncF{1, nil, "b"}, true)
	add("field/complex128", &BadCplxF{1, 3i, "b"}, true)
	add("field/complex64", &BadC64F{2i}, true)
	add("field/uintptr", &BadUptrF{9, "b"}, true)
	add("field/unsafe", &BadUnsafeF{unsafe.Pointer(&x)}, true)
	add("field/chanslice", &BadSliceF{1, []chan int{ch, ch}, "b"}, true)
	add("field/funcmap", &BadMapF{map[string]func(){"f": fn}}, true)
	add("nestedfield/chan", &BadNested{"n", &BadChanF{1, ch, "b"}, nil}, true)
	add("nestedlist/func", &BadNested{"n", nil, []*BadFuncF{{1, fn, "x"}}}, true)
	add("typedlist/chan", []chan int{ch}, true)
	add("typedlist/complex", []complex128{1i}, true)
	add("typedmap/func", map[string]func(){"f": fn}, true)
	add("struct-by-value/chan", BadChanF{1, ch, "b"}, true)
	// a struct that EMBEDS a timestamp is a struct, not a timestamp: its other fields count
	add("embedded-time/chan", &StampedChan{time.Unix(1700000000, 0), ch, 3}, true)
	add("embedded-time/chan-in-list", []interface{}{int32(1), &StampedChan{time.Unix(5, 0), ch, 3}}, true)
	add("embedded-time/func-by-value", StampedFunc{time.Unix(1700000000, 0), fn}, true)
	// representable in principle: must round-trip or be rejected, never panic or corrupt
	add("unexported-field", &hiddenField{1, 2}, false)
	add("named-scalars", &NamedScalars{5, "s"}, false)
	add("named-int-top", MyInt(7), false)
	add("named-int-list", []MyInt{1, 2}, false)
	return
}

func runC13(c *ctx) {
	c.rule = "unsupported kinds {chan, nil chan, func, complex64/128, uintptr, unsafe.Pointer, slice of chan, map of func} at every position {top level, first/middle/last list element, map key, map value, struct field (typed and interface-typed), nested list/map/struct, typed list, typed map, struct by value}, plus representable-but-awkward values (named scalar types, unexported field) that must round-trip or be rejected; through ToBytes and through Encoder.WriteObject on a stream after a good value. Distinct by (position, kind, entry point); every case is non-trivial."
	only := ""
	if rp, ok := c.extra["replay"].(string); ok {
		only = loadReplay(rp)["case"].(string)
	}
	for _, cs := range c13Cases() {
		if only != "" && cs.name != only {
			continue
		}
		for _, entry := range []string{"ToBytes", "stream"} {
			in := map[string]interface{}{"op": "badkind", "case": cs.name, "entry": entry}
			c.eval(cs.name + "/" + entry)
			c.dist["entry:"+entry]++
			var nm map[string]string
			var tm map[string]reflect.Type
			o, msg := guard(func() error { tm, nm = hessian.ExtractTypeNameMap(cs.v); return nil })
			if o != oOK {
				// extraction is not the encode call; fall back to empty maps
				nm, tm = map[string]string{}, map[string]reflect.Type{}
				c.dist["extract_panics"]++
				_ = msg
			}
			var bs []byte
			o, msg = guard(func() error {
				var e error
				if entry == "ToBytes" {
					bs, e = hessian.ToBytes(cs.v, nm)
					return e
				}
				var w bytesWriter
				enc := hessian.NewEncoder(&w, nm)
				if e = enc.WriteObject(int32(5)); e != nil {
					return e
				}
				e = enc.WriteObject(cs.v)
				bs = w.b
				return e
			})
			if entry == "ToBytes" { // the encoder model on the same value: same outcome class (and bytes when accepted)
				ans := o.String()
				ord := map[uintptr][]reflect.Value{}
				if o == oOK {
					ans = "ok " + hx(bs)
					if h, err := hparseAll(bs); err == nil {
						if om, ok := recoverMapOrder(h, cs.v, nm); ok {
							ord = om
						}
					}
				}
				c.corr("enc "+nameMapStr(nm)+" "+gvalString(cs.v, ord), ans)
			}
			switch o {
			case oErr:
				c.dist["rejected"]++
			case oPanic:
				c.fail("encode panics instead of returning an error", in, msg, "")
			case oOK:
				if cs.bad {
					c.fail("encode reports success for a value it cannot represent", in, "bytes="+hx(trunc(bs, 80)), "")
					continue
				}
				// accepted: then it must be well-formed and decode to the same value
				if entry == "ToBytes" {
					if _, err := hparseAll(bs); err != nil {
						c.fail("encode succeeded with a malformed stream", in, err.Error(), "")
						continue
					}
					var dec interface{}
					o2, m2 := guard(func() error { var e error; dec, e = hessian.ToObject(bs, tm); return e })
					if o2 != oOK || canonTop(topNormal(cs.v)) != canonTop(dec) {
						c.fail("encode succeeded with bytes that decode to something else", in, fmt.Sprint(o2, m2, " want ", truncS(canonTop(topNormal(cs.v)), 120), " got ", truncS(canonTop(dec), 120)), "")
					} else {
						c.dist["accepted_and_exact"]++
					}
				}
			}
			c.sample(in)
		}
	}
}

type bytesWriter struct{ b []byte }

func (w *bytesWriter) Write(p []byte) (int, error) { w.b = append(w.b, p...); return len(p), nil }
