// export of Go types and values as the tables of the extraction model (Model/Extraction.v):
// a type table indexed by type ids and a node table indexed by addresses
package main

import (
	"fmt"
	"reflect"
	"sort"
	"strings"

	hessian "github.com/vogo/gohessian"
)

type xkey struct {
	p uintptr
	t reflect.Type
}
type xexp struct {
	types []reflect.Type
	tids  map[reflect.Type]int
	nodes []string
	addrs map[xkey]int
}

func newXexp() *xexp { return &xexp{tids: map[reflect.Type]int{}, addrs: map[xkey]int{}} }

func (x *xexp) tid(t reflect.Type) int {
	if id, ok := x.tids[t]; ok {
		return id
	}
	id := len(x.types)
	x.tids[t] = id
	x.types = append(x.types, t)
	switch t.Kind() {
	case reflect.Ptr, reflect.Slice, reflect.Array:
		x.tid(t.Elem())
	case reflect.Map:
		x.tid(t.Key())
		x.tid(t.Elem())
	case reflect.Struct:
		for i := 0; i < t.NumField(); i++ {
			x.tid(t.Field(i).Type)
		}
	}
	return id
}

func (x *xexp) envStr() string {
	var b strings.Builder
	b.WriteString("(env")
	for i := 0; i < len(x.types); i++ { // tid() may append while we print: index loop
		t := x.types[i]
		kind := "r"
		switch t.Kind() {
		case reflect.Interface:
			kind = "if"
		case reflect.Ptr:
			kind = fmt.Sprintf("(p %d)", x.tid(t.Elem()))
		case reflect.Slice:
			kind = fmt.Sprintf("(sl %d)", x.tid(t.Elem()))
		case reflect.Array:
			kind = fmt.Sprintf("(ar %d %d)", t.Len(), x.tid(t.Elem()))
		case reflect.Map:
			kind = fmt.Sprintf("(mp %d %d)", x.tid(t.Key()), x.tid(t.Elem()))
		case reflect.Struct:
			var fs []string
			for j := 0; j < t.NumField(); j++ {
				ex := 0
				if t.Field(j).PkgPath == "" {
					ex = 1
				}
				fs = append(fs, fmt.Sprintf("(%d %d)", ex, x.tid(t.Field(j).Type)))
			}
			kind = "(st " + strings.Join(fs, " ") + ")"
		}
		codec := "n"
		if t.Kind() != reflect.Interface {
			if cn, ok := reflect.New(t).Elem().Interface().(hessian.CodecNamable); ok {
				name := ""
				func() {
					defer func() { recover() }()
					name = cn.HessianCodecName()
				}()
				codec = "(c " + nameStr(name) + ")"
			}
		}
		fmt.Fprintf(&b, " (%s %s %s %s)", nameStr(hessian.TypeName(t)), nameStr(t.Name()), kind, codec)
	}
	b.WriteString(")")
	return b.String()
}

// flatten registers v (and everything reachable) and returns its address
func (x *xexp) flatten(v reflect.Value) int {
	var key xkey
	if v.CanAddr() && v.Type().Size() > 0 {
		key = xkey{v.UnsafeAddr(), v.Type()}
		if id, ok := x.addrs[key]; ok {
			return id
		}
	}
	id := len(x.nodes)
	x.nodes = append(x.nodes, "")
	if key.t != nil {
		x.addrs[key] = id
	}
	t := x.tid(v.Type())
	body := "r"
	switch v.Kind() {
	case reflect.Ptr:
		if v.IsNil() {
			body = "nil"
		} else {
			body = fmt.Sprintf("(p %d)", x.flatten(v.Elem()))
		}
	case reflect.Interface:
		if v.IsNil() {
			body = "nil"
		} else {
			body = fmt.Sprintf("(i %d)", x.flatten(v.Elem()))
		}
	case reflect.Slice, reflect.Array:
		var ids []string
		for i := 0; i < v.Len(); i++ {
			ids = append(ids, fmt.Sprint(x.flatten(v.Index(i))))
		}
		body = "(l " + strings.Join(ids, " ") + ")"
	case reflect.Map:
		var es []string
		for _, k := range v.MapKeys() {
			es = append(es, fmt.Sprintf("(%d %d)", x.flatten(k), x.flatten(v.MapIndex(k))))
		}
		body = "(m " + strings.Join(es, " ") + ")"
	case reflect.Struct:
		var ids []string
		for i := 0; i < v.NumField(); i++ {
			ids = append(ids, fmt.Sprint(x.flatten(v.Field(i))))
		}
		body = "(s " + strings.Join(ids, " ") + ")"
	}
	x.nodes[id] = fmt.Sprintf("(%d %s)", t, body)
	return id
}

func (x *xexp) heapStr() string { return "(heap " + strings.Join(x.nodes, " ") + ")" }

// canonical rendering of the two maps: sorted, types by their id in the export table
func (x *xexp) mapsStr(tm map[string]reflect.Type, nm map[string]string) string {
	var a, b []string
	for k, t := range tm {
		a = append(a, nameStr(k)+"="+fmt.Sprint(x.tid(t)))
	}
	for k, v := range nm {
		b = append(b, nameStr(k)+"="+nameStr(v))
	}
	sort.Strings(a)
	sort.Strings(b)
	return "tm[" + strings.Join(a, " ") + "] nm[" + strings.Join(b, " ") + "]"
}

// a map with two or more entries whose walk order can matter (interface contents decide which
// dynamic types are met first): the implementation's iteration order is not observable
func orderSensitive(v reflect.Value, seen map[xkey]bool) bool {
	switch v.Kind() {
	case reflect.Ptr, reflect.Interface:
		if v.IsNil() {
			return false
		}
		if v.Kind() == reflect.Ptr {
			k := xkey{v.Pointer(), v.Type()}
			if seen[k] {
				return false
			}
			seen[k] = true
		}
		return orderSensitive(v.Elem(), seen)
	case reflect.Slice, reflect.Array:
		for i := 0; i < v.Len(); i++ {
			if orderSensitive(v.Index(i), seen) {
				return true
			}
		}
	case reflect.Map:
		if v.Len() >= 2 && (holdsInterface(v.Type().Key()) || holdsInterface(v.Type().Elem())) {
			return true
		}
		for _, k := range v.MapKeys() {
			if orderSensitive(k, seen) || orderSensitive(v.MapIndex(k), seen) {
				return true
			}
		}
	case reflect.Struct:
		for i := 0; i < v.NumField(); i++ {
			if orderSensitive(v.Field(i), seen) {
				return true
			}
		}
	}
	return false
}

// the model on the same value: both maps must agree entry for entry
func xtrCorr(c *ctx, witness interface{}, tm map[string]reflect.Type, nm map[string]string) {
	x := newXexp()
	root := "none"
	if witness != nil {
		v := reflect.ValueOf(witness)
		if orderSensitive(v, map[xkey]bool{}) {
			c.dist["xtr_skipped_order_sensitive"]++
			return
		}
		// ValueOf(witness) is not addressable: the root node is fresh, as in the implementation
		root = fmt.Sprint(x.flatten(v))
	}
	// two list types with one wire name ([]*T and []T, known finding C01-F2): which of them the type
	// map keeps under that name depends on Go's map iteration order - not a function of the input
	byWire := map[string]reflect.Type{}
	for k, w := range nm {
		if len(w) > 0 && w[0] == '[' && k != w {
			if t0, ok := byWire[w]; ok && t0 != tm[k] {
				c.dist["xtr_skipped_wire_name_collision"]++
				return
			}
			byWire[w] = tm[k]
		}
	}
	for _, t := range tm { // types the implementation reports must have ids
		x.tid(t)
	}
	ans := "ok " + x.mapsStr(tm, nm)
	env := x.envStr()
	if len(env)+len(x.heapStr()) > 400000 {
		return
	}
	c.corr("xtr "+nameMapStr(hessian.VerifBuiltinNames())+" "+env+" "+x.heapStr()+" "+root, ans)
}

func tmofCorr(c *ctx, t reflect.Type, tm map[string]reflect.Type) {
	x := newXexp()
	id := x.tid(t)
	var a []string
	for k, ty := range tm {
		a = append(a, nameStr(k)+"="+fmt.Sprint(x.tid(ty)))
	}
	sort.Strings(a)
	c.corr(fmt.Sprintf("tmof %s %d", x.envStr(), id), "ok tm["+strings.Join(a, " ")+"]")
}
