// C17: the pool hands each object to one holder at a time and never blocks.
package main

import (
	"bytes"
	"fmt"
	"reflect"
	"strings"
	"sync"
	"time"

	hessian "github.com/vogo/gohessian"
)

func init() { props["C17"] = runC17 }

func newPoolOfKind(kind string, size int) hessian.Pool {
	switch kind {
	case "encoder":
		return hessian.NewEncoderPool(size, map[string]string{"Inner": "Inner"})
	case "decoder":
		return hessian.NewDecoderPool(size, map[string]reflect.Type{"Inner": reflect.TypeOf(Inner{})})
	}
	return hessian.NewSerializerPool(size, map[string]reflect.Type{"Inner": reflect.TypeOf(Inner{})}, map[string]string{"Inner": "Inner"})
}

// is the object usable? (an encoder encodes, a decoder decodes, a serializer does both)
func usable(o interface{}) bool {
	want := []byte{0x91}
	switch x := o.(type) {
	case *hessian.Encoder:
		b, err := x.Encode(int32(1))
		return err == nil && bytes.Equal(b, want)
	case *hessian.Decoder:
		v, err := x.Decode(want)
		return err == nil && v == int32(1)
	case hessian.Serializer:
		b, err := x.ToBytes(int32(1))
		v, err2 := x.ToObject(want)
		return err == nil && err2 == nil && bytes.Equal(b, want) && v == int32(1)
	}
	return false
}

// sequential history against the model: ops "g<c>" / "r<c>:<o>"; results "<obj>/<fill>" or "-/<fill>"
func c17Sequential(c *ctx, seed uint64, size, n int, kind string) {
	r := newRng(seed, "pool")
	p := newPoolOfKind(kind, size)
	ids := map[interface{}]int{}
	var objs []interface{}
	held := map[int][]int{} // client -> objects held
	holder := map[int]int{} // object -> client
	var idle []int          // the harness's own expectation of the pool's content (FIFO)
	var ops, res []string
	in := map[string]interface{}{"op": "pool-seq", "pseed": seed, "size": size, "n": n, "kind": kind}
	for i := 0; i < n; i++ {
		cl := r.intn(4)
		if len(held[cl]) > 0 && r.intn(5) < 2 {
			k := r.intn(len(held[cl]))
			o := held[cl][k]
			held[cl] = append(held[cl][:k], held[cl][k+1:]...)
			delete(holder, o)
			done := make(chan bool, 1)
			go func() { p.Return(objs[o]); done <- true }()
			select {
			case <-done:
			case <-time.After(2 * time.Second):
				c.fail("Return blocks", in, fmt.Sprint("step ", i), "")
				return
			}
			if len(idle) < size {
				idle = append(idle, o)
			}
			fill, capn := hessian.VerifPoolFill(p)
			ops = append(ops, fmt.Sprintf("r%d:%d", cl, o))
			res = append(res, fmt.Sprintf("-/%d", fill))
			if fill != len(idle) || capn != size || fill > size {
				c.fail("pool retains the wrong number of objects", in, fmt.Sprintf("step %d fill %d expected %d size %d", i, fill, len(idle), size), "")
				return
			}
			continue
		}
		var got interface{}
		done := make(chan bool, 1)
		go func() { got = p.Get(); done <- true }()
		select {
		case <-done:
		case <-time.After(2 * time.Second):
			c.fail("Get blocks", in, fmt.Sprint("step ", i), "")
			return
		}
		id, seen := ids[got]
		if !seen {
			id = len(objs)
			ids[got] = id
			objs = append(objs, got)
		}
		if len(idle) == 0 {
			if seen {
				c.fail("Get on an empty pool returned an object that already exists (not fresh)", in, fmt.Sprint("step ", i, " object ", id), "")
				return
			}
			if !usable(got) {
				c.fail("object from an empty pool is not usable", in, fmt.Sprint("step ", i), "")
				return
			}
		} else {
			if id != idle[0] {
				c.fail("Get returned an object other than the one the pool should hand out", in, fmt.Sprintf("step %d got %d expected %d", i, id, idle[0]), "")
				return
			}
			idle = idle[1:]
		}
		if h, isHeld := holder[id]; isHeld {
			c.fail("an object was handed to a second holder while still held", in, fmt.Sprintf("step %d object %d held by %d", i, id, h), "")
			return
		}
		holder[id] = cl
		held[cl] = append(held[cl], id)
		fill, _ := hessian.VerifPoolFill(p)
		ops = append(ops, fmt.Sprintf("g%d", cl))
		res = append(res, fmt.Sprintf("%d/%d", id, fill))
	}
	c.corr(fmt.Sprintf("pool %d %s", size, strings.Join(ops, " ")), strings.Join(res, " "))
}

// concurrent run with an ownership table
func c17Concurrent(c *ctx, seed uint64, size, goroutines, iters int, kind string) {
	in := map[string]interface{}{"op": "pool-conc", "pseed": seed, "size": size, "goroutines": goroutines, "iters": iters, "kind": kind}
	p := newPoolOfKind(kind, size)
	var mu sync.Mutex
	heldBy := map[interface{}]int{}
	var problems []string
	var wg sync.WaitGroup
	for g := 0; g < goroutines; g++ {
		wg.Add(1)
		go func(g int) {
			defer wg.Done()
			r := newRng(seed*1000+uint64(g), "conc")
			var mine []interface{}
			for i := 0; i < iters; i++ {
				if len(mine) > 0 && r.intn(3) > 0 {
					o := mine[len(mine)-1]
					mine = mine[:len(mine)-1]
					mu.Lock()
					delete(heldBy, o)
					mu.Unlock()
					p.Return(o)
					continue
				}
				o := p.Get()
				mu.Lock()
				if h, ok := heldBy[o]; ok {
					problems = append(problems, fmt.Sprintf("object handed to goroutine %d while held by %d", g, h))
				}
				heldBy[o] = g
				mu.Unlock()
				if i%7 == 0 && !usable(o) {
					mu.Lock()
					problems = append(problems, "object not usable")
					mu.Unlock()
				}
				mine = append(mine, o)
			}
			for _, o := range mine {
				mu.Lock()
				delete(heldBy, o)
				mu.Unlock()
				p.Return(o)
			}
		}(g)
	}
	done := make(chan bool, 1)
	go func() { wg.Wait(); done <- true }()
	select {
	case <-done:
	case <-time.After(20 * time.Second):
		c.fail("a pool operation blocks under concurrency", in, "run did not finish in 20 s", "")
		return
	}
	if len(problems) > 0 {
		c.fail("pool ownership violated under concurrency", in, problems[0], "")
	}
	if fill, capn := hessian.VerifPoolFill(p); fill > size || capn != size {
		c.fail("pool retains more than its size", in, fmt.Sprint(fill, " of ", capn), "")
	}
}

// a burst of Gets with nobody returning anything: more callers than the pool holds objects. Every
// Get must complete (the callers that find the pool empty get a fresh object), none may wait for a
// Return that is not coming, and no object may go to two callers.
func c17Burst(c *ctx, seed uint64, size, callers, rounds int, kind string) {
	in := map[string]interface{}{"op": "pool-burst", "pseed": seed, "size": size, "callers": callers, "rounds": rounds, "kind": kind}
	p := newPoolOfKind(kind, size)
	for round := 0; round < rounds; round++ {
		cached := 1 + int((seed+uint64(round))%uint64(size))
		var objs []interface{}
		for i := 0; i < cached; i++ {
			objs = append(objs, p.Get())
		}
		for _, o := range objs {
			p.Return(o)
		}
		start := make(chan struct{})
		got := make(chan interface{}, callers)
		for g := 0; g < callers; g++ {
			go func() {
				<-start
				got <- p.Get()
			}()
		}
		close(start)
		seen := map[interface{}]bool{}
		deadline := time.After(3 * time.Second)
		for g := 0; g < callers; g++ {
			select {
			case o := <-got:
				if seen[o] {
					c.fail("an object was handed to a second holder while still held", in, fmt.Sprint("round ", round), "")
					return
				}
				seen[o] = true
			case <-deadline:
				c.fail("Get blocks: with fewer objects in the pool than callers, a caller waits for a Return instead of getting a fresh object", in, fmt.Sprintf("round %d: %d objects in the pool, %d of %d callers served after 3 s", round, cached, g, callers), "")
				return
			}
		}
	}
}

func runC17(c *ctx) {
	if rp, ok := c.extra["replay"].(string); ok {
		in := loadReplay(rp)
		if in["op"] == "pool-burst" {
			c17Burst(c, uint64(in["pseed"].(float64)), int(in["size"].(float64)), int(in["callers"].(float64)), int(in["rounds"].(float64)), in["kind"].(string))
		} else if in["op"] == "pool-seq" {
			c17Sequential(c, uint64(in["pseed"].(float64)), int(in["size"].(float64)), int(in["n"].(float64)), in["kind"].(string))
		} else {
			c17Concurrent(c, uint64(in["pseed"].(float64)), int(in["size"].(float64)), int(in["goroutines"].(float64)), int(in["iters"].(float64)), in["kind"].(string))
		}
		return
	}
	c.rule = "sequential histories of Get/Return by 4 clients on pools of size 0..8 of all three kinds (encoder, decoder, serializer), incl. Return on a full pool and Get on an empty one, each step compared with the harness's own FIFO expectation and, as a whole trace, with the Coq pool model; concurrent runs with 1..64 goroutines and an ownership table (an object handed out while held, a blocked call, more than `size` retained, an unusable fresh object are the failures); bursts of 8 simultaneous Gets on a pool holding fewer objects, nobody returning (every Get must complete). Distinct by (seed,size,kind[,goroutines]); non-trivial = at least one Return."
	conc := strings.HasSuffix(os_Args0(), "-race") || c.extra["mode"] == "conc"
	_ = conc
	n := 3000
	cn := 60
	if c.tier == "thorough" {
		n, cn = 100000, 2000
	}
	kinds := []string{"encoder", "decoder", "serializer"}
	for i := 0; i < n; i++ {
		seed := c.seed*8191 + uint64(i)
		size := int(seed % 9)
		ln := 5 + int(seed%40)
		c.eval(fmt.Sprint("s", seed))
		c.dist[fmt.Sprint("size_", size)]++
		c17Sequential(c, seed, size, ln, kinds[i%3])
		if i%1000 == 0 {
			c.sample(map[string]interface{}{"op": "pool-seq", "pseed": seed, "size": size, "n": ln, "kind": kinds[i%3]})
		}
	}
	for i := 0; i < cn; i++ {
		seed := c.seed*127 + uint64(i)
		size := int(seed % 9)
		g := []int{1, 2, 3, 4, 8, 16, 32, 64}[i%8]
		c.eval(fmt.Sprint("c", seed, ":", g))
		c.dist[fmt.Sprint("goroutines_", g)]++
		c17Concurrent(c, seed, size, g, 300, kinds[i%3])
	}
	bn := 600
	if c.tier == "thorough" {
		bn = 6000
	}
	for i, size := range []int{1, 2, 4} {
		for k, kind := range kinds {
			seed := c.seed*53 + uint64(i*3+k)
			c.eval(fmt.Sprint("b", seed, ":", size, kind))
			c.dist["get_bursts"] += bn
			c17Burst(c, seed, size, 8, bn, kind)
		}
	}
}
