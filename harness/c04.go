// C04: shared references and cycles survive; encoder and decoder agree on ref ordinals.
package main

import (
	"fmt"
	hessian "github.com/vogo/gohessian"
	"reflect"
	"sort"
	"strings"
	"time"
)

func init() { props["C04"] = runC04 }

type GNode struct {
	Id   int32
	FM   map[string]string // filler: nil or empty map (written as null)
	FT   time.Time         // filler: zero or non-zero timestamp
	FS   string            // filler: string
	FB   []byte            // filler: byte slice
	FL   []int32           // filler: nil slice
	FA   []interface{}     // filler: empty untyped list
	P    *GNode
	Q    *GNode
	Kids []*GNode
	Tab  map[string]*GNode
	Idx  []GIndex           // maps of a named type as list elements (read by the generic value reader)
	PM   *map[string]*GNode // the map of another field, or of another node, through a pointer
}

// a named map type: travels typed ('M' "GIndex" ...) wherever it stands
type GIndex map[string]*GNode

// the seven filler configurations: which non-container filler precedes the pointer fields
func applyFiller(n *GNode, f int) {
	switch f {
	case 0: // all fillers absent: nil map, zero time, "", nil bytes, nil slice
	case 1:
		n.FM = map[string]string{} // empty map
	case 2:
		n.FT = time.Unix(1700000000, 0) // compact date form
	case 3:
		n.FT = time.Unix(1700000000, 5000000) // millisecond date form
	case 4:
		n.FS = "filler"
	case 5:
		n.FB = []byte{1, 2, 3}
	case 7:
		n.FA = []interface{}{}
	case 6:
		n.FA = []interface{}{}
		n.FL = []int32{}
		n.FM = map[string]string{}
		n.FT = time.Unix(-5, 0)
		n.FS = "x"
		n.FB = []byte{}
	}
}

// canonical form of a rooted graph: pointers numbered by first visit in a fixed traversal;
// two graphs have the same form iff they are isomorphic as rooted graphs with equal contents
func graphCanon(root interface{}) string {
	// identity of a pointed-to object: address and type (a struct and its first field share an
	// address; a pointer into the interior of another object is outside what the protocol can
	// express and is compared by contents only)
	type pkey struct {
		p uintptr
		t reflect.Type
	}
	ids := map[pkey]int{}
	var b strings.Builder
	var walk func(v reflect.Value)
	walk = func(v reflect.Value) {
		switch v.Kind() {
		case reflect.Interface:
			if v.IsNil() {
				b.WriteString("nil")
				return
			}
			walk(v.Elem())
		case reflect.Ptr:
			if v.IsNil() {
				b.WriteString("nil")
				return
			}
			if id, ok := ids[pkey{v.Pointer(), v.Type()}]; ok {
				fmt.Fprintf(&b, "#%d", id)
				return
			}
			id := len(ids)
			ids[pkey{v.Pointer(), v.Type()}] = id
			fmt.Fprintf(&b, "(#%d=", id)
			walk(v.Elem())
			b.WriteString(")")
		case reflect.Struct:
			if v.Type() == timeType {
				b.WriteString(canon(v, nil))
				return
			}
			b.WriteString("{")
			for i := 0; i < v.NumField(); i++ {
				b.WriteString(v.Type().Field(i).Name + ":")
				walk(v.Field(i))
				b.WriteString(" ")
			}
			b.WriteString("}")
		case reflect.Slice:
			if v.Type().Elem().Kind() == reflect.Uint8 {
				fmt.Fprintf(&b, "b%x", v.Bytes())
				return
			}
			b.WriteString("[")
			for i := 0; i < v.Len(); i++ {
				walk(v.Index(i))
				b.WriteString(" ")
			}
			b.WriteString("]")
		case reflect.Map:
			if v.Len() > 0 { // a map is one object too: two paths to one map must stay two paths to one map
				if id, ok := ids[pkey{v.Pointer(), v.Type()}]; ok {
					fmt.Fprintf(&b, "#%d", id)
					return
				}
				id := len(ids)
				ids[pkey{v.Pointer(), v.Type()}] = id
				fmt.Fprintf(&b, "#%d=", id)
			}
			keys := v.MapKeys()
			sort.Slice(keys, func(i, j int) bool { return fmt.Sprint(keys[i].Interface()) < fmt.Sprint(keys[j].Interface()) })
			b.WriteString("m[")
			for _, k := range keys {
				fmt.Fprintf(&b, "%v=>", k.Interface())
				walk(v.MapIndex(k))
				b.WriteString(" ")
			}
			b.WriteString("]")
		default:
			b.WriteString(canon(v, nil))
		}
	}
	walk(reflect.ValueOf(root))
	return b.String()
}

// a graph on n nodes from an explicit edge assignment: slot[2*i], slot[2*i+1] in {0 = nil, k+1 = node k}
func buildGraph(n int, slots []int, filler int, extra *rng) *GNode {
	nodes := make([]*GNode, n)
	for i := range nodes {
		nodes[i] = &GNode{Id: int32(i)}
		applyFiller(nodes[i], filler)
	}
	pick := func(s int) *GNode {
		if s == 0 {
			return nil
		}
		return nodes[s-1]
	}
	for i := range nodes {
		nodes[i].P = pick(slots[2*i])
		nodes[i].Q = pick(slots[2*i+1])
	}
	if extra != nil {
		for i := range nodes {
			k := extra.intn(4)
			for j := 0; j < k; j++ {
				nodes[i].Kids = append(nodes[i].Kids, pick(extra.intn(n+1)))
			}
			if i > 0 && extra.intn(4) == 0 {
				nodes[i].Kids = nodes[extra.intn(i)].Kids // the same slice in two nodes
			}
			if extra.intn(3) == 0 {
				// the same named map twice in one list, with another one in between, then more pointers
				idx := GIndex{"a": pick(extra.intn(n + 1)), "b": pick(extra.intn(n + 1))}
				nodes[i].Idx = []GIndex{idx, {"c": pick(extra.intn(n + 1))}, idx}
			}
			k = extra.intn(3)
			if k > 0 {
				nodes[i].Tab = map[string]*GNode{}
				for j := 0; j < k; j++ {
					nodes[i].Tab[fmt.Sprint("k", j)] = pick(extra.intn(n + 1))
				}
				switch extra.intn(6) {
				case 0: // the same map through a pointer on the same node
					m := nodes[i].Tab
					nodes[i].PM = &m
				case 1: // the map of an earlier node, shared as a plain field
					if i > 0 && len(nodes[extra.intn(i)].Tab) > 0 {
						nodes[i].Tab = nodes[extra.intn(i)].Tab
					}
				}
			}
		}
	}
	return nodes[0]
}

// pointers the encoder follows but which are no containers: a node type with a *time.Time field
// in front of its pointer fields (a timestamp reached through a pointer is written as a plain
// date and takes no reference ordinal, on either side)
type SNode struct {
	Id   int32
	When *time.Time
	L    *SNode
	R    *SNode
	Kids []*SNode
}

func genStamped(seed uint64, n int) *SNode {
	r := newRng(seed, "stamped")
	nodes := make([]*SNode, n)
	for i := range nodes {
		nodes[i] = &SNode{Id: int32(i)}
		if r.intn(3) != 0 {
			t := time.Unix(1600000000+int64(r.intn(100000)), int64(r.intn(1000))*1000000)
			nodes[i].When = &t
		}
	}
	pick := func() *SNode {
		k := r.intn(n + 1)
		if k == n {
			return nil
		}
		return nodes[k]
	}
	for _, nd := range nodes {
		nd.L, nd.R = pick(), pick()
		for k := r.intn(3); k > 0; k-- {
			nd.Kids = append(nd.Kids, pick())
		}
	}
	return nodes[0]
}

func genGraph(seed uint64, n int, withContainers bool) interface{} {
	r := newRng(seed, "graph")
	slots := make([]int, 2*n)
	for i := range slots {
		slots[i] = r.intn(n + 1)
	}
	var ex *rng
	if withContainers {
		ex = r
	}
	return buildGraph(n, slots, r.intn(8), ex)
}

// containers that share an address without being the same value: a list of structs and a pointer
// to its first element, a struct and a pointer to its first field, lists of different length
// over one array - each followed by a shared pointer whose ordinal must still be right
type VItem struct {
	V    int32
	Peer *VItem
}
type VHead struct {
	In   VItem // first field: &h.In == &h
	Tail int32
}
type VPool struct {
	Items []VItem
	First *VItem
	Sub1  []VItem
	Sub2  []VItem
	Head  *VHead
	HeadF *VItem
	A     *VItem
	B     *VItem
	Ints1 []int32
	Ints2 []int32
	Ints3 []int32
}

// code selects, per slot, one of a few aliasing choices
func buildPool(code int) *VPool {
	pick := func(n int) int { r := code % n; code /= n; return r }
	p := &VPool{}
	n := pick(4)
	for i := 0; i < n; i++ {
		p.Items = append(p.Items, VItem{V: int32(i + 1)})
	}
	shared := &VItem{V: 99}
	ptrTo := func(k int) *VItem {
		switch {
		case k == 0:
			return nil
		case k == 1:
			return shared
		case k-2 < len(p.Items):
			return &p.Items[k-2]
		}
		return &VItem{V: int32(100 + k)}
	}
	p.First = ptrTo(pick(5))
	switch pick(3) {
	case 1:
		p.Sub1 = p.Items
	case 2:
		if len(p.Items) > 1 {
			p.Sub1 = p.Items[:len(p.Items)-1]
		}
	}
	switch pick(3) {
	case 1:
		if len(p.Items) > 1 {
			p.Sub2 = p.Items[1:]
		}
	case 2:
		if len(p.Items) > 0 {
			p.Sub2 = p.Items[:1]
		}
	}
	if pick(2) == 1 {
		p.Head = &VHead{In: VItem{V: 5}, Tail: 6}
		if pick(2) == 1 {
			p.HeadF = &p.Head.In
		}
	}
	p.A = ptrTo(pick(4))
	p.B = ptrTo(pick(4))
	if len(p.Items) > 0 && pick(2) == 1 {
		p.Items[0].Peer = p.A
	}
	arr := []int32{1, 2, 3, 4}
	p.Ints1 = arr[:pick(4)]
	p.Ints2 = arr[:pick(4)]
	p.Ints3 = arr[pick(2):]
	return p
}

const poolCodes = 4 * 5 * 3 * 3 * 2 * 2 * 4 * 4 * 2 * 4 * 4 * 2

func c04PoolCheck(c *ctx, code int) {
	in := map[string]interface{}{"op": "pool", "code": code}
	p := buildPool(code)
	want := graphCanon(p)
	bs, dec, eo, do, msg := publicRoundTrip(p)
	if eo != oOK {
		c.fail("encoding a graph with containers sharing an address fails", in, eo.String()+": "+msg, "")
		return
	}
	if do != oOK {
		c.fail("decoding the encoder's rendering of a graph with containers sharing an address fails (a reference resolves to the wrong container)", in, do.String()+": "+msg, "")
		return
	}
	if len(bs) < 6000 && c.nCases < c04CorrCap(c) {
		tm, nm := hessian.ExtractTypeNameMap(p)
		if h, err := hparseAll(bs); err == nil {
			encCorr(c, p, nm, bs, h)
		}
		decCorr(c, tm, bs)
	}
	if got := graphCanon(dec); got != want {
		c.fail("decoded graph differs from the original (contents or sharing)", in, diffStr(want, got), "")
	}
}

// both models run on the graphs of the quick tier in full; the thorough tier adds oracle
// evaluations by the million, of which the first 400000 cases also go to the models
func c04CorrCap(c *ctx) int {
	if c.tier == "thorough" {
		return 400000
	}
	return 1 << 30
}

// classifier of known findings
func c04Class(want, got string) string { return "" }

func c04Check(c *ctx, root interface{}, in map[string]interface{}) {
	want := graphCanon(root)
	bs, dec, eo, do, msg := publicRoundTrip(root)
	if eo != oOK {
		c.fail("encoding a pointer graph fails or does not terminate normally", in, eo.String()+": "+msg, "")
		return
	}
	if do != oOK {
		c.fail("decoding the encoder's rendering of a graph fails", in, do.String()+": "+msg, "")
		return
	}
	// both models on the same graph: the encoder model must write these bytes, the decoder model must build this heap
	if len(bs) < 6000 && c.nCases < c04CorrCap(c) {
		tm, nm := hessian.ExtractTypeNameMap(root)
		if h, err := hparseAll(bs); err == nil {
			encCorr(c, root, nm, bs, h)
		}
		decCorr(c, tm, bs)
	}
	got := graphCanon(dec)
	if got != want {
		c.fail("decoded graph is not isomorphic to the original (sharing or contents differ)", in, diffStr(want, got), c04Class(want, got))
	} // the same graph through ONE serializer used for every graph of this run (a one-shot call starts
	// from empty tables: ordinals must not carry over from the graphs before)
	if g, ok := root.(*GNode); ok {
		if c04Reused == nil {
			tm, nm := hessian.ExtractTypeNameMap(genGraph(1, 6, true))
			c04Reused = hessian.NewSerializer(tm, nm)
		}
		var dec2 interface{}
		o, m := guard(func() error {
			b2, err := c04Reused.ToBytes(g)
			if err != nil {
				return err
			}
			dec2, err = c04Reused.ToObject(b2)
			return err
		})
		if o != oOK {
			c.fail("a serializer used for earlier graphs fails on a graph that a fresh one round-trips", in, o.String()+": "+m, "")
		} else if got2 := graphCanon(dec2); got2 != want {
			c.fail("a serializer used for earlier graphs does not return the graph that a fresh one returns", in, diffStr(want, got2), "")
		}
	}
}

var c04Reused hessian.Serializer

func runC04(c *ctx) {
	if rp, ok := c.extra["replay"].(string); ok {
		in := loadReplay(rp)
		if in["op"] == "pool" {
			c04PoolCheck(c, int(in["code"].(float64)))
			return
		}
		if in["op"] == "graph-stamped" {
			c04Check(c, genStamped(uint64(in["gseed"].(float64)), int(in["n"].(float64))), in)
			return
		}
		if in["op"] == "graph-exhaustive" {
			n := int(in["n"].(float64))
			var slots []int
			for _, s := range in["slots"].([]interface{}) {
				slots = append(slots, int(s.(float64)))
			}
			c04Check(c, buildGraph(n, slots, int(in["filler"].(float64)), nil), in)
		} else {
			seed := uint64(in["gseed"].(float64))
			n := int(in["n"].(float64))
			c04Check(c, genGraph(seed, n, true).(*GNode), in)
		}
		return
	}
	c.rule = "pointer graphs over a node type with two pointer fields, a slice-of-pointer and a map-of-pointer field, plus pools in which a list of structs, pointers to its elements, sub-lists of it, a struct and a pointer to its first field share addresses; each preceded by filler fields (nil/empty map, zero/compact/millisecond timestamp, string, bytes, nil slice): EXHAUSTIVELY every assignment of the 2n pointer slots to {nil,n0..} for n<=3 nodes (n<=4 in the thorough tier) x 8 filler configurations, plus random graphs up to 200 nodes with shared slice elements and map values, plus graphs over a node type with a *time.Time field (a pointer the encoder follows that is no container); oracle: canonical rooted-graph form (pointer identity classes + contents) of decode(encode(g)) equals that of g. Distinct by (n, slots, filler) or seed; non-trivial = at least one non-nil pointer."
	maxN := 3
	if c.tier == "thorough" {
		maxN = 4
	}
	exhaustive := 0
	for n := 1; n <= maxN; n++ {
		total := 1
		for i := 0; i < 2*n; i++ {
			total *= n + 1
		}
		slots := make([]int, 2*n)
		for code := 0; code < total; code++ {
			x := code
			nontriv := false
			for i := range slots {
				slots[i] = x % (n + 1)
				x /= n + 1
				if slots[i] != 0 {
					nontriv = true
				}
			}
			for f := 0; f < 8; f++ {
				if n == 4 && (code+f)%3 != 0 { // thorough: one third of the 4-node space per seed-independent stride
					continue
				}
				key := ""
				if nontriv {
					key = fmt.Sprint("x", n, ":", code, ":", f)
				}
				c.eval(key)
				exhaustive++
				in := map[string]interface{}{"op": "graph-exhaustive", "n": n, "slots": append([]int{}, slots...), "filler": f}
				c04Check(c, buildGraph(n, slots, f, nil), in)
				if code == total-1 && f == 0 {
					c.sample(in)
				}
			}
		}
	}
	// containers sharing an address: a stride through the product of aliasing choices
	pn := 3000
	if c.tier == "thorough" {
		pn = 60000
	}
	for i := 0; i < pn; i++ {
		code := int((uint64(i)*2654435761 + c.seed*7919) % poolCodes)
		c.eval(fmt.Sprint("pool", code))
		c.dist["address_sharing_pools"]++
		c04PoolCheck(c, code)
	}
	c.dist["exhaustive_graphs"] = exhaustive
	c.extra["exhaustive_upto_nodes"] = 3
	rn := 600
	if c.tier == "thorough" {
		rn = 20000
	}
	for i := 0; i < rn; i++ {
		seed := c.seed*977 + uint64(i)
		n := 1 + int(seed%9)
		if i%50 == 0 {
			n = 50 + int(seed%150)
		}
		c.eval(fmt.Sprint("r", seed, ":", n))
		c.dist["random_graphs"]++
		in := map[string]interface{}{"op": "graph-random", "gseed": seed, "n": n}
		c04Check(c, genGraph(seed, n, true).(*GNode), in)
	}
	// timestamps behind pointers in front of shared pointers
	sn := 300
	if c.tier == "thorough" {
		sn = 10000
	}
	for i := 0; i < sn; i++ {
		seed := c.seed*389 + uint64(i)
		n := 2 + int(seed%7)
		c.eval(fmt.Sprint("s", seed, ":", n))
		c.dist["stamped_graphs"]++
		in := map[string]interface{}{"op": "graph-stamped", "gseed": seed, "n": n}
		c04Check(c, genStamped(seed, n), in)
	}
}
