// C09: strings and byte arrays of any length and content are carried exactly.
package main

import (
	"bytes"
	"fmt"
	"reflect"
	"strings"
	"unicode/utf8"

	hessian "github.com/vogo/gohessian"
)

func init() { props["C09"] = runC09 }

type FStr struct{ V string }
type FBytes struct{ V []byte }

const strChunk = 2048
const binChunk = 4096

func runesHex(s string) string {
	if s == "" {
		return "-"
	}
	var b strings.Builder
	first := true
	for _, r := range s {
		if !first {
			b.WriteByte(',')
		}
		first = false
		fmt.Fprintf(&b, "%x", r)
	}
	return b.String()
}

// content classes
func mkString(class string, n int, widePos int, r *rng) string {
	var b strings.Builder
	for i := 0; i < n; i++ {
		switch class {
		case "ascii":
			b.WriteByte(byte('a' + i%26))
		case "2byte":
			b.WriteRune(rune(0x80 + (i*7)%0x700))
		case "3byte":
			b.WriteRune(rune(0x4e00 + (i*13)%0x5000))
		case "4byte":
			b.WriteRune(rune(0x1F600 + i%64))
		case "widewalk": // ASCII with one 4-byte code point at widePos
			if i == widePos {
				b.WriteRune(0x1F600)
			} else {
				b.WriteByte(byte('a' + i%26))
			}
		case "mixed":
			switch r.intn(4) {
			case 0:
				b.WriteByte(byte(0x20 + r.intn(0x5f)))
			case 1:
				b.WriteRune(rune(0x80 + r.intn(0x780)))
			case 2:
				x := rune(0x800 + r.intn(0xF800))
				if x >= 0xD800 && x <= 0xDFFF {
					x = 0x4e2d
				}
				b.WriteRune(x)
			default:
				b.WriteRune(rune(0x10000 + r.intn(0x100000)))
			}
		}
	}
	return b.String()
}

// walk the chunks of an encoded string per the grammar; returns chunk rune counts and whether
// every chunk payload is whole code points
func walkStringChunks(bs []byte) (total int, ok bool, why string) {
	i := 0
	for {
		if i >= len(bs) {
			return total, false, "ran out of bytes"
		}
		tag := bs[i]
		var n int
		final := true
		switch {
		case tag <= 0x1f:
			n = int(tag)
			i++
		case tag >= 0x30 && tag <= 0x33:
			if i+1 >= len(bs) {
				return total, false, "truncated"
			}
			n = int(tag-0x30)<<8 + int(bs[i+1])
			i += 2
		case tag == 'S' || tag == 'R':
			if i+2 >= len(bs) {
				return total, false, "truncated"
			}
			n = int(bs[i+1])<<8 + int(bs[i+2])
			i += 3
			final = tag == 'S'
		default:
			return total, false, fmt.Sprintf("bad string tag %02x at %d", tag, i)
		}
		for k := 0; k < n; k++ {
			if i >= len(bs) {
				return total, false, "chunk shorter than its prefix says"
			}
			r, sz := utf8.DecodeRune(bs[i:])
			if r == utf8.RuneError && sz <= 1 {
				return total, false, fmt.Sprintf("chunk contains a broken code point at %d", i)
			}
			i += sz
		}
		total += n
		if final {
			if i != len(bs) {
				return total, false, "bytes left over after the final chunk"
			}
			return total, true, ""
		}
	}
}
func walkBinaryChunks(bs []byte) (total int, ok bool, why string) {
	i := 0
	for {
		if i >= len(bs) {
			return total, false, "ran out of bytes"
		}
		tag := bs[i]
		var n int
		final := true
		switch {
		case tag >= 0x20 && tag <= 0x2f:
			n = int(tag - 0x20)
			i++
		case tag >= 0x34 && tag <= 0x37:
			n = int(tag-0x34)<<8 + int(bs[i+1])
			i += 2
		case tag == 'B' || tag == 'A':
			if i+2 >= len(bs) {
				return total, false, "truncated"
			}
			n = int(bs[i+1])<<8 + int(bs[i+2])
			i += 3
			final = tag == 'B'
		default:
			return total, false, fmt.Sprintf("bad binary tag %02x at %d", tag, i)
		}
		if i+n > len(bs) {
			return total, false, "chunk shorter than its prefix says"
		}
		i += n
		total += n
		if final {
			if i != len(bs) {
				return total, false, "bytes left over after the final chunk"
			}
			return total, true, ""
		}
	}
}

func runC09(c *ctx) {
	if rp, ok := c.extra["replay"].(string); ok {
		in := loadReplay(rp)
		r := newRng(uint64(in["rseed"].(float64)), "C09-replay")
		if in["op"] == "string" {
			c09String(c, mkString(in["class"].(string), int(in["len"].(float64)), int(in["wide"].(float64)), r), in["class"].(string), int(in["wide"].(float64)), uint64(in["rseed"].(float64)), true, true)
		} else {
			c09Binary(c, mkBytes(int(in["len"].(float64)), r), uint64(in["rseed"].(float64)), true, true)
		}
		return
	}
	c.rule = "strings: lengths 0..3*2048+40 (every boundary +-3 and a stride in the quick tier, all in the thorough tier) x {ascii, 2-, 3-, 4-byte, mixed, ascii with one 4-byte code point walked over every offset in +-4 of each chunk boundary}; byte slices: lengths 0..3*4096+40 likewise; leaf + positions (top, list element, map key, map value, struct field). Distinct by (class,length,offset/seed); non-trivial = length > 0."
	thorough := c.tier == "thorough"
	var lens []int
	maxS := 3*strChunk + 40
	for n := 0; n <= maxS; n++ {
		near := false
		for _, b := range []int{0, 31, 32, 255, 256, 1023, 1024, strChunk, 2 * strChunk, 3 * strChunk, strChunk + 31, strChunk + 1023, maxS} {
			if n >= b-3 && n <= b+3 {
				near = true
			}
		}
		if thorough || near || n%97 == 0 {
			lens = append(lens, n)
		}
	}
	for li, n := range lens {
		for ci, class := range []string{"ascii", "2byte", "3byte", "4byte", "mixed"} {
			if !thorough && n > 300 && (li+ci)%2 == 1 {
				continue
			}
			rs := c.seed*1000003 + uint64(n)*7 + uint64(ci)
			s := mkString(class, n, -1, newRng(rs, "C09-str"))
			model := n <= 2200 || li%9 == 0
			c09String(c, s, class, -1, rs, (li+ci)%6 == 0, model)
		}
	}
	// one wide code point walked across every offset around each chunk boundary
	for _, total := range []int{strChunk + 5, 2*strChunk + 5, 3*strChunk + 5} {
		for _, b := range []int{strChunk, 2 * strChunk, 3 * strChunk} {
			for off := b - 4; off <= b+4; off++ {
				if off < total {
					c09String(c, mkString("widewalk", total, off, nil), "widewalk", off, 0, off%3 == 0, total <= strChunk+5 || off%4 == 0)
				}
			}
		}
	}
	// byte slices
	maxB := 3*binChunk + 40
	for n := 0; n <= maxB; n++ {
		near := false
		for _, b := range []int{0, 15, 16, 255, 256, 1023, 1024, binChunk, 2 * binChunk, 3 * binChunk, binChunk + 15, maxB} {
			if n >= b-3 && n <= b+3 {
				near = true
			}
		}
		if thorough || near || n%211 == 0 {
			rs := c.seed*7919 + uint64(n)
			c09Binary(c, mkBytes(n, newRng(rs, "C09-bin")), rs, n%5 == 0, n <= 4200 || n%3 == 0)
		}
	}
	if thorough {
		r := newRng(c.seed, "C09-big")
		for i := 0; i < 12; i++ {
			n := 100000 + r.intn(950000)
			rs := c.seed + uint64(i)
			c09String(c, mkString("mixed", n/3, -1, newRng(rs, "C09-str")), "mixed", -1, rs, true, false)
			c09Binary(c, mkBytes(n, newRng(rs, "C09-bin")), rs, true, false)
		}
	}
	// decoders on arbitrary and damaged input (correspondence only)
	r := newRng(c.seed, "C09-dec")
	for k := 0; k < 1500; k++ {
		var bs []byte
		switch r.intn(3) {
		case 0: // a valid encoding, truncated or with a flipped byte
			s := mkString("mixed", r.intn(70), -1, r)
			bs = append([]byte{}, hessian.VerifEncodeString(s)...)
			if len(bs) > 1 && r.bool() {
				bs = bs[:1+r.intn(len(bs)-1)]
			} else if len(bs) > 0 {
				bs[r.intn(len(bs))] ^= byte(1 << uint(r.intn(8)))
			}
		case 1: // hand-made chunk sequences incl. growing chunks
			for j := 0; j < 1+r.intn(3); j++ {
				n := r.intn(6)
				tag := []byte{'R', 'S', byte(n), 0x30}[r.intn(4)]
				switch tag {
				case 'R', 'S':
					bs = append(bs, tag, 0, byte(n))
				case 0x30:
					bs = append(bs, tag, byte(n))
				default:
					bs = append(bs, tag)
				}
				bs = append(bs, []byte(mkString("mixed", n, -1, r))...)
			}
		default:
			n := r.intn(12)
			for j := 0; j < n; j++ {
				bs = append(bs, byte(r.u64()))
			}
		}
		c09DecStr(c, bs)
		// same for binary
		var bb []byte
		for j := 0; j < 1+r.intn(3); j++ {
			n := r.intn(6)
			tag := []byte{'A', 'B', byte(0x20 + n), 'b'}[r.intn(4)]
			if tag == 'A' || tag == 'B' || tag == 'b' {
				bb = append(bb, tag, 0, byte(n))
			} else {
				bb = append(bb, tag)
			}
			for q := 0; q < n; q++ {
				bb = append(bb, byte(r.u64()))
			}
		}
		if r.intn(4) == 0 && len(bb) > 1 {
			bb = bb[:1+r.intn(len(bb)-1)]
		}
		c09DecBin(c, bb)
	}
}

func mkBytes(n int, r *rng) []byte {
	b := make([]byte, n)
	for i := range b {
		b[i] = byte(r.u64())
	}
	return b
}

func c09DecStr(c *ctx, bs []byte) {
	rd := rdr(bs)
	var got string
	o, _ := guard(func() error { var e error; got, e = hessian.VerifDecodeString(rd); return e })
	ans := o.String()
	if o == oOK {
		ans = fmt.Sprintf("ok %s %d", runesHex(got), rd.Buffered())
	}
	c.corr("decstr "+hx(bs), ans)
}
func c09DecBin(c *ctx, bs []byte) {
	rd := rdr(bs)
	var got []byte
	o, _ := guard(func() error { var e error; got, e = hessian.VerifDecodeBinary(rd); return e })
	ans := o.String()
	if o == oOK {
		ans = fmt.Sprintf("ok %s %d", hx(got), rd.Buffered())
	}
	c.corr("decbin "+hx(bs), ans)
}

func c09String(c *ctx, s, class string, wide int, rseed uint64, positions, model bool) {
	n := utf8.RuneCountInString(s)
	in := map[string]interface{}{"op": "string", "class": class, "len": n, "wide": wide, "rseed": rseed}
	bs := hessian.VerifEncodeString(s)
	if model {
		c.corr("encstr "+runesHex(s), hx(bs))
	}
	key := ""
	if n > 0 {
		key = fmt.Sprint("s:", class, n, wide, rseed)
	}
	c.eval(key)
	c.dist["str:"+class]++
	total, ok, why := walkStringChunks(bs)
	if !ok || total != n {
		c.fail("string chunks malformed (prefix must count code points, chunks must hold whole code points)", in, fmt.Sprintf("%s; prefixes sum to %d, string has %d", why, total, n), "")
	}
	rd := rdr(append(append([]byte{}, bs...), 0x91))
	var got string
	o, msg := guard(func() error { var e error; got, e = hessian.VerifDecodeString(rd); return e })
	if o != oOK || got != s || rd.Buffered() != 1 {
		c.fail("string leaf round trip", in, fmt.Sprintf("%v %s equal=%v left=%d", o, msg, got == s, rd.Buffered()), "")
	}
	if model {
		c09DecStr(c, bs)
	}
	if !positions {
		return
	}
	c.sample(in)
	chk := func(pos string, val interface{}, extract func(interface{}) (string, bool)) {
		_, dec, eo, do, m := publicRoundTrip(val)
		c.eval(fmt.Sprint(pos, ":", class, n, wide, rseed))
		c.dist["pos:"+pos]++
		pin := map[string]interface{}{"op": "string", "class": class, "len": n, "wide": wide, "rseed": rseed, "pos": pos}
		if eo != oOK || do != oOK {
			c.fail("string round trip fails at position", pin, fmt.Sprint(eo, do, m), "")
			return
		}
		g, ok := extract(dec)
		if !ok || g != s {
			c.fail("string altered at position", pin, fmt.Sprintf("decoded %T, equal=%v", dec, g == s), "")
		}
	}
	chk("top", s, func(d interface{}) (string, bool) {
		if d == nil { // an absent string equals the empty string
			return "", true
		}
		g, ok := d.(string)
		return g, ok
	})
	chk("field", &FStr{s}, func(d interface{}) (string, bool) {
		p, ok := d.(*FStr)
		if !ok || p == nil {
			return "", false
		}
		return p.V, true
	})
	chk("list", []string{"x", s, "y"}, func(d interface{}) (string, bool) {
		l, ok := d.([]string)
		if !ok || len(l) != 3 || l[0] != "x" || l[2] != "y" {
			return "", false
		}
		return l[1], true
	})
	chk("mapvalue", map[string]string{"k": s, "z": "w"}, func(d interface{}) (string, bool) {
		rv := reflect.ValueOf(d)
		if rv.Kind() != reflect.Map || rv.Len() != 2 {
			return "", false
		}
		for _, k := range rv.MapKeys() {
			if ks, _ := k.Interface().(string); ks == "k" {
				g, ok := rv.MapIndex(k).Interface().(string)
				return g, ok
			}
		}
		return "", false
	})
	chk("mapkey", map[string]string{s: "v", s + "!": "w"}, func(d interface{}) (string, bool) {
		rv := reflect.ValueOf(d)
		if rv.Kind() != reflect.Map || rv.Len() != 2 {
			return "", false
		}
		for _, k := range rv.MapKeys() {
			if g, _ := rv.MapIndex(k).Interface().(string); g == "v" {
				ks, ok := k.Interface().(string)
				return ks, ok
			}
		}
		return "", false
	})
}

func c09Binary(c *ctx, b []byte, rseed uint64, positions, model bool) {
	in := map[string]interface{}{"op": "binary", "len": len(b), "rseed": rseed}
	bs := hessian.VerifEncodeBinary(b)
	if model {
		c.corr("encbin "+hx(b), hx(bs))
	}
	key := ""
	if len(b) > 0 {
		key = fmt.Sprint("b:", len(b), rseed)
	}
	c.eval(key)
	c.dist["binary"]++
	total, ok, why := walkBinaryChunks(bs)
	if !ok || total != len(b) {
		c.fail("binary chunks malformed (prefix must count octets)", in, fmt.Sprintf("%s; prefixes sum to %d, slice has %d", why, total, len(b)), "")
	}
	rd := rdr(append(append([]byte{}, bs...), 0x91))
	var got []byte
	o, msg := guard(func() error { var e error; got, e = hessian.VerifDecodeBinary(rd); return e })
	if o != oOK || !bytes.Equal(got, b) || rd.Buffered() != 1 {
		c.fail("binary leaf round trip", in, fmt.Sprintf("%v %s equal=%v left=%d", o, msg, bytes.Equal(got, b), rd.Buffered()), "")
	}
	if model {
		c09DecBin(c, bs)
	}
	if !positions {
		return
	}
	c.sample(in)
	chk := func(pos string, val interface{}, extract func(interface{}) ([]byte, bool)) {
		_, dec, eo, do, m := publicRoundTrip(val)
		c.eval(fmt.Sprint(pos, ":bin", len(b), rseed))
		c.dist["pos:bin-"+pos]++
		pin := map[string]interface{}{"op": "binary", "len": len(b), "rseed": rseed, "pos": pos}
		if eo != oOK || do != oOK {
			c.fail("binary round trip fails at position", pin, fmt.Sprint(eo, do, m), "")
			return
		}
		g, ok := extract(dec)
		if !ok || !bytes.Equal(g, b) {
			c.fail("byte slice altered at position", pin, fmt.Sprintf("decoded %T len %d", dec, len(g)), "")
		}
	}
	asBytes := func(d interface{}) ([]byte, bool) {
		if d == nil {
			return nil, true
		}
		g, ok := d.([]byte)
		return g, ok
	}
	chk("top", b, asBytes)
	chk("field", &FBytes{b}, func(d interface{}) ([]byte, bool) {
		p, ok := d.(*FBytes)
		if !ok || p == nil {
			return nil, false
		}
		return p.V, true
	})
	chk("list", [][]byte{{1}, b, {2}}, func(d interface{}) ([]byte, bool) {
		rv := reflect.ValueOf(d)
		if rv.Kind() != reflect.Slice || rv.Len() != 3 {
			return nil, false
		}
		return asBytes(rv.Index(1).Interface())
	})
	chk("mapvalue", map[string][]byte{"k": b}, func(d interface{}) ([]byte, bool) {
		rv := reflect.ValueOf(d)
		if rv.Kind() != reflect.Map || rv.Len() != 1 {
			return nil, false
		}
		return asBytes(rv.MapIndex(rv.MapKeys()[0]).Interface())
	})
}
