// Harness shared infrastructure: PRNG, silent logger, guarded calls, output files.
package main

import (
	"bufio"
	"bytes"
	"encoding/hex"
	"encoding/json"
	"fmt"
	"os"
	"path/filepath"
	"strconv"
	"strings"

	hessian "github.com/vogo/gohessian"
)

// ---- one PRNG state for every random choice (splitmix64)
type rng struct{ s uint64 }

func newRng(seed uint64, stream string) *rng {
	h := seed*0x9E3779B97F4A7C15 + 0x1234567
	for _, c := range stream {
		h = (h ^ uint64(c)) * 0x100000001b3
	}
	return &rng{h}
}
func (r *rng) u64() uint64 {
	r.s += 0x9E3779B97F4A7C15
	z := r.s
	z = (z ^ (z >> 30)) * 0xBF58476D1CE4E5B9
	z = (z ^ (z >> 27)) * 0x94D049BB133111EB
	return z ^ (z >> 31)
}
func (r *rng) intn(n int) int {
	if n <= 0 {
		return 0
	}
	return int(r.u64() % uint64(n))
}
func (r *rng) bool() bool { return r.u64()&1 == 1 }

// log-uniform signed 64-bit
func (r *rng) logInt64() int64 {
	bits := uint(r.intn(64)) + 1
	v := r.u64() >> (64 - bits)
	if r.bool() {
		return -int64(v)
	}
	return int64(v)
}

// ---- silent logger
type silent struct{}

func (silent) Info(...interface{})           {}
func (silent) Warn(...interface{})           {}
func (silent) Error(...interface{})          {}
func (silent) Debug(...interface{})          {}
func (silent) Infof(string, ...interface{})  {}
func (silent) Warnf(string, ...interface{})  {}
func (silent) Errorf(string, ...interface{}) {}
func (silent) Debugf(string, ...interface{}) {}
func (silent) Printf(string, ...interface{}) {}
func (silent) Println(...interface{})        {}

func init() { hessian.SetLogger(silent{}) }

// ---- guarded call
type outcome int

const (
	oOK outcome = iota
	oErr
	oPanic
)

func (o outcome) String() string { return [...]string{"ok", "err", "panic"}[o] }

func guard(f func() error) (o outcome, msg string) {
	defer func() {
		if r := recover(); r != nil {
			o, msg = oPanic, fmt.Sprint(r)
		}
	}()
	if err := f(); err != nil {
		return oErr, err.Error()
	}
	return oOK, ""
}

// ---- run context
type failure struct {
	What   string      `json:"what"`
	Input  interface{} `json:"input"`
	Detail string      `json:"detail"`
	Class  string      `json:"class"` // known-finding classifier id, "" when unclassified
}

type ctx struct {
	prop       string
	seed       uint64
	tier       string
	outDir     string
	cases      *bufio.Writer
	impl       *bufio.Writer
	casesF     *os.File
	implF      *os.File
	nCases     int
	evals      int
	nontrivial map[string]struct{}
	samples    []interface{}
	dist       map[string]int
	failures   []failure
	rule       string
	extra      map[string]interface{}
}

var traceF *os.File

func init() {
	if p := os.Getenv("HX_TRACE"); p != "" {
		traceF, _ = os.Create(p)
	}
}

func newCtx(prop string, seed uint64, tier, outDir string) *ctx {
	c := &ctx{prop: prop, seed: seed, tier: tier, outDir: outDir, nontrivial: map[string]struct{}{}, dist: map[string]int{}, extra: map[string]interface{}{}}
	var err error
	c.casesF, err = os.Create(filepath.Join(outDir, prop+".cases"))
	must(err)
	c.implF, err = os.Create(filepath.Join(outDir, prop+".impl"))
	must(err)
	c.cases = bufio.NewWriterSize(c.casesF, 1<<20)
	c.impl = bufio.NewWriterSize(c.implF, 1<<20)
	return c
}

func must(err error) {
	if err != nil {
		fmt.Fprintln(os.Stderr, "harness:", err)
		os.Exit(2)
	}
}

// a correspondence case: the model is asked `q`, the implementation answered `a`
func (c *ctx) corr(q, a string) {
	c.cases.WriteString(q)
	c.cases.WriteByte('\n')
	c.impl.WriteString(a)
	c.impl.WriteByte('\n')
	c.nCases++
}

// count one evaluation of the direct oracle; key identifies the distinct case when non-trivial
func (c *ctx) eval(nontrivialKey string) {
	if traceF != nil { // crash location: one unbuffered line per case, written before the case runs
		traceF.WriteString(fmt.Sprintf("%d:%s\n", c.evals, nontrivialKey))
	}
	c.evals++
	if nontrivialKey != "" {
		c.nontrivial[nontrivialKey] = struct{}{}
	}
}
// failures that no known-finding classifier claims
func (c *ctx) unclassified() int {
	n := 0
	for _, f := range c.failures {
		if f.Class == "" {
			n++
		}
	}
	return n
}
func (c *ctx) sample(s interface{}) {
	if len(c.samples) < 12 {
		c.samples = append(c.samples, s)
	}
}
func (c *ctx) fail(what string, input interface{}, detail, class string) {
	// at most 200 unclassified failures and 25 of each known class are kept: failures of a known
	// finding must never crowd out a new one
	kept := c.dist["kept:"+class]
	if (class == "" && kept < 200) || (class != "" && kept < 25) {
		c.failures = append(c.failures, failure{what, input, detail, class})
		c.dist["kept:"+class]++
	} else {
		c.dist["failures_dropped"]++
	}
	if class == "" {
		c.dist["fail:unclassified"]++
	} else {
		c.dist["fail:"+class]++
	}
}

func (c *ctx) finish() {
	c.cases.Flush()
	c.impl.Flush()
	c.casesF.Close()
	c.implF.Close()
	if c.failures == nil {
		c.failures = []failure{}
	}
	if c.samples == nil {
		c.samples = []interface{}{}
	}
	out := map[string]interface{}{
		"property": c.prop, "seed": c.seed, "tier": c.tier,
		"evaluations": c.evals, "distinct_nontrivial": len(c.nontrivial),
		"corr_cases": c.nCases, "samples": c.samples, "distribution": c.dist,
		"failures": c.failures, "rule": c.rule, "extra": c.extra,
	}
	b, err := json.MarshalIndent(out, "", " ")
	must(err)
	must(os.WriteFile(filepath.Join(c.outDir, c.prop+".oracle.json"), b, 0o644))
}

func hx(b []byte) string {
	if len(b) == 0 {
		return "-"
	}
	return hex.EncodeToString(b)
}
func unhx(s string) []byte {
	if s == "-" {
		return nil
	}
	b, err := hex.DecodeString(s)
	must(err)
	return b
}
func zhex(v int64) string  { return strconv.FormatInt(v, 16) }
func uhex(v uint64) string { return strconv.FormatUint(v, 16) }

// a reader whose Buffered() is exactly the number of unread bytes after the first read
func rdr(b []byte) *bufio.Reader { return bufio.NewReaderSize(bytes.NewReader(b), len(b)+64) }

var _ = strings.Join
