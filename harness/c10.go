// C10: timestamps keep their instant at millisecond resolution over years 1..9999.
package main

import (
	"fmt"
	"time"

	hessian "github.com/vogo/gohessian"
)

func init() { props["C10"] = runC10 }

type FTime struct{ V time.Time }

const (
	minSec = -62135596800 // 0001-01-01T00:00:00Z
	maxSec = 253402300799 // 9999-12-31T23:59:59Z
)

func c10Values(c *ctx) (out [][2]int64) {
	r := newRng(c.seed, "C10")
	add := func(sec, nsec int64) {
		if sec < minSec || sec > maxSec || nsec < 0 || nsec >= 1e9 {
			return
		}
		out = append(out, [2]int64{sec, nsec})
	}
	bounds := []int64{0, 1 << 31, -(1 << 31), 1<<31 - 1, minSec, maxSec, 60, -60, 3600,
		time.Date(1677, 9, 21, 0, 12, 43, 0, time.UTC).Unix(), time.Date(1678, 1, 1, 0, 0, 0, 0, time.UTC).Unix(),
		time.Date(2262, 4, 11, 23, 47, 16, 0, time.UTC).Unix(), time.Date(2263, 1, 1, 0, 0, 0, 0, time.UTC).Unix(),
		time.Date(2038, 1, 19, 3, 14, 7, 0, time.UTC).Unix(), time.Date(1901, 12, 13, 20, 45, 52, 0, time.UTC).Unix(),
		time.Date(2040, 1, 1, 0, 0, 0, 0, time.UTC).Unix(), time.Date(3000, 1, 1, 0, 0, 0, 0, time.UTC).Unix(),
		time.Date(1969, 12, 31, 23, 58, 20, 0, time.UTC).Unix(), 894621091, 894621060}
	fr := []int64{0, 1, 999, 1000, 999999, 1000000, 1000001, 500000000, 999000000, 999999999, 5000000, 123000000}
	for _, b := range bounds {
		for d := int64(-2); d <= 2; d++ {
			for _, n := range fr {
				add(b+d, n)
			}
		}
	}
	n := 20000
	if c.tier == "thorough" {
		n = 2000000
	}
	span := uint64(maxSec - minSec + 1)
	for i := 0; i < n; i++ {
		sec := minSec + int64(r.u64()%span)
		switch r.intn(4) {
		case 0:
			add(sec, 0)
		case 1:
			add(sec, int64(r.intn(1000))*1000000)
		case 2:
			add(sec, int64(r.intn(1000000000)))
		case 3:
			add(int64(int32(r.u64())), int64(r.intn(2))*int64(r.intn(1000))*1000000)
		}
	}
	return
}

func runC10(c *ctx) {
	if rp, ok := c.extra["replay"].(string); ok {
		in := loadReplay(rp)
		c10One(c, int64(in["sec"].(float64)), int64(in["nsec"].(float64)), true)
		return
	}
	c.rule = "instants (sec,nsec) with year 1..9999: every named boundary (+-2^31 s, epoch, years 1, 1677/1678, 2262/2263, 9999, 2038, 1901) +-2 s x 12 sub-second parts, uniform over the whole range with whole-second / whole-millisecond / arbitrary nanosecond parts; leaf + positions (top, struct field, []time.Time). Distinct by (sec,nsec); non-trivial = not the zero time."
	vals := c10Values(c)
	for i, v := range vals {
		c10One(c, v[0], v[1], i%20 == 0)
	}
	// decoder on arbitrary tails
	r := newRng(c.seed, "C10-dec")
	for _, tag := range []byte{0x4a, 0x4b, 'N', 0x4c} {
		for k := 0; k < 300; k++ {
			n := r.intn(11)
			bs := []byte{tag}
			for i := 0; i < n; i++ {
				b := byte(r.u64())
				if i < 3 && r.intn(3) > 0 {
					b = byte(int8(r.intn(3) - 1)) // keep most values within years 1..9999-ish
				}
				bs = append(bs, b)
			}
			c10Dec(c, bs)
		}
	}
}

func c10Dec(c *ctx, bs []byte) {
	rd := rdr(bs)
	var got time.Time
	o, _ := guard(func() error { var e error; got, e = hessian.VerifDecodeDate(rd); return e })
	ans := o.String()
	if o == oOK {
		ans = fmt.Sprintf("ok %s %s %d", zhex(got.Unix()), zhex(int64(got.Nanosecond())), rd.Buffered())
	}
	c.corr("decdate "+hx(bs), ans)
}

func c10One(c *ctx, sec, nsec int64, positions bool) {
	t := time.Unix(sec, nsec).UTC()
	in := map[string]interface{}{"op": "date", "sec": sec, "nsec": nsec, "utc": t.Format(time.RFC3339Nano)}
	var bs []byte
	o, msg := guard(func() error { bs = hessian.VerifEncodeDate(t); return nil })
	ans := o.String()
	if o == oOK {
		ans = hx(bs)
	}
	c.corr(fmt.Sprintf("encdate %s %s", zhex(sec), zhex(nsec)), ans)
	key := ""
	if !t.IsZero() {
		key = fmt.Sprint(sec, ".", nsec)
	}
	c.eval(key)
	if o != oOK {
		c.fail("encodeDate panics", in, msg, "")
		return
	}
	c.dist[fmt.Sprintf("form_%02x", bs[0])]++
	wantMs := sec*1000 + nsec/1000000
	check := func(pos string, got time.Time) {
		gotMs := got.Unix()*1000 + int64(got.Nanosecond())/1000000
		if gotMs != wantMs || got.Nanosecond()%1000000 != 0 {
			pin := map[string]interface{}{"op": "date", "sec": sec, "nsec": nsec, "pos": pos}
			c.fail("instant not preserved at millisecond resolution", pin, fmt.Sprintf("sent %s got %s", t.Format(time.RFC3339Nano), got.UTC().Format(time.RFC3339Nano)), "")
		}
	}
	if t.IsZero() {
		if len(bs) != 1 || bs[0] != 'N' {
			c.fail("zero time is not carried as null", in, hx(bs), "")
		}
	} else {
		rd := rdr(append(append([]byte{}, bs...), 0x91))
		var got time.Time
		o, msg = guard(func() error { var e error; got, e = hessian.VerifDecodeDate(rd); return e })
		if o != oOK || rd.Buffered() != 1 {
			c.fail("date leaf decode", in, fmt.Sprint(o, msg, rd.Buffered()), "")
		} else {
			check("leaf", got)
		}
		c10Dec(c, bs)
	}
	if !positions {
		return
	}
	c.sample(in)
	// positions
	_, dec, eo, do, m := publicRoundTrip(&FTime{t})
	c.eval(fmt.Sprint("field:", sec, ".", nsec))
	if eo != oOK || do != oOK {
		c.fail("struct field round trip fails", in, fmt.Sprint(eo, do, m), "")
	} else if p, ok := dec.(*FTime); !ok || p == nil {
		c.fail("struct field: wrong shape", in, fmt.Sprintf("%T", dec), "")
	} else if t.IsZero() {
		if !p.V.IsZero() {
			c.fail("zero time in a field does not come back as the zero time", in, p.V.String(), "")
		}
	} else {
		check("field", p.V)
	}
	if !t.IsZero() {
		_, dec, eo, do, m = publicRoundTrip(t)
		c.eval(fmt.Sprint("top:", sec, ".", nsec))
		if g, ok := dec.(time.Time); eo != oOK || do != oOK || !ok {
			c.fail("top-level round trip fails", in, fmt.Sprint(eo, do, m, dec), "")
		} else {
			check("top", g)
		}
		_, dec, eo, do, m = publicRoundTrip([]time.Time{t, t})
		c.eval(fmt.Sprint("list:", sec, ".", nsec))
		if g, ok := dec.([]time.Time); eo != oOK || do != oOK || !ok || len(g) != 2 {
			c.fail("[]time.Time round trip fails", in, fmt.Sprintf("%v %v %s %T %v", eo, do, m, dec, dec), "")
		} else {
			check("list", g[0])
			check("list", g[1])
		}
	}
}
