package main

import (
	"flag"
	"fmt"
	"os"
)

var props = map[string]func(*ctx){}

func main() {
	if len(os.Args) < 2 {
		fmt.Fprintln(os.Stderr, "usage: hx <property> [-seed n] [-tier quick|thorough] [-out dir] [-replay file]")
		os.Exit(2)
	}
	prop := os.Args[1]
	fs := flag.NewFlagSet("hx", flag.ExitOnError)
	seed := fs.Uint64("seed", 1, "seed")
	tier := fs.String("tier", "quick", "tier")
	out := fs.String("out", ".", "output directory")
	replay := fs.String("replay", "", "replay file")
	fs.Parse(os.Args[2:])
	if prop == "worker" { // subprocess mode for hostile inputs
		workerMain()
		return
	}
	f, ok := props[prop]
	if !ok {
		fmt.Fprintln(os.Stderr, "unknown property", prop)
		os.Exit(2)
	}
	c := newCtx(prop, *seed, *tier, *out)
	if *replay != "" {
		c.extra["replay"] = *replay
	}
	f(c)
	c.finish()
}
