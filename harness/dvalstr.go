// Canonical text of a decoded value, printed identically by the harness (from the Go value) and by
// ocaml/driver_ext.ml (from the model's dval + heap): dynamic types, pointer identity classes
// numbered by first visit, nil and empty containers identified, maps sorted by key.
package main

import (
	"bufio"
	"fmt"
	"math"
	"reflect"
	"sort"
	"strings"
	"time"

	hessian "github.com/vogo/gohessian"
)

func typeStr(t reflect.Type) string {
	switch t.Kind() {
	case reflect.Bool:
		return "bool"
	case reflect.Int, reflect.Int8, reflect.Int16, reflect.Int32, reflect.Int64, reflect.Uint, reflect.Uint8, reflect.Uint16, reflect.Uint32, reflect.Uint64,
		reflect.Float32, reflect.Float64:
		return t.Kind().String()
	case reflect.String:
		return "string"
	case reflect.Struct:
		if t == timeType {
			return "time"
		}
		return t.String()
	case reflect.Ptr:
		return "*" + typeStr(t.Elem())
	case reflect.Slice:
		if t.Elem().Kind() == reflect.Uint8 {
			return "bytes"
		}
		if t.Elem() == t {
			return "[]self"
		}
		return "[]" + typeStr(t.Elem())
	case reflect.Map:
		if t.Elem() == t || t.Key() == t {
			return "map[" + typeStr(t.Key()) + "]self" // type T map[K]T
		}
		return "map[" + typeStr(t.Key()) + "]" + typeStr(t.Elem())
	case reflect.Interface:
		return "iface"
	}
	return "other"
}

type dprinter struct {
	ids  map[uintptr]int
	open map[uintptr]bool
	b    strings.Builder
}

func (p *dprinter) val(v reflect.Value) {
	for v.IsValid() && v.Kind() == reflect.Interface {
		if v.IsNil() {
			p.b.WriteString("nil")
			return
		}
		v = v.Elem()
	}
	if !v.IsValid() {
		p.b.WriteString("nil")
		return
	}
	switch v.Kind() {
	case reflect.Ptr:
		if v.IsNil() {
			p.b.WriteString("nil")
			return
		}
		if id, ok := p.ids[v.Pointer()]; ok {
			fmt.Fprintf(&p.b, "#%d", id)
			return
		}
		id := len(p.ids)
		p.ids[v.Pointer()] = id
		fmt.Fprintf(&p.b, "(#%d=", id)
		p.val(v.Elem())
		p.b.WriteString(")")
	case reflect.Bool:
		fmt.Fprint(&p.b, v.Bool())
	case reflect.Int, reflect.Int8, reflect.Int16, reflect.Int32, reflect.Int64:
		fmt.Fprintf(&p.b, "(%s %s)", v.Kind(), zhex(v.Int()))
	case reflect.Uint, reflect.Uint8, reflect.Uint16, reflect.Uint32, reflect.Uint64:
		fmt.Fprintf(&p.b, "(%s %s)", v.Kind(), uhex(v.Uint()))
	case reflect.Float32:
		f := float32(v.Float())
		if f != f {
			p.b.WriteString("(float32 nan)")
		} else {
			fmt.Fprintf(&p.b, "(float32 %s)", uhex(uint64(math.Float32bits(f))))
		}
	case reflect.Float64:
		f := v.Float()
		if f != f {
			p.b.WriteString("(float64 nan)")
		} else {
			fmt.Fprintf(&p.b, "(float64 %s)", uhex(math.Float64bits(f)))
		}
	case reflect.String:
		p.b.WriteString("S(" + nameStr(v.String()) + ")")
	case reflect.Struct:
		if v.Type() == timeType {
			t := v.Interface().(time.Time)
			fmt.Fprintf(&p.b, "(time %s %s)", zhex(t.Unix()), zhex(int64(t.Nanosecond())))
			return
		}
		p.b.WriteString(v.Type().String() + "{")
		for i := 0; i < v.NumField(); i++ {
			if i > 0 {
				p.b.WriteString(" ")
			}
			p.b.WriteString(v.Type().Field(i).Name + ":")
			p.val(v.Field(i))
		}
		p.b.WriteString("}")
	case reflect.Slice:
		if v.Type().Elem().Kind() == reflect.Uint8 {
			p.b.WriteString("B(" + hx(v.Bytes()) + ")")
			return
		}
		p.b.WriteString("[" + typeStr(v.Type().Elem()) + ":")
		for i := 0; i < v.Len(); i++ {
			p.b.WriteString(" ")
			p.val(v.Index(i))
		}
		p.b.WriteString("]")
	case reflect.Map:
		if v.Len() > 0 { // a map may contain itself (through a back-reference): print it once per path
			if p.open == nil {
				p.open = map[uintptr]bool{}
			}
			if p.open[v.Pointer()] {
				p.b.WriteString("m[cycle]")
				return
			}
			p.open[v.Pointer()] = true
			defer delete(p.open, v.Pointer())
		}
		p.b.WriteString("m[" + typeStr(v.Type().Key()) + " " + typeStr(v.Type().Elem()) + ":")
		type kv struct {
			ks string
			k  reflect.Value
		}
		var kvs []kv
		for _, k := range v.MapKeys() {
			kp := &dprinter{ids: map[uintptr]int{}, open: p.open}
			kp.val(k)
			kvs = append(kvs, kv{kp.b.String(), k})
		}
		sort.Slice(kvs, func(i, j int) bool { return kvs[i].ks < kvs[j].ks })
		for _, e := range kvs {
			p.b.WriteString(" " + e.ks + "=>")
			p.val(v.MapIndex(e.k))
		}
		p.b.WriteString("]")
	default:
		p.b.WriteString("?" + v.Kind().String())
	}
}

func dvalString(x interface{}) string {
	p := &dprinter{ids: map[uintptr]int{}}
	p.val(reflect.ValueOf(x))
	return p.b.String()
}

// ---- type environment and type map as s-expressions for the decoder model
func gtypeStr(t reflect.Type, structs map[reflect.Type]bool) string {
	switch t.Kind() {
	case reflect.Bool:
		return "b"
	case reflect.Int, reflect.Int8, reflect.Int16, reflect.Int32, reflect.Int64, reflect.Uint, reflect.Uint8, reflect.Uint16, reflect.Uint32, reflect.Uint64:
		return "(i " + t.Kind().String() + ")"
	case reflect.Float32:
		return "f32"
	case reflect.Float64:
		return "f64"
	case reflect.String:
		return "s"
	case reflect.Struct:
		if t == timeType {
			return "t"
		}
		collectStructs(t, structs)
		return "(st " + nameStr(t.String()) + ")"
	case reflect.Ptr:
		return "(p " + gtypeStr(t.Elem(), structs) + ")"
	case reflect.Slice:
		if t.Elem().Kind() == reflect.Uint8 {
			return "bin"
		}
		if t.Elem() == t {
			return "o"
		}
		return "(sl " + gtypeStr(t.Elem(), structs) + ")"
	case reflect.Map:
		if t.Elem() == t || t.Key() == t {
			return "o" // type T map[K]T: not a finite type expression of the model
		}
		return "(mp " + gtypeStr(t.Key(), structs) + " " + gtypeStr(t.Elem(), structs) + ")"
	case reflect.Interface:
		return "if"
	}
	return "o"
}
func collectStructs(t reflect.Type, structs map[reflect.Type]bool) {
	if structs[t] {
		return
	}
	structs[t] = true
	for i := 0; i < t.NumField(); i++ {
		gtypeStr(t.Field(i).Type, structs)
	}
}
func typeMapStr(tm map[string]reflect.Type) (tms, tes string) {
	structs := map[reflect.Type]bool{}
	keys := make([]string, 0, len(tm))
	for k := range tm {
		keys = append(keys, k)
	}
	sortStrings(keys)
	var b strings.Builder
	b.WriteString("(tm")
	for _, k := range keys {
		fmt.Fprintf(&b, " (%s %s)", nameStr(k), gtypeStr(tm[k], structs))
	}
	b.WriteString(")")
	var ts []reflect.Type
	for t := range structs {
		ts = append(ts, t)
	}
	sort.Slice(ts, func(i, j int) bool { return ts[i].String() < ts[j].String() })
	var e strings.Builder
	e.WriteString("(te")
	for _, t := range ts {
		fmt.Fprintf(&e, " (%s", nameStr(t.String()))
		for i := 0; i < t.NumField(); i++ {
			fmt.Fprintf(&e, " (%s %s)", nameStr(t.Field(i).Name), gtypeStr(t.Field(i).Type, structs))
		}
		e.WriteString(")")
	}
	e.WriteString(")")
	return b.String(), e.String()
}

// one decoder-model correspondence case: decode bs with tm through Decoder.ReadFrom on a counting reader
func decCorr(c *ctx, tm map[string]reflect.Type, bs []byte) {
	if len(bs) > 20000 {
		return
	}
	rd := &countingReader{b: bs}
	var got interface{}
	o, _ := guard(func() error { var e error; got, e = hessian.NewDecoder(nil, tm).ReadFrom(rd); return e })
	ans := o.String()
	if o == oOK {
		ans = fmt.Sprintf("ok %s %d", dvalString(got), rd.pos)
	}
	tms, tes := typeMapStr(tm)
	c.corr("dec "+tes+" "+tms+" "+hx(bs), ans)
}

var _ = bufio.NewReader
