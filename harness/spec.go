// A reference parser for Hessian 2.0, written from the published grammar (see
// coq/theories/Spec/Grammar.v for the grammar text). It mirrors the Coq function hparse; the
// two are compared on every case of every run (the "parse" correspondence cases), so the
// oracle the harness uses is the function the theorems mention.
package main

import (
	"fmt"
	"math"
	"strings"
	"unicode/utf8"
)

type hkind int

const (
	hNull hkind = iota
	hBool
	hInt
	hLong
	hDouble
	hDate
	hString
	hBinary
	hList
	hMap
	hObject
	hRef
)

type hval struct {
	k       hkind
	b       bool
	z       int64   // int, long, date (ms), ref
	bits    uint64  // double
	s       string  // string
	bin     []byte  // binary
	typed   bool    // list/map carries a type
	ty      string  // list/map type, class name
	items   []*hval // list items, object field values, map: k0 v0 k1 v1 ...
	fnames  []string
	ord     int  // ordinal of this list/map/object among the openings of the stream
	compact bool // a date read from the compact form x4b
}

type hstate struct {
	types   []string
	classes []hclass
	open    int
}
type hclass struct {
	name   string
	fields []string
}

type perr struct{ msg string }

func (e perr) Error() string { return e.msg }

type hparser struct {
	bs  []byte
	pos int
	st  *hstate
}

func (p *hparser) fail(f string, a ...interface{}) { panic(perr{fmt.Sprintf(f, a...)}) }
func (p *hparser) byte() byte {
	if p.pos >= len(p.bs) {
		p.fail("unexpected end of input")
	}
	b := p.bs[p.pos]
	p.pos++
	return b
}
func (p *hparser) take(n int) []byte {
	if n < 0 || p.pos+n > len(p.bs) {
		p.fail("unexpected end of input")
	}
	b := p.bs[p.pos : p.pos+n]
	p.pos += n
	return b
}
func sbe(b []byte) int64 {
	var u uint64
	for _, x := range b {
		u = u<<8 | uint64(x)
	}
	sh := uint(64 - 8*len(b))
	return int64(u<<sh) >> sh
}
func ube(b []byte) int64 {
	var u int64
	for _, x := range b {
		u = u<<8 | int64(x)
	}
	return u
}
func isIntTag(t byte) bool    { return t >= 0x80 && t <= 0xd7 || t == 'I' }
func isLongTag(t byte) bool   { return t >= 0xd8 || t >= 0x38 && t <= 0x3f || t == 0x59 || t == 'L' }
func isStringTag(t byte) bool { return t <= 0x1f || t >= 0x30 && t <= 0x33 || t == 'S' || t == 'R' }
func isBinaryTag(t byte) bool {
	return t >= 0x20 && t <= 0x2f || t >= 0x34 && t <= 0x37 || t == 'B' || t == 'A'
}

func (p *hparser) parseInt(t byte) int64 {
	switch {
	case t >= 0x80 && t <= 0xbf:
		return int64(t) - 0x90
	case t >= 0xc0 && t <= 0xcf:
		return (int64(t)-0xc8)*256 + ube(p.take(1))
	case t >= 0xd0 && t <= 0xd7:
		return (int64(t)-0xd4)*65536 + ube(p.take(2))
	case t == 'I':
		return sbe(p.take(4))
	}
	p.fail("not an int tag %02x", t)
	return 0
}
func (p *hparser) parseLong(t byte) int64 {
	switch {
	case t >= 0xd8 && t <= 0xef:
		return int64(t) - 0xe0
	case t >= 0xf0:
		return (int64(t)-0xf8)*256 + ube(p.take(1))
	case t >= 0x38 && t <= 0x3f:
		return (int64(t)-0x3c)*65536 + ube(p.take(2))
	case t == 0x59:
		return sbe(p.take(4))
	case t == 'L':
		return sbe(p.take(8))
	}
	p.fail("not a long tag %02x", t)
	return 0
}
func (p *hparser) intValue() int64 {
	t := p.byte()
	if !isIntTag(t) {
		p.fail("int expected, tag %02x", t)
	}
	return p.parseInt(t)
}
func (p *hparser) parseString(t byte) string {
	var sb strings.Builder
	for {
		var n int
		final := true
		switch {
		case t <= 0x1f:
			n = int(t)
		case t >= 0x30 && t <= 0x33:
			n = int(t-0x30)<<8 + int(p.byte())
		case t == 'S' || t == 'R':
			b := p.take(2)
			n = int(b[0])<<8 + int(b[1])
			final = t == 'S'
		default:
			p.fail("not a string tag %02x", t)
		}
		for i := 0; i < n; i++ {
			if p.pos >= len(p.bs) {
				p.fail("unexpected end of input in string")
			}
			r, sz := utf8.DecodeRune(p.bs[p.pos:])
			if r == utf8.RuneError && sz <= 1 {
				p.fail("invalid UTF-8 in string")
			}
			sb.WriteRune(r)
			p.pos += sz
		}
		if final {
			return sb.String()
		}
		t = p.byte()
	}
}
func (p *hparser) parseBinary(t byte) []byte {
	var out []byte
	for {
		var n int
		final := true
		switch {
		case t >= 0x20 && t <= 0x2f:
			n = int(t - 0x20)
		case t >= 0x34 && t <= 0x37:
			n = int(t-0x34)<<8 + int(p.byte())
		case t == 'B' || t == 'A':
			b := p.take(2)
			n = int(b[0])<<8 + int(b[1])
			final = t == 'B'
		default:
			p.fail("not a binary tag %02x", t)
		}
		out = append(out, p.take(n)...)
		if final {
			return out
		}
		t = p.byte()
	}
}
func (p *hparser) stringValue() string {
	t := p.byte()
	if !isStringTag(t) {
		p.fail("string expected, tag %02x", t)
	}
	return p.parseString(t)
}
func (p *hparser) parseType() string {
	t := p.byte()
	if isStringTag(t) {
		s := p.parseString(t)
		p.st.types = append(p.st.types, s)
		return s
	}
	if isIntTag(t) {
		i := p.parseInt(t)
		if i < 0 || i >= int64(len(p.st.types)) {
			p.fail("type reference %d out of range", i)
		}
		return p.st.types[i]
	}
	p.fail("type expected, tag %02x", t)
	return ""
}
func (p *hparser) open() int { o := p.st.open; p.st.open++; return o }
func (p *hparser) nValues(n int64) []*hval {
	if n < 0 {
		p.fail("negative count")
	}
	var vs []*hval
	for i := int64(0); i < n; i++ {
		vs = append(vs, p.value())
	}
	return vs
}
func (p *hparser) untilZ() []*hval {
	var vs []*hval
	for {
		if p.pos >= len(p.bs) {
			p.fail("unexpected end of input in list/map")
		}
		if p.bs[p.pos] == 'Z' {
			p.pos++
			return vs
		}
		vs = append(vs, p.value())
	}
}
func (p *hparser) object(idx int64) *hval {
	if idx < 0 || idx >= int64(len(p.st.classes)) {
		p.fail("class reference %d out of range (%d defined)", idx, len(p.st.classes))
	}
	c := p.st.classes[idx]
	o := p.open()
	vs := p.nValues(int64(len(c.fields)))
	return &hval{k: hObject, ty: c.name, fnames: c.fields, items: vs, ord: o}
}

func (p *hparser) value() *hval {
	t := p.byte()
	switch {
	case t == 'N':
		return &hval{k: hNull}
	case t == 'T':
		return &hval{k: hBool, b: true}
	case t == 'F':
		return &hval{k: hBool}
	case isIntTag(t):
		return &hval{k: hInt, z: p.parseInt(t)}
	case isLongTag(t):
		return &hval{k: hLong, z: p.parseLong(t)}
	case t == 0x5b:
		return &hval{k: hDouble, bits: math.Float64bits(0)}
	case t == 0x5c:
		return &hval{k: hDouble, bits: math.Float64bits(1)}
	case t == 0x5d:
		return &hval{k: hDouble, bits: math.Float64bits(float64(sbe(p.take(1))))}
	case t == 0x5e:
		return &hval{k: hDouble, bits: math.Float64bits(float64(sbe(p.take(2))))}
	case t == 0x5f:
		return &hval{k: hDouble, bits: math.Float64bits(float64(math.Float32frombits(uint32(ube(p.take(4))))))}
	case t == 'D':
		return &hval{k: hDouble, bits: uint64(sbe(p.take(8)))}
	case t == 0x4a:
		return &hval{k: hDate, z: sbe(p.take(8))}
	case t == 0x4b:
		return &hval{k: hDate, z: sbe(p.take(4)) * 60000, compact: true}
	case isStringTag(t):
		return &hval{k: hString, s: p.parseString(t)}
	case isBinaryTag(t):
		return &hval{k: hBinary, bin: p.parseBinary(t)}
	case t == 0x51:
		return &hval{k: hRef, z: p.intValue()}
	case t == 0x55:
		ty := p.parseType()
		o := p.open()
		return &hval{k: hList, typed: true, ty: ty, ord: o, items: p.untilZ()}
	case t == 'V':
		ty := p.parseType()
		n := p.intValue()
		o := p.open()
		return &hval{k: hList, typed: true, ty: ty, ord: o, items: p.nValues(n)}
	case t == 0x57:
		o := p.open()
		return &hval{k: hList, ord: o, items: p.untilZ()}
	case t == 0x58:
		n := p.intValue()
		o := p.open()
		return &hval{k: hList, ord: o, items: p.nValues(n)}
	case t >= 0x70 && t <= 0x77:
		ty := p.parseType()
		o := p.open()
		return &hval{k: hList, typed: true, ty: ty, ord: o, items: p.nValues(int64(t - 0x70))}
	case t >= 0x78 && t <= 0x7f:
		o := p.open()
		return &hval{k: hList, ord: o, items: p.nValues(int64(t - 0x78))}
	case t == 'M':
		ty := p.parseType()
		o := p.open()
		kv := p.untilZ()
		if len(kv)%2 != 0 {
			p.fail("map with a key and no value")
		}
		return &hval{k: hMap, typed: true, ty: ty, ord: o, items: kv}
	case t == 'H':
		o := p.open()
		kv := p.untilZ()
		if len(kv)%2 != 0 {
			p.fail("map with a key and no value")
		}
		return &hval{k: hMap, ord: o, items: kv}
	case t == 'C':
		name := p.stringValue()
		n := p.intValue()
		if n < 0 {
			p.fail("negative field count")
		}
		var fs []string
		for i := int64(0); i < n; i++ {
			fs = append(fs, p.stringValue())
		}
		p.st.classes = append(p.st.classes, hclass{name, fs})
		return p.value()
	case t == 'O':
		return p.object(p.intValue())
	case t >= 0x60 && t <= 0x6f:
		return p.object(int64(t - 0x60))
	}
	p.fail("unknown tag %02x", t)
	return nil
}

// hparseOne parses one value from the front of bs in state st; returns the value and the
// number of bytes consumed
func hparseOne(bs []byte, st *hstate) (v *hval, used int, err error) {
	p := &hparser{bs: bs, st: st}
	defer func() {
		if r := recover(); r != nil {
			if pe, ok := r.(perr); ok {
				err = pe
				return
			}
			panic(r)
		}
	}()
	v = p.value()
	return v, p.pos, nil
}

// hparseAll: exactly one value and nothing left over
func hparseAll(bs []byte) (*hval, error) {
	v, used, err := hparseOne(bs, &hstate{})
	if err != nil {
		return nil, err
	}
	if used != len(bs) {
		return nil, perr{fmt.Sprintf("%d bytes left over after the value", len(bs)-used)}
	}
	return v, nil
}

// printed form, identical to the one ocaml/driver.ml prints for the Coq hval
func (h *hval) String() string {
	var b strings.Builder
	h.print(&b)
	return b.String()
}
func runesOf(s string) string {
	if s == "" {
		return "-"
	}
	return runesHex(s)
}
func (h *hval) print(b *strings.Builder) {
	switch h.k {
	case hNull:
		b.WriteString("N")
	case hBool:
		if h.b {
			b.WriteString("T")
		} else {
			b.WriteString("F")
		}
	case hInt:
		b.WriteString("I" + zhex(h.z))
	case hLong:
		b.WriteString("L" + zhex(h.z))
	case hDouble:
		f := math.Float64frombits(h.bits)
		if f != f {
			b.WriteString("Dnan")
		} else {
			b.WriteString("D" + uhex(h.bits))
		}
	case hDate:
		b.WriteString("d" + zhex(h.z))
	case hString:
		b.WriteString("S(" + runesOf(h.s) + ")")
	case hBinary:
		b.WriteString("B(" + hx(h.bin) + ")")
	case hRef:
		b.WriteString("R" + zhex(h.z))
	case hList, hMap:
		if h.k == hList {
			b.WriteString("l[")
		} else {
			b.WriteString("m[")
		}
		if h.typed {
			b.WriteString(runesOf(h.ty))
		} else {
			b.WriteString("~")
		}
		b.WriteString("](")
		for i, it := range h.items {
			if i > 0 {
				b.WriteByte(' ')
			}
			it.print(b)
		}
		b.WriteString(")")
	case hObject:
		b.WriteString("o[" + runesOf(h.ty) + "](")
		for i, it := range h.items {
			if i > 0 {
				b.WriteByte(' ')
			}
			b.WriteString(runesOf(h.fnames[i]) + "=")
			it.print(b)
		}
		b.WriteString(")")
	}
}
