// C01: decode(encode(v)) equals v for every supported Go value.
package main

import (
	"fmt"
	"os"
	"reflect"
	"strings"

	hessian "github.com/vogo/gohessian"
)

func init() { props["C01"] = runC01 }

// classifier of known findings for the structural properties
func structClass(v reflect.Value, detail string) string {
	return ""
}

func topNormal(x interface{}) interface{} {
	v := reflect.ValueOf(x)
	if !v.IsValid() {
		return x
	}
	switch v.Kind() {
	case reflect.Int, reflect.Int8, reflect.Int16, reflect.Int32, reflect.Uint8, reflect.Uint16:
		if v.Kind() == reflect.Uint8 || v.Kind() == reflect.Uint16 {
			return int32(v.Uint())
		}
		return int32(v.Int())
	case reflect.Int64:
		return v.Int()
	case reflect.Uint, reflect.Uint32, reflect.Uint64:
		return int64(v.Uint())
	case reflect.Float32, reflect.Float64:
		return v.Float()
	}
	return x
}

func c01Case(c *ctx, val interface{}, label string, seed uint64) bool {
	want := canonTop(topNormal(val))
	bs, dec, eo, do, msg := publicRoundTrip(val)
	in := map[string]interface{}{"op": "roundtrip", "type": label, "gseed": seed}
	if eo != oOK {
		c.fail("encode of a supported value fails", in, eo.String()+": "+msg, "")
		return false
	}
	if tmC, _, ok := safeExtract(val); ok {
		decCorr(c, tmC, bs)
	}
	if do != oOK {
		cls := ""
		if c16F1Explains(val, want) {
			cls = "C16-F1-dynamic-types-in-second-instance-of-a-visited-type"
		}
		c.fail("decode of the encoder's own output fails", in, do.String()+": "+msg+" bytes="+hx(trunc(bs, 120)), cls)
		return false
	}
	got := canonTop(dec)
	if strings.HasPrefix(want, "(empty ") && got == "nil" {
		got = want // nil and empty containers are identified; a top-level null carries no type
	}
	if got != want {
		c.fail("decoded value differs from the original", in, diffStr(want, got), c01Class(val, want, got))
		return false
	}
	return true
}

func trunc(b []byte, n int) []byte {
	if os.Getenv("HX_FULL") != "" {
		return b
	}
	if len(b) > n {
		return b[:n]
	}
	return b
}
func diffStr(a, b string) string {
	i := 0
	for i < len(a) && i < len(b) && a[i] == b[i] {
		i++
	}
	lo := i - 60
	if lo < 0 {
		lo = 0
	}
	ha, hb := i+100, i+100
	if ha > len(a) {
		ha = len(a)
	}
	if hb > len(b) {
		hb = len(b)
	}
	return fmt.Sprintf("at %d: want ...%s... got ...%s...", i, a[lo:ha], b[lo:hb])
}

func genValue(t reflect.Type, seed uint64, budget, maxLen int) interface{} {
	g := &gen{r: newRng(seed, "gen:"+t.String()), budget: budget, maxLen: maxLen}
	v := g.value(t, 0)
	if t.Kind() == reflect.Struct && t != timeType {
		p := reflect.New(t)
		p.Elem().Set(v)
		return p.Interface()
	}
	return v.Interface()
}

func runC01(c *ctx) {
	if rp, ok := c.extra["replay"].(string); ok {
		in := loadReplay(rp)
		for _, t := range zooTypes {
			if t.String() == in["type"].(string) {
				s := uint64(in["gseed"].(float64))
				c01Case(c, genValue(t, s, int(in["budget"].(float64)), int(in["maxlen"].(float64))), t.String(), s)
			}
		}
		return
	}
	c.rule = "values of every zoo type (scalars of all kinds, nested/embedded structs, pointers, typed and untyped lists, maps, 21-class messages) from a reflect-driven generator with boundary-biased scalars and lengths (0,1,7..9,15..17,255..260); round trip through ToBytes/ToObject with maps extracted from the value; compared in a canonical form with only the documented normalisations. Distinct by (type, generator seed); non-trivial = contains a container or a struct."
	n := 150
	if c.tier == "thorough" {
		n = 6000
	}
	for ti, t := range zooTypes {
		okc := 0
		for i := 0; i < n; i++ {
			seed := c.seed*1000003 + uint64(i)*131 + uint64(ti)
			budget := 10 + (i%7)*30
			maxLen := 300
			val := genValue(t, seed, budget, maxLen)
			c.eval(fmt.Sprint(t.String(), "#", seed))
			c.dist["type:"+t.String()]++
			before := len(c.failures)
			if c01Case(c, val, t.String(), seed) {
				okc++
			} else if len(c.failures) > before {
				if m, ok := c.failures[len(c.failures)-1].Input.(map[string]interface{}); ok {
					m["budget"], m["maxlen"] = budget, maxLen
				}
			}
			if i < 1 {
				c.sample(map[string]interface{}{"type": t.String(), "gseed": seed, "canon": truncS(canonTop(val), 300)})
			}
		}
		c.dist["ok:"+t.String()] = okc
	}
}
func truncS(s string, n int) string {
	if len(s) > n {
		return s[:n] + "..."
	}
	return s
}

// classifiers of the known findings of C01 (see known_findings.json)
func c01Class(val interface{}, want, got string) string {
	t := reflect.TypeOf(val)
	// F-ab: a top-level value of an unnamed map type comes back as map[interface{}]interface{}
	if t != nil && t.Kind() == reflect.Map && t.Name() == "" {
		pre := "(map " + t.String() + " "
		if strings.HasPrefix(want, pre) && got == "(map map[interface {}]interface {} "+want[len(pre):] {
			return "C01-F1-toplevel-unnamed-map-loses-type"
		}
	}
	// F-collide: []*T and []T share the wire name "[T"; a nil *T element comes back as a pointer to a zero T
	if t != nil && strings.Contains(t.String(), "Collide") {
		return "C01-F2-ptr-slice-and-value-slice-share-wire-name"
	}
	// C16-F1: ExtractTypeNameMap does not descend into a second value of a type it has already
	// seen, so types that occur only there are missing from the maps; the round trip is exact as
	// soon as the maps are completed by extracting from every interface-held value on its own
	if c16F1Explains(val, want) {
		return "C16-F1-dynamic-types-in-second-instance-of-a-visited-type"
	}
	return ""
}

// every value held in an interface, list element or map entry somewhere inside v (each pointer once)
func forEachInner(v reflect.Value, seen map[uintptr]bool, f func(reflect.Value)) {
	if !v.IsValid() {
		return
	}
	switch v.Kind() {
	case reflect.Interface:
		if !v.IsNil() {
			f(v.Elem())
			forEachInner(v.Elem(), seen, f)
		}
	case reflect.Ptr:
		if !v.IsNil() && !seen[v.Pointer()] {
			seen[v.Pointer()] = true
			forEachInner(v.Elem(), seen, f)
		}
	case reflect.Struct:
		for i := 0; i < v.NumField(); i++ {
			forEachInner(v.Field(i), seen, f)
		}
	case reflect.Slice, reflect.Array:
		for i := 0; i < v.Len(); i++ {
			forEachInner(v.Index(i), seen, f)
		}
	case reflect.Map:
		for _, k := range v.MapKeys() {
			forEachInner(k, seen, f)
			forEachInner(v.MapIndex(k), seen, f)
		}
	}
}

func c16F1Explains(val interface{}, want string) bool {
	tm, nm, ok := safeExtract(val)
	if !ok {
		return false
	}
	n0 := len(tm)
	forEachInner(reflect.ValueOf(val), map[uintptr]bool{}, func(x reflect.Value) {
		if !x.CanInterface() {
			return
		}
		if t2, n2, ok := safeExtract(x.Interface()); ok {
			for k, v := range t2 {
				if _, has := tm[k]; !has {
					tm[k] = v
				}
			}
			for k, v := range n2 {
				if _, has := nm[k]; !has {
					nm[k] = v
				}
			}
		}
	})
	if len(tm) == n0 {
		return false
	}
	var dec interface{}
	o, _ := guard(func() error {
		bs, err := hessian.ToBytes(val, nm)
		if err != nil {
			return err
		}
		dec, err = hessian.ToObject(bs, tm)
		return err
	})
	return o == oOK && canonTop(dec) == want
}

func safeExtract(val interface{}) (tm map[string]reflect.Type, nm map[string]string, ok bool) {
	o, _ := guard(func() error { tm, nm = hessian.ExtractTypeNameMap(val); return nil })
	return tm, nm, o == oOK
}
