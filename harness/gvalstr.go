// Go value -> the s-expression of the model's `gval` (coq/theories/Model/Encoder.v):
// reflect kinds, TypeName/Name() strings, pointer identities renamed to small integers in order
// of first discovery, and map entries in the order the implementation wrote them (recovered
// from its output by walking the reference parse and the value together).
package main

import (
	"fmt"
	"math"
	"reflect"
	"strings"
	"time"
	"unsafe"
)

// the identity of a container as the encoder's reference table keys it: address, type and
// (for lists) length
type gkey struct {
	kind, addr uintptr
	typ        reflect.Type
	n          int
}
type gvalPrinter struct {
	ids      map[gkey]int // container identity -> id
	done     map[gkey]bool
	mapOrder map[uintptr][]reflect.Value // map pointer -> keys in wire order (nil: unknown, use MapKeys)
	b        strings.Builder
}

func nameStr(s string) string {
	if s == "" {
		return "-"
	}
	return runesHex(s)
}

func (p *gvalPrinter) id(k gkey) int {
	if id, ok := p.ids[k]; ok {
		return id
	}
	id := len(p.ids) + 1
	p.ids[k] = id
	return id
}

func (p *gvalPrinter) val(v reflect.Value, exported bool) {
	if !exported {
		p.b.WriteString("U")
		return
	}
	for v.IsValid() && v.Kind() == reflect.Interface {
		if v.IsNil() {
			p.b.WriteString("N")
			return
		}
		v = v.Elem()
	}
	if !v.IsValid() {
		p.b.WriteString("N")
		return
	}
	var ptr uintptr
	for v.Kind() == reflect.Ptr {
		if v.IsNil() {
			p.b.WriteString("N")
			return
		}
		ptr = v.Pointer()
		v = v.Elem()
	}
	switch v.Kind() {
	case reflect.Bool:
		if v.Bool() {
			p.b.WriteString("(b 1)")
		} else {
			p.b.WriteString("(b 0)")
		}
	case reflect.Int, reflect.Int8, reflect.Int16, reflect.Int32, reflect.Int64:
		fmt.Fprintf(&p.b, "(i %s %s)", v.Kind().String(), zhex(v.Int()))
	case reflect.Uint, reflect.Uint8, reflect.Uint16, reflect.Uint32, reflect.Uint64:
		fmt.Fprintf(&p.b, "(i %s %s)", v.Kind().String(), uhex(v.Uint()))
	case reflect.Float32:
		fmt.Fprintf(&p.b, "(f32 %s)", uhex(uint64(math.Float32bits(float32(v.Float())))))
	case reflect.Float64:
		fmt.Fprintf(&p.b, "(f64 %s)", uhex(math.Float64bits(v.Float())))
	case reflect.String:
		fmt.Fprintf(&p.b, "(s %s)", nameStr(v.String()))
	case reflect.Struct:
		if v.Type() == timeType {
			t := v.Interface().(time.Time)
			fmt.Fprintf(&p.b, "(t %s %s)", zhex(t.Unix()), zhex(int64(t.Nanosecond())))
			return
		}
		id := 0
		if ptr != 0 {
			k := gkey{1, ptr, v.Type(), 0}
			id = p.id(k)
			if p.done[k] {
				fmt.Fprintf(&p.b, "(seen st %d)", id)
				return
			}
			p.done[k] = true
		}
		fmt.Fprintf(&p.b, "(st %d %s", id, nameStr(v.Type().Name()))
		for i := 0; i < v.NumField(); i++ {
			f := v.Type().Field(i)
			fmt.Fprintf(&p.b, " (%s ", nameStr(f.Name))
			p.val(v.Field(i), f.PkgPath == "")
			p.b.WriteString(")")
		}
		p.b.WriteString(")")
	case reflect.Slice:
		if v.Type() == reflect.TypeOf([]byte(nil)) && ptr == 0 {
			fmt.Fprintf(&p.b, "(bin %s)", hx(v.Bytes()))
			return
		}
		id := 0
		if v.Len() > 0 {
			addr := uintptr(unsafe.Pointer(v.Pointer()))
			k := gkey{2, addr, v.Type(), v.Len()}
			id = p.id(k)
			if p.done[k] {
				fmt.Fprintf(&p.b, "(seen sl %d)", id)
				return
			}
			p.done[k] = true
		}
		fmt.Fprintf(&p.b, "(sl %d %s", id, nameStr(goTypeName(v.Type())))
		for i := 0; i < v.Len(); i++ {
			p.b.WriteString(" ")
			p.val(v.Index(i), true)
		}
		p.b.WriteString(")")
	case reflect.Map:
		id := 0
		if v.Len() > 0 {
			k := gkey{3, v.Pointer(), v.Type(), 0}
			id = p.id(k)
			if p.done[k] {
				fmt.Fprintf(&p.b, "(seen mp %d)", id)
				return
			}
			p.done[k] = true
		}
		fmt.Fprintf(&p.b, "(mp %d %s", id, nameStr(v.Type().Name()))
		keys := p.mapOrder[v.Pointer()]
		if keys == nil {
			keys = v.MapKeys()
		}
		for _, k := range keys {
			p.b.WriteString(" (")
			p.val(k, true)
			p.b.WriteString(" ")
			p.val(v.MapIndex(k), true)
			p.b.WriteString(")")
		}
		p.b.WriteString(")")
	default:
		p.b.WriteString("X") // chan, func, complex, uintptr, unsafe.Pointer, array
	}
}

func nameMapStr(nm map[string]string) string {
	var b strings.Builder
	b.WriteString("(nm")
	keys := make([]string, 0, len(nm))
	for k := range nm {
		keys = append(keys, k)
	}
	sortStrings(keys)
	for _, k := range keys {
		fmt.Fprintf(&b, " (%s %s)", nameStr(k), nameStr(nm[k]))
	}
	b.WriteString(")")
	return b.String()
}

func sortStrings(s []string) {
	for i := 1; i < len(s); i++ {
		for j := i; j > 0 && s[j] < s[j-1]; j-- {
			s[j], s[j-1] = s[j-1], s[j]
		}
	}
}

// the gval of val; order maps each map (by pointer) to the key order found on the wire
func gvalString(val interface{}, order map[uintptr][]reflect.Value) string {
	p := &gvalPrinter{ids: map[gkey]int{}, done: map[gkey]bool{}, mapOrder: order}
	p.val(reflect.ValueOf(val), true)
	return p.b.String()
}

// recover the order in which the implementation wrote the entries of every map of val, by
// walking the reference parse of its output and the value together
func recoverMapOrder(h *hval, val interface{}, nm map[string]string) (order map[uintptr][]reflect.Value, ok bool) {
	order = map[uintptr][]reflect.Value{}
	m := &matcher{nameMap: nm, ords: map[int]ident{}, record: order}
	defer func() {
		if r := recover(); r != nil {
			if _, is := r.(mismatch); is {
				ok = false
				return
			}
			panic(r)
		}
	}()
	m.match(h, reflect.ValueOf(val))
	return order, true
}
