// C07: integers of every width are carried exactly and in the shortest wire form.
package main

import (
	"encoding/json"
	"fmt"
	"math"
	"math/big"
	"os"
	"reflect"

	hessian "github.com/vogo/gohessian"
)

func init() { props["C07"] = runC07 }

type FInt struct{ V int }
type FInt8 struct{ V int8 }
type FInt16 struct{ V int16 }
type FInt32 struct{ V int32 }
type FInt64 struct{ V int64 }
type FUint struct{ V uint }
type FUint8 struct{ V uint8 }
type FUint16 struct{ V uint16 }
type FUint32 struct{ V uint32 }
type FUint64 struct{ V uint64 }

var intKinds = []string{"int", "int8", "int16", "int32", "int64", "uint", "uint8", "uint16", "uint32", "uint64"}

// shortest lengths from the grammar
func specIntLen(v int64) int {
	switch {
	case v >= -16 && v <= 47:
		return 1
	case v >= -2048 && v <= 2047:
		return 2
	case v >= -262144 && v <= 262143:
		return 3
	}
	return 5
}
func specLongLen(v int64) int {
	switch {
	case v >= -8 && v <= 15:
		return 1
	case v >= -2048 && v <= 2047:
		return 2
	case v >= -262144 && v <= 262143:
		return 3
	case v >= math.MinInt32 && v <= math.MaxInt32:
		return 5
	}
	return 9
}

// the integer as the Go value of a kind (z must be in the kind's range), and wrappers at the four positions
func kindValue(kind string, z *big.Int) interface{} {
	switch kind {
	case "int":
		return int(z.Int64())
	case "int8":
		return int8(z.Int64())
	case "int16":
		return int16(z.Int64())
	case "int32":
		return int32(z.Int64())
	case "int64":
		return z.Int64()
	case "uint":
		return uint(z.Uint64())
	case "uint8":
		return uint8(z.Uint64())
	case "uint16":
		return uint16(z.Uint64())
	case "uint32":
		return uint32(z.Uint64())
	case "uint64":
		return z.Uint64()
	}
	panic(kind)
}
func kindRange(kind string) (lo, hi *big.Int) {
	b := func(s string) *big.Int { x, _ := new(big.Int).SetString(s, 10); return x }
	switch kind {
	case "int", "int64":
		return b("-9223372036854775808"), b("9223372036854775807")
	case "int8":
		return b("-128"), b("127")
	case "int16":
		return b("-32768"), b("32767")
	case "int32":
		return b("-2147483648"), b("2147483647")
	case "uint", "uint64":
		return b("0"), b("18446744073709551615")
	case "uint8":
		return b("0"), b("255")
	case "uint16":
		return b("0"), b("65535")
	case "uint32":
		return b("0"), b("4294967295")
	}
	panic(kind)
}
func wireIsInt(kind string) bool {
	switch kind {
	case "int", "int8", "int16", "int32", "uint8", "uint16":
		return true
	}
	return false
}
func structOf(kind string, z *big.Int) interface{} {
	switch kind {
	case "int":
		return &FInt{int(z.Int64())}
	case "int8":
		return &FInt8{int8(z.Int64())}
	case "int16":
		return &FInt16{int16(z.Int64())}
	case "int32":
		return &FInt32{int32(z.Int64())}
	case "int64":
		return &FInt64{z.Int64()}
	case "uint":
		return &FUint{uint(z.Uint64())}
	case "uint8":
		return &FUint8{uint8(z.Uint64())}
	case "uint16":
		return &FUint16{uint16(z.Uint64())}
	case "uint32":
		return &FUint32{uint32(z.Uint64())}
	case "uint64":
		return &FUint64{z.Uint64()}
	}
	panic(kind)
}
func sliceOf(kind string, z *big.Int) interface{} {
	v := reflect.ValueOf(kindValue(kind, z))
	s := reflect.MakeSlice(reflect.SliceOf(v.Type()), 2, 2)
	s.Index(0).Set(v)
	s.Index(1).Set(v)
	return s.Interface()
}
func mapOf(kind string, z *big.Int) interface{} {
	v := reflect.ValueOf(kindValue(kind, z))
	m := reflect.MakeMap(reflect.MapOf(v.Type(), v.Type()))
	m.SetMapIndex(v, v)
	return m.Interface()
}

// the integer only as the key / only as the value of a map entry
func mapKeyOf(kind string, z *big.Int) interface{} {
	v := reflect.ValueOf(kindValue(kind, z))
	m := reflect.MakeMap(reflect.MapOf(v.Type(), reflect.TypeOf("")))
	m.SetMapIndex(v, reflect.ValueOf("v"))
	return m.Interface()
}
func mapValueOf(kind string, z *big.Int) interface{} {
	v := reflect.ValueOf(kindValue(kind, z))
	m := reflect.MakeMap(reflect.MapOf(reflect.TypeOf(""), v.Type()))
	m.SetMapIndex(reflect.ValueOf("k"), v)
	return m.Interface()
}

// numeric value of anything integer-like
func numOf(x interface{}) (*big.Int, bool) {
	v := reflect.ValueOf(x)
	switch v.Kind() {
	case reflect.Int, reflect.Int8, reflect.Int16, reflect.Int32, reflect.Int64:
		return big.NewInt(v.Int()), true
	case reflect.Uint, reflect.Uint8, reflect.Uint16, reflect.Uint32, reflect.Uint64:
		return new(big.Int).SetUint64(v.Uint()), true
	}
	return nil, false
}

// round trip through the public API with maps extracted from the value itself
func publicRoundTrip(v interface{}) (bs []byte, dec interface{}, encO, decO outcome, msg string) {
	var typMap map[string]reflect.Type
	var nameMap map[string]string
	o, m := guard(func() error { typMap, nameMap = hessian.ExtractTypeNameMap(v); return nil })
	if o != oOK {
		return nil, nil, o, oOK, "extract: " + m
	}
	encO, msg = guard(func() error {
		var err error
		bs, err = hessian.ToBytes(v, nameMap)
		return err
	})
	if encO != oOK {
		return
	}
	decO, msg = guard(func() error {
		var err error
		dec, err = hessian.ToObject(bs, typMap)
		return err
	})
	return
}

func c07Values(c *ctx) (i32s []int32, i64s []int64) {
	r := newRng(c.seed, "C07")
	seen32 := map[int32]bool{}
	seen64 := map[int64]bool{}
	add64 := func(v int64) {
		if !seen64[v] {
			seen64[v] = true
			i64s = append(i64s, v)
		}
		if v >= math.MinInt32 && v <= math.MaxInt32 && !seen32[int32(v)] {
			seen32[int32(v)] = true
			i32s = append(i32s, int32(v))
		}
	}
	bounds := []int64{0, -16, 47, -2048, 2047, -262144, 262143, -8, 15, math.MinInt32, math.MaxInt32, math.MinInt64, math.MaxInt64,
		-128, 127, 255, 256, -32768, 32767, 65535, 65536, 4294967295, 4294967296}
	for _, b := range bounds {
		for d := int64(-3); d <= 3; d++ {
			add64(b + d) // wraps at the int64 ends on purpose
		}
	}
	for k := uint(0); k < 64; k++ {
		p := int64(1) << k
		for d := int64(-1); d <= 1; d++ {
			add64(p + d)
			add64(-p + d)
		}
	}
	n := 3000
	if c.tier == "thorough" {
		n = 200000
	}
	for i := 0; i < n; i++ {
		add64(int64(r.u64()))
		add64(r.logInt64())
		add64(int64(int32(r.u64())))
	}
	return
}

func runC07(c *ctx) {
	if rp, ok := c.extra["replay"].(string); ok {
		replayC07(c, rp)
		return
	}
	c.rule = "int32/int64 values: every form boundary +-3, every power of two +-1, uniform and log-uniform; x ten Go integer kinds x four positions (top, list element, map entry, struct field). " +
		"A case is distinct by (kind, position, value) and non-trivial when the value needs more than one octet or the kind is not the wire type itself."
	i32s, i64s := c07Values(c)
	r := newRng(c.seed, "C07-dec")

	// ---- leaf level: exact + shortest, through the hook wrappers; correspondence with the generated/hand model
	trailer := []byte{0x91, 0x00}
	for _, v := range i32s {
		bs := hessian.VerifEncodeInt(v)
		c.corr("encint "+zhex(int64(v)), hx(bs))
		key := ""
		if len(bs) > 1 {
			key = fmt.Sprint("leaf32:", v)
		}
		c.eval(key)
		c.dist[fmt.Sprint("int_len", len(bs))]++
		if len(bs) != specIntLen(int64(v)) {
			c.fail("int not shortest", map[string]interface{}{"op": "encint", "v": v}, fmt.Sprintf("len %d want %d", len(bs), specIntLen(int64(v))), "")
		}
		rd := rdr(append(append([]byte{}, bs...), trailer...))
		var got int32
		o, msg := guard(func() error { var e error; got, e = hessian.VerifDecodeInt(rd); return e })
		if o != oOK || got != v || rd.Buffered() != len(trailer) {
			c.fail("int leaf round trip", map[string]interface{}{"op": "encint", "v": v}, fmt.Sprintf("outcome %v %s got %d left %d", o, msg, got, rd.Buffered()), "")
		}
	}
	for _, v := range i64s {
		bs := hessian.VerifEncodeLong(v)
		c.corr("enclong "+zhex(v), hx(bs))
		key := ""
		if len(bs) > 1 {
			key = fmt.Sprint("leaf64:", v)
		}
		c.eval(key)
		c.dist[fmt.Sprint("long_len", len(bs))]++
		if len(bs) != specLongLen(v) {
			c.fail("long not shortest", map[string]interface{}{"op": "enclong", "v": v}, fmt.Sprintf("len %d want %d", len(bs), specLongLen(v)), "")
		}
		rd := rdr(append(append([]byte{}, bs...), trailer...))
		var got int64
		o, msg := guard(func() error { var e error; got, e = hessian.VerifDecodeLong(rd); return e })
		if o != oOK || got != v || rd.Buffered() != len(trailer) {
			c.fail("long leaf round trip", map[string]interface{}{"op": "enclong", "v": v}, fmt.Sprintf("outcome %v %s got %d left %d", o, msg, got, rd.Buffered()), "")
		}
	}
	// decoders on every grammar form of a value (not only the shortest), truncations and arbitrary tails
	decCase := func(kind string, bs []byte) {
		rd := rdr(bs)
		var ans string
		if kind == "decint" {
			var got int32
			o, _ := guard(func() error { var e error; got, e = hessian.VerifDecodeInt(rd); return e })
			if o == oOK {
				ans = fmt.Sprintf("ok %s %d", zhex(int64(got)), rd.Buffered())
			} else {
				ans = o.String()
			}
		} else {
			var got int64
			o, _ := guard(func() error { var e error; got, e = hessian.VerifDecodeLong(rd); return e })
			if o == oOK {
				ans = fmt.Sprintf("ok %s %d", zhex(got), rd.Buffered())
			} else {
				ans = o.String()
			}
		}
		c.corr(kind+" "+hx(bs), ans)
	}
	for tag := 0; tag < 256; tag++ {
		for k := 0; k < 6; k++ {
			n := r.intn(10)
			bs := []byte{byte(tag)}
			for i := 0; i < n; i++ {
				bs = append(bs, byte(r.u64()))
			}
			decCase("decint", bs)
			decCase("declong", bs)
		}
	}
	for i, v := range i32s {
		if i%7 == 0 {
			// all wider forms of the same int
			for _, bs := range intForms(v) {
				rd := rdr(bs)
				got, err := hessian.VerifDecodeInt(rd)
				c.eval(fmt.Sprint("intform:", v, len(bs)))
				if err != nil || got != v {
					c.fail("legal int form rejected or altered", map[string]interface{}{"op": "decint", "hex": hx(bs)}, fmt.Sprint(got, err), "")
				}
				decCase("decint", bs)
			}
		}
	}
	for i, v := range i64s {
		if i%7 == 0 {
			for _, bs := range longForms(v) {
				rd := rdr(bs)
				got, err := hessian.VerifDecodeLong(rd)
				c.eval(fmt.Sprint("longform:", v, len(bs)))
				if err != nil || got != v {
					c.fail("legal long form rejected or altered", map[string]interface{}{"op": "declong", "hex": hx(bs)}, fmt.Sprint(got, err), "")
				}
				decCase("declong", bs)
			}
		}
	}

	// ---- readField on every kind: any int/long form of any value in a field of that kind (incl. out of the kind's range)
	for _, kind := range intKinds {
		zero := structOf(kind, big.NewInt(0))
		tm, nm := hessian.ExtractTypeNameMap(zero)
		pre, err := hessian.ToBytes(zero, nm)
		if err != nil || len(pre) < 2 {
			c.fail("cannot encode zero struct", map[string]interface{}{"op": "decfield", "kind": kind}, fmt.Sprint(err), "")
			continue
		}
		pre = pre[:len(pre)-1]
		try := func(vb []byte) {
			msg := append(append([]byte{}, pre...), vb...)
			var dec interface{}
			o, _ := guard(func() error { var e error; dec, e = hessian.ToObject(msg, tm); return e })
			ans := o.String()
			if o == oOK {
				v := reflect.ValueOf(dec)
				if v.Kind() == reflect.Ptr && !v.IsNil() && v.Elem().Kind() == reflect.Struct {
					n, _ := numOf(v.Elem().Field(0).Interface())
					ans = "ok " + n.Text(16) + " 0"
				} else {
					ans = "shape"
				}
			}
			c.corr("decfield "+kind+" "+hx(vb), ans)
		}
		for i := 0; i < len(i64s); i += 3 {
			v := i64s[i]
			if wireIsInt(kind) {
				if v >= math.MinInt32 && v <= math.MaxInt32 {
					fs := intForms(int32(v))
					try(fs[r.intn(len(fs))])
				} else {
					try(hessian.VerifEncodeLong(v)) // a long where an int is expected
				}
			} else {
				fs := longForms(v)
				try(fs[r.intn(len(fs))])
				if i%5 == 0 && v >= math.MinInt32 && v <= math.MaxInt32 {
					try(hessian.VerifEncodeInt(int32(v))) // an int where a long is expected
				}
			}
		}
	}

	// ---- positions x kinds through the public API
	step := 1
	if c.tier != "thorough" {
		step = 5
	}
	for ki, kind := range intKinds {
		lo, hi := kindRange(kind)
		for i := ki % step; i < len(i64s); i += step {
			zs := []*big.Int{big.NewInt(i64s[i])}
			if kind == "uint" || kind == "uint64" {
				zs = append(zs, new(big.Int).SetUint64(uint64(i64s[i]))) // upper half of the unsigned range
			}
			for _, z := range zs {
				if z.Cmp(lo) < 0 || z.Cmp(hi) > 0 {
					continue
				}
				c07Positions(c, kind, z)
			}
		}
	}
}

func intForms(v int32) [][]byte {
	var out [][]byte
	x := int64(v)
	if x >= -16 && x <= 47 {
		out = append(out, []byte{byte(0x90 + x)})
	}
	if x >= -2048 && x <= 2047 {
		out = append(out, []byte{byte(0xc8 + (x >> 8)), byte(x)})
	}
	if x >= -262144 && x <= 262143 {
		out = append(out, []byte{byte(0xd4 + (x >> 16)), byte(x >> 8), byte(x)})
	}
	out = append(out, []byte{'I', byte(x >> 24), byte(x >> 16), byte(x >> 8), byte(x)})
	return out
}
func longForms(x int64) [][]byte {
	var out [][]byte
	if x >= -8 && x <= 15 {
		out = append(out, []byte{byte(0xe0 + x)})
	}
	if x >= -2048 && x <= 2047 {
		out = append(out, []byte{byte(0xf8 + (x >> 8)), byte(x)})
	}
	if x >= -262144 && x <= 262143 {
		out = append(out, []byte{byte(0x3c + (x >> 16)), byte(x >> 8), byte(x)})
	}
	if x >= math.MinInt32 && x <= math.MaxInt32 {
		out = append(out, []byte{0x59, byte(x >> 24), byte(x >> 16), byte(x >> 8), byte(x)})
	}
	out = append(out, []byte{'L', byte(x >> 56), byte(x >> 48), byte(x >> 40), byte(x >> 32), byte(x >> 24), byte(x >> 16), byte(x >> 8), byte(x)})
	return out
}

// classifier of the known findings of C07 (see known_findings.json)
func c07Class(kind, pos string, z *big.Int) string {
	if (kind == "uint" || kind == "uint64") && z.Cmp(big.NewInt(math.MaxInt64)) > 0 && pos != "field" && pos != "list" {
		return "C07-F2-uint64-above-maxint64-untyped"
	}
	return ""
}

func c07Positions(c *ctx, kind string, z *big.Int) {
	nontriv := func(pos string) string { return fmt.Sprint(kind, "/", pos, "/", z) }
	check := func(pos string, v interface{}, extract func(dec interface{}) (*big.Int, bool)) {
		bs, dec, encO, decO, msg := publicRoundTrip(v)
		c.eval(nontriv(pos))
		c.dist["pos:"+pos]++
		c.dist["kind:"+kind]++
		in := map[string]interface{}{"op": "position", "kind": kind, "pos": pos, "z": z.String()}
		if pos == "top" {
			ans := encO.String()
			if encO == oOK {
				ans = "ok " + hx(bs)
			}
			c.corr(fmt.Sprintf("enckind %s %s", kind, bigHex(z)), ans)
		}
		if encO == oPanic {
			c.fail("encode panics", in, msg, c07Class(kind, pos, z))
			return
		}
		if encO == oErr {
			c.dist["encode_error"]++
			return // carried exactly or the encode call fails
		}
		if pos == "top" {
			want := specLongLen(z.Int64())
			if wireIsInt(kind) {
				want = specIntLen(z.Int64())
			}
			if z.IsInt64() && len(bs) != want {
				c.fail("not the shortest form at top level", in, fmt.Sprintf("len %d want %d", len(bs), want), c07Class(kind, pos, z))
			}
		}
		if decO != oOK {
			c.fail("decode fails after a successful encode", in, decO.String()+": "+msg, c07Class(kind, pos, z))
			return
		}
		got, ok := extract(dec)
		if !ok {
			c.fail("decoded shape is not the integer sent", in, fmt.Sprintf("%T %v", dec, dec), c07Class(kind, pos, z))
			return
		}
		if got.Cmp(z) != 0 {
			c.fail("integer silently altered", in, fmt.Sprintf("sent %s got %s", z, got), c07Class(kind, pos, z))
		}
	}
	check("top", kindValue(kind, z), func(dec interface{}) (*big.Int, bool) { return numOf(dec) })
	check("field", structOf(kind, z), func(dec interface{}) (*big.Int, bool) {
		v := reflect.ValueOf(dec)
		if v.Kind() != reflect.Ptr || v.IsNil() || v.Elem().Kind() != reflect.Struct {
			return nil, false
		}
		return numOf(v.Elem().Field(0).Interface())
	})
	if kind != "uint8" { // []uint8 is a byte array (C09)
		check("list", sliceOf(kind, z), func(dec interface{}) (*big.Int, bool) {
			v := reflect.ValueOf(dec)
			if v.Kind() != reflect.Slice || v.Len() != 2 {
				return nil, false
			}
			a, ok1 := numOf(v.Index(0).Interface())
			b, ok2 := numOf(v.Index(1).Interface())
			if !ok1 || !ok2 || a.Cmp(b) != 0 {
				return nil, false
			}
			return a, true
		})
	}
	check("map", mapOf(kind, z), func(dec interface{}) (*big.Int, bool) {
		v := reflect.ValueOf(dec)
		if v.Kind() != reflect.Map || v.Len() != 1 {
			return nil, false
		}
		k := v.MapKeys()[0]
		a, ok1 := numOf(k.Interface())
		b, ok2 := numOf(v.MapIndex(k).Interface())
		if !ok1 || !ok2 || a.Cmp(b) != 0 {
			return nil, false
		}
		return a, true
	})
	check("mapkey", mapKeyOf(kind, z), func(dec interface{}) (*big.Int, bool) {
		v := reflect.ValueOf(dec)
		if v.Kind() != reflect.Map || v.Len() != 1 {
			return nil, false
		}
		return numOf(v.MapKeys()[0].Interface())
	})
	check("mapvalue", mapValueOf(kind, z), func(dec interface{}) (*big.Int, bool) {
		v := reflect.ValueOf(dec)
		if v.Kind() != reflect.Map || v.Len() != 1 {
			return nil, false
		}
		return numOf(v.MapIndex(v.MapKeys()[0]).Interface())
	})
	if kind != "uint8" {
		check("ifacelist", []interface{}{kindValue(kind, z), "s"}, func(dec interface{}) (*big.Int, bool) {
			l, ok := dec.([]interface{})
			if !ok || len(l) != 2 {
				return nil, false
			}
			return numOf(l[0])
		})
	}
	c.sample(map[string]interface{}{"kind": kind, "z": z.String(), "positions": "top,field,list,map,mapkey,mapvalue,ifacelist"})
}

func bigHex(z *big.Int) string { return z.Text(16) }

func replayC07(c *ctx, path string) {
	var rp struct {
		Input map[string]interface{} `json:"input"`
	}
	b, err := os.ReadFile(path)
	must(err)
	must(json.Unmarshal(b, &rp))
	in := rp.Input
	c.rule = "replay of one recorded input"
	switch in["op"] {
	case "position":
		z, _ := new(big.Int).SetString(in["z"].(string), 10)
		c07Positions(c, in["kind"].(string), z)
		// keep only the failures of the recorded position
		var keep []failure
		for _, f := range c.failures {
			if m, ok := f.Input.(map[string]interface{}); ok && m["pos"] == in["pos"] {
				keep = append(keep, f)
			}
		}
		c.failures = keep
	case "encint", "enclong":
		v := int64(in["v"].(float64))
		if in["op"] == "encint" {
			bs := hessian.VerifEncodeInt(int32(v))
			got, err := hessian.VerifDecodeInt(rdr(bs))
			if err != nil || int64(got) != v || len(bs) != specIntLen(v) {
				c.fail("int leaf", in, fmt.Sprint(hx(bs), got, err), "")
			}
		} else {
			bs := hessian.VerifEncodeLong(v)
			got, err := hessian.VerifDecodeLong(rdr(bs))
			if err != nil || got != v || len(bs) != specLongLen(v) {
				c.fail("long leaf", in, fmt.Sprint(hx(bs), got, err), "")
			}
		}
	default:
		c.fail("unknown replay op", in, "", "")
	}
}
