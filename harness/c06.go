// C06: n writes on one stream read back as the same n values, exact framing.
package main

import (
	"bytes"
	"fmt"
	"io"
	"reflect"
	"unicode/utf8"

	hessian "github.com/vogo/gohessian"
)

func init() { props["C06"] = runC06 }

// a ByteRuneReader with no read-ahead that counts the bytes handed out
type countingReader struct {
	b   []byte
	pos int
}

func (r *countingReader) Read(p []byte) (int, error) {
	if r.pos >= len(r.b) {
		return 0, io.EOF
	}
	n := copy(p, r.b[r.pos:])
	r.pos += n
	return n, nil
}

// dataErr: hand out the last bytes TOGETHER with io.EOF, as io.Reader permits
func (r *countingReader) readDataErr(p []byte) (int, error) {
	if r.pos >= len(r.b) {
		return 0, io.EOF
	}
	n := copy(p, r.b[r.pos:])
	r.pos += n
	if r.pos >= len(r.b) {
		return n, io.EOF
	}
	return n, nil
}

type dataErrReader struct{ *countingReader }

func (r dataErrReader) Read(p []byte) (int, error) { return r.countingReader.readDataErr(p) }

func (r *countingReader) ReadRune() (rune, int, error) {
	if r.pos >= len(r.b) {
		return 0, 0, io.EOF
	}
	c, sz := utf8.DecodeRune(r.b[r.pos:])
	r.pos += sz
	return c, sz, nil
}

// is there an internal carrier anywhere inside x?
func findCarrier(x interface{}, depth int) string {
	if hessian.VerifIsCarrier(x) {
		return fmt.Sprintf("%T", x)
	}
	if depth > 12 || x == nil {
		return ""
	}
	v := reflect.ValueOf(x)
	return findCarrierV(v, depth)
}
func findCarrierV(v reflect.Value, depth int) string {
	if depth > 12 || !v.IsValid() {
		return ""
	}
	switch v.Kind() {
	case reflect.Interface, reflect.Ptr:
		if v.IsNil() {
			return ""
		}
		if v.Kind() == reflect.Interface {
			return findCarrier(v.Elem().Interface(), depth+1)
		}
		return findCarrierV(v.Elem(), depth+1)
	case reflect.Slice, reflect.Array:
		for i := 0; i < v.Len() && i < 50; i++ {
			if s := findCarrierV(v.Index(i), depth+1); s != "" {
				return s
			}
		}
	case reflect.Map:
		for _, k := range v.MapKeys() {
			if s := findCarrierV(k, depth+1); s != "" {
				return s
			}
			if s := findCarrierV(v.MapIndex(k), depth+1); s != "" {
				return s
			}
		}
	case reflect.Struct:
		if v.Type() == timeType {
			return ""
		}
		if v.Type().String() == "reflect.Value" || v.Type().String() == "hessian._refHolder" {
			return v.Type().String()
		}
		for i := 0; i < v.NumField(); i++ {
			if v.Type().Field(i).PkgPath != "" {
				continue
			}
			if s := findCarrierV(v.Field(i), depth+1); s != "" {
				return s
			}
		}
	}
	return ""
}

// a sequence of mixed values; later values reuse classes and may point back to earlier objects
func genSequence(seed uint64, n int) []interface{} {
	r := newRng(seed, "seq")
	var seq []interface{}
	var earlier []*Inner
	var slices []interface{}
	if seed%20 == 3 && n >= 2 {
		// a class-heavy stream: more than 16 classes defined by the first value, so that later values
		// use class indexes beyond the one-octet instance tags
		seq = append(seq, genValue(reflect.TypeOf(Many{}), seed, 400, 20), genValue(reflect.TypeOf(Many{}), seed+1, 400, 20))
		n -= 2
	}
	for i := 0; i < n; i++ {
		t := zooTypes[r.intn(len(zooTypes))]
		if t.Kind() == reflect.Map { // top-level unnamed maps lose their type (known finding of C01): keep them out of sequences
			t = reflect.TypeOf(Outer{})
		}
		switch r.intn(6) {
		case 0:
			if len(earlier) > 0 { // an object sent earlier on this stream, again
				p := earlier[r.intn(len(earlier))]
				seq = append(seq, &Outer{Name: "again", P: p, Q: p, N: int32(i)})
				continue
			}
			fallthrough
		case 1:
			p := &Inner{int32(r.intn(1000)), mkString("ascii", r.intn(5), -1, r)}
			earlier = append(earlier, p)
			seq = append(seq, p)
		case 2:
			if r.intn(4) == 0 { // a byte array at the boundaries of its length forms and chunk size
				seq = append(seq, mkBytes([]int{15, 16, 1023, 1024, 1025, 4096, 4097, 5120}[r.intn(8)], r))
				continue
			}
			seq = append(seq, topScalar(r))
		case 3:
			if len(slices) > 0 && r.bool() { // a slice sent earlier on this stream, again (the same backing array)
				seq = append(seq, slices[r.intn(len(slices))])
				continue
			}
			var sl interface{}
			switch r.intn(3) {
			case 0:
				sl = []int32{int32(r.intn(9)), 2, 3}
			case 1:
				sl = []string{"a", mkString("ascii", r.intn(4), -1, r)}
			default:
				sl = []*Inner{{1, "x"}, nil}
			}
			slices = append(slices, sl)
			seq = append(seq, sl)
		default:
			v := genValue(t, seed*31+uint64(i), 12, 20)
			if strings_HasCollide(t) {
				v = genValue(reflect.TypeOf(Inner{}), seed*31+uint64(i), 12, 20)
			}
			seq = append(seq, v)
		}
	}
	return seq
}
func strings_HasCollide(t reflect.Type) bool { return t == reflect.TypeOf(Collide{}) }
func topScalar(r *rng) interface{} {
	switch r.intn(9) {
	case 6: // a string whose last chunk is exactly full
		return mkString("ascii", strChunk*(1+r.intn(2)), -1, r)
	case 7: // a byte slice whose last chunk is exactly full
		return mkBytes(binChunk*(1+r.intn(2)), r)
	case 8:
		return mkString("mixed", strChunk+r.intn(3), -1, r)
	case 0:
		return int32(r.logInt64())
	case 1:
		return r.logInt64()
	case 2:
		return mkString("mixed", r.intn(30), -1, r)
	case 3:
		return float64(r.intn(100000)) / 8
	case 4:
		return r.bool()
	}
	return []byte{byte(r.u64()), 2, 3}
}

// the maps for a set of values, complete: ExtractTypeNameMap does not descend into a second
// value of a type it has already seen (open finding C16-F1, the business of C16 and C01), so
// every interface-held value inside is extracted on its own as well
func mergeMaps(vals []interface{}) (map[string]reflect.Type, map[string]string) {
	tm, nm := map[string]reflect.Type{}, map[string]string{}
	add := func(x interface{}) {
		t, n, ok := safeExtract(x)
		if !ok {
			return
		}
		for k, x := range t {
			if _, has := tm[k]; !has {
				tm[k] = x
			}
		}
		for k, x := range n {
			if _, has := nm[k]; !has {
				nm[k] = x
			}
		}
	}
	for _, v := range vals {
		add(v)
	}
	for _, v := range vals {
		forEachInner(reflect.ValueOf(v), map[uintptr]bool{}, func(x reflect.Value) {
			if x.CanInterface() {
				add(x.Interface())
			}
		})
	}
	return tm, nm
}

func c06Sequence(c *ctx, seed uint64, n int, api string) {
	in := map[string]interface{}{"op": "stream", "sseed": seed, "n": n, "api": api}
	seq := genSequence(seed, n)
	tm, nm := mergeMaps(seq)
	var buf bytes.Buffer
	var ends []int
	var enc *hessian.Encoder
	var ser hessian.Serializer
	if api == "encoder" {
		enc = hessian.NewEncoder(&buf, nm)
	} else {
		ser = hessian.NewSerializer(tm, nm)
	}
	for i, v := range seq {
		o, msg := guard(func() error {
			if api == "encoder" {
				return enc.WriteObject(v)
			}
			if i == 0 {
				return ser.WriteTo(&buf, v)
			}
			return ser.Write(v)
		})
		if o != oOK {
			c.fail("writing value k of a stream fails", in, fmt.Sprintf("k=%d %v %s", i, o, msg), "")
			return
		}
		ends = append(ends, buf.Len())
	}
	all := buf.Bytes()
	// the stream as a whole must be n well-formed values (cross-checked against Coq hparse)
	st := &hstate{}
	pos := 0
	var trees []string
	okParse := true
	for k := 0; k < n; k++ {
		h, used, err := hparseOne(all[pos:], st)
		if err != nil || pos+used != ends[k] {
			c.fail("value k of the stream is not framed as one well-formed value", in, fmt.Sprintf("k=%d err=%v end=%d want %d", k, err, pos+used, ends[k]), "")
			okParse = false
			break
		}
		trees = append(trees, h.String())
		pos += used
	}
	if okParse && len(all) < 40000 {
		ans := "ok"
		for i, t := range trees {
			if i == 0 {
				ans += " " + t
			} else {
				ans += " ; " + t
			}
		}
		c.corr("parseseq "+hx(all), ans)
	}
	rd := &countingReader{b: all}
	var dec *hessian.Decoder
	// reading modes of the Decoder API: the plain reader; a reader that returns its last bytes together
	// with io.EOF; Decode on the whole stream for the first value, ReadObject for the others
	mode := int(seed % 4)
	if api == "encoder" {
		switch mode {
		case 1:
			dec = hessian.NewDecoder(dataErrReader{rd}, tm)
		case 2:
			dec = hessian.NewDecoder(nil, tm)
		default:
			dec = hessian.NewDecoder(rd, tm)
		}
	}
	c.dist[fmt.Sprint("read_mode_", api, "_", mode)]++
	for k := 0; k < n; k++ {
		var got interface{}
		o, msg := guard(func() error {
			var e error
			switch {
			case api == "encoder" && mode == 2 && k == 0:
				got, e = dec.Decode(all)
			case api == "encoder":
				got, e = dec.ReadObject()
			case k == 0:
				got, e = ser.ReadFrom(rd)
			default:
				got, e = ser.Read()
			}
			return e
		})
		if o != oOK {
			c.fail("read k of a stream fails", in, fmt.Sprintf("k=%d %v %s", k, o, msg), "")
			return
		}
		if !(api == "encoder" && mode == 2) && rd.pos != ends[k] {
			c.fail("read k consumed the wrong number of bytes", in, fmt.Sprintf("k=%d offset %d, value k ends at %d", k, rd.pos, ends[k]), "")
			return
		}
		if car := findCarrier(got, 0); car != "" {
			c.fail("read hands back an internal carrier", in, fmt.Sprintf("k=%d carrier %s in %T", k, car, got), "")
			return
		}
		want := canonTop(topNormal(seq[k]))
		g := canonTop(got)
		if len(want) >= 7 && want[:7] == "(empty " && g == "nil" {
			g = want
		}
		if g != want {
			c.fail("value k read back differs from value k written", in, fmt.Sprintf("k=%d %s", k, diffStr(want, g)), "")
			return
		}
	}
	// identity across values: an object sent twice on the stream is one object for the reader
	c.sample(in)
}

func runC06(c *ctx) {
	if rp, ok := c.extra["replay"].(string); ok {
		in := loadReplay(rp)
		c06Sequence(c, uint64(in["sseed"].(float64)), int(in["n"].(float64)), in["api"].(string))
		return
	}
	c.rule = "sequences of 1..50 mixed zoo values on one stream (scalars, structs, lists, maps; later values reuse class definitions and point back to objects sent earlier), through Encoder.WriteObject/Decoder.ReadObject and through Serializer.WriteTo+Write / ReadFrom+Read, read with a byte-counting reader without read-ahead; oracle: value k equal (canonical form), offset after read k equals the end of value k, no reflect.Value/_refHolder at any depth, and the whole stream parses as n well-formed values (Go mirror == Coq hparse). Distinct by (seed, n, api); non-trivial = n >= 2."
	n := 400
	if c.tier == "thorough" {
		n = 20000
	}
	for i := 0; i < n; i++ {
		seed := c.seed*65537 + uint64(i)
		ln := 1 + int(seed%12)
		if i%10 == 0 {
			ln = 1 + int(seed%50)
		}
		for _, api := range []string{"encoder", "serializer"} {
			key := ""
			if ln >= 2 {
				key = fmt.Sprint(seed, ":", ln, ":", api)
			}
			c.eval(key)
			c.dist["api:"+api]++
			c.dist[fmt.Sprintf("len_%02d", (ln/10)*10)]++
			c06Sequence(c, seed, ln, api)
		}
	}
}
