// C02: encoder output is well-formed Hessian 2.0 and denotes the intended value.
// The reference parser (spec.go == Coq hparse) reads the implementation's bytes; a matcher then
// walks the parse tree and the Go value together, in wire order, and checks that the tree is
// the abstract value a peer would expect.
package main

import (
	"fmt"
	"math"
	"reflect"
	"time"
	"unsafe"

	hessian "github.com/vogo/gohessian"
)

func init() { props["C02"] = runC02 }

type ident struct {
	kind  reflect.Kind
	addr  uintptr
	empty bool
	typ   reflect.Type
}

type matcher struct {
	record  map[uintptr][]reflect.Value // when not nil: the wire order of the keys of every map
	nameMap map[string]string
	ords    map[int]ident
	class   string // classifier of the first mismatch, if it is a known finding
}

type mismatch struct{ msg string }

func (m *matcher) bad(f string, a ...interface{}) { panic(mismatch{fmt.Sprintf(f, a...)}) }

func lowerFirst(s string) string {
	if s != "" && s[0] >= 'A' && s[0] <= 'Z' {
		return string(s[0]+32) + s[1:]
	}
	return s
}

func goTypeName(t reflect.Type) string {
	if t.Name() != "" {
		return t.Name()
	}
	return t.String()
}

func rootElemIsInterface(t reflect.Type) bool {
	for hops := 0; hops < 64 && (t.Kind() == reflect.Slice || t.Kind() == reflect.Array || t.Kind() == reflect.Ptr); hops++ {
		t = t.Elem() // a list type may contain itself (type Nest []Nest)
	}
	return t.Kind() == reflect.Interface
}

func (m *matcher) match(h *hval, v reflect.Value) {
	for v.IsValid() && v.Kind() == reflect.Interface {
		if v.IsNil() {
			v = reflect.Value{}
			break
		}
		v = v.Elem()
	}
	if !v.IsValid() {
		if h.k != hNull {
			m.bad("nil value written as %s", h)
		}
		return
	}
	var ptrAddr uintptr
	for v.Kind() == reflect.Ptr {
		if v.IsNil() {
			if h.k != hNull {
				m.bad("nil pointer written as %s", h)
			}
			return
		}
		ptrAddr = v.Pointer()
		v = v.Elem()
	}
	switch v.Kind() {
	case reflect.Bool:
		if h.k != hBool || h.b != v.Bool() {
			m.bad("bool %v written as %s", v.Bool(), h)
		}
	case reflect.Int, reflect.Int8, reflect.Int16, reflect.Int32:
		if h.k != hInt || h.z != v.Int() {
			m.bad("%s %d written as %s", v.Type(), v.Int(), h)
		}
	case reflect.Uint8, reflect.Uint16:
		if h.k != hInt || h.z != int64(v.Uint()) {
			m.bad("%s %d written as %s", v.Type(), v.Uint(), h)
		}
	case reflect.Int64:
		if h.k != hLong || h.z != v.Int() {
			m.bad("int64 %d written as %s", v.Int(), h)
		}
	case reflect.Uint, reflect.Uint32, reflect.Uint64:
		if h.k != hLong || h.z != int64(v.Uint()) {
			m.bad("%s %d written as %s", v.Type(), v.Uint(), h)
		}
	case reflect.Float32, reflect.Float64:
		f := v.Float()
		g := math.Float64frombits(h.bits)
		if h.k != hDouble || !(f == g || (f != f && g != g)) {
			m.bad("float %v written as %s", f, h)
		}
	case reflect.String:
		if h.k != hString || h.s != v.String() {
			m.bad("string %q written as %s", truncS(v.String(), 40), truncS(h.String(), 80))
		}
	case reflect.Struct:
		if v.Type() == timeType {
			t := v.Interface().(time.Time)
			if t.IsZero() {
				if h.k != hNull {
					m.bad("zero time written as %s", h)
				}
				return
			}
			ms := t.Unix()*1000 + int64(t.Nanosecond())/1000000
			if h.k != hDate || h.z != ms {
				if h.k == hDate && t.Nanosecond() == 0 && h.z == t.Unix()*60000 {
					m.class = "C02-F1-compact-date-carries-seconds-not-minutes"
				}
				m.bad("time %d ms written as %s", ms, h)
			}
			return
		}
		if h.k == hRef {
			id, ok := m.ords[int(h.z)]
			if !ok || id.kind != reflect.Struct || ptrAddr == 0 || id.addr != ptrAddr {
				m.bad("back-reference %d does not denote this object (%s)", h.z, v.Type())
			}
			return
		}
		if h.k != hObject {
			m.bad("struct %s written as %s", v.Type(), truncS(h.String(), 80))
		}
		want := v.Type().Name()
		if n, ok := m.nameMap[want]; ok {
			want = n
		}
		if h.ty != want {
			m.bad("class name %q, registered name is %q", h.ty, want)
		}
		if len(h.fnames) != v.NumField() {
			m.bad("class %s defined with %d fields, struct has %d", h.ty, len(h.fnames), v.NumField())
		}
		for i := 0; i < v.NumField(); i++ {
			if h.fnames[i] != lowerFirst(v.Type().Field(i).Name) {
				m.bad("field %d of %s is named %q, want %q", i, h.ty, h.fnames[i], lowerFirst(v.Type().Field(i).Name))
			}
		}
		m.ords[h.ord] = ident{kind: reflect.Struct, addr: ptrAddr, typ: v.Type()}
		for i := 0; i < v.NumField(); i++ {
			m.match(h.items[i], v.Field(i))
		}
	case reflect.Slice:
		if v.Type().Elem().Kind() == reflect.Uint8 && v.Type() == reflect.TypeOf([]byte(nil)) {
			if h.k != hBinary || string(h.bin) != string(v.Bytes()) {
				m.bad("[]byte of %d octets written as %s", v.Len(), truncS(h.String(), 60))
			}
			return
		}
		addr := uintptr(unsafe.Pointer(v.Pointer()))
		if h.k == hRef {
			id, ok := m.ords[int(h.z)]
			if !ok || id.kind != reflect.Slice {
				m.bad("back-reference %d does not denote a list", h.z)
			}
			// a reference to an empty container is identified with an empty container
			if v.Len() == 0 && id.empty {
				return
			}
			if id.addr != addr || id.typ != v.Type() {
				m.bad("back-reference %d denotes a different list", h.z)
			}
			return
		}
		if h.k != hList {
			m.bad("slice %s written as %s", v.Type(), truncS(h.String(), 80))
		}
		if len(h.items) != v.Len() {
			m.bad("slice %s of %d elements written with %d", v.Type(), v.Len(), len(h.items))
		}
		name, registered := m.nameMap[goTypeName(v.Type())]
		if registered && !rootElemIsInterface(v.Type()) {
			if !h.typed || h.ty != name {
				m.bad("slice %s must carry its registered list type %q, got typed=%v %q", v.Type(), name, h.typed, h.ty)
			}
		} else if h.typed {
			m.bad("slice %s written with type %q which is not registered for it", v.Type(), h.ty)
		}
		m.ords[h.ord] = ident{kind: reflect.Slice, addr: addr, empty: v.Len() == 0, typ: v.Type()}
		for i := 0; i < v.Len(); i++ {
			m.match(h.items[i], v.Index(i))
		}
	case reflect.Map:
		if v.Len() == 0 {
			if h.k != hNull {
				m.bad("nil or empty map written as %s", truncS(h.String(), 60))
			}
			return
		}
		addr := v.Pointer()
		if h.k == hRef {
			id, ok := m.ords[int(h.z)]
			if !ok || id.kind != reflect.Map || id.addr != addr {
				m.bad("back-reference %d does not denote this map", h.z)
			}
			return
		}
		if h.k != hMap {
			m.bad("map %s written as %s", v.Type(), truncS(h.String(), 80))
		}
		if name, ok := m.nameMap[v.Type().Name()]; ok && v.Type().Name() != "" {
			if !h.typed || h.ty != name {
				m.bad("named map %s must carry type %q", v.Type(), name)
			}
		} else if h.typed {
			m.bad("map %s written with type %q which is not registered for it", v.Type(), h.ty)
		}
		if len(h.items) != 2*v.Len() {
			m.bad("map of %d entries written with %d", v.Len(), len(h.items)/2)
		}
		m.ords[h.ord] = ident{kind: reflect.Map, addr: addr, typ: v.Type()}
		used := map[int]bool{}
		keys := v.MapKeys()
		for i := 0; i < len(h.items); i += 2 {
			found := -1
			for j, k := range keys {
				if used[j] {
					continue
				}
				if m.tryMatch(h.items[i], k) {
					found = j
					break
				}
			}
			if found < 0 {
				m.bad("map key %s is not a key of the map", truncS(h.items[i].String(), 60))
			}
			used[found] = true
			if m.record != nil {
				m.record[v.Pointer()] = append(m.record[v.Pointer()], keys[found])
			}
			m.match(h.items[i+1], v.MapIndex(keys[found]))
		}
	default:
		m.bad("unsupported kind %s was encoded as %s", v.Kind(), truncS(h.String(), 60))
	}
}

func (m *matcher) tryMatch(h *hval, v reflect.Value) (ok bool) {
	defer func() {
		if r := recover(); r != nil {
			if _, is := r.(mismatch); is {
				ok = false
				return
			}
			panic(r)
		}
	}()
	sub := &matcher{nameMap: m.nameMap, ords: map[int]ident{}}
	sub.match(h, v)
	return true
}

// denotes: does the parse tree h denote the Go value val under name map nm?
func denotes(h *hval, val interface{}, nm map[string]string) (problem, class string) {
	m := &matcher{nameMap: nm, ords: map[int]ident{}}
	defer func() {
		if r := recover(); r != nil {
			if mm, is := r.(mismatch); is {
				problem, class = mm.msg, m.class
				return
			}
			panic(r)
		}
	}()
	m.match(h, reflect.ValueOf(val))
	return "", ""
}

func c02Case(c *ctx, val interface{}, label string, seed uint64, budget, maxLen int) {
	in := map[string]interface{}{"op": "wellformed", "type": label, "gseed": seed, "budget": budget, "maxlen": maxLen}
	var nm map[string]string
	o, msg := guard(func() error { _, nm = hessian.ExtractTypeNameMap(val); return nil })
	if o != oOK {
		c.fail("extraction fails", in, msg, "")
		return
	}
	var bs []byte
	o, msg = guard(func() error { var e error; bs, e = hessian.ToBytes(val, nm); return e })
	if o != oOK {
		c.fail("encode of a supported value fails", in, o.String()+": "+msg, "")
		return
	}
	h, err := hparseAll(bs)
	ans := "err"
	if err == nil {
		ans = "ok " + h.String()
	}
	if len(bs) < 60000 {
		c.corr("parse "+hx(bs), ans)
	}
	if err != nil {
		c.fail("output is not exactly one well-formed Hessian 2.0 value", in, err.Error()+" bytes="+hx(trunc(bs, 100)), "")
		return
	}
	if p, cls := denotes(h, val, nm); p != "" {
		c.fail("output does not denote the value", in, p, cls)
	}
	encCorr(c, val, nm, bs, h)
}

// the encoder model on the same value, with the map orders the implementation used
func encCorr(c *ctx, val interface{}, nm map[string]string, bs []byte, h *hval) {
	if len(bs) > 30000 {
		return
	}
	order, ok := recoverMapOrder(h, val, nm)
	if !ok {
		return // the output does not denote the value: already reported, no order to recover
	}
	c.corr("enc "+nameMapStr(nm)+" "+gvalString(val, order), "ok "+hx(bs))
}

func safeExtract2(v interface{}) (tm map[string]reflect.Type, nm map[string]string) {
	guard(func() error { tm, nm = hessian.ExtractTypeNameMap(v); return nil })
	return
}

func runC02(c *ctx) {
	if rp, ok := c.extra["replay"].(string); ok {
		in := loadReplay(rp)
		for _, t := range zooTypes {
			if t.String() == in["type"].(string) {
				s := uint64(in["gseed"].(float64))
				b, ml := int(in["budget"].(float64)), int(in["maxlen"].(float64))
				c02Case(c, genValue(t, s, b, ml), t.String(), s, b, ml)
			}
		}
		return
	}
	// every zoo type once under OTHER registered names first: what a class is called belongs to the
	// name map of the call, nothing about it may outlive the call
	for ti, t := range zooTypes {
		v := genValue(t, c.seed*71+uint64(ti), 40, 20)
		_, nm := safeExtract2(v)
		alt := map[string]string{}
		for k, w := range nm {
			alt[k] = w + "Alt"
		}
		guard(func() error { _, err := hessian.ToBytes(v, alt); return err })
	}
	c02Names(c)
	c.rule = "the C01 generator over every zoo type (incl. custom class names via HessianCodecName, 21-class messages, shared pointers in Outer/Holder/Node); every emitted message is parsed by the reference parser (Go mirror of Coq hparse, cross-checked case by case) and matched, in wire order, against the Go value: class names, lower-cased field names in declaration order, list type names and true counts, back-reference ordinals. Distinct by (type, seed); non-trivial = contains a container or struct."
	n := 120
	if c.tier == "thorough" {
		n = 4000
	}
	// the same values through ONE reused encoder and ONE reused serializer (one-shot calls reset them)
	{
		var all []interface{}
		for ti, t := range zooTypes {
			for i := 0; i < 6; i++ {
				all = append(all, genValue(t, c.seed*99+uint64(i*31+ti), 10+i*20, 40))
			}
		}
		_, nmAll := mergeMaps(all)
		enc := hessian.NewEncoder(nil, nmAll)
		ser := hessian.NewSerializer(nil, nmAll)
		for i, v := range all {
			for _, api := range []string{"Encoder.Encode", "Serializer.ToBytes"} {
				in := map[string]interface{}{"op": "wellformed-reused", "index": i, "api": api}
				var bs []byte
				o, msg := guard(func() error {
					var e error
					if api == "Encoder.Encode" {
						bs, e = enc.Encode(v)
					} else {
						bs, e = ser.ToBytes(v)
					}
					return e
				})
				c.eval(fmt.Sprint("reused#", i, api))
				if o != oOK {
					c.fail("encode on a reused instance fails", in, o.String()+": "+msg, "")
					continue
				}
				h, err := hparseAll(bs)
				if err != nil {
					c.fail("output of a reused encoder is not exactly one well-formed Hessian 2.0 value", in, err.Error()+" bytes="+hx(trunc(bs, 100)), "")
					continue
				}
				if p, cls := denotes(h, v, nmAll); p != "" {
					c.fail("output of a reused encoder does not denote the value", in, p, cls)
				}
			}
		}
	}
	for ti, t := range zooTypes {
		for i := 0; i < n; i++ {
			seed := c.seed*1000003 + uint64(i)*131 + uint64(ti)
			budget := 10 + (i%7)*30
			c.eval(fmt.Sprint(t.String(), "#", seed))
			c.dist["type:"+t.String()]++
			c02Case(c, genValue(t, seed, budget, 300), t.String(), seed, budget, 300)
			if i == 0 {
				c.sample(map[string]interface{}{"type": t.String(), "gseed": seed})
			}
		}
	}
	// shared pointers and slices: the ordinals of back-references
	for i := 0; i < n*4; i++ {
		seed := c.seed*7 + uint64(i)
		val := genGraph(seed, 2+int(seed%5), true)
		c.eval(fmt.Sprint("graph#", seed))
		c.dist["type:graph"]++
		c02Graph(c, val, seed)
	}
}

func c02Graph(c *ctx, val interface{}, seed uint64) {
	in := map[string]interface{}{"op": "wellformed-graph", "gseed": seed}
	_, nm := hessian.ExtractTypeNameMap(val)
	var bs []byte
	o, msg := guard(func() error { var e error; bs, e = hessian.ToBytes(val, nm); return e })
	if o != oOK {
		c.fail("encode of a graph fails", in, o.String()+": "+msg, "")
		return
	}
	h, err := hparseAll(bs)
	ans := "err"
	if err == nil {
		ans = "ok " + h.String()
	}
	c.corr("parse "+hx(bs), ans)
	if err != nil {
		c.fail("graph output is not well-formed", in, err.Error(), "")
		return
	}
	if p, cls := denotes(h, val, nm); p != "" {
		c.fail("graph output does not denote the value", in, p, cls)
	}
	encCorr(c, val, nm, bs, h)
}

// the name helpers on every first character that matters (all of printable ASCII, so both ends
// of A-Z and a-z and their neighbours, and multi-byte first characters), against the model
func c02Names(c *ctx) {
	firsts := []string{"é", "Ω", "中", "\U0001F600"}
	for b := 0x20; b <= 0x7e; b++ {
		firsts = append(firsts, string(rune(b)))
	}
	for _, f := range firsts {
		for _, tail := range []string{"", "b", "Bc", "Zz", "_1"} {
			name := f + tail
			c.eval("name:" + name)
			c.corr("lower "+nameStr(name), nameStr(hessian.VerifLowerName(name)))
			c.corr("cap "+nameStr(name), nameStr(hessian.VerifCapitalizeName(name)))
			c.corr("rootelem "+nameStr("[]"+name), nameStr(hessian.VerifArrayRootElemName("[]"+name)))
		}
	}
}
