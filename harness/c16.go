// C16: type/name map extraction terminates and yields closed, mutually consistent maps.
package main

import (
	"encoding/json"
	"fmt"
	"os"
	"os/exec"
	"reflect"
	"sort"
	"strings"
	"time"

	hessian "github.com/vogo/gohessian"
)

func init() { props["C16"] = runC16 }

type SelfRef struct {
	V    int32
	Next *SelfRef
}
type MutA struct {
	B *MutB
	L []*MutB
}
type MutB struct {
	A *MutA
	M map[string]*MutA
}
type SliceOfSlices struct {
	LL  [][]int32
	LLP [][]*Inner
}
type WithIface struct {
	Any []interface{}
}
type OnlyInIface struct{ Z int32 }
type CustomOuter struct {
	N  *Named
	Ns []*Named
}

// custom-named AND self-referential
type NamedNode struct {
	V    int32
	Next *NamedNode
	Kids []*NamedNode
}

func (NamedNode) HessianCodecName() string { return "com.example.NamedNode" }

// a map whose key type is a struct, empty in the zero witness
type KeyedMap struct {
	M map[Leaf]int32
	N map[string]*Leaf2
}
type Leaf2 struct{ Q int32 }
type Tag2 struct{ T string }

// an inline anonymous struct declared before container fields
type AnonFirst struct {
	Meta  struct{ K string }
	Items []Leaf2
	Tags  map[string]Tag2
}

// a pointer type that is its own element type
type SelfPtr *SelfPtr

// container types that contain themselves
type SelfMap map[string]SelfMap
type Nest []Nest
type Doc struct {
	Name string
	Kids SelfMap
	Sub  Nest
}

// nil pointers to an interface and to a pointer
type PtrIface struct {
	P *interface{}
	Q **Leaf2
	R [2]*Tag2
	S [0]Leaf
}

var c16Types = append(append([]reflect.Type{}, zooTypes...),
	reflect.TypeOf(SelfRef{}), reflect.TypeOf(MutA{}), reflect.TypeOf(SliceOfSlices{}), reflect.TypeOf(CustomOuter{}),
	reflect.TypeOf(GNode{}), reflect.TypeOf(WithIface{}), reflect.TypeOf(NamedNode{}), reflect.TypeOf(KeyedMap{}), reflect.TypeOf(AnonFirst{}),
	reflect.TypeOf(Doc{}), reflect.TypeOf(PtrIface{}), reflect.TypeOf(SelfMap{}), reflect.TypeOf(Nest{}))

// the struct and slice types a value of static type t can contain (statically)
func staticClosure(t reflect.Type, out map[reflect.Type]bool) {
	staticClosureW(t, out, map[reflect.Type]bool{})
}
func staticClosureW(t reflect.Type, out, walked map[reflect.Type]bool) {
	for t.Kind() == reflect.Ptr {
		t = t.Elem()
	}
	if walked[t] {
		return
	}
	walked[t] = true
	switch t.Kind() {
	case reflect.Struct:
		if t == timeType {
			return
		}
		out[t] = true
		for i := 0; i < t.NumField(); i++ {
			staticClosureW(t.Field(i).Type, out, walked)
		}
	case reflect.Slice:
		if t.Elem().Kind() == reflect.Uint8 {
			return
		}
		out[t] = true
		staticClosureW(t.Elem(), out, walked)
	case reflect.Map:
		staticClosureW(t.Key(), out, walked)
		staticClosureW(t.Elem(), out, walked)
	}
}

func wireNameOf(t reflect.Type, nm map[string]string) (string, bool) {
	n, ok := nm[goTypeName(t)]
	return n, ok
}

// within a deadline (a runaway extraction must not hang the harness)
func withDeadline(d time.Duration, f func()) (finished bool, panicMsg string) {
	done := make(chan string, 1)
	go func() {
		defer func() {
			if r := recover(); r != nil {
				done <- fmt.Sprint("panic: ", r)
			}
		}()
		f()
		done <- ""
	}()
	select {
	case m := <-done:
		return true, m
	case <-time.After(d):
		return false, ""
	}
}

func c16Check(c *ctx, t reflect.Type, witness interface{}, wlabel string, seed uint64) {
	in := map[string]interface{}{"op": "extract", "type": t.String(), "witness": wlabel, "gseed": seed}
	var tm map[string]reflect.Type
	var nm map[string]string
	fin, pm := withDeadline(5*time.Second, func() { tm, nm = hessian.ExtractTypeNameMap(witness) })
	if !fin {
		c.fail("extraction from a value does not terminate", in, "no result after 5 s", "")
		return
	}
	if pm != "" {
		c.fail("extraction from a value panics", in, pm, "")
		return
	}
	xtrCorr(c, witness, tm, nm)
	// closed: every struct and slice type reachable from the static type
	need := map[reflect.Type]bool{}
	staticClosure(t, need)
	for st := range need {
		if rootElemIsInterface(st) && st.Kind() == reflect.Slice {
			continue // []interface{} is written untyped; it needs no name
		}
		if st.Kind() == reflect.Struct && st.Name() == "" {
			continue // anonymous struct types are not supported values
		}
		wn, ok := wireNameOf(st, nm)
		if !ok {
			c.fail("name map is not closed: a reachable type has no wire name", in, st.String(), "")
			continue
		}
		back, ok := tm[wn]
		if !ok {
			c.fail("type map is not closed: the wire name of a reachable type is not a key", in, st.String()+" -> "+wn, "")
			continue
		}
		bt := back
		for bt.Kind() == reflect.Ptr {
			bt = bt.Elem()
		}
		okBack := bt == st
		if st.Kind() == reflect.Slice && bt.Kind() == reflect.Slice { // []*T and []T legitimately share the wire name "[T"
			a, b := st.Elem(), bt.Elem()
			for a.Kind() == reflect.Ptr {
				a = a.Elem()
			}
			for b.Kind() == reflect.Ptr {
				b = b.Elem()
			}
			okBack = a == b
		}
		if !okBack {
			c.fail("maps are inconsistent: the type map does not map the wire name back to the type", in, fmt.Sprintf("%s -> %q -> %s", st, wn, back), "")
		}
		// the custom name is used when the type declares one
		if st.Kind() == reflect.Struct {
			if cn, is := reflect.New(st).Interface().(hessian.CodecNamable); is && wn != cn.HessianCodecName() {
				c.fail("the custom codec name is not used", in, fmt.Sprintf("%s -> %q, declares %q", st, wn, cn.HessianCodecName()), "")
			}
		}
	}
	// the maps extracted from this witness suffice for every other value of the type
	for j := 0; j < 3; j++ {
		other := genValue(t, seed*13+uint64(j)+1, 10+j*40, 30)
		if holdsInterface(t) || strings.Contains(t.String(), "AnonFirst") {
			continue // interface contents are dynamic; anonymous struct types have no class name (outside C01's value space)
		}
		var bs []byte
		var dec interface{}
		o, m := guard(func() error { var e error; bs, e = hessian.ToBytes(other, cloneNameMap(nm)); return e })
		if o != oOK {
			c.fail("maps extracted from one value do not encode another value of the type", in, o.String()+": "+m, "")
			continue
		}
		o, m = guard(func() error { var e error; dec, e = hessian.ToObject(bs, tm); return e })
		want, got := canonTop(topNormal(other)), canonTop(dec)
		if strings.HasPrefix(want, "(empty ") && got == "nil" {
			got = want
		}
		if o != oOK || want != got {
			cls := ""
			if o == oOK {
				cls = c01Class(other, want, got)
			}
			c.fail("maps extracted from one value do not round-trip another value of the type", in, fmt.Sprint(o, " ", m, " ", diffStr(want, got)), cls)
		}
	}
}

// nilEntries sets every pointer-typed element of every list and every pointer-typed value of every
// map below v to nil, keeping the lengths
func nilEntries(v reflect.Value, seen map[uintptr]bool) {
	switch v.Kind() {
	case reflect.Ptr:
		if v.IsNil() || seen[v.Pointer()] {
			return
		}
		seen[v.Pointer()] = true
		nilEntries(v.Elem(), seen)
	case reflect.Struct:
		if v.Type() == timeType {
			return
		}
		for i := 0; i < v.NumField(); i++ {
			if v.Field(i).CanSet() {
				nilEntries(v.Field(i), seen)
			}
		}
	case reflect.Slice:
		for i := 0; i < v.Len(); i++ {
			if e := v.Index(i); e.Kind() == reflect.Ptr {
				e.Set(reflect.Zero(e.Type()))
			} else {
				nilEntries(e, seen)
			}
		}
	case reflect.Map:
		if v.Type().Elem().Kind() == reflect.Ptr {
			for _, k := range v.MapKeys() {
				v.SetMapIndex(k, reflect.Zero(v.Type().Elem()))
			}
		}
	}
}

func runC16(c *ctx) {
	c.rule = "every zoo type plus self-referential, mutually recursive, slice-of-slice, custom-named and interface-holding types x witnesses from the zero value (all pointers nil, all containers nil), the empty-container value, to populated values (3 seeds), incl. cyclic witnesses and one whose lists and maps hold nil pointers only; ExtractTypeNameMap must finish within a deadline, give every statically reachable struct/slice type a wire name that the type map maps back to it (custom name when declared), and the maps must encode and decode three other values of the type; TypeMapOf(type) must finish and contain every reachable struct type, also when asked for many types one after the other in one process. Distinct by (type, witness); all non-trivial."
	if os.Getenv("HX_C16_SELFPTR") != "" { // run in a subprocess under a timeout: see c16Extras
		hessian.TypeMapOf(reflect.TypeOf(SelfPtr(nil)))
		os.Exit(0)
	}
	only := os.Getenv("HX_C16_ONLY")
	if rp, ok := c.extra["replay"].(string); ok {
		if loadReplay(rp)["op"] == "typemapof-sequence" {
			c16Sequence(c)
			return
		}
		only = loadReplay(rp)["type"].(string)
	}
	if only == "" {
		// every type in its own subprocess: a runaway recursion ends in a fatal stack overflow, which
		// cannot be recovered from inside the process
		self, _ := os.Executable()
		for _, t := range c16Types {
			dir, _ := os.MkdirTemp(c.outDir, "t")
			cmd := exec.Command("bash", "-c", "ulimit -v 8000000; exec timeout 60 "+self+" C16 -seed "+fmt.Sprint(c.seed)+" -tier "+c.tier+" -out "+dir)
			cmd.Env = append(os.Environ(), "HX_C16_ONLY="+t.String())
			out, err := cmd.CombinedOutput()
			in := map[string]interface{}{"op": "extract", "type": t.String()}
			b, rerr := os.ReadFile(dir + "/C16.oracle.json")
			if rerr == nil { // the correspondence cases of the subprocess become ours
				qs, _ := os.ReadFile(dir + "/C16.cases")
				as, _ := os.ReadFile(dir + "/C16.impl")
				ql, al := strings.Split(strings.TrimRight(string(qs), "\n"), "\n"), strings.Split(strings.TrimRight(string(as), "\n"), "\n")
				if len(qs) > 0 && len(ql) == len(al) {
					for i := range ql {
						c.corr(ql[i], al[i])
					}
				}
			}
			os.RemoveAll(dir)
			if err != nil || rerr != nil {
				c.eval(t.String() + "/crash")
				msg := string(out)
				if i := strings.Index(msg, "fatal error"); i >= 0 {
					msg = msg[i:]
				}
				c.fail("extraction crashes the process or does not terminate (stack overflow / timeout)", in, truncS(msg, 300), "")
				continue
			}
			var sub struct {
				Evaluations int            `json:"evaluations"`
				Failures    []failure      `json:"failures"`
				Samples     []interface{}  `json:"samples"`
				Dist        map[string]int `json:"distribution"`
			}
			must(json.Unmarshal(b, &sub))
			for i := 0; i < sub.Evaluations; i++ {
				c.eval(fmt.Sprint(t.String(), "/", i))
			}
			for _, f := range sub.Failures {
				c.fail(f.What, f.Input, f.Detail, f.Class)
			}
			for _, sm := range sub.Samples {
				c.sample(sm)
			}
			for k, v := range sub.Dist {
				if !strings.HasPrefix(k, "fail") {
					c.dist[k] += v
				}
			}
		}
		c16Extras(c)
		return
	}
	for ti, t := range c16Types {
		if only != "" && t.String() != only {
			continue
		}
		var witnesses []interface{}
		var labels []string
		zero := reflect.New(t).Elem()
		if t.Kind() == reflect.Struct {
			witnesses, labels = append(witnesses, reflect.New(t).Interface()), append(labels, "zero")
		} else {
			witnesses, labels = append(witnesses, zero.Interface()), append(labels, "zero")
			if t.Kind() == reflect.Slice {
				witnesses, labels = append(witnesses, reflect.MakeSlice(t, 0, 0).Interface()), append(labels, "empty")
			}
			if t.Kind() == reflect.Map {
				witnesses, labels = append(witnesses, reflect.MakeMap(t).Interface()), append(labels, "empty")
			}
		}
		for s := 0; s < 3; s++ {
			witnesses, labels = append(witnesses, genValue(t, c.seed*101+uint64(ti*7+s), 20+60*s, 20)), append(labels, fmt.Sprint("populated", s))
		}
		// a populated witness in which every pointer entry of every list and map is nil: the containers
		// are not empty, yet no entry leads anywhere (the element types are known statically only)
		{
			rv := reflect.ValueOf(genValue(t, c.seed*103+uint64(ti*5), 80, 20))
			if rv.IsValid() {
				if rv.Kind() != reflect.Ptr {
					p := reflect.New(rv.Type())
					p.Elem().Set(rv)
					rv = p
				}
				nilEntries(rv, map[uintptr]bool{})
				if t.Kind() == reflect.Struct {
					witnesses, labels = append(witnesses, rv.Interface()), append(labels, "nilentries")
				} else {
					witnesses, labels = append(witnesses, rv.Elem().Interface()), append(labels, "nilentries")
				}
			}
		}
		for wi, w := range witnesses {
			c.eval(t.String() + "/" + labels[wi])
			c.dist["witness:"+labels[wi]]++
			c16Check(c, t, w, labels[wi], c.seed*7+uint64(ti))
		}
		// TypeMapOf on the type alone
		var tmo map[string]reflect.Type
		fin, pm := withDeadline(5*time.Second, func() { tmo = hessian.TypeMapOf(t) })
		c.eval(t.String() + "/TypeMapOf")
		in := map[string]interface{}{"op": "typemapof", "type": t.String()}
		if !fin || pm != "" {
			c.fail("TypeMapOf does not terminate or panics", in, pm, "")
		} else {
			tmofCorr(c, t, tmo)
			need := map[reflect.Type]bool{}
			staticClosure(t, need)
			missingSlice := ""
			for st := range need {
				if st.Kind() != reflect.Struct {
					if st.Kind() == reflect.Slice && !rootElemIsInterface(st) {
						found := false
						for _, x := range tmo {
							if x == st {
								found = true
							}
						}
						if !found {
							missingSlice = st.String()
						}
					}
					continue
				}
				if st.Name() != "" && tmo[st.Name()] != st {
					c.fail("TypeMapOf is not closed: a reachable struct type is missing", in, st.String(), "")
				}
			}
			if missingSlice != "" {
				c.fail("TypeMapOf is not closed: reachable slice types are missing (a typed list of that type cannot be decoded with this map)", in, missingSlice, "C16-F2-typemapof-omits-slice-types")
			}
		}
		c.sample(map[string]interface{}{"type": t.String(), "witnesses": labels})
	}
}

// TypeMapOf on one type after another in ONE process (everything else asks once per process): the
// answer for a type must not depend on which types were asked about before it - the roots first,
// then every struct type below them (members of recursive families after their roots), then all
// of them again in the opposite order
func c16Sequence(c *ctx) {
	var order []reflect.Type
	seen := map[reflect.Type]bool{}
	for _, t := range c16Types {
		order = append(order, t)
		seen[t] = true
	}
	for _, t := range c16Types {
		need := map[reflect.Type]bool{}
		staticClosure(t, need)
		var below []reflect.Type
		for st := range need {
			if st.Kind() == reflect.Struct && st.Name() != "" && !seen[st] {
				below = append(below, st)
			}
		}
		sort.Slice(below, func(i, j int) bool { return below[i].String() < below[j].String() })
		for _, st := range below {
			seen[st] = true
			order = append(order, st, reflect.PtrTo(st), reflect.SliceOf(reflect.PtrTo(st)))
		}
	}
	for pass := 0; pass < 2; pass++ {
		for i := range order {
			t := order[i]
			if pass == 1 {
				t = order[len(order)-1-i]
			}
			c.eval(fmt.Sprint("sequence/", pass, "/", t.String()))
			c.dist["typemapof_in_sequence"]++
			in := map[string]interface{}{"op": "typemapof-sequence", "type": t.String(), "pass": pass}
			var tmo map[string]reflect.Type
			fin, pm := withDeadline(5*time.Second, func() { tmo = hessian.TypeMapOf(t) })
			if !fin || pm != "" {
				c.fail("TypeMapOf does not terminate or panics", in, pm, "")
				return
			}
			need := map[reflect.Type]bool{}
			staticClosure(t, need)
			for st := range need {
				if st.Kind() == reflect.Struct && st.Name() != "" && tmo[st.Name()] != st {
					c.fail("TypeMapOf is not closed when other types were asked about before: a reachable struct type is missing", in, st.String(), "")
				}
			}
		}
	}
}

func c16Extras(c *ctx) {
	c16Sequence(c)
	// cyclic witnesses
	a := &MutA{}
	b := &MutB{A: a, M: map[string]*MutA{"a": a}}
	a.B, a.L = b, []*MutB{b, b}
	c.eval("cyclic/MutA")
	c16Check(c, reflect.TypeOf(MutA{}), a, "cyclic", 1)
	s := &SelfRef{V: 1}
	s.Next = s
	c.eval("cyclic/SelfRef")
	c16Check(c, reflect.TypeOf(SelfRef{}), s, "self-loop", 2)
	// chains of pointers and interface values that lead back to themselves
	{
		var x interface{}
		x = &x
		c.eval("cyclic/iface-self")
		var tm map[string]reflect.Type
		var nm map[string]string
		fin, pm := withDeadline(5*time.Second, func() { tm, nm = hessian.ExtractTypeNameMap(x) })
		if !fin || pm != "" {
			c.fail("extraction from a value does not terminate", map[string]interface{}{"op": "extract-ptr-cycle", "value": "var x interface{}; x = &x"}, pm, "")
		} else {
			xtrCorr(c, x, tm, nm)
		}
		wi := &WithIface{Any: []interface{}{nil}}
		wi.Any[0] = &wi.Any[0]
		c.eval("cyclic/iface-elem-self")
		fin, pm = withDeadline(5*time.Second, func() { tm, nm = hessian.ExtractTypeNameMap(wi) })
		if !fin || pm != "" {
			c.fail("extraction from a value does not terminate", map[string]interface{}{"op": "extract-ptr-cycle", "value": "w.Any[0] = &w.Any[0]"}, pm, "")
		} else {
			xtrCorr(c, wi, tm, nm)
		}
		// dynamic containers that contain themselves directly (no pointer in between)
		sm := map[string]interface{}{"n": int32(1)}
		sm["self"] = sm
		sl := []interface{}{int32(1), nil}
		sl[1] = sl
		for i, cyc := range []interface{}{sm, sl, &WithIface{Any: sl}} {
			c.eval(fmt.Sprint("cyclic/dynamic-self/", i))
			fin, pm = withDeadline(5*time.Second, func() { tm, nm = hessian.ExtractTypeNameMap(cyc) })
			if !fin || pm != "" {
				c.fail("extraction from a value does not terminate", map[string]interface{}{"op": "extract-ptr-cycle", "value": fmt.Sprint("dynamic container that contains itself #", i)}, pm, "")
			}
		}
		c.eval("nil/untyped")
		tm, nm = hessian.ExtractTypeNameMap(nil)
		xtrCorr(c, nil, tm, nm)
	}
	// a pointer type that is its own element type: UnpackPtrType has no base type to arrive at
	{
		c.eval("selfptr/TypeMapOf")
		self, _ := os.Executable()
		dir, _ := os.MkdirTemp(c.outDir, "p")
		cmd := exec.Command("timeout", "3", self, "C16", "-seed", "1", "-tier", "quick", "-out", dir)
		cmd.Env = append(os.Environ(), "HX_C16_SELFPTR=1")
		err := cmd.Run()
		os.RemoveAll(dir)
		if err != nil {
			c.fail("TypeMapOf does not terminate", map[string]interface{}{"op": "typemapof", "type": "type SelfPtr *SelfPtr"}, "no result after 3 s: "+err.Error(), "C16-F3-self-pointer-type-spins")
		}
	}
	// the one-map entry points are the two halves of ExtractTypeNameMap
	for ti, t := range zooTypes {
		val := genValue(t, c.seed*977+uint64(ti), 30, 40)
		tmA, nmA, ok := safeExtract(val)
		if !ok {
			continue
		}
		// two list types with one wire name ([]*T and []T, finding C01-F2): which of them the maps keep
		// under that name depends on Go's map iteration order, from call to call
		collide := false
		byWire := map[string]reflect.Type{}
		for k, w := range nmA {
			if len(w) > 0 && w[0] == '[' && k != w {
				if t0, ok := byWire[w]; ok && t0 != tmA[k] {
					collide = true
				}
				byWire[w] = tmA[k]
			}
		}
		if collide {
			c.dist["halves_skipped_wire_name_collision"]++
			continue
		}
		c.eval(fmt.Sprint("halves:", t.String()))
		var tmB map[string]reflect.Type
		var nmB map[string]string
		o, _ := guard(func() error { tmB = hessian.TypeMapFrom(val); nmB = hessian.NameMapFrom(val); return nil })
		if o != oOK || !sameTypeMap(tmA, tmB) || !sameNameMap(nmA, nmB) {
			c.fail("TypeMapFrom / NameMapFrom differ from ExtractTypeNameMap", map[string]interface{}{"op": "halves", "type": t.String()}, fmt.Sprint(o, len(tmA), len(tmB), len(nmA), len(nmB)), "")
		}
	}
	// types reachable only through interface values
	w := &WithIface{Any: []interface{}{&OnlyInIface{1}, int32(2), []interface{}{&Inner{1, "x"}}}}
	c.eval("iface/WithIface")
	tm, nm := hessian.ExtractTypeNameMap(w)
	if _, ok := tm["OnlyInIface"]; !ok || nm["OnlyInIface"] == "" {
		c.fail("a struct type held only in an interface value is missing from the maps", map[string]interface{}{"op": "extract-iface"}, fmt.Sprint(len(tm)), "")
	}
	if _, ok := tm["Inner"]; !ok {
		c.fail("a struct type held in a nested interface list is missing from the maps", map[string]interface{}{"op": "extract-iface"}, fmt.Sprint(len(tm)), "C16-F1-dynamic-types-in-second-instance-of-a-visited-type")
	}
}

func holdsInterface(t reflect.Type) bool {
	seen := map[reflect.Type]bool{}
	var walk func(t reflect.Type) bool
	walk = func(t reflect.Type) bool {
		if seen[t] {
			return false
		}
		seen[t] = true
		switch t.Kind() {
		case reflect.Interface:
			return true
		case reflect.Ptr, reflect.Slice, reflect.Array:
			return walk(t.Elem())
		case reflect.Map:
			return walk(t.Key()) || walk(t.Elem())
		case reflect.Struct:
			if t == timeType {
				return false
			}
			for i := 0; i < t.NumField(); i++ {
				if walk(t.Field(i).Type) {
					return true
				}
			}
		}
		return false
	}
	return walk(t)
}
