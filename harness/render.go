// A reference *encoder* for abstract Hessian values: renders an hval tree making every choice
// the grammar allows from a choice stream (number form, chunk split, fixed/variable and
// typed/untyped list header form, literal type or back-reference, short or long instance tag,
// class definition at first use or hoisted earlier). Every rendering is checked by the
// reference parser before it is used (renderChecked), so each is certified legal.
package main

import (
	"fmt"
	"math"
	"unicode/utf8"
)

type chooser interface {
	intn(n int) int // a choice among n alternatives
}

// canonical choices: always alternative 0
type zeroChooser struct{}

func (zeroChooser) intn(int) int { return 0 }

type renderer struct {
	ch              chooser
	out             []byte
	types           []string
	classes         []hclass
	nchoice         int // number of binary-or-wider choices actually offered (for the evidence)
	varied          int // number of choices where a non-canonical alternative was taken
	usedCompactDate bool
	root            *hval // the whole message, for definitions hoisted in front of scalars
}

func (r *renderer) pick(n int) int {
	if n <= 1 {
		return 0
	}
	r.nchoice++
	k := r.ch.intn(n)
	if k != 0 {
		r.varied++
	}
	return k
}

func be(v int64, n int) []byte {
	b := make([]byte, n)
	for i := n - 1; i >= 0; i-- {
		b[i] = byte(v)
		v >>= 8
	}
	return b
}

func (r *renderer) int(v int64) {
	var forms [][]byte
	if v >= -16 && v <= 47 {
		forms = append(forms, []byte{byte(0x90 + v)})
	}
	if v >= -2048 && v <= 2047 {
		forms = append(forms, []byte{byte(0xc8 + (v >> 8)), byte(v)})
	}
	if v >= -262144 && v <= 262143 {
		forms = append(forms, []byte{byte(0xd4 + (v >> 16)), byte(v >> 8), byte(v)})
	}
	forms = append(forms, append([]byte{'I'}, be(v, 4)...))
	r.out = append(r.out, forms[r.pick(len(forms))]...)
}
func (r *renderer) long(v int64) {
	var forms [][]byte
	if v >= -8 && v <= 15 {
		forms = append(forms, []byte{byte(0xe0 + v)})
	}
	if v >= -2048 && v <= 2047 {
		forms = append(forms, []byte{byte(0xf8 + (v >> 8)), byte(v)})
	}
	if v >= -262144 && v <= 262143 {
		forms = append(forms, []byte{byte(0x3c + (v >> 16)), byte(v >> 8), byte(v)})
	}
	if v >= math.MinInt32 && v <= math.MaxInt32 {
		forms = append(forms, append([]byte{0x59}, be(v, 4)...))
	}
	forms = append(forms, append([]byte{'L'}, be(v, 8)...))
	r.out = append(r.out, forms[r.pick(len(forms))]...)
}
func (r *renderer) double(bits uint64) {
	f := math.Float64frombits(bits)
	var forms [][]byte
	if f == math.Trunc(f) && math.Abs(f) < 40000 {
		iv := int64(f)
		if bits == math.Float64bits(0) {
			forms = append(forms, []byte{0x5b})
		}
		if iv == 1 {
			forms = append(forms, []byte{0x5c})
		}
		if iv >= -128 && iv <= 127 && bits != math.Float64bits(math.Copysign(0, -1)) {
			forms = append(forms, []byte{0x5d, byte(iv)})
		}
		if iv >= -32768 && iv <= 32767 && bits != math.Float64bits(math.Copysign(0, -1)) {
			forms = append(forms, []byte{0x5e, byte(iv >> 8), byte(iv)})
		}
	}
	if f == f && float64(float32(f)) == f && math.Float64bits(float64(float32(f))) == bits {
		forms = append(forms, append([]byte{0x5f}, be(int64(math.Float32bits(float32(f))), 4)...))
	}
	forms = append(forms, append([]byte{'D'}, be(int64(bits), 8)...))
	r.out = append(r.out, forms[r.pick(len(forms))]...)
}
func (r *renderer) date(ms int64) {
	forms := [][]byte{append([]byte{0x4a}, be(ms, 8)...)}
	if ms%60000 == 0 && ms/60000 >= math.MinInt32 && ms/60000 <= math.MaxInt32 {
		forms = append(forms, append([]byte{0x4b}, be(ms/60000, 4)...))
	}
	k := r.pick(len(forms))
	if k == 1 {
		r.usedCompactDate = true
	}
	r.out = append(r.out, forms[k]...)
}

// split n items into chunk lengths: canonical = one final chunk (or the 65535-limited split)
func (r *renderer) split(n, max int) []int {
	var parts []int
	switch r.pick(6) {
	case 4: // any composition: lengths going up and down, zeros in the middle
		for len(parts) < 7 && n > 1 {
			k := r.ch.intn(min(n, 5))
			parts = append(parts, k)
			n -= k
		}
	case 5: // a valley: long, short, long again (a reader that reuses its buffer must re-extend it)
		if n >= 5 {
			a := 2 + r.ch.intn(2)
			b := r.ch.intn(a)
			if a+b+a <= n {
				parts = append(parts, a, b)
				n -= a + b
			}
		}
	case 0: // as few chunks as possible
	case 1: // two chunks at a random point (the second may be longer than the first)
		if n >= 2 {
			k := 1 + r.ch.intn(n-1)
			parts = append(parts, k)
			n -= k
		}
	case 2: // one-item chunks in front
		k := r.ch.intn(4)
		for i := 0; i < k && n > 1; i++ {
			parts = append(parts, 1)
			n--
		}
	case 3: // growing chunks, possibly an empty non-final chunk
		if r.ch.intn(3) == 0 {
			parts = append(parts, 0)
		}
		sz := 1
		for n > sz+1 && len(parts) < 6 {
			parts = append(parts, sz)
			n -= sz
			sz *= 2 + r.ch.intn(2)
		}
	}
	for n > max {
		parts = append(parts, max)
		n -= max
	}
	if n > 0 && len(parts) == 0 && r.pick(5) == 4 {
		// everything in a non-final chunk, then an EMPTY final chunk (in whatever length form is drawn for it)
		return []int{n, 0}
	}
	return append(parts, n)
}

func (r *renderer) string(s string) {
	rs := []rune(s)
	parts := r.split(len(rs), 65535)
	pos := 0
	for i, n := range parts {
		chunk := string(rs[pos : pos+n])
		pos += n
		if i < len(parts)-1 {
			r.out = append(r.out, 'R', byte(n>>8), byte(n))
		} else {
			var hdrs [][]byte
			if n <= 31 {
				hdrs = append(hdrs, []byte{byte(n)})
			}
			if n <= 1023 {
				hdrs = append(hdrs, []byte{byte(0x30 + n>>8), byte(n)})
			}
			hdrs = append(hdrs, []byte{'S', byte(n >> 8), byte(n)})
			r.out = append(r.out, hdrs[r.pick(len(hdrs))]...)
		}
		r.out = append(r.out, chunk...)
	}
}
func (r *renderer) binary(b []byte) {
	parts := r.split(len(b), 65535)
	pos := 0
	for i, n := range parts {
		chunk := b[pos : pos+n]
		pos += n
		if i < len(parts)-1 {
			r.out = append(r.out, 'A', byte(n>>8), byte(n))
		} else {
			var hdrs [][]byte
			if n <= 15 {
				hdrs = append(hdrs, []byte{byte(0x20 + n)})
			}
			if n <= 1023 {
				hdrs = append(hdrs, []byte{byte(0x34 + n>>8), byte(n)})
			}
			hdrs = append(hdrs, []byte{'B', byte(n >> 8), byte(n)})
			r.out = append(r.out, hdrs[r.pick(len(hdrs))]...)
		}
		r.out = append(r.out, chunk...)
	}
}

// type ::= string | int
func (r *renderer) typ(t string) {
	for i, x := range r.types {
		if x == t {
			if r.pick(2) == 1 {
				r.int(int64(i))
				return
			}
			break
		}
	}
	r.string(t)
	r.types = append(r.types, t)
}

func sameFields(a, b []string) bool {
	if len(a) != len(b) {
		return false
	}
	for i := range a {
		if a[i] != b[i] {
			return false
		}
	}
	return true
}
func (r *renderer) classIndex(name string, fields []string) int {
	for i, c := range r.classes {
		if c.name == name && sameFields(c.fields, fields) {
			return i
		}
	}
	return -1
}
func (r *renderer) classDef(name string, fields []string) {
	r.out = append(r.out, 'C')
	r.string(name)
	r.int(int64(len(fields)))
	for _, f := range fields {
		r.string(f)
	}
	r.classes = append(r.classes, hclass{name, fields})
}

// classes used inside h that are not defined yet, in order of first use
func (r *renderer) undefinedClasses(h *hval, acc *[]hclass) {
	if h.k == hObject {
		seen := r.classIndex(h.ty, h.fnames) >= 0
		for _, c := range *acc {
			if c.name == h.ty && sameFields(c.fields, h.fnames) {
				seen = true
			}
		}
		if !seen {
			*acc = append(*acc, hclass{h.ty, h.fnames})
		}
	}
	for _, it := range h.items {
		r.undefinedClasses(it, acc)
	}
}

func (r *renderer) value(h *hval) {
	// value ::= class-def value : definitions of classes first used further on in the message may
	// be written here - in front of a container that uses them or of any other value, a scalar
	// struct field included
	var und []hclass
	if h.k == hList || h.k == hMap || h.k == hObject {
		r.undefinedClasses(h, &und)
	} else if r.root != nil {
		r.undefinedClasses(r.root, &und)
	}
	if len(und) > 0 && r.pick(3) == 2 {
		k := 1 + r.ch.intn(len(und))
		for _, c := range und[:k] {
			r.classDef(c.name, c.fields)
		}
	}
	switch h.k {
	case hNull:
		r.out = append(r.out, 'N')
	case hBool:
		if h.b {
			r.out = append(r.out, 'T')
		} else {
			r.out = append(r.out, 'F')
		}
	case hInt:
		r.int(h.z)
	case hLong:
		r.long(h.z)
	case hDouble:
		r.double(h.bits)
	case hDate:
		r.date(h.z)
	case hString:
		r.string(h.s)
	case hBinary:
		r.binary(h.bin)
	case hRef:
		r.out = append(r.out, 0x51)
		r.int(h.z)
	case hList:
		n := len(h.items)
		if h.typed {
			forms := []int{1, 2} // 1 = 'V' type int, 2 = x55 type ... Z
			if n <= 7 {
				forms = []int{0, 1, 2}
			}
			switch forms[r.pick(len(forms))] {
			case 0:
				r.out = append(r.out, byte(0x70+n))
				r.typ(h.ty)
			case 1:
				r.out = append(r.out, 'V')
				r.typ(h.ty)
				r.int(int64(n))
			case 2:
				r.out = append(r.out, 0x55)
				r.typ(h.ty)
				for _, it := range h.items {
					r.value(it)
				}
				r.out = append(r.out, 'Z')
				return
			}
		} else {
			forms := []int{1, 2}
			if n <= 7 {
				forms = []int{0, 1, 2}
			}
			switch forms[r.pick(len(forms))] {
			case 0:
				r.out = append(r.out, byte(0x78+n))
			case 1:
				r.out = append(r.out, 0x58)
				r.int(int64(n))
			case 2:
				r.out = append(r.out, 0x57)
				for _, it := range h.items {
					r.value(it)
				}
				r.out = append(r.out, 'Z')
				return
			}
		}
		for _, it := range h.items {
			r.value(it)
		}
	case hMap:
		if h.typed {
			r.out = append(r.out, 'M')
			r.typ(h.ty)
		} else {
			r.out = append(r.out, 'H')
		}
		for _, it := range h.items {
			r.value(it)
		}
		r.out = append(r.out, 'Z')
	case hObject:
		idx := r.classIndex(h.ty, h.fnames)
		if idx < 0 {
			r.classDef(h.ty, h.fnames)
			idx = len(r.classes) - 1
		}
		if idx <= 15 && r.pick(2) == 0 {
			r.out = append(r.out, byte(0x60+idx))
		} else {
			r.out = append(r.out, 'O')
			r.int(int64(idx))
		}
		for _, it := range h.items {
			r.value(it)
		}
	}
}

// render h with the given chooser; the result is certified by the reference parser
func renderChecked(h *hval, ch chooser) (bs []byte, nchoice, varied int, err error) {
	bs, nchoice, varied, _, err = renderChecked2(h, ch)
	return
}
func renderCheckedPre(h *hval, ch chooser, pre []hclass) (bs []byte, nchoice, varied int, err error) {
	r := &renderer{ch: ch, root: h}
	for _, c := range pre { // value ::= class-def value
		r.classDef(c.name, c.fields)
	}
	r.value(h)
	back, perr := hparseAll(r.out)
	if perr != nil {
		return nil, 0, 0, fmt.Errorf("renderer produced an illegal rendering: %v", perr)
	}
	if back.String() != h.String() {
		return nil, 0, 0, fmt.Errorf("renderer changed the value")
	}
	return r.out, r.nchoice, r.varied + len(pre), nil
}
func renderChecked2(h *hval, ch chooser) (bs []byte, nchoice, varied int, compactDate bool, err error) {
	r := &renderer{ch: ch, root: h}
	defer func() { compactDate = r.usedCompactDate }()
	r.value(h)
	back, perr := hparseAll(r.out)
	if perr != nil {
		return nil, 0, 0, false, fmt.Errorf("renderer produced an illegal rendering: %v", perr)
	}
	if back.String() != h.String() {
		return nil, 0, 0, false, fmt.Errorf("renderer changed the value: %s vs %s", truncS(back.String(), 200), truncS(h.String(), 200))
	}
	return r.out, r.nchoice, r.varied, false, nil
}

// enumerating chooser: the choice stream is the digits of code (mixed radix), for exhaustive
// enumeration of small choice spaces
type enumChooser struct {
	code  uint64
	radix []int // recorded radices, to count the space
}

func (e *enumChooser) intn(n int) int {
	e.radix = append(e.radix, n)
	k := int(e.code % uint64(n))
	e.code /= uint64(n)
	return k
}

var _ = utf8.RuneLen

// odometer chooser: enumerates the whole tree of choice sequences exactly once each.
type odoChooser struct {
	prefix []int // choices to replay
	radix  []int // radices seen in this run
	taken  []int
}

func (o *odoChooser) intn(n int) int {
	i := len(o.taken)
	k := 0
	if i < len(o.prefix) {
		k = o.prefix[i]
		if k >= n {
			k = n - 1
		}
	}
	o.taken = append(o.taken, k)
	o.radix = append(o.radix, n)
	return k
}

// next choice vector after a run, or nil when the space is exhausted
func (o *odoChooser) next() []int {
	for i := len(o.taken) - 1; i >= 0; i-- {
		if o.taken[i]+1 < o.radix[i] {
			nx := append([]int{}, o.taken[:i]...)
			return append(nx, o.taken[i]+1)
		}
	}
	return nil
}
