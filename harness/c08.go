// C08: every float64 encodes, decodes to the same number, in the shortest exact form.
package main

import (
	"fmt"
	"math"
	"reflect"

	hessian "github.com/vogo/gohessian"
)

func init() { props["C08"] = runC08 }

type FF64 struct{ V float64 }
type FF32 struct{ V float32 }

// independent classification on the bit pattern (written from IEEE-754, not from the code)
func isExactFloat32(v float64) bool {
	b := math.Float64bits(v)
	e := int((b >> 52) & 0x7ff)
	m := b & (1<<52 - 1)
	if e == 0x7ff {
		return m == 0 // infinities; NaN never compares equal
	}
	if e == 0 {
		return m == 0 // zeros; float64 subnormals are far below float32's range
	}
	x := e - 1023
	if x > 127 {
		return false
	}
	if x >= -126 {
		return m&(1<<29-1) == 0
	}
	sh := uint(-97 - x) // float32 subnormal: units of 2^-149
	if sh > 52 {
		return false
	}
	sig := m | 1<<52
	return sig&(1<<sh-1) == 0
}
func specDoubleLen(v float64) int {
	if v == math.Trunc(v) && !math.IsInf(v, 0) && math.Abs(v) <= 40000 {
		iv := int64(v)
		switch {
		case iv == 0 || iv == 1:
			return 1
		case iv >= -128 && iv <= 127:
			return 2
		case iv >= -32768 && iv <= 32767:
			return 3
		}
	}
	if isExactFloat32(v) {
		return 5
	}
	return 9
}
func sameNumber(a, b float64) bool {
	if math.IsNaN(a) || math.IsNaN(b) {
		return math.IsNaN(a) && math.IsNaN(b)
	}
	return a == b
}
func f64str(v float64) string {
	if math.IsNaN(v) {
		return "nan"
	}
	return uhex(math.Float64bits(v))
}

func c08Values(c *ctx) []float64 {
	r := newRng(c.seed, "C08")
	var out []float64
	add := func(v float64) { out = append(out, v) }
	lim := 70000
	if c.tier != "thorough" {
		lim = 34000
	}
	for i := -lim; i <= lim; i++ {
		if c.tier == "thorough" || i%3 == 0 || (i > -300 && i < 300) || (i > 32700 && i < 32800) || (i < -32700 && i > -32800) {
			add(float64(i))
		}
	}
	for _, d := range []float64{0.5, -0.5, 0.25, 1.5, 127.5, -128.5, 32767.5, -32768.5, 1e-300, 1e300, math.Pi} {
		add(d)
	}
	add(math.Copysign(0, -1))
	add(math.Inf(1))
	add(math.Inf(-1))
	add(math.NaN())
	add(math.Float64frombits(0x7ff0000000000001))
	add(math.Float64frombits(0xfff8000000000123))
	add(math.MaxFloat64)
	add(math.SmallestNonzeroFloat64)
	add(math.MaxFloat32)
	add(math.SmallestNonzeroFloat32)
	add(-9223372036854775808.0)
	add(9223372036854775808.0)
	add(18446744073709551616.0)
	// powers of two and their bit-pattern neighbours
	for e := -1074; e <= 1023; e++ {
		p := math.Ldexp(1, e)
		b := math.Float64bits(p)
		for _, bb := range []uint64{b - 1, b, b + 1} {
			add(math.Float64frombits(bb))
			add(-math.Float64frombits(bb))
		}
	}
	// every float32 exponent x {0, 1, all-ones mantissa}, both signs, widened
	for e := uint32(0); e < 256; e++ {
		for _, m := range []uint32{0, 1, 0x7fffff, 0x400000, 0x000100} {
			for _, s := range []uint32{0, 1 << 31} {
				add(float64(math.Float32frombits(s | e<<23 | m)))
			}
		}
	}
	n := 6000
	if c.tier == "thorough" {
		n = 500000
	}
	for i := 0; i < n; i++ {
		add(math.Float64frombits(r.u64()))
		add(float64(math.Float32frombits(uint32(r.u64()))))
		// float32 subnormals and near-float32 values (one bit below float32 precision set)
		add(float64(math.Float32frombits(uint32(r.u64()) & 0x807fffff)))
		add(math.Float64frombits(math.Float64bits(float64(math.Float32frombits(uint32(r.u64())))) | 1<<uint(r.intn(29))))
	}
	return out
}

func runC08(c *ctx) {
	if rp, ok := c.extra["replay"].(string); ok {
		in := loadReplay(rp)
		b, _ := parseUhex(in["bits"].(string))
		c08One(c, math.Float64frombits(b), true)
		return
	}
	c.rule = "float64 bit patterns: all integers in a window around the form boundaries, every power of two and its bit neighbours, every float32 exponent x 5 mantissas widened, float32 subnormals, infinities, NaN payloads, uniform 64-bit patterns, uniform float32 patterns widened and perturbed below float32 precision; leaf + positions (top, field float64, field float32, list). Distinct by bit pattern; non-trivial = not encoded in one octet."
	vals := c08Values(c)
	for i, v := range vals {
		c08One(c, v, i%40 == 0)
	}
	// decoder on arbitrary tails of every double tag, incl. truncation
	r := newRng(c.seed, "C08-dec")
	for _, tag := range []byte{0x5b, 0x5c, 0x5d, 0x5e, 0x5f, 'D', 0x59, 'N', 0x00} {
		for k := 0; k < 200; k++ {
			n := r.intn(11)
			bs := []byte{tag}
			for i := 0; i < n; i++ {
				bs = append(bs, byte(r.u64()))
			}
			rd := rdr(bs)
			var got float64
			o, _ := guard(func() error { var e error; got, e = hessian.VerifDecodeDouble(rd); return e })
			ans := o.String()
			if o == oOK {
				ans = fmt.Sprintf("ok %s %d", f64str(got), rd.Buffered())
			}
			c.corr("decdouble "+hx(bs), ans)
		}
	}
}

func c08One(c *ctx, v float64, positions bool) {
	bits := math.Float64bits(v)
	in := map[string]interface{}{"op": "double", "bits": uhex(bits), "value": fmt.Sprint(v)}
	var bs []byte
	o, msg := guard(func() error { var e error; bs, e = hessian.VerifEncodeDouble(v); return e })
	ans := o.String()
	if o == oOK {
		ans = "ok " + hx(bs)
	}
	c.corr("encdouble "+uhex(bits), ans)
	key := ""
	if len(bs) > 1 {
		key = uhex(bits)
	}
	c.eval(key)
	if o != oOK {
		c.fail("encodeDouble fails", in, o.String()+": "+msg, "")
		return
	}
	c.dist[fmt.Sprint("double_len", len(bs))]++
	if want := specDoubleLen(v); len(bs) != want {
		c.fail("not the shortest exact form", in, fmt.Sprintf("len %d want %d (%s)", len(bs), want, hx(bs)), "")
	}
	rd := rdr(append(append([]byte{}, bs...), 0x91))
	var got float64
	o, msg = guard(func() error { var e error; got, e = hessian.VerifDecodeDouble(rd); return e })
	if o != oOK || !sameNumber(got, v) || rd.Buffered() != 1 {
		c.fail("double leaf round trip", in, fmt.Sprintf("%v %s got %v left %d", o, msg, got, rd.Buffered()), "")
	}
	c.corr("decdouble "+hx(bs), fmt.Sprintf("ok %s 0", f64str(got)))
	if !positions {
		return
	}
	c.sample(in)
	// positions through the public API
	chk := func(pos string, val interface{}, extract func(interface{}) (float64, bool)) {
		_, dec, eo, do, m := publicRoundTrip(val)
		c.eval(pos + ":" + uhex(bits))
		c.dist["pos:"+pos]++
		pin := map[string]interface{}{"op": "double", "bits": uhex(bits), "pos": pos}
		if eo != oOK || do != oOK {
			c.fail("round trip fails at position", pin, fmt.Sprint(eo, do, m), "")
			return
		}
		g, ok := extract(dec)
		if !ok || !sameNumber(g, v) {
			c.fail("double altered at position", pin, fmt.Sprintf("got %v (%T)", dec, dec), "")
		}
	}
	chk("top", v, func(d interface{}) (float64, bool) { f, ok := d.(float64); return f, ok })
	chk("field", &FF64{v}, func(d interface{}) (float64, bool) {
		p, ok := d.(*FF64)
		if !ok || p == nil {
			return 0, false
		}
		return p.V, true
	})
	chk("list", []float64{v, v}, func(d interface{}) (float64, bool) {
		l, ok := d.([]float64)
		if !ok || len(l) != 2 || !sameNumber(l[0], l[1]) {
			return 0, false
		}
		return l[0], true
	})
	chk("map", map[string]float64{"k": v}, func(d interface{}) (float64, bool) {
		rv := reflect.ValueOf(d)
		if rv.Kind() != reflect.Map || rv.Len() != 1 {
			return 0, false
		}
		e := rv.MapIndex(rv.MapKeys()[0])
		f, ok := e.Interface().(float64)
		return f, ok
	})
	// float32 field: recovered exactly (bit pattern, NaN as NaN)
	f32 := float32(v)
	_, dec, eo, do, m := publicRoundTrip(&FF32{f32})
	c.eval("f32field:" + uhex(uint64(math.Float32bits(f32))))
	if eo != oOK || do != oOK {
		c.fail("float32 field round trip fails", in, fmt.Sprint(eo, do, m), "")
	} else if p, ok := dec.(*FF32); !ok || !(p.V == f32 || (p.V != p.V && f32 != f32)) {
		c.fail("float32 field altered", in, fmt.Sprintf("sent %v got %v", f32, dec), "")
	}
}
