// C12: separate serializers sharing name/type maps run concurrently, race-free.
package main

import (
	"bytes"
	"fmt"
	"os"
	"os/exec"
	"reflect"
	"strconv"
	"strings"
	"sync"
	"time"

	hessian "github.com/vogo/gohessian"
)

func init() { props["C12"] = runC12 }

func os_Args0() string { return os.Args[0] }

func c12Run(c *ctx, seed uint64, goroutines, iters int, source string) {
	in := map[string]interface{}{"op": "concurrent", "cseed": seed, "goroutines": goroutines, "iters": iters, "source": source}
	// shared read-only inputs and shared COMPLETE maps
	var vals []interface{}
	for i := 0; i < 5; i++ {
		t := []reflect.Type{reflect.TypeOf(Deep{}), reflect.TypeOf(Lists{}), reflect.TypeOf(Outer{}), reflect.TypeOf(Many{}), reflect.TypeOf(Maps{})}[i]
		vals = append(vals, genValue(t, seed*11+uint64(i), 40, 12))
	}
	// strings and byte slices longer than one chunk (the chunk loops and any buffer reuse in them)
	vals = append(vals, &Inner{A: 1, S: mkString("mixed", 2048*2+17, -1, newRng(seed, "c12-long"))})
	vals = append(vals, &FBytes{V: mkBytes(4096*2+5, newRng(seed, "c12-longb"))})
	tm, nm := mergeMaps(vals)
	var wantB [][]byte
	var wantC []string
	for _, v := range vals {
		b, err := hessian.ToBytes(v, nm)
		if err != nil {
			return
		}
		d, err := hessian.ToObject(b, tm)
		if err != nil {
			return
		}
		wantB = append(wantB, b)
		wantC = append(wantC, canonTop(d))
	}
	nm0, tm0 := cloneNameMap(nm), cloneTypeMap(tm)
	sp := hessian.NewSerializerPool(4, tm, nm)
	ep := hessian.NewEncoderPool(4, nm)
	dp := hessian.NewDecoderPool(4, tm)
	var mu sync.Mutex
	var problems []string
	var wg sync.WaitGroup
	for g := 0; g < goroutines; g++ {
		wg.Add(1)
		go func(g int) {
			defer wg.Done()
			var ser hessian.Serializer
			var enc *hessian.Encoder
			var dec *hessian.Decoder
			if source == "fresh" {
				ser, enc, dec = hessian.NewSerializer(tm, nm), hessian.NewEncoder(nil, nm), hessian.NewDecoder(nil, tm)
			}
			for i := 0; i < iters; i++ {
				if source == "pool" {
					ser, enc, dec = sp.Get().(hessian.Serializer), ep.Get().(*hessian.Encoder), dp.Get().(*hessian.Decoder)
				}
				k := (g + i) % len(vals)
				var b []byte
				var d interface{}
				var err error
				if i%2 == 0 {
					b, err = ser.ToBytes(vals[k])
					if err == nil {
						d, err = ser.ToObject(wantB[k])
					}
				} else {
					b, err = enc.Encode(vals[k])
					if err == nil {
						d, err = dec.Decode(wantB[k])
					}
				}
				if err != nil || canonTop(d) != wantC[k] || !(bytes.Equal(b, wantB[k]) || sameMapOrderInsensitive(b, wantB[k], vals[k])) {
					mu.Lock()
					problems = append(problems, fmt.Sprintf("goroutine %d iteration %d value %d: result differs from the sequential result (err=%v)", g, i, k, err))
					mu.Unlock()
				}
				if source == "pool" {
					sp.Return(ser)
					ep.Return(enc)
					dp.Return(dec)
				}
			}
		}(g)
	}
	done := make(chan bool, 1)
	go func() { wg.Wait(); done <- true }()
	select {
	case <-done:
	case <-time.After(60 * time.Second):
		c.fail("concurrent run does not finish", in, "60 s", "")
		return
	}
	if len(problems) > 0 {
		c.fail("a call returned something else than it returns when run alone", in, problems[0], "")
	}
	if !sameNameMap(nm, nm0) || !sameTypeMap(tm, tm0) {
		c.fail("a shared complete map was modified during concurrent use", in, "", "")
	}
}

// cold start: the very first decodes of a type in this process happen concurrently (lazily filled
// caches are written then); run in a fresh subprocess per sample
func c12Cold(c *ctx, seed uint64, goroutines int) {
	in := map[string]interface{}{"op": "concurrent-cold", "cseed": seed, "goroutines": goroutines}
	v := genValue(reflect.TypeOf(Deep{}), seed, 40, 12)
	tm, nm := hessian.ExtractTypeNameMap(v)
	b, err := hessian.ToBytes(v, nm)
	if err != nil {
		return
	}
	start := make(chan bool)
	var wg sync.WaitGroup
	res := make([]string, goroutines)
	for g := 0; g < goroutines; g++ {
		wg.Add(1)
		go func(g int) {
			defer wg.Done()
			d := hessian.NewDecoder(nil, tm)
			e := hessian.NewEncoder(nil, nm)
			<-start
			x, err := d.Decode(b)
			b2, err2 := e.Encode(v)
			if err != nil || err2 != nil || !(bytes.Equal(b2, b) || sameMapOrderInsensitive(b2, b, v)) {
				res[g] = fmt.Sprint("error ", err, err2)
				return
			}
			res[g] = canonTop(x)
		}(g)
	}
	close(start)
	wg.Wait()
	for g := 1; g < goroutines; g++ {
		if res[g] != res[0] {
			c.fail("concurrent first use gives different results", in, fmt.Sprintf("goroutine %d: %s", g, truncS(res[g], 100)), "")
			return
		}
	}
}

func runC12(c *ctx) {
	if c.extra["cold"] == true || os.Getenv("HX_C12_COLD") != "" {
		s, _ := strconv.ParseUint(os.Getenv("HX_C12_COLD"), 10, 64)
		c.rule = "cold-start sample"
		c.eval(fmt.Sprint("cold", s))
		c12Cold(c, s, 32)
		return
	}
	if rp, ok := c.extra["replay"].(string); ok {
		in := loadReplay(rp)
		c12Run(c, uint64(in["cseed"].(float64)), int(in["goroutines"].(float64)), int(in["iters"].(float64)), in["source"].(string))
		return
	}
	c.rule = "2..64 goroutines, each driving its own serializer / encoder / decoder (freshly constructed, or handed out by the library's pools) over the SAME complete type map and name map and the same read-only input values; every result (bytes, canonical decoded value) compared with the sequential result; the binary is built with the race detector, so any unsynchronised access to shared memory is reported (the check greps the report). Distinct by (seed, goroutines, source); all non-trivial."
	n := 24
	cold := 6
	if c.tier == "thorough" {
		n, cold = 600, 60
	}
	// cold-start samples, each in a fresh subprocess of this (race-instrumented) binary
	self, _ := os.Executable()
	for i := 0; i < cold; i++ {
		dir, _ := os.MkdirTemp(c.outDir, "cold")
		cmd := exec.Command(self, "C12", "-out", dir)
		cmd.Env = append(os.Environ(), fmt.Sprint("HX_C12_COLD=", c.seed*1000+uint64(i)))
		out, err := cmd.CombinedOutput()
		c.eval(fmt.Sprint("cold#", i))
		c.dist["cold_start_runs"]++
		in := map[string]interface{}{"op": "concurrent-cold", "cseed": c.seed*1000 + uint64(i)}
		if strings.Contains(string(out), "WARNING: DATA RACE") {
			k := strings.Index(string(out), "WARNING: DATA RACE")
			c.fail("the race detector reports an unsynchronised access to shared memory (first concurrent use)", in, truncS(string(out)[k:], 2500), "")
		} else if err != nil {
			c.fail("cold-start subprocess failed", in, truncS(string(out), 600), "")
		} else if b, e := os.ReadFile(dir + "/C12.oracle.json"); e == nil && strings.Contains(string(b), "concurrent first use gives different results") {
			c.fail("concurrent first use gives different results", in, "", "")
		}
		os.RemoveAll(dir)
	}
	for i := 0; i < n; i++ {
		seed := c.seed*313 + uint64(i)
		g := []int{2, 3, 4, 8, 16, 32, 64}[i%7]
		src := []string{"fresh", "pool"}[i%2]
		c.eval(fmt.Sprint(seed, ":", g, ":", src))
		c.dist[fmt.Sprint("goroutines_", g)]++
		c.dist["source:"+src]++
		c12Run(c, seed, g, 30, src)
		if i < 3 {
			c.sample(map[string]interface{}{"cseed": seed, "goroutines": g, "source": src})
		}
	}
}
