// C15: a failing destination writer always surfaces as an encode error.
package main

import (
	"errors"
	"fmt"
	"reflect"
	"strings"

	hessian "github.com/vogo/gohessian"
)

func init() { props["C15"] = runC15 }

// fault plans for the k-th Write call (0-based)
type faultWriter struct {
	k     int
	kind  string // "once" | "fromk" | "short" | "shortnil"
	calls int
	buf   []byte
}

var errInjected = errors.New("injected write failure")

func (w *faultWriter) Write(p []byte) (int, error) {
	i := w.calls
	w.calls++
	hit := i == w.k || (w.kind == "fromk" && i > w.k)
	if !hit {
		w.buf = append(w.buf, p...)
		return len(p), nil
	}
	switch w.kind {
	case "short": // a short count with the error the io.Writer contract requires
		n := len(p) / 2
		w.buf = append(w.buf, p[:n]...)
		return n, errors.New("short write")
	case "shortnil": // a short count and no error (a misbehaving writer); only when something was actually lost
		if len(p) == 0 {
			return 0, nil
		}
		n := len(p) - 1
		w.buf = append(w.buf, p[:n]...)
		return n, nil
	}
	return 0, errInjected
}

type countWriter struct {
	calls int
	n     int
	sizes []string
	all   []byte
}

func (w *countWriter) Write(p []byte) (int, error) {
	w.calls++
	w.n += len(p)
	w.sizes = append(w.sizes, fmt.Sprint(len(p)))
	w.all = append(w.all, p...)
	return len(p), nil
}

func c15Value(c *ctx, val interface{}, label string, seed uint64, budget int) {
	_, nm := hessian.ExtractTypeNameMap(val)
	cw := &countWriter{}
	enc := hessian.NewEncoder(cw, nm)
	if o, _ := guard(func() error { return enc.WriteObject(val) }); o != oOK {
		return // not encodable at all: nothing to fault
	}
	writes := cw.calls
	c.dist["writes_total"] += writes
	// the model's Write calls: same number and sizes
	if h, err := hparseAll(cw.all); err == nil {
		if ord, ok := recoverMapOrder(h, val, nm); ok {
			c.corr("encw "+nameMapStr(nm)+" "+gvalString(val, ord), "ok "+strings.Join(cw.sizes, ","))
		}
	}
	kinds := []string{"once", "fromk", "short", "shortnil"}
	for k := 0; k < writes; k++ {
		for _, kind := range kinds {
			for _, entry := range []string{"WriteObject", "WriteTo", "Serializer.WriteTo", "Serializer.WriteTo+Write"} {
				if entry != "WriteObject" && entry != "Serializer.WriteTo+Write" && (k+len(kind))%5 != 0 { // the one-shot entries share the code path: sample them
					continue
				}
				fw := &faultWriter{k: k, kind: kind}
				in := map[string]interface{}{"op": "fault", "type": label, "gseed": seed, "budget": budget, "k": k, "kind": kind, "entry": entry, "writes": writes}
				var o outcome
				var msg string
				switch entry {
				case "WriteObject":
					e := hessian.NewEncoder(fw, nm)
					o, msg = guard(func() error { return e.WriteObject(val) })
				case "WriteTo":
					e := hessian.NewEncoder(nil, nm)
					o, msg = guard(func() error { return e.WriteTo(fw, val) })
				case "Serializer.WriteTo":
					s := hessian.NewSerializer(map[string]reflect.Type{}, nm)
					o, msg = guard(func() error { return s.WriteTo(fw, val) })
				default: // a first value goes through, the fault hits the continuation call
					s := hessian.NewSerializer(map[string]reflect.Type{}, nm)
					fw.k = k + 1 // the first value (an int) takes exactly one write
					o, msg = guard(func() error {
						if e := s.WriteTo(fw, int32(7)); e != nil {
							return nil // not the call under test
						}
						return s.Write(val)
					})
					if fw.calls <= k+1 {
						continue
					}
				}
				c.eval(fmt.Sprint(label, "#", seed, "/", k, "/", kind, "/", entry))
				c.dist["kind:"+kind]++
				if fw.calls <= k {
					continue // the fault position was never reached (cannot happen for a deterministic encoder)
				}
				switch o {
				case oOK:
					c.fail("encode reports success although the writer failed", in, fmt.Sprintf("write #%d of %d failed (%s), %d of %d bytes reached the writer", k, writes, kind, len(fw.buf), cw.n), "")
				case oPanic:
					c.fail("encode panics when the writer fails", in, msg, "")
				}
			}
		}
	}
	c.sample(map[string]interface{}{"type": label, "gseed": seed, "writes": writes})
}

func runC15(c *ctx) {
	if rp, ok := c.extra["replay"].(string); ok {
		in := loadReplay(rp)
		for _, t := range zooTypes {
			if t.String() == in["type"].(string) {
				s := uint64(in["gseed"].(float64))
				b := int(in["budget"].(float64))
				c15Value(c, genValue(t, s, b, 40), t.String(), s, b)
				var keep []failure
				for _, f := range c.failures {
					m := f.Input.(map[string]interface{})
					if m["k"] == int(in["k"].(float64)) && m["kind"] == in["kind"] && m["entry"] == in["entry"] {
						keep = append(keep, f)
					}
				}
				c.failures = keep
			}
		}
		return
	}
	c.rule = "values of every zoo type from the C01 generator; for each value EVERY index k of the k-th Write call made while encoding it (counted with a counting writer, enumerated exhaustively) x fault kinds {error once, error from k on, short count with error, short count without error} x entry points {Encoder.WriteObject (all), Encoder.WriteTo and Serializer.WriteTo (sampled)}. Distinct by (type, seed, k, kind, entry); every case is non-trivial."
	n := 6
	if c.tier == "thorough" {
		n = 120
	}
	for ti, t := range zooTypes {
		for i := 0; i < n; i++ {
			seed := c.seed*1000003 + uint64(i)*131 + uint64(ti)
			budget := 6 + (i%5)*12
			c15Value(c, genValue(t, seed, budget, 40), t.String(), seed, budget)
		}
	}
	// values whose whole encoding is a single tag write
	for i, v := range []interface{}{nil, (*int32)(nil), (**string)(nil), (*Inner)(nil), []interface{}{}, map[string]string{}, map[string]string(nil), true, ""} {
		c15Value(c, v, fmt.Sprintf("special#%d:%T", i, v), uint64(i), 0)
	}
}
