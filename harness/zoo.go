// The type zoo: declared Go types covering every field kind and every container combination
// the API accepts, plus a reflect-driven random value generator and a canonicaliser.
package main

import (
	"fmt"
	"math"
	"reflect"
	"sort"
	"strings"
	"time"
)

type Scalars struct {
	B   bool
	I   int
	I8  int8
	I16 int16
	I32 int32
	I64 int64
	U   uint
	U8  uint8
	U16 uint16
	U32 uint32
	U64 uint64
	F32 float32
	F64 float64
	S   string
	T   time.Time
	Bin []byte
}
type Inner struct {
	A int32
	S string
}
type Embedded struct {
	Inner
	X int64
}
type Outer struct {
	Name string
	In   Inner
	P    *Inner
	Q    *Inner
	N    int32
}
type Lists struct {
	I32s  []int32
	I64s  []int64
	Ints  []int
	F64s  []float64
	Strs  []string
	Bools []bool
	Ts    []time.Time
	Ps    []*Inner
	Vs    []Leaf
	Any   []interface{}
}

// a named map type: written as a typed map 'M' type ...
// maps with dynamic keys (the nil key included) and dynamic values, followed by a field that
// shows whether the reader stopped where the map ends
type AnyMaps struct {
	M     map[interface{}]interface{}
	After int32
	L     []interface{}
}

// field names at both ends of the alphabet (the first letter is lower-cased on the wire and
// capitalised again by the reader)
type SID string
type Edges struct {
	Zed   int32
	Apple string
	Zz    bool
	Az    int64
	Ñu    int32   // a first letter outside ASCII: lower-cased on the wire? no - left as it is, whole
	Sid   SID     // a named string type
	İl    int32   // a first letter whose simple case mapping does not come back (İ -> i -> I)
	Kel   float64 // the Kelvin sign: an upper-case letter whose lower case is the ASCII k
	Mid   *Edges
}

// lists of lists: the inner types of an empty outer list are known from its static type only
type Grid struct {
	Draft [][]Leaf
	Final [][]Leaf
	Names [][]string
	Nums  [][]int32
}

// maps of unnamed types nested in maps and lists (they travel untyped and are converted to the
// declared type entry by entry)
type Nested struct {
	MM  map[string]map[string]int32
	SM  []map[string]int32
	MSM map[int32]map[string][]string
	LL  [][]map[string]*Inner
}

// named slice types as fields, list elements and map values (they keep their own wire name)
type Tags []string
type Blob []byte
type NamedLists struct {
	T  Tags
	LT []Tags
	MT map[string]Tags
	B  Blob
	LB []Blob
}

// a named map type that contains itself, as a struct field (values arrive as untyped maps and are
// converted level by level); not a zoo type: the models have no finite type expression for it, it
// is used by the hostile-input check only
type Forest struct {
	T SelfMap
	N int32
}

type StrMap map[string]string

// a named map (typed on the wire: its type string takes a slot of the type table, like a list type
// string does) in front of list types that occur more than once in the message
type Shelf struct {
	Labels StrMap
	First  []int32
	Second []int32
	Names  []string
	More   []string
	Tail   StrMap
	Last   []int32
}
type NamedMaps struct {
	A StrMap
	B StrMap
	C map[string]StrMap
}

// a struct type used only by value (so that []Leaf and []*Inner do not share a wire name)
type Leaf struct {
	N int32
	T string
}

// []*Inner and []Inner in one message: both have the wire name "[main.Inner" (known finding)
type Collide struct {
	Ps []*Inner
	Vs []Inner
}
type Maps struct {
	SS map[string]string
	SI map[string]int32
	IS map[int32]string
	SL map[string]int64
	SP map[string]*Inner
	SF map[string]float64
	SB map[string]bool
}
type Deep struct {
	L  *Lists
	M  *Maps
	O  *Outer
	Sc *Scalars
	E  Embedded
}
type Node struct {
	Id   int32
	Next *Node
	Kids []*Node
	Tab  map[string]*Node
}
type Tree struct {
	Val   string
	Left  *Tree
	Right *Tree
}
type Named struct {
	Title string
	Num   int32
}

func (Named) HessianCodecName() string { return "com.example.Named" }

type Holder struct {
	A *Named
	B []*Named
	C Named
}
type Mutual1 struct {
	V int32
	M *Mutual2
}
type Mutual2 struct {
	W string
	M *Mutual1
}

// many small classes so that class-table positions beyond 16 are reachable in one message
type K00 struct{ V int32 }
type K01 struct{ V int32 }
type K02 struct{ V int32 }
type K03 struct{ V int32 }
type K04 struct{ V int32 }
type K05 struct{ V int32 }
type K06 struct{ V int32 }
type K07 struct{ V int32 }
type K08 struct{ V int32 }
type K09 struct{ V int32 }
type K10 struct{ V int32 }
type K11 struct{ V int32 }
type K12 struct{ V int32 }
type K13 struct{ V int32 }
type K14 struct{ V int32 }
type K15 struct{ V int32 }
type K16 struct{ V int32 }
type K17 struct{ V int32 }
type K18 struct{ V int32 }
type K19 struct{ V int32 }
type K20 struct{ V int32 }
type Many struct {
	A00 *K00
	A01 *K01
	A02 *K02
	A03 *K03
	A04 *K04
	A05 *K05
	A06 *K06
	A07 *K07
	A08 *K08
	A09 *K09
	A10 *K10
	A11 *K11
	A12 *K12
	A13 *K13
	A14 *K14
	A15 *K15
	A16 *K16
	A17 *K17
	A18 *K18
	A19 *K19
	A20 *K20
	B02 *K02
	B16 *K16
	B20 *K20
	L   []*K17
}

var zooTypes = []reflect.Type{
	reflect.TypeOf(Scalars{}), reflect.TypeOf(Inner{}), reflect.TypeOf(Embedded{}), reflect.TypeOf(Outer{}),
	reflect.TypeOf(Lists{}), reflect.TypeOf(Maps{}), reflect.TypeOf(Deep{}), reflect.TypeOf(Tree{}),
	reflect.TypeOf(Named{}), reflect.TypeOf(Holder{}), reflect.TypeOf(Mutual1{}), reflect.TypeOf(Many{}),
	reflect.TypeOf(Collide{}), reflect.TypeOf(Node{}), reflect.TypeOf(NamedMaps{}), reflect.TypeOf(StrMap{}),
	reflect.TypeOf([]int32{}), reflect.TypeOf([]string{}), reflect.TypeOf([]*Inner{}), reflect.TypeOf([]Leaf{}),
	reflect.TypeOf([]interface{}{}), reflect.TypeOf([]float64{}), reflect.TypeOf([]int64{}), reflect.TypeOf([]time.Time{}),
	reflect.TypeOf(map[string]string{}), reflect.TypeOf(map[string]int32{}), reflect.TypeOf(map[int32]string{}),
	reflect.TypeOf(map[string]*Inner{}), reflect.TypeOf(AnyMaps{}), reflect.TypeOf(map[interface{}]interface{}{}), reflect.TypeOf(Edges{}), reflect.TypeOf(Grid{}), reflect.TypeOf(Nested{}), reflect.TypeOf(NamedLists{}), reflect.TypeOf(Tags{}), reflect.TypeOf(Shelf{}),
}

var timeType = reflect.TypeOf(time.Time{})

// ---- generator
type gen struct {
	lastInner *Inner
	r         *rng
	budget    int // remaining nodes
	maxLen    int
}

func (g *gen) scalarInt64() int64 {
	switch g.r.intn(5) {
	case 0:
		b := []int64{0, -16, 47, -2048, 2047, -262144, 262143, -8, 15, math.MinInt32, math.MaxInt32, 127, 128, 255, 256, 32767, 65535}
		return b[g.r.intn(len(b))] + int64(g.r.intn(5)-2)
	case 1:
		return int64(g.r.intn(100))
	default:
		return g.r.logInt64()
	}
}
func (g *gen) str() string {
	switch g.r.intn(6) {
	case 0:
		return ""
	case 1:
		return mkString("mixed", g.r.intn(40), -1, g.r)
	case 2:
		return mkString("3byte", g.r.intn(8), -1, g.r)
	default:
		return mkString("ascii", g.r.intn(12), -1, g.r)
	}
}
func (g *gen) length() int {
	switch g.r.intn(8) {
	case 0:
		return 0
	case 1:
		return 1
	case 2:
		b := []int{7, 8, 9, 15, 16, 17, 255, 256, 257, 260}
		n := b[g.r.intn(len(b))]
		if n > g.maxLen {
			n = g.maxLen
		}
		return n
	default:
		return g.r.intn(6)
	}
}

func (g *gen) value(t reflect.Type, depth int) reflect.Value {
	g.budget--
	v := reflect.New(t).Elem()
	switch t.Kind() {
	case reflect.Bool:
		v.SetBool(g.r.bool())
	case reflect.Int, reflect.Int8, reflect.Int16, reflect.Int32, reflect.Int64:
		x := g.scalarInt64()
		bits := t.Bits()
		if t.Kind() == reflect.Int {
			bits = 32 // an int beyond 32 bits is an encode error by design
		}
		if bits < 64 {
			x = x << (64 - uint(bits)) >> (64 - uint(bits))
		}
		v.SetInt(x)
	case reflect.Uint, reflect.Uint8, reflect.Uint16, reflect.Uint32, reflect.Uint64:
		x := uint64(g.scalarInt64())
		if g.r.intn(3) > 0 {
			x &= math.MaxInt64 // mostly representable as a signed long
		}
		bits := t.Bits()
		if bits < 64 {
			x &= 1<<uint(bits) - 1
		}
		v.SetUint(x)
	case reflect.Float32:
		v.SetFloat(float64(math.Float32frombits(uint32(g.r.u64()))))
		if g.r.bool() {
			v.SetFloat(float64(float32(g.r.intn(2000)-1000) / 8))
		}
		if v.Float() != v.Float() {
			v.SetFloat(1.5)
		}
	case reflect.Float64:
		switch g.r.intn(4) {
		case 0:
			v.SetFloat(float64(g.r.intn(100000) - 50000))
		case 1:
			v.SetFloat(float64(g.r.intn(100000)-50000) / 16)
		default:
			f := math.Float64frombits(g.r.u64())
			if f != f {
				f = 0.1
			}
			v.SetFloat(f)
		}
	case reflect.String:
		v.SetString(g.str())
	case reflect.Struct:
		if t == timeType {
			switch g.r.intn(5) {
			case 0: // zero time
			case 1:
				v.Set(reflect.ValueOf(time.Unix(int64(int32(g.r.u64())), 0)))
			default:
				sec := minSec + int64(g.r.u64()%uint64(maxSec-minSec))
				v.Set(reflect.ValueOf(time.Unix(sec, int64(g.r.intn(1000))*1000000)))
			}
			return v
		}
		for i := 0; i < t.NumField(); i++ {
			v.Field(i).Set(g.value(t.Field(i).Type, depth+1))
		}
	case reflect.Ptr:
		if g.budget <= 0 || depth > 6 || g.r.intn(5) == 0 {
			return v // nil
		}
		p := reflect.New(t.Elem())
		p.Elem().Set(g.value(t.Elem(), depth+1))
		v.Set(p)
	case reflect.Slice:
		if t.Elem().Kind() == reflect.Uint8 {
			n := g.r.intn(40)
			if g.r.intn(6) == 0 {
				return v
			}
			b := make([]byte, n)
			for i := range b {
				b[i] = byte(g.r.u64())
			}
			v.SetBytes(b)
			return v
		}
		if g.r.intn(7) == 0 {
			return v // nil slice
		}
		n := g.length()
		if g.budget <= 0 || depth > 6 {
			n = 0
		}
		s := reflect.MakeSlice(t, n, n)
		for i := 0; i < n; i++ {
			s.Index(i).Set(g.value(t.Elem(), depth+1))
		}
		v.Set(s)
	case reflect.Map:
		if g.r.intn(7) == 0 {
			return v
		}
		n := g.r.intn(5)
		if g.budget <= 0 || depth > 6 {
			n = 0
		}
		m := reflect.MakeMap(t)
		for i := 0; i < n; i++ {
			k := g.value(t.Key(), depth+1)
			if t.Key().Kind() == reflect.Interface {
				// a hashable dynamic key: the nil key, numbers, strings, booleans
				k = reflect.New(t.Key()).Elem()
				switch g.r.intn(6) {
				case 0:
					// nil
				case 1:
					k.Set(reflect.ValueOf(int32(g.r.intn(40))))
				case 2:
					k.Set(reflect.ValueOf(g.scalarInt64()))
				case 3:
					k.Set(reflect.ValueOf(g.r.bool()))
				default:
					k.Set(reflect.ValueOf(g.str()))
				}
			}
			m.SetMapIndex(k, g.value(t.Elem(), depth+1))
		}
		v.Set(m)
	case reflect.Interface:
		// an element of []interface{}: a scalar, a string, a pointer to a small struct (possibly one
		// already used: a back-reference inside an untyped list), or a nested untyped list
		switch g.r.intn(10) {
		case 7:
			if g.lastInner != nil {
				v.Set(reflect.ValueOf(g.lastInner))
				return v
			}
			v.Set(reflect.ValueOf(int32(7)))
		case 8:
			v.Set(reflect.ValueOf([]interface{}{int32(g.r.intn(50)), g.str()}))
		case 9:
			v.Set(reflect.ValueOf([]int32{1, 2, int32(g.r.intn(9))}))
		case 0:
			// nil
		case 1:
			v.Set(reflect.ValueOf(int32(g.scalarInt64())))
		case 2:
			v.Set(reflect.ValueOf(g.scalarInt64()))
		case 3:
			v.Set(reflect.ValueOf(g.str()))
		case 4:
			v.Set(reflect.ValueOf(g.r.bool()))
		case 5:
			v.Set(reflect.ValueOf(float64(g.r.intn(1000)) / 4))
		default:
			g.lastInner = &Inner{int32(g.r.intn(100)), g.str()}
			v.Set(reflect.ValueOf(g.lastInner))
		}
	}
	return v
}

// ---- canonical form with the documented normalisations:
// nil == empty container, absent string == "", -0 == +0, time as instant at millisecond
// resolution, NaN == NaN.  Pointer identity is not part of this form (see C04 for identity).
// Dynamic types are part of it (T of structs, slices, maps), except that a top-level scalar
// is compared in its canonical wire type.
func canon(v reflect.Value, seen map[uintptr]bool) string {
	if !v.IsValid() {
		return "nil"
	}
	switch v.Kind() {
	case reflect.Interface:
		if v.IsNil() {
			return "nil"
		}
		return canon(v.Elem(), seen)
	case reflect.Ptr:
		if v.IsNil() {
			return "nil"
		}
		if seen[v.Pointer()] {
			return "(cycle " + v.Type().String() + ")"
		}
		seen[v.Pointer()] = true
		defer delete(seen, v.Pointer())
		return "(ptr " + canon(v.Elem(), seen) + ")"
	case reflect.Bool:
		return fmt.Sprint(v.Bool())
	case reflect.Int, reflect.Int8, reflect.Int16, reflect.Int32, reflect.Int64:
		return fmt.Sprintf("(%s %d)", v.Type().String(), v.Int())
	case reflect.Uint, reflect.Uint8, reflect.Uint16, reflect.Uint32, reflect.Uint64:
		return fmt.Sprintf("(%s %d)", v.Type().String(), v.Uint())
	case reflect.Float32, reflect.Float64:
		f := v.Float()
		if f != f {
			return "(" + v.Type().String() + " nan)"
		}
		if f == 0 {
			f = 0
		}
		return fmt.Sprintf("(%s %x)", v.Type().String(), math.Float64bits(f))
	case reflect.String:
		return fmt.Sprintf("%q", v.String())
	case reflect.Struct:
		if v.Type() == timeType {
			t := v.Interface().(time.Time)
			if t.IsZero() {
				return "(time zero)"
			}
			return fmt.Sprintf("(time %d)", t.Unix()*1000+int64(t.Nanosecond())/1000000)
		}
		var b strings.Builder
		b.WriteString("(struct " + v.Type().String())
		for i := 0; i < v.NumField(); i++ {
			b.WriteString(" " + v.Type().Field(i).Name + "=" + canon(v.Field(i), seen))
		}
		b.WriteString(")")
		return b.String()
	case reflect.Slice, reflect.Array:
		if v.Type().Elem().Kind() == reflect.Uint8 {
			return fmt.Sprintf("(bytes %x)", v.Bytes())
		}
		if v.Len() == 0 {
			return "(empty " + v.Type().String() + ")"
		}
		var b strings.Builder
		b.WriteString("(slice " + v.Type().String())
		for i := 0; i < v.Len(); i++ {
			b.WriteString(" " + canon(v.Index(i), seen))
		}
		b.WriteString(")")
		return b.String()
	case reflect.Map:
		if v.Len() == 0 {
			return "(empty " + v.Type().String() + ")"
		}
		var es []string
		for _, k := range v.MapKeys() {
			es = append(es, canon(k, seen)+"->"+canon(v.MapIndex(k), seen))
		}
		sort.Strings(es)
		return "(map " + v.Type().String() + " " + strings.Join(es, " ") + ")"
	}
	return "(unsupported " + v.Kind().String() + ")"
}

// canonical form of what a field of static type t holds when it is nil/empty: needed because a
// nil container and an empty one, an absent string and "", are identified
func canonTop(x interface{}) string {
	v := reflect.ValueOf(x)
	// a top-level struct passed by value comes back as a pointer to it
	if v.IsValid() && v.Kind() == reflect.Struct && v.Type() != timeType {
		p := reflect.New(v.Type())
		p.Elem().Set(v)
		v = p
	}
	s := canon(v, map[uintptr]bool{})
	return s
}

// nil containers: canon() prints (empty T) only when it knows T; a nil field of slice/map type has
// a static type, so this holds for fields. At top level nil stays nil.
