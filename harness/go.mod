module hx

go 1.23.5

require github.com/vogo/gohessian v0.0.0

require github.com/vogo/logger v1.0.0 // indirect

replace github.com/vogo/gohessian => /repo
