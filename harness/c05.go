// C05: objects bind fields by name; every instance uses the class definition it names.
package main

import (
	"fmt"
	"math"
	"reflect"

	hessian "github.com/vogo/gohessian"
)

func init() { props["C05"] = runC05 }

type Bind struct {
	A  int32
	B  string
	C  *Inner
	D  []int32
	E  float64
	F  int64
	G  bool
	Hh int32
}
type Dummy struct{ V int32 }

func hInt32(v int32) *hval { return &hval{k: hInt, z: int64(v)} }
func hStr(s string) *hval  { return &hval{k: hString, s: s} }
func hObj(cls string, names []string, vals []*hval) *hval {
	return &hval{k: hObject, ty: cls, fnames: names, items: vals}
}

// a wire value of arbitrary kind for a field the Go struct does not have
func unknownValue(r *rng, depth int) *hval {
	switch r.intn(11) {
	case 0:
		return &hval{k: hNull}
	case 1:
		return hInt32(int32(r.logInt64()))
	case 2:
		return &hval{k: hLong, z: r.logInt64()}
	case 3:
		return &hval{k: hDouble, bits: math.Float64bits(float64(r.intn(1000)) / 8)}
	case 4:
		return hStr(mkString("mixed", r.intn(20), -1, r))
	case 5:
		return &hval{k: hBool, b: r.bool()}
	case 6:
		return &hval{k: hBinary, bin: []byte{1, 2, 3}}
	case 7:
		return &hval{k: hDate, z: int64(r.intn(1<<30)) * 1000}
	case 8:
		if depth < 2 {
			return hObj("Inner", []string{"a", "s"}, []*hval{hInt32(int32(r.intn(50))), hStr("in")})
		}
		return hInt32(1)
	case 9:
		if depth < 2 {
			n := r.intn(4)
			l := &hval{k: hList}
			for i := 0; i < n; i++ {
				l.items = append(l.items, unknownValue(r, depth+1))
			}
			return l
		}
		return hStr("x")
	default:
		if depth < 2 {
			m := &hval{k: hMap}
			for i := 0; i < r.intn(3); i++ {
				m.items = append(m.items, hStr(fmt.Sprint("k", i)), unknownValue(r, depth+1))
			}
			return m
		}
		return &hval{k: hNull}
	}
}

type bindCase struct {
	wire  *hval // the target object
	want  Bind
	descr string
}

// the wire value and the Go value of each of Bind's seven fields
func bindFieldValues(r *rng) (vals map[string]*hval, want Bind) {
	want = Bind{A: int32(r.logInt64()), B: mkString("mixed", 1+r.intn(10), -1, r), C: &Inner{int32(r.intn(100)), "c"},
		D: []int32{1, int32(r.intn(1000)), -3}, E: float64(r.intn(10000))/16 + 0.5, F: r.logInt64(), G: r.bool(), Hh: int32(r.intn(1000)) + 1}
	vals = map[string]*hval{
		"a": hInt32(want.A), "b": hStr(want.B),
		"c": hObj("Inner", []string{"a", "s"}, []*hval{hInt32(want.C.A), hStr(want.C.S)}),
		"d": {k: hList, typed: true, ty: "[int32", items: []*hval{hInt32(want.D[0]), hInt32(want.D[1]), hInt32(want.D[2])}},
		"e": {k: hDouble, bits: math.Float64bits(want.E)}, "f": {k: hLong, z: want.F}, "g": {k: hBool, b: want.G},
		"hh": hInt32(want.Hh),
	}
	return
}

func permutations(xs []string) [][]string {
	if len(xs) <= 1 {
		return [][]string{append([]string{}, xs...)}
	}
	var out [][]string
	for i := range xs {
		rest := append(append([]string{}, xs[:i]...), xs[i+1:]...)
		for _, p := range permutations(rest) {
			out = append(out, append([]string{xs[i]}, p...))
		}
	}
	return out
}

var c05Shared *hessian.Decoder

func c05Run(c *ctx, order []string, extras int, pos int, capital bool, seed uint64, label string) {
	r := newRng(seed, "bind")
	vals, full := bindFieldValues(r)
	in := map[string]interface{}{"op": "bind", "order": order, "extras": extras, "pos": pos, "capital": capital, "bseed": seed, "label": label}
	// definition: the chosen order, with unknown fields inserted at random places
	var names []string
	var wvals []*hval
	for _, f := range order {
		names = append(names, f)
		wvals = append(wvals, vals[f])
	}
	for i := 0; i < extras; i++ {
		at := r.intn(len(names) + 1)
		un := fmt.Sprint("zz", i)
		if i == 0 && seed%3 == 1 {
			un = "hH" // differs from the Go field Hh only in the case of a letter after the first: still unknown
		}
		names = append(names[:at], append([]string{un}, names[at:]...)...)
		wvals = append(wvals[:at], append([]*hval{unknownValue(r, 0)}, wvals[at:]...)...)
	}
	if capital {
		for i, n := range names {
			if len(n) == 1 && i%2 == 0 {
				names[i] = string(n[0] - 32) // "A" instead of "a": first letter case-insensitive
			}
		}
	}
	want := Bind{}
	for _, f := range order {
		switch f {
		case "a":
			want.A = full.A
		case "b":
			want.B = full.B
		case "c":
			want.C = full.C
		case "d":
			want.D = full.D
		case "e":
			want.E = full.E
		case "f":
			want.F = full.F
		case "g":
			want.G = full.G
		case "hh":
			want.Hh = full.Hh
		}
	}
	target := hObj("Bind", names, wvals)
	// pos other classes first, each with one instance, so that the target's definition is #pos
	msg := &hval{k: hList}
	tm := map[string]reflect.Type{"Bind": reflect.TypeOf(Bind{}), "Inner": reflect.TypeOf(Inner{}), "[int32": reflect.TypeOf([]int32{})}
	for i := 0; i < pos; i++ {
		cn := fmt.Sprint("Dummy", i)
		tm[cn] = reflect.TypeOf(Dummy{})
		msg.items = append(msg.items, hObj(cn, []string{"v"}, []*hval{hInt32(int32(i))}))
	}
	// "Inner" may be defined by the target's c field or by an unknown field; keep the target's own
	// definition index deterministic by defining Inner up front when the message has dummies
	msg.items = append(msg.items, target)
	// a second instance of the same definition, to check that instances pick the definition by index
	second := hObj("Bind", names, wvals)
	if seed%2 == 0 && len(names) >= 2 {
		// ... or of ANOTHER definition of the same class: the same fields listed in another order, so
		// that one stream carries two definitions of one name and the same field count
		k := 1 + int(seed/2)%(len(names)-1)
		second = hObj("Bind", append(append([]string{}, names[k:]...), names[:k]...), append(append([]*hval{}, wvals[k:]...), wvals[:k]...))
	}
	msg.items = append(msg.items, second)
	// and an instance of the first definition again, after the other definition was used
	msg.items = append(msg.items, hObj("Bind", names, wvals))
	var pre []hclass
	if seed%3 == 0 { // a definition of a class the type map does not know, ahead of everything (never instantiated)
		pre = []hclass{{"com.unknown.Ghost", []string{"x", "y"}}}
	}
	bs, nch, varied, err := renderCheckedPre(msg, newRng(seed, "render"), pre)
	if err != nil {
		c.fail("harness: renderer failed", in, err.Error(), "harness")
		return
	}
	c.dist["choices"] += nch
	c.dist["varied"] += varied
	if len(bs) < 30000 {
		c.corr("parse "+hx(bs), "ok "+msg.String())
	}
	decCorr(c, tm, bs)
	var dec interface{}
	o, m := guard(func() error {
		var e error
		if c05Shared != nil && seed%2 == 1 { // through ONE decoder reused for every message of the run
			for k, v := range tm {
				c05Shared.RegisterType(k, v)
			}
			dec, e = c05Shared.Decode(bs)
		} else {
			dec, e = hessian.ToObject(bs, tm)
		}
		return e
	})
	if o != oOK {
		c.fail("a legal message with a permuted/extended class definition is rejected", in, o.String()+": "+m+" bytes="+hx(trunc(bs, 160)), "")
		return
	}
	l, ok := dec.([]interface{})
	if !ok || len(l) != pos+3 {
		c.fail("decoded message has the wrong shape", in, fmt.Sprintf("%T len", dec), "")
		return
	}
	for i := 0; i < pos; i++ {
		d, ok := l[i].(*Dummy)
		if !ok || d.V != int32(i) {
			c.fail("an instance was not built from the definition its index denotes", in, fmt.Sprintf("instance %d decoded as %v", i, l[i]), "")
			return
		}
	}
	for k := 0; k < 3; k++ {
		got, ok := l[pos+k].(*Bind)
		if !ok {
			c.fail("the target instance decoded as the wrong type", in, fmt.Sprintf("%T", l[pos+k]), "")
			return
		}
		if canonTop(got) != canonTop(&want) {
			c.fail("fields were not bound by name (or skipping an unknown field disturbed the fields after it)", in, diffStr(canonTop(&want), canonTop(got)), "")
			return
		}
	}
}

func runC05(c *ctx) {
	if rp, ok := c.extra["replay"].(string); ok {
		in := loadReplay(rp)
		var order []string
		for _, x := range in["order"].([]interface{}) {
			order = append(order, x.(string))
		}
		c05Run(c, order, int(in["extras"].(float64)), int(in["pos"].(float64)), in["capital"].(bool), uint64(in["bseed"].(float64)), "replay")
		return
	}
	c.rule = "class definitions derived from a 7-field Go struct (int32, string, *struct, []int32, float64, int64, bool) by: ALL 120 permutations of every 5-field subset sample, random permutations of 6-7 fields, dropping fields, adding 0..3 unknown fields (each carrying a value of any kind incl. nested objects, lists, maps), upper/lower-case first letters; at every position 0..40 of the class in the stream's definition table (preceded by that many other classes with instances); two instances per definition; rendered by the certified reference encoder with random form choices; oracle: by-name expectation per field. Distinct by (order, extras, position, case, seed); all non-trivial."
	fields := []string{"a", "b", "c", "d", "e", "f", "g", "hh"}
	c05Shared = hessian.NewDecoder(nil, map[string]reflect.Type{})
	cnt := 0
	run := func(order []string, extras, pos int, capital bool, label string) {
		seed := c.seed*4099 + uint64(cnt)
		cnt++
		c.eval(fmt.Sprint(order, extras, pos, capital, seed))
		c.dist["pos:"+fmt.Sprintf("%02d", (pos/10)*10)]++
		c.dist["extras:"+fmt.Sprint(extras)]++
		c05Run(c, order, extras, pos, capital, seed, label)
		if cnt%500 == 1 {
			c.sample(map[string]interface{}{"order": order, "extras": extras, "pos": pos, "capital": capital})
		}
	}
	// all permutations of a 5-field subset (120), at a few positions, with and without unknown fields
	perms := permutations([]string{"a", "b", "c", "d", "f"})
	stride := 1
	if c.tier != "thorough" {
		stride = 3
	}
	for i := 0; i < len(perms); i += stride {
		run(perms[i], i%3, []int{0, 1, 2, 15, 16, 17, 40}[i%7], i%5 == 0, "perm5")
	}
	// every position 0..40
	r := newRng(c.seed, "C05")
	for pos := 0; pos <= 40; pos++ {
		for k := 0; k < 3; k++ {
			p := append([]string{}, fields...)
			for i := len(p) - 1; i > 0; i-- {
				j := r.intn(i + 1)
				p[i], p[j] = p[j], p[i]
			}
			p = p[:1+r.intn(len(p))] // drop a suffix of the permutation: missing fields keep their zero value
			run(p, r.intn(4), pos, r.bool(), "pos")
		}
	}
	c05UnregisteredProbe(c)
	// far beyond the one-octet instance tags and the one-octet index forms: definitions #255..#300
	for _, pos := range []int{255, 256, 257, 300} {
		run(append([]string{}, fields...), 1, pos, false, "far")
	}
	n := 300
	if c.tier == "thorough" {
		n = 20000
	}
	for i := 0; i < n; i++ {
		p := append([]string{}, fields...)
		for a := len(p) - 1; a > 0; a-- {
			b := r.intn(a + 1)
			p[a], p[b] = p[b], p[a]
		}
		p = p[:r.intn(len(p)+1)]
		run(p, r.intn(4), r.intn(41), r.bool(), "random")
	}
}

// an unknown wire field whose VALUE is of a type the receiver has not registered either (an object
// of an unknown class, a typed map or typed list with an unknown type name): it has no Go
// counterpart and must be skipped like any other unknown field (open finding C05-F1)
func c05UnregisteredProbe(c *ctx) {
	tm := map[string]reflect.Type{"Bind": reflect.TypeOf(Bind{}), "Inner": reflect.TypeOf(Inner{}), "[int32": reflect.TypeOf([]int32{})}
	unknowns := map[string]*hval{
		"object of an unknown class":    hObj("com.peer.Newer", []string{"x"}, []*hval{hInt32(1)}),
		"typed map of an unknown type":  {k: hMap, typed: true, ty: "java.util.TreeMap", items: []*hval{hStr("k"), hInt32(5)}},
		"typed list of an unknown type": {k: hList, typed: true, ty: "[com.peer.Newer", items: []*hval{hInt32(1)}},
	}
	for name, u := range unknowns {
		msg := hObj("Bind", []string{"a", "zz0", "hh"}, []*hval{hInt32(7), u, hInt32(9)})
		in := map[string]interface{}{"op": "unregistered-unknown-field", "value": name}
		c.eval("unregistered:" + name)
		bs, _, _, err := renderChecked(msg, zeroChooser{})
		if err != nil {
			c.fail("harness: renderer failed", in, err.Error(), "harness")
			continue
		}
		var dec interface{}
		o, m := guard(func() error { var e error; dec, e = hessian.ToObject(bs, tm); return e })
		got, ok := dec.(*Bind)
		if o != oOK || !ok || got.A != 7 || got.Hh != 9 {
			c.fail("an unknown field whose value has an unregistered type is not skipped", in, fmt.Sprint(o, " ", m), "C05-F1-unknown-field-of-unregistered-type-is-not-skipped")
		}
	}
}
