// C14: hostile or damaged input makes the decoder return, never crash or run away.
// Every decode of hostile bytes runs in a worker subprocess (address-space limit, per-case
// watchdog, recover, silent logger); the parent only generates inputs and judges results.
package main

import (
	"bufio"
	"bytes"
	"fmt"
	"io"
	"os"
	"os/exec"
	"reflect"
	"runtime"
	"strconv"
	"strings"
	"time"

	hessian "github.com/vogo/gohessian"
)

func init() { props["C14"] = runC14 }

// ---- type maps by name
func c14TypeMap(kind string) map[string]reflect.Type {
	tm := map[string]reflect.Type{}
	switch kind {
	case "known":
		for _, t := range zooTypes {
			if t == reflect.TypeOf(Collide{}) {
				continue // two Go types under one wire name: which one the extracted map holds depends on Go's map iteration order
			}
			if t.Kind() == reflect.Struct {
				m, _ := hessian.ExtractTypeNameMap(reflect.New(t).Interface())
				for k, v := range m {
					tm[k] = v
				}
			}
		}
	case "forest": // a struct with a field of a map type that contains itself (direct oracle only)
		tm["Forest"] = reflect.TypeOf(Forest{})
	case "niltype": // a caller mistake: reflect.TypeOf(nil) registered under a class name
		tm["Inner"] = reflect.TypeOf(Inner{})
		tm["Nil"] = reflect.TypeOf(nil)
	case "empty":
	case "wrong": // names bound to types of the wrong shape
		known := c14TypeMap("known")
		i := 0
		for k := range known {
			switch i % 4 {
			case 0:
				tm[k] = reflect.TypeOf(int32(0))
			case 1:
				tm[k] = reflect.TypeOf([]string{})
			case 2:
				tm[k] = reflect.TypeOf(Inner{})
			case 3:
				tm[k] = reflect.TypeOf(map[string]int32{})
			}
			i++
		}
		// deterministic: sort-independent choice by name length instead of map order
		tm = map[string]reflect.Type{}
		for k := range known {
			switch len(k) % 4 {
			case 0:
				tm[k] = reflect.TypeOf(int32(0))
			case 1:
				tm[k] = reflect.TypeOf([]string{})
			case 2:
				tm[k] = reflect.TypeOf(Inner{})
			case 3:
				tm[k] = reflect.TypeOf(map[string]int32{})
			}
		}
	}
	return tm
}

var lastDecoded interface{}

// ---- worker: one case per line "entry tmkind hex" -> "outcome consumed alloc_bytes micros"
func workerMain() {
	hessian.SetLogger(silent{})
	tms := map[string]map[string]reflect.Type{"known": c14TypeMap("known"), "empty": c14TypeMap("empty"), "wrong": c14TypeMap("wrong"), "forest": c14TypeMap("forest"), "niltype": c14TypeMap("niltype")}
	in := bufio.NewReaderSize(os.Stdin, 1<<20)
	out := bufio.NewWriter(os.Stdout)
	for {
		line, err := in.ReadString('\n')
		if err != nil {
			return
		}
		f := strings.Fields(line)
		if len(f) != 3 {
			fmt.Fprintln(out, "bad-case")
			out.Flush()
			continue
		}
		bs := unhx(f[2])
		tm := tms[f[1]]
		rd := &countingReader{b: bs}
		var ms0, ms1 runtime.MemStats
		runtime.ReadMemStats(&ms0)
		t0 := time.Now()
		o, _ := guard(func() error {
			var e error
			switch f[0] {
			case "ToObject":
				_, e = hessian.ToObject(bs, tm)
			case "Decode":
				_, e = hessian.NewDecoder(nil, tm).Decode(bs)
			case "ReadFrom":
				lastDecoded, e = hessian.NewDecoder(nil, tm).ReadFrom(rd)
			case "ReadObject": // streaming: read values until the first error (at most 64)
				d := hessian.NewDecoder(rd, tm)
				for i := 0; i < 64 && e == nil; i++ {
					_, e = d.ReadObject()
				}
			case "Ser.ToObject":
				_, e = hessian.NewSerializer(tm, nil).ToObject(bs)
			case "Ser.ReadFrom+Read":
				s := hessian.NewSerializer(tm, nil)
				_, e = s.ReadFrom(rd)
				for i := 0; i < 64 && e == nil; i++ {
					_, e = s.Read()
				}
			}
			return e
		})
		el := time.Since(t0)
		runtime.ReadMemStats(&ms1)
		canon := "-"
		if f[0] == "ReadFrom" && o == oOK && len(bs) <= 3000 && f[1] != "forest" && f[1] != "niltype" { // the rendering is for the decoder model only, which does not take these type maps (and a map reachable along 2^n paths has a rendering of that size)
			if o2, _ := guard(func() error { canon = dvalString(lastDecoded); return nil }); o2 != oOK {
				canon = "-"
			}
		}
		fmt.Fprintf(out, "%s %d %d %d %s\n", o, rd.pos, ms1.TotalAlloc-ms0.TotalAlloc, el.Microseconds(), strings.ReplaceAll(canon, " ", "\x01"))
		out.Flush()
	}
}

type worker struct {
	cmd *exec.Cmd
	in  io.WriteCloser
	out *bufio.Reader
}

func startWorker() *worker {
	self, _ := os.Executable()
	// 6 GiB of address space: far above what any legitimate decode of <= 64 KiB needs
	cmd := exec.Command("bash", "-c", "ulimit -v 6000000; exec "+self+" worker")
	cmd.Env = append(os.Environ(), "GOMAXPROCS=2", "GOGC=50")
	in, _ := cmd.StdinPipe()
	out, _ := cmd.StdoutPipe()
	cmd.Stderr = nil
	must(cmd.Start())
	return &worker{cmd, in, bufio.NewReaderSize(out, 1<<16)}
}
func (w *worker) stop() {
	w.in.Close()
	w.cmd.Process.Kill()
	w.cmd.Wait()
}

// run one case; "timeout" and "crash" are outcomes of the harness, not of the decoder
func (w *worker) run(entry, tm string, bs []byte, limit time.Duration) (res string, fields []string) {
	_, err := fmt.Fprintf(w.in, "%s %s %s\n", entry, tm, hx(bs))
	if err != nil {
		return "crash", nil
	}
	ch := make(chan string, 1)
	go func() {
		l, err := w.out.ReadString('\n')
		if err != nil {
			ch <- "crash"
			return
		}
		ch <- strings.TrimSpace(l)
	}()
	select {
	case l := <-ch:
		if l == "crash" {
			return "crash", nil
		}
		f := strings.Fields(l)
		if len(f) != 5 {
			return "crash", nil
		}
		return f[0], f
	case <-time.After(limit):
		return "timeout", nil
	}
}

var c14Entries = []string{"ToObject", "Decode", "ReadFrom", "ReadObject", "Ser.ToObject", "Ser.ReadFrom+Read"}

// classifier of known findings for C14
func c14Class(res string, bs []byte) string { return "" }

func c14Inputs(c *ctx, emit func(label string, bs []byte)) {
	r := newRng(c.seed, "C14")
	thorough := c.tier == "thorough"
	// 1. hostile seeds: every bounds/count/index site
	seeds := [][]byte{
		{0x51, 0x8f}, {0x51, 'I', 0x7f, 0xff, 0xff, 0xff}, {0x51, 'I', 0x80, 0, 0, 0}, {'O', 0x95}, {'O', 0x8f}, {'O', 'I', 0x7f, 0xff, 0xff, 0xff},
		{0x6f}, {0x60}, {0x58, 'I', 0x7f, 0xff, 0xff, 0xff}, {0x58, 'I', 0x80, 0, 0, 0}, {0x58, 0x8f}, {'V', 0x01, 'x', 'I', 0x7f, 0xff, 0xff, 0xff},
		{'V', 0x04, '[', 'i', 'n', 't', 'I', 0x7f, 0xff, 0xff, 0xff}, {'V', 0x06, '[', 'i', 'n', 't', '3', '2', 'I', 0x7f, 0xff, 0xff, 0xff},
		{'V', 0x06, '[', 'i', 'n', 't', '3', '2', 0x8f}, {0x72, 0x90}, {0x72, 0x8f}, {0x73, 'I', 0x7f, 0xff, 0xff, 0xff}, {'M', 0x90}, {'M', 0x8f},
		{'C', 0x01, 'A', 'I', 0x7f, 0xff, 0xff, 0xff}, {'C', 0x01, 'A', 0x8f}, {'C', 0x01, 'A', 0x8f, 0x60}, {'C', 0x05, 'I', 'n', 'n', 'e', 'r', 'I', 0x7f, 0xff, 0xff, 0xff},
		{'S', 0xff, 0xff}, {'R', 0xff, 0xff}, {'R', 0xff, 0xff, 'a', 'R', 0xff, 0xff}, {'B', 0xff, 0xff}, {'A', 0xff, 0xff}, {'A', 0xff, 0xff, 1, 'A', 0xff, 0xff},
		{0x33, 0xff}, {0x37, 0xff}, {'I'}, {'L', 1}, {'D', 1, 2}, {0x4a}, {0x4b, 1}, {'Z'}, {'H'}, {'H', 'Z'}, {'H', 0x91}, {'M'}, {'C'}, {'O'}, {0x55}, {0x57},
		{0x57, 0x57, 0x57, 0x57}, {'H', 'H', 'H'}, {'H', 0x57, 'Z', 0x90, 'Z'}, {0x78}, {0x7f, 0x90}, {0x5d}, {0x5e, 1}, {0x5f, 1, 2, 3},
		{'C', 0x05, 'I', 'n', 'n', 'e', 'r', 0x92, 0x01, 'a', 0x01, 's', 0x60, 0x51, 0x90, 0x51, 0x90},              // ref to the object under construction, in an int field
		{'C', 0x05, 'I', 'n', 'n', 'e', 'r', 0x92, 0x01, 'a', 0x01, 's', 0x60, 'N', 'N'},                            // nulls in scalar fields
		{'C', 0x05, 'I', 'n', 'n', 'e', 'r', 0x92, 0x01, 'a', 0x01, 's', 0x60, 0x05, 'h', 'e', 'l', 'l', 'o', 0x90}, // string in an int field
		{'C', 0x05, 'O', 'u', 't', 'e', 'r', 0x91, 0x02, 'i', 'n', 0x60, 0x60},                                      // an Outer where an Inner is expected
		{'C', 0x05, 'O', 'u', 't', 'e', 'r', 0x91, 0x01, 'p', 0x60, 0x90},
		{'C', 0x05, 'L', 'i', 's', 't', 's', 0x91, 0x04, 'i', '3', '2', 's', 0x60, 0x58, 0x92, 0x01, 'a', 'T'}, // strings and bools into []int32
		{'C', 0x04, 'M', 'a', 'p', 's', 0x91, 0x02, 's', 'i', 0x60, 'H', 0x90, 0x01, 'x', 'Z'},                 // int key into map[string]int32
		{'C', 0x04, 'M', 'a', 'p', 's', 0x91, 0x02, 's', 'i', 0x60, 'H', 0x57, 'Z', 0x90, 'Z'},                 // a list as a map key (unhashable)
		{'H', 0x57, 'Z', 0x90, 'Z'}, {'H', 'H', 'Z', 0x90, 'Z'}, // unhashable keys in an untyped map
		// the input ends exactly after a complete non-final chunk (at the position of the next chunk's tag)
		{'R', 0, 1, 'a'}, {'R', 0, 0}, {'R', 0, 1, 'a', 'R', 0, 1, 'b'}, {'R', 0, 2, 0xe4, 0xb8, 0x80, 'x'}, {'A', 0, 1, 7}, {'A', 0, 0}, {'A', 0, 1, 7, 'A', 0, 2, 8, 9},
		{0x57, 'R', 0, 1, 'a'}, {0x79, 'A', 0, 1, 7}, {'H', 'R', 0, 1, 'k'},
		{'C', 0x05, 'I', 'n', 'n', 'e', 'r', 0x92, 0x01, 'a', 0x01, 's', 0x60, 0x91, 'R', 0, 1, 'x'}, // in a string field
	}
	for d := 10; d <= 65000; d *= 5 { // deep nesting: depth bounded by the input length
		for _, t := range []byte{0x57, 'H', 0x79, 0x58} {
			b := make([]byte, d)
			for i := range b {
				b[i] = t
			}
			if t == 0x58 {
				for i := range b {
					if i%2 == 1 {
						b[i] = 0x91
					}
				}
			}
			seeds = append(seeds, b)
		}
	}
	// nesting far deeper than any stack can follow: a megabyte of container-open tags, a long chain of
	// class definitions (the readers recurse once per level; the decoder must refuse, not die)
	for _, t := range []byte{0x79, 0x57, 'H'} {
		seeds = append(seeds, bytes.Repeat([]byte{t}, 1200000))
	}
	seeds = append(seeds, bytes.Repeat([]byte{'C', 0, 0x90}, 400000))
	// ... and a chain of objects each held in a struct-typed field of the one before: such a field is read
	// by the struct reader, which does not pass through the generic value reader
	seeds = append(seeds, append([]byte{'C', 0x04, 'N', 'o', 'd', 'e', 0x91, 0x04, 'n', 'e', 'x', 't'}, bytes.Repeat([]byte{0x60}, 1200000)...))
	// declared counts of MODERATE size (below any sanity bound a reader might apply to huge counts),
	// many times over, with nothing behind them: allocation must follow the bytes, not the counts
	for _, cnt := range []int{1025, 5000, 60000} {
		hd := []byte{0x58, 'I', 0, 0, byte(cnt >> 8), byte(cnt)}
		var b []byte
		for i := 0; i < 60; i++ {
			b = append(b, hd...)
		}
		seeds = append(seeds, b)
		tl := append([]byte{'V', 0x04, '[', 'i', 'n', 't', 'I', 0, 0, byte(cnt >> 8), byte(cnt)}, bytes.Repeat([]byte{0x58, 'I', 0, 0, byte(cnt >> 8), byte(cnt)}, 40)...)
		seeds = append(seeds, tl)
		seeds = append(seeds, append([]byte{'C', 0x01, 'A', 'I', 0, 0, byte(cnt >> 8), byte(cnt)}, 0x01, 'x'))
	}
	// a string and a byte array in a great many one-item chunks (the encoder cuts chunks of 2048 and
	// 4096 items; the grammar allows any): collecting the chunks must cost what the input costs
	{
		var sb, bb []byte
		for i := 0; i < 100000; i++ {
			sb = append(sb, 'R', 0, 1, byte('a'+i%26))
			bb = append(bb, 'A', 0, 1, byte(i))
		}
		seeds = append(seeds, append(sb, 'S', 0, 1, 'z'), append(bb, 'B', 0, 1, 7), append(append([]byte{0x57}, sb...), 0x01, 'z', 'Z'))
	}
	// one open list holding 40000 objects whose list field refers back to that enclosing list, then 40000
	// more elements: every append to a list must cost the same whoever refers to it
	{
		b := append([]byte{0x57, 'C', 0x05}, []byte("Lists")...)
		b = append(b, 0x91, 0x03, 'a', 'n', 'y')
		b = append(b, bytes.Repeat([]byte{0x60, 0x51, 0x90}, 40000)...)
		b = append(b, bytes.Repeat([]byte{0x90}, 40000)...)
		seeds = append(seeds, append(b, 'Z'))
	}
	// a rejected message must leave nothing behind in the process: a class with a field of the empty
	// name and an instance of it (rejected), then a plain instance of the same class (every input of
	// this run is decoded by the same worker process, so whatever a rejected message leaves locked or
	// cached meets the next one)
	seeds = append(seeds,
		[]byte{'C', 0x05, 'I', 'n', 'n', 'e', 'r', 0x91, 0x00, 0x60, 0x01, 'x'},
		[]byte{'C', 0x05, 'I', 'n', 'n', 'e', 'r', 0x92, 0x01, 'a', 0x01, 's', 0x60, 0x91, 0x01, 'x'})
	for _, s := range seeds {
		emit("seed", s)
	}
	for _, s := range [][]byte{
		// an untyped map that contains itself (by back-reference), as a value of a field of a self-containing map type
		append(append([]byte{'C', 0x06}, []byte("Forest")...), 0x91, 0x01, 't', 0x60, 'H', 0x01, 'k', 'H', 0x01, 'a', 0x51, 0x92, 'Z', 'Z'),
		// ... and a map reachable along two paths at every level (direct and by back-reference)
		append(append([]byte{'C', 0x06}, []byte("Forest")...), 0x91, 0x01, 't', 0x60, 'H', 0x01, 'k', 'H', 0x01, 'a', 'H', 0x01, 'a', 'H', 'Z', 0x01, 'b', 0x51, 0x94, 'Z', 0x01, 'b', 0x51, 0x93, 'Z', 0x01, 'j', 0x51, 0x92, 'Z'),
		// ... 22 levels deep: key "a" holds the next level, key "b" a back-reference to that same level
		// (object #0, level i is #i+1); the work must follow the 200 bytes, not the 2^22 paths
		func() []byte {
			b := append(append([]byte{'C', 0x06}, []byte("Forest")...), 0x91, 0x01, 't', 0x60)
			const depth = 22
			for i := 0; i < depth; i++ {
				b = append(b, 'H', 0x01, 'a')
			}
			b = append(b, 'H', 'Z')
			for i := depth - 1; i >= 0; i-- {
				b = append(b, 0x01, 'b', 0x51, byte(0x90+i+2), 'Z')
			}
			return b
		}(),
	} {
		emit("forest", s)
	}
	for _, s := range [][]byte{{'N'}, {0x91}, append(append([]byte{'C', 0x03}, []byte("Nil")...), 0x90, 0x60),
		append(append([]byte{'C', 0x05}, []byte("Inner")...), 0x92, 0x01, 'a', 0x01, 's', 0x60, 0x91, 0x01, 'x')} {
		emit("niltype", s)
	}
	// 2. uniformly random strings
	n := 1500
	if thorough {
		n = 150000
	}
	for i := 0; i < n; i++ {
		ln := r.intn(40)
		if i%200 == 0 {
			ln = 1000 + r.intn(64000)
		}
		b := make([]byte, ln)
		for j := range b {
			b[j] = byte(r.u64())
		}
		emit("random", b)
	}
	// 3. valid messages of every zoo shape: every prefix, and structure-aware mutations
	interesting := []byte{0x00, 0x01, 0x1f, 0x20, 0x2f, 0x30, 0x34, 0x38, 0x3f, 0x41, 'B', 'C', 'D', 'F', 'H', 'I', 0x4a, 0x4b, 'L', 'M', 'N', 'O', 0x51, 'R', 'S', 'T', 0x55, 'V', 0x57, 0x58, 0x59, 'Z',
		0x5b, 0x5d, 0x5f, 0x60, 0x61, 0x62, 0x6f, 0x70, 0x72, 0x77, 0x78, 0x7f, 0x80, 0x8f, 0x90, 0x91, 0xbf, 0xc0, 0xcf, 0xd0, 0xd7, 0xd8, 0xe0, 0xef, 0xf0, 0xff}
	huge := [][]byte{{'I', 0x7f, 0xff, 0xff, 0xff}, {'I', 0x80, 0, 0, 0}, {'I', 0, 0x10, 0, 0}, {0xd7, 0xff, 0xff}, {0xbf}, {0x8f}, {'L', 0x7f, 0xff, 0xff, 0xff, 0xff, 0xff, 0xff, 0xff}}
	vals := 3
	if thorough {
		vals = 60
	}
	for ti, t := range zooTypes {
		for i := 0; i < vals; i++ {
			seed := c.seed*1000003 + uint64(i)*131 + uint64(ti)
			v := genValue(t, seed, 8+(i%4)*10, 12)
			_, nm := hessian.ExtractTypeNameMap(v)
			b0, err := hessian.ToBytes(v, nm)
			if err != nil || len(b0) == 0 {
				continue
			}
			if len(b0) <= 400 || thorough {
				step := 1
				if len(b0) > 400 {
					step = len(b0) / 200
				}
				for k := 0; k < len(b0); k += step {
					emit("prefix", b0[:k])
				}
			}
			muts := 60
			if thorough {
				muts = 300
			}
			for k := 0; k < muts; k++ {
				b := append([]byte{}, b0...)
				pos := r.intn(len(b))
				switch r.intn(6) {
				case 0, 1: // tag swap / index or length edit
					b[pos] = interesting[r.intn(len(interesting))]
				case 2: // a declared count/index replaced by a huge or negative one
					h := huge[r.intn(len(huge))]
					b = append(b[:pos], append(append([]byte{}, h...), b[pos+1:]...)...)
				case 3: // deletion
					b = append(b[:pos], b[pos+1:]...)
				case 4: // insertion
					b = append(b[:pos], append([]byte{interesting[r.intn(len(interesting))]}, b[pos:]...)...)
				case 5: // random byte
					b[pos] = byte(r.u64())
				}
				if r.intn(4) == 0 && len(b) > 2 { // a second edit
					b[r.intn(len(b))] = interesting[r.intn(len(interesting))]
				}
				emit("mutation", b)
			}
		}
	}
}

func runC14(c *ctx) {
	c.rule = "byte strings up to 64 KiB: hostile seeds for every index/count/length site (negative, huge, out of range; refs to objects under construction; wrong kinds in typed fields; unhashable map keys; nesting to depth 50000), uniformly random strings, EVERY prefix of valid messages of every zoo shape, and structure-aware mutations of valid messages (tag swaps, huge/negative counts and indexes, deletions, insertions); x type maps {knows the classes, empty, names bound to types of the wrong shape} x entry points {ToObject, Decoder.Decode, Decoder.ReadFrom, Decoder.ReadObject (streaming), Serializer.ToObject, Serializer.ReadFrom+Read}. Each decode runs in a worker subprocess (ulimit -v, watchdog). Oracle: the call returns (no panic, crash or timeout), time <= 200 ms + 20 us/byte, allocation <= 4 MiB + 4 KiB/byte. Distinct by (bytes, type map, entry); non-trivial = length >= 2."
	w := startWorker()
	defer func() { w.stop() }()
	caseNo := 0
	only := ""
	if rp, ok := c.extra["replay"].(string); ok {
		in := loadReplay(rp)
		only = in["bytes"].(string)
		for _, tm := range []string{"known", "empty", "wrong", "forest", "niltype"} {
			for _, e := range c14Entries {
				if in["entry"] == e && in["tm"] == tm {
					if p, ok := in["previous_input_of_the_same_process"].(string); ok {
						w.run(e, tm, unhx(p), 10*time.Second)
					}
					c14One(c, &w, e, tm, unhx(only), "replay")
				}
			}
		}
		return
	}
	c14Inputs(c, func(label string, bs []byte) {
		caseNo++
		// every input against one (entry, type map) pair in rotation; seeds against all
		if label == "forest" || label == "niltype" {
			for _, e := range c14Entries {
				c14One(c, &w, e, label, bs, label)
			}
			return
		}
		if label == "seed" {
			for _, tm := range []string{"known", "empty", "wrong"} {
				for _, e := range c14Entries {
					c14One(c, &w, e, tm, bs, label)
				}
			}
			return
		}
		e := c14Entries[caseNo%len(c14Entries)]
		tm := []string{"known", "known", "empty", "wrong"}[(caseNo/len(c14Entries))%4]
		c14One(c, &w, e, tm, bs, label)
	})
}

var c14Prev []byte

func c14One(c *ctx, w **worker, entry, tm string, bs []byte, label string) {
	if c.unclassified() >= 25 {
		c.dist["skipped_after_25_failures"]++ // the verdict is settled; each further runaway costs a watchdog period
		return
	}
	key := ""
	if len(bs) >= 2 {
		key = entry + "/" + tm + "/" + hx(bs[:min(len(bs), 64)]) + strconv.Itoa(len(bs))
	}
	c.eval(key)
	c.dist["input:"+label]++
	res, f := (*w).run(entry, tm, bs, 10*time.Second)
	c.dist["outcome:"+res]++
	in := map[string]interface{}{"op": "hostile", "entry": entry, "tm": tm, "bytes": hx(bs), "label": label}
	if label != "replay" && len(c14Prev) > 0 && len(c14Prev) <= 600 {
		in["previous_input_of_the_same_process"] = hx(c14Prev) // state left behind by it is part of the case
	}
	c14Prev = bs
	if len(bs) > 600 {
		in["bytes"] = hx(bs[:600])
		in["truncated_len"] = len(bs)
	}
	switch res {
	case "timeout", "crash":
		(*w).stop()
		*w = startWorker()
		c.fail("decode does not return: "+res+" (killed by the watchdog or the address-space limit)", in, fmt.Sprintf("%d bytes of input", len(bs)), c14Class(res, bs))
		return
	case "panic":
		c.fail("decode panics", in, fmt.Sprintf("%d bytes of input", len(bs)), c14Class(res, bs))
		return
	}
	if entry == "ReadFrom" && tm != "forest" && tm != "niltype" && len(bs) <= 3000 && (res == "err" || f[4] != "-") {
		ans := "err"
		if res == "ok" {
			ans = "ok " + strings.ReplaceAll(f[4], "\x01", " ") + " " + f[1]
		}
		tms, tes := typeMapStr(c14TypeMap(tm))
		c.corr("dec "+tes+" "+tms+" "+hx(bs), ans)
	}
	alloc, _ := strconv.ParseInt(f[2], 10, 64)
	us, _ := strconv.ParseInt(f[3], 10, 64)
	if alloc > 4<<20+int64(len(bs))*4096 {
		c.fail("memory used is not bounded by the input size", in, fmt.Sprintf("%d bytes allocated for %d bytes of input", alloc, len(bs)), c14Class("alloc", bs))
	}
	if us > 200000+int64(len(bs))*20 {
		c.fail("time used is not bounded by the input size", in, fmt.Sprintf("%d us for %d bytes of input", us, len(bs)), c14Class("time", bs))
	}
	if c.evals%997 == 0 {
		c.sample(map[string]interface{}{"entry": entry, "tm": tm, "bytes": hx(bs[:min(len(bs), 40)]), "len": len(bs), "outcome": res})
	}
}
