// C03: the decoder accepts every legal Hessian 2.0 encoding of a value, not only its own.
package main

import (
	"fmt"
	"reflect"

	hessian "github.com/vogo/gohessian"
)

func init() { props["C03"] = runC03 }

// the implementation writes SECONDS in the compact date form (known finding C02-F1); so that the
// other choices are still tested, the abstract value is corrected to what the encoder meant
func patchCompactDates(h *hval) {
	if h.k == hDate && h.compact {
		h.z = h.z / 60000 * 1000
		h.compact = false
	}
	for _, it := range h.items {
		patchCompactDates(it)
	}
}

func c03Value(c *ctx, val interface{}, label string, seed uint64, budget int, renderings int, exhaustive bool) {
	in := map[string]interface{}{"op": "rendering", "type": label, "gseed": seed, "budget": budget}
	tm, nm := hessian.ExtractTypeNameMap(val)
	b0, err := hessian.ToBytes(val, nm)
	if err != nil {
		return
	}
	var d0 interface{}
	if o, _ := guard(func() error { var e error; d0, e = hessian.ToObject(b0, tm); return e }); o != oOK {
		return // C01's business
	}
	want := canonTop(d0)
	h0, perr := hparseAll(b0)
	if perr != nil {
		return // C02's business
	}
	patchCompactDates(h0)
	try := func(ch chooser, rlabel string) (nchoice int) {
		bs, nch, varied, compact, err := renderChecked2(h0, ch)
		if err != nil {
			c.fail("harness: renderer failed", in, err.Error(), "harness")
			return 0
		}
		key := ""
		if varied > 0 {
			key = fmt.Sprint(label, "#", seed, "/", hx(bs[:min(len(bs), 24)]), len(bs), varied)
		}
		c.eval(key)
		c.dist["choices_offered"] += nch
		c.dist["choices_varied"] += varied
		if len(bs) < 20000 && varied > 0 {
			c.corr("parse "+hx(bs), "ok "+h0.String())
		}
		if varied > 0 && len(bs) < 4000 {
			decCorr(c, tm, bs)
		}
		var d interface{}
		o, m := guard(func() error { var e error; d, e = hessian.ToObject(bs, tm); return e })
		cls := ""
		if compact {
			cls = "C03-F1-compact-date-read-as-seconds"
		}
		rin := map[string]interface{}{"op": "rendering", "type": label, "gseed": seed, "budget": budget, "rendering": rlabel, "bytes": hx(trunc(bs, 400))}
		if o != oOK {
			c.fail("a legal rendering is rejected", rin, o.String()+": "+truncS(m, 300), cls)
			return nch
		}
		got := canonTop(d)
		if got != want {
			c.fail("a legal rendering decodes to a different value than the encoder's own rendering", rin, diffStr(want, got), cls)
		}
		return nch
	}
	if exhaustive {
		var prefix []int
		count := 0
		for {
			o := &odoChooser{prefix: prefix}
			try(o, fmt.Sprint("exhaustive", o.prefix))
			count++
			prefix = o.next()
			if prefix == nil {
				c.dist["exhaustive_values"]++
				break
			}
			if count >= 400 {
				c.dist["exhaustive_truncated"]++
				break
			}
		}
		c.dist["exhaustive_renderings"] += count
		return
	}
	for k := 0; k < renderings; k++ {
		try(newRng(seed*131+uint64(k), "render"), fmt.Sprint("seed", seed*131+uint64(k)))
	}
}

func min(a, b int) int {
	if a < b {
		return a
	}
	return b
}

// the worked examples of the specification text (as quoted in the repository's file headers)
func c03SpecExamples(c *ctx) {
	type ex struct {
		name string
		bs   []byte
		tm   map[string]reflect.Type
		want string
	}
	carT := reflect.TypeOf(struct {
		Color string
		Model string
	}{})
	_ = carT
	exs := []ex{
		{"int 0 / 300 / -262144 / I", []byte{0x57, 0x90, 0xc9, 0x2c, 0xd0, 0x00, 0x00, 'I', 0, 0, 1, 0x2c, 'Z'}, nil, `(slice []interface {} (int32 0) (int32 300) (int32 -262144) (int32 300))`},
		{"long forms", []byte{0x58, 0x94, 0xe0, 0xf8, 0x00, 0x3c, 0x00, 0x00, 0x59, 0, 0, 1, 0x2c}, nil, `(slice []interface {} (int64 0) (int64 0) (int64 0) (int64 300))`},
		{"double forms", []byte{0x7c, 0x5b, 0x5c, 0x5d, 0x80, 0x5e, 0x80, 0x00}, nil, `(slice []interface {} (float64 0) (float64 3ff0000000000000) (float64 c060000000000000) (float64 c0e0000000000000))`},
		{"untyped variable list {0,1}", []byte{0x57, 0x90, 0x91, 'Z'}, nil, `(slice []interface {} (int32 0) (int32 1))`},
		{"string in two chunks", append([]byte{0x52, 0x00, 0x07}, append([]byte("hello, "), append([]byte{0x05}, []byte("world")...)...)...), nil, `"hello, world"`},
		{"growing chunks R1 S5", []byte{'R', 0, 1, 'a', 'S', 0, 5, 'h', 'e', 'l', 'l', 'o'}, nil, `"ahello"`},
		{"long form string", []byte{'S', 0, 5, 'h', 'e', 'l', 'l', 'o'}, nil, `"hello"`},
		{"binary two chunks", []byte{'A', 0, 1, 7, 'B', 0, 2, 8, 9}, nil, `(bytes 070809)`},
		{"typed int list V", []byte{'V', 0x04, '[', 'i', 'n', 't', 0x92, 0x90, 0x91}, map[string]reflect.Type{"[int": reflect.TypeOf([]int32{})}, `(slice []int32 (int32 0) (int32 1))`},
		{"typed lists, second by type reference", []byte{0x57, 0x72, 0x04, '[', 'i', 'n', 't', 0x90, 0x91, 0x73, 0x90, 0x92, 0x93, 0x94, 'Z'}, map[string]reflect.Type{"[int": reflect.TypeOf([]int32{})},
			`(slice []interface {} (slice []int32 (int32 0) (int32 1)) (slice []int32 (int32 2) (int32 3) (int32 4)))`},
		{"untyped map", []byte{'H', 0x91, 0x03, 'f', 'e', 'e', 'Z'}, nil, `(map map[interface {}]interface {} (int32 1)->"fee")`},
		{"object example, long and short instance form", append(append([]byte{0x57, 'C', 0x05}, []byte("Inner")...), []byte{0x92, 0x01, 'a', 0x01, 's', 'O', 0x90, 0x91, 0x01, 'x', 0x60, 0x92, 0x01, 'y', 0x51, 0x91, 'Z'}...),
			map[string]reflect.Type{"Inner": reflect.TypeOf(Inner{})},
			`(slice []interface {} (ptr (struct main.Inner A=(int32 1) S="x")) (ptr (struct main.Inner A=(int32 2) S="y")) (ptr (struct main.Inner A=(int32 1) S="x")))`},
		{"date milliseconds 1998-05-08T09:51:31Z", []byte{0x4a, 0x00, 0x00, 0x00, 0xd0, 0x4b, 0x92, 0x84, 0xb8}, nil, `(time 894621091000)`},
	}
	for _, e := range exs {
		in := map[string]interface{}{"op": "spec-example", "name": e.name, "bytes": hx(e.bs)}
		c.eval("ex:" + e.name)
		if _, err := hparseAll(e.bs); err != nil {
			c.fail("harness: example is not legal under the reference parser", in, err.Error(), "harness")
			continue
		}
		h, _ := hparseAll(e.bs)
		c.corr("parse "+hx(e.bs), "ok "+h.String())
		var d interface{}
		o, m := guard(func() error { var er error; d, er = hessian.ToObject(e.bs, e.tm); return er })
		if o != oOK {
			c.fail("a worked example of the specification is rejected", in, o.String()+": "+m, "")
			continue
		}
		if got := canonTop(d); got != e.want {
			c.fail("a worked example of the specification decodes to the wrong value", in, "want "+e.want+" got "+got, "")
		}
	}
	// the compact date example of the specification: minutes
	in := map[string]interface{}{"op": "spec-example", "name": "date minutes", "bytes": "4b4b920ba0"}
	c.eval("ex:date-minutes")
	var d interface{}
	o, m := guard(func() error {
		var er error
		d, er = hessian.ToObject([]byte{0x4b, 0x4b, 0x92, 0x0b, 0xa0}, nil)
		return er
	})
	// under the grammar the four octets are MINUTES since the epoch: 0x4b920ba0 min = 76071745920000 ms
	if o != oOK || canonTop(d) != "(time 76071745920000)" {
		c.fail("the compact date form x4b b3..b0 is not read as minutes (bytes of the specification's example x4b x4b x92 x0b xa0)", in, fmt.Sprint(o, m, canonTop(d)), "C03-F1-compact-date-read-as-seconds")
	}
}

// hand-built families that random zoo values hit only rarely
func c03Families(c *ctx) {
	thorough := c.tier == "thorough"
	// (a) lists of every length 0..9, typed and untyped, in every header form (exhaustive choice space)
	for n := 0; n <= 9; n++ {
		var l32 []int32
		var la []interface{}
		for i := 0; i < n; i++ {
			l32 = append(l32, int32(i))
			la = append(la, int32(i))
		}
		c03Value(c, l32, fmt.Sprint("family:[]int32/", n), uint64(n), 0, 0, true)
		c03Value(c, la, fmt.Sprint("family:[]interface{}/", n), uint64(n), 0, 0, true)
		c03Value(c, &Lists{I32s: l32, Any: la}, fmt.Sprint("family:Lists/", n), uint64(n), 0, 0, true)
	}
	// (b) the type table: repeated literal types followed by references into the table
	tt := []interface{}{[]int32{1}, []int32{2}, []string{"a"}, []string{"b"}, []int32{3}, []float64{1.5}, []string{"c"}, []float64{2.5}}
	c03Value(c, tt, "family:type-table", 1, 0, 0, true)
	c03Value(c, tt[:5], "family:type-table-5", 2, 0, 0, true)
	for k := 0; k < 40; k++ {
		c03Value(c, tt, "family:type-table", uint64(100+k), 0, 40, false)
	}
	// (c) long strings and byte slices in every two-chunk split around the chunk sizes
	lens := []int{2049, 2050, 4100}
	if thorough {
		lens = append(lens, 2047, 2048, 4096, 4097, 6200)
	}
	for _, n := range lens {
		s := mkString("mixed", n, -1, newRng(uint64(n), "c03-long"))
		b := mkBytes(n*2, newRng(uint64(n), "c03-longb"))
		for k := 0; k < 30; k++ {
			c03Value(c, s, fmt.Sprint("family:string/", n), uint64(n*1000+k), 0, 1, false)
			c03Value(c, b, fmt.Sprint("family:bytes/", 2*n), uint64(n*1000+k), 0, 1, false)
		}
		// explicit splits: 1 + (n-1), 2 + (n-2), (n-1) + 1
		h := &hval{k: hString, s: s}
		for _, first := range []int{1, 2, 2048, n - 1} {
			c03Explicit(c, h, &fixedSplit{first: first}, fmt.Sprint("family:string-split/", n, "/", first), s)
		}
	}
}

// a chooser that makes one two-chunk split with a given first chunk and otherwise canonical choices
type fixedSplit struct {
	first int
	calls int
}

func (f *fixedSplit) intn(n int) int {
	f.calls++
	switch f.calls {
	case 1: // split(): pick(4) -> case 1 = two chunks
		if n == 4 {
			return 1
		}
	case 2: // the split point: k = 1 + intn(n-1)
		if f.first-1 < n {
			return f.first - 1
		}
	}
	return 0
}

func c03Explicit(c *ctx, h *hval, ch chooser, label string, want string) {
	bs, _, varied, err := renderChecked(h, ch)
	if err != nil {
		c.fail("harness: renderer failed", map[string]interface{}{"op": "explicit", "label": label}, err.Error(), "harness")
		return
	}
	key := ""
	if varied > 0 {
		key = label
	}
	c.eval(key)
	in := map[string]interface{}{"op": "explicit-rendering", "label": label, "bytes": hx(trunc(bs, 60))}
	var d interface{}
	o, m := guard(func() error { var e error; d, e = hessian.ToObject(bs, nil); return e })
	if o != oOK {
		c.fail("a legal rendering is rejected", in, o.String()+": "+truncS(m, 200), "")
		return
	}
	if g, ok := d.(string); !ok || g != want {
		c.fail("a legal rendering decodes to a different value than the encoder's own rendering", in, fmt.Sprintf("%T of length %d", d, len(g)), "")
	}
}

func runC03(c *ctx) {
	if rp, ok := c.extra["replay"].(string); ok {
		in := loadReplay(rp)
		if in["op"] == "spec-example" {
			c03SpecExamples(c)
			return
		}
		for _, t := range zooTypes {
			if t.String() == in["type"].(string) {
				s := uint64(in["gseed"].(float64))
				b := int(in["budget"].(float64))
				c03Value(c, genValue(t, s, b, 40), t.String(), s, b, 12, false)
			}
		}
		return
	}
	c.rule = "abstract values = reference parse of the encoder's own output for values of every zoo type (C01 generator), re-rendered by the certified reference encoder under seeded choice streams: every number form, string/binary chunk splits (two chunks at any point, one-item chunks, growing chunks, an empty non-final chunk, 2-octet final forms), typed lists as [x70-77]/'V'/x55..Z and untyped as [x78-7f]/x58/x57..Z, type names literal or by reference, instances as [x60-6f] or 'O' int, class definitions at first use or hoisted before an enclosing value; for small values the whole choice space is enumerated with an odometer (<= 400 renderings per value); plus the worked examples of the specification. Oracle: decode(rendering) has the same canonical form as decode(encoder's own rendering). Distinct by rendered bytes; non-trivial = differs from the canonical rendering in at least one choice."
	c03SpecExamples(c)
	c03Families(c)
	n := 25
	rend := 6
	if c.tier == "thorough" {
		n, rend = 600, 16
	}
	for ti, t := range zooTypes {
		if (t.Kind() == reflect.Map && t.Name() == "") || t == reflect.TypeOf(Collide{}) {
			continue // known findings of C01 on these types
		}
		for i := 0; i < n; i++ {
			seed := c.seed*1000003 + uint64(i)*131 + uint64(ti)
			budget := 6 + (i%6)*14
			c.dist["type:"+t.String()]++
			c03Value(c, genValue(t, seed, budget, 40), t.String(), seed, budget, rend, false)
		}
		// small values: the whole choice space
		for i := 0; i < n/5+1; i++ {
			seed := c.seed*777 + uint64(i)*17 + uint64(ti)
			c03Value(c, genValue(t, seed, 3, 3), t.String(), seed, 3, 0, true)
		}
		c.sample(map[string]interface{}{"type": t.String()})
	}
}
