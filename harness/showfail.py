import json,sys
p=sys.argv[1]
d=json.load(open('/verif/build/run/%s/%s.oracle.json'%(p,p)))
print(p,{k:d[k] for k in ['evaluations','distinct_nontrivial','corr_cases']})
for k,v in sorted(d['distribution'].items()):
    if k.startswith('fail') or len(sys.argv)>2: print(' ',k,v)
seen=set()
for f in d['failures']:
    k=(f['what'],f['class'],f['detail'][:30])
    if k not in seen and len(seen)<25:
        seen.add(k); print(f['class'],'|',f['what'],'|',json.dumps(f['input'])[:160],'|',f['detail'][:300])
