package main

import (
	"encoding/json"
	"os"
	"strconv"
)

func loadReplay(path string) map[string]interface{} {
	var rp struct {
		Input map[string]interface{} `json:"input"`
	}
	b, err := os.ReadFile(path)
	must(err)
	must(json.Unmarshal(b, &rp))
	return rp.Input
}
func parseUhex(s string) (uint64, error) { return strconv.ParseUint(s, 16, 64) }
func parseZhex(s string) (int64, error)  { return strconv.ParseInt(s, 16, 64) }
