(* Driver for the extracted model: reads one case per line, prints one result per line.
   Numbers travel as hexadecimal with an optional leading '-'; byte strings as hex, "-" when empty. *)
open Model

let rec pos_of_int n = if n = 1 then XH else if n land 1 = 0 then XO (pos_of_int (n lsr 1)) else XI (pos_of_int (n lsr 1))
let z_of_int n = if n = 0 then Z0 else if n > 0 then Zpos (pos_of_int n) else Zneg (pos_of_int (-n))
let z16 = z_of_int 16
let z_of_hex s =
  let neg = String.length s > 0 && s.[0] = '-' in
  let s = if neg then String.sub s 1 (String.length s - 1) else s in
  let acc = ref Z0 in
  String.iter (fun c ->
    let d = match c with '0'..'9' -> Char.code c - 48 | 'a'..'f' -> Char.code c - 87 | 'A'..'F' -> Char.code c - 55
                       | _ -> failwith ("bad hex " ^ s) in
    acc := Z.add (Z.mul !acc z16) (z_of_int d)) s;
  if neg then Z.opp !acc else !acc
let rec bits_of_pos p = match p with XH -> [1] | XO q -> 0 :: bits_of_pos q | XI q -> 1 :: bits_of_pos q
let hex_of_pos p =
  let bits = bits_of_pos p in
  let rec go bits = match bits with
    | [] -> []
    | a :: b :: c :: d :: r -> (a + 2*b + 4*c + 8*d) :: go r
    | l -> [List.fold_right (fun x acc -> x + 2*acc) l 0] in
  let ds = List.rev (go bits) in
  String.concat "" (List.map (fun d -> String.make 1 "0123456789abcdef".[d]) ds)
let hex_of_z z = match z with Z0 -> "0" | Zpos p -> hex_of_pos p | Zneg p -> "-" ^ hex_of_pos p
let rec int_of_pos p = match p with XH -> 1 | XO q -> 2 * int_of_pos q | XI q -> 2 * int_of_pos q + 1
let int_of_z z = match z with Z0 -> 0 | Zpos p -> int_of_pos p | Zneg p -> - (int_of_pos p)
let rec int_of_nat n = match n with O -> 0 | S m -> 1 + int_of_nat m
let rec nat_of_int n = if n <= 0 then O else S (nat_of_int (n - 1))

let bytes_of_hex s =
  if s = "-" then [] else begin
    let n = String.length s / 2 in
    List.init n (fun i -> z_of_int (int_of_string ("0x" ^ String.sub s (2*i) 2)))
  end
let hex_of_bytes bs =
  if bs = [] then "-" else String.concat "" (List.map (fun b -> Printf.sprintf "%02x" (int_of_z b land 255)) bs)

let runes_of_string s = if s = "-" then [] else List.map z_of_hex (String.split_on_char ',' s)
let string_of_runes rs = if rs = [] then "-" else String.concat "," (List.map hex_of_z rs)

let rec print_hval b (h : hval) =
  let names rs = if rs = [] then "-" else String.concat "," (List.map hex_of_z rs) in
  match h with
  | HNull -> Buffer.add_string b "N"
  | HBool true -> Buffer.add_string b "T"
  | HBool false -> Buffer.add_string b "F"
  | HInt z -> Buffer.add_string b ("I" ^ hex_of_z z)
  | HLong z -> Buffer.add_string b ("L" ^ hex_of_z z)
  | HDouble z -> Buffer.add_string b (if is_nan64 z then "Dnan" else "D" ^ hex_of_z z)
  | HDate z -> Buffer.add_string b ("d" ^ hex_of_z z)
  | HString rs -> Buffer.add_string b ("S(" ^ names rs ^ ")")
  | HBinary bs -> Buffer.add_string b ("B(" ^ hex_of_bytes bs ^ ")")
  | HRef z -> Buffer.add_string b ("R" ^ hex_of_z z)
  | HList (ty, items) ->
    Buffer.add_string b "l["; (match ty with Some t -> Buffer.add_string b (names t) | None -> Buffer.add_string b "~");
    Buffer.add_string b "](";
    List.iteri (fun i it -> if i > 0 then Buffer.add_char b ' '; print_hval b it) items;
    Buffer.add_string b ")"
  | HMap (ty, es) ->
    Buffer.add_string b "m["; (match ty with Some t -> Buffer.add_string b (names t) | None -> Buffer.add_string b "~");
    Buffer.add_string b "](";
    List.iteri (fun i (k, v) -> if i > 0 then Buffer.add_char b ' '; print_hval b k; Buffer.add_char b ' '; print_hval b v) es;
    Buffer.add_string b ")"
  | HObject (cls, fs) ->
    Buffer.add_string b ("o[" ^ names cls ^ "](");
    List.iteri (fun i (n, v) -> if i > 0 then Buffer.add_char b ' '; Buffer.add_string b (names n ^ "="); print_hval b v) fs;
    Buffer.add_string b ")"
let hval_str h = let b = Buffer.create 256 in print_hval b h; Buffer.contents b

(* successive values on one stream, sharing the parser state *)
let parse_seq bs =
  let rec go st bs acc =
    if bs = [] then "ok " ^ String.concat " ; " (List.rev acc) else
    match hparse st bs with
    | Ok ((v, r), st') -> go st' r (hval_str v :: acc)
    | Err _ -> "err after " ^ string_of_int (List.length acc)
    | Panic -> "panic" | Fuel -> "fuel" in
  go pstate0 bs []

let res_str f r = match r with
  | Ok a -> f a
  | Err _ -> "err"
  | Panic -> "panic"
  | Fuel -> "fuel"

let kind_of_string s = match s with
  | "int" -> KInt | "int8" -> KInt8 | "int16" -> KInt16 | "int32" -> KInt32 | "int64" -> KInt64
  | "uint" -> KUint | "uint8" -> KUint8 | "uint16" -> KUint16 | "uint32" -> KUint32 | "uint64" -> KUint64
  | _ -> failwith ("kind " ^ s)

let num_rest (v, r) = Printf.sprintf "ok %s %d" (hex_of_z v) (List.length r)

let handle line =
  match String.split_on_char ' ' line with
  | ["encint"; v] -> hex_of_bytes (gencodeInt (z_of_hex v))
  | ["enclong"; v] -> hex_of_bytes (gencodeLong (z_of_hex v))
  | ["decint"; h] -> res_str num_rest (decode_int (bytes_of_hex h))
  | ["declong"; h] -> res_str num_rest (decode_long (bytes_of_hex h))
  | ["enckind"; k; v] -> res_str (fun bs -> "ok " ^ hex_of_bytes bs) (enc_kind (kind_of_string k) (z_of_hex v))
  | ["decfield"; k; h] -> res_str num_rest (dec_field_kind (kind_of_string k) (bytes_of_hex h))
  | ["dectop"; h] -> res_str num_rest (dec_top_int (bytes_of_hex h))
  | ["encdouble"; b] -> res_str (fun bs -> "ok " ^ hex_of_bytes bs) (gencodeDouble (z_of_hex b))
  | ["decdouble"; h] -> res_str (fun (v, r) -> Printf.sprintf "ok %s %d" (if is_nan64 v then "nan" else hex_of_z v) (List.length r)) (decode_double (bytes_of_hex h))
  | ["encdate"; s; n] -> hex_of_bytes (gencodeDate (z_of_hex s) (z_of_hex n))
  | ["decdate"; h] -> res_str (fun ((s, n), r) -> Printf.sprintf "ok %s %s %d" (hex_of_z s) (hex_of_z n) (List.length r)) (decode_date (bytes_of_hex h))
  | ["encstr"; rs] -> hex_of_bytes (encode_string (runes_of_string rs))
  | ["decstr"; h] -> res_str (fun (rs, r) -> Printf.sprintf "ok %s %d" (string_of_runes rs) (List.length r)) (decode_string (bytes_of_hex h))
  | ["encbin"; h] -> hex_of_bytes (encode_binary (bytes_of_hex h))
  | ["decbin"; h] -> res_str (fun (bs, r) -> Printf.sprintf "ok %s %d" (hex_of_bytes bs) (List.length r)) (decode_binary (bytes_of_hex h))
  | "pool" :: size :: ops ->
    let op s =
      if s.[0] = 'g' then PGet (nat_of_int (int_of_string (String.sub s 1 (String.length s - 1))))
      else match String.split_on_char ':' (String.sub s 1 (String.length s - 1)) with
        | [c; o] -> PReturn (nat_of_int (int_of_string c), nat_of_int (int_of_string o))
        | _ -> failwith "pool op" in
    let tr = run_trace (List.map op ops) (new_pool (nat_of_int (int_of_string size))) in
    String.concat " " (List.map (fun (o, fill) ->
      (match o with Some x -> string_of_int (int_of_nat x) | None -> "-") ^ "/" ^ string_of_int (int_of_nat fill)) tr)
  | ["parse"; h] -> res_str (fun v -> "ok " ^ hval_str v) (hparse_all (bytes_of_hex h))
  | ["parseseq"; h] -> parse_seq (bytes_of_hex h)
  | _ -> Driver_ext.handle line

let () =
  try
    while true do
      let line = input_line stdin in
      print_string (try handle line with Failure m -> "driver-error " ^ m);
      print_char '\n'
    done
  with End_of_file -> ()
