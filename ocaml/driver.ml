(* Driver for the extracted model: reads one case per line, prints one result per line.
   Numbers travel as hexadecimal with an optional leading '-'; byte strings as hex, "-" when empty. *)
open Model
open Util

let handle line =
  match String.split_on_char ' ' line with
  | ["encint"; v] -> hex_of_bytes (gencodeInt (z_of_hex v))
  | ["enclong"; v] -> hex_of_bytes (gencodeLong (z_of_hex v))
  | ["decint"; h] -> res_str num_rest (decode_int (bytes_of_hex h))
  | ["declong"; h] -> res_str num_rest (decode_long (bytes_of_hex h))
  | ["enckind"; k; v] -> res_str (fun bs -> "ok " ^ hex_of_bytes bs) (enc_kind (kind_of_string k) (z_of_hex v))
  | ["decfield"; k; h] -> res_str num_rest (dec_field_kind (kind_of_string k) (bytes_of_hex h))
  | ["dectop"; h] -> res_str num_rest (dec_top_int (bytes_of_hex h))
  | ["encdouble"; b] -> res_str (fun bs -> "ok " ^ hex_of_bytes bs) (gencodeDouble (z_of_hex b))
  | ["decdouble"; h] -> res_str (fun (v, r) -> Printf.sprintf "ok %s %d" (if is_nan64 v then "nan" else hex_of_z v) (List.length r)) (decode_double (bytes_of_hex h))
  | ["encdate"; s; n] -> hex_of_bytes (gencodeDate (z_of_hex s) (z_of_hex n))
  | ["decdate"; h] -> res_str (fun ((s, n), r) -> Printf.sprintf "ok %s %s %d" (hex_of_z s) (hex_of_z n) (List.length r)) (decode_date (bytes_of_hex h))
  | ["encstr"; rs] -> hex_of_bytes (encode_string (runes_of_string rs))
  | ["decstr"; h] -> res_str (fun (rs, r) -> Printf.sprintf "ok %s %d" (string_of_runes rs) (List.length r)) (decode_string (bytes_of_hex h))
  | ["encbin"; h] -> hex_of_bytes (encode_binary (bytes_of_hex h))
  | ["decbin"; h] -> res_str (fun (bs, r) -> Printf.sprintf "ok %s %d" (hex_of_bytes bs) (List.length r)) (decode_binary (bytes_of_hex h))
  | "pool" :: size :: ops ->
    let op s =
      if s.[0] = 'g' then PGet (nat_of_int (int_of_string (String.sub s 1 (String.length s - 1))))
      else match String.split_on_char ':' (String.sub s 1 (String.length s - 1)) with
        | [c; o] -> PReturn (nat_of_int (int_of_string c), nat_of_int (int_of_string o))
        | _ -> failwith "pool op" in
    let tr = run_trace (List.map op ops) (new_pool (nat_of_int (int_of_string size))) in
    String.concat " " (List.map (fun (o, fill) ->
      (match o with Some x -> string_of_int (int_of_nat x) | None -> "-") ^ "/" ^ string_of_int (int_of_nat fill)) tr)
  | ["parse"; h] -> res_str (fun v -> "ok " ^ hval_str v) (hparse_all (bytes_of_hex h))
  | ["parseseq"; h] -> parse_seq (bytes_of_hex h)
  | _ -> Driver_ext.handle line

let () =
  try
    while true do
      let line = input_line stdin in
      print_string (try handle line with Failure m -> "driver-error " ^ m);
      print_char '\n'
    done
  with End_of_file -> ()
