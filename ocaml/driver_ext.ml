(* structural cases: s-expressions of gval, name maps, type environments *)
open Model
open Util

type sx = A of string | L of sx list

let parse_sx (s : string) : sx =
  let n = String.length s in
  let pos = ref 0 in
  let rec skip () = if !pos < n && s.[!pos] = ' ' then (incr pos; skip ()) in
  let rec one () =
    skip ();
    if !pos >= n then failwith "sexp: eof";
    if s.[!pos] = '(' then begin
      incr pos;
      let items = ref [] in
      let rec loop () =
        skip ();
        if !pos >= n then failwith "sexp: unclosed";
        if s.[!pos] = ')' then incr pos else (items := one () :: !items; loop ()) in
      loop ();
      L (List.rev !items)
    end else begin
      let st = !pos in
      while !pos < n && s.[!pos] <> ' ' && s.[!pos] <> '(' && s.[!pos] <> ')' do incr pos done;
      A (String.sub s st (!pos - st))
    end in
  one ()

let name_of a = match a with A s -> runes_of_string s | _ -> failwith "name"
let z_of a = match a with A s -> z_of_hex s | _ -> failwith "z"
let zi a = match a with A s -> z_of_int (int_of_string s) | _ -> failwith "int"
let rk s = match s with "st" -> RStruct | "sl" -> RSlice | "mp" -> RMap | _ -> failwith "rkind"
(* struct/slice/map ids of different kinds never collide: 4*id + kind code; 0 stays 0 *)
let addr_of kind a =
  let i = (match a with A s -> int_of_string s | _ -> failwith "addr") in
  if i = 0 then Z0 else z_of_int (4 * i + (match kind with RStruct -> 1 | RSlice -> 2 | RMap -> 3))

let rec gval_of (x : sx) : gval =
  match x with
  | A "N" -> VNil
  | A "U" -> VUnexported
  | A "X" -> VBad
  | L [A "b"; A "1"] -> VBool true
  | L [A "b"; A "0"] -> VBool false
  | L [A "i"; A k; v] -> VInt (Driver_kinds.kind_of_string k, z_of v)
  | L [A "f32"; v] -> VF32 (z_of v)
  | L [A "f64"; v] -> VF64 (z_of v)
  | L [A "s"; v] -> VStr (name_of v)
  | L [A "bin"; A h] -> VBytes (bytes_of_hex h)
  | L [A "t"; s; n] -> VTime (z_of s, z_of n)
  | L (A "st" :: a :: ty :: fields) ->
    VStruct (addr_of RStruct a, name_of ty,
             List.map (fun f -> match f with L [n; v] -> (name_of n, gval_of v) | _ -> failwith "field") fields)
  | L (A "sl" :: a :: ty :: items) -> VSlice (addr_of RSlice a, name_of ty, List.map gval_of items)
  | L (A "mp" :: a :: ty :: es) ->
    VMap (addr_of RMap a, name_of ty, List.map (fun e -> match e with L [k; v] -> (gval_of k, gval_of v) | _ -> failwith "entry") es)
  | L [A "seen"; A k; a] -> VSeen (rk k, addr_of (rk k) a)
  | _ -> failwith "gval"

let namemap_of (x : sx) =
  match x with
  | L (A "nm" :: es) -> List.map (fun e -> match e with L [k; v] -> (name_of k, name_of v) | _ -> failwith "nm entry") es
  | _ -> failwith "nm"

(* "cmd (nm ...) (gval)" -> the two s-expressions after the command word *)
let two_sx (rest : string) =
  match parse_sx ("(" ^ rest ^ ")") with
  | L [a; b] -> (a, b)
  | _ -> failwith "expected two s-expressions"

(* ---- decoder model: type environment, type map, canonical printing of dval + heap ---- *)
let rec gtype_of (x : sx) : gtype =
  match x with
  | A "b" -> TBool | A "f32" -> TF32 | A "f64" -> TF64 | A "s" -> TStr | A "t" -> TTime | A "bin" -> TBytes
  | A "if" -> TIface | A "o" -> TOther
  | L [A "i"; A k] -> TInt (Driver_kinds.kind_of_string k)
  | L [A "st"; n] -> TStruct (name_of n)
  | L [A "p"; t] -> TPtr (gtype_of t)
  | L [A "sl"; t] -> TSlice (gtype_of t)
  | L [A "mp"; k; v] -> TMap (gtype_of k, gtype_of v)
  | _ -> failwith "gtype"
let tenv_of (x : sx) =
  match x with
  | L (A "te" :: ts) ->
    List.map (fun t -> match t with
      | L (n :: fs) -> (name_of n, List.map (fun f -> match f with L [fn; ft] -> (name_of fn, gtype_of ft) | _ -> failwith "field") fs)
      | _ -> failwith "te entry") ts
  | _ -> failwith "te"
let typmap_of (x : sx) =
  match x with
  | L (A "tm" :: es) -> List.map (fun e -> match e with L [k; t] -> (name_of k, gtype_of t) | _ -> failwith "tm entry") es
  | _ -> failwith "tm"

let utf8_of_runes (rs : Model.z list) : string =
  let b = Buffer.create 16 in
  List.iter (fun r -> Buffer.add_utf_8_uchar b (Uchar.of_int (int_of_z r))) rs;
  Buffer.contents b
let kind_name k = match k with
  | KInt -> "int" | KInt8 -> "int8" | KInt16 -> "int16" | KInt32 -> "int32" | KInt64 -> "int64"
  | KUint -> "uint" | KUint8 -> "uint8" | KUint16 -> "uint16" | KUint32 -> "uint32" | KUint64 -> "uint64"
let rec type_str (t : gtype) : string =
  match t with
  | TBool -> "bool" | TInt k -> kind_name k | TF32 -> "float32" | TF64 -> "float64" | TStr -> "string"
  | TTime -> "time" | TBytes -> "bytes" | TStruct n -> utf8_of_runes n | TPtr t -> "*" ^ type_str t
  | TSlice t -> "[]" ^ type_str t | TMap (k, v) -> "map[" ^ type_str k ^ "]" ^ type_str v | TIface -> "iface" | TOther -> "other"

let print_dval (heap : rcell list) (root : dval) : string =
  let ids : (int, int) Hashtbl.t = Hashtbl.create 16 in
  let rec go b (v : dval) =
    match v with
    | DNil -> Buffer.add_string b "nil"
    | DBool x -> Buffer.add_string b (if x then "true" else "false")
    | DInt (k, z) -> Buffer.add_string b ("(" ^ kind_name k ^ " " ^ hex_of_z z ^ ")")
    | DF32 x -> Buffer.add_string b (if is_nan32 x then "(float32 nan)" else "(float32 " ^ hex_of_z x ^ ")")
    | DF64 x -> Buffer.add_string b (if is_nan64 x then "(float64 nan)" else "(float64 " ^ hex_of_z x ^ ")")
    | DStr rs -> Buffer.add_string b ("S(" ^ string_of_runes rs ^ ")")
    | DBytes bs -> Buffer.add_string b ("B(" ^ hex_of_bytes bs ^ ")")
    | DTime (s, n) -> Buffer.add_string b ("(time " ^ hex_of_z s ^ " " ^ hex_of_z n ^ ")")
    | DPtr (r, ty) ->
      let r = int_of_nat r in
      (match Hashtbl.find_opt ids r with
       | Some id -> Buffer.add_string b ("#" ^ string_of_int id)
       | None ->
         let id = Hashtbl.length ids in
         Hashtbl.add ids r id;
         Buffer.add_string b ("(#" ^ string_of_int id ^ "=");
         (match List.nth_opt heap r with
          | Some (RObj (n, Some fs)) -> go b (DStructV (n, fs))
          | _ -> Buffer.add_string b "?incomplete");
         Buffer.add_string b ")")
    | DStructV (ty, fs) ->
      Buffer.add_string b (utf8_of_runes ty ^ "{");
      List.iteri (fun i (n, x) -> if i > 0 then Buffer.add_char b ' '; Buffer.add_string b (utf8_of_runes n ^ ":"); go b x) fs;
      Buffer.add_string b "}"
    | DSlice (e, items) ->
      Buffer.add_string b ("[" ^ type_str e ^ ":");
      List.iter (fun x -> Buffer.add_char b ' '; go b x) items;
      Buffer.add_string b "]"
    | DMapV (k, v, es) ->
      Buffer.add_string b ("m[" ^ type_str k ^ " " ^ type_str v ^ ":");
      let keyed = List.map (fun (kk, vv) ->
        let kb = Buffer.create 16 in
        let saved = Hashtbl.copy ids in
        Hashtbl.reset ids; go kb kk; Hashtbl.reset ids; Hashtbl.iter (Hashtbl.add ids) saved;
        (Buffer.contents kb, vv)) es in
      let sorted = List.sort (fun (a, _) (c, _) -> compare a c) keyed in
      List.iter (fun (ks, vv) -> Buffer.add_string b (" " ^ ks ^ "=>"); go b vv) sorted;
      Buffer.add_string b "]" in
  let b = Buffer.create 256 in
  go b root; Buffer.contents b


(* ---- extraction model (C16) ---- *)
let nat_a a = match a with A s -> nat_of_int (int_of_string s) | _ -> failwith "nat"
let tkind_of (x : sx) : tkind =
  match x with
  | A "r" -> KRaw | A "if" -> KIface
  | L [A "p"; e] -> KPtr (nat_a e)
  | L [A "sl"; e] -> KSlice (nat_a e)
  | L [A "ar"; n; e] -> KArray (nat_a n, nat_a e)
  | L [A "mp"; k; v] -> KMap (nat_a k, nat_a v)
  | L (A "st" :: fs) -> KStruct (List.map (fun f -> match f with L [A ex; t] -> (ex = "1", nat_a t) | _ -> failwith "sfield") fs)
  | _ -> failwith "tkind"
let tyenv_of (x : sx) : tdesc list =
  match x with
  | L (A "env" :: ds) ->
    List.map (fun d -> match d with
      | L [n; sh; k; c] ->
        { tname = name_of n; tshort = name_of sh; tkd = tkind_of k;
          tcodec = (match c with A "n" -> None | L [A "c"; cn] -> Some (name_of cn) | _ -> failwith "codec") }
      | _ -> failwith "tdesc") ds
  | _ -> failwith "env"
let xheap_of (x : sx) : xnode list =
  match x with
  | L (A "heap" :: ns) ->
    List.map (fun n -> match n with
      | L [t; b] ->
        { xty = nat_a t;
          xbd = (match b with
                 | A "r" -> XRaw | A "nil" -> XNil
                 | L [A "p"; a] -> XPtr (nat_a a)
                 | L [A "i"; a] -> XIface (nat_a a)
                 | L (A "l" :: l) -> XList (List.map nat_a l)
                 | L (A "m" :: es) -> XMap (List.map (fun e -> match e with L [k; v] -> (nat_a k, nat_a v) | _ -> failwith "mentry") es)
                 | L (A "s" :: l) -> XStruct (List.map nat_a l)
                 | _ -> failwith "xbody") }
      | _ -> failwith "xnode") ns
  | _ -> failwith "heap"
let print_maps (tm : (Model.z list * nat) list) (nm : (Model.z list * Model.z list) list) : string =
  let a = List.sort compare (List.map (fun (k, t) -> string_of_runes k ^ "=" ^ string_of_int (int_of_nat t)) tm) in
  let b = List.sort compare (List.map (fun (k, v) -> string_of_runes k ^ "=" ^ string_of_runes v) nm) in
  "tm[" ^ String.concat " " a ^ "] nm[" ^ String.concat " " b ^ "]"

let three_sx (rest : string) =
  (* "(te ...) (tm ...) hex" *)
  let n = String.length rest in
  let last_sp = String.rindex rest ' ' in
  let hex = String.sub rest (last_sp + 1) (n - last_sp - 1) in
  match parse_sx ("(" ^ String.sub rest 0 last_sp ^ ")") with
  | L [a; b] -> (a, b, hex)
  | _ -> failwith "expected (te) (tm) hex"

let handle (line : string) : string =
  let sp = try String.index line ' ' with Not_found -> String.length line in
  let cmd = String.sub line 0 sp in
  let rest = if sp < String.length line then String.sub line (sp + 1) (String.length line - sp - 1) else "" in
  match cmd with
  | "enc" ->
    let (nm, v) = two_sx rest in
    res_str (fun bs -> "ok " ^ hex_of_bytes bs) (encode (namemap_of nm) (gval_of v))
  | "encw" ->   (* the sizes of the Write calls *)
    let (nm, v) = two_sx rest in
    res_str (fun ws -> "ok " ^ String.concat "," (List.map (fun w -> string_of_int (List.length w)) ws)) (encode_writes (namemap_of nm) (gval_of v))
  | "dec" ->
    let (te, tm, hex) = three_sx rest in
    let bs = bytes_of_hex hex in
    (match decode (tenv_of te) (typmap_of tm) bs with
     | Ok ((v, r), st) -> Printf.sprintf "ok %s %d" (print_dval st.dheap v) (List.length bs - List.length r)
     | Err _ -> "err"
     | Panic -> "unmodelled"
     | Fuel -> "fuel")
  | "xtr" ->
    (match parse_sx ("(" ^ rest ^ ")") with
     | L [bi; env; heap; root] ->
       let r = (match root with A "none" -> None | a -> Some (nat_a a)) in
       (match extract (namemap_of bi) (tyenv_of env) (xheap_of heap) r with
        | Ok st -> "ok " ^ print_maps st.xtm st.xnm
        | Err _ -> "err" | Panic -> "unmodelled" | Fuel -> "fuel")
     | _ -> failwith "xtr")
  | "tmof" ->
    (match parse_sx ("(" ^ rest ^ ")") with
     | L [env; t] ->
       (match type_map_of (tyenv_of env) (nat_a t) with
        | Ok tm -> "ok tm[" ^ String.concat " " (List.sort compare (List.map (fun (k, t) -> string_of_runes k ^ "=" ^ string_of_int (int_of_nat t)) tm)) ^ "]"
        | Err _ -> "err" | Panic -> "unmodelled" | Fuel -> "fuel")
     | _ -> failwith "tmof")
  | "rootelem" -> string_of_runes (array_root_elem_name (runes_of_string rest))
  | "lower" -> string_of_runes (lower_name (runes_of_string rest))
  | "cap" -> string_of_runes (capitalize_name (runes_of_string rest))
  | _ -> "unknown-case " ^ line
