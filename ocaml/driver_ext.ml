let handle line = "unknown-case " ^ line
