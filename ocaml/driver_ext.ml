(* structural cases: s-expressions of gval, name maps, type environments *)
open Model
open Util

type sx = A of string | L of sx list

let parse_sx (s : string) : sx =
  let n = String.length s in
  let pos = ref 0 in
  let rec skip () = if !pos < n && s.[!pos] = ' ' then (incr pos; skip ()) in
  let rec one () =
    skip ();
    if !pos >= n then failwith "sexp: eof";
    if s.[!pos] = '(' then begin
      incr pos;
      let items = ref [] in
      let rec loop () =
        skip ();
        if !pos >= n then failwith "sexp: unclosed";
        if s.[!pos] = ')' then incr pos else (items := one () :: !items; loop ()) in
      loop ();
      L (List.rev !items)
    end else begin
      let st = !pos in
      while !pos < n && s.[!pos] <> ' ' && s.[!pos] <> '(' && s.[!pos] <> ')' do incr pos done;
      A (String.sub s st (!pos - st))
    end in
  one ()

let name_of a = match a with A s -> runes_of_string s | _ -> failwith "name"
let z_of a = match a with A s -> z_of_hex s | _ -> failwith "z"
let zi a = match a with A s -> z_of_int (int_of_string s) | _ -> failwith "int"
let rk s = match s with "st" -> RStruct | "sl" -> RSlice | "mp" -> RMap | _ -> failwith "rkind"
(* struct/slice/map ids of different kinds never collide: 4*id + kind code; 0 stays 0 *)
let addr_of kind a =
  let i = (match a with A s -> int_of_string s | _ -> failwith "addr") in
  if i = 0 then Z0 else z_of_int (4 * i + (match kind with RStruct -> 1 | RSlice -> 2 | RMap -> 3))

let rec gval_of (x : sx) : gval =
  match x with
  | A "N" -> VNil
  | A "U" -> VUnexported
  | A "X" -> VBad
  | L [A "b"; A "1"] -> VBool true
  | L [A "b"; A "0"] -> VBool false
  | L [A "i"; A k; v] -> VInt (Driver_kinds.kind_of_string k, z_of v)
  | L [A "f32"; v] -> VF32 (z_of v)
  | L [A "f64"; v] -> VF64 (z_of v)
  | L [A "s"; v] -> VStr (name_of v)
  | L [A "bin"; A h] -> VBytes (bytes_of_hex h)
  | L [A "t"; s; n] -> VTime (z_of s, z_of n)
  | L (A "st" :: a :: ty :: fields) ->
    VStruct (addr_of RStruct a, name_of ty,
             List.map (fun f -> match f with L [n; v] -> (name_of n, gval_of v) | _ -> failwith "field") fields)
  | L (A "sl" :: a :: ty :: items) -> VSlice (addr_of RSlice a, name_of ty, List.map gval_of items)
  | L (A "mp" :: a :: ty :: es) ->
    VMap (addr_of RMap a, name_of ty, List.map (fun e -> match e with L [k; v] -> (gval_of k, gval_of v) | _ -> failwith "entry") es)
  | L [A "seen"; A k; a] -> VSeen (rk k, addr_of (rk k) a)
  | _ -> failwith "gval"

let namemap_of (x : sx) =
  match x with
  | L (A "nm" :: es) -> List.map (fun e -> match e with L [k; v] -> (name_of k, name_of v) | _ -> failwith "nm entry") es
  | _ -> failwith "nm"

(* "cmd (nm ...) (gval)" -> the two s-expressions after the command word *)
let two_sx (rest : string) =
  match parse_sx ("(" ^ rest ^ ")") with
  | L [a; b] -> (a, b)
  | _ -> failwith "expected two s-expressions"

let handle (line : string) : string =
  let sp = try String.index line ' ' with Not_found -> String.length line in
  let cmd = String.sub line 0 sp in
  let rest = if sp < String.length line then String.sub line (sp + 1) (String.length line - sp - 1) else "" in
  match cmd with
  | "enc" ->
    let (nm, v) = two_sx rest in
    res_str (fun bs -> "ok " ^ hex_of_bytes bs) (encode (namemap_of nm) (gval_of v))
  | "encw" ->   (* the sizes of the Write calls *)
    let (nm, v) = two_sx rest in
    res_str (fun ws -> "ok " ^ String.concat "," (List.map (fun w -> string_of_int (List.length w)) ws)) (encode_writes (namemap_of nm) (gval_of v))
  | "rootelem" -> string_of_runes (array_root_elem_name (runes_of_string rest))
  | "lower" -> string_of_runes (lower_name (runes_of_string rest))
  | _ -> "unknown-case " ^ line
