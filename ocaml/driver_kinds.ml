open Model
let kind_of_string s = match s with
  | "int" -> KInt | "int8" -> KInt8 | "int16" -> KInt16 | "int32" -> KInt32 | "int64" -> KInt64
  | "uint" -> KUint | "uint8" -> KUint8 | "uint16" -> KUint16 | "uint32" -> KUint32 | "uint64" -> KUint64
  | _ -> failwith ("kind " ^ s)
