(* helpers shared by the drivers: hex <-> Z, bytes, printing *)
open Model

let rec pos_of_int n = if n = 1 then XH else if n land 1 = 0 then XO (pos_of_int (n lsr 1)) else XI (pos_of_int (n lsr 1))
let z_of_int n = if n = 0 then Z0 else if n > 0 then Zpos (pos_of_int n) else Zneg (pos_of_int (-n))
let z16 = z_of_int 16
let z_of_hex s =
  let neg = String.length s > 0 && s.[0] = '-' in
  let s = if neg then String.sub s 1 (String.length s - 1) else s in
  let acc = ref Z0 in
  String.iter (fun c ->
    let d = match c with '0'..'9' -> Char.code c - 48 | 'a'..'f' -> Char.code c - 87 | 'A'..'F' -> Char.code c - 55
                       | _ -> failwith ("bad hex " ^ s) in
    acc := Z.add (Z.mul !acc z16) (z_of_int d)) s;
  if neg then Z.opp !acc else !acc
let rec bits_of_pos p = match p with XH -> [1] | XO q -> 0 :: bits_of_pos q | XI q -> 1 :: bits_of_pos q
let hex_of_pos p =
  let bits = bits_of_pos p in
  let rec go bits = match bits with
    | [] -> []
    | a :: b :: c :: d :: r -> (a + 2*b + 4*c + 8*d) :: go r
    | l -> [List.fold_right (fun x acc -> x + 2*acc) l 0] in
  let ds = List.rev (go bits) in
  String.concat "" (List.map (fun d -> String.make 1 "0123456789abcdef".[d]) ds)
let hex_of_z z = match z with Z0 -> "0" | Zpos p -> hex_of_pos p | Zneg p -> "-" ^ hex_of_pos p
let rec int_of_pos p = match p with XH -> 1 | XO q -> 2 * int_of_pos q | XI q -> 2 * int_of_pos q + 1
let int_of_z z = match z with Z0 -> 0 | Zpos p -> int_of_pos p | Zneg p -> - (int_of_pos p)
let rec int_of_nat n = match n with O -> 0 | S m -> 1 + int_of_nat m
let rec nat_of_int n = if n <= 0 then O else S (nat_of_int (n - 1))

let bytes_of_hex s =
  if s = "-" then [] else begin
    let n = String.length s / 2 in
    List.init n (fun i -> z_of_int (int_of_string ("0x" ^ String.sub s (2*i) 2)))
  end
let hex_of_bytes bs =
  if bs = [] then "-" else String.concat "" (List.map (fun b -> Printf.sprintf "%02x" (int_of_z b land 255)) bs)

let runes_of_string s = if s = "-" then [] else List.map z_of_hex (String.split_on_char ',' s)
let string_of_runes rs = if rs = [] then "-" else String.concat "," (List.map hex_of_z rs)

let rec print_hval b (h : hval) =
  let names rs = if rs = [] then "-" else String.concat "," (List.map hex_of_z rs) in
  match h with
  | HNull -> Buffer.add_string b "N"
  | HBool true -> Buffer.add_string b "T"
  | HBool false -> Buffer.add_string b "F"
  | HInt z -> Buffer.add_string b ("I" ^ hex_of_z z)
  | HLong z -> Buffer.add_string b ("L" ^ hex_of_z z)
  | HDouble z -> Buffer.add_string b (if is_nan64 z then "Dnan" else "D" ^ hex_of_z z)
  | HDate z -> Buffer.add_string b ("d" ^ hex_of_z z)
  | HString rs -> Buffer.add_string b ("S(" ^ names rs ^ ")")
  | HBinary bs -> Buffer.add_string b ("B(" ^ hex_of_bytes bs ^ ")")
  | HRef z -> Buffer.add_string b ("R" ^ hex_of_z z)
  | HList (ty, items) ->
    Buffer.add_string b "l["; (match ty with Some t -> Buffer.add_string b (names t) | None -> Buffer.add_string b "~");
    Buffer.add_string b "](";
    List.iteri (fun i it -> if i > 0 then Buffer.add_char b ' '; print_hval b it) items;
    Buffer.add_string b ")"
  | HMap (ty, es) ->
    Buffer.add_string b "m["; (match ty with Some t -> Buffer.add_string b (names t) | None -> Buffer.add_string b "~");
    Buffer.add_string b "](";
    List.iteri (fun i (k, v) -> if i > 0 then Buffer.add_char b ' '; print_hval b k; Buffer.add_char b ' '; print_hval b v) es;
    Buffer.add_string b ")"
  | HObject (cls, fs) ->
    Buffer.add_string b ("o[" ^ names cls ^ "](");
    List.iteri (fun i (n, v) -> if i > 0 then Buffer.add_char b ' '; Buffer.add_string b (names n ^ "="); print_hval b v) fs;
    Buffer.add_string b ")"
let hval_str h = let b = Buffer.create 256 in print_hval b h; Buffer.contents b

(* successive values on one stream, sharing the parser state *)
let parse_seq bs =
  let rec go st bs acc =
    if bs = [] then "ok " ^ String.concat " ; " (List.rev acc) else
    match hparse st bs with
    | Ok ((v, r), st') -> go st' r (hval_str v :: acc)
    | Err _ -> "err after " ^ string_of_int (List.length acc)
    | Panic -> "panic" | Fuel -> "fuel" in
  go pstate0 bs []

let res_str f r = match r with
  | Ok a -> f a
  | Err _ -> "err"
  | Panic -> "panic"
  | Fuel -> "fuel"

let kind_of_string = Driver_kinds.kind_of_string

let num_rest (v, r) = Printf.sprintf "ok %s %d" (hex_of_z v) (List.length r)

