package main

import (
	"bytes"
	"fmt"
	"go/ast"
	"go/token"
	"go/types"
	"sort"
	"strings"
)

// structural facts, each a closed Gallina value over strings

func pairList(l [][2]string) string {
	q := []string{}
	for _, p := range l {
		q = append(q, "("+coqStr(p[0])+", "+coqStr(p[1])+")")
	}
	return "[" + strings.Join(q, "; ") + "]"
}

func isErrorType(t types.Type) bool {
	return t != nil && t.String() == "error"
}

// result types of a call expression
func callResults(call *ast.CallExpr) []types.Type {
	tv, ok := info.Types[call]
	if !ok || tv.Type == nil {
		return nil
	}
	if tup, ok := tv.Type.(*types.Tuple); ok {
		r := []types.Type{}
		for i := 0; i < tup.Len(); i++ {
			r = append(r, tup.At(i).Type())
		}
		return r
	}
	return []types.Type{tv.Type}
}

func calleeName(call *ast.CallExpr) string {
	switch f := call.Fun.(type) {
	case *ast.Ident:
		return f.Name
	case *ast.SelectorExpr:
		// drop the receiver variable, keep field path: e.writer.Write -> writer.Write ; e.writeBT -> writeBT
		parts := []string{f.Sel.Name}
		x := f.X
		for {
			if s, ok := x.(*ast.SelectorExpr); ok {
				parts = append([]string{s.Sel.Name}, parts...)
				x = s.X
				continue
			}
			if id, ok := x.(*ast.Ident); ok {
				if obj := info.Uses[id]; obj != nil {
					if _, isPkg := obj.(*types.PkgName); isPkg {
						parts = append([]string{id.Name}, parts...)
					}
				}
			}
			break
		}
		return strings.Join(parts, ".")
	}
	return "?"
}

func rootIdent(e ast.Expr) *ast.Ident {
	for {
		switch x := e.(type) {
		case *ast.Ident:
			return x
		case *ast.SelectorExpr:
			e = x.X
		case *ast.IndexExpr:
			e = x.X
		case *ast.StarExpr:
			e = x.X
		case *ast.ParenExpr:
			e = x.X
		case *ast.SliceExpr:
			e = x.X
		default:
			return nil
		}
	}
}

func isPkgVar(id *ast.Ident, pkg *types.Package) bool {
	if id == nil {
		return false
	}
	obj := info.Uses[id]
	if obj == nil {
		obj = info.Defs[id]
	}
	v, ok := obj.(*types.Var)
	return ok && v.Parent() == pkg.Scope()
}

func facts(b *bytes.Buffer, pkg *types.Package, files []*ast.File, decls map[string]*ast.FuncDecl) {
	// 1. struct fields
	for _, sn := range []string{"Encoder", "Decoder", "goHessian", "objectPool"} {
		var fl []string
		if obj := pkg.Scope().Lookup(sn); obj != nil {
			if st, ok := obj.Type().Underlying().(*types.Struct); ok {
				for i := 0; i < st.NumFields(); i++ {
					fl = append(fl, st.Field(i).Name())
				}
			}
		}
		fmt.Fprintf(b, "Definition fields_%s : list string := %s.\n", sn, coqStrList(fl))
	}
	fmt.Fprintln(b)

	names := []string{}
	for n := range decls {
		names = append(names, n)
	}
	sort.Strings(names)

	// 2. fields a method assigns directly on its receiver (e.f = ...)
	var assigns [][2]string
	var assignRhs [][2]string
	var fieldReads [][2]string
	// 3. ordered callees of every function
	var calls [][2]string
	// 4. calls whose error result is dropped
	var dropped [][2]string
	// 5. writes to package-level variables / to maps held in shared fields
	var pkgWrites [][2]string
	var sharedMapWrites [][2]string
	// 6. channel operations
	var chanOps []string
	// 7. recover sites
	var recovers []string
	// 8. go statements
	var goStmts []string

	for _, n := range names {
		fd := decls[n]
		if fd.Body == nil {
			continue
		}
		recv := ""
		if fd.Recv != nil && len(fd.Recv.List) == 1 && len(fd.Recv.List[0].Names) == 1 {
			recv = fd.Recv.List[0].Names[0].Name
		}
		noteWrite := func(lhs ast.Expr) {
			id := rootIdent(lhs)
			if id != nil && isPkgVar(id, pkg) {
				pkgWrites = append(pkgWrites, [2]string{n, id.Name})
			}
			if ix, ok := lhs.(*ast.IndexExpr); ok {
				if sel, ok := ix.X.(*ast.SelectorExpr); ok {
					if tv, ok := info.Types[ix.X]; ok {
						if _, isMap := tv.Type.Underlying().(*types.Map); isMap {
							sharedMapWrites = append(sharedMapWrites, [2]string{n, sel.Sel.Name})
						}
					}
				}
			}
		}
		var selectDefault []bool
		var walk func(node ast.Node) bool
		walk = func(node ast.Node) bool {
			switch s := node.(type) {
			case *ast.SelectStmt:
				hasDef := false
				for _, c := range s.Body.List {
					if cc, ok := c.(*ast.CommClause); ok && cc.Comm == nil {
						hasDef = true
					}
				}
				selectDefault = append(selectDefault, hasDef)
				for _, c := range s.Body.List {
					ast.Inspect(c, walk)
				}
				selectDefault = selectDefault[:len(selectDefault)-1]
				return false
			case *ast.SendStmt:
				in := len(selectDefault) > 0 && selectDefault[len(selectDefault)-1]
				chanOps = append(chanOps, fmt.Sprintf("(%s, %s, %v)", coqStr(n), coqStr("send"), in))
			case *ast.UnaryExpr:
				if s.Op == token.ARROW {
					in := len(selectDefault) > 0 && selectDefault[len(selectDefault)-1]
					chanOps = append(chanOps, fmt.Sprintf("(%s, %s, %v)", coqStr(n), coqStr("recv"), in))
				}
			case *ast.GoStmt:
				goStmts = append(goStmts, n)
			case *ast.AssignStmt:
				for i, lhs := range s.Lhs {
					if s.Tok != token.DEFINE {
						noteWrite(lhs)
						if sel, ok := lhs.(*ast.SelectorExpr); ok && recv != "" {
							if id, ok := sel.X.(*ast.Ident); ok && id.Name == recv {
								assigns = append(assigns, [2]string{n, sel.Sel.Name})
								if i < len(s.Rhs) {
									assignRhs = append(assignRhs, [2]string{n + "." + sel.Sel.Name, strings.ReplaceAll(strings.Join(strings.Fields(types.ExprString(s.Rhs[i])), " "), "…", "...")})
								}
							}
						}
					}
					// dropped error: blank identifier in the position of an error result
					if id, ok := lhs.(*ast.Ident); ok && id.Name == "_" && len(s.Rhs) == 1 {
						if call, ok := s.Rhs[0].(*ast.CallExpr); ok {
							rs := callResults(call)
							if i < len(rs) && isErrorType(rs[i]) {
								dropped = append(dropped, [2]string{n, calleeName(call)})
							}
						}
					}
				}
				// append to a package-level slice: x = append(x, ...) is caught by noteWrite
			case *ast.IncDecStmt:
				noteWrite(s.X)
			case *ast.ExprStmt:
				if call, ok := s.X.(*ast.CallExpr); ok {
					for _, r := range callResults(call) {
						if isErrorType(r) {
							dropped = append(dropped, [2]string{n, calleeName(call)})
						}
					}
				}
			case *ast.SelectorExpr:
				if s.Sel.Name == "err" {
					if tv, ok := info.Types[s.X]; ok && tv.Type != nil && strings.Contains(tv.Type.String(), "stickyWriter") {
						fieldReads = append(fieldReads, [2]string{n, "stickyWriter.err"})
					}
				}
			case *ast.CallExpr:
				if ftv, ok := info.Types[s.Fun]; ok && ftv.IsType() {
					return true
				}
				cn := calleeName(s)
				calls = append(calls, [2]string{n, cn})
				if cn == "recover" {
					recovers = append(recovers, n)
				}
			}
			return true
		}
		ast.Inspect(fd.Body, walk)
	}
	// package-level var initialisers run at init; assignments inside init() are reported under "init"
	fmt.Fprintf(b, "Definition receiver_assigns : list (string * string) :=\n  %s.\n\n", pairList(assigns))
	fmt.Fprintf(b, "Definition receiver_assign_rhs : list (string * string) :=\n  %s.\n\n", pairList(assignRhs))
	fmt.Fprintf(b, "Definition field_reads : list (string * string) :=\n  %s.\n\n", pairList(fieldReads))
	fmt.Fprintf(b, "Definition calls : list (string * string) :=\n  %s.\n\n", pairList(calls))
	fmt.Fprintf(b, "Definition dropped_errors : list (string * string) :=\n  %s.\n\n", pairList(dropped))
	fmt.Fprintf(b, "Definition pkg_var_writes : list (string * string) :=\n  %s.\n\n", pairList(pkgWrites))
	fmt.Fprintf(b, "Definition shared_map_writes : list (string * string) :=\n  %s.\n\n", pairList(sharedMapWrites))
	fmt.Fprintf(b, "Definition chan_ops : list (string * string * bool) :=\n  [%s].\n\n", strings.Join(chanOps, "; "))
	fmt.Fprintf(b, "Definition recover_sites : list string := %s.\n\n", coqStrList(recovers))
	fmt.Fprintf(b, "Definition go_stmts : list string := %s.\n\n", coqStrList(goStmts))

	// package-level variables and whether their declared type is mutable shared state (map/slice/pointer/chan)
	var pvars [][2]string
	for _, nm := range pkg.Scope().Names() {
		if v, ok := pkg.Scope().Lookup(nm).(*types.Var); ok {
			pvars = append(pvars, [2]string{nm, v.Type().String()})
		}
	}
	fmt.Fprintf(b, "Definition pkg_vars : list (string * string) :=\n  %s.\n", pairList(pvars))
}
