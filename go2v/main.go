// go2v: translate parts of the Go package in <dir> into Gallina, on every run.
//
//   go2v <repo-dir> <out-dir>
//
// writes <out-dir>/GoConsts.v (every package-level integer constant, exact value),
// <out-dir>/GoLeaf.v (a whitelist of straight-line integer/boolean functions, typed
// translation with wrap/swrap inserted wherever Go arithmetic could leave the range of
// its type) and <out-dir>/GoFacts.v (structural facts about the source: struct fields,
// what Reset assigns, which calls drop an error result, writes to package-level
// variables, channel operations of the pool, recover() sites).  A file is rewritten only
// when its content changed, so an unchanged tree costs no recompilation.
//
// Invariant of the expression translation: the translation of an expression of integer
// type T is a Z term whose value lies in the range of T.
// A function outside the supported subset fails closed: it is reported in
// GoLeaf.v as a comment and in the `unsupported` list of GoFacts.v.
package main

import (
	"bytes"
	"fmt"
	"go/ast"
	"go/constant"
	"go/importer"
	"go/parser"
	"go/token"
	"go/types"
	"os"
	"path/filepath"
	"sort"
	"strings"
)

var info *types.Info
var fset *token.FileSet
var failed string

func fail(format string, a ...interface{}) string {
	if failed == "" {
		failed = fmt.Sprintf(format, a...)
	}
	return "(*UNSUPPORTED*)"
}

func coqName(n string) string { return "g" + n } // Go names may start with '_'

func wrapFor(t types.Type) (string, bool) {
	b, ok := t.Underlying().(*types.Basic)
	if !ok {
		return "", false
	}
	switch b.Kind() {
	case types.Int8:
		return "swrap 8", true
	case types.Int16:
		return "swrap 16", true
	case types.Int32:
		return "swrap 32", true
	case types.Int64, types.Int:
		return "swrap 64", true
	case types.Uint8:
		return "wrap 8", true
	case types.Uint16:
		return "wrap 16", true
	case types.Uint32:
		return "wrap 32", true
	case types.Uint64, types.Uint:
		return "wrap 64", true
	case types.UntypedInt, types.UntypedRune:
		return "", true
	}
	return "", false
}

func floatKind(t types.Type) int { // 0 = not a float, 32, 64
	if t == nil {
		return 0
	}
	b, ok := t.Underlying().(*types.Basic)
	if !ok {
		return 0
	}
	switch b.Kind() {
	case types.Float32:
		return 32
	case types.Float64, types.UntypedFloat:
		return 64
	}
	return 0
}

func zlit(v constant.Value) string {
	s := v.ExactString()
	if strings.HasPrefix(s, "-") {
		return "(" + s + ")"
	}
	return s
}

func expr(e ast.Expr) string {
	tv := info.Types[e]
	if tv.Value != nil { // constant expression: folded by the type checker
		switch tv.Value.Kind() {
		case constant.Int:
			return zlit(tv.Value)
		case constant.Bool:
			return fmt.Sprint(constant.BoolVal(tv.Value))
		}
	}
	switch e := e.(type) {
	case *ast.ParenExpr:
		return expr(e.X)
	case *ast.Ident:
		return coqName(e.Name)
	case *ast.BinaryExpr:
		x, y := expr(e.X), expr(e.Y)
		w, isInt := wrapFor(tv.Type)
		wr := func(s string) string {
			if w == "" {
				return "(" + s + ")"
			}
			return "(" + w + " (" + s + "))"
		}
		switch e.Op {
		case token.LAND:
			return "(andb " + x + " " + y + ")"
		case token.LOR:
			return "(orb " + x + " " + y + ")"
		case token.LEQ:
			return "(" + x + " <=? " + y + ")"
		case token.LSS:
			return "(" + x + " <? " + y + ")"
		case token.GEQ:
			return "(" + y + " <=? " + x + ")"
		case token.GTR:
			return "(" + y + " <? " + x + ")"
		case token.EQL:
			if fk := floatKind(info.Types[e.X].Type); fk == 64 {
				return "(f64_eq " + x + " " + y + ")"
			} else if fk != 0 {
				return fail("float32 comparison")
			}
			return "(" + x + " =? " + y + ")"
		case token.NEQ:
			if floatKind(info.Types[e.X].Type) != 0 {
				return fail("float comparison")
			}
			return "(negb (" + x + " =? " + y + "))"
		}
		if floatKind(info.Types[e.X].Type) != 0 {
			return fail("float operation %s", e.Op)
		}
		if !isInt {
			return fail("binary op %s at non-integer type %s", e.Op, tv.Type)
		}
		switch e.Op {
		case token.ADD:
			return wr(x + " + " + y)
		case token.SUB:
			return wr(x + " - " + y)
		case token.MUL:
			return wr(x + " * " + y)
		case token.SHR:
			// arithmetic on signed, logical on unsigned: both are floor division of the in-range value
			return "(Z.shiftr " + x + " " + y + ")"
		case token.SHL:
			return wr("Z.shiftl " + x + " " + y)
		case token.AND:
			return "(Z.land " + x + " " + y + ")"
		case token.OR:
			return "(Z.lor " + x + " " + y + ")"
		case token.QUO:
			return wr("Z.quot " + x + " " + y)
		case token.REM:
			return wr("Z.rem " + x + " " + y)
		}
		return fail("binary op %s", e.Op)
	case *ast.UnaryExpr:
		if e.Op == token.NOT {
			return "(negb " + expr(e.X) + ")"
		}
		if e.Op == token.SUB {
			w, ok := wrapFor(tv.Type)
			if ok {
				if w == "" {
					return "(- " + expr(e.X) + ")"
				}
				return "(" + w + " (- " + expr(e.X) + "))"
			}
		}
		return fail("unary op %s", e.Op)
	case *ast.CallExpr:
		if ftv, ok := info.Types[e.Fun]; ok && ftv.IsType() && len(e.Args) == 1 &&
			(floatKind(ftv.Type) != 0 || floatKind(info.Types[e.Args[0]].Type) != 0) { // conversions involving floats
			to, from := floatKind(ftv.Type), floatKind(info.Types[e.Args[0]].Type)
			arg := expr(e.Args[0])
			toInt, _ := wrapFor(ftv.Type)
			fromInt, _ := wrapFor(info.Types[e.Args[0]].Type)
			switch {
			case to == from:
				return arg
			case to == 32 && from == 64:
				return "(narrow " + arg + ")"
			case to == 64 && from == 32:
				return "(widen " + arg + ")"
			case from == 64 && toInt == "swrap 64" && ftv.Type.String() == "int64":
				return "(trunc64 " + arg + ")"
			case to == 64 && fromInt == "swrap 64" && info.Types[e.Args[0]].Type.String() == "int64":
				return "(of_int64 " + arg + ")"
			}
			return fail("conversion %s -> %s", info.Types[e.Args[0]].Type, ftv.Type)
		}
		if sel, ok := e.Fun.(*ast.SelectorExpr); ok && len(e.Args) == 0 {
			if id, ok := sel.X.(*ast.Ident); ok && info.Types[sel.X].Type != nil && info.Types[sel.X].Type.String() == "time.Time" {
				// a time.Time is modelled as the pair (seconds since the epoch, nanoseconds in [0,1e9))
				switch sel.Sel.Name {
				case "Unix":
					return coqName(id.Name) + "_sec"
				case "Nanosecond":
					return coqName(id.Name) + "_nsec"
				case "IsZero":
					return "(time_is_zero " + coqName(id.Name) + "_sec " + coqName(id.Name) + "_nsec)"
				}
				return fail("time.Time method %s", sel.Sel.Name)
			}
		}
		if sel, ok := e.Fun.(*ast.SelectorExpr); ok && len(e.Args) == 1 {
			if id, ok := sel.X.(*ast.Ident); ok && id.Name == "math" {
				switch sel.Sel.Name {
				case "Float32bits", "Float64bits", "Float32frombits", "Float64frombits":
					return expr(e.Args[0]) // floats are their bit patterns
				}
			}
		}
		if ftv, ok := info.Types[e.Fun]; ok && ftv.IsType() { // conversion T(x)
			w, ok := wrapFor(ftv.Type)
			if !ok || len(e.Args) != 1 {
				return fail("conversion to %s", ftv.Type)
			}
			if _, ok := wrapFor(info.Types[e.Args[0]].Type); !ok {
				return fail("conversion from %s", info.Types[e.Args[0]].Type)
			}
			if w == "" {
				return expr(e.Args[0])
			}
			return "(" + w + " " + expr(e.Args[0]) + ")"
		}
		if id, ok := e.Fun.(*ast.Ident); ok { // call of another translated function
			args := []string{}
			for _, a := range e.Args {
				args = append(args, expr(a))
			}
			return "(" + coqName(id.Name) + " " + strings.Join(args, " ") + ")"
		}
		return fail("call %s", types.ExprString(e.Fun))
	case *ast.CompositeLit: // []byte{...}
		el := []string{}
		for _, x := range e.Elts {
			el = append(el, expr(x))
		}
		return "[" + strings.Join(el, "; ") + "]"
	}
	return fail("expression %T", e)
}

// a statement list as one Gallina term (every path must end in return)
func stmts(l []ast.Stmt) string {
	if len(l) == 0 {
		return fail("fall off the end")
	}
	switch s := l[0].(type) {
	case *ast.ReturnStmt:
		if len(s.Results) == 2 { // (value, error)
			if id, ok := s.Results[1].(*ast.Ident); ok && id.Name == "nil" {
				return "(Ok " + expr(s.Results[0]) + ")"
			}
			if id, ok := s.Results[0].(*ast.Ident); ok && id.Name == "nil" {
				if call, ok := s.Results[1].(*ast.CallExpr); ok {
					if f, ok := call.Fun.(*ast.Ident); ok && f.Name == "newCodecError" {
						return "(Err ECodec)"
					}
				}
			}
			return fail("two-value return of an unsupported shape")
		}
		if len(s.Results) != 1 {
			return fail("multi-value return")
		}
		return expr(s.Results[0])
	case *ast.IfStmt:
		if s.Init != nil {
			return fail("if with init")
		}
		thenT := stmts(append(append([]ast.Stmt{}, s.Body.List...), l[1:]...))
		var elseT string
		if s.Else != nil {
			switch e := s.Else.(type) {
			case *ast.BlockStmt:
				elseT = stmts(append(append([]ast.Stmt{}, e.List...), l[1:]...))
			case *ast.IfStmt:
				elseT = stmts(append([]ast.Stmt{e}, l[1:]...))
			}
		} else {
			elseT = stmts(l[1:])
		}
		return "(if " + expr(s.Cond) + "\n   then " + thenT + "\n   else " + elseT + ")"
	case *ast.SwitchStmt:
		if s.Init != nil {
			return fail("switch with init")
		}
		var def []ast.Stmt
		type arm struct {
			cond string
			body []ast.Stmt
		}
		arms := []arm{}
		for _, c := range s.Body.List {
			cc := c.(*ast.CaseClause)
			if cc.List == nil {
				def = cc.Body
				continue
			}
			cs := []string{}
			for _, v := range cc.List {
				if s.Tag != nil {
					cs = append(cs, "("+expr(s.Tag)+" =? "+expr(v)+")")
				} else {
					cs = append(cs, expr(v))
				}
			}
			cond := cs[0]
			for _, c2 := range cs[1:] {
				cond = "(orb " + cond + " " + c2 + ")"
			}
			arms = append(arms, arm{cond, cc.Body})
		}
		rest := l[1:]
		var out string
		if def != nil {
			out = stmts(append(append([]ast.Stmt{}, def...), rest...))
		} else {
			out = stmts(rest)
		}
		for i := len(arms) - 1; i >= 0; i-- {
			out = "(if " + arms[i].cond + "\n   then " + stmts(append(append([]ast.Stmt{}, arms[i].body...), rest...)) + "\n   else " + out + ")"
		}
		return out
	case *ast.AssignStmt:
		if s.Tok == token.DEFINE && len(s.Lhs) == 1 && len(s.Rhs) == 1 {
			if id, ok := s.Lhs[0].(*ast.Ident); ok {
				return "(let " + coqName(id.Name) + " := " + expr(s.Rhs[0]) + " in\n   " + stmts(l[1:]) + ")"
			}
		}
		return fail("assignment")
	}
	return fail("statement %T", l[0])
}

// ---------------------------------------------------------------------------------------

var leafWhitelist = []string{
	"intTag", "longTag", "doubleTag", "stringShortTag", "stringMiddleTag", "stringChunkTag", "stringTag", "stringEndTag",
	"binaryShortTag", "binaryChunkTag", "binaryEndTag", "binaryTag", "dateTag", "objectLenTag",
	"listFixedTypedLenTag", "typedListTag", "listFixedUntypedLenTag", "untypedListTag", "refTag",
	"encodeInt", "encodeLong", "encodeDouble", "encodeDate",
}

func writeIfChanged(path string, content []byte) {
	old, err := os.ReadFile(path)
	if err == nil && bytes.Equal(old, content) {
		return
	}
	if err := os.WriteFile(path, content, 0o644); err != nil {
		fmt.Fprintln(os.Stderr, "go2v:", err)
		os.Exit(2)
	}
}

func coqStr(s string) string { return "\"" + strings.ReplaceAll(s, "\"", "\"\"") + "\"" }
func coqStrList(l []string) string {
	q := []string{}
	for _, s := range l {
		q = append(q, coqStr(s))
	}
	return "[" + strings.Join(q, "; ") + "]"
}

func main() {
	if len(os.Args) != 3 {
		fmt.Fprintln(os.Stderr, "usage: go2v <repo-dir> <out-dir>")
		os.Exit(2)
	}
	dir, out := os.Args[1], os.Args[2]
	fset = token.NewFileSet()
	matches, _ := filepath.Glob(filepath.Join(dir, "*.go"))
	sort.Strings(matches)
	var files []*ast.File
	var fileNames []string
	for _, m := range matches {
		if strings.HasSuffix(m, "_test.go") {
			continue
		}
		src, err := os.ReadFile(m)
		if err != nil {
			fmt.Fprintln(os.Stderr, "go2v:", err)
			os.Exit(2)
		}
		// files guarded by the verification build tag are hooks, not the code under study
		if bytes.Contains(src, []byte("//go:build verif")) {
			continue
		}
		f, err := parser.ParseFile(fset, m, src, 0)
		if err != nil {
			fmt.Fprintln(os.Stderr, "go2v: parse error:", err)
			os.Exit(2)
		}
		files = append(files, f)
		fileNames = append(fileNames, filepath.Base(m))
	}
	info = &types.Info{Types: map[ast.Expr]types.TypeAndValue{}, Defs: map[*ast.Ident]types.Object{}, Uses: map[*ast.Ident]types.Object{}, Selections: map[*ast.SelectorExpr]*types.Selection{}}
	conf := types.Config{Importer: importer.ForCompiler(fset, "source", nil), Error: func(error) {}}
	pkg, _ := conf.Check("hessian", fset, files, info)

	// ---- GoConsts.v
	var b bytes.Buffer
	fmt.Fprintln(&b, "(* GENERATED by go2v from the Go source - do not edit *)")
	fmt.Fprintln(&b, "From Coq Require Import ZArith.\nOpen Scope Z_scope.\n")
	var names []string
	for _, n := range pkg.Scope().Names() {
		if c, ok := pkg.Scope().Lookup(n).(*types.Const); ok && c.Val().Kind() == constant.Int {
			names = append(names, n)
		}
	}
	sort.Strings(names)
	for _, n := range names {
		c := pkg.Scope().Lookup(n).(*types.Const)
		fmt.Fprintf(&b, "Definition %s : Z := %s.  (* %s *)\n", coqName(n), zlit(c.Val()), c.Type())
	}
	writeIfChanged(filepath.Join(out, "GoConsts.v"), b.Bytes())

	// ---- GoLeaf.v
	b.Reset()
	fmt.Fprintln(&b, "(* GENERATED by go2v from the Go source - do not edit *)")
	fmt.Fprintln(&b, "From Coq Require Import ZArith List Bool.\nFrom GH Require Import Base.GoSem Base.Result Base.FloatBits Base.TimeSem Gen.GoConsts.\nImport ListNotations.\nOpen Scope Z_scope.\n")
	decls := map[string]*ast.FuncDecl{}
	for fi, f := range files {
		for _, d := range f.Decls {
			if fd, ok := d.(*ast.FuncDecl); ok {
				name := fd.Name.Name
				if name == "init" && fd.Recv == nil { // a package may have several init functions
					name = "init@" + fileNames[fi]
				}
				if fd.Recv != nil && len(fd.Recv.List) == 1 {
					name = recvName(fd.Recv.List[0].Type) + "." + name
				}
				decls[name] = fd
			}
		}
	}
	var unsupported []string
	// dependency closure: package-level functions called from a whitelisted function are
	// translated too, before their callers
	var order []string
	seen := map[string]bool{}
	var visit func(n string)
	visit = func(n string) {
		if seen[n] {
			return
		}
		seen[n] = true
		if fd := decls[n]; fd != nil && fd.Body != nil {
			ast.Inspect(fd.Body, func(node ast.Node) bool {
				if call, ok := node.(*ast.CallExpr); ok {
					if id, ok := call.Fun.(*ast.Ident); ok {
						if _, isFunc := decls[id.Name]; isFunc && id.Name != "newCodecError" {
							if ftv, ok := info.Types[call.Fun]; !ok || !ftv.IsType() {
								visit(id.Name)
							}
						}
					}
				}
				return true
			})
		}
		order = append(order, n)
	}
	for _, n := range leafWhitelist {
		visit(n)
	}
	for _, n := range order {
		fd := decls[n]
		if fd == nil {
			fmt.Fprintf(&b, "(* %s: NOT FOUND *)\n", n)
			unsupported = append(unsupported, n)
			continue
		}
		failed = ""
		params := []string{}
		for _, p := range fd.Type.Params.List {
			for _, id := range p.Names {
				if tv, ok := info.Types[p.Type]; ok && tv.Type.String() == "time.Time" {
					params = append(params, "("+coqName(id.Name)+"_sec "+coqName(id.Name)+"_nsec : Z)")
				} else {
					params = append(params, "("+coqName(id.Name)+" : Z)")
				}
			}
		}
		body := stmts(fd.Body.List)
		if failed != "" {
			fmt.Fprintf(&b, "(* %s: UNSUPPORTED (%s) - covered by correspondence only *)\n\n", n, failed)
			unsupported = append(unsupported, n)
			continue
		}
		fmt.Fprintf(&b, "Definition %s %s :=\n  %s.\n\n", coqName(n), strings.Join(params, " "), body)
	}
	writeIfChanged(filepath.Join(out, "GoLeaf.v"), b.Bytes())

	// ---- GoFacts.v
	b.Reset()
	fmt.Fprintln(&b, "(* GENERATED by go2v from the Go source - do not edit *)")
	fmt.Fprintln(&b, "From Coq Require Import String List.\nImport ListNotations.\nOpen Scope string_scope.\n")
	fmt.Fprintf(&b, "Definition source_files : list string := %s.\n", coqStrList(fileNames))
	fmt.Fprintf(&b, "Definition unsupported_leaves : list string := %s.\n\n", coqStrList(unsupported))
	facts(&b, pkg, files, decls)
	writeIfChanged(filepath.Join(out, "GoFacts.v"), b.Bytes())
}

func recvName(e ast.Expr) string {
	switch e := e.(type) {
	case *ast.StarExpr:
		return recvName(e.X)
	case *ast.Ident:
		return e.Name
	}
	return "?"
}
