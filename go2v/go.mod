module go2v

go 1.23
