From Coq Require Import ZArith Lia Bool.
Open Scope Z_scope.
Ltac Zify.zify_post_hook ::= Z.div_mod_to_equations.

(* float32 / float64 as bit patterns; integer-only model of the two conversions *)
Definition p23 := 8388608. Definition p29 := 536870912. Definition p31 := 2147483648.
Definition p52 := 4503599627370496. Definition p63 := 9223372036854775808.

Definition bitlen (m : Z) : Z := Z.log2 m + 1.   (* m > 0 *)

Definition widen (b : Z) : Z :=
  let s := b / p31 in let e := (b / p23) mod 256 in let m := b mod p23 in
  if e =? 255 then (if m =? 0 then s * p63 + 2047 * p52 else s * p63 + 2047 * p52 + Z.lor (m * p29) (p52 / 2))
  else if e =? 0 then
    (if m =? 0 then s * p63
     else let k := bitlen m in s * p63 + (k + 873) * p52 + (m - 2 ^ (k - 1)) * 2 ^ (53 - k))
  else s * p63 + (e + 896) * p52 + m * p29.

(* round-to-nearest-even of sig / 2^shift *)
Definition rne (sig shift : Z) : Z :=
  let q := sig / 2 ^ shift in let r := sig mod 2 ^ shift in let half := 2 ^ (shift - 1) in
  if (half <? r) || ((r =? half) && Z.odd q) then q + 1 else q.

Definition narrow (b : Z) : Z :=
  let s := b / p63 in let E := (b / p52) mod 2048 in let M := b mod p52 in
  if E =? 2047 then (if M =? 0 then s * p31 + 255 * p23 else s * p31 + 255 * p23 + Z.lor (M / p29) (p23 / 2))
  else if E =? 0 then s * p31
  else
    let x := E - 1023 in let sig := p52 + M in
    if -126 <=? x then
      let r := rne sig 29 in                       (* 2^23 <= r <= 2^24 *)
      let bits := (x + 126) * p23 + r in           (* carry of r = 2^24 flows into the exponent *)
      if 255 * p23 <=? bits then s * p31 + 255 * p23 else s * p31 + bits
    else
      let shift := -97 - x in
      if 55 <? shift then s * p31 else s * p31 + rne sig shift.

Definition is_nan32 b := ((b / p23) mod 256 =? 255) && negb (b mod p23 =? 0).


(* bit-field lemmas: the only place division and modulus are reasoned about *)
Lemma hi_lo k hi lo : 0 <= lo < k -> (hi * k + lo) / k = hi /\ (hi * k + lo) mod k = lo.
Proof.
  intros H. assert (0 < k) by lia. split.
  - rewrite Z.div_add_l by lia. rewrite Z.div_small by lia. lia.
  - rewrite Z.add_comm, Z.mod_add by lia. apply Z.mod_small; lia.
Qed.
Lemma field_hi k hi lo : 0 <= lo < k -> (hi * k + lo) / k = hi. Proof. intros; apply hi_lo; assumption. Qed.
Lemma field_lo k hi lo : 0 <= lo < k -> (hi * k + lo) mod k = lo. Proof. intros; apply hi_lo; assumption. Qed.

Theorem narrow_widen_normal b : 0 <= b < 2 * p31 -> 1 <= (b / p23) mod 256 <= 254 -> narrow (widen b) = b.
Proof.
  intros Hb He. unfold widen.
  set (s := b / p31). set (e := (b / p23) mod 256) in *. set (m := b mod p23).
  assert (Hs : 0 <= s <= 1) by (subst s; unfold p31 in *; lia).
  assert (Hm : 0 <= m < p23) by (subst m; unfold p23; lia).
  assert (Hbd : b = s * p31 + e * p23 + m) by (subst s e m; unfold p31, p23 in *; lia).
  clearbody s e m.
  replace (e =? 255) with false by lia. replace (e =? 0) with false by lia.
  unfold narrow.
  set (w := s * p63 + (e + 896) * p52 + m * p29).
  assert (Blo : 0 <= m * p29 < p52) by (unfold p29, p52, p23 in *; lia).
  assert (H1 : w / p63 = s).
  { subst w. rewrite <- Z.add_assoc. apply field_hi. unfold p63, p52, p29, p23 in *; lia. }
  assert (H2 : (w / p52) mod 2048 = e + 896).
  { replace w with ((s * 2048 + (e + 896)) * p52 + m * p29) by (subst w; unfold p63, p52; ring).
    rewrite field_hi by exact Blo. apply field_lo. lia. }
  assert (H3 : w mod p52 = m * p29).
  { replace w with ((s * 2048 + (e + 896)) * p52 + m * p29) by (subst w; unfold p63, p52; ring).
    apply field_lo. exact Blo. }
  clearbody w. rewrite H1, H2, H3. clear H1 H2 H3 Blo.
  replace (e + 896 =? 2047) with false by lia. replace (e + 896 =? 0) with false by lia.
  cbv zeta. replace (-126 <=? e + 896 - 1023) with true by lia.
  unfold rne. change (2 ^ 29) with p29. change (2 ^ (29 - 1)) with 268435456.
  replace (p52 + m * p29) with ((p23 + m) * p29 + 0) by (unfold p52, p23, p29; ring).
  rewrite field_hi, field_lo by (unfold p29; lia).
  change ((268435456 <? 0) || (0 =? 268435456) && Z.odd (p23 + m)) with (false || false && Z.odd (p23 + m)).
  cbn [orb andb].
  replace (255 * p23 <=? (e + 896 - 1023 + 126) * p23 + (p23 + m)) with false by (unfold p23 in *; lia).
  rewrite Hbd. unfold p31, p23. ring.
Qed.
Print Assumptions narrow_widen_normal.
