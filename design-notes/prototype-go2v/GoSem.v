From Coq Require Import ZArith.
Open Scope Z_scope.
(* Go integer semantics used by go2v: values are kept in the range of their type *)
Definition wrap (n : Z) (z : Z) : Z := z mod 2 ^ n.
Definition swrap (n : Z) (z : Z) : Z := (z + 2 ^ (n - 1)) mod 2 ^ n - 2 ^ (n - 1).

From Coq Require Import Lia.
Ltac Zify.zify_post_hook ::= Z.div_mod_to_equations.
(* normalisation lemmas: the scaffolding disappears when the value is already in range *)
Lemma wrap8_id z : 0 <= z < 256 -> wrap 8 z = z.
Proof. unfold wrap. change (2 ^ 8) with 256. lia. Qed.
Lemma swrap32_id z : -2147483648 <= z <= 2147483647 -> swrap 32 z = z.
Proof. unfold swrap. change (2 ^ 32) with 4294967296. change (2 ^ (32 - 1)) with 2147483648. lia. Qed.
Lemma swrap64_id z : -9223372036854775808 <= z <= 9223372036854775807 -> swrap 64 z = z.
Proof. unfold swrap. change (2 ^ 64) with 18446744073709551616. change (2 ^ (64 - 1)) with 9223372036854775808. lia. Qed.
Lemma wrap8_mod z : wrap 8 z = z mod 256.
Proof. reflexivity. Qed.
Lemma swrap8_byte z : 0 <= z < 256 -> swrap 8 z = if z <? 128 then z else z - 256.
Proof. unfold swrap. change (2 ^ 8) with 256. change (2 ^ (8 - 1)) with 128. intros. destruct (z <? 128) eqn:E; lia. Qed.
Lemma swrap16_u z : 0 <= z < 65536 -> swrap 16 z = if z <? 32768 then z else z - 65536.
Proof. unfold swrap. change (2 ^ 16) with 65536. change (2 ^ (16 - 1)) with 32768. intros. destruct (z <? 32768) eqn:E; lia. Qed.
Lemma swrap32_u z : 0 <= z < 4294967296 -> swrap 32 z = if z <? 2147483648 then z else z - 4294967296.
Proof. unfold swrap. change (2 ^ 32) with 4294967296. change (2 ^ (32 - 1)) with 2147483648. intros. destruct (z <? 2147483648) eqn:E; lia. Qed.
Lemma shr8 z : Z.shiftr z 8 = z / 256. Proof. rewrite Z.shiftr_div_pow2 by lia. reflexivity. Qed.
Lemma shr16 z : Z.shiftr z 16 = z / 65536. Proof. rewrite Z.shiftr_div_pow2 by lia. reflexivity. Qed.
Lemma shr24 z : Z.shiftr z 24 = z / 16777216. Proof. rewrite Z.shiftr_div_pow2 by lia. reflexivity. Qed.
