From Coq Require Import ZArith List Lia Bool.
Require Import GoSem GoLeaf.
Import ListNotations.
Open Scope Z_scope.
Ltac Zify.zify_post_hook ::= Z.div_mod_to_equations.

(* ---- 1. tag classification of the generated predicates vs the grammar, all 256 tags, by computation ---- *)
Inductive cls := KInt | KLong | KDouble | KString | KBinary | KDate | KObj | KTList | KUList | KRef | KOther.
(* from the published grammar (bytecode map) *)
Definition spec_cls (t : Z) : cls :=
  if (128 <=? t) && (t <=? 215) || (t =? 73) then KInt
  else if (216 <=? t) && (t <=? 255) || (56 <=? t) && (t <=? 63) || (t =? 89) || (t =? 76) then KLong
  else if (91 <=? t) && (t <=? 95) || (t =? 68) then KDouble
  else if (0 <=? t) && (t <=? 31) || (48 <=? t) && (t <=? 51) || (t =? 82) || (t =? 83) then KString
  else if (32 <=? t) && (t <=? 47) || (52 <=? t) && (t <=? 55) || (t =? 65) || (t =? 66) then KBinary
  else if (t =? 74) || (t =? 75) then KDate
  else if (96 <=? t) && (t <=? 111) then KObj
  else if (112 <=? t) && (t <=? 119) || (t =? 85) || (t =? 86) then KTList
  else if (120 <=? t) && (t <=? 127) || (t =? 87) || (t =? 88) then KUList
  else if t =? 81 then KRef
  else KOther.
(* the order in which ReadData tests the generated predicates (decoder.go:194-219) *)
Definition go_cls (t : Z) : cls :=
  if gintTag t then KInt else if glongTag t then KLong else if gdoubleTag t then KDouble
  else if gstringTag t then KString else if gdateTag t then KDate else if gbinaryTag t then KBinary
  else if grefTag t then KRef else if gobjectLenTag t then KObj
  else if gtypedListTag t then KTList else if guntypedListTag t then KUList else KOther.
Definition cls_eqb (a b : cls) : bool :=
  match a, b with KInt,KInt|KLong,KLong|KDouble,KDouble|KString,KString|KBinary,KBinary|KDate,KDate
                 |KObj,KObj|KTList,KTList|KUList,KUList|KRef,KRef|KOther,KOther => true | _,_ => false end.
Definition tags := map Z.of_nat (seq 0 256).
Definition disagreements := filter (fun t => negb (cls_eqb (go_cls t) (spec_cls t))) tags.
(* what the pinned tree gets wrong, computed: the witnesses of the refuted dispatch lemma *)
Eval vm_compute in disagreements.

(* ---- 2. round trip of the GENERATED encodeInt against a hand-written model of decodeIntValue ---- *)
Inductive res (A : Type) := Ok (a : A) | Err.
Arguments Ok {A}. Arguments Err {A}.
Definition decodeInt (bs : list Z) : res (Z * list Z) :=
  match bs with
  | [] => Err
  | tag :: r =>
    if (g_int1ByteTagMin <=? tag) && (tag <=? g_int1ByteTagMax) then Ok (swrap 8 (wrap 8 (tag - g_int1ByteZero)), r)
    else if (g_int2ByteTagMin <=? tag) && (tag <=? g_int2ByteTagMax) then
      match r with b0 :: r' => Ok (swrap 16 (wrap 8 (tag - g_int2ByteZero) * 256 + b0), r') | _ => Err end
    else if (g_int3ByteTagMin <=? tag) && (tag <=? g_int3ByteTagMax) then
      match r with b1 :: b0 :: r' =>
         let b := wrap 8 (tag - g_int3ByteZero) in
         let fb := if 0 <? Z.land b 8 then 255 else 0 in
         Ok (swrap 32 (fb * 16777216 + b * 65536 + b1 * 256 + b0), r') | _ => Err end
    else if tag =? g_int4ByteStartTag then
      match r with b3 :: b2 :: b1 :: b0 :: r' => Ok (swrap 32 (b3 * 16777216 + b2 * 65536 + b1 * 256 + b0), r') | _ => Err end
    else Err
  end.

Lemma land8 b : 0 <= b < 256 -> (0 <? Z.land b 8) = (8 <=? b mod 16).
Proof.
  intros H.
  assert (forallb (fun b => Bool.eqb (0 <? Z.land b 8) (8 <=? b mod 16)) tags = true) as F by (vm_compute; reflexivity).
  rewrite forallb_forall in F. specialize (F b). rewrite <- (Z2Nat.id b) in * by lia.
  apply eqb_prop, F. apply in_map, in_seq. lia.
Qed.

Ltac consts := unfold g_int1ByteTagMin, g_int1ByteTagMax, g_int1ByteZero, g_int2ByteTagMin, g_int2ByteTagMax, g_int2ByteZero,
                      g_int3ByteTagMin, g_int3ByteTagMax, g_int3ByteZero, g_int4ByteStartTag in *.

Theorem gen_int_roundtrip v rest : -2147483648 <= v <= 2147483647 -> decodeInt (gencodeInt v ++ rest) = Ok (v, rest).
Proof.
  intros Hr. unfold gencodeInt. rewrite ?shr8, ?shr16, ?shr24, ?wrap8_mod.
  destruct (((-16) <=? v) && (v <=? 47)) eqn:E1.
  { rewrite swrap32_id by lia. replace ((144 + v) mod 256) with (144 + v) by lia.
    cbn [app decodeInt]. consts.
    replace ((128 <=? 144 + v) && (144 + v <=? 191)) with true by lia.
    unfold wrap, swrap. change (2 ^ 8) with 256. change (2 ^ (8 - 1)) with 128. f_equal. f_equal. lia. }
  destruct (((-2048) <=? v) && (v <=? 2047)) eqn:E2.
  { rewrite swrap32_id by lia. replace ((200 + v / 256) mod 256) with (200 + v / 256) by lia.
    cbn [app decodeInt]. consts.
    replace ((128 <=? 200 + v / 256) && (200 + v / 256 <=? 191)) with false by lia.
    replace ((192 <=? 200 + v / 256) && (200 + v / 256 <=? 207)) with true by lia.
    unfold wrap, swrap. change (2 ^ 8) with 256. change (2 ^ 16) with 65536. change (2 ^ (16 - 1)) with 32768. f_equal. f_equal. lia. }
  destruct (((-262144) <=? v) && (v <=? 262143)) eqn:E3.
  { rewrite swrap32_id by lia. replace ((212 + v / 65536) mod 256) with (212 + v / 65536) by lia.
    cbn [app decodeInt]. consts.
    replace ((128 <=? 212 + v / 65536) && (212 + v / 65536 <=? 191)) with false by lia.
    replace ((192 <=? 212 + v / 65536) && (212 + v / 65536 <=? 207)) with false by lia.
    replace ((208 <=? 212 + v / 65536) && (212 + v / 65536 <=? 215)) with true by lia.
    cbv zeta. rewrite wrap8_mod. rewrite land8 by lia.
    f_equal. f_equal. unfold swrap. change (2 ^ 32) with 4294967296. change (2 ^ (32 - 1)) with 2147483648.
    destruct (8 <=? ((212 + v / 65536 - 212) mod 256) mod 16) eqn:E4; lia. }
  { cbn [app decodeInt]. consts.
    change ((128 <=? 73) && (73 <=? 191)) with false. change ((192 <=? 73) && (73 <=? 207)) with false.
    change ((208 <=? 73) && (73 <=? 215)) with false. change (73 =? 73) with true. cbv iota.
    unfold swrap. change (2 ^ 32) with 4294967296. change (2 ^ (32 - 1)) with 2147483648. f_equal. f_equal. lia. }
Qed.
Print Assumptions gen_int_roundtrip.

(* shortest form against lengths taken from the grammar, not from the Go constants *)
Definition spec_int_len (v : Z) : nat :=
  if (-16 <=? v) && (v <=? 47) then 1 else if (-2048 <=? v) && (v <=? 2047) then 2
  else if (-262144 <=? v) && (v <=? 262143) then 3 else 5.
Theorem gen_int_shortest v : length (gencodeInt v) = spec_int_len v.
Proof. unfold gencodeInt, spec_int_len. repeat (match goal with |- context [if ?c then _ else _] => destruct c end); reflexivity. Qed.
