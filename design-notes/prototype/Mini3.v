Require Import Mini2.
From Coq Require Import ZArith List Lia Bool Arith.
Import ListNotations.
Open Scope Z_scope.

Inductive ty := TInt | TStruct (n : nat).
Definition tenv := nat -> list ty.

Definition is_int_tag t := (128 <=? t) && (t <=? 191).
Definition is_obj_tag t := (96 <=? t) && (t <=? 111).

(* one step of each reader, parameterised by the readers at the smaller fuel *)
Section Step.
  Variable te : tenv.
  Variables (rd : ctab -> bytes -> option (gval * bytes * ctab))
            (ro : ctab -> nat -> bytes -> option (gval * bytes * ctab))
            (rfs : list ty -> ctab -> bytes -> option (list gval * bytes * ctab))
            (rf : ty -> ctab -> bytes -> option (gval * bytes * ctab)).
  Definition dec_step (ct : ctab) (bs : bytes) :=
    match bs with
    | [] => None
    | t :: r =>
      if is_int_tag t then Some (VI (t - 144), r, ct)
      else if t =? 67 then
        match r with
        | id :: cnt :: r' => rd (ct ++ [(Z.to_nat id, Z.to_nat cnt)]) r'
        | _ => None end
      else if is_obj_tag t then ro ct (Z.to_nat (t - 96)) r
      else None
    end.
  Definition dec_obj_step (ct : ctab) (i : nat) (bs : bytes) :=
    match nth_error ct i with
    | None => None
    | Some (id, cnt) =>
      if Nat.eqb cnt (length (te id)) then
        match rfs (te id) ct bs with
        | Some (vs, r, ct') => Some (VObj id vs, r, ct')
        | None => None end
      else None
    end.
  Definition dec_fields_step (tys : list ty) (ct : ctab) (bs : bytes) :=
    match tys with
    | [] => Some ([], bs, ct)
    | tau :: tys' =>
      match rf tau ct bs with
      | Some (v, r1, ct1) =>
        match rfs tys' ct1 r1 with
        | Some (vs, r2, ct2) => Some (v :: vs, r2, ct2)
        | None => None end
      | None => None end
    end.
  Definition dec_field_step (tau : ty) (ct : ctab) (bs : bytes) :=
    match bs with
    | [] => None
    | t :: r =>
      if t =? 67 then
        match r with
        | id :: cnt :: r' => rf tau (ct ++ [(Z.to_nat id, Z.to_nat cnt)]) r'
        | _ => None end
      else match tau with
      | TInt => if is_int_tag t then Some (VI (t - 144), r, ct) else None
      | TStruct _ => if is_obj_tag t then ro ct (Z.to_nat (t - 96)) r else None
      end
    end.
End Step.

(* the four readers, tied together on one fuel *)
Fixpoint readers (fuel : nat) (te : tenv) :
   (ctab -> bytes -> option (gval * bytes * ctab)) * (ctab -> nat -> bytes -> option (gval * bytes * ctab))
 * (list ty -> ctab -> bytes -> option (list gval * bytes * ctab)) * (ty -> ctab -> bytes -> option (gval * bytes * ctab)) :=
  match fuel with
  | O => (fun _ _ => None, fun _ _ _ => None, fun _ _ _ => None, fun _ _ _ => None)
  | S fuel => let '(rd, ro, rfs, rf) := readers fuel te in
              (dec_step rd ro, dec_obj_step te rfs, dec_fields_step rfs rf, dec_field_step ro rf)
  end.
Definition dec f te := fst (fst (fst (readers f te))).
Definition dec_obj f te := snd (fst (fst (readers f te))).
Definition dec_fields f te := snd (fst (readers f te)).
Definition dec_field f te := snd (readers f te).

Lemma dec_S f te : dec (S f) te = dec_step (dec f te) (dec_obj f te).
Proof. unfold dec, dec_obj. cbn [readers]. destruct (readers f te) as [[[a b] c] d]. reflexivity. Qed.
Lemma dec_obj_S f te : dec_obj (S f) te = dec_obj_step te (dec_fields f te).
Proof. unfold dec_obj, dec_fields. cbn [readers]. destruct (readers f te) as [[[a b] c] d]. reflexivity. Qed.
Lemma dec_fields_S f te : dec_fields (S f) te = dec_fields_step (dec_fields f te) (dec_field f te).
Proof. unfold dec_fields, dec_field. cbn [readers]. destruct (readers f te) as [[[a b] c] d]. reflexivity. Qed.
Lemma dec_field_S f te : dec_field (S f) te = dec_field_step (dec_obj f te) (dec_field f te).
Proof. unfold dec_field, dec_obj. cbn [readers]. destruct (readers f te) as [[[a b] c] d]. reflexivity. Qed.
Lemma dec_O te ct bs : dec O te ct bs = None. Proof. reflexivity. Qed.
Lemma dec_obj_O te ct i bs : dec_obj O te ct i bs = None. Proof. reflexivity. Qed.
Lemma dec_fields_O te tys ct bs : dec_fields O te tys ct bs = None. Proof. reflexivity. Qed.
Lemma dec_field_O te tau ct bs : dec_field O te tau ct bs = None. Proof. reflexivity. Qed.

(* what a wire value denotes at a typed position (Some tau) / an untyped one (None) *)
Inductive den (te : tenv) : option ty -> hval -> gval -> Prop :=
| den_int o z : (o = None \/ o = Some TInt) -> den te o (HInt z) (VI z)
| den_obj o id hs vs : (o = None \/ exists m, o = Some (TStruct m)) ->
    dens te (te id) hs vs -> den te o (HObj id hs) (VObj id vs)
with dens (te : tenv) : list ty -> list hval -> list gval -> Prop :=
| dens_nil : dens te [] [] []
| dens_cons tau h v tys hs vs : den te (Some tau) h v -> dens te tys hs vs -> dens te (tau :: tys) (h :: hs) (v :: vs).

Lemma dens_len te tys hs vs : dens te tys hs vs -> length tys = length hs.
Proof. induction 1; cbn; lia. Qed.

(* monotonicity of the readers in the fuel *)
Lemma dec_mono te : forall fuel,
   (forall ct bs r, dec fuel te ct bs = Some r -> forall f, (fuel <= f)%nat -> dec f te ct bs = Some r)
/\ (forall ct i bs r, dec_obj fuel te ct i bs = Some r -> forall f, (fuel <= f)%nat -> dec_obj f te ct i bs = Some r)
/\ (forall tys ct bs r, dec_fields fuel te tys ct bs = Some r -> forall f, (fuel <= f)%nat -> dec_fields f te tys ct bs = Some r)
/\ (forall tau ct bs r, dec_field fuel te tau ct bs = Some r -> forall f, (fuel <= f)%nat -> dec_field f te tau ct bs = Some r).
Proof.
  induction fuel as [|fuel (IH1 & IH2 & IH3 & IH4)]; repeat split; intros; try discriminate;
    (destruct f as [|f]; [lia|]).
  - rewrite dec_S in *. unfold dec_step in *. destruct bs as [|t r0]; [discriminate|].
    destruct (is_int_tag t); [assumption|].
    destruct (t =? 67).
    { destruct r0 as [|id [|cnt r']]; try discriminate. eapply IH1; [eassumption|lia]. }
    destruct (is_obj_tag t); [|discriminate]. eapply IH2; [eassumption|lia].
  - rewrite dec_obj_S in *. unfold dec_obj_step in *. destruct (nth_error ct i) as [[id cnt]|]; [|discriminate].
    destruct (Nat.eqb cnt (length (te id))); [|discriminate].
    destruct (dec_fields fuel te (te id) ct bs) as [[[vs r0] ct']|] eqn:E; [|discriminate].
    rewrite (IH3 _ _ _ _ E f ltac:(lia)). assumption.
  - rewrite dec_fields_S in *. unfold dec_fields_step in *. destruct tys as [|tau tys']; [assumption|].
    destruct (dec_field fuel te tau ct bs) as [[[v r1] ct1]|] eqn:E; [|discriminate].
    rewrite (IH4 _ _ _ _ E f ltac:(lia)).
    destruct (dec_fields fuel te tys' ct1 r1) as [[[vs r2] ct2]|] eqn:E2; [|discriminate].
    rewrite (IH3 _ _ _ _ E2 f ltac:(lia)). assumption.
  - rewrite dec_field_S in *. unfold dec_field_step in *. destruct bs as [|t r0]; [discriminate|].
    destruct (t =? 67).
    { destruct r0 as [|id [|cnt r']]; try discriminate. eapply IH4; [eassumption|lia]. }
    destruct tau; [assumption|].
    destruct (is_obj_tag t); [|discriminate]. eapply IH2; [eassumption|lia].
Qed.
Lemma dec_mono1 te fuel f ct bs r : dec fuel te ct bs = Some r -> (fuel <= f)%nat -> dec f te ct bs = Some r.
Proof. intros; eapply (proj1 (dec_mono te fuel)); eassumption. Qed.
Lemma dec_obj_mono te fuel f ct i bs r : dec_obj fuel te ct i bs = Some r -> (fuel <= f)%nat -> dec_obj f te ct i bs = Some r.
Proof. intros; eapply (proj1 (proj2 (dec_mono te fuel))); eassumption. Qed.
Lemma dec_fields_mono te fuel f tys ct bs r : dec_fields fuel te tys ct bs = Some r -> (fuel <= f)%nat -> dec_fields f te tys ct bs = Some r.
Proof. intros; eapply (proj1 (proj2 (proj2 (dec_mono te fuel)))); eassumption. Qed.
Lemma dec_field_mono te fuel f tau ct bs r : dec_field fuel te tau ct bs = Some r -> (fuel <= f)%nat -> dec_field f te tau ct bs = Some r.
Proof. intros; eapply (proj2 (proj2 (proj2 (dec_mono te fuel)))); eassumption. Qed.

(* unfolding equations for the spec parser too *)
Lemma hparse_S fuel ct bs : hparse (S fuel) ct bs =
  match bs with
  | [] => None
  | t :: r =>
    if (128 <=? t) && (t <=? 191) then Some (HInt (t - 144), r, ct)
    else if t =? 67 then
      match r with
      | id :: cnt :: r' => hparse fuel (ct ++ [(Z.to_nat id, Z.to_nat cnt)]) r'
      | _ => None end
    else if (96 <=? t) && (t <=? 111) then
      match nth_error ct (Z.to_nat (t - 96)) with
      | None => None
      | Some (id, cnt) =>
        match hparse_n fuel cnt ct r with
        | Some (hs, r', ct') => Some (HObj id hs, r', ct')
        | None => None end
      end
    else None
  end.
Proof. reflexivity. Qed.
Lemma hparse_n_S fuel k ct bs : hparse_n (S fuel) k ct bs =
  match k with
  | O => Some ([], bs, ct)
  | S k => match hparse fuel ct bs with
           | Some (h, bs', ct') =>
             match hparse_n fuel k ct' bs' with
             | Some (hs, bs'', ct'') => Some (h :: hs, bs'', ct'')
             | None => None end
           | None => None end
  end.
Proof. reflexivity. Qed.

(* C03-shaped lemma: the decoder follows the spec parser, in untyped, typed and list form *)
Lemma dec_follows_spec te : forall fuel,
   (forall ct bs h rest ct', hparse fuel ct bs = Some (h, rest, ct') ->
      forall o v, den te o h v ->
        (o = None -> dec (4 * fuel) te ct bs = Some (v, rest, ct')) /\
        (forall tau, o = Some tau -> dec_field (4 * fuel) te tau ct bs = Some (v, rest, ct')))
/\ (forall k ct bs hs rest ct', hparse_n fuel k ct bs = Some (hs, rest, ct') ->
      forall tys vs, dens te tys hs vs -> dec_fields (4 * fuel) te tys ct bs = Some (vs, rest, ct')).
Proof.
  induction fuel as [|fuel [IHv IHl]]; split; intros; try discriminate.
  - (* single value *)
    rewrite hparse_S in H. destruct bs as [|t r]; [discriminate|].
    replace (4 * S fuel)%nat with (S (S (S (S (4 * fuel))))) by lia.
    destruct ((128 <=? t) && (t <=? 191)) eqn:Ti.
    { inversion H; subst. inversion H0 as [? ? Ho | ]; subst.
      assert (t =? 67 = false) as Tc by lia.
      split; intros; subst; [rewrite dec_S | rewrite dec_field_S]; unfold dec_step, dec_field_step, is_int_tag; rewrite ?Tc, Ti; [reflexivity|].
      destruct Ho as [Ho|Ho]; [discriminate|]. inversion Ho; subst. reflexivity. }
    destruct (t =? 67) eqn:Tc.
    { destruct r as [|id [|cnt r']]; try discriminate.
      destruct (IHv _ _ _ _ _ H o v H0) as [A B].
      split.
      - intros ->. rewrite dec_S. unfold dec_step, is_int_tag. rewrite Ti, Tc.
        eapply dec_mono1; [apply A; reflexivity|lia].
      - intros tau ->. rewrite dec_field_S. unfold dec_field_step. rewrite Tc.
        eapply dec_field_mono; [apply B; reflexivity|lia]. }
    destruct ((96 <=? t) && (t <=? 111)) eqn:To; [|discriminate].
    destruct (nth_error ct (Z.to_nat (t - 96))) as [[id cnt]|] eqn:En; [|discriminate].
    destruct (hparse_n fuel cnt ct r) as [[[hs r'] ct'']|] eqn:En2; [|discriminate].
    inversion H; subst. inversion H0 as [| ? ? ? ? Ho Hd]; subst.
    pose proof (IHl _ _ _ _ _ _ En2 _ _ Hd) as F.
    (* the count on the wire equals the number of Go fields: from hparse_n's result length and dens *)
    assert (Hc : cnt = length (te id)).
    { pose proof (dens_len _ _ _ _ Hd) as L1.
      assert (forall f k c b hs0 r0 c0, hparse_n f k c b = Some (hs0, r0, c0) -> length hs0 = k) as LN.
      { clear. induction f as [|f IH]; intros; [discriminate|]. rewrite hparse_n_S in H. destruct k; [inversion H; reflexivity|].
        destruct (hparse f c b) as [[[h b'] c']|]; [|discriminate].
        destruct (hparse_n f k c' b') as [[[hs1 b''] c'']|] eqn:E; [|discriminate]. inversion H; subst. cbn. f_equal. eapply IH; eassumption. }
      rewrite (LN _ _ _ _ _ _ _ En2) in L1. congruence. }
    assert (Hobj : dec_obj (S (4 * fuel)) te ct (Z.to_nat (t - 96)) r = Some (VObj id vs, rest, ct')).
    { rewrite dec_obj_S. unfold dec_obj_step. rewrite En. subst cnt. rewrite Nat.eqb_refl. rewrite F. reflexivity. }
    split.
    + intros _. rewrite dec_S. unfold dec_step, is_int_tag, is_obj_tag. rewrite Ti, Tc, To.
      eapply dec_obj_mono; [exact Hobj|lia].
    + intros tau ->. destruct Ho as [Ho|[m Ho]]; [discriminate|]. inversion Ho; subst.
      rewrite dec_field_S. unfold dec_field_step, is_obj_tag. rewrite Tc, To.
      eapply dec_obj_mono; [exact Hobj|lia].
  - (* field list *)
    rewrite hparse_n_S in H.
    replace (4 * S fuel)%nat with (S (S (S (S (4 * fuel))))) by lia.
    destruct k.
    { inversion H; subst. inversion H0; subst. rewrite dec_fields_S. reflexivity. }
    destruct (hparse fuel ct bs) as [[[h bs'] ct1]|] eqn:E1; [|discriminate].
    destruct (hparse_n fuel k ct1 bs') as [[[hs1 bs''] ct2]|] eqn:E2; [|discriminate].
    inversion H; subst. inversion H0 as [|tau ? v ? ? vs1 Hd1 Hds]; subst.
    destruct (IHv _ _ _ _ _ E1 _ _ Hd1) as [_ B].
    rewrite dec_fields_S. unfold dec_fields_step.
    rewrite (dec_field_mono te (4 * fuel) (S (S (S (4 * fuel)))) _ _ _ _ (B tau eq_refl)) by lia.
    rewrite (dec_fields_mono te (4 * fuel) (S (S (S (4 * fuel)))) _ _ _ _ (IHl _ _ _ _ _ _ E2 _ _ Hds)) by lia.
    reflexivity.
Qed.

(* ---- composition: the round trip, with no byte-level reasoning left ---- *)
Inductive typed (te : tenv) : option ty -> gval -> Prop :=
| ty_int o z : (o = None \/ o = Some TInt) -> typed te o (VI z)
| ty_obj o n fs : (o = None \/ exists m, o = Some (TStruct m)) -> typeds te (te n) fs -> typed te o (VObj n fs)
with typeds (te : tenv) : list ty -> list gval -> Prop :=
| tys_nil : typeds te [] []
| tys_cons tau v tys vs : typed te (Some tau) v -> typeds te tys vs -> typeds te (tau :: tys) (v :: vs).
Scheme typed_ind2 := Induction for typed Sort Prop
with typeds_ind2 := Induction for typeds Sort Prop.
Combined Scheme typed_mutind from typed_ind2, typeds_ind2.

Lemma abs_denotes te :
  (forall o v, typed te o v -> den te o (abs v) v) /\
  (forall tys vs, typeds te tys vs -> dens te tys (map abs vs) vs).
Proof.
  apply typed_mutind; intros.
  - cbn. constructor; assumption.
  - cbn [abs]. constructor; assumption.
  - constructor.
  - cbn [map]. constructor; assumption.
Qed.

Theorem roundtrip te ar v cls' bs :
  wf ar v -> typed te None v -> (size v <= 16)%nat ->
  enc [] v = (cls', bs) ->
  exists ct', dec (4 * size v) te [] bs = Some (v, [], ct').
Proof.
  intros W T Hs E.
  destruct (enc_parses ar v W [] [] cls' bs [] (size v)) as (ct' & P & _ & _); try assumption; try (cbn; lia).
  { split; [reflexivity|cbn; lia]. }
  rewrite app_nil_r in P.
  exists ct'. eapply (proj1 (dec_follows_spec te (size v))); try eassumption; try reflexivity.
  apply (proj1 (abs_denotes te)). assumption.
Qed.
Print Assumptions roundtrip.
