From Coq Require Import ZArith List Lia Bool Arith.
Import ListNotations.
Open Scope Z_scope.

Arguments Z.add : simpl never.
Arguments Z.sub : simpl never.
Arguments Z.mul : simpl never.
Arguments Z.leb : simpl never.
Arguments Z.eqb : simpl never.
Arguments Z.of_nat : simpl never.
Arguments Z.to_nat : simpl never.
Definition bytes := list Z.
Inductive gval := VI (z : Z) | VObj (n : nat) (fs : list gval).
Inductive hval := HInt (z : Z) | HObj (cls : nat) (fs : list hval).
Definition ctab := list (nat * nat).

(* nested induction principle *)
Section Ind.
  Variable P : gval -> Prop.
  Hypothesis HI : forall z, P (VI z).
  Hypothesis HO : forall n fs, Forall P fs -> P (VObj n fs).
  Fixpoint gval_ind2 (v : gval) : P v :=
    match v with
    | VI z => HI z
    | VObj n fs => HO n fs ((fix go (l : list gval) : Forall P l :=
                      match l with [] => Forall_nil _ | x :: l' => Forall_cons _ (gval_ind2 x) (go l') end) fs)
    end.
End Ind.

(* ---- spec parser, mutual on fuel ---- *)
Fixpoint hparse (fuel : nat) (ct : ctab) (bs : bytes) {struct fuel} : option (hval * bytes * ctab) :=
  match fuel with O => None | S fuel =>
  match bs with
  | [] => None
  | t :: r =>
    if (128 <=? t) && (t <=? 191) then Some (HInt (t - 144), r, ct)
    else if t =? 67 then
      match r with
      | id :: cnt :: r' => hparse fuel (ct ++ [(Z.to_nat id, Z.to_nat cnt)]) r'
      | _ => None end
    else if (96 <=? t) && (t <=? 111) then
      match nth_error ct (Z.to_nat (t - 96)) with
      | None => None
      | Some (id, cnt) =>
        match hparse_n fuel cnt ct r with
        | Some (hs, r', ct') => Some (HObj id hs, r', ct')
        | None => None end
      end
    else None
  end end
with hparse_n (fuel : nat) (k : nat) (ct : ctab) (bs : bytes) {struct fuel} : option (list hval * bytes * ctab) :=
  match fuel with O => None | S fuel =>
  match k with
  | O => Some ([], bs, ct)
  | S k => match hparse fuel ct bs with
           | Some (h, bs', ct') =>
             match hparse_n fuel k ct' bs' with
             | Some (hs, bs'', ct'') => Some (h :: hs, bs'', ct'')
             | None => None end
           | None => None end
  end end.

(* ---- encoder model ---- *)
Fixpoint index_of (n : nat) (l : list nat) : option nat :=
  match l with [] => None | x :: l' => if Nat.eqb x n then Some O else option_map S (index_of n l') end.

Definition enc_list_with (encf : list nat -> gval -> list nat * bytes) :=
  fix go (c : list nat) (l : list gval) {struct l} : list nat * bytes :=
    match l with
    | [] => (c, [])
    | f :: l' => let '(c1, b1) := encf c f in let '(c2, b2) := go c1 l' in (c2, b1 ++ b2)
    end.

Fixpoint enc (cls : list nat) (v : gval) {struct v} : list nat * bytes :=
  match v with
  | VI z => (cls, [144 + z])
  | VObj n fs =>
    let '(cls1, hdr) :=
      match index_of n cls with
      | Some i => (cls, [96 + Z.of_nat i])
      | None => (cls ++ [n], [67; Z.of_nat n; Z.of_nat (length fs); 96 + Z.of_nat (length cls)])
      end in
    let '(cls2, body) := enc_list_with enc cls1 fs in
    (cls2, hdr ++ body)
  end.

Definition enc_list := enc_list_with enc.

Lemma enc_obj n fs cls :
  enc cls (VObj n fs) =
    let '(cls1, hdr) :=
      match index_of n cls with
      | Some i => (cls, [96 + Z.of_nat i])
      | None => (cls ++ [n], [67; Z.of_nat n; Z.of_nat (length fs); 96 + Z.of_nat (length cls)])
      end in
    let '(cls2, body) := enc_list cls1 fs in (cls2, hdr ++ body).
Proof. reflexivity. Qed.
Lemma enc_list_cons c f l : enc_list c (f :: l) = let '(c1, b1) := enc c f in let '(c2, b2) := enc_list c1 l in (c2, b1 ++ b2).
Proof. reflexivity. Qed.
Lemma enc_list_nil c : enc_list c [] = (c, []). Proof. reflexivity. Qed.

Fixpoint abs (v : gval) : hval :=
  match v with VI z => HInt z | VObj n fs => HObj n (map abs fs) end.

(* arity env: struct id -> number of fields; values must respect it *)
Definition arity := nat -> nat.
Inductive wf (ar : arity) : gval -> Prop :=
| wf_i z : -16 <= z <= 47 -> wf ar (VI z)
| wf_o n fs : (n < 200)%nat -> length fs = ar n -> (ar n < 200)%nat -> Forall (wf ar) fs -> wf ar (VObj n fs).

Fixpoint size (v : gval) : nat :=
  match v with VI _ => 1%nat | VObj _ fs => S (S (S (fold_right (fun f a => (size f + a)%nat) O fs))) end.
Definition size_list (l : list gval) := fold_right (fun f a => (size f + a)%nat) O l.

Definition R (ar : arity) (cls : list nat) (ct : ctab) : Prop :=
  ct = map (fun n => (n, ar n)) cls /\ (length cls <= 16)%nat.

Lemma index_of_nth n cls i : index_of n cls = Some i -> nth_error cls i = Some n.
Proof.
  revert i; induction cls as [|x cls IH]; cbn; intros i H; [discriminate|].
  destruct (Nat.eqb_spec x n).
  - inversion H; subst; reflexivity.
  - destruct (index_of n cls); cbn in H; [|discriminate]. inversion H; subst. cbn. auto.
Qed.
Lemma index_of_lt n cls i : index_of n cls = Some i -> (i < length cls)%nat.
Proof. intros H. apply index_of_nth in H. apply nth_error_Some. congruence. Qed.

(* fuel monotonicity *)
Lemma hparse_mono :
  forall fuel, (forall ct bs r, hparse fuel ct bs = Some r -> forall fuel', (fuel <= fuel')%nat -> hparse fuel' ct bs = Some r)
            /\ (forall k ct bs r, hparse_n fuel k ct bs = Some r -> forall fuel', (fuel <= fuel')%nat -> hparse_n fuel' k ct bs = Some r).
Proof.
  induction fuel as [|fuel [IH1 IH2]]; split; intros; try discriminate.
  - destruct fuel' as [|fuel']; [lia|]. cbn [hparse] in *.
    destruct bs as [|t r0]; [discriminate|].
    destruct ((128 <=? t) && (t <=? 191)); [assumption|].
    destruct (t =? 67).
    { destruct r0 as [|id [|cnt r']]; try discriminate. apply IH1 with (fuel' := fuel') in H; [assumption|lia]. }
    destruct ((96 <=? t) && (t <=? 111)); [|discriminate].
    destruct (nth_error ct (Z.to_nat (t - 96))) as [[id cnt]|]; [|discriminate].
    destruct (hparse_n fuel cnt ct r0) as [[[hs r'] ct']|] eqn:E; [|discriminate].
    apply IH2 with (fuel' := fuel') in E; [|lia]. rewrite E. assumption.
  - destruct fuel' as [|fuel']; [lia|]. cbn [hparse_n] in *.
    destruct k; [assumption|].
    destruct (hparse fuel ct bs) as [[[h bs'] ct']|] eqn:E; [|discriminate].
    apply IH1 with (fuel' := fuel') in E; [|lia]. rewrite E.
    destruct (hparse_n fuel k ct' bs') as [[[hs bs''] ct'']|] eqn:E2; [|discriminate].
    apply IH2 with (fuel' := fuel') in E2; [|lia]. rewrite E2. assumption.
Qed.

(* ---- the C02-shaped simulation lemma, stated for every sufficient fuel ---- *)
Ltac tagcase t :=
  replace ((128 <=? t) && (t <=? 191)) with false by lia;
  replace (t =? 67) with false by lia;
  replace ((96 <=? t) && (t <=? 111)) with true by lia.

Definition Goal_v ar v := wf ar v -> forall cls ct cls' bs rest fuel, R ar cls ct -> (length cls + size v <= 16)%nat ->
  enc cls v = (cls', bs) -> (size v <= fuel)%nat ->
  exists ct', hparse fuel ct (bs ++ rest) = Some (abs v, rest, ct') /\ R ar cls' ct' /\ (length cls' <= length cls + size v)%nat.

Lemma enc_list_parses ar l :
  Forall (Goal_v ar) l -> Forall (wf ar) l ->
  forall c ct0 c' b rest0 fuel, R ar c ct0 -> (length c + size_list l <= 16)%nat ->
  enc_list c l = (c', b) -> (S (size_list l) <= fuel)%nat ->
  exists ct', hparse_n fuel (length l) ct0 (b ++ rest0) = Some (map abs l, rest0, ct') /\ R ar c' ct' /\ (length c' <= length c + size_list l)%nat.
Proof.
  induction l as [|f l IHl]; intros HF HW c ct0 c' b rest0 fuel HR Hs E Hfuel.
  - rewrite enc_list_nil in E. inversion E; subst. destruct fuel; [lia|]. cbn. eexists; split; [reflexivity|]. split; [assumption|lia].
  - inversion HF as [|? ? Hf HFl]; subst. inversion HW as [|? ? Wf Wl]; subst.
    rewrite enc_list_cons in E. destruct (enc c f) as [c1 b1] eqn:E1. destruct (enc_list c1 l) as [c2 b2] eqn:E2.
    inversion E; subst. cbn [size_list fold_right] in Hs, Hfuel. fold (size_list l) in Hs, Hfuel.
    destruct fuel as [|fuel]; [lia|].
    assert (1 <= size f)%nat by (destruct f; cbn; lia).
    destruct (Hf Wf c ct0 c1 b1 (b2 ++ rest0) fuel HR ltac:(lia) E1 ltac:(lia)) as (ct1 & P1 & R1 & L1).
    destruct (IHl HFl Wl c1 ct1 c' b2 rest0 fuel R1 ltac:(lia) E2 ltac:(lia)) as (ct2 & P2 & R2 & L2).
    exists ct2. split; [|split; [assumption|cbn [size_list fold_right]; fold (size_list l); lia]].
    cbn [length map hparse_n]. rewrite <- app_assoc, P1, P2. reflexivity.
Qed.

Theorem enc_parses ar v : Goal_v ar v.
Proof.
  induction v as [z | n fs IH] using gval_ind2; intros W cls ct cls' bs rest fuel HR Hsz E Hfuel.
  - inversion W; subst. cbn [enc] in E. inversion E; subst. cbn [size] in Hfuel. destruct fuel; [lia|]. cbn [hparse app].
    replace ((128 <=? 144 + z) && (144 + z <=? 191)) with true by lia.
    cbn [abs]. replace (144 + z - 144) with z by lia. eexists; split; [reflexivity|]. split; [assumption|cbn [size]; lia].
  - inversion W as [|? ? Hn Hlen Har Hfs]; subst.
    rewrite enc_obj in E. pose proof (enc_list_parses ar fs IH Hfs) as L.
    cbn [size] in Hsz, Hfuel. fold (size_list fs) in Hsz, Hfuel.
    destruct (index_of n cls) as [i|] eqn:EI.
    + destruct (enc_list cls fs) as [c2 body] eqn:E2. inversion E; subst.
      destruct fuel as [|fuel]; [lia|].
      destruct (L cls ct cls' body rest fuel HR ltac:(lia) E2 ltac:(lia)) as (ct' & P & R' & L').
      exists ct'. split; [|split; [assumption|cbn [size]; fold (size_list fs); lia]].
      cbn [app hparse].
      pose proof (index_of_lt _ _ _ EI) as Hi. destruct HR as [Hct Hl16].
      tagcase (96 + Z.of_nat i).
      replace (Z.to_nat (96 + Z.of_nat i - 96)) with i by lia.
      subst ct. rewrite nth_error_map, (index_of_nth _ _ _ EI). cbn [option_map].
      rewrite <- Hlen, P. reflexivity.
    + destruct (enc_list (cls ++ [n]) fs) as [c2 body] eqn:E2. inversion E; subst.
      destruct HR as [Hct Hl16].
      assert (HR1 : R ar (cls ++ [n]) (ct ++ [(n, ar n)])).
      { split; [subst ct; rewrite map_app; reflexivity| rewrite app_length; cbn; lia]. }
      destruct fuel as [|[|fuel]]; [lia|lia|].
      destruct (L (cls ++ [n]) (ct ++ [(n, ar n)]) cls' body rest fuel HR1 ltac:(rewrite app_length; cbn; lia) E2 ltac:(lia)) as (ct' & P & R' & L').
      exists ct'. split; [|split; [assumption|rewrite app_length in L'; cbn [length] in L'; cbn [size]; fold (size_list fs); lia]].
      cbn [app hparse].
      replace ((128 <=? 67) && (67 <=? 191)) with false by reflexivity.
      replace (67 =? 67) with true by reflexivity.
      replace (Z.to_nat (Z.of_nat n)) with n by lia. replace (Z.to_nat (Z.of_nat (length fs))) with (ar n) by lia.
      tagcase (96 + Z.of_nat (length cls)).
      replace (Z.to_nat (96 + Z.of_nat (length cls) - 96)) with (length cls) by lia.
      subst ct. rewrite nth_error_app2 by (rewrite map_length; lia). rewrite map_length, Nat.sub_diag. cbn [nth_error].
      rewrite Hlen in P. rewrite P. reflexivity.
Qed.
Print Assumptions enc_parses.
