From Coq Require Import List Arith Lia Bool ZArith.
Import ListNotations.

(* ===================== C12 in miniature: threads as resumptions over a shared store ===================== *)
Section Conc.
  Variables (key val res : Type).
  Variable key_eqb : key -> key -> bool.
  Definition store := key -> option val.

  (* a thread: private computation interleaved with atomic accesses to the shared store *)
  Inductive prog :=
  | Ret (r : res)
  | Rd (k : key) (cont : option val -> prog)
  | Wr (k : key) (v : val) (cont : prog).

  Definition upd (s : store) k v : store := fun k' => if key_eqb k' k then Some v else s k'.

  (* run alone *)
  Fixpoint alone (fuel : nat) (s : store) (p : prog) : option res :=
    match fuel with O => None | S fuel =>
      match p with
      | Ret r => Some r
      | Rd k c => alone fuel s (c (s k))
      | Wr k v c => alone fuel (upd s k v) c
      end end.

  (* one atomic step of thread i of a pool of threads *)
  Definition step1 (s : store) (p : prog) : store * prog :=
    match p with
    | Ret r => (s, Ret r)
    | Rd k c => (s, c (s k))
    | Wr k v c => (upd s k v, c)
    end.
  Fixpoint step_at (i : nat) (s : store) (ps : list prog) : store * list prog :=
    match ps, i with
    | [], _ => (s, [])
    | p :: ps', O => let '(s', p') := step1 s p in (s', p' :: ps')
    | p :: ps', S i' => let '(s', ps'') := step_at i' s ps' in (s', p :: ps'')
    end.
  (* a schedule is any list of thread indices *)
  Fixpoint run (sched : list nat) (s : store) (ps : list prog) : store * list prog :=
    match sched with
    | [] => (s, ps)
    | i :: sched' => let '(s', ps') := step_at i s ps in run sched' s' ps'
    end.

  (* write-free programs *)
  Inductive wfree : prog -> Prop :=
  | wf_ret r : wfree (Ret r)
  | wf_rd k c : (forall o, wfree (c o)) -> wfree (Rd k c).

  (* "p, run alone on s, is some number of steps away from q" *)
  Inductive reaches (s : store) : prog -> prog -> Prop :=
  | r_refl p : reaches s p p
  | r_step p q : reaches s (snd (step1 s p)) q -> reaches s p q.

  Lemma step1_wfree s p : wfree p -> fst (step1 s p) = s /\ wfree (snd (step1 s p)).
  Proof. destruct 1; cbn; auto using wfree. Qed.

  Lemma step_at_wfree i : forall s ps, Forall wfree ps ->
    let '(s', ps') := step_at i s ps in
    s' = s /\ Forall wfree ps' /\ length ps' = length ps /\
    (forall j, nth_error ps' j = nth_error ps j \/
               (j = i /\ exists p, nth_error ps j = Some p /\ nth_error ps' j = Some (snd (step1 s p)))).
  Proof.
    induction i as [|i IH]; intros s ps HF; destruct ps as [|p ps']; cbn.
    - repeat split; auto.
    - inversion HF; subst. destruct (step1_wfree s p H1) as [A B].
      destruct (step1 s p) as [s' p'] eqn:E. cbn in *. subst. repeat split; auto.
      intros [|j]; cbn; [right; split; auto; exists p; rewrite E; auto | left; auto].
    - repeat split; auto.
    - inversion HF; subst. specialize (IH s ps' H2). destruct (step_at i s ps') as [s' ps''].
      destruct IH as (A & B & C & D). subst. repeat split; auto. { cbn; congruence. }
      intros [|j]; cbn; [left; auto|]. destruct (D j) as [E|[E1 (q & E2 & E3)]]; [left; auto|].
      right. split; [congruence|]. exists q; auto.
  Qed.

  (* every thread's state under any schedule is a state of its own solo run, and the store never changes *)
  Theorem readers_commute sched : forall s ps, Forall wfree ps ->
    let '(s', ps') := run sched s ps in
    s' = s /\ length ps' = length ps /\
    forall j p, nth_error ps j = Some p -> exists p', nth_error ps' j = Some p' /\ reaches s p p'.
  Proof.
    induction sched as [|i sched IH]; intros s ps HF; cbn.
    - repeat split; auto. intros j p H; exists p; split; auto using reaches.
    - pose proof (step_at_wfree i s ps HF) as H. destruct (step_at i s ps) as [s1 ps1].
      destruct H as (A & B & C & D). subst s1.
      specialize (IH s ps1 B). destruct (run sched s ps1) as [s2 ps2]. destruct IH as (E & F & G).
      repeat split; [assumption|congruence|].
      intros j p Hj. destruct (D j) as [Same|[-> (q & Q1 & Q2)]].
      + rewrite <- Same in Hj. destruct (G j p Hj) as (p' & P1 & P2). exists p'; auto.
      + rewrite Q1 in Hj; inversion Hj; subst q. destruct (G i _ Q2) as (p' & P1 & P2).
        exists p'; split; auto. apply r_step. exact P2.
  Qed.

  (* consequence: once a thread has returned under some schedule, that is its solo result *)
  Lemma reaches_ret s p r : reaches s p (Ret r) -> wfree p -> exists n, alone n s p = Some r.
  Proof.
    intros H. remember (Ret r) as q eqn:Q. induction H as [p | p q H IH]; intros W; subst.
    - exists 1. reflexivity.
    - destruct W as [r0 | k c Hc].
      + cbn in *. apply IH; auto using wfree.
      + cbn in *. destruct (IH eq_refl (Hc (s k))) as [n Hn]. exists (S n). exact Hn.
  Qed.
End Conc.

(* ===================== C17 in miniature: the pool as a state machine ===================== *)
Section Pool.
  (* objects are numbered by creation; ownership is a function, so "one holder at a time" is by construction *)
  Record pool := { cap : nat; idle : list nat; holder : nat -> option nat; next : nat }.
  Inductive op := Get (c : nat) | Return (c : nat) (o : nat).
  Definition set_holder (h : nat -> option nat) o v : nat -> option nat := fun o' => if Nat.eqb o' o then v else h o'.
  Definition opt_eqb (a : option nat) (c : nat) := match a with Some c' => Nat.eqb c c' | None => false end.

  (* select-with-default on both sides: total step functions, enabled in every state *)
  Definition pstep (p : pool) (x : op) : pool * option nat (* object handed out *) :=
    match x with
    | Get c =>
      match idle p with
      | o :: rest => ({| cap := cap p; idle := rest; holder := set_holder (holder p) o (Some c); next := next p |}, Some o)
      | [] => ({| cap := cap p; idle := []; holder := set_holder (holder p) (next p) (Some c); next := S (next p) |}, Some (next p))
      end
    | Return c o =>
      if opt_eqb (holder p o) c then                       (* client protocol: return only what you hold *)
        if Nat.ltb (length (idle p)) (cap p)
        then ({| cap := cap p; idle := idle p ++ [o]; holder := set_holder (holder p) o None; next := next p |}, None)
        else ({| cap := cap p; idle := idle p; holder := set_holder (holder p) o None; next := next p |}, None)  (* full: dropped *)
      else (p, None)
    end.

  Definition Inv (p : pool) : Prop :=
    length (idle p) <= cap p /\ NoDup (idle p) /\
    (forall o, In o (idle p) -> holder p o = None /\ o < next p) /\
    (forall o c, holder p o = Some c -> o < next p).

  Lemma opt_eqb_true a c : opt_eqb a c = true -> a = Some c.
  Proof. destruct a; cbn; [intros H; apply Nat.eqb_eq in H; congruence|discriminate]. Qed.

  Ltac inv4 := unfold Inv; cbn [cap idle holder next fst]; split; [|split; [|split]].

  Theorem pstep_inv p x : Inv p -> Inv (fst (pstep p x)).
  Proof.
    intros (I1 & I2 & I3 & I4). destruct x as [c | c o]; cbn [pstep].
    - destruct (idle p) as [|o rest] eqn:E; inv4.
      + cbn; lia.
      + apply NoDup_nil.
      + intros o [].
      + intros o c'. unfold set_holder. destruct (Nat.eqb_spec o (next p)); [lia|]. intros H; apply I4 in H; lia.
      + cbn in I1. lia.
      + inversion I2; assumption.
      + inversion I2; subst. intros o' H. destruct (I3 o' (or_intror H)) as [A B]. split; [|assumption].
        unfold set_holder. destruct (Nat.eqb_spec o' o); [subst; contradiction|assumption].
      + intros o' c'. unfold set_holder. destruct (Nat.eqb_spec o' o); [intros _; subst; apply (I3 o); left; auto|apply I4].
    - destruct (opt_eqb (holder p o) c) eqn:Hh; [|cbn [fst]; unfold Inv; auto].
      apply opt_eqb_true in Hh.
      assert (Hni : ~ In o (idle p)) by (intros H; apply I3 in H; destruct H; congruence).
      destruct (Nat.ltb_spec (length (idle p)) (cap p)); inv4.
      + rewrite app_length; cbn; lia.
      + apply (NoDup_Add (Add_app o (idle p) [])). rewrite app_nil_r. split; assumption.
      + intros o' H'. apply in_app_or in H'. unfold set_holder.
        destruct H' as [H'|[<-|[]]].
        * destruct (I3 o' H') as [A B]. split; [|assumption]. destruct (Nat.eqb_spec o' o); [reflexivity|assumption].
        * rewrite Nat.eqb_refl. split; [reflexivity|]. eapply I4; eassumption.
      + intros o' c'. unfold set_holder. destruct (Nat.eqb_spec o' o); [discriminate|apply I4].
      + assumption.
      + assumption.
      + intros o' H'. destruct (I3 o' H') as [A B]. split; [|assumption].
        unfold set_holder. destruct (Nat.eqb_spec o' o); [reflexivity|assumption].
      + intros o' c'. unfold set_holder. destruct (Nat.eqb_spec o' o); [discriminate|apply I4].
  Qed.

  (* every reachable state: fold over any operation sequence by any clients *)
  Definition run_ops (ops : list op) (p : pool) : pool := fold_left (fun q x => fst (pstep q x)) ops p.
  Theorem pool_inv_reachable ops p : Inv p -> Inv (run_ops ops p).
  Proof. revert p; induction ops as [|x ops IH]; cbn; intros p H; [exact H|]. apply IH, pstep_inv, H. Qed.

  (* a Get on an empty pool hands out an object nobody has seen; a Get always hands out something (never blocks) *)
  Theorem get_total p c : exists o, snd (pstep p (Get c)) = Some o.
  Proof. cbn. destruct (idle p); cbn; eauto. Qed.
  Theorem get_empty_fresh p c : Inv p -> idle p = [] -> snd (pstep p (Get c)) = Some (next p) /\ holder p (next p) = None.
  Proof.
    intros (_ & _ & _ & I4) E. cbn. rewrite E. cbn. split; [reflexivity|].
    destruct (holder p (next p)) eqn:H; [apply I4 in H; lia|reflexivity].
  Qed.
  (* the object handed out was held by nobody before the call *)
  Theorem get_exclusive p c o : Inv p -> snd (pstep p (Get c)) = Some o -> holder p o = None.
  Proof.
    intros I H. destruct (idle p) as [|o' rest] eqn:E.
    - destruct (get_empty_fresh p c I E) as [A B]. rewrite A in H. inversion H; subst. exact B.
    - cbn in H. rewrite E in H. cbn in H. inversion H; subst. destruct I as (_ & _ & I3 & _). apply I3. rewrite E. left; reflexivity.
  Qed.

  Example nonvacuous : Inv {| cap := 2; idle := [0]; holder := fun o => if Nat.eqb o 1 then Some 7 else None; next := 2 |}.
  Proof.
    unfold Inv; cbn; split; [lia|split; [|split]].
    - repeat constructor; intros [].
    - intros o [<-|[]]; split; [reflexivity|lia].
    - intros o c. destruct (Nat.eqb_spec o 1); [lia|discriminate].
  Qed.
End Pool.

Print Assumptions readers_commute.
Print Assumptions pool_inv_reachable.
