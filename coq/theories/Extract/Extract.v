(* Extraction of the executable model for the correspondence check.
   ExtrOcamlBasic only: bool, option, unit, list, prod, sumbool are mapped to OCaml's;
   no Extract Constant; Z / N / positive / nat stay Coq datatypes. *)
From Coq Require Extraction ExtrOcamlBasic.
From Coq Require Import ZArith List.
From GH Require Import Base.GoSem Base.Result Base.FloatBits Base.Utf8 Gen.GoConsts Gen.GoLeaf Model.Scalars Model.Strings Spec.Grammar Model.Pool Model.Encoder Model.Decoder Model.Extraction.
Extraction Language OCaml.
Extraction "model.ml"
  gencodeInt gencodeLong decode_int decode_long enc_kind dec_field_kind dec_top_int
  gintTag glongTag
  gencodeDouble decode_double is_nan64 enc_f32 dec_f32_field gencodeDate decode_date
  encode_string decode_string encode_binary decode_binary
  hparse hparse_all pstate0
  new_pool run_trace
  encode encode_writes array_root_elem_name lower_name capitalize_name
  decode is_nan32
  extract type_map_of.
