(* The reference grammar with class definitions in front of containers only.

   The grammar (Spec/Grammar.v) lets a class definition precede ANY value.  readField reads a
   field of a scalar Go type (string, integer, bool, float) with the scalar reader, which does
   not skip a definition; encoders emit a definition in front of the instance that needs it or of
   a value enclosing it.  `rparse` is the reference parser restricted to that placement: after a
   class definition comes a list, a map, an object or another definition.  It accepts a subset
   of what `hparse` accepts, with the same result (Proofs/DecRefines.v, rparse_is_hparse). *)
From Coq Require Import ZArith List Bool.
From GH Require Import Base.GoSem Base.Result Base.FloatBits Base.Utf8 Spec.Grammar.
Import ListNotations.
Open Scope Z_scope.

(* the first byte of a list, a map, an object or a class definition *)
Definition after_def_ok (bs : bytes) : bool :=
  match bs with
  | [] => false
  | t :: _ => (t =? 85) || (t =? 86) || rng 112 119 t || (t =? 87) || (t =? 88) || rng 120 127 t
              || (t =? 77) || (t =? 72) || (t =? 67) || (t =? 79) || rng 96 111 t
  end.
Definition def_chain (f0 : nat) (pv : pstate -> bytes -> pres hval) (st : pstate) (r : bytes) : pres hval :=
  do (cname, r1) <- parse_string_value f0 r ;;
  do (n, r2) <- parse_int_value r1 ;;
  if negb (count_ok n r2) then Err ECodec else
  do (fs, r3) <- parse_strings f0 (Z.to_nat n) r2 ;;
  if after_def_ok r3 then pv (st_add_class st (cname, fs)) r3 else Err ECodec.
Definition pvr_step (f0 : nat) pv pn pz pe (st : pstate) (bs : bytes) : pres hval :=
  match bs with
  | t :: r => if t =? 67 then def_chain f0 pv st r else pv_step f0 pv pn pz pe st bs
  | [] => Err EUnexpEof
  end.
Fixpoint rparsers (fuel0 fuel : nat) : parsers_t :=
  match fuel with
  | O => (fun _ _ => Fuel, fun _ _ _ => Fuel, fun _ _ => Fuel, fun _ _ => Fuel)
  | S f => let '(pv, pn, pz, pe) := rparsers fuel0 f in
           (pvr_step fuel0 pv pn pz pe, pn_step pv pn, pz_step pv pz, pe_step pv pe)
  end.
Definition rparse_v (fuel0 fuel : nat) := fst (fst (fst (rparsers fuel0 fuel))).
Definition rparse_n (fuel0 fuel : nat) := snd (fst (fst (rparsers fuel0 fuel))).
Definition rparse_z (fuel0 fuel : nat) := snd (fst (rparsers fuel0 fuel)).
Definition rparse_e (fuel0 fuel : nat) := snd (rparsers fuel0 fuel).
Definition rparse (st : pstate) (bs : bytes) : pres hval :=
  rparse_v (S (length bs)) (S (S (length bs))) st bs.
Definition rparse_all (bs : bytes) : result hval :=
  match rparse pstate0 bs with
  | Ok (v, [], _) => Ok v
  | Ok (_, _ :: _, _) => Err ECodec
  | Err e => Err e | Panic => Panic | Fuel => Fuel
  end.
