(* An independent reading of the Hessian 2.0 serialization grammar: the reference parser
   `hparse`.  Written from the grammar and the prose of the published document (as quoted in
   the file headers of the repository, plus the formal grammar for the productions those
   headers omit), NOT from the Go code: it uses none of the generated constants or predicates.

     value  ::= null | bool | int | long | double | date | string | binary | list | map
              | class-def value | object | ref
     int    ::= 'I' b3..b0 | [x80-xbf] | [xc0-xcf] b0 | [xd0-xd7] b1 b0
     long   ::= 'L' b7..b0 | [xd8-xef] | [xf0-xff] b0 | [x38-x3f] b1 b0 | x59 b3..b0
     double ::= 'D' b7..b0 | x5b | x5c | x5d b0 | x5e b1 b0 | x5f b3..b0   (x5f: 32-bit float)
     date   ::= x4a b7..b0 (milliseconds) | x4b b3..b0 (minutes)
     string ::= x52 b1 b0 <utf8> string | 'S' b1 b0 <utf8> | [x00-x1f] <utf8> | [x30-x33] b0 <utf8>
     binary ::= x41 b1 b0 <data> binary | 'B' b1 b0 <data> | [x20-x2f] <data> | [x34-x37] b0 <data>
     list   ::= x55 type value* 'Z' | 'V' type int value* | x57 value* 'Z' | x58 int value*
              | [x70-x77] type value* | [x78-x7f] value*
     map    ::= 'M' type (value value)* 'Z' | 'H' (value value)* 'Z'
     class-def ::= 'C' string int string*      object ::= 'O' int value* | [x60-x6f] value*
     ref    ::= x51 int                         type ::= string | int

   String lengths count code points and <utf8> is standard UTF-8 (strict). *)
From Coq Require Import ZArith List Bool.
From GH Require Import Base.GoSem Base.Result Base.FloatBits Base.Utf8.
Import ListNotations.
Open Scope Z_scope.

Definition name := list Z.   (* a string as its code points *)

Inductive hval :=
| HNull
| HBool (b : bool)
| HInt (z : Z)
| HLong (z : Z)
| HDouble (bits : Z)
| HDate (ms : Z)
| HString (rs : list Z)
| HBinary (bs : bytes)
| HList (ty : option name) (items : list hval)
| HMap (ty : option name) (entries : list (hval * hval))
| HObject (cls : name) (fields : list (name * hval))
| HRef (n : Z).

Record pstate := { ptypes : list name; pclasses : list (name * list name); popen : nat }.
Definition pstate0 : pstate := {| ptypes := []; pclasses := []; popen := 0 |}.
Definition st_open (st : pstate) : pstate :=
  {| ptypes := ptypes st; pclasses := pclasses st; popen := S (popen st) |}.
Definition st_add_type (st : pstate) (t : name) : pstate :=
  {| ptypes := ptypes st ++ [t]; pclasses := pclasses st; popen := popen st |}.
Definition st_add_class (st : pstate) (c : name * list name) : pstate :=
  {| ptypes := ptypes st; pclasses := pclasses st ++ [c]; popen := popen st |}.

Definition rng (lo hi t : Z) : bool := (lo <=? t) && (t <=? hi).

(* two's complement value of the big-endian bytes *)
Definition sbe (n : Z) (bs : bytes) : Z :=
  let u := be_val bs in if u <? 2 ^ (8 * n - 1) then u else u - 2 ^ (8 * n).

Definition need (n : nat) (bs : bytes) : result (bytes * bytes) :=
  match take_n n bs with Some p => Ok p | None => Err EUnexpEof end.

(* a count or index read from the input is compared with what is there before it is used as a
   nat (n values need at least n bytes; an index must be below the table size) *)
Definition nth_z {A} (l : list A) (i : Z) : option A :=
  if (i <? 0) || (Z.of_nat (length l) <=? i) then None else nth_error l (Z.to_nat i).
Definition count_ok (n : Z) (r : bytes) : bool := (0 <=? n) && (n <=? Z.of_nat (length r)).

(* ---- scalars, straight from the formulas of the document ---- *)
Definition is_int_tag (t : Z) : bool := rng 128 191 t || rng 192 207 t || rng 208 215 t || (t =? 73).
Definition parse_int (t : Z) (r : bytes) : result (Z * bytes) :=
  if rng 128 191 t then Ok (t - 144, r)                                   (* value = code - 0x90 *)
  else if rng 192 207 t then
    do (b, r') <- need 1 r ;; Ok ((t - 200) * 256 + be_val b, r')          (* ((code - 0xc8) << 8) + b0 *)
  else if rng 208 215 t then
    do (b, r') <- need 2 r ;; Ok ((t - 212) * 65536 + be_val b, r')        (* ((code - 0xd4) << 16) + (b1 << 8) + b0 *)
  else if t =? 73 then
    do (b, r') <- need 4 r ;; Ok (sbe 4 b, r')
  else Err ECodec.

Definition is_long_tag (t : Z) : bool := rng 216 239 t || rng 240 255 t || rng 56 63 t || (t =? 89) || (t =? 76).
Definition parse_long (t : Z) (r : bytes) : result (Z * bytes) :=
  if rng 216 239 t then Ok (t - 224, r)                                   (* value = code - 0xe0 *)
  else if rng 240 255 t then
    do (b, r') <- need 1 r ;; Ok ((t - 248) * 256 + be_val b, r')
  else if rng 56 63 t then
    do (b, r') <- need 2 r ;; Ok ((t - 60) * 65536 + be_val b, r')
  else if t =? 89 then
    do (b, r') <- need 4 r ;; Ok (sbe 4 b, r')
  else if t =? 76 then
    do (b, r') <- need 8 r ;; Ok (sbe 8 b, r')
  else Err ECodec.

Definition is_double_tag (t : Z) : bool := rng 91 95 t || (t =? 68).
Definition parse_double (t : Z) (r : bytes) : result (Z * bytes) :=
  if t =? 91 then Ok (of_int64 0, r)
  else if t =? 92 then Ok (of_int64 1, r)
  else if t =? 93 then do (b, r') <- need 1 r ;; Ok (of_int64 (sbe 1 b), r')
  else if t =? 94 then do (b, r') <- need 2 r ;; Ok (of_int64 (sbe 2 b), r')
  else if t =? 95 then do (b, r') <- need 4 r ;; Ok (widen (be_val b), r')
  else if t =? 68 then do (b, r') <- need 8 r ;; Ok (be_val b, r')
  else Err ECodec.

Definition is_date_tag (t : Z) : bool := (t =? 74) || (t =? 75).
Definition parse_date (t : Z) (r : bytes) : result (Z * bytes) :=
  if t =? 74 then do (b, r') <- need 8 r ;; Ok (sbe 8 b, r')              (* milliseconds *)
  else if t =? 75 then do (b, r') <- need 4 r ;; Ok (sbe 4 b * 60000, r')  (* MINUTES *)
  else Err ECodec.

(* strict UTF-8: one code point or failure *)
Definition utf8_dec_strict (bs : bytes) : option (Z * bytes) :=
  match utf8_dec bs with
  | Some (r, rest) =>
    if r =? rune_error
    then match bs with
         | b0 :: b1 :: b2 :: rest' => if (b0 =? 239) && (b1 =? 191) && (b2 =? 189) then Some (rune_error, rest') else None
         | _ => None end
    else Some (r, rest)
  | None => None
  end.
Fixpoint runes_n (n : nat) (bs : bytes) : result (list Z * bytes) :=
  match n with
  | O => Ok ([], bs)
  | S n' => match utf8_dec_strict bs with
            | None => Err ECodec
            | Some (r, bs') => do (rs, bs'') <- runes_n n' bs' ;; Ok (r :: rs, bs'')
            end
  end.

Definition is_string_tag (t : Z) : bool := rng 0 31 t || rng 48 51 t || (t =? 83) || (t =? 82).
(* header of one string chunk: (length, is_final) *)
Definition string_chunk_hdr (t : Z) (r : bytes) : result (Z * bool * bytes) :=
  if rng 0 31 t then Ok (t, true, r)
  else if rng 48 51 t then do (b, r') <- need 1 r ;; Ok ((t - 48) * 256 + be_val b, true, r')
  else if t =? 83 then do (b, r') <- need 2 r ;; Ok (be_val b, true, r')
  else if t =? 82 then do (b, r') <- need 2 r ;; Ok (be_val b, false, r')
  else Err ECodec.
Fixpoint parse_string (fuel : nat) (t : Z) (r : bytes) : result (list Z * bytes) :=
  match fuel with
  | O => Fuel
  | S f =>
    do (h, r1) <- string_chunk_hdr t r ;;
    let '(len, final) := h in
    do (rs, r2) <- runes_n (Z.to_nat len) r1 ;;
    if final then Ok (rs, r2)
    else match r2 with
         | [] => Err EUnexpEof
         | t' :: r3 => do (rs', r4) <- parse_string f t' r3 ;; Ok (rs ++ rs', r4)
         end
  end.

Definition is_binary_tag (t : Z) : bool := rng 32 47 t || rng 52 55 t || (t =? 66) || (t =? 65).
Definition binary_chunk_hdr (t : Z) (r : bytes) : result (Z * bool * bytes) :=
  if rng 32 47 t then Ok (t - 32, true, r)
  else if rng 52 55 t then do (b, r') <- need 1 r ;; Ok ((t - 52) * 256 + be_val b, true, r')
  else if t =? 66 then do (b, r') <- need 2 r ;; Ok (be_val b, true, r')
  else if t =? 65 then do (b, r') <- need 2 r ;; Ok (be_val b, false, r')
  else Err ECodec.
Fixpoint parse_binary (fuel : nat) (t : Z) (r : bytes) : result (bytes * bytes) :=
  match fuel with
  | O => Fuel
  | S f =>
    do (h, r1) <- binary_chunk_hdr t r ;;
    let '(len, final) := h in
    do (x, r2) <- need (Z.to_nat len) r1 ;;
    if final then Ok (x, r2)
    else match r2 with
         | [] => Err EUnexpEof
         | t' :: r3 => do (x', r4) <- parse_binary f t' r3 ;; Ok (x ++ x', r4)
         end
  end.

(* a value that must be a string / an int (class names, field names, counts, indexes) *)
Definition parse_string_value (fuel : nat) (bs : bytes) : result (list Z * bytes) :=
  match bs with
  | [] => Err EUnexpEof
  | t :: r => if is_string_tag t then parse_string fuel t r else Err ECodec
  end.
Definition parse_int_value (bs : bytes) : result (Z * bytes) :=
  match bs with
  | [] => Err EUnexpEof
  | t :: r => if is_int_tag t then parse_int t r else Err ECodec
  end.
Fixpoint parse_strings (fuel : nat) (n : nat) (bs : bytes) : result (list (list Z) * bytes) :=
  match n with
  | O => Ok ([], bs)
  | S n' => do (s, r) <- parse_string_value fuel bs ;;
            do (ss, r') <- parse_strings fuel n' r ;; Ok (s :: ss, r')
  end.

(* type ::= string | int *)
Definition parse_type (fuel : nat) (st : pstate) (bs : bytes) : result (name * bytes * pstate) :=
  match bs with
  | [] => Err EUnexpEof
  | t :: r =>
    if is_string_tag t then
      do (s, r') <- parse_string fuel t r ;; Ok (s, r', st_add_type st s)
    else if is_int_tag t then
      do (i, r') <- parse_int t r ;;
      match nth_z (ptypes st) i with
      | Some s => Ok (s, r', st)
      | None => Err ECodec
      end
    else Err ECodec
  end.

Definition pres (A : Type) := result (A * bytes * pstate).

(* ---- the recursive part, as step functions over the parsers of the next smaller fuel ---- *)
Section Step.
  Variable fuel0 : nat.   (* fuel handed to the (non-recursive in values) string/binary parsers *)
  Variable pv : pstate -> bytes -> pres hval.                            (* one value *)
  Variable pn : nat -> pstate -> bytes -> pres (list hval).              (* exactly n values *)
  Variable pz : pstate -> bytes -> pres (list hval).                     (* values up to 'Z' *)
  Variable pe : pstate -> bytes -> pres (list (hval * hval)).            (* pairs up to 'Z' *)

  Definition pn_step (n : nat) (st : pstate) (bs : bytes) : pres (list hval) :=
    match n with
    | O => Ok ([], bs, st)
    | S n' => do (x, st1) <- pv st bs ;; let '(v, r1) := x in
              do (y, st2) <- pn n' st1 r1 ;; let '(vs, r2) := y in Ok (v :: vs, r2, st2)
    end.
  Definition pz_step (st : pstate) (bs : bytes) : pres (list hval) :=
    match bs with
    | [] => Err EUnexpEof
    | 90 :: r => Ok ([], r, st)
    | _ => do (x, st1) <- pv st bs ;; let '(v, r1) := x in
           do (y, st2) <- pz st1 r1 ;; let '(vs, r2) := y in Ok (v :: vs, r2, st2)
    end.
  Definition pe_step (st : pstate) (bs : bytes) : pres (list (hval * hval)) :=
    match bs with
    | [] => Err EUnexpEof
    | 90 :: r => Ok ([], r, st)
    | _ => do (x, st1) <- pv st bs ;; let '(k, r1) := x in
           do (y, st2) <- pv st1 r1 ;; let '(v, r2) := y in
           do (z, st3) <- pe st2 r2 ;; let '(es, r3) := z in Ok ((k, v) :: es, r3, st3)
    end.

  Definition object_of (st : pstate) (idx : Z) (r : bytes) : pres hval :=
    match nth_z (pclasses st) idx with
    | None => Err ECodec
    | Some (cname, fnames) =>
      do (y, st2) <- pn (length fnames) (st_open st) r ;; let '(vs, r2) := y in
      Ok (HObject cname (combine fnames vs), r2, st2)
    end.

  Definition pv_step (st : pstate) (bs : bytes) : pres hval :=
    match bs with
    | [] => Err EUnexpEof
    | t :: r =>
      if t =? 78 then Ok (HNull, r, st)
      else if t =? 84 then Ok (HBool true, r, st)
      else if t =? 70 then Ok (HBool false, r, st)
      else if is_int_tag t then do (z, r') <- parse_int t r ;; Ok (HInt z, r', st)
      else if is_long_tag t then do (z, r') <- parse_long t r ;; Ok (HLong z, r', st)
      else if is_double_tag t then do (z, r') <- parse_double t r ;; Ok (HDouble z, r', st)
      else if is_date_tag t then do (z, r') <- parse_date t r ;; Ok (HDate z, r', st)
      else if is_string_tag t then do (s, r') <- parse_string fuel0 t r ;; Ok (HString s, r', st)
      else if is_binary_tag t then do (s, r') <- parse_binary fuel0 t r ;; Ok (HBinary s, r', st)
      else if t =? 81 then do (z, r') <- parse_int_value r ;; Ok (HRef z, r', st)
      (* lists *)
      else if t =? 85 then                                     (* x55 type value* 'Z' *)
        do (x, st1) <- parse_type fuel0 st r ;; let '(ty, r1) := x in
        do (y, st2) <- pz (st_open st1) r1 ;; let '(vs, r2) := y in Ok (HList (Some ty) vs, r2, st2)
      else if t =? 86 then                                     (* 'V' type int value* *)
        do (x, st1) <- parse_type fuel0 st r ;; let '(ty, r1) := x in
        do (n, r2) <- parse_int_value r1 ;;
        if negb (count_ok n r2) then Err ECodec else
        do (y, st2) <- pn (Z.to_nat n) (st_open st1) r2 ;; let '(vs, r3) := y in Ok (HList (Some ty) vs, r3, st2)
      else if t =? 87 then                                     (* x57 value* 'Z' *)
        do (y, st2) <- pz (st_open st) r ;; let '(vs, r2) := y in Ok (HList None vs, r2, st2)
      else if t =? 88 then                                     (* x58 int value* *)
        do (n, r2) <- parse_int_value r ;;
        if negb (count_ok n r2) then Err ECodec else
        do (y, st2) <- pn (Z.to_nat n) (st_open st) r2 ;; let '(vs, r3) := y in Ok (HList None vs, r3, st2)
      else if rng 112 119 t then                               (* [x70-x77] type value* *)
        do (x, st1) <- parse_type fuel0 st r ;; let '(ty, r1) := x in
        do (y, st2) <- pn (Z.to_nat (t - 112)) (st_open st1) r1 ;; let '(vs, r2) := y in Ok (HList (Some ty) vs, r2, st2)
      else if rng 120 127 t then                               (* [x78-x7f] value* *)
        do (y, st2) <- pn (Z.to_nat (t - 120)) (st_open st) r ;; let '(vs, r2) := y in Ok (HList None vs, r2, st2)
      (* maps *)
      else if t =? 77 then                                     (* 'M' type (value value)* 'Z' *)
        do (x, st1) <- parse_type fuel0 st r ;; let '(ty, r1) := x in
        do (y, st2) <- pe (st_open st1) r1 ;; let '(es, r2) := y in Ok (HMap (Some ty) es, r2, st2)
      else if t =? 72 then                                     (* 'H' (value value)* 'Z' *)
        do (y, st2) <- pe (st_open st) r ;; let '(es, r2) := y in Ok (HMap None es, r2, st2)
      (* class definition, then a value *)
      else if t =? 67 then
        do (cname, r1) <- parse_string_value fuel0 r ;;
        do (n, r2) <- parse_int_value r1 ;;
        if negb (count_ok n r2) then Err ECodec else
        do (fs, r3) <- parse_strings fuel0 (Z.to_nat n) r2 ;;
        pv (st_add_class st (cname, fs)) r3
      (* objects *)
      else if t =? 79 then do (i, r1) <- parse_int_value r ;; object_of st i r1
      else if rng 96 111 t then object_of st (t - 96) r
      else Err ECodec
    end.
End Step.

Definition parsers_t : Type :=
  ((pstate -> bytes -> pres hval) * (nat -> pstate -> bytes -> pres (list hval))
   * (pstate -> bytes -> pres (list hval)) * (pstate -> bytes -> pres (list (hval * hval))))%type.

Fixpoint parsers (fuel0 fuel : nat) : parsers_t :=
  match fuel with
  | O => (fun _ _ => Fuel, fun _ _ _ => Fuel, fun _ _ => Fuel, fun _ _ => Fuel)
  | S f => let '(pv, pn, pz, pe) := parsers fuel0 f in
           (pv_step fuel0 pv pn pz pe, pn_step pv pn, pz_step pv pz, pe_step pv pe)
  end.

Definition hparse_v (fuel0 fuel : nat) := fst (fst (fst (parsers fuel0 fuel))).
Definition hparse_n (fuel0 fuel : nat) := snd (fst (fst (parsers fuel0 fuel))).
Definition hparse_z (fuel0 fuel : nat) := snd (fst (parsers fuel0 fuel)).
Definition hparse_e (fuel0 fuel : nat) := snd (parsers fuel0 fuel).

(* one value from the front of bs, with fuel sufficient for any input of that length *)
Definition hparse (st : pstate) (bs : bytes) : pres hval :=
  hparse_v (S (length bs)) (S (S (length bs))) st bs.

(* a whole message: exactly one value and nothing left over *)
Definition hparse_all (bs : bytes) : result hval :=
  match hparse pstate0 bs with
  | Ok (v, [], _) => Ok v
  | Ok (_, _ :: _, _) => Err ECodec
  | Err e => Err e | Panic => Panic | Fuel => Fuel
  end.
