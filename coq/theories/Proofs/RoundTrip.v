(* C01 + C04 for object graphs: structs with scalar, string and pointer-to-struct fields, with
   arbitrary sharing and cycles.  What the encoder model writes for such a graph, the decoder
   model reads back as the same graph: the same scalars in the same fields, and two pointers
   equal exactly when they were (pointers are heap indices = the encoder's reference ordinals). *)
From Coq Require Import ZArith List Lia Bool.
From GH Require Import Base.GoSem Base.Result Base.FloatBits Base.TimeSem Base.Utf8 Gen.GoConsts Gen.GoLeaf
  Model.Scalars Model.Strings Spec.Grammar Model.Encoder Model.Decoder Model.Session
  Proofs.IntProofs Proofs.LongProofs Proofs.KindProofs Proofs.StringProofs Proofs.BinaryProofs Proofs.DateProofs Proofs.FloatFacts Proofs.DoubleProofs Proofs.SpecScalars Proofs.EncoderFacts Proofs.SessionProofs Proofs.StructFacts
  Proofs.EncSpec.
Import ListNotations.
Open Scope Z_scope.

(* ---------- decoder-side leaves ---------- *)
Lemma read_strings_app : forall names r, Forall (Forall valid_rune) names ->
  read_strings (length names) (concat (map encode_string names) ++ r) = Ok (names, r).
Proof.
  induction names as [|n ns IH]; intros r V; [reflexivity|]. inversion V as [|? ? Vn Vs]; subst.
  cbn [length map concat read_strings]. rewrite <- app_assoc, string_roundtrip by exact Vn. cbn [bind]. rewrite IH by exact Vs. reflexivity.
Qed.
Lemma read_class_def_app dst c names r : Forall valid_rune c -> Forall (Forall valid_rune) names ->
  Z.of_nat (length names) <= 2147483647 ->
  read_class_def dst (encode_string c ++ gencodeInt (swrap 32 (Z.of_nat (length names))) ++ concat (map encode_string names) ++ r) =
  Ok (tt, r, {| dtypes := dtypes dst; dcls := dcls dst ++ [(c, names)]; dheap := dheap dst |}).
Proof.
  intros Vc Vn Ln. unfold read_class_def. rewrite string_roundtrip by exact Vc. cbn [bind].
  rewrite int_roundtrip by apply swrap32_range. cbn [bind]. rewrite swrap32_id by (unfold in_i32; lia).
  destruct (Z.ltb_spec (Z.of_nat (length names)) 0); [lia|].
  pose proof (concat_len_ge names Vn) as CL.
  destruct (Z.ltb_spec (Z.of_nat (length (concat (map encode_string names) ++ r))) (Z.of_nat (length names))); [rewrite app_length in *; lia|].
  rewrite Nat2Z.id, read_strings_app by exact Vn. reflexivity.
Qed.

Section Dispatch.
  Variable tm : typmap.
  Variable R : readers.
  Lemma rs_nil st r : read_struct tm R st (78 :: r) = Ok (DNil, r, st). Proof. reflexivity. Qed.
  Lemma rs_ref st r : read_struct tm R st (81 :: r) = read_ref st r. Proof. reflexivity. Qed.
  Lemma rs_classdef st r : read_struct tm R st (67 :: r) = (do (x, st1) <- read_class_def st r ;; R_rd R st1 (snd x)). Proof. reflexivity. Qed.
  Lemma rs_long st r : read_struct tm R st (79 :: r) = (do (i, r') <- decode_int r ;; object_at tm R i st r'). Proof. reflexivity. Qed.
  Lemma rs_short st i r : 0 <= i <= 15 -> read_struct tm R st (96 + i :: r) = object_at tm R i st r.
  Proof.
    intros H.
    assert (C : i = 0 \/ i = 1 \/ i = 2 \/ i = 3 \/ i = 4 \/ i = 5 \/ i = 6 \/ i = 7 \/ i = 8 \/ i = 9 \/ i = 10 \/ i = 11 \/ i = 12 \/ i = 13 \/ i = 14 \/ i = 15) by lia.
    destruct C as [->|[->|[->|[->|[->|[->|[->|[->|[->|[->|[->|[->|[->|[->|[->| ->]]]]]]]]]]]]]]]; reflexivity.
  Qed.
  Lemma rd_short st i r : 0 <= i <= 15 -> rd_step tm R st (96 + i :: r) = object_at tm R i st r.
  Proof.
    intros H. destruct (short_instance_tag_dispatch tm R st i r H) as [E1 E2]. rewrite E1, E2. reflexivity.
  Qed.
  Lemma rd_long st r : rd_step tm R st (79 :: r) = (do (i, r') <- decode_int r ;; object_at tm R i st r'). Proof. reflexivity. Qed.
  Lemma rd_classdef st r : rd_step tm R st (67 :: r) = (do (x, st1) <- read_class_def st r ;; R_rd R st1 (snd x)). Proof. reflexivity. Qed.
End Dispatch.

(* ---------- the fragment and what it decodes to ---------- *)
Lemma list_set_app {A} (l : list A) x y more : list_set (l ++ x :: more) (length l) y = l ++ y :: more.
Proof. induction l as [|a l IH]; cbn; [reflexivity|]. rewrite IH. reflexivity. Qed.

Fixpoint assoc_all (acc : list (name * dval)) (kvs : list (name * dval)) : list (name * dval) :=
  match kvs with [] => acc | (k, v) :: r => assoc_all (assoc_set acc k v) r end.
Lemma assoc_set_notin acc k v : ~ In k (map fst acc) -> assoc_set acc k v = acc.
Proof.
  induction acc as [|[k' v'] r IH]; cbn; intros H; [reflexivity|].
  destruct (name_eqb k k') eqn:E; [apply name_eqb_true in E; subst; exfalso; apply H; left; reflexivity|].
  rewrite IH; [reflexivity|intros I; apply H; right; exact I].
Qed.
Lemma name_eqb_refl' a : name_eqb a a = true.
Proof. induction a as [|x a IH]; cbn; [reflexivity|rewrite Z.eqb_refl, IH; reflexivity]. Qed.
(* setting every key of a list with distinct keys, in order, replaces every value *)
Lemma assoc_all_replace : forall names (olds news : list dval) front,
  NoDup names -> length olds = length names -> length news = length names ->
  (forall k, In k names -> ~ In k (map fst front)) ->
  assoc_all (front ++ combine names olds) (combine names news) = front ++ combine names news.
Proof.
  induction names as [|n ns IH]; intros olds news front ND Lo Ln Hf.
  - destruct olds; destruct news; try discriminate. reflexivity.
  - destruct olds as [|o os]; [discriminate|]. destruct news as [|w ws]; [discriminate|].
    inversion ND as [|? ? NI ND']; subst. cbn [combine assoc_all].
    assert (E : assoc_set (front ++ (n, o) :: combine ns os) n w = front ++ (n, w) :: combine ns os).
    { clear IH. induction front as [|[k v] fr IHf]; cbn [app assoc_set].
      - rewrite name_eqb_refl'. reflexivity.
      - destruct (name_eqb n k) eqn:E; [apply name_eqb_true in E; subst; exfalso; apply (Hf k); [left; reflexivity|left; reflexivity]|].
        rewrite IHf; [reflexivity|]. intros k0 I0 I1. apply (Hf k0 I0). right. exact I1. }
    rewrite E. replace (front ++ (n, w) :: combine ns os) with ((front ++ [(n, w)]) ++ combine ns os) by (rewrite <- app_assoc; reflexivity).
    rewrite IH; [rewrite <- app_assoc; reflexivity|exact ND'|cbn in Lo; lia|cbn in Ln; lia|].
    intros k I. rewrite map_app. intros I2. apply in_app_or in I2. destruct I2 as [I2|[I2|[]]].
    + apply (Hf k); [right; exact I|exact I2].
    + cbn in I2. subst k. contradiction.
Qed.

Lemma ref_find_nth : forall refs a k i0 i, ref_find refs a k i0 = Some i ->
  i0 <= i < i0 + Z.of_nat (length refs) /\ nth_error refs (Z.to_nat (i - i0)) = Some (a, k).
Proof.
  induction refs as [|[b kb] r IH]; intros a k i0 i H; cbn [ref_find] in H; [discriminate|].
  destruct ((b =? a) && rkind_eqb k kb && negb (a =? 0)) eqn:E.
  - inversion H; subst i. apply andb_true_iff in E. destruct E as [E _]. apply andb_true_iff in E. destruct E as [E1 E2].
    replace (i0 - i0) with 0 by lia. cbn [length]. split; [lia|]. cbn. assert (b = a) by lia. subst b. assert (kb = k) by (destruct k; destruct kb; try discriminate; reflexivity). subst kb. reflexivity.
  - destruct (IH _ _ _ _ H) as [B N]. cbn [length]. split; [lia|].
    replace (Z.to_nat (i - i0)) with (S (Z.to_nat (i - (i0 + 1)))) by lia. exact N.
Qed.

Definition cell_ty (c : rcell) : option name := match c with RObj ty _ => Some ty | _ => None end.

Fixpoint need_d (v : gval) : nat :=
  match v with
  | VStruct _ _ fs =>
    3 + (fix go (l : list (name * gval)) : nat := match l with [] => 1 | (_, x) :: r => 1 + Nat.max (need_d x) (go r) end) fs
  | VSlice _ _ l => 2 + (fix go (l : list gval) : nat := match l with [] => 1 | x :: r => 1 + Nat.max (need_d x) (go r) end) l
  | VMap _ _ es =>
    2 + (fix go (l : list (gval * gval)) : nat :=
           match l with [] => 2 | (k, x) :: r => 1 + Nat.max (need_d k) (Nat.max (need_d x) (go r)) end) es
  | VBytes _ => 2
  | _ => 1
  end%nat.
Fixpoint need_dentries (l : list (gval * gval)) : nat :=
  match l with [] => 2 | (k, x) :: r => 1 + Nat.max (need_d k) (Nat.max (need_d x) (need_dentries r)) end%nat.
Fixpoint need_ditems (l : list gval) : nat := match l with [] => 1 | x :: r => 1 + Nat.max (need_d x) (need_ditems r) end%nat.
Lemma need_d_struct a ty fs : need_d (VStruct a ty fs) = (3 + need_ditems (map snd fs))%nat.
Proof. cbn [need_d]. apply (f_equal (fun k => (3 + k)%nat)). induction fs as [|[n x] r IH]; cbn [map snd need_ditems]; [reflexivity|]. rewrite <- IH. reflexivity. Qed.
Lemma need_d_slice a ty l : need_d (VSlice a ty l) = (2 + need_ditems l)%nat.
Proof. cbn [need_d]. apply (f_equal (fun k => (2 + k)%nat)). induction l as [|x r IH]; cbn [need_ditems]; [reflexivity|]. rewrite <- IH. reflexivity. Qed.
Lemma need_d_map a ty es : need_d (VMap a ty es) = (2 + need_dentries es)%nat.
Proof. cbn [need_d]. apply (f_equal (fun k => (2 + k)%nat)). induction es as [|[k x] r IH]; cbn [need_dentries]; [reflexivity|]. rewrite <- IH. reflexivity. Qed.
Lemma need_d_pos v : (1 <= need_d v)%nat.
Proof. destruct v; cbn [need_d]; lia. Qed.

Lemma take_n_app_exact : forall n r x rest, take_n n r = Some (x, []) -> take_n n (r ++ rest) = Some (x, rest).
Proof.
  induction n as [|n IH]; intros r x rest H; cbn [take_n] in *.
  - inversion H; subst. reflexivity.
  - destruct r as [|b r0]; [discriminate|]. cbn [app]. destruct (take_n n r0) as [[x0 r1]|] eqn:E; [|discriminate].
    inversion H; subst. rewrite (IH _ _ rest E). reflexivity.
Qed.
Lemma read_full_app_exact n r x rest : read_full n r = Ok (x, []) -> read_full n (r ++ rest) = Ok (x, rest).
Proof.
  unfold read_full. destruct n as [|n]; [intros H; inversion H; subst; reflexivity|].
  destruct r as [|b r0]; [discriminate|]. cbn [app]. destruct (take_n (S n) (b :: r0)) as [[x0 r1]|] eqn:E; [|discriminate].
  intros H. inversion H; subst. change (b :: r0 ++ rest) with ((b :: r0) ++ rest). rewrite (take_n_app_exact _ _ _ rest E). reflexivity.
Qed.
Lemma decode_double_ext bs d : decode_double bs = Ok (d, []) -> forall rest, decode_double (bs ++ rest) = Ok (d, rest).
Proof.
  unfold decode_double. destruct bs as [|t r]; [discriminate|]. cbn [read_tag bind app]. unfold decode_double_tag. intros H rest.
  destruct (t =? g_doubleZeroTag); [inversion H; subst; reflexivity|]. destruct (t =? g_doubleOneTag); [inversion H; subst; reflexivity|].
  destruct (t =? g_doubleOneByteTag).
  { destruct r as [|b r0]; [discriminate|]. cbn [read_tag bind app] in *. inversion H; subst. reflexivity. }
  destruct (t =? g_doubleTwoByteTag).
  { destruct (read_full 2 r) as [[bf r']| | |] eqn:E; try discriminate. cbn [bind] in H. inversion H; subst. rewrite (read_full_app_exact _ _ _ rest E). reflexivity. }
  destruct (t =? g_doubleFourByteTag).
  { destruct (read_full 4 r) as [[bf r']| | |] eqn:E; try discriminate. cbn [bind] in H. inversion H; subst. rewrite (read_full_app_exact _ _ _ rest E). reflexivity. }
  destruct (t =? g_doubleLongStartTag); [|discriminate].
  destruct (read_full 8 r) as [[bf r']| | |] eqn:E; try discriminate. cbn [bind] in H. inversion H; subst. rewrite (read_full_app_exact _ _ _ rest E). reflexivity.
Qed.

(* the wire fields that have a Go counterpart, under the Go field's name, in wire order *)
Fixpoint bind_known (gfs : list (name * gtype)) (names : list name) (ds : list dval) : list (name * dval) :=
  match names, ds with
  | n :: ns, d :: ds' => match find_field gfs (lower_name n) with
                         | Some (gn, _) => (gn, d) :: bind_known gfs ns ds'
                         | None => bind_known gfs ns ds'
                         end
  | _, _ => []
  end.
Definition zeros_of (te : tenv) (gfs : list (name * gtype)) : list (name * dval) := map (fun p => (fst p, zero te (snd p))) gfs.

Section RT.
Variable nm : namemap.
Variable F : name -> list name.
Variable te : tenv.
Variable tm : typmap.
Variable ty_of : Z -> name.     (* the struct type of the object at an address *)

Definition fields_findable (gfs : list (name * gtype)) : Prop :=
  NoDup (map fst gfs) /\ forall n t, In (n, t) gfs -> find_field gfs (lower_name n) = Some (n, t).

(* a map without a wire type name comes back untyped when it is read as a value on its own or as a
   list element (known finding C01-F1); as a map-typed struct field it is read with the field's types *)
Definition elem_pos_ok (v : gval) : Prop := match v with VMap _ ty _ => nm_lookup nm ty <> None | _ => True end.
(* map keys: strings and integers *)
Definition key_ok (k : gval) : Prop := match k with VStr _ | VInt _ _ => True | _ => False end.
Definition key_img (k : gval) : dval := match k with VStr rs => DStr rs | VInt k z => DInt k z | _ => DNil end.
(* the values of the fragment, at the Go type of the position they occupy *)
Inductive sgv : gtype -> gval -> Prop :=
| sg_int k z : in_kind k z -> sgv (TInt k) (VInt k z)
| sg_bool b : sgv TBool (VBool b)
| sg_str rs : Forall valid_rune rs -> sgv TStr (VStr rs)
| sg_f64 b : in_f64 b -> sgv TF64 (VF64 b)
| sg_bytes bs : sgv TBytes (VBytes bs)
| sg_time s n : year_ok s -> 0 <= n < 1000000000 -> sgv TTime (VTime s n)
| sg_slice ty l e ltn : nm_lookup nm ty = Some ltn -> name_eqb interface_type_name (array_root_elem_name ty) = false ->
    tm_lookup tm ltn = Some (TSlice e) -> Forall valid_rune ltn -> e <> TIface -> Z.of_nat (length l) <= 2147483647 ->
    Forall (sgv e) l -> Forall elem_pos_ok l -> sgv (TSlice e) (VSlice 0 ty l)                           (* a list not shared with another position *)
| sg_map ty es kt vt : kt <> TIface -> vt <> TIface ->
    (forall mn, nm_lookup nm ty = Some mn -> Forall valid_rune mn /\ tm_lookup tm mn = Some (TMap kt vt)) ->
    Forall key_ok (map fst es) -> NoDup (map fst es) ->
    Forall (fun e => sgv kt (fst e) /\ sgv vt (snd e) /\ elem_pos_ok (snd e)) es ->
    sgv (TMap kt vt) (VMap 0 ty es)                                              (* a map not shared with another position *)
| sg_nilptr n : sgv (TPtr (TStruct n)) VNil
| sg_seen a : sgv (TPtr (TStruct (ty_of a))) (VSeen RStruct a)
| sg_struct a ty fs c gfs : a <> 0 -> ty_of a = ty -> nm_lookup nm ty = Some c -> tm_lookup tm c = Some (TStruct ty) ->
    te_lookup te ty = Some gfs ->
    Forall valid_rune c -> map lower_name (map fst fs) = F c -> Forall (Forall valid_rune) (F c) ->
    Z.of_nat (length fs) <= 2147483647 -> has_dup (bound_names gfs (F c)) = false ->      (* no Go field is bound by two wire names *)
    (* the rendering lists ANY fields in ANY order: those with a Go counterpart carry a value of that field's type,
       the others any value of the fragment *)
    Forall (fun f => forall gn gt, find_field gfs (lower_name (fst f)) = Some (gn, gt) -> sgv gt (snd f)) fs ->
    Forall (fun f => find_field gfs (lower_name (fst f)) = None -> exists t', t' <> TIface /\ sgv t' (snd f) /\ elem_pos_ok (snd f)) fs ->
    sgv (TPtr (TStruct ty)) (VStruct a ty fs)
| sg_structv ty fs c gfs : nm_lookup nm ty = Some c -> tm_lookup tm c = Some (TStruct ty) ->
    te_lookup te ty = Some gfs ->
    Forall valid_rune c -> map lower_name (map fst fs) = F c -> Forall (Forall valid_rune) (F c) ->
    Z.of_nat (length fs) <= 2147483647 -> has_dup (bound_names gfs (F c)) = false ->
    Forall (fun f => forall gn gt, find_field gfs (lower_name (fst f)) = Some (gn, gt) -> sgv gt (snd f)) fs ->
    Forall (fun f => find_field gfs (lower_name (fst f)) = None -> exists t', t' <> TIface /\ sgv t' (snd f) /\ elem_pos_ok (snd f)) fs ->
    sgv (TStruct ty) (VStruct 0 ty fs).                                          (* a struct held by value *)

(* the decoded graph: the value at this position, and the heap cells created for the objects
   met for the first time, in order *)
Inductive dg : list (Z * rkind) -> gval -> dval -> list rcell -> list (Z * rkind) -> Prop :=
| dg_int refs k z : dg refs (VInt k z) (DInt k z) [] refs
| dg_bool refs b : dg refs (VBool b) (DBool b) [] refs
| dg_str refs rs : dg refs (VStr rs) (DStr rs) [] refs
| dg_f64 refs b d : feq d b = true -> dg refs (VF64 b) (DF64 d) [] refs                 (* the same number *)
| dg_bytes refs bs : dg refs (VBytes bs) (DBytes bs) [] refs
| dg_time0 refs s n : time_is_zero s n = true -> dg refs (VTime s n) (DTime zero_time_sec 0) [] refs
| dg_time refs s n : time_is_zero s n = false -> dg refs (VTime s n) (DTime s (n - n mod 1000000)) [] refs   (* to the millisecond *)
| dg_nil refs : dg refs VNil DNil [] refs
| dg_seen refs a i : ref_find refs a RStruct 0 = Some i -> dg refs (VSeen RStruct a) (DPtr (Z.to_nat i) (ty_of a)) [] refs
| dg_hit refs a ty fs i : ref_find refs a RStruct 0 = Some i -> dg refs (VStruct a ty fs) (DPtr (Z.to_nat i) (ty_of a)) [] refs
| dg_new refs a ty fs gfs ds cells refs' : ref_find refs a RStruct 0 = None -> te_lookup te ty = Some gfs ->
    dgs (refs ++ [(a, RStruct)]) (map snd fs) ds cells refs' ->
    (* every Go field holds the value of the wire field of its name (the last one, if repeated), else its zero value *)
    dg refs (VStruct a ty fs) (DPtr (length refs) ty)
       (RObj ty (Some (assoc_all (zeros_of te gfs) (bind_known gfs (map fst fs) ds))) :: cells) refs'
| dg_newv refs ty fs gfs ds cells refs' : te_lookup te ty = Some gfs ->
    dgs (refs ++ [(0, RStruct)]) (map snd fs) ds cells refs' ->
    dg refs (VStruct 0 ty fs) (DStructV ty (assoc_all (zeros_of te gfs) (bind_known gfs (map fst fs) ds)))
       (RObj ty (Some (assoc_all (zeros_of te gfs) (bind_known gfs (map fst fs) ds))) :: cells) refs'          (* held by value: a copy *)
| dg_slice refs ty l e ds cells refs' : dgs (refs ++ [(0, RSlice)]) l ds cells refs' ->
    dg refs (VSlice 0 ty l) (DSlice e ds) (RList (Some (DSlice e ds)) :: cells) refs'
| dg_map0 refs ty kt vt : dg refs (VMap 0 ty []) (DMapV kt vt []) [] refs                 (* nil and empty maps: null on the wire *)
| dg_map refs ty e es kt vt des cells refs' : dges (refs ++ [(0, Encoder.RMap)]) (e :: es) des cells refs' ->
    dg refs (VMap 0 ty (e :: es)) (DMapV kt vt des) (Decoder.RMap (Some (DMapV kt vt des)) :: cells) refs'
with dgs : list (Z * rkind) -> list gval -> list dval -> list rcell -> list (Z * rkind) -> Prop :=
| dgs_nil refs : dgs refs [] [] [] refs
| dgs_cons refs x r d ds c1 c2 refs1 refs2 : dg refs x d c1 refs1 -> dgs refs1 r ds c2 refs2 ->
    dgs refs (x :: r) (d :: ds) (c1 ++ c2) refs2
with dges : list (Z * rkind) -> list (gval * gval) -> list (dval * dval) -> list rcell -> list (Z * rkind) -> Prop :=
| dges_nil refs : dges refs [] [] [] refs
| dges_cons refs k x r dk dx des c1 c2 c3 refs1 refs2 refs3 : dg refs k dk c1 refs1 -> dg refs1 x dx c2 refs2 -> dges refs2 r des c3 refs3 ->
    dges refs ((k, x) :: r) ((dk, dx) :: des) (c1 ++ c2 ++ c3) refs3.

Definition cell_kind (c : rcell) : rkind :=
  match c with RObj _ _ => RStruct | RList _ => RSlice | Decoder.RMap _ => Encoder.RMap end.
(* encoder and decoder in step: same class table; one heap cell per registered container, of the
   same kind; the cell of an object reached through a pointer has the type of that object *)
Definition Inv (st : estate) (dst : dstate) : Prop :=
  dcls dst = ecls st /\ map cell_kind (dheap dst) = map snd (erefs st) /\
  (forall i a, nth_error (erefs st) i = Some (a, RStruct) -> a <> 0 -> exists o, nth_error (dheap dst) i = Some (RObj (ty_of a) o)).
Lemma Inv_len st dst : Inv st dst -> length (dheap dst) = length (erefs st).
Proof. intros (_ & H & _). rewrite <- (map_length cell_kind), H, map_length. reflexivity. Qed.
Lemma Inv_nth st dst i a : Inv st dst -> nth_error (erefs st) i = Some (a, RStruct) -> a <> 0 -> exists o, nth_error (dheap dst) i = Some (RObj (ty_of a) o).
Proof. intros (_ & _ & H). apply H. Qed.
Lemma Inv_push st dst st1 dstX c a k : Inv st dst -> dcls dstX = ecls st1 -> dheap dstX = dheap dst ->
  erefs st1 = erefs st ++ [(a, k)] -> cell_kind c = k -> (k = RStruct -> a <> 0 -> exists o, c = RObj (ty_of a) o) ->
  Inv st1 (heap_push dstX c).
Proof.
  intros I DC DH ER CK CT. pose proof (Inv_len _ _ I) as IL. destruct I as (I1 & I2 & I3).
  split; [exact DC|]. cbn [heap_push dheap]. rewrite DH, ER. split; [rewrite !map_app, I2; cbn; rewrite CK; reflexivity|].
  intros i a0 N NZ. destruct (Nat.lt_ge_cases i (length (erefs st))) as [L|L].
  - rewrite nth_error_app1 in N by exact L. rewrite nth_error_app1 by (rewrite IL; exact L). apply I3; assumption.
  - rewrite nth_error_app2 in N by exact L. rewrite nth_error_app2 by (rewrite IL; exact L). rewrite IL.
    destruct (i - length (erefs st))%nat as [|j]; [|destruct j; discriminate]. cbn in N. inversion N as [[Na Nk]]. subst a0.
    destruct (CT Nk NZ) as [o ->]. eexists; reflexivity.
Qed.
Lemma Inv_fill st' dst2 pre c c' post : Inv st' dst2 -> dheap dst2 = pre ++ c :: post -> cell_kind c' = cell_kind c ->
  (forall ty o, c = RObj ty o -> exists o', c' = RObj ty o') ->
  Inv st' (heap_set dst2 (length pre) c') /\ dheap (heap_set dst2 (length pre) c') = pre ++ c' :: post.
Proof.
  intros (I1 & I2 & I3) H CK CT.
  assert (HH : dheap (heap_set dst2 (length pre) c') = pre ++ c' :: post) by (unfold heap_set; cbn [dheap]; rewrite H; apply list_set_app).
  split; [|exact HH]. split; [exact I1|]. rewrite HH. split.
  - rewrite <- I2, H, !map_app. cbn [map]. rewrite CK. reflexivity.
  - intros i a N NZ. destruct (I3 i a N NZ) as [o E]. rewrite H in E.
    destruct (Nat.lt_ge_cases i (length pre)) as [L|L].
    + rewrite nth_error_app1 in E by exact L. rewrite nth_error_app1 by exact L. eexists; exact E.
    + rewrite nth_error_app2 in E by exact L. rewrite nth_error_app2 by exact L.
      destruct (i - length pre)%nat as [|j]; [|eexists; exact E]. cbn in E |- *. inversion E as [E']. destruct (CT _ _ E') as [o' ->]. eexists; reflexivity.
Qed.
Lemma ref_find_nonzero : forall refs a k i0 i, ref_find refs a k i0 = Some i -> a <> 0.
Proof.
  induction refs as [|[b kb] r IH]; intros a k i0 i H; cbn [ref_find] in H; [discriminate|].
  destruct ((b =? a) && rkind_eqb k kb && negb (a =? 0)) eqn:E; [|eapply IH; exact H]. lia.
Qed.

Definition rt_post (t : gtype) (v : gval) (st st' : estate) : Prop :=
  cls_ok F (ecls st') /\ enm st' = enm st /\ grows st st' /\
  exists bs d cells, ebytes st' = ebytes st ++ bs /\ (1 <= length bs)%nat /\ dg (erefs st) v d cells (erefs st') /\
    (small st' -> forall dst rest, Inv st dst ->
       exists dst', Inv st' dst' /\ dheap dst' = dheap dst ++ cells /\
       forall f, (need_d v <= f)%nat ->
         R_rf (readers_at te tm f) t dst (bs ++ rest) = Ok (d, rest, dst') /\
         (forall a ty fs, v = VStruct a ty fs -> a <> 0 -> R_rd (readers_at te tm f) dst (bs ++ rest) = Ok (d, rest, dst')) /\
         (t <> TIface -> elem_pos_ok v ->
            exists d0, R_rd (readers_at te tm f) dst (bs ++ rest) = Ok (d0, rest, dst') /\ set_value te (dheap dst') t d0 = Ok d)).
Definition rt_ok (v : gval) : Prop := forall t st st',
  enm st = nm -> sgv t v -> cls_ok F (ecls st) -> write_data v st = Ok st' -> rt_post t v st st'.

Lemma rf_S f t dst bs : R_rf (readers_at te tm (S f)) t dst bs = rf_step te tm (readers_at te tm f) t dst bs.
Proof. reflexivity. Qed.
Lemma rfs_S f g w acc dst bs : R_rfs (readers_at te tm (S f)) g w acc dst bs = rfs_step (readers_at te tm f) g w acc dst bs.
Proof. reflexivity. Qed.
Lemma ro_S f n w dst bs : R_ro (readers_at te tm (S f)) n w dst bs = ro_step te (readers_at te tm f) n w dst bs.
Proof. reflexivity. Qed.
Lemma rd_S f dst bs : R_rd (readers_at te tm (S f)) dst bs = rd_step tm (readers_at te tm f) dst bs.
Proof. reflexivity. Qed.

(* a scalar leaf: one emit, tables untouched *)
Lemma rt_leaf t v st bs d :
  dg (erefs st) v d [] (erefs st) -> (forall a ty fs, v <> VStruct a ty fs) -> cls_ok F (ecls st) -> (1 <= length bs)%nat ->
  (forall R dst rest, rf_step te tm R t dst (bs ++ rest) = Ok (d, rest, dst)) ->
  (forall f dst rest, exists d0, R_rd (readers_at te tm (S f)) dst (bs ++ rest) = Ok (d0, rest, dst) /\ forall heap, set_value te heap t d0 = Ok d) ->
  rt_post t v st (emit st bs).
Proof.
  intros D NS C LB P PE. split; [exact C|]. split; [reflexivity|]. split; [split; cbn; lia|].
  exists bs, d, []. split; [apply ebytes_emit|]. split; [exact LB|]. split; [exact D|].
  intros _ dst rest I. exists dst. split; [exact I|]. split; [rewrite app_nil_r; reflexivity|].
  intros f Hf. pose proof (need_d_pos v). destruct f as [|f]; [lia|]. split; [rewrite rf_S; apply P|].
  split; [intros a ty fs E _; exfalso; eapply NS; exact E|]. intros _ _. destruct (PE f dst rest) as (d0 & A & B). exists d0. split; [exact A|apply B].
Qed.
Lemma elem_of_rd R t dst bs d0 d rest dst' : R_rd R dst bs = Ok (d0, rest, dst') -> set_value te (dheap dst') t d0 = Ok d -> t <> TIface ->
  elem_step te R t dst bs = Ok (d, rest, dst').
Proof. intros H SV NI. unfold elem_step. rewrite H. cbn [bind]. destruct t; try (rewrite SV; reflexivity). contradiction. Qed.

(* ---- what ReadData makes of each leaf rendering ---- *)
Lemma gdoubleTag_eq t : gdoubleTag t = ((t =? 89) || (t =? 95) || (t =? 91) || (t =? 92) || (t =? 93) || (t =? 94) || (t =? 68))%bool.
Proof. unfold gdoubleTag. destruct ((t =? 89) || (t =? 95) || (t =? 91) || (t =? 92) || (t =? 93) || (t =? 94) || (t =? 68))%bool; reflexivity. Qed.
Lemma rdv_int R st v rest : in_i32 v -> rd_step tm R st (gencodeInt v ++ rest) = Ok (DInt KInt32 v, rest, st).
Proof.
  intros H. destruct (int_first_tag v H) as (t & r0 & E & T). pose proof (int_roundtrip v rest H) as RT. unfold decode_int in RT.
  rewrite E in *. cbn [app read_tag bind] in *. unfold rd_step.
  assert (X : (t =? g_endFlag) = false /\ (t =? g_nilTag) = false /\ (t =? g_boolTrueTag) = false /\ (t =? g_boolFalseTag) = false)
    by (unfold gintTag in T; unfold g_endFlag, g_nilTag, g_boolTrueTag, g_boolFalseTag; lia).
  destruct X as (X1 & X2 & X3 & X4). rewrite X1, X2, X3, X4, T, RT. reflexivity.
Qed.
Lemma rdv_long R st v rest : in_i64 v -> rd_step tm R st (gencodeLong v ++ rest) = Ok (DInt KInt64 v, rest, st).
Proof.
  intros H. destruct (long_first_tag v H) as (t & r0 & E & T0 & T). pose proof (long_roundtrip v rest H) as RT. unfold decode_long in RT.
  rewrite E in *. cbn [app read_tag bind] in *. unfold rd_step.
  assert (X : (t =? g_endFlag) = false /\ (t =? g_nilTag) = false /\ (t =? g_boolTrueTag) = false /\ (t =? g_boolFalseTag) = false)
    by (unfold glongTag in T; unfold g_endFlag, g_nilTag, g_boolTrueTag, g_boolFalseTag; lia).
  destruct X as (X1 & X2 & X3 & X4). rewrite X1, X2, X3, X4, T0, T, RT. reflexivity.
Qed.
Lemma rdv_str R st rs rest : Forall valid_rune rs -> rd_step tm R st (encode_string rs ++ rest) = Ok (DStr rs, rest, st).
Proof.
  intros V. destruct (string_denotes rs [] V) as (t & tl & E & T & _). pose proof (string_roundtrip rs rest V) as RT. unfold decode_string in RT.
  rewrite E in *. cbn [app read_tag bind] in *. unfold rd_step. unfold is_string_tag, rng in T.
  replace (t =? g_endFlag) with false by (unfold g_endFlag; lia). replace (t =? g_nilTag) with false by (unfold g_nilTag; lia).
  replace (t =? g_boolTrueTag) with false by (unfold g_boolTrueTag; lia). replace (t =? g_boolFalseTag) with false by (unfold g_boolFalseTag; lia).
  replace (gintTag t) with false by (unfold gintTag; lia). replace (glongTag t) with false by (unfold glongTag; lia).
  replace (gdoubleTag t) with false by (rewrite gdoubleTag_eq; lia).
  replace (gstringTag t) with true by (unfold gstringTag, gstringShortTag, gstringMiddleTag, gstringChunkTag; lia).
  rewrite RT. reflexivity.
Qed.
Lemma rdv_double R st b bs d rest : in_f64 b -> gencodeDouble b = Ok bs -> decode_double bs = Ok (d, []) ->
  rd_step tm R st (bs ++ rest) = Ok (DF64 d, rest, st).
Proof.
  intros Hb E D. destruct (double_denotes b bs [] Hb E) as (t & tl & d0 & B & T0 & T1 & T & _).
  pose proof (decode_double_ext bs d D rest) as RT. unfold decode_double in RT. rewrite B in *. cbn [app read_tag bind] in *.
  unfold rd_step. unfold is_double_tag, rng in T. unfold is_int_tag, rng in T0. unfold is_long_tag, rng in T1.
  replace (t =? g_endFlag) with false by (unfold g_endFlag; lia). replace (t =? g_nilTag) with false by (unfold g_nilTag; lia).
  replace (t =? g_boolTrueTag) with false by (unfold g_boolTrueTag; lia). replace (t =? g_boolFalseTag) with false by (unfold g_boolFalseTag; lia).
  replace (gintTag t) with false by (unfold gintTag; lia). replace (glongTag t) with false by (unfold glongTag; lia).
  replace (gdoubleTag t) with true by (rewrite gdoubleTag_eq; lia).
  rewrite RT. reflexivity.
Qed.
Lemma rdv_binary R st bs rest : rd_step tm R st (encode_binary bs ++ rest) = Ok (DBytes bs, rest, st).
Proof.
  destruct (binary_denotes bs []) as (t & tl & E & T & _). pose proof (binary_roundtrip bs rest) as RT. unfold decode_binary in RT.
  rewrite E in *. cbn [app read_tag bind] in *. unfold rd_step. unfold is_binary_tag, rng in T.
  replace (t =? g_endFlag) with false by (unfold g_endFlag; lia). replace (t =? g_nilTag) with false by (unfold g_nilTag; lia).
  replace (t =? g_boolTrueTag) with false by (unfold g_boolTrueTag; lia). replace (t =? g_boolFalseTag) with false by (unfold g_boolFalseTag; lia).
  replace (gintTag t) with false by (unfold gintTag; lia). replace (glongTag t) with false by (unfold glongTag; lia).
  replace (gdoubleTag t) with false by (rewrite gdoubleTag_eq; lia).
  replace (gstringTag t) with false by (unfold gstringTag, gstringShortTag, gstringMiddleTag, gstringChunkTag; lia).
  replace (gdateTag t) with false by (unfold gdateTag; lia).
  replace (gbinaryTag t) with true by (unfold gbinaryTag, gbinaryShortTag, gbinaryMiddleTag, gbinaryChunkTag; lia).
  rewrite RT. reflexivity.
Qed.
Lemma rdv_date R st t r : t = 74 \/ t = 75 ->
  rd_step tm R st (t :: r) = (do (x, r') <- decode_date_tag t r ;; Ok (DTime (fst x) (snd x), r', st)).
Proof. intros [->| ->]; reflexivity. Qed.

(* SetValue of what ReadData returned for an integer, into a destination of the original kind *)
Ltac Zify.zify_post_hook ::= Z.div_mod_to_equations.
Lemma sv_int heap k z : in_kind k z -> (k = KInt -> in_i32 z) ->
  set_value te heap (TInt k) (if kind_wire_int k then DInt KInt32 (swrap 32 z) else DInt KInt64 (swrap 64 z)) = Ok (DInt k z).
Proof.
  unfold in_kind. intros H HI.
  destruct k; cbn [kind_wire_int set_value ikind_eqb is_signed set_kind kind_lo kind_hi] in *; try specialize (HI eq_refl);
    rewrite ?swrap8_def, ?swrap16_def, ?swrap32_def, ?swrap64_def, ?wrap8_mod, ?wrap16_mod, ?wrap32_mod, ?wrap64_mod;
    unfold in_i32 in *; do 2 f_equal; lia.
Qed.

(* ---- a reference to an object registered earlier (also one still under construction) ---- *)
Lemma rd_ref R st r : rd_step tm R st (81 :: r) = read_ref st r.
Proof. reflexivity. Qed.
Lemma rt_ref v st i a :
  ref_find (erefs st) a RStruct 0 = Some i -> dg (erefs st) v (DPtr (Z.to_nat i) (ty_of a)) [] (erefs st) ->
  cls_ok F (ecls st) -> rt_post (TPtr (TStruct (ty_of a))) v st (write_ref st i).
Proof.
  intros RF D C. split; [exact C|]. split; [reflexivity|]. split; [split; cbn; lia|].
  exists (81 :: gencodeInt (swrap 32 i)), (DPtr (Z.to_nat i) (ty_of a)), [].
  split; [unfold write_ref; rewrite !ebytes_emit, <- app_assoc; reflexivity|]. split; [cbn; lia|]. split; [exact D|].
  intros Sm dst rest I. exists dst. split; [exact I|]. split; [rewrite app_nil_r; reflexivity|].
  destruct (ref_find_nth _ _ _ _ _ RF) as [B N]. replace (i - 0) with i in N by lia.
  destruct (Inv_nth _ _ _ _ I N (ref_find_nonzero _ _ _ _ _ RF)) as [o HN]. pose proof (Inv_len _ _ I) as IL.
  destruct Sm as [Sm1 _]. cbn [erefs write_ref emit] in Sm1.
  assert (RR : read_ref dst (gencodeInt (swrap 32 i) ++ rest) = Ok (DPtr (Z.to_nat i) (ty_of a), rest, dst)).
  { unfold read_ref. rewrite int_roundtrip by apply swrap32_range. cbn [bind]. rewrite swrap32_id by (unfold in_i32; lia).
    unfold Decoder.nth_z. destruct (Z.ltb_spec i 0); [lia|]. destruct (Z.leb_spec (Z.of_nat (length (dheap dst))) i); [lia|].
    cbn [orb]. rewrite HN. reflexivity. }
  assert (SV : set_value te (dheap dst) (TPtr (TStruct (ty_of a))) (DPtr (Z.to_nat i) (ty_of a)) = Ok (DPtr (Z.to_nat i) (ty_of a)))
    by (cbn [set_value]; rewrite name_eqb_refl'; reflexivity).
  intros f Hf. pose proof (need_d_pos v). destruct f as [|f]; [lia|]. split; [|split].
  - rewrite rf_S. apply rf_step_of_core. unfold rf_core. cbn [app]. rewrite rs_ref, RR. cbn [bind]. rewrite SV. reflexivity.
  - intros a0 ty fs E _. rewrite rd_S. cbn [app]. rewrite rd_ref. exact RR.
  - intros _ _. eexists. split; [rewrite rd_S; cbn [app]; rewrite rd_ref; exact RR|exact SV].
Qed.

(* ---- the fields of an object ---- *)
Lemma fields_rt : forall fs gall,
  Forall (fun f => rt_ok (snd f)) fs ->
  Forall (fun f => forall gn gt, find_field gall (lower_name (fst f)) = Some (gn, gt) -> sgv gt (snd f)) fs ->
  Forall (fun f => find_field gall (lower_name (fst f)) = None -> exists t', t' <> TIface /\ sgv t' (snd f) /\ elem_pos_ok (snd f)) fs ->
  forall st st', enm st = nm -> cls_ok F (ecls st) -> write_items (map snd fs) st = Ok st' ->
  cls_ok F (ecls st') /\ enm st' = enm st /\ grows st st' /\
  exists bs ds cells, ebytes st' = ebytes st ++ bs /\ length ds = length fs /\ dgs (erefs st) (map snd fs) ds cells (erefs st') /\
    (small st' -> forall dst rest, Inv st dst ->
       exists dst', Inv st' dst' /\ dheap dst' = dheap dst ++ cells /\
       forall f acc, (need_ditems (map snd fs) <= f)%nat ->
         R_rfs (readers_at te tm f) gall (map lower_name (map fst fs)) acc dst (bs ++ rest) =
         Ok (assoc_all acc (bind_known gall (map fst fs) ds), rest, dst')).
Proof.
  induction fs as [|[n x] r IH]; intros gall HF HK HU st st' En C W.
  - cbn in W. inversion W; subst st'. split; [exact C|]. split; [reflexivity|]. split; [apply grows_refl|].
    exists [], [], []. split; [rewrite app_nil_r; reflexivity|]. split; [reflexivity|]. split; [constructor|].
    intros _ dst rest I. exists dst. split; [exact I|]. split; [rewrite app_nil_r; reflexivity|].
    intros f acc Hf. cbn [need_ditems map] in Hf. destruct f as [|f]; [lia|]. rewrite rfs_S. reflexivity.
  - inversion HF as [|? ? Hx Hr]; subst. inversion HK as [|? ? Kx Kr]; subst. inversion HU as [|? ? Ux Ur]; subst. cbn [fst snd map] in *.
    cbn [write_items] in W. destruct (write_data x st) as [s1| | |] eqn:E1; try discriminate.
    (* the type at which this wire field is read *)
    assert (TX : exists tx, sgv tx x /\ match find_field gall (lower_name n) with Some (_, gt) => tx = gt | None => tx <> TIface /\ elem_pos_ok x end).
    { destruct (find_field gall (lower_name n)) as [[gn gt]|] eqn:FF; [exists gt; split; [eapply Kx; reflexivity|reflexivity]|].
      destruct (Ux eq_refl) as (t' & NI & S' & EP). exists t'. split; [exact S'|split; assumption]. }
    destruct TX as (tx & Sx & TXs).
    destruct (Hx tx st s1 En Sx C E1) as (C1 & N1 & G1 & b1 & d1 & c1 & B1 & LB1 & D1 & P1).
    assert (En1 : enm s1 = nm) by (rewrite N1; exact En).
    destruct (IH gall Hr Kr Ur s1 st' En1 C1 W) as (C2 & N2 & G2 & b2 & ds & c2 & B2 & L2 & D2 & P2).
    split; [exact C2|]. split; [rewrite N2; exact N1|]. split; [eapply grows_trans; eassumption|].
    exists (b1 ++ b2), (d1 :: ds), (c1 ++ c2). split; [rewrite B2, B1, <- app_assoc; reflexivity|].
    split; [cbn [length]; rewrite L2; reflexivity|]. split; [econstructor; eassumption|].
    intros Sm dst rest I.
    destruct (P1 (small_back _ _ G2 Sm) dst (b2 ++ rest) I) as (dst1 & I1 & H1 & V1).
    destruct (P2 Sm dst1 rest I1) as (dst2 & I2 & H2' & V2).
    exists dst2. split; [exact I2|]. split; [rewrite H2', H1, <- app_assoc; reflexivity|].
    intros f acc Hf. cbn [need_ditems] in Hf. destruct f as [|f]; [lia|]. rewrite rfs_S. unfold rfs_step. cbn [bind_known].
    rewrite <- app_assoc. destruct (V1 f ltac:(lia)) as (V1a & _ & V1c).
    destruct (find_field gall (lower_name n)) as [[gn gt]|] eqn:FF.
    + subst tx. rewrite V1a. cbn [bind assoc_all]. rewrite V2 by lia. reflexivity.
    + destruct TXs as [NI EP]. destruct (V1c NI EP) as (d0 & RD0 & _). rewrite RD0. cbn [bind snd]. rewrite V2 by lia. reflexivity.
Qed.

(* ---- a new object: class definition (when new), instance tag, fields ---- *)
Definition tagbytes (i : Z) : bytes := if i <=? 15 then [wrap 8 (wrap 8 i + 96)] else 79 :: gencodeInt (swrap 32 i).
Lemma struct_prefix_bytes st1 ty fs c : nm_lookup (enm st1) ty = Some c ->
  let st4 := struct_prefix st1 ty fs in
  erefs st4 = erefs st1 /\ enm st4 = enm st1 /\
  match cls_index (ecls st1) c 0 with
  | Some i => ecls st4 = ecls st1 /\ ebytes st4 = ebytes st1 ++ tagbytes i
  | None => ecls st4 = ecls st1 ++ [(c, map lower_name (map fst fs))] /\
            ebytes st4 = ebytes st1 ++ [67] ++ encode_string c ++ gencodeInt (swrap 32 (Z.of_nat (length (map fst fs)))) ++
                         concat (map encode_string (map lower_name (map fst fs))) ++ tagbytes (Z.of_nat (length (ecls st1)))
  end.
Proof.
  intros NL. cbv zeta. unfold struct_prefix. rewrite NL. unfold tagbytes, g_objectTagMaxLen, g_objectLenTagMin, g_objectTag.
  destruct (cls_index (ecls st1) c 0) as [i|].
  - destruct (i <=? 15); (split; [reflexivity|]); (split; [reflexivity|]); (split; [reflexivity|]);
      [apply ebytes_emit|rewrite !ebytes_emit, <- app_assoc; reflexivity].
  - destruct (cls_def_state st1 c (map fst fs)) as (DB & DC & DR & DN).
    destruct (Z.of_nat (length (ecls st1)) <=? 15); (split; [exact DR|]); (split; [exact DN|]); (split; [exact DC|]).
    + rewrite ebytes_emit, DB, <- !app_assoc. reflexivity.
    + rewrite !ebytes_emit, DB, <- !app_assoc. reflexivity.
Qed.
Lemma obj_tag_dec R dst idx tail : 0 <= idx <= 2147483647 ->
  read_struct tm R dst (tagbytes idx ++ tail) = object_at tm R idx dst tail /\
  rd_step tm R dst (tagbytes idx ++ tail) = object_at tm R idx dst tail.
Proof.
  intros H. unfold tagbytes. destruct (idx <=? 15) eqn:E.
  - rewrite (wrap8_id idx) by lia. rewrite wrap8_id by lia. replace (idx + 96) with (96 + idx) by lia. cbn [app].
    split; [apply rs_short|apply rd_short]; lia.
  - cbn [app]. rewrite rs_long, rd_long, int_roundtrip by apply swrap32_range. cbn [bind]. rewrite swrap32_id by (unfold in_i32; lia).
    split; reflexivity.
Qed.
Lemma zeros_combine (gfs : list (name * gtype)) :
  map (fun p => (fst p, zero te (snd p))) gfs = combine (map fst gfs) (map (fun p => zero te (snd p)) gfs).
Proof. induction gfs as [|[n t] r IH]; cbn [map combine fst snd]; [reflexivity|]. f_equal. exact IH. Qed.

Lemma struct_core a ty fs c gfs st st' :
  (a <> 0 -> ty_of a = ty) -> nm_lookup nm ty = Some c -> tm_lookup tm c = Some (TStruct ty) -> te_lookup te ty = Some gfs ->
  Forall valid_rune c -> map lower_name (map fst fs) = F c ->
  Forall (Forall valid_rune) (F c) -> Z.of_nat (length fs) <= 2147483647 -> has_dup (bound_names gfs (F c)) = false ->
  Forall (fun f => forall gn gt, find_field gfs (lower_name (fst f)) = Some (gn, gt) -> sgv gt (snd f)) fs ->
  Forall (fun f => find_field gfs (lower_name (fst f)) = None -> exists t', t' <> TIface /\ sgv t' (snd f) /\ elem_pos_ok (snd f)) fs ->
  Forall (fun f => rt_ok (snd f)) fs ->
  enm st = nm -> cls_ok F (ecls st) ->
  write_fields fs (struct_prefix {| ecls := ecls st; erefs := erefs st ++ [(a, RStruct)]; enm := enm st; eout := eout st |} ty fs) = Ok st' ->
  cls_ok F (ecls st') /\ enm st' = enm st /\ grows st st' /\
  exists bs ds cells, ebytes st' = ebytes st ++ bs /\ (1 <= length bs)%nat /\
    dgs (erefs st ++ [(a, RStruct)]) (map snd fs) ds cells (erefs st') /\
    (small st' -> forall dst rest, Inv st dst ->
       exists dst', Inv st' dst' /\
         dheap dst' = dheap dst ++ RObj ty (Some (assoc_all (zeros_of te gfs) (bind_known gfs (map fst fs) ds))) :: cells /\
         forall f, (need_d (VStruct a ty fs) <= f)%nat ->
           (forall g, f = S g -> read_struct tm (readers_at te tm g) dst (bs ++ rest) = Ok (DPtr (length (erefs st)) ty, rest, dst')) /\
           R_rd (readers_at te tm f) dst (bs ++ rest) = Ok (DPtr (length (erefs st)) ty, rest, dst')).
Proof.
  intros TA NL TM TE Vc HF VF LN NDB HK HU HR En C W.
  set (st1 := {| ecls := ecls st; erefs := erefs st ++ [(a, RStruct)]; enm := enm st; eout := eout st |}) in *.
  assert (NL1 : nm_lookup (enm st1) ty = Some c) by (cbn [enm st1]; rewrite En; exact NL).
  destruct (struct_prefix_bytes st1 ty fs c NL1) as (P1 & P2 & PC).
  set (st4 := struct_prefix st1 ty fs) in *.
  assert (En4 : enm st4 = nm) by (rewrite P2; exact En).
  assert (LF : length (F c) = length fs) by (rewrite <- HF, !map_length; reflexivity).
  assert (C4 : cls_ok F (ecls st4)).
  { destruct (cls_index (ecls st1) c 0); destruct PC as [PC1 _]; rewrite PC1; [exact C|].
    intros c' fs' I. apply in_app_or in I. destruct I as [I|[I|[]]]; [apply C; exact I|]. inversion I; subst. exact HF. }
  rewrite write_fields_items in W.
  destruct (fields_rt fs gfs HR HK HU st4 st' En4 C4 W) as (C2 & N2 & G2 & b2 & ds & c2 & B2 & L2 & D2 & PF).
  assert (G14 : (length (ecls st1) <= length (ecls st4))%nat).
  { destruct (cls_index (ecls st1) c 0); destruct PC as [PC1 _]; rewrite PC1; [lia|rewrite app_length; cbn; lia]. }
  split; [exact C2|]. split; [rewrite N2, P2; reflexivity|].
  split; [destruct G2 as [G21 G22]; split; [rewrite P1 in G21; cbn [erefs st1] in G21; rewrite app_length in G21; cbn in G21; lia|cbn [ecls st1] in G14; lia]|].
  assert (HB : exists hdr, ebytes st4 = ebytes st ++ hdr).
  { destruct (cls_index (ecls st1) c 0); destruct PC as [_ PC2]; eexists; exact PC2. }
  destruct HB as [hdr HB].
  assert (LH : (1 <= length hdr)%nat).
  { destruct (cls_index (ecls st1) c 0); destruct PC as [_ PC2]; rewrite PC2 in HB; apply app_inv_head in HB; subst hdr;
      [unfold tagbytes; destruct (_ <=? 15); cbn; lia|cbn; lia]. }
  exists (hdr ++ b2), ds, c2.
  split; [rewrite B2, HB, <- app_assoc; reflexivity|]. split; [rewrite app_length; lia|].
  split; [rewrite P1 in D2; exact D2|].
  intros Sm dst rest I. pose proof (Inv_len _ _ I) as IL. pose proof I as I0. destruct I as (I1 & I2 & I3).
  pose proof (small_back _ _ G2 Sm) as Sm4.
  set (dstC := {| dtypes := dtypes dst; dcls := ecls st4; dheap := dheap dst |}).
  assert (IP : Inv st4 (heap_push dstC (RObj ty None))).
  { eapply (Inv_push st dst st4 dstC (RObj ty None) a RStruct I0); [reflexivity|reflexivity|rewrite P1; reflexivity|reflexivity|].
    intros _ NZ. rewrite (TA NZ). eexists; reflexivity. }
  destruct (PF Sm (heap_push dstC (RObj ty None)) rest IP) as (dst2 & J2 & H2h & V2).
  cbn [heap_push dheap dtypes dstC] in H2h. rewrite <- app_assoc in H2h. cbn [app] in H2h.
  set (fields' := assoc_all (zeros_of te gfs) (bind_known gfs (map fst fs) ds)).
  destruct (Inv_fill st' dst2 (dheap dst) (RObj ty None) (RObj ty (Some fields')) c2 J2 H2h eq_refl) as [IF HH].
  { intros ty0 o X. inversion X; subst. eexists; reflexivity. }
  set (dst' := heap_set dst2 (length (dheap dst)) (RObj ty (Some fields'))) in *.
  exists dst'. split; [exact IF|]. split; [exact HH|].
  assert (RO : forall g dstX, (need_ditems (map snd fs) <= g)%nat -> dstX = dstC ->
    R_ro (readers_at te tm (S g)) ty (F c) dstX (b2 ++ rest) = Ok (DPtr (length (dheap dst)) ty, rest, dst')).
  { intros g dstX Hg ->. rewrite ro_S. unfold ro_step. rewrite TE, NDB. cbv zeta. rewrite <- HF.
    rewrite (V2 g _ Hg). reflexivity. }
  intros f Hf. rewrite need_d_struct in Hf.
  rewrite IL in *.
  destruct (cls_index (ecls st1) c 0) as [i|] eqn:CI; destruct PC as [PC1 PC2].
  - (* class already defined *)
    assert (hdr = tagbytes i) by (rewrite PC2 in HB; apply app_inv_head in HB; symmetry; exact HB). subst hdr.
    destruct (cls_index_spec _ _ _ _ CI) as [[fs0 N0] B0]. replace (i - 0) with i in N0 by lia. cbn [ecls st1] in N0, B0.
    assert (fs0 = F c).
    { apply C. unfold Grammar.nth_z in N0. destruct ((i <? 0) || (Z.of_nat (length (ecls st)) <=? i)); [discriminate|]. eapply nth_error_In. exact N0. }
    subst fs0.
    assert (DC : dstC = dst) by (unfold dstC; rewrite PC1; cbn [ecls st1]; rewrite <- I1; destruct dst; reflexivity).
    assert (OA : forall g, (need_ditems (map snd fs) <= g)%nat ->
      object_at tm (readers_at te tm (S g)) i dst (b2 ++ rest) = Ok (DPtr (length (erefs st)) ty, rest, dst')).
    { intros g Hg. rewrite (instance_uses_named_def tm _ dst i c (F c) ty); [apply RO; [exact Hg|symmetry; exact DC]|rewrite I1; exact N0|exact TM]. }
    destruct Sm4 as [_ Sm42]. rewrite PC1 in Sm42. cbn [ecls st1] in Sm42.
    destruct f as [|[|g]]; try lia.
    destruct (obj_tag_dec (readers_at te tm (S g)) dst i (b2 ++ rest) ltac:(lia)) as [OT1 OT2].
    rewrite <- app_assoc. split.
    + intros g0 E0. inversion E0; subst g0. rewrite OT1, OA by lia. reflexivity.
    + rewrite rd_S, OT2, OA by lia. reflexivity.
  - (* a new class: its definition comes first *)
    cbn [ecls st1] in PC1, PC2.
    set (idx := Z.of_nat (length (ecls st))) in *.
    assert (hdr = [67] ++ encode_string c ++ gencodeInt (swrap 32 (Z.of_nat (length (map fst fs)))) ++
                  concat (map encode_string (map lower_name (map fst fs))) ++ tagbytes idx)
      by (rewrite PC2 in HB; apply app_inv_head in HB; symmetry; exact HB). subst hdr.
    rewrite HF in *.
    assert (RC : forall tail, read_class_def dst (encode_string c ++ gencodeInt (swrap 32 (Z.of_nat (length (map fst fs)))) ++
                    concat (map encode_string (F c)) ++ tail) = Ok (tt, tail, dstC)).
    { intros tail. rewrite map_length, <- LF. rewrite read_class_def_app; [|exact Vc|exact VF|pose proof LN as X; rewrite <- LF in X; exact X].
      unfold dstC. rewrite PC1, I1. reflexivity. }
    assert (OA : forall g, (need_ditems (map snd fs) <= g)%nat ->
      object_at tm (readers_at te tm (S g)) idx dstC (b2 ++ rest) = Ok (DPtr (length (erefs st)) ty, rest, dst')).
    { intros g Hg. rewrite (instance_uses_named_def tm _ dstC idx c (F c) ty); [apply RO; [exact Hg|reflexivity]| |exact TM].
      unfold dstC. cbn [dcls]. rewrite PC1. unfold idx. apply nth_z_app_new. }
    destruct Sm4 as [_ Sm42]. rewrite PC1, app_length in Sm42. cbn in Sm42.
    destruct f as [|[|[|g]]]; try lia.
    destruct (obj_tag_dec (readers_at te tm (S g)) dstC idx (b2 ++ rest) ltac:(unfold idx; lia)) as [_ OT2].
    rewrite <- !app_assoc. cbn [app]. split.
    + intros g0 E0. inversion E0; subst g0. rewrite rs_classdef, RC. cbn [bind snd]. rewrite rd_S, OT2, OA by lia. reflexivity.
    + rewrite rd_S, rd_classdef, RC. cbn [bind snd]. rewrite rd_S, OT2, OA by lia. reflexivity.
Qed.

(* ... reached through a pointer: the position holds the index of the new cell *)
Lemma rt_struct_new a ty fs c gfs st st' :
  a <> 0 -> ty_of a = ty -> nm_lookup nm ty = Some c -> tm_lookup tm c = Some (TStruct ty) -> te_lookup te ty = Some gfs ->
  Forall valid_rune c -> map lower_name (map fst fs) = F c ->
  Forall (Forall valid_rune) (F c) -> Z.of_nat (length fs) <= 2147483647 -> has_dup (bound_names gfs (F c)) = false ->
  Forall (fun f => forall gn gt, find_field gfs (lower_name (fst f)) = Some (gn, gt) -> sgv gt (snd f)) fs ->
  Forall (fun f => find_field gfs (lower_name (fst f)) = None -> exists t', t' <> TIface /\ sgv t' (snd f) /\ elem_pos_ok (snd f)) fs ->
  Forall (fun f => rt_ok (snd f)) fs ->
  enm st = nm -> cls_ok F (ecls st) -> ref_find (erefs st) a RStruct 0 = None ->
  write_fields fs (struct_prefix {| ecls := ecls st; erefs := erefs st ++ [(a, RStruct)]; enm := enm st; eout := eout st |} ty fs) = Ok st' ->
  rt_post (TPtr (TStruct ty)) (VStruct a ty fs) st st'.
Proof.
  intros NZ TA NL TM TE Vc HF VF LN NDB HK HU HR En C RF W.
  destruct (struct_core a ty fs c gfs st st' (fun _ => TA) NL TM TE Vc HF VF LN NDB HK HU HR En C W) as (C2 & N2 & G2 & bs & ds & cells & B & LB & DS & P).
  split; [exact C2|]. split; [exact N2|]. split; [exact G2|].
  exists bs, (DPtr (length (erefs st)) ty), (RObj ty (Some (assoc_all (zeros_of te gfs) (bind_known gfs (map fst fs) ds))) :: cells).
  split; [exact B|]. split; [exact LB|]. split; [apply dg_new; assumption|].
  intros Sm dst rest I. destruct (P Sm dst rest I) as (dst' & I' & HH & V). exists dst'. split; [exact I'|]. split; [exact HH|].
  intros f Hf. destruct (V f Hf) as [RS RD].
  assert (SV : forall heap, set_value te heap (TPtr (TStruct ty)) (DPtr (length (erefs st)) ty) = Ok (DPtr (length (erefs st)) ty))
    by (intros heap; cbn [set_value]; rewrite name_eqb_refl'; reflexivity).
  pose proof (need_d_pos (VStruct a ty fs)). destruct f as [|g]; [lia|].
  split; [|split].
  - rewrite rf_S. apply rf_step_of_core. unfold rf_core. rewrite (RS g eq_refl). cbn [bind]. rewrite SV. reflexivity.
  - intros a0 ty0 fs0 _ _. exact RD.
  - intros _ _. eexists. split; [exact RD|apply SV].
Qed.
(* ... held by value (a struct-typed field, an element of []T, a value of map[K]T): the position holds a copy of the cell *)
Lemma rt_struct_val ty fs c gfs st st' :
  nm_lookup nm ty = Some c -> tm_lookup tm c = Some (TStruct ty) -> te_lookup te ty = Some gfs ->
  Forall valid_rune c -> map lower_name (map fst fs) = F c ->
  Forall (Forall valid_rune) (F c) -> Z.of_nat (length fs) <= 2147483647 -> has_dup (bound_names gfs (F c)) = false ->
  Forall (fun f => forall gn gt, find_field gfs (lower_name (fst f)) = Some (gn, gt) -> sgv gt (snd f)) fs ->
  Forall (fun f => find_field gfs (lower_name (fst f)) = None -> exists t', t' <> TIface /\ sgv t' (snd f) /\ elem_pos_ok (snd f)) fs ->
  Forall (fun f => rt_ok (snd f)) fs ->
  enm st = nm -> cls_ok F (ecls st) ->
  write_fields fs (struct_prefix {| ecls := ecls st; erefs := erefs st ++ [(0, RStruct)]; enm := enm st; eout := eout st |} ty fs) = Ok st' ->
  rt_post (TStruct ty) (VStruct 0 ty fs) st st'.
Proof.
  intros NL TM TE Vc HF VF LN NDB HK HU HR En C W.
  destruct (struct_core 0 ty fs c gfs st st' (fun X => match X eq_refl with end) NL TM TE Vc HF VF LN NDB HK HU HR En C W) as (C2 & N2 & G2 & bs & ds & cells & B & LB & DS & P).
  set (fields' := assoc_all (zeros_of te gfs) (bind_known gfs (map fst fs) ds)) in *.
  split; [exact C2|]. split; [exact N2|]. split; [exact G2|].
  exists bs, (DStructV ty fields'), (RObj ty (Some fields') :: cells).
  split; [exact B|]. split; [exact LB|]. split; [apply dg_newv; assumption|].
  intros Sm dst rest I. pose proof (Inv_len _ _ I) as IL. destruct (P Sm dst rest I) as (dst' & I' & HH & V). exists dst'. split; [exact I'|]. split; [exact HH|].
  intros f Hf. destruct (V f Hf) as [RS RD].
  assert (SV : set_value te (dheap dst') (TStruct ty) (DPtr (length (erefs st)) ty) = Ok (DStructV ty fields')).
  { cbn [set_value]. rewrite name_eqb_refl'. rewrite HH, <- IL, nth_error_app2, Nat.sub_diag by lia. reflexivity. }
  pose proof (need_d_pos (VStruct 0 ty fs)). destruct f as [|g]; [lia|].
  split; [|split].
  - rewrite rf_S. apply rf_step_of_core. unfold rf_core. rewrite (RS g eq_refl). cbn [bind]. rewrite SV. reflexivity.
  - intros a0 ty0 fs0 X NZ. inversion X; subst. contradiction.
  - intros _ _. eexists. split; [exact RD|exact SV].
Qed.

(* ---- further leaves: doubles, byte slices, timestamps ---- *)
Lemma rl_S f fl dst bs : R_rl (readers_at te tm (S f)) fl dst bs = rl_step tm (readers_at te tm f) fl dst bs.
Proof. reflexivity. Qed.
Lemma binary_head bs : exists t tl, encode_binary bs = t :: tl /\ gbinaryTag t = true /\ forall rest, decode_binary_tag t (tl ++ rest) = Ok (bs, rest).
Proof.
  destruct (binary_denotes bs []) as (t & tl & E & T & _). exists t, tl. split; [exact E|]. split.
  - unfold is_binary_tag, rng in T. unfold gbinaryTag, gbinaryShortTag, gbinaryMiddleTag, gbinaryChunkTag. lia.
  - intros rest. pose proof (binary_roundtrip bs rest) as B. rewrite E in B. exact B.
Qed.
Lemma rt_bytes bs st : cls_ok F (ecls st) -> rt_post TBytes (VBytes bs) st (emit st (encode_binary bs)).
Proof.
  intros C. destruct (binary_head bs) as (t & tl & E & T & D).
  split; [exact C|]. split; [reflexivity|]. split; [split; cbn; lia|].
  exists (encode_binary bs), (DBytes bs), []. split; [apply ebytes_emit|]. split; [rewrite E; cbn; lia|]. split; [constructor|].
  intros _ dst rest I. exists dst. split; [exact I|]. split; [rewrite app_nil_r; reflexivity|].
  intros f Hf. cbn [need_d] in Hf. destruct f as [|[|f]]; try lia. split; [|split; [intros a ty fs X _; discriminate|]].
  - rewrite rf_S. apply rf_step_of_core. unfold rf_core. rewrite rl_S. unfold rl_step. rewrite E. cbn [app bind]. rewrite T, D. cbn [bind set_slice]. reflexivity.
  - intros _ _. eexists. split; [rewrite rd_S; apply rdv_binary|reflexivity].
Qed.
Lemma date_head s n : time_is_zero s n = false -> exists t tl, gencodeDate s n = t :: tl /\ (t = 74 \/ t = 75).
Proof.
  intros Z0. unfold gencodeDate. rewrite Z0. destruct (negb (n =? 0) || (s <? -2147483648) || (2147483647 <? s)); cbv zeta; eexists; eexists; (split; [reflexivity|]); [left|right]; reflexivity.
Qed.
Lemma rs_date R st t r : t = 74 \/ t = 75 ->
  read_struct tm R st (t :: r) = (do (x, r') <- decode_date_tag t r ;; Ok (DTime (fst x) (snd x), r', st)).
Proof. intros [->| ->]; reflexivity. Qed.

(* ---- lists ---- *)
Lemma rn_S f e n dst bs : R_rn (readers_at te tm (S f)) e n dst bs = rn_step te (readers_at te tm f) e n dst bs.
Proof. reflexivity. Qed.
Lemma gtype_eqb_refl t : gtype_eqb t t = true.
Proof.
  induction t; cbn [gtype_eqb]; try reflexivity; try assumption.
  - destruct k; reflexivity.
  - apply name_eqb_refl'.
  - rewrite IHt1, IHt2. reflexivity.
Qed.
Lemma elems_rt e : e <> TIface -> forall l, Forall rt_ok l -> Forall (sgv e) l -> Forall elem_pos_ok l ->
  forall st st', enm st = nm -> cls_ok F (ecls st) -> write_items l st = Ok st' ->
  cls_ok F (ecls st') /\ enm st' = enm st /\ grows st st' /\
  exists bs ds cells, ebytes st' = ebytes st ++ bs /\ (length l <= length bs)%nat /\ dgs (erefs st) l ds cells (erefs st') /\
    (small st' -> forall dst rest, Inv st dst ->
       exists dst', Inv st' dst' /\ dheap dst' = dheap dst ++ cells /\
       forall f, (need_ditems l <= f)%nat -> R_rn (readers_at te tm f) e (length l) dst (bs ++ rest) = Ok (ds, rest, dst')).
Proof.
  intros NI. induction l as [|x r IH]; intros HF HS HP st st' En C W.
  - cbn in W. inversion W; subst st'. split; [exact C|]. split; [reflexivity|]. split; [apply grows_refl|].
    exists [], [], []. split; [rewrite app_nil_r; reflexivity|]. split; [cbn; lia|]. split; [constructor|].
    intros _ dst rest I. exists dst. split; [exact I|]. split; [rewrite app_nil_r; reflexivity|].
    intros f Hf. cbn [need_ditems] in Hf. destruct f as [|f]; [lia|]. reflexivity.
  - inversion HF as [|? ? Hx Hr]; subst. inversion HS as [|? ? Sx Sr]; subst. inversion HP as [|? ? EPx EPr]; subst.
    cbn [write_items] in W. destruct (write_data x st) as [s1| | |] eqn:E1; try discriminate.
    destruct (Hx e st s1 En Sx C E1) as (C1 & N1 & G1 & b1 & d1 & c1 & B1 & LB1 & D1 & P1).
    assert (En1 : enm s1 = nm) by (rewrite N1; exact En).
    destruct (IH Hr Sr EPr s1 st' En1 C1 W) as (C2 & N2 & G2 & b2 & ds & c2 & B2 & L2 & D2 & P2).
    split; [exact C2|]. split; [rewrite N2; exact N1|]. split; [eapply grows_trans; eassumption|].
    exists (b1 ++ b2), (d1 :: ds), (c1 ++ c2). split; [rewrite B2, B1, <- app_assoc; reflexivity|].
    split; [cbn [length]; rewrite app_length; lia|]. split; [econstructor; eassumption|].
    intros Sm dst rest I.
    destruct (P1 (small_back _ _ G2 Sm) dst (b2 ++ rest) I) as (dst1 & I1 & H1 & V1).
    destruct (P2 Sm dst1 rest I1) as (dst2 & I2 & H2' & V2).
    exists dst2. split; [exact I2|]. split; [rewrite H2', H1, <- app_assoc; reflexivity|].
    intros f Hf. cbn [need_ditems] in Hf. destruct f as [|f]; [lia|]. cbn [length]. rewrite rn_S. cbn [rn_step].
    rewrite <- app_assoc. destruct (V1 f ltac:(lia)) as (_ & _ & V1c). destruct (V1c NI EPx) as (d0 & RD0 & SV0).
    rewrite (elem_of_rd _ e dst _ d0 d1 _ dst1 RD0 SV0 NI). cbn [bind]. rewrite V2 by lia. reflexivity.
Qed.

Definition list_hdr (ltn : name) (n : Z) : bytes :=
  if n <=? 7 then (112 + n) :: encode_string ltn else 86 :: encode_string ltn ++ gencodeInt (swrap 32 n).
Lemma list_header_bytes st1 ty n ltn : 0 <= n -> nm_lookup (enm st1) ty = Some ltn ->
  name_eqb interface_type_name (array_root_elem_name ty) = false ->
  let st2 := list_header st1 ty n in
  erefs st2 = erefs st1 /\ enm st2 = enm st1 /\ ecls st2 = ecls st1 /\ ebytes st2 = ebytes st1 ++ list_hdr ltn n.
Proof.
  intros Hn NL NI. cbv zeta. unfold list_header, list_hdr. rewrite NL, NI.
  unfold g_listFixedTypedLenMax, g_listFixedTypedLenTagMin, g_listFixedTypedStartTag.
  destruct (n <=? 7) eqn:E; (split; [reflexivity|]); (split; [reflexivity|]); (split; [reflexivity|]).
  - rewrite (wrap8_id n) by lia. rewrite wrap8_id by lia. rewrite !ebytes_emit, <- app_assoc. reflexivity.
  - rewrite !ebytes_emit, <- !app_assoc. reflexivity.
Qed.
Lemma read_type_str dst ltn tail : Forall valid_rune ltn ->
  read_type dst (encode_string ltn ++ tail) = Ok (ltn, tail, {| dtypes := dtypes dst ++ [ltn]; dcls := dcls dst; dheap := dheap dst |}).
Proof.
  intros V. destruct (string_denotes ltn [] V) as (t & tl & E & T & _). pose proof (string_roundtrip ltn tail V) as RT. unfold decode_string in RT.
  rewrite E in *. cbn [app read_tag bind] in *. unfold read_type. unfold is_string_tag, rng in T.
  replace (gstringTag t) with true by (unfold gstringTag, gstringShortTag, gstringMiddleTag, gstringChunkTag; lia).
  rewrite RT. reflexivity.
Qed.
(* the three ways a typed fixed-length list is reached: as a list-typed field, as a value, as a list element *)
Lemma typed_list_dec R dst ltn e n tail : Forall valid_rune ltn -> tm_lookup tm ltn = Some (TSlice e) ->
  0 <= n <= 2147483647 -> n <= Z.of_nat (length tail) ->
  let dstT := {| dtypes := dtypes dst ++ [ltn]; dcls := dcls dst; dheap := dheap dst |} in
  let K := (do (z, st2) <- R_rn R e (Z.to_nat n) (heap_push dstT (RList None)) tail ;; let '(items, r3) := z in
            Ok (DSlice e items, r3, heap_set st2 (length (dheap dst)) (RList (Some (DSlice e items))))) in
  rl_step tm R None dst (list_hdr ltn n ++ tail) = K /\
  rd_step tm R dst (list_hdr ltn n ++ tail) = R_rl R (Some (if n <=? 7 then 112 + n else 86)) dst (tl (list_hdr ltn n) ++ tail) /\
  rl_step tm R (Some (if n <=? 7 then 112 + n else 86)) dst (tl (list_hdr ltn n) ++ tail) = K.
Proof.
  intros V TM Hn CT. cbv zeta. unfold list_hdr.
  assert (G : (Z.of_nat (length tail) <? n) = false) by lia.
  destruct (n <=? 7) eqn:E.
  - assert (C8 : n = 0 \/ n = 1 \/ n = 2 \/ n = 3 \/ n = 4 \/ n = 5 \/ n = 6 \/ n = 7) by lia.
    cbn [tl app].
    assert (TL : typed_list_step tm R (112 + n) dst (encode_string ltn ++ tail) =
      (do (z, st2) <- R_rn R e (Z.to_nat n) (heap_push {| dtypes := dtypes dst ++ [ltn]; dcls := dcls dst; dheap := dheap dst |} (RList None)) tail ;; let '(items, r3) := z in
       Ok (DSlice e items, r3, heap_set st2 (length (dheap dst)) (RList (Some (DSlice e items)))))).
    { unfold typed_list_step. rewrite read_type_str by exact V. cbn [bind].
      destruct C8 as [->|[->|[->|[->|[->|[->|[->| ->]]]]]]]; cbn [bind];
        repeat match goal with
        | |- context [?a + ?b =? ?c] => let v := eval vm_compute in (a + b =? c) in change (a + b =? c) with v
        | |- context [glistFixedTypedLenTag (?a + ?b)] => let v := eval vm_compute in (glistFixedTypedLenTag (a + b)) in change (glistFixedTypedLenTag (a + b)) with v
        | |- context [wrap 8 (?a + ?b - ?c)] => let v := eval vm_compute in (wrap 8 (a + b - c)) in change (wrap 8 (a + b - c)) with v
        end; cbv iota; cbn [bind]; cbn in G; rewrite G; change (_ <? 0) with false; cbv iota; rewrite TM; reflexivity. }
    split; [|split].
    + destruct C8 as [->|[->|[->|[->|[->|[->|[->| ->]]]]]]]; exact TL.
    + destruct C8 as [->|[->|[->|[->|[->|[->|[->| ->]]]]]]]; reflexivity.
    + destruct C8 as [->|[->|[->|[->|[->|[->|[->| ->]]]]]]]; exact TL.
  - cbn [tl app].
    assert (TL : typed_list_step tm R 86 dst (encode_string ltn ++ gencodeInt (swrap 32 n) ++ tail) =
      (do (z, st2) <- R_rn R e (Z.to_nat n) (heap_push {| dtypes := dtypes dst ++ [ltn]; dcls := dcls dst; dheap := dheap dst |} (RList None)) tail ;; let '(items, r3) := z in
       Ok (DSlice e items, r3, heap_set st2 (length (dheap dst)) (RList (Some (DSlice e items)))))).
    { unfold typed_list_step. rewrite read_type_str by exact V. cbn [bind].
      change (86 =? g_listVariableTypedTag) with false. change (glistFixedTypedLenTag 86) with false. change (86 =? g_listFixedTypedStartTag) with true. cbv iota.
      rewrite int_roundtrip by apply swrap32_range. cbn [bind]. rewrite swrap32_id by (unfold in_i32; lia).
      replace (n <? 0) with false by lia. rewrite G, TM. reflexivity. }
    rewrite <- !app_assoc. split; [exact TL|]. split; [reflexivity|exact TL].
Qed.

Lemma rt_slice ty l e ltn st st' :
  nm_lookup nm ty = Some ltn -> name_eqb interface_type_name (array_root_elem_name ty) = false ->
  tm_lookup tm ltn = Some (TSlice e) -> Forall valid_rune ltn -> e <> TIface -> Z.of_nat (length l) <= 2147483647 ->
  Forall (sgv e) l -> Forall elem_pos_ok l -> Forall rt_ok l -> enm st = nm -> cls_ok F (ecls st) ->
  write_items l (list_header {| ecls := ecls st; erefs := erefs st ++ [(0, RSlice)]; enm := enm st; eout := eout st |} ty (Z.of_nat (length l))) = Ok st' ->
  rt_post (TSlice e) (VSlice 0 ty l) st st'.
Proof.
  intros NL NI TM V NE LN HS HP HR En C W.
  set (st1 := {| ecls := ecls st; erefs := erefs st ++ [(0, RSlice)]; enm := enm st; eout := eout st |}) in *.
  set (n := Z.of_nat (length l)) in *.
  assert (NL1 : nm_lookup (enm st1) ty = Some ltn) by (cbn [enm st1]; rewrite En; exact NL).
  destruct (list_header_bytes st1 ty n ltn ltac:(unfold n; lia) NL1 NI) as (P1 & P2 & P3 & PB).
  set (st2 := list_header st1 ty n) in *.
  assert (En2 : enm st2 = nm) by (rewrite P2; exact En).
  assert (C2' : cls_ok F (ecls st2)) by (rewrite P3; exact C).
  destruct (elems_rt e NE l HR HS HP st2 st' En2 C2' W) as (C2 & N2 & G2 & b2 & ds & c2 & B2 & L2 & D2 & PE).
  split; [exact C2|]. split; [rewrite N2, P2; reflexivity|].
  split; [destruct G2 as [G21 G22]; split; [rewrite P1 in G21; cbn [erefs st1] in G21; rewrite app_length in G21; cbn in G21; lia|rewrite P3 in G22; exact G22]|].
  exists (list_hdr ltn n ++ b2), (DSlice e ds), (RList (Some (DSlice e ds)) :: c2).
  split; [rewrite B2, PB, <- app_assoc; reflexivity|].
  split; [rewrite app_length; unfold list_hdr; destruct (n <=? 7); cbn [length]; lia|].
  split; [apply dg_slice; rewrite P1 in D2; exact D2|].
  intros Sm dst rest I. pose proof (Inv_len _ _ I) as IL. pose proof I as I0. destruct I as (I1 & I2 & I3).
  set (dstT := {| dtypes := dtypes dst ++ [ltn]; dcls := dcls dst; dheap := dheap dst |}).
  assert (IP : Inv st2 (heap_push dstT (RList None))).
  { eapply (Inv_push st dst st2 dstT (RList None) 0 RSlice I0); [cbn; rewrite P3; exact I1|reflexivity|rewrite P1; reflexivity|reflexivity|discriminate]. }
  destruct (PE Sm (heap_push dstT (RList None)) rest IP) as (dst2 & J2 & H2h & V2).
  cbn [heap_push dheap dstT] in H2h. rewrite <- app_assoc in H2h. cbn [app] in H2h.
  destruct (Inv_fill st' dst2 (dheap dst) (RList None) (RList (Some (DSlice e ds))) c2 J2 H2h eq_refl) as [IF HH]; [intros ty0 o X; discriminate|].
  set (dst' := heap_set dst2 (length (dheap dst)) (RList (Some (DSlice e ds)))) in *.
  exists dst'. split; [exact IF|]. split; [exact HH|].
  intros f Hf. rewrite need_d_slice in Hf. destruct f as [|[|g]]; try lia.
  assert (CT : n <= Z.of_nat (length (b2 ++ rest))) by (rewrite app_length; unfold n; lia).
  assert (KV : forall R, R_rn R e (Z.to_nat n) (heap_push dstT (RList None)) (b2 ++ rest) = Ok (ds, rest, dst2) ->
     (do (z, s2) <- R_rn R e (Z.to_nat n) (heap_push dstT (RList None)) (b2 ++ rest) ;; let '(items, r3) := z in
      Ok (DSlice e items, r3, heap_set s2 (length (dheap dst)) (RList (Some (DSlice e items))))) = Ok (DSlice e ds, rest, dst')).
  { intros R H. rewrite H. reflexivity. }
  assert (RN : R_rn (readers_at te tm g) e (Z.to_nat n) (heap_push dstT (RList None)) (b2 ++ rest) = Ok (ds, rest, dst2))
    by (unfold n; rewrite Nat2Z.id; apply V2; lia).
  destruct (typed_list_dec (readers_at te tm g) dst ltn e n (b2 ++ rest) V TM ltac:(unfold n; lia) CT) as (D1 & _ & D3).
  destruct (typed_list_dec (readers_at te tm (S g)) dst ltn e n (b2 ++ rest) V TM ltac:(unfold n; lia) CT) as (_ & D2' & _).
  unfold dstT in RN.
  match type of D1 with context [R_rn _ _ _ ?d _] => match type of RN with R_rn _ _ _ ?d' _ = _ => change d with d' in D1, D3 end end.
  rewrite RN in D1, D3. cbn [bind] in D1, D3. fold dst' in D1, D3.
  rewrite <- app_assoc.
  assert (RD : R_rd (readers_at te tm (S (S g))) dst (list_hdr ltn n ++ b2 ++ rest) = Ok (DSlice e ds, rest, dst')).
  { rewrite rd_S, D2', rl_S. exact D3. }
  split; [|split].
  - rewrite rf_S. apply rf_step_of_core. unfold rf_core. rewrite rl_S, D1. cbn [bind set_slice]. rewrite gtype_eqb_refl. reflexivity.
  - intros a0 ty0 fs0 X _. discriminate.
  - intros _ _. eexists. split; [exact RD|]. cbn [set_value]. rewrite gtype_eqb_refl. reflexivity.
Qed.

(* ---- C03: the same list in the variable-length typed form  x55 type value* 'Z'  (which the
        encoder never writes) ---- *)
Lemma rz_S f e dst bs : R_rz (readers_at te tm (S f)) e dst bs = rz_step te (readers_at te tm f) e dst bs.
Proof. reflexivity. Qed.
Lemma elems_rz e : e <> TIface -> forall l, Forall rt_ok l -> Forall (sgv e) l -> Forall elem_pos_ok l ->
  forall st st', enm st = nm -> cls_ok F (ecls st) -> write_items l st = Ok st' ->
  cls_ok F (ecls st') /\ enm st' = enm st /\ grows st st' /\
  exists bs ds cells, ebytes st' = ebytes st ++ bs /\ dgs (erefs st) l ds cells (erefs st') /\
    (small st' -> forall dst rest, Inv st dst ->
       exists dst', Inv st' dst' /\ dheap dst' = dheap dst ++ cells /\
       forall f, (S (need_ditems l) <= f)%nat -> R_rz (readers_at te tm f) e dst (bs ++ 90 :: rest) = Ok (ds, rest, dst')).
Proof.
  intros NI. induction l as [|x r IH]; intros HF HS HP st st' En C W.
  - cbn in W. inversion W; subst st'. split; [exact C|]. split; [reflexivity|]. split; [apply grows_refl|].
    exists [], [], []. split; [rewrite app_nil_r; reflexivity|]. split; [constructor|].
    intros _ dst rest I. exists dst. split; [exact I|]. split; [rewrite app_nil_r; reflexivity|].
    intros f Hf. cbn [need_ditems] in Hf. destruct f as [|[|f]]; try lia. rewrite rz_S. cbn [app]. unfold rz_step, elem_step. rewrite rd_S. reflexivity.
  - inversion HF as [|? ? Hx Hr]; subst. inversion HS as [|? ? Sx Sr]; subst. inversion HP as [|? ? EPx EPr]; subst.
    cbn [write_items] in W. destruct (write_data x st) as [s1| | |] eqn:E1; try discriminate.
    destruct (Hx e st s1 En Sx C E1) as (C1 & N1 & G1 & b1 & d1 & c1 & B1 & LB1 & D1 & P1).
    assert (En1 : enm s1 = nm) by (rewrite N1; exact En).
    destruct (IH Hr Sr EPr s1 st' En1 C1 W) as (C2 & N2 & G2 & b2 & ds & c2 & B2 & D2 & P2).
    split; [exact C2|]. split; [rewrite N2; exact N1|]. split; [eapply grows_trans; eassumption|].
    exists (b1 ++ b2), (d1 :: ds), (c1 ++ c2). split; [rewrite B2, B1, <- app_assoc; reflexivity|]. split; [econstructor; eassumption|].
    intros Sm dst rest I.
    destruct (P1 (small_back _ _ G2 Sm) dst (b2 ++ 90 :: rest) I) as (dst1 & I1 & H1 & V1).
    destruct (P2 Sm dst1 rest I1) as (dst2 & I2 & H2' & V2).
    exists dst2. split; [exact I2|]. split; [rewrite H2', H1, <- app_assoc; reflexivity|].
    intros f Hf. cbn [need_ditems] in Hf. destruct f as [|f]; [lia|]. rewrite rz_S. unfold rz_step.
    rewrite <- app_assoc. destruct (V1 f ltac:(lia)) as (_ & _ & V1c). destruct (V1c NI EPx) as (d0 & RD0 & SV0).
    rewrite (elem_of_rd _ e dst _ d0 d1 _ dst1 RD0 SV0 NI). rewrite V2 by lia. reflexivity.
Qed.

(* ---- maps ---- *)
Lemma re_S f kt vt acc dst bs : R_re (readers_at te tm (S f)) kt vt acc dst bs = re_step te (readers_at te tm f) kt vt acc dst bs.
Proof. reflexivity. Qed.
Lemma rm_S f t dst bs : R_rm (readers_at te tm (S f)) t dst bs = rm_step te (readers_at te tm f) t dst bs.
Proof. reflexivity. Qed.
Lemma entries_put_fresh acc k v : (forall k' v', In (k', v') acc -> dkey_eqb k k' = false) -> entries_put acc k v = acc ++ [(k, v)].
Proof.
  induction acc as [|[k0 v0] r IH]; intros H; cbn [entries_put app]; [reflexivity|].
  rewrite (H k0 v0 (or_introl eq_refl)). rewrite IH; [reflexivity|]. intros k' v' I. apply (H k' v'). right. exact I.
Qed.
Lemma ikind_eqb_eq a b : ikind_eqb a b = true -> a = b.
Proof. destruct a, b; cbn; intros H; try discriminate; reflexivity. Qed.
Lemma key_img_eqb k1 k2 : key_ok k1 -> key_ok k2 -> dkey_eqb (key_img k1) (key_img k2) = true -> k1 = k2.
Proof.
  destruct k1; cbn; try contradiction; destruct k2; cbn; try contradiction; intros _ _ H; try discriminate.
  - apply andb_true_iff in H. destruct H as [H1 H2]. apply ikind_eqb_eq in H1. subst. f_equal. lia.
  - apply name_eqb_true in H. subst. reflexivity.
Qed.
(* a key: written by one emit, read back by ReadData as a non-null scalar that SetValue turns into the key *)
Lemma key_rt kt k st st' : key_ok k -> sgv kt k -> write_data k st = Ok st' ->
  exists bs d0, st' = emit st bs /\ (1 <= length bs)%nat /\ (match d0 with DStr _ | DInt _ _ => True | _ => False end) /\
    (forall R dst rest, rd_step tm R dst (bs ++ rest) = Ok (d0, rest, dst)) /\
    (forall heap, set_value te heap kt d0 = Ok (key_img k)) /\ hashable (key_img k) = true.
Proof.
  intros KO Hs W. destruct k; cbn in KO; try contradiction; inversion Hs; subst; cbn [write_data] in W.
  - destruct (enc_kind k z) as [bs| | |] eqn:E; inversion W; subst st'.
    assert (KI : k = KInt -> in_i32 z).
    { intros ->. cbn [enc_kind] in E. unfold between in E. destruct ((-2147483648 <=? z) && (z <=? 2147483647)) eqn:B; [|discriminate]. unfold in_i32. lia. }
    assert (BS : bs = if kind_wire_int k then gencodeInt (swrap 32 z) else gencodeLong (swrap 64 z)).
    { destruct k; cbn [enc_kind kind_wire_int] in *; try (destruct (between _ _ _)); inversion E; reflexivity. }
    exists bs, (if kind_wire_int k then DInt KInt32 (swrap 32 z) else DInt KInt64 (swrap 64 z)).
    split; [reflexivity|]. split.
    { rewrite BS. destruct (kind_wire_int k).
      - destruct (int_first_tag _ (swrap32_range z)) as (t0 & r0 & E0 & _). rewrite E0. cbn; lia.
      - destruct (long_first_tag _ (swrap64_range z)) as (t0 & r0 & E0 & _). rewrite E0. cbn; lia. }
    split; [destruct (kind_wire_int k); exact I|]. split.
    { intros R dst rest. rewrite BS. destruct (kind_wire_int k); [apply rdv_int; apply swrap32_range|apply rdv_long; apply swrap64_range]. }
    split; [intros heap; apply sv_int; assumption|reflexivity].
  - inversion W; subst st'. match goal with H : Forall valid_rune rs |- _ => pose proof H as V end.
    destruct (string_denotes rs [] V) as (t0 & tl0 & E0 & _).
    exists (encode_string rs), (DStr rs). split; [reflexivity|]. split; [rewrite E0; cbn; lia|]. split; [exact I|].
    split; [intros R dst rest; apply rdv_str; exact V|]. split; [intros heap; reflexivity|reflexivity].
Qed.
Lemma re_step_entry R kt vt acc st bs d0k r1 st1 : R_rd R st bs = Ok (d0k, r1, st1) ->
  (match d0k with DStr _ | DInt _ _ => True | _ => False end) ->
  re_step te R kt vt acc st bs =
  (do (y, st2) <- R_rd R st1 r1 ;; let '(v, r2) := y in
   do k' <- (match kt with TIface => Ok d0k | _ => set_value te (dheap st2) kt d0k end) ;;
   do v' <- (match vt with TIface => Ok v | _ => set_value te (dheap st2) vt v end) ;;
   if hashable k' then R_re R kt vt (entries_put acc k' v') st2 r2 else Err ECodec).
Proof. intros H S. unfold re_step. rewrite H. destruct d0k; try contradiction; reflexivity. Qed.

Lemma entries_rt kt vt : kt <> TIface -> vt <> TIface -> forall es,
  Forall (fun e => rt_ok (snd e)) es -> Forall key_ok (map fst es) -> NoDup (map fst es) ->
  Forall (fun e => sgv kt (fst e) /\ sgv vt (snd e) /\ elem_pos_ok (snd e)) es ->
  forall st st', enm st = nm -> cls_ok F (ecls st) -> write_entries es st = Ok st' ->
  cls_ok F (ecls st') /\ enm st' = enm st /\ grows st st' /\
  exists bs dvs cells, ebytes st' = ebytes st ++ bs /\ length dvs = length es /\
    dges (erefs st) es (combine (map key_img (map fst es)) dvs) cells (erefs st') /\
    (small st' -> forall dst rest, Inv st dst ->
       exists dst', Inv st' dst' /\ dheap dst' = dheap dst ++ cells /\
       forall f acc, (need_dentries es <= f)%nat ->
         (forall k, In k (map fst es) -> forall k' v', In (k', v') acc -> dkey_eqb (key_img k) k' = false) ->
         R_re (readers_at te tm f) kt vt acc dst (bs ++ 90 :: rest) = Ok (acc ++ combine (map key_img (map fst es)) dvs, rest, dst')).
Proof.
  intros NK NV. induction es as [|[k x] r IH]; intros HF KO ND HS st st' En C W.
  - cbn in W. inversion W; subst st'. split; [exact C|]. split; [reflexivity|]. split; [apply grows_refl|].
    exists [], [], []. split; [rewrite app_nil_r; reflexivity|]. split; [reflexivity|]. split; [constructor|].
    intros _ dst rest I. exists dst. split; [exact I|]. split; [rewrite app_nil_r; reflexivity|].
    intros f acc Hf _. cbn [need_dentries] in Hf. destruct f as [|[|f]]; try lia. rewrite re_S. cbn [app map combine]. rewrite app_nil_r.
    unfold re_step. rewrite rd_S. reflexivity.
  - inversion HF as [|? ? Hx Hr]; subst. cbn [map fst] in KO, ND. inversion KO as [|? ? KOk KOr]; subst. inversion ND as [|? ? NIk NDr]; subst.
    inversion HS as [|? ? (Sk & Sx & EPx) Sr]; subst. cbn [fst snd] in *.
    cbn [write_entries] in W. destruct (write_data k st) as [s1| | |] eqn:E1; try discriminate.
    destruct (write_data x s1) as [s2| | |] eqn:E2; try discriminate.
    destruct (key_rt kt k st s1 KOk Sk E1) as (bk & d0k & ES1 & LBk & SHk & RDk & SVk & HSk). subst s1.
    destruct (Hx vt (emit st bk) s2 En Sx C E2) as (C2 & N2 & G2 & bx & dx & cx & B2 & LBx & D2 & P2).
    assert (En2 : enm s2 = nm) by (rewrite N2; exact En).
    destruct (IH Hr KOr NDr Sr s2 st' En2 C2 W) as (C3 & N3 & G3 & br & dvs & cr & B3 & L3 & D3 & P3).
    split; [exact C3|]. split; [rewrite N3, N2; reflexivity|].
    split; [eapply grows_trans; [|exact G3]; destruct G2 as [A1 A2]; split; cbn [emit erefs ecls] in *; lia|].
    exists (bk ++ bx ++ br), (dx :: dvs), (cx ++ cr).
    split; [rewrite B3, B2, ebytes_emit, <- !app_assoc; reflexivity|]. split; [cbn [length]; rewrite L3; reflexivity|].
    split.
    { cbn [map fst combine]. change (cx ++ cr) with ([] ++ cx ++ cr).
      eapply (dges_cons (erefs st) k x r (key_img k) dx _ [] cx cr (erefs st) (erefs s2) (erefs st')); [|exact D2|exact D3].
      destruct k; cbn in KOk; try contradiction; cbn [key_img]; constructor. }
    intros Sm dst rest I.
    assert (I0 : Inv (emit st bk) dst) by exact I.
    destruct (P2 (small_back _ _ G3 Sm) dst (br ++ 90 :: rest) I0) as (dst2 & I2 & H2' & V2).
    destruct (P3 Sm dst2 rest I2) as (dst3 & I3 & H3' & V3).
    exists dst3. split; [exact I3|]. split; [rewrite H3', H2', <- app_assoc; reflexivity|].
    intros f acc Hf FR. cbn [need_dentries] in Hf. destruct f as [|f]; [lia|]. rewrite re_S.
    pose proof (need_d_pos k). destruct f as [|f']; [lia|].
    rewrite <- !app_assoc.
    rewrite (re_step_entry _ kt vt acc dst _ d0k (bx ++ br ++ 90 :: rest) dst); [|rewrite rd_S; apply RDk|exact SHk].
    destruct (V2 (S f') ltac:(lia)) as (_ & _ & V2c). destruct (V2c NV EPx) as (d0x & RDx & SVx).
    rewrite RDx. cbn [bind].
    replace (match kt with TIface => Ok d0k | _ => set_value te (dheap dst2) kt d0k end) with (Ok (key_img k) : result dval)
      by (destruct kt; try (symmetry; apply SVk); contradiction).
    cbn [bind].
    replace (match vt with TIface => Ok d0x | _ => set_value te (dheap dst2) vt d0x end) with (Ok dx : result dval)
      by (destruct vt; try (symmetry; exact SVx); contradiction).
    cbn [bind]. rewrite HSk.
    rewrite entries_put_fresh by (intros k' v' I'; apply (FR k (or_introl eq_refl) k' v' I')).
    rewrite (V3 (S f') (acc ++ [(key_img k, dx)])); [cbn [map fst combine]; rewrite <- app_assoc; reflexivity|lia|].
    intros k2 I2' k' v' I'. apply in_app_or in I'. destruct I' as [I'|[I'|[]]].
    + apply (FR k2 (or_intror I2') k' v' I').
    + inversion I'; subst k' v'. destruct (dkey_eqb (key_img k2) (key_img k)) eqn:EQ; [|reflexivity].
      exfalso. apply NIk. rewrite <- (key_img_eqb k2 k); [exact I2'| |exact KOk|exact EQ].
      rewrite Forall_forall in KOr. apply KOr. exact I2'.
Qed.

Definition map_hdr (ty : name) : bytes := match nm_lookup nm ty with Some mn => 77 :: encode_string mn | None => [72] end.
Lemma map_prefix_bytes st1 ty : enm st1 = nm ->
  let st2 := map_prefix st1 ty in
  erefs st2 = erefs st1 /\ enm st2 = enm st1 /\ ecls st2 = ecls st1 /\ ebytes st2 = ebytes st1 ++ map_hdr ty.
Proof.
  intros En. cbv zeta. unfold map_prefix, map_hdr. replace (nm_lookup (enm st1) ty) with (nm_lookup nm ty) by (rewrite En; reflexivity).
  destruct (nm_lookup nm ty); (split; [reflexivity|]); (split; [reflexivity|]); (split; [reflexivity|]).
  - rewrite !ebytes_emit, <- app_assoc. reflexivity.
  - apply ebytes_emit.
Qed.
Definition map_dstT (dst : dstate) (ty : name) : dstate :=
  match nm_lookup nm ty with Some mn => {| dtypes := dtypes dst ++ [mn]; dcls := dcls dst; dheap := dheap dst |} | None => dst end.
Lemma map_dec R dst ty kt vt tail :
  (forall mn, nm_lookup nm ty = Some mn -> Forall valid_rune mn /\ tm_lookup tm mn = Some (TMap kt vt)) ->
  dcls (map_dstT dst ty) = dcls dst /\ dheap (map_dstT dst ty) = dheap dst /\
  rm_step te R (TMap kt vt) dst (map_hdr ty ++ tail) = map_body R kt vt (map_dstT dst ty) tail /\
  (nm_lookup nm ty <> None -> rd_step tm R dst (map_hdr ty ++ tail) = map_body R kt vt (map_dstT dst ty) tail).
Proof.
  intros HM. unfold map_hdr, map_dstT. destruct (nm_lookup nm ty) as [mn|] eqn:NL.
  - destruct (HM mn eq_refl) as [V TM]. split; [reflexivity|]. split; [reflexivity|].
    cbn [app]. split.
    + transitivity (do (x, st1) <- read_type dst (encode_string mn ++ tail) ;; map_body R kt vt st1 (snd x)); [reflexivity|].
      rewrite read_type_str by exact V. reflexivity.
    + intros _. transitivity (do (x, st1) <- read_type dst (encode_string mn ++ tail) ;; let '(mty, r1) := x in
                               match tm_lookup tm mty with Some (TMap kt0 vt0) => map_body R kt0 vt0 st1 r1 | Some _ => Unmodelled | None => Err ECodec end); [reflexivity|].
      rewrite read_type_str by exact V. cbn [bind]. rewrite TM. reflexivity.
  - split; [reflexivity|]. split; [reflexivity|]. split; [reflexivity|]. intros X. contradiction.
Qed.

Lemma rt_map0 ty kt vt st : cls_ok F (ecls st) -> rt_post (TMap kt vt) (VMap 0 ty []) st (emit st [78]).
Proof.
  intros C. split; [exact C|]. split; [reflexivity|]. split; [split; cbn; lia|].
  exists [78], (DMapV kt vt []), []. split; [apply ebytes_emit|]. split; [cbn; lia|]. split; [apply dg_map0|].
  intros _ dst rest I. exists dst. split; [exact I|]. split; [rewrite app_nil_r; reflexivity|].
  intros f Hf. rewrite need_d_map in Hf. cbn [need_dentries] in Hf. destruct f as [|[|f]]; try lia.
  split; [|split; [intros a ty0 fs X _; discriminate|]].
  - rewrite rf_S. apply rf_step_of_core. unfold rf_core. rewrite rm_S. reflexivity.
  - intros _ _. exists DNil. split; reflexivity.
Qed.

Lemma rt_map ty e0 es kt vt st st' : kt <> TIface -> vt <> TIface ->
  (forall mn, nm_lookup nm ty = Some mn -> Forall valid_rune mn /\ tm_lookup tm mn = Some (TMap kt vt)) ->
  Forall key_ok (map fst (e0 :: es)) -> NoDup (map fst (e0 :: es)) ->
  Forall (fun e => sgv kt (fst e) /\ sgv vt (snd e) /\ elem_pos_ok (snd e)) (e0 :: es) ->
  Forall (fun e => rt_ok (snd e)) (e0 :: es) -> enm st = nm -> cls_ok F (ecls st) ->
  match write_entries (e0 :: es) (map_prefix {| ecls := ecls st; erefs := erefs st ++ [(0, Encoder.RMap)]; enm := enm st; eout := eout st |} ty) with
  | Ok s => Ok (emit s [g_endFlag]) | e => e end = Ok st' ->
  rt_post (TMap kt vt) (VMap 0 ty (e0 :: es)) st st'.
Proof.
  intros NK NV HM KO ND HS HR En C W.
  set (st1 := {| ecls := ecls st; erefs := erefs st ++ [(0, Encoder.RMap)]; enm := enm st; eout := eout st |}) in *.
  destruct (map_prefix_bytes st1 ty En) as (P1 & P2 & P3 & PB).
  set (st2 := map_prefix st1 ty) in *.
  destruct (write_entries (e0 :: es) st2) as [s3| | |] eqn:WE; try discriminate. inversion W; subst st'. clear W.
  assert (En2 : enm st2 = nm) by (rewrite P2; exact En).
  assert (C2' : cls_ok F (ecls st2)) by (rewrite P3; exact C).
  destruct (entries_rt kt vt NK NV (e0 :: es) HR KO ND HS st2 s3 En2 C2' WE) as (C2 & N2 & G2 & b2 & dvs & c2 & B2 & L2 & D2 & PE).
  set (des := combine (map key_img (map fst (e0 :: es))) dvs) in *.
  split; [exact C2|]. split; [cbn [emit enm]; rewrite N2, P2; reflexivity|].
  split; [destruct G2 as [G21 G22]; split; cbn [emit erefs ecls]; [rewrite P1 in G21; cbn [erefs st1] in G21; rewrite app_length in G21; cbn in G21; lia|rewrite P3 in G22; exact G22]|].
  exists (map_hdr ty ++ b2 ++ [90]), (DMapV kt vt des), (Decoder.RMap (Some (DMapV kt vt des)) :: c2).
  split; [rewrite ebytes_emit, B2, PB, <- !app_assoc; reflexivity|].
  split; [rewrite !app_length; cbn [length]; lia|].
  split; [apply dg_map; rewrite P1 in D2; exact D2|].
  intros Sm dst rest I. pose proof (Inv_len _ _ I) as IL. pose proof I as I0. destruct I as (I1 & I2 & I3).
  assert (Sm3 : small s3) by exact Sm.
  set (dstT := map_dstT dst ty).
  assert (DTC : dcls dstT = dcls dst /\ dheap dstT = dheap dst) by (unfold dstT, map_dstT; destruct (nm_lookup nm ty); split; reflexivity).
  destruct DTC as [DC DH].
  assert (IP : Inv st2 (heap_push dstT (Decoder.RMap None))).
  { eapply (Inv_push st dst st2 dstT (Decoder.RMap None) 0 Encoder.RMap I0); [rewrite P3, DC; exact I1|exact DH|rewrite P1; reflexivity|reflexivity|discriminate]. }
  destruct (PE Sm3 (heap_push dstT (Decoder.RMap None)) rest IP) as (dst2 & J2 & H2h & V2). cbn [heap_push dheap] in H2h. rewrite DH in H2h.
  rewrite <- app_assoc in H2h. cbn [app] in H2h.
  assert (J2' : Inv (emit s3 [g_endFlag]) dst2) by exact J2.
  destruct (Inv_fill (emit s3 [g_endFlag]) dst2 (dheap dst) (Decoder.RMap None) (Decoder.RMap (Some (DMapV kt vt des))) c2 J2' H2h eq_refl) as [IF HH]; [intros ty0 o X; discriminate|].
  set (dst' := heap_set dst2 (length (dheap dst)) (Decoder.RMap (Some (DMapV kt vt des)))) in *.
  exists dst'. split; [exact IF|]. split; [exact HH|].
  intros f Hf. rewrite need_d_map in Hf. destruct f as [|[|g]]; try lia.
  assert (MB : forall g', (need_dentries (e0 :: es) <= g')%nat ->
     map_body (readers_at te tm g') kt vt dstT (b2 ++ 90 :: rest) = Ok (DMapV kt vt des, rest, dst')).
  { intros g' Hg'. unfold map_body. rewrite (V2 g' [] Hg') by (intros k _ k' v' []). cbn [bind app]. rewrite DH. reflexivity. }
  replace ((map_hdr ty ++ b2 ++ [90]) ++ rest) with (map_hdr ty ++ b2 ++ 90 :: rest) by (rewrite <- !app_assoc; reflexivity).
  destruct (map_dec (readers_at te tm g) dst ty kt vt (b2 ++ 90 :: rest) HM) as (_ & _ & RM & _).
  destruct (map_dec (readers_at te tm (S g)) dst ty kt vt (b2 ++ 90 :: rest) HM) as (_ & _ & _ & RDm).
  split; [|split].
  - rewrite rf_S. apply rf_step_of_core. unfold rf_core. rewrite rm_S, RM. apply MB. lia.
  - intros a0 ty0 fs0 X _. discriminate.
  - intros _ EP. cbn [elem_pos_ok] in EP. exists (DMapV kt vt des). split.
    + rewrite rd_S, (RDm EP). apply MB. lia.
    + cbn [set_value]. rewrite !gtype_eqb_refl. reflexivity.
Qed.

(* ---- the theorem ---- *)
Theorem graph_roundtrip : forall v, rt_ok v.
Proof.
  induction v using gval_ind'; intros t st st' En Hs C W; try (inversion Hs; fail).
  - (* nil pointer *) inversion Hs; subst. cbn [write_data] in W. inversion W; subst st'.
    eapply (rt_leaf _ VNil st [78] DNil); [apply dg_nil|intros; discriminate|exact C|cbn; lia|intros; reflexivity|].
    intros f dst rest. exists DNil. split; [reflexivity|intros heap; reflexivity].
  - (* bool *) inversion Hs; subst. cbn [write_data] in W. inversion W; subst st'.
    eapply (rt_leaf TBool (VBool b) st _ (DBool b)); [apply dg_bool|intros; discriminate|exact C|cbn; lia|intros; apply field_bool_roundtrip|].
    intros f dst rest. exists (DBool b). split; [destruct b; reflexivity|intros heap; reflexivity].
  - (* integers *) inversion Hs; subst. cbn [write_data] in W.
    destruct (enc_kind k z) as [bs| | |] eqn:E; inversion W; subst st'.
    assert (KI : k = KInt -> in_i32 z).
    { intros ->. cbn [enc_kind] in E. unfold between in E. destruct ((-2147483648 <=? z) && (z <=? 2147483647)) eqn:B; [|discriminate]. unfold in_i32. lia. }
    assert (BS : bs = if kind_wire_int k then gencodeInt (swrap 32 z) else gencodeLong (swrap 64 z)).
    { destruct k; cbn [enc_kind kind_wire_int] in *; try (destruct (between _ _ _)); inversion E; reflexivity. }
    eapply (rt_leaf (TInt k) (VInt k z) st bs (DInt k z)); [apply dg_int|intros; discriminate|exact C| |intros; apply field_int_roundtrip; assumption|].
    + rewrite BS. destruct (kind_wire_int k).
      * destruct (int_first_tag _ (swrap32_range z)) as (t0 & r0 & E0 & _). rewrite E0. cbn; lia.
      * destruct (long_first_tag _ (swrap64_range z)) as (t0 & r0 & E0 & _). rewrite E0. cbn; lia.
    + intros f dst rest. exists (if kind_wire_int k then DInt KInt32 (swrap 32 z) else DInt KInt64 (swrap 64 z)).
      split; [|intros heap; apply sv_int; assumption]. rewrite BS, rd_S.
      destruct (kind_wire_int k); [apply rdv_int; apply swrap32_range|apply rdv_long; apply swrap64_range].
  - (* float64 *) inversion Hs; subst. cbn [write_data] in W. unfold write_double in W.
    destruct (gencodeDouble b) as [bs| | |] eqn:E; inversion W; subst st'.
    match goal with H : in_f64 b |- _ => pose proof H as Hb; destruct (double_roundtrip b [] bs H E) as (d & D & Fq) end. rewrite app_nil_r in D.
    destruct (double_denotes b bs [] Hb E) as (t0 & tl0 & d0 & B0 & _).
    eapply (rt_leaf TF64 (VF64 b) st bs (DF64 d)); [apply dg_f64; exact Fq|intros; discriminate|exact C|rewrite B0; cbn; lia| |].
    + intros R dst rest. apply rf_step_of_core. unfold rf_core. rewrite (decode_double_ext bs d D rest). reflexivity.
    + intros f dst rest. exists (DF64 d). split; [rewrite rd_S; eapply rdv_double; eassumption|intros heap; reflexivity].
  - (* string *) inversion Hs; subst. cbn [write_data] in W. inversion W; subst st'.
    match goal with H : Forall valid_rune rs |- _ => pose proof H as V end.
    destruct (string_denotes rs [] V) as (t0 & tl0 & E0 & _).
    eapply (rt_leaf TStr (VStr rs) st _ (DStr rs)); [apply dg_str|intros; discriminate|exact C|rewrite E0; cbn; lia|intros; apply field_string_roundtrip; exact V|].
    intros f dst rest. exists (DStr rs). split; [rewrite rd_S; apply rdv_str; exact V|intros heap; reflexivity].
  - (* bytes *) inversion Hs; subst. cbn [write_data] in W. inversion W; subst st'. apply rt_bytes. exact C.
  - (* time *) inversion Hs; subst. cbn [write_data] in W. inversion W; subst st'.
    destruct (time_is_zero s n) eqn:Z0.
    + assert (G : gencodeDate s n = [78]) by (unfold gencodeDate; rewrite Z0; reflexivity). rewrite G.
      eapply (rt_leaf TTime (VTime s n) st [78] (DTime zero_time_sec 0)); [apply dg_time0; exact Z0|intros; discriminate|exact C|cbn; lia|intros; reflexivity|].
      intros f dst rest. exists DNil. split; [reflexivity|intros heap; reflexivity].
    + destruct (date_head s n Z0) as (t0 & tl & E & T).
      assert (DT : forall rest, decode_date_tag t0 (tl ++ rest) = Ok ((s, n - n mod 1000000), rest)).
      { intros rest. pose proof (date_roundtrip s n rest ltac:(assumption) ltac:(assumption) Z0) as DR. rewrite E in DR. cbn [app] in DR.
        unfold decode_date in DR. cbn [read_tag bind] in DR. exact DR. }
      eapply (rt_leaf TTime (VTime s n) st _ (DTime s (n - n mod 1000000))); [apply dg_time; exact Z0|intros; discriminate|exact C|rewrite E; cbn; lia| |].
      * intros R dst rest. rewrite E. cbn [app]. apply rf_step_of_core. unfold rf_core. rewrite rs_date by exact T. rewrite DT. cbn [bind fst snd set_value]. reflexivity.
      * intros f dst rest. rewrite E. cbn [app]. exists (DTime s (n - n mod 1000000)). split; [rewrite rd_S, rdv_date by exact T; rewrite DT; reflexivity|intros heap; reflexivity].
  - (* struct *)
    inversion Hs as [| | | | | | | | | |? ? ? c gfs NZ TA NL TM TE Vc HF VF LN NDB HK HU|? ? c gfs NL TM TE Vc HF VF LN NDB HK HU]; subst.
    + rewrite write_data_struct in W. unfold check_ref in W.
      destruct (ref_find (erefs st) a RStruct 0) as [i|] eqn:RF.
      * inversion W; subst st'. apply rt_ref; [exact RF|apply dg_hit; exact RF|exact C].
      * eapply rt_struct_new; try eassumption. reflexivity.
    + rewrite write_data_struct in W. unfold check_ref in W. rewrite ref_find_zero in W.
      eapply rt_struct_val; eassumption.
  - (* list *)
    inversion Hs as [| | | | | |? ? ? ltn NL NI TM V NE LN HS HP| | | | |]; subst.
    rewrite write_data_slice in W. replace (if (length l =? 0)%nat then 0 else 0) with 0 in W by (destruct (length l =? 0)%nat; reflexivity).
    destruct (check_ref_zero st RSlice) as [st1 CR]. unfold check_ref in CR. rewrite ref_find_zero in CR. inversion CR; subst st1.
    unfold check_ref in W. rewrite ref_find_zero in W.
    eapply rt_slice; try eassumption.
  - (* map *)
    inversion Hs as [| | | | | | |? ? ? ? NK NV HM KO ND HS| | | |]; subst.
    assert (HR : Forall (fun e => rt_ok (snd e)) es) by (eapply Forall_impl; [|exact H]; intros e0 [_ X]; exact X).
    rewrite write_data_map in W. destruct es as [|e0 es0].
    + inversion W; subst st'. apply rt_map0. exact C.
    + unfold check_ref in W. rewrite ref_find_zero in W. eapply rt_map; eassumption.
  - (* already written *)
    inversion Hs; subst. cbn [write_data] in W.
    destruct (ref_find (erefs st) a RStruct 0) as [i|] eqn:RF; [|discriminate]. inversion W; subst st'.
    apply rt_ref; [exact RF|apply dg_seen; exact RF|exact C].
Qed.

(* the list  l  of element type e, rendered by hand in the variable-length typed form, decodes at a
   field of type []e to the same value as in the forms the encoder writes *)
Theorem list_variable_typed_form ty l e ltn st st' :
  nm_lookup nm ty = Some ltn -> tm_lookup tm ltn = Some (TSlice e) -> Forall valid_rune ltn -> e <> TIface ->
  Forall (sgv e) l -> Forall elem_pos_ok l -> enm st = nm -> cls_ok F (ecls st) ->
  write_items l {| ecls := ecls st; erefs := erefs st ++ [(0, RSlice)]; enm := enm st; eout := [] |} = Ok st' ->
  exists ds cells, dgs (erefs st ++ [(0, RSlice)]) l ds cells (erefs st') /\
    (small st' -> forall dst rest, Inv st dst ->
       exists dst', Inv st' dst' /\ dheap dst' = dheap dst ++ RList (Some (DSlice e ds)) :: cells /\
       forall f, (4 + need_ditems l <= f)%nat ->
         R_rf (readers_at te tm f) (TSlice e) dst ((85 :: encode_string ltn ++ ebytes st' ++ [90]) ++ rest) = Ok (DSlice e ds, rest, dst')).
Proof.
  intros NL TM V NE HS HP En C W.
  set (st1 := {| ecls := ecls st; erefs := erefs st ++ [(0, RSlice)]; enm := enm st; eout := [] |}) in *.
  assert (HR : Forall rt_ok l) by (apply Forall_forall; intros x _; apply graph_roundtrip).
  destruct (elems_rz e NE l HR HS HP st1 st' En C W) as (C2 & N2 & G2 & b2 & ds & c2 & B2 & D2 & PE).
  cbn [ebytes st1 eout concat app] in B2. exists ds, c2. split; [exact D2|].
  intros Sm dst rest I. pose proof (Inv_len _ _ I) as IL. pose proof I as I0. destruct I as (I1 & I2 & I3).
  set (dstT := {| dtypes := dtypes dst ++ [ltn]; dcls := dcls dst; dheap := dheap dst |}).
  assert (IP : Inv st1 (heap_push dstT (RList None))).
  { eapply (Inv_push st dst st1 dstT (RList None) 0 RSlice I0); [exact I1|reflexivity|reflexivity|reflexivity|discriminate]. }
  destruct (PE Sm (heap_push dstT (RList None)) rest IP) as (dst2 & J2 & H2h & V2).
  cbn [heap_push dheap dstT] in H2h. rewrite <- app_assoc in H2h. cbn [app] in H2h.
  destruct (Inv_fill st' dst2 (dheap dst) (RList None) (RList (Some (DSlice e ds))) c2 J2 H2h eq_refl) as [IF HH]; [intros ty0 o X; discriminate|].
  exists (heap_set dst2 (length (dheap dst)) (RList (Some (DSlice e ds)))). split; [exact IF|]. split; [exact HH|].
  intros f Hf. destruct f as [|[|g]]; try lia.
  rewrite rf_S. apply rf_step_of_core. unfold rf_core. rewrite rl_S. unfold rl_step. cbn [app bind].
  change (gbinaryTag 85) with false. change (85 =? g_nilTag) with false. change (grefTag 85) with false.
  change (85 =? g_objectDefTag) with false. change (gtypedListTag 85) with true. cbv iota.
  unfold typed_list_step. rewrite B2. rewrite <- !app_assoc. rewrite read_type_str by exact V. cbn [bind].
  change (85 =? g_listVariableTypedTag) with true. cbv iota. cbn [bind]. rewrite TM.
  change ({| dtypes := dtypes dst ++ [ltn]; dcls := dcls dst; dheap := dheap dst |}) with dstT.
  cbn [app]. rewrite (V2 g ltac:(lia)). cbn [bind set_slice]. rewrite gtype_eqb_refl. reflexivity.
Qed.

(* when the rendering lists exactly the fields of the Go type (what the encoder does for a value of
   that type), every field holds its own value: C01 as the special case of binding by name *)
Lemma bind_known_exact gall : forall sub ds, (forall n t, In (n, t) sub -> find_field gall (lower_name n) = Some (n, t)) ->
  length ds = length sub -> bind_known gall (map fst sub) ds = combine (map fst sub) ds.
Proof.
  induction sub as [|[n t] r IH]; intros ds FF L; [destruct ds; reflexivity|].
  destruct ds as [|d ds']; [discriminate|]. cbn [map fst bind_known combine]. rewrite (FF n t (or_introl eq_refl)).
  rewrite IH; [reflexivity|intros n0 t0 I0; apply FF; right; exact I0|cbn in L; lia].
Qed.
Lemma exact_fields gfs ds : fields_findable gfs -> length ds = length gfs ->
  assoc_all (zeros_of te gfs) (bind_known gfs (map fst gfs) ds) = combine (map fst gfs) ds.
Proof.
  intros [ND FF] L. rewrite bind_known_exact by assumption. unfold zeros_of. rewrite zeros_combine.
  pose proof (assoc_all_replace (map fst gfs) (map (fun p => zero te (snd p)) gfs) ds [] ND) as AR. cbn [app] in AR.
  apply AR; [rewrite !map_length; reflexivity|rewrite map_length; exact L|intros k _ []].
Qed.

(* a whole message: ToBytes, then ToObject *)
Theorem graph_message_roundtrip a ty fs st' :
  sgv (TPtr (TStruct ty)) (VStruct a ty fs) -> write_data (VStruct a ty fs) (estate0 nm) = Ok st' -> small st' ->
  exists gfs ds cells, te_lookup te ty = Some gfs /\ length ds = length fs /\ dgs [(a, RStruct)] (map snd fs) ds cells (erefs st') /\
    forall f, (need_d (VStruct a ty fs) <= f)%nat ->
      exists dst', R_rd (readers_at te tm f) dstate0 (ebytes st') = Ok (DPtr 0 ty, [], dst') /\
                   dheap dst' = RObj ty (Some (assoc_all (zeros_of te gfs) (bind_known gfs (map fst fs) ds))) :: cells.
Proof.
  intros Hs W Sm.
  assert (NZ : a <> 0) by (inversion Hs; assumption).
  destruct (graph_roundtrip _ _ (estate0 nm) st' eq_refl Hs (fun c fs0 (I : In (c, fs0) []) => match I with end) W)
    as (_ & _ & _ & bs & d & cells & B & _ & D & P).
  inversion D as [| | | | | | | | |? ? ? ? ? RF|? ? ? ? gfs ds cells' ? RF TE DS|? ? ? ? ? ? ? TE DS| | |]; subst; [discriminate| |contradiction].
  exists gfs, ds, cells'. split; [exact TE|]. split.
  { clear - DS. remember (map snd fs) as l eqn:EL. assert (LL : length l = length fs) by (subst l; apply map_length). rewrite <- LL. clear EL LL.
    induction DS; cbn [length]; [reflexivity|]. f_equal. assumption. }
  split; [exact DS|]. intros f Hf.
  assert (I0 : Inv (estate0 nm) dstate0) by (split; [reflexivity|split; [reflexivity|intros i a0 N; destruct i; discriminate]]).
  destruct (P Sm dstate0 [] I0) as (dst' & _ & HH & V).
  exists dst'. destruct (V f Hf) as [_ [V2 _]]. split; [|exact HH].
  cbn in B. rewrite B. rewrite <- (app_nil_r bs). apply (V2 a ty fs eq_refl NZ).
Qed.

(* ToObject(ToBytes(v)) with the fuel the decoder model gives itself *)
Theorem graph_decode_encode a ty fs st' :
  sgv (TPtr (TStruct ty)) (VStruct a ty fs) -> write_data (VStruct a ty fs) (estate0 nm) = Ok st' -> small st' ->
  (need_d (VStruct a ty fs) <= decode_fuel (ebytes st'))%nat ->
  exists gfs ds cells dst', te_lookup te ty = Some gfs /\ length ds = length fs /\ dgs [(a, RStruct)] (map snd fs) ds cells (erefs st') /\
    decode te tm (ebytes st') = Ok (DPtr 0 ty, [], dst') /\
    dheap dst' = RObj ty (Some (assoc_all (zeros_of te gfs) (bind_known gfs (map fst fs) ds))) :: cells.
Proof.
  intros Hs W Sm Hn. destruct (graph_message_roundtrip a ty fs st' Hs W Sm) as (gfs & ds & cells & TE & L & DS & V).
  destruct (V _ Hn) as (dst' & V1 & V2). exists gfs, ds, cells, dst'. repeat split; assumption.
Qed.

(* ---- streams: n values written one after the other with one encoder (its tables persisting),
        read one after the other with one decoder ---- *)
Fixpoint read_n (f n : nat) (dst : dstate) (bs : bytes) : dres (list dval) :=
  match n with
  | O => Ok ([], bs, dst)
  | S n' => do (x, d1) <- R_rd (readers_at te tm f) dst bs ;; let '(v, r) := x in
            do (y, d2) <- read_n f n' d1 r ;; let '(vs, r2) := y in Ok (v :: vs, r2, d2)
  end.
Definition top_ok (v : gval) : Prop := exists a ty fs, v = VStruct a ty fs /\ sgv (TPtr (TStruct ty)) v.
Theorem stream_roundtrip : forall vs st st', Forall top_ok vs ->
  enm st = nm -> cls_ok F (ecls st) -> write_items vs st = Ok st' ->
  cls_ok F (ecls st') /\ enm st' = enm st /\ grows st st' /\
  exists bs ds cells, ebytes st' = ebytes st ++ bs /\ dgs (erefs st) vs ds cells (erefs st') /\
    (small st' -> forall dst rest, Inv st dst ->
       exists dst', Inv st' dst' /\ dheap dst' = dheap dst ++ cells /\
       forall f, (need_ditems vs <= f)%nat -> read_n f (length vs) dst (bs ++ rest) = Ok (ds, rest, dst')).
Proof.
  induction vs as [|v r IH]; intros st st' HT En C W.
  - cbn in W. inversion W; subst st'. split; [exact C|]. split; [reflexivity|]. split; [apply grows_refl|].
    exists [], [], []. split; [rewrite app_nil_r; reflexivity|]. split; [constructor|].
    intros _ dst rest I. exists dst. split; [exact I|]. split; [rewrite app_nil_r; reflexivity|]. intros f _. reflexivity.
  - inversion HT as [|? ? (a & ty & fs & EV & Sv) Hr]; subst.
    cbn [write_items] in W. destruct (write_data (VStruct a ty fs) st) as [s1| | |] eqn:E1; try discriminate.
    destruct (graph_roundtrip _ _ st s1 En Sv C E1) as (C1 & N1 & G1 & b1 & d1 & c1 & B1 & LB1 & D1 & P1).
    assert (En1 : enm s1 = nm) by (rewrite N1; exact En).
    destruct (IH s1 st' Hr En1 C1 W) as (C2 & N2 & G2 & b2 & ds & c2 & B2 & D2 & P2).
    split; [exact C2|]. split; [rewrite N2; exact N1|]. split; [eapply grows_trans; eassumption|].
    exists (b1 ++ b2), (d1 :: ds), (c1 ++ c2). split; [rewrite B2, B1, <- app_assoc; reflexivity|].
    split; [econstructor; eassumption|].
    intros Sm dst rest I.
    destruct (P1 (small_back _ _ G2 Sm) dst (b2 ++ rest) I) as (dst1 & I1 & H1 & V1).
    destruct (P2 Sm dst1 rest I1) as (dst2 & I2 & H2' & V2).
    exists dst2. split; [exact I2|]. split; [rewrite H2', H1, <- app_assoc; reflexivity|].
    intros f Hf. cbn [need_ditems] in Hf. cbn [length read_n]. rewrite <- app_assoc.
    destruct (V1 f ltac:(lia)) as [_ [V1b _]]. rewrite (V1b a ty fs eq_refl ltac:(inversion Sv; assumption)). cbn [bind]. rewrite V2 by lia. reflexivity.
Qed.

(* ---- sharing: a decoded pointer is the ordinal of the address, and ordinals identify addresses ---- *)
Lemma ref_find_app_hit : forall refs a k i0 i more, ref_find refs a k i0 = Some i -> ref_find (refs ++ more) a k i0 = Some i.
Proof.
  induction refs as [|[b kb] r IH]; intros a k i0 i more H; cbn [ref_find app] in *; [discriminate|].
  destruct ((b =? a) && rkind_eqb k kb && negb (a =? 0)); [exact H|]. apply IH. exact H.
Qed.
Lemma dg_extends : forall refs v d cells refs', dg refs v d cells refs' -> exists more, refs' = refs ++ more
with dgs_extends : forall refs l ds cells refs', dgs refs l ds cells refs' -> exists more, refs' = refs ++ more
with dges_extends : forall refs l ds cells refs', dges refs l ds cells refs' -> exists more, refs' = refs ++ more.
Proof.
  - intros refs v d cells refs' H. destruct H; try (exists []; rewrite app_nil_r; reflexivity).
    + match goal with X : dgs _ _ _ _ _ |- _ => destruct (dgs_extends _ _ _ _ _ X) as [more E] end. exists ((a, RStruct) :: more). rewrite E, <- app_assoc. reflexivity.
    + match goal with X : dgs _ _ _ _ _ |- _ => destruct (dgs_extends _ _ _ _ _ X) as [more E] end. exists ((0, RStruct) :: more). rewrite E, <- app_assoc. reflexivity.
    + destruct (dgs_extends _ _ _ _ _ H) as [more E]. exists ((0, RSlice) :: more). rewrite E, <- app_assoc. reflexivity.
    + destruct (dges_extends _ _ _ _ _ H) as [more E]. exists ((0, Encoder.RMap) :: more). rewrite E, <- app_assoc. reflexivity.
  - intros refs l ds cells refs' H. destruct H; [exists []; rewrite app_nil_r; reflexivity|].
    destruct (dg_extends _ _ _ _ _ H) as [m1 E1]. destruct (dgs_extends _ _ _ _ _ H0) as [m2 E2].
    exists (m1 ++ m2). rewrite E2, E1, <- app_assoc. reflexivity.
  - intros refs l ds cells refs' H. destruct H; [exists []; rewrite app_nil_r; reflexivity|].
    destruct (dg_extends _ _ _ _ _ H) as [m1 E1]. destruct (dg_extends _ _ _ _ _ H0) as [m2 E2]. destruct (dges_extends _ _ _ _ _ H1) as [m3 E3].
    exists (m1 ++ m2 ++ m3). rewrite E3, E2, E1, <- !app_assoc. reflexivity.
Qed.
(* the pointer decoded at a position that holds (a pointer to) the object at address a is the
   ordinal a has in the reference table - in the table at the end of the message, too *)
Theorem decoded_pointer_is_ordinal refs v d cells refs' a : dg refs v d cells refs' -> a <> 0 ->
  (v = VSeen RStruct a \/ exists ty fs, v = VStruct a ty fs) ->
  exists i ty, d = DPtr (Z.to_nat i) ty /\ forall more, ref_find (refs' ++ more) a RStruct 0 = Some i.
Proof.
  intros D NZ V. inversion D; subst; try (destruct V as [V|(ty0 & fs0 & V)]; discriminate);
    try (destruct V as [V|(ty0 & fs0 & V)]; inversion V; subst; contradiction).
  - destruct V as [V|(ty0 & fs0 & V)]; inversion V; subst. eexists; eexists. split; [reflexivity|]. intros more. apply ref_find_app_hit. assumption.
  - destruct V as [V|(ty0 & fs0 & V)]; inversion V; subst. eexists; eexists. split; [reflexivity|]. intros more. apply ref_find_app_hit. assumption.
  - destruct V as [V|(ty0 & fs0 & V)]; inversion V; subst.
    match goal with X : dgs _ _ _ _ _ |- _ => destruct (dgs_extends _ _ _ _ _ X) as [m E] end.
    exists (Z.of_nat (length refs)), ty0. split; [rewrite Nat2Z.id; reflexivity|].
    intros more. rewrite E, <- !app_assoc. cbn [app].
    match goal with X : ref_find refs a RStruct 0 = None |- _ => rewrite (ref_find_miss_app refs a RStruct (m ++ more) 0 NZ X) end. reflexivity.
Qed.
Theorem ordinals_identify_addresses refs a b i j : ref_find refs a RStruct 0 = Some i -> ref_find refs b RStruct 0 = Some j ->
  (i = j <-> a = b).
Proof.
  intros A B. split.
  - intros ->. destruct (ref_find_nth _ _ _ _ _ A) as [_ NA]. destruct (ref_find_nth _ _ _ _ _ B) as [_ NB]. rewrite NA in NB. inversion NB. reflexivity.
  - intros ->. rewrite A in B. inversion B. reflexivity.
Qed.
End RT.
