From Coq Require Import ZArith List Lia Bool.
From GH Require Import Base.GoSem Base.Result Base.TimeSem Gen.GoConsts Gen.GoLeaf Model.Scalars Proofs.IntProofs Proofs.LongProofs.
Import ListNotations.
Open Scope Z_scope.
Ltac Zify.zify_post_hook ::= Z.div_mod_to_equations.
Arguments Z.add : simpl never. Arguments Z.sub : simpl never. Arguments Z.mul : simpl never.
Arguments Z.leb : simpl never. Arguments Z.eqb : simpl never. Arguments Z.ltb : simpl never.

Ltac dconsts := unfold g_dateMillisStartTag, g_dateSecondStartTag, g_nilTag in *.

Lemma be8_of_value v :
  be_val [wrap 8 (Z.shiftr v 56); wrap 8 (Z.shiftr v 48); wrap 8 (Z.shiftr v 40); wrap 8 (Z.shiftr v 32);
          wrap 8 (Z.shiftr v 24); wrap 8 (Z.shiftr v 16); wrap 8 (Z.shiftr v 8); wrap 8 v]
  = v mod 18446744073709551616.
Proof. rewrite shr8, shr16, shr24, shr32, shr40, shr48, shr56, !wrap8_mod. apply be8_recombine. Qed.

Lemma swrap64_mod_id v : in_i64 v -> swrap 64 (v mod 18446744073709551616) = v.
Proof.
  unfold in_i64. intros H. rewrite swrap64_def.
  set (m := v mod 18446744073709551616).
  assert (Hm : m = if v <? 0 then v + 18446744073709551616 else v).
  { unfold m. destruct (v <? 0) eqn:Ev.
    - symmetry. apply Z.mod_unique_pos with (q := -1); lia.
    - symmetry. apply Z.mod_unique_pos with (q := 0); lia. }
  clearbody m. destruct (v <? 0) eqn:Ev; subst m.
  - replace (v + 18446744073709551616 + 9223372036854775808) with (v + 9223372036854775808 + 1 * 18446744073709551616) by ring.
    rewrite Z.mod_add by lia. rewrite Z.mod_small by lia. ring.
  - rewrite Z.mod_small by lia. ring.
Qed.

Lemma be4_of_value v : in_i32 v ->
  swrap 32 (be_val [wrap 8 (Z.shiftr v 24); wrap 8 (Z.shiftr v 16); wrap 8 (Z.shiftr v 8); wrap 8 v]) = v.
Proof.
  unfold in_i32. intros H. rewrite shr8, shr16, shr24, !wrap8_mod. unfold be_val. cbn [fold_left].
  rewrite swrap32_def. lia.
Qed.

(* the instant the decoder returns for what the (generated) encoder wrote: the same instant,
   truncated to whole milliseconds; exactly the bytes of the value are consumed *)
Theorem date_roundtrip sec nsec rest :
  year_ok sec -> 0 <= nsec < 1000000000 -> time_is_zero sec nsec = false ->
  decode_date (gencodeDate sec nsec ++ rest) = Ok ((sec, nsec - nsec mod 1000000), rest).
Proof.
  unfold year_ok. intros Hy Hn Hz. unfold gencodeDate. rewrite Hz.
  destruct (negb (nsec =? 0) || (sec <? -2147483648) || (2147483647 <? sec)) eqn:E.
  - (* milliseconds form *)
    cbv zeta.
    assert (Hq : Z.quot nsec 1000000 = nsec / 1000000) by (apply Z.quot_div_nonneg; lia).
    rewrite Hq.
    rewrite (swrap64_id (nsec / 1000000)) by (unfold in_i64; lia).
    rewrite (swrap64_id (nsec / 1000000)) by (unfold in_i64; lia).
    rewrite (swrap64_id (sec * 1000)) by (unfold in_i64; lia).
    rewrite (swrap64_id (sec * 1000 + nsec / 1000000)) by (unfold in_i64; lia).
    set (v := sec * 1000 + nsec / 1000000).
    assert (Hv : in_i64 v) by (unfold in_i64, v; lia).
    cbn [app decode_date read_tag bind]. unfold decode_date_tag. dconsts.
    change (74 =? 74) with true. cbv iota. rewrite read_full_app8. cbn [bind].
    rewrite be8_of_value, swrap64_mod_id by exact Hv.
    unfold unix_milli. f_equal. f_equal. unfold v. f_equal; lia.
  - (* compact form: whole seconds that fit 32 bits *)
    assert (Hn0 : nsec = 0) by lia. subst nsec.
    cbv zeta. cbn [app decode_date read_tag bind]. unfold decode_date_tag. dconsts.
    change (75 =? 74) with false. change (75 =? 75) with true. cbv iota.
    rewrite read_full_app4. cbn [bind]. rewrite be4_of_value by (unfold in_i32; lia).
    reflexivity.
Qed.

Corollary date_roundtrip_ms sec nsec rest :
  year_ok sec -> 0 <= nsec < 1000000000 -> nsec mod 1000000 = 0 -> time_is_zero sec nsec = false ->
  decode_date (gencodeDate sec nsec ++ rest) = Ok ((sec, nsec), rest).
Proof. intros Hy Hn Hm Hz. rewrite date_roundtrip by assumption. rewrite Hm. do 3 f_equal. lia. Qed.

Corollary date_within_ms sec nsec rest :
  year_ok sec -> 0 <= nsec < 1000000000 -> time_is_zero sec nsec = false ->
  exists nsec', decode_date (gencodeDate sec nsec ++ rest) = Ok ((sec, nsec'), rest) /\ 0 <= nsec - nsec' < 1000000.
Proof. intros Hy Hn Hz. exists (nsec - nsec mod 1000000). split; [apply date_roundtrip; assumption|lia]. Qed.

Theorem zero_date_is_null : gencodeDate zero_time_sec 0 = [g_nilTag].
Proof. reflexivity. Qed.

Example date_nonvacuous :
  year_ok 2208988800 /\ time_is_zero 2208988800 0 = false /\ year_ok (-2) /\ time_is_zero (-2) 500000000 = false.
Proof. unfold year_ok. repeat split; lia. Qed.
