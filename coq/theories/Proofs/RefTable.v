(* C04 on the decoder's semantics: the reference table only grows, a cell once registered is never
   changed by reading further values, every list, map and object is registered at the ordinal
   equal to the number of containers read before it, and a later back-reference to that ordinal
   yields the very value returned at the first occurrence (for an object: the pointer to its
   cell). *)
From Coq Require Import ZArith List Lia Bool.
From GH Require Import Base.GoSem Base.Result Base.FloatBits Base.TimeSem Base.Utf8 Gen.GoConsts Gen.GoLeaf
  Model.Scalars Model.Strings Spec.Grammar Model.Encoder Model.Decoder Proofs.DecRefines.
Import ListNotations.
Open Scope Z_scope.

Lemma list_set_length {A} : forall (l : list A) i x, length (list_set l i x) = length l.
Proof. induction l as [|y l IH]; intros [|i] x; cbn; auto. Qed.
Lemma nth_error_list_set_other {A} : forall (l : list A) i j x, i <> j -> nth_error (list_set l i x) j = nth_error l j.
Proof.
  induction l as [|y l IH]; intros [|i] [|j] x N; cbn; try reflexivity; try congruence. apply IH. congruence.
Qed.
Lemma nth_error_list_set_same {A} : forall (l : list A) i x, (i < length l)%nat -> nth_error (list_set l i x) i = Some x.
Proof. induction l as [|y l IH]; intros [|i] x L; cbn in *; try lia; try reflexivity. apply IH. lia. Qed.

(* h' extends h: at least as long, and equal on every cell of h *)
Definition ext (h h' : heap) : Prop :=
  (length h <= length h')%nat /\ forall i, (i < length h)%nat -> nth_error h' i = nth_error h i.
Lemma ext_refl h : ext h h. Proof. split; [lia|auto]. Qed.
Lemma ext_trans a b c : ext a b -> ext b c -> ext a c.
Proof. intros [L1 E1] [L2 E2]. split; [lia|]. intros i Hi. rewrite E2 by lia. apply E1. exact Hi. Qed.
Lemma ext_app h c : ext h (h ++ [c]).
Proof. split; [rewrite app_length; cbn; lia|]. intros i Hi. apply nth_error_app1. exact Hi. Qed.
(* the pattern of every container: open a cell, read the contents, fill the cell *)
Lemma ext_fill h c h2 x : ext (h ++ [c]) h2 -> ext h (list_set h2 (length h) x).
Proof.
  intros [L E]. rewrite app_length in L. cbn in L. split; [rewrite list_set_length; lia|].
  intros i Hi. rewrite nth_error_list_set_other by lia. rewrite E by (rewrite app_length; cbn; lia). apply nth_error_app1. exact Hi.
Qed.
Lemma fill_at h c h2 x : ext (h ++ [c]) h2 -> nth_error (list_set h2 (length h) x) (length h) = Some x.
Proof. intros [L _]. rewrite app_length in L. cbn in L. apply nth_error_list_set_same. lia. Qed.

Section Table.
  Variables (te : tenv) (tm : typmap).

  Scheme sv_m := Induction for sv Sort Prop
    with slist_m := Induction for slist Sort Prop
    with smap_m := Induction for smap Sort Prop
    with sobj_m := Induction for sobj Sort Prop
    with sn_m := Induction for sn Sort Prop
    with se_m := Induction for se Sort Prop
    with sfs_m := Induction for sfs Sort Prop
    with sf_m := Induction for sf Sort Prop
    with ss_m := Induction for ss Sort Prop
    with sm_m := Induction for sm Sort Prop
    with sl_m := Induction for sl Sort Prop.

  Combined Scheme sem_all from sv_m, slist_m, smap_m, sobj_m, sn_m, se_m, sfs_m, sf_m, ss_m, sm_m, sl_m.

  (* reading anything only extends the reference table *)
  Theorem semantics_extend :
    (forall hv h d h', sv te tm hv h d h' -> ext h h') /\
    (forall ty vs h d h', slist te tm ty vs h d h' -> ext h h') /\
    (forall kt vt es h d h', smap te tm kt vt es h d h' -> ext h h') /\
    (forall c fs h d h', sobj te tm c fs h d h' -> ext h h') /\
    (forall e vs h ds h', sn te tm e vs h ds h' -> ext h h') /\
    (forall kt vt acc es h out h', se te tm kt vt acc es h out h' -> ext h h') /\
    (forall gfs fs acc h out h', sfs te tm gfs fs acc h out h' -> ext h h') /\
    (forall t hv h d h', sf te tm t hv h d h' -> ext h h') /\
    (forall hv h d h', ss te tm hv h d h' -> ext h h') /\
    (forall kt vt hv h d h', sm te tm kt vt hv h d h' -> ext h h') /\
    (forall hv h d h', sl te tm hv h d h' -> ext h h').
  Proof.
    apply (sem_all te tm
      (fun hv h d h' _ => ext h h') (fun ty vs h d h' _ => ext h h') (fun kt vt es h d h' _ => ext h h')
      (fun c fs h d h' _ => ext h h') (fun e vs h ds h' _ => ext h h') (fun kt vt acc es h out h' _ => ext h h')
      (fun gfs fs acc h out h' _ => ext h h') (fun t hv h d h' _ => ext h h') (fun hv h d h' _ => ext h h')
      (fun kt vt hv h d h' _ => ext h h') (fun hv h d h' _ => ext h h'));
      intros; try apply ext_refl; try assumption;
      try (eapply ext_fill; eassumption);
      try (eapply ext_trans; [eassumption|]; try eassumption; eapply ext_trans; eassumption).
  Qed.
  Definition sv_extends := proj1 semantics_extend.
  Definition sn_extends := proj1 (proj2 (proj2 (proj2 (proj2 semantics_extend)))).
  Definition se_extends := proj1 (proj2 (proj2 (proj2 (proj2 (proj2 semantics_extend))))).
  Definition sfs_extends := proj1 (proj2 (proj2 (proj2 (proj2 (proj2 (proj2 semantics_extend)))))).

  Lemma ref_val_at h k c : nth_error h k = Some c ->
    ref_val h (Z.of_nat k) = match c with RObj ty _ => Some (DPtr k ty) | RList (Some v) => Some v | Decoder.RMap (Some v) => Some v | _ => None end.
  Proof.
    intros E. unfold ref_val, Decoder.nth_z.
    assert (L : (k < length h)%nat) by (apply nth_error_Some; congruence).
    replace (Z.of_nat k <? 0) with false by lia. replace (Z.of_nat (length h) <=? Z.of_nat k) with false by lia. cbn [orb].
    rewrite Nat2Z.id, E. destruct c as [ty fs|[v|]|[v|]]; reflexivity.
  Qed.

  (* a list read when k containers were registered takes ordinal k, and from then on a
     back-reference to k yields the very value that was returned for the list *)
  Theorem list_ref_is_first_occurrence ty vs h d h1 h2 :
    slist te tm ty vs h d h1 -> ext h1 h2 -> ref_val h2 (Z.of_nat (length h)) = Some d.
  Proof.
    intros S [L E]. assert (C : nth_error h1 (length h) = Some (RList (Some d))).
    { inversion S; subst; (eapply fill_at; eapply sn_extends; eassumption). }
    assert (Lt : (length h < length h1)%nat) by (apply nth_error_Some; congruence).
    rewrite (ref_val_at h2 (length h) (RList (Some d))); [reflexivity|]. rewrite E by exact Lt. exact C.
  Qed.
  Theorem map_ref_is_first_occurrence kt vt es h d h1 h2 :
    smap te tm kt vt es h d h1 -> ext h1 h2 -> ref_val h2 (Z.of_nat (length h)) = Some d.
  Proof.
    intros S [L E]. assert (C : nth_error h1 (length h) = Some (Decoder.RMap (Some d))).
    { inversion S; subst. eapply fill_at. eapply se_extends. eassumption. }
    assert (Lt : (length h < length h1)%nat) by (apply nth_error_Some; congruence).
    rewrite (ref_val_at h2 (length h) (Decoder.RMap (Some d))); [reflexivity|]. rewrite E by exact Lt. exact C.
  Qed.
  (* an object: the pointer to its cell, which holds the fields it was given *)
  Theorem object_ref_is_first_occurrence c fs h d h1 h2 :
    sobj te tm c fs h d h1 -> ext h1 h2 ->
    ref_val h2 (Z.of_nat (length h)) = Some d /\ exists n out, d = DPtr (length h) n /\ nth_error h2 (length h) = Some (RObj n (Some out)).
  Proof.
    intros S [L E]. inversion S; subst.
    match goal with A : sfs _ _ _ _ _ _ ?o ?hh |- _ => pose proof (sfs_extends _ _ _ _ _ _ A) as X;
      pose proof (fill_at _ _ _ (RObj n (Some o)) X) as C;
      assert (Lt : (length h < length (list_set hh (length h) (RObj n (Some o))))%nat) by (apply nth_error_Some; congruence);
      split; [rewrite (ref_val_at h2 (length h) (RObj n (Some o))); [reflexivity|]; rewrite E by exact Lt; exact C
             |exists n, o; split; [reflexivity|]; rewrite E by exact Lt; exact C] end.
  Qed.
End Table.

(* ---------------- ordinals: sender and receiver count the same containers ---------------- *)
(* the lists, maps and object instances written in an abstract value, nested ones included *)
Fixpoint containers (hv : hval) : nat :=
  match hv with
  | HList _ vs => S (fold_right (fun v n => containers v + n)%nat 0%nat vs)
  | HMap _ es => S (fold_right (fun e n => containers (fst e) + containers (snd e) + n)%nat 0%nat es)
  | HObject _ fs => S (fold_right (fun f n => containers (snd f) + n)%nat 0%nat fs)
  | _ => 0%nat
  end.
Definition containers_l (vs : list hval) : nat := fold_right (fun v n => containers v + n)%nat 0%nat vs.
Definition containers_e (es : list (hval * hval)) : nat := fold_right (fun e n => containers (fst e) + containers (snd e) + n)%nat 0%nat es.
Definition containers_f (fs : list (name * hval)) : nat := fold_right (fun f n => containers (snd f) + n)%nat 0%nat fs.

Section Count.
  Variables (te : tenv) (tm : typmap).

  (* the receiver registers exactly one cell per container of the value *)
  Theorem semantics_count :
    (forall hv h d h', sv te tm hv h d h' -> length h' = (length h + containers hv)%nat) /\
    (forall ty vs h d h', slist te tm ty vs h d h' -> length h' = (length h + S (containers_l vs))%nat) /\
    (forall kt vt es h d h', smap te tm kt vt es h d h' -> length h' = (length h + S (containers_e es))%nat) /\
    (forall c fs h d h', sobj te tm c fs h d h' -> length h' = (length h + S (containers_f fs))%nat) /\
    (forall e vs h ds h', sn te tm e vs h ds h' -> length h' = (length h + containers_l vs)%nat) /\
    (forall kt vt acc es h out h', se te tm kt vt acc es h out h' -> length h' = (length h + containers_e es)%nat) /\
    (forall gfs fs acc h out h', sfs te tm gfs fs acc h out h' -> length h' = (length h + containers_f fs)%nat) /\
    (forall t hv h d h', sf te tm t hv h d h' -> length h' = (length h + containers hv)%nat) /\
    (forall hv h d h', ss te tm hv h d h' -> length h' = (length h + containers hv)%nat) /\
    (forall kt vt hv h d h', sm te tm kt vt hv h d h' -> length h' = (length h + containers hv)%nat) /\
    (forall hv h d h', sl te tm hv h d h' -> length h' = (length h + containers hv)%nat).
  Proof.
    apply (sem_all te tm
      (fun hv h d h' _ => length h' = (length h + containers hv)%nat)
      (fun ty vs h d h' _ => length h' = (length h + S (containers_l vs))%nat)
      (fun kt vt es h d h' _ => length h' = (length h + S (containers_e es))%nat)
      (fun c fs h d h' _ => length h' = (length h + S (containers_f fs))%nat)
      (fun e vs h ds h' _ => length h' = (length h + containers_l vs)%nat)
      (fun kt vt acc es h out h' _ => length h' = (length h + containers_e es)%nat)
      (fun gfs fs acc h out h' _ => length h' = (length h + containers_f fs)%nat)
      (fun t hv h d h' _ => length h' = (length h + containers hv)%nat)
      (fun hv h d h' _ => length h' = (length h + containers hv)%nat)
      (fun kt vt hv h d h' _ => length h' = (length h + containers hv)%nat)
      (fun hv h d h' _ => length h' = (length h + containers hv)%nat));
      intros; unfold containers_l, containers_e, containers_f in *; cbn [containers fold_right fst snd] in *;
      try rewrite list_set_length; try rewrite app_length in *; cbn [length] in *; try lia.
  Qed.
End Count.

(* the sender registers exactly one ordinal per container it writes out (a back-reference, a nil
   or empty map - written as null - registers nothing) *)
From GH Require Import Proofs.EncoderFacts Proofs.EncSpec Proofs.DenReg.
Lemma containers_f_combine : forall (ns : list name) (hs : list hval), length ns = length hs ->
  containers_f (combine ns hs) = containers_l hs.
Proof.
  induction ns as [|n ns IH]; intros [|h hs] L; cbn in *; try discriminate; try reflexivity.
  unfold containers_f, containers_l in *. cbn [fold_right snd]. rewrite IH by lia. reflexivity.
Qed.
Section Sender.
  Variables (nm : namemap) (F : name -> list name) (f0 : nat).
  Theorem den_count : forall refs v hv refs', den nm F refs v hv refs' -> wfv nm F f0 v ->
    length refs' = (length refs + containers hv)%nat.
  Proof.
    apply (den_mind nm F
      (fun refs v hv refs' (_ : den nm F refs v hv refs') => wfv nm F f0 v -> length refs' = (length refs + containers hv)%nat)
      (fun refs l hs refs' (_ : den_list nm F refs l hs refs') =>
         Forall (wfv nm F f0) l -> length refs' = (length refs + containers_l hs)%nat /\ length hs = length l)
      (fun refs l hes refs' (_ : den_entries nm F refs l hes refs') =>
         Forall (fun e => wfv nm F f0 (fst e) /\ wfv nm F f0 (snd e)) l -> length refs' = (length refs + containers_e hes)%nat));
      intros; cbn [containers] in *; try lia.
    - (* struct *) match goal with W : wfv _ _ _ (VStruct _ _ _) |- _ => inversion W; subst end.
      match goal with IH : Forall _ (map snd fs) -> _, A : Forall (fun f => wfv nm F f0 (snd f)) fs |- _ =>
        destruct (IH ltac:(apply Forall_map; exact A)) as [L1 L2] end.
      rewrite app_length in L1. cbn [length] in L1. rewrite map_length in L2.
      match goal with A : map lower_name (map fst fs) = F ?c |- _ =>
        fold (containers_f (combine (F c) hs)); rewrite containers_f_combine; [lia|]; rewrite <- A end. rewrite !map_length. lia.
    - (* slice *) match goal with W : wfv _ _ _ (VSlice _ _ _) |- _ => inversion W; subst end.
      match goal with IH : Forall _ l -> _, A : Forall (wfv nm F f0) l |- _ => destruct (IH A) as [L1 _] end.
      rewrite app_length in L1. cbn [length] in L1. fold (containers_l hs). lia.
    - (* map *) match goal with W : wfv _ _ _ (VMap _ _ _) |- _ => inversion W; subst end.
      match goal with IH : Forall _ (e :: es) -> _, A : Forall _ (e :: es) |- _ => pose proof (IH A) as L1 end.
      rewrite app_length in L1. cbn [length] in L1. fold (containers_e hes). lia.
    - (* list nil *) split; [unfold containers_l; cbn; lia|reflexivity].
    - (* list cons *) match goal with A : Forall _ (_ :: _) |- _ => inversion A; subst end.
      match goal with IH1 : wfv _ _ _ x -> _, IH2 : Forall _ r -> _ |- _ => pose proof (IH1 ltac:(assumption)) as L1; destruct (IH2 ltac:(assumption)) as [L2 L3] end.
      unfold containers_l in *. cbn [fold_right length]. split; lia.
    - (* entries nil *) unfold containers_e; cbn; lia.
    - (* entries cons *) match goal with A : Forall _ (_ :: _) |- _ => inversion A as [|? ? [Wk Wx] Wr]; subst end. cbn [fst snd] in *.
      match goal with IH1 : wfv _ _ _ k -> _, IH2 : wfv _ _ _ x -> _, IH3 : Forall _ r -> _ |- _ =>
        pose proof (IH1 Wk) as L1; pose proof (IH2 Wx) as L2; pose proof (IH3 Wr) as L3 end.
      unfold containers_e in *. cbn [fold_right fst snd]. lia.
  Qed.
End Sender.

(* C04, ordinals: starting from tables of equal size, sender and receiver have registered the
   same number of containers after any value - so the ordinal the sender writes in a
   back-reference is the index of the receiver's cell for that container *)
Theorem ordinals_agree nm F f0 te tm refs v hv refs' h d h' :
  den nm F refs v hv refs' -> wfv nm F f0 v -> sv te tm hv h d h' -> length refs = length h -> length refs' = length h'.
Proof.
  intros D W S E. rewrite (den_count nm F f0 _ _ _ _ D W), (proj1 (semantics_count te tm) _ _ _ _ S). lia.
Qed.
