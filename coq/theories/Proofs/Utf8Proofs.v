From Coq Require Import ZArith List Lia Bool.
From GH Require Import Base.GoSem Base.Result Base.Utf8.
Import ListNotations.
Open Scope Z_scope.
Ltac Zify.zify_post_hook ::= Z.div_mod_to_equations.
Arguments Z.add : simpl never. Arguments Z.sub : simpl never. Arguments Z.mul : simpl never.
Arguments Z.leb : simpl never. Arguments Z.eqb : simpl never. Arguments Z.ltb : simpl never.

Lemma valid_runeb_iff r : valid_runeb r = true <-> valid_rune r.
Proof. unfold valid_runeb, valid_rune. lia. Qed.

Theorem utf8_roundtrip r rest : valid_rune r -> utf8_dec (utf8_enc r ++ rest) = Some (r, rest).
Proof.
  intros Hv. unfold utf8_enc. rewrite (proj2 (valid_runeb_iff r) Hv). unfold valid_rune in Hv. unfold utf8_enc1.
  destruct (r <? 128) eqn:E1.
  { cbn [app utf8_dec]. rewrite E1. reflexivity. }
  destruct (r <? 2048) eqn:E2.
  { cbn [app utf8_dec]. unfold inr, is_cont.
    replace (192 + r / 64 <? 128) with false by lia.
    replace ((194 <=? 192 + r / 64) && (192 + r / 64 <=? 223)) with true by lia.
    replace ((128 <=? 128 + r mod 64) && (128 + r mod 64 <=? 191)) with true by lia.
    do 2 f_equal. lia. }
  destruct (r <? 65536) eqn:E3.
  { cbn [app utf8_dec]. unfold inr, is_cont.
    replace (224 + r / 4096 <? 128) with false by lia.
    replace ((194 <=? 224 + r / 4096) && (224 + r / 4096 <=? 223)) with false by lia.
    replace ((224 <=? 224 + r / 4096) && (224 + r / 4096 <=? 239)) with true by lia.
    assert (Hin : ((if 224 + r / 4096 =? 224 then 160 else 128) <=? 128 + (r / 64) mod 64) &&
                  (128 + (r / 64) mod 64 <=? (if 224 + r / 4096 =? 237 then 159 else 191)) = true).
    { destruct (224 + r / 4096 =? 224) eqn:A; destruct (224 + r / 4096 =? 237) eqn:B; lia. }
    rewrite Hin.
    replace ((128 <=? 128 + r mod 64) && (128 + r mod 64 <=? 191)) with true by lia.
    cbn [andb]. do 2 f_equal. lia. }
  { cbn [app utf8_dec]. unfold inr, is_cont.
    replace (240 + r / 262144 <? 128) with false by lia.
    replace ((194 <=? 240 + r / 262144) && (240 + r / 262144 <=? 223)) with false by lia.
    replace ((224 <=? 240 + r / 262144) && (240 + r / 262144 <=? 239)) with false by lia.
    replace ((240 <=? 240 + r / 262144) && (240 + r / 262144 <=? 244)) with true by lia.
    assert (Hin : ((if 240 + r / 262144 =? 240 then 144 else 128) <=? 128 + (r / 4096) mod 64) &&
                  (128 + (r / 4096) mod 64 <=? (if 240 + r / 262144 =? 244 then 143 else 191)) = true).
    { destruct (240 + r / 262144 =? 240) eqn:A; destruct (240 + r / 262144 =? 244) eqn:B; lia. }
    rewrite Hin.
    replace ((128 <=? 128 + (r / 64) mod 64) && (128 + (r / 64) mod 64 <=? 191)) with true by lia.
    replace ((128 <=? 128 + r mod 64) && (128 + r mod 64 <=? 191)) with true by lia.
    cbn [andb]. do 2 f_equal. lia. }
Qed.

Lemma utf8_enc_bytes_ok r : bytes_ok (utf8_enc r).
Proof.
  assert (H : forall r, 0 <= r <= 1114111 -> bytes_ok (utf8_enc1 r)).
  { clear. intros r Hr. unfold utf8_enc1, bytes_ok.
    destruct (r <? 128) eqn:E1; [repeat constructor; lia|].
    destruct (r <? 2048) eqn:E2; [repeat constructor; lia|].
    destruct (r <? 65536) eqn:E3; repeat constructor; lia. }
  unfold utf8_enc. destruct (valid_runeb r) eqn:E; apply H; [unfold valid_runeb in E; lia|unfold rune_error; lia].
Qed.

Lemma read_runes_app rs : Forall valid_rune rs -> forall rest,
  read_runes (length rs) (utf8_encs rs ++ rest) = (rs, rest).
Proof.
  induction 1 as [|r rs Hr Hrs IH]; intros rest; [reflexivity|].
  cbn [length read_runes utf8_encs flat_map]. rewrite <- app_assoc.
  rewrite utf8_roundtrip by exact Hr. fold (utf8_encs rs). rewrite IH. reflexivity.
Qed.

Lemma utf8_encs_app a b : utf8_encs (a ++ b) = utf8_encs a ++ utf8_encs b.
Proof. unfold utf8_encs. apply flat_map_app. Qed.

(* each rune contributes at least one byte *)
Lemma utf8_enc_nonempty r : (1 <= length (utf8_enc r))%nat.
Proof.
  unfold utf8_enc, utf8_enc1.
  destruct (valid_runeb r); repeat (match goal with |- context [if ?c then _ else _] => destruct c end); cbn; lia.
Qed.
Lemma utf8_encs_length rs : (length rs <= length (utf8_encs rs))%nat.
Proof.
  induction rs as [|r rs IH]; [cbn; lia|]. cbn [utf8_encs flat_map length]. rewrite app_length.
  fold (utf8_encs rs). pose proof (utf8_enc_nonempty r). lia.
Qed.
