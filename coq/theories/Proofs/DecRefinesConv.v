(* C03, containers, the converse of Proofs/DecRefines.v: whenever the decoder model succeeds on a
   byte string that the reference parser reads as a regular abstract value hv, what it returns is
   a meaning of hv (`sv`), it consumed exactly the bytes the parser consumed and ended with the
   parser's tables.  Together with the refinement this makes decoding a function of the abstract
   value: two renderings of one value decode alike, with no further hypothesis
   (renderings_decode_alike_iff).

   "Regular": no timestamp (the compact form is the known finding C03-F1). *)
From Coq Require Import ZArith List Lia Bool ZifyBool.
From GH Require Import Base.GoSem Base.Result Base.FloatBits Base.TimeSem Base.Utf8 Gen.GoConsts Gen.GoLeaf
  Model.Scalars Model.Strings Spec.Grammar Model.Encoder Model.Decoder
  Proofs.SpecScalars Proofs.DecSpec Proofs.SpecDispatch Proofs.DecoderFacts Proofs.DecRefines.
Import ListNotations.
Open Scope Z_scope.
Ltac Zify.zify_post_hook ::= Z.div_mod_to_equations.
Arguments Z.add : simpl never. Arguments Z.sub : simpl never. Arguments Z.mul : simpl never.
Arguments Z.leb : simpl never. Arguments Z.eqb : simpl never. Arguments Z.ltb : simpl never.
Arguments Z.to_nat : simpl never. Arguments Z.of_nat : simpl never. Arguments Z.pow : simpl never.

Inductive reg : hval -> Prop :=
| reg_null : reg HNull
| reg_bool b : reg (HBool b)
| reg_int z : reg (HInt z)
| reg_long z : reg (HLong z)
| reg_double z : reg (HDouble z)
| reg_string s : reg (HString s)
| reg_binary b : reg (HBinary b)
| reg_ref z : reg (HRef z)
| reg_list ty vs : Forall reg vs -> reg (HList ty vs)
| reg_map ty es : Forall (fun e => reg (fst e) /\ reg (snd e)) es -> reg (HMap ty es)
| reg_obj c fs : Forall (fun p => reg (snd p)) fs -> reg (HObject c fs).

(* taking a successful computation of the decoder apart *)
Ltac dbrk H :=
  repeat (cbn [bind] in H;
    match type of H with
    | bind ?x _ = Ok _ =>
      let E := fresh "E" in
      (destruct x as [[[? ?] ?]| | |] eqn:E || destruct x as [[? ?]| | |] eqn:E || destruct x as [?| | |] eqn:E);
      try discriminate H
    | (if ?b then _ else _) = Ok _ => let E := fresh "E" in destruct b eqn:E; try discriminate H
    | match ?x with _ => _ end = Ok _ => let E := fresh "E" in destruct x eqn:E; try discriminate H
    end).

Lemma Forall_combine_snd {A B} (P : B -> Prop) : forall (l : list A) (m : list B),
  length m = length l -> Forall (fun p => P (snd p)) (combine l m) -> Forall P m.
Proof.
  induction l as [|x l IH]; intros [|y m] H F; cbn in *; try discriminate; constructor.
  - inversion F; subst. assumption.
  - apply IH; [lia|]. inversion F; subst. assumption.
Qed.

(* a scalar reader that succeeds was given a tag of its own class *)
Lemma dint_ok t r x : 0 <= t < 256 -> decode_int_tag t r = Ok x -> spec_cls t = CInt.
Proof.
  intros B H.
  assert (F : forallb (fun t => implb (between g_int1ByteTagMin g_int1ByteTagMax t || between g_int2ByteTagMin g_int2ByteTagMax t
                                        || between g_int3ByteTagMin g_int3ByteTagMax t || (t =? g_int4ByteStartTag))
                                      (cls_eqb (spec_cls t) CInt)) all_bytes = true) by (vm_compute; reflexivity).
  pose proof (byte_forall _ F t B) as G. cbv beta in G. unfold decode_int_tag in H.
  destruct (between g_int1ByteTagMin g_int1ByteTagMax t); [apply cls_eqb_eq; exact G|].
  destruct (between g_int2ByteTagMin g_int2ByteTagMax t); [apply cls_eqb_eq; exact G|].
  destruct (between g_int3ByteTagMin g_int3ByteTagMax t); [apply cls_eqb_eq; exact G|].
  destruct (t =? g_int4ByteStartTag); [apply cls_eqb_eq; exact G|]. discriminate H.
Qed.
Lemma dlong_ok t r x : 0 <= t < 256 -> decode_long_tag t r = Ok x -> spec_cls t = CLong.
Proof.
  intros B H.
  assert (F : forallb (fun t => implb (between g_long1ByteTagMin g_long1ByteTagMax t || between g_long2ByteTagMin g_long2ByteTagMax t
                                        || between g_long3ByteTagMin g_long3ByteTagMax t || (t =? g_long4ByteStartTag) || (t =? g_longStartTag))
                                      (cls_eqb (spec_cls t) CLong)) all_bytes = true) by (vm_compute; reflexivity).
  pose proof (byte_forall _ F t B) as G. cbv beta in G. unfold decode_long_tag in H.
  destruct (between g_long1ByteTagMin g_long1ByteTagMax t); [apply cls_eqb_eq; exact G|].
  destruct (between g_long2ByteTagMin g_long2ByteTagMax t); [apply cls_eqb_eq; exact G|].
  destruct (between g_long3ByteTagMin g_long3ByteTagMax t); [apply cls_eqb_eq; exact G|].
  destruct (t =? g_long4ByteStartTag); [apply cls_eqb_eq; exact G|].
  destruct (t =? g_longStartTag); [apply cls_eqb_eq; exact G|]. discriminate H.
Qed.
Lemma ddouble_ok t r x : 0 <= t < 256 -> decode_double_tag t r = Ok x -> spec_cls t = CDouble.
Proof.
  intros B H.
  assert (F : forallb (fun t => implb ((t =? g_doubleZeroTag) || (t =? g_doubleOneTag) || (t =? g_doubleOneByteTag)
                                        || (t =? g_doubleTwoByteTag) || (t =? g_doubleFourByteTag) || (t =? g_doubleLongStartTag))
                                      (cls_eqb (spec_cls t) CDouble)) all_bytes = true) by (vm_compute; reflexivity).
  pose proof (byte_forall _ F t B) as G. cbv beta in G. unfold decode_double_tag in H.
  destruct (t =? g_doubleZeroTag); [apply cls_eqb_eq; exact G|].
  destruct (t =? g_doubleOneTag); [apply cls_eqb_eq; exact G|].
  destruct (t =? g_doubleOneByteTag); [apply cls_eqb_eq; exact G|].
  destruct (t =? g_doubleTwoByteTag); [apply cls_eqb_eq; exact G|].
  destruct (t =? g_doubleFourByteTag); [apply cls_eqb_eq; exact G|].
  destruct (t =? g_doubleLongStartTag); [apply cls_eqb_eq; exact G|]. discriminate H.
Qed.
Lemma dstring_ok t r x : 0 <= t < 256 -> decode_string_tag t r = Ok x -> t = 78 \/ spec_cls t = CString.
Proof.
  intros B H.
  assert (F : forallb (fun t => implb (gstringShortTag t || gstringMiddleTag t || gstringChunkTag t)
                                      (cls_eqb (spec_cls t) CString)) all_bytes = true) by (vm_compute; reflexivity).
  pose proof (byte_forall _ F t B) as G. cbv beta in G. unfold decode_string_tag in H.
  destruct (Z.eqb_spec t g_nilTag) as [E|_]; [left; exact E|]. right.
  destruct (get_string_len t r) as [[len r1]| | |] eqn:L; try discriminate H. unfold get_string_len in L.
  destruct (gstringShortTag t); [apply cls_eqb_eq; exact G|].
  destruct (gstringMiddleTag t); [apply cls_eqb_eq; exact G|].
  destruct (gstringChunkTag t); [apply cls_eqb_eq; exact G|]. discriminate L.
Qed.
Lemma dbool_ok t r x : decode_boolean (t :: r) = Ok x -> (t = 84 /\ x = (true, r)) \/ (t = 70 /\ x = (false, r)).
Proof.
  unfold decode_boolean. cbn [read_tag bind]. destruct (Z.eqb_spec t g_boolTrueTag) as [E|_]; [intros H; inversion H; left; split; [exact E|reflexivity]|].
  destruct (Z.eqb_spec t g_boolFalseTag) as [E|_]; [intros H; inversion H; right; split; [exact E|reflexivity]|]. discriminate.
Qed.

Section Conv.
  Variables (te : tenv) (tm : typmap) (f0 : nat).
  Local Notation RA := (readers_at te tm).

  Definition Cv (f : nat) : Prop := forall st bs hv rest st' h g d rest2 dst2,
    hparse_v f0 f st bs = Ok (hv, rest, st') -> bytes_ok bs -> reg hv ->
    R_rd (RA g) (dst_of st h) bs = Ok (d, rest2, dst2) ->
    exists h', sv te tm hv h d h' /\ rest2 = rest /\ dst2 = dst_of st' h'.
  Definition Cz (f : nat) : Prop := forall st bs vs rest st' e h g items rest2 dst2,
    hparse_z f0 f st bs = Ok (vs, rest, st') -> bytes_ok bs -> Forall reg vs ->
    R_rz (RA g) e (dst_of st h) bs = Ok (items, rest2, dst2) ->
    exists h', sn te tm e vs h items h' /\ rest2 = rest /\ dst2 = dst_of st' h'.
  Definition ereg (e : hval * hval) : Prop := reg (fst e) /\ reg (snd e).
  Definition Ce (f : nat) : Prop := forall st bs es rest st' kt vt acc h g out rest2 dst2,
    hparse_e f0 f st bs = Ok (es, rest, st') -> bytes_ok bs -> Forall ereg es ->
    R_re (RA g) kt vt acc (dst_of st h) bs = Ok (out, rest2, dst2) ->
    exists h', se te tm kt vt acc es h out h' /\ rest2 = rest /\ dst2 = dst_of st' h'.
  Definition Cf (f : nat) : Prop := forall st bs hv rest st' t h g d rest2 dst2,
    hparse_v f0 f st bs = Ok (hv, rest, st') -> bytes_ok bs -> reg hv ->
    R_rf (RA g) t (dst_of st h) bs = Ok (d, rest2, dst2) ->
    exists h', sf te tm t hv h d h' /\ rest2 = rest /\ dst2 = dst_of st' h'.
  Definition Cfs (f : nat) : Prop := forall wire st bs vs rest st' gfs acc h g out rest2 dst2,
    hparse_n f0 f (length wire) st bs = Ok (vs, rest, st') -> bytes_ok bs -> Forall reg vs ->
    R_rfs (RA g) gfs wire acc (dst_of st h) bs = Ok (out, rest2, dst2) ->
    exists h', sfs te tm gfs (combine wire vs) acc h out h' /\ rest2 = rest /\ dst2 = dst_of st' h'.
  Definition Cl (f : nat) : Prop := forall st bs hv rest st' h g d rest2 dst2,
    hparse_v f0 f st bs = Ok (hv, rest, st') -> bytes_ok bs -> reg hv ->
    R_rl (RA g) None (dst_of st h) bs = Ok (d, rest2, dst2) ->
    exists h', sl te tm hv h d h' /\ rest2 = rest /\ dst2 = dst_of st' h'.
  Definition Cm (f : nat) : Prop := forall st bs hv rest st' kt vt h g d rest2 dst2,
    hparse_v f0 f st bs = Ok (hv, rest, st') -> bytes_ok bs -> reg hv ->
    R_rm (RA g) (TMap kt vt) (dst_of st h) bs = Ok (d, rest2, dst2) ->
    exists h', sm te tm kt vt hv h d h' /\ rest2 = rest /\ dst2 = dst_of st' h'.
  Definition Cn (f : nat) : Prop := forall n st bs vs rest st' e h g items rest2 dst2,
    hparse_n f0 f n st bs = Ok (vs, rest, st') -> bytes_ok bs -> Forall reg vs ->
    R_rn (RA g) e n (dst_of st h) bs = Ok (items, rest2, dst2) ->
    exists h', sn te tm e vs h items h' /\ rest2 = rest /\ dst2 = dst_of st' h'.

  Lemma elem_step_inv R e st bs el r1 st1 : elem_step te R e st bs = Ok (el, r1, st1) ->
    exists item, R_rd R st bs = Ok (item, r1, st1) /\ conv te e (dheap st1) item = Ok el.
  Proof.
    intros H. unfold elem_step in H. destruct (R_rd R st bs) as [[[item r0] s0]| | |] eqn:E; try discriminate H.
    cbn [bind] in H. exists item. unfold conv.
    destruct e; try (inversion H; subst; split; reflexivity);
      (match type of H with bind ?x _ = _ => destruct x eqn:E2 end; try discriminate H; cbn [bind] in H; inversion H; subst; split; [reflexivity|exact E2]).
  Qed.

  Lemma Cn_step f : Cv f -> Cn f -> Cn (S f).
  Proof.
    intros IHv IHn n st bs vs rest st' e h g items rest2 dst2 P B Rg D.
    destruct g as [|g]; [discriminate D|]. rewrite rnS in D.
    rewrite hparse_n_S in P. destruct n as [|n]; cbn [pn_step rn_step] in P, D.
    - inversion P; subst. inversion D; subst. exists h. split; [constructor|]. split; reflexivity.
    - brk P. inversion P; subst. inversion Rg; subst.
      dbrk D. inversion D; subst.
      match goal with A : elem_step _ _ _ _ _ = Ok _ |- _ => apply elem_step_inv in A; destruct A as (item & A1 & A2) end.
      match goal with A : hparse_v _ _ _ _ = Ok _ |- _ => destruct (IHv _ _ _ _ _ _ _ _ _ _ A B ltac:(assumption) A1) as (h1 & S1 & -> & ->) end.
      destruct (rd_rest_ok _ _ _ _ _ _ _ _ B A1) as [B1 _].
      match goal with A : hparse_n _ _ _ _ _ = Ok _, A' : R_rn _ _ _ _ _ = Ok _ |- _ =>
        destruct (IHn _ _ _ _ _ _ _ _ _ _ _ _ A B1 ltac:(assumption) A') as (h2 & S2 & -> & ->) end.
      exists h2. split; [econstructor; eassumption|]. split; reflexivity.
  Qed.

  Lemma rd_end g st r : R_rd (RA g) st (90 :: r) <> Fuel -> R_rd (RA g) st (90 :: r) = Err EEof.
  Proof. destruct g as [|g]; [intros H; exfalso; apply H; reflexivity|]. intros _. reflexivity. Qed.

  Lemma Cz_step f : Cv f -> Cz f -> Cz (S f).
  Proof.
    intros IHv IHz st bs vs rest st' e h g items rest2 dst2 P B Rg D.
    destruct g as [|g]; [discriminate D|]. rewrite rzS in D. unfold rz_step in D.
    rewrite hparse_z_S in P. destruct bs as [|t r]; [discriminate P|].
    destruct (Z.eq_dec t 90) as [->|N].
    - cbn in P. inversion P; subst. unfold elem_step in D.
      destruct g as [|g]; [discriminate D|]. change (R_rd (RA (S g)) (dst_of st' h) (90 :: rest)) with (@Err (dval * bytes * dstate) EEof) in D.
      cbn in D. inversion D; subst. exists h. split; [constructor|]. split; reflexivity.
    - rewrite pz_step_cons in P by exact N. brk P. inversion P; subst. inversion Rg; subst.
      destruct (elem_step te (RA g) e (dst_of st h) (t :: r)) as [[[el r1] st1]|er| |] eqn:EE; try discriminate D.
      + dbrk D. inversion D; subst. apply elem_step_inv in EE. destruct EE as (item & A1 & A2).
        match goal with A : hparse_v _ _ _ _ = Ok _ |- _ => destruct (IHv _ _ _ _ _ _ _ _ _ _ A B ltac:(assumption) A1) as (h1 & S1 & -> & ->) end.
        destruct (rd_rest_ok _ _ _ _ _ _ _ _ B A1) as [B1 _].
        match goal with A : hparse_z _ _ _ _ = Ok _, A' : R_rz _ _ _ _ = Ok _ |- _ =>
          destruct (IHz _ _ _ _ _ _ _ _ _ _ _ A B1 ltac:(assumption) A') as (h2 & S2 & -> & ->) end.
        exists h2. split; [econstructor; eassumption|]. split; reflexivity.
      + destruct er; try discriminate D. replace (t =? g_endFlag) with false in D by (unfold g_endFlag; lia). discriminate D.
  Qed.


  Lemma Ce_step f : Cv f -> Ce f -> Ce (S f).
  Proof.
    intros IHv IHe st bs es rest st' kt vt acc h g out rest2 dst2 P B Rg D.
    destruct g as [|g]; [discriminate D|]. rewrite reS in D.
    rewrite hparse_e_S in P. destruct bs as [|t r]; [discriminate P|].
    destruct (Z.eq_dec t 90) as [->|N].
    - cbn in P. inversion P; subst. unfold re_step in D.
      destruct g as [|g]; [discriminate D|]. change (R_rd (RA (S g)) (dst_of st' h) (90 :: rest)) with (@Err (dval * bytes * dstate) EEof) in D.
      cbn in D. inversion D; subst. exists h. split; [constructor|]. split; reflexivity.
    - rewrite pe_step_cons' in P by exact N. brk P. inversion P; subst. inversion Rg; subst.
      match goal with A : ereg _ |- _ => destruct A as (Rk & Rv); cbn [fst snd] in Rk, Rv end.
      destruct (R_rd (RA g) (dst_of st h) (t :: r)) as [[[dk r1] st1]|er| |] eqn:EK.
      + match goal with A : hparse_v _ _ st (t :: r) = Ok _ |- _ => destruct (IHv _ _ _ _ _ _ _ _ _ _ A B Rk EK) as (hp1 & S1 & -> & ->) end.
        rewrite (re_step_key te _ kt vt acc _ _ _ _ _ EK) in D.
        destruct (rd_rest_ok _ _ _ _ _ _ _ _ B EK) as [B1 _].
        dbrk D.
        match goal with A : hparse_v _ _ _ _ = Ok (_, ?r2, _), A' : R_rd _ _ _ = Ok (_, _, _) |- _ =>
          match type of A' with R_rd _ (dst_of _ hp1) _ = _ => destruct (IHv _ _ _ _ _ _ _ _ _ _ A B1 Rv A') as (hp2 & S2 & -> & ->); destruct (rd_rest_ok _ _ _ _ _ _ _ _ B1 A') as [B2 _] end end.
        match goal with A : hparse_e _ _ _ _ = Ok _ |- _ =>
          destruct (IHe _ _ _ _ _ _ _ _ _ _ _ _ _ A B2 ltac:(assumption) D) as (hp3 & S3 & -> & ->) end.
        exists hp3. split; [econstructor; eassumption|]. split; reflexivity.
      + unfold re_step in D. rewrite EK in D. destruct er; try discriminate D.
        replace (t =? g_endFlag) with false in D by (unfold g_endFlag; lia). discriminate D.
      + unfold re_step in D. rewrite EK in D. discriminate D.
      + unfold re_step in D. rewrite EK in D. discriminate D.
  Qed.

  Lemma Cfs_step f : Cv f -> Cf f -> Cfs f -> Cfs (S f).
  Proof.
    intros IHv IHf IHfs wire st bs vs rest st' gfs acc h g out rest2 dst2 P B Rg D.
    destruct g as [|g]; [discriminate D|]. rewrite rfsS in D. unfold rfs_step in D.
    rewrite hparse_n_S in P. destruct wire as [|w ws]; cbn [length pn_step] in P.
    - inversion P; subst. inversion D; subst. exists h. split; [constructor|]. split; reflexivity.
    - brk P. inversion P; subst. inversion Rg; subst. cbn [combine].
      destruct (find_field gfs w) as [[gn gt]|] eqn:FF.
      + dbrk D. cbn [bind] in D.
        match goal with A : hparse_v _ _ _ _ = Ok (?v, _, _), A' : R_rf _ _ _ _ = Ok _, Rv : reg ?v |- _ =>
          destruct (IHf _ _ _ _ _ _ _ _ _ _ _ A B Rv A') as (hp1 & S1 & -> & ->);
          pose proof (rf_rest_ok _ _ _ _ _ _ _ _ _ B A') as B1 end.
        match goal with A : hparse_n _ _ _ _ _ = Ok (?l, _, _), Rl : Forall reg ?l |- _ =>
          destruct (IHfs _ _ _ _ _ _ _ _ _ _ _ _ _ A B1 Rl D) as (hp2 & S2 & -> & ->) end.
        exists hp2. split; [eapply sfs_known; eassumption|]. split; reflexivity.
      + dbrk D. cbn [bind snd] in D.
        match goal with A : hparse_v _ _ _ _ = Ok (?v, _, _), A' : R_rd _ _ _ = Ok _, Rv : reg ?v |- _ =>
          destruct (IHv _ _ _ _ _ _ _ _ _ _ A B Rv A') as (hp1 & S1 & -> & ->);
          destruct (rd_rest_ok _ _ _ _ _ _ _ _ B A') as [B1 _] end.
        match goal with A : hparse_n _ _ _ _ _ = Ok (?l, _, _), Rl : Forall reg ?l |- _ =>
          destruct (IHfs _ _ _ _ _ _ _ _ _ _ _ _ _ A B1 Rl D) as (hp2 & S2 & -> & ->) end.
        exists hp2. split; [eapply sfs_unknown; eassumption|]. split; reflexivity.
  Qed.

  Lemma map_core_c f : Ce f -> forall st bs es rest st' kt vt h g d rest2 dst2,
    hparse_e f0 f st bs = Ok (es, rest, st') -> bytes_ok bs -> Forall ereg es ->
    map_body (RA g) kt vt (dst_of st h) bs = Ok (d, rest2, dst2) ->
    exists h', smap te tm kt vt es h d h' /\ rest2 = rest /\ dst2 = dst_of st' h'.
  Proof.
    intros IHe st bs es rest st' kt vt h g d rest2 dst2 P B Rg D. unfold map_body in D.
    change (heap_push (dst_of st h) (Decoder.RMap None)) with (dst_of st (h ++ [Decoder.RMap None])) in D.
    dbrk D. cbn [bind] in D.
    match goal with A : R_re _ _ _ _ _ _ = Ok _ |- _ => destruct (IHe _ _ _ _ _ _ _ _ _ _ _ _ _ P B Rg A) as (hp & S1 & -> & ->) end.
    inversion D; subst. eexists. split; [constructor; exact S1|]. split; reflexivity.
  Qed.

  Lemma obj_core_c f : Cfs f -> forall st i r hv rest st' h g d rest2 dst2,
    object_of (hparse_n f0 f) st i r = Ok (hv, rest, st') -> bytes_ok r -> reg hv ->
    object_at tm (RA g) i (dst_of st h) r = Ok (d, rest2, dst2) ->
    exists h', sv te tm hv h d h' /\ rest2 = rest /\ dst2 = dst_of st' h'.
  Proof.
    intros IHfs st i r hv rest st' h g d rest2 dst2 P B Rg D. unfold object_of in P.
    destruct (Grammar.nth_z (pclasses st) i) as [[cname fnames]|] eqn:EN; [|discriminate P]. brk P. inversion P; subst.
    match goal with A : hparse_n _ _ _ _ _ = Ok (?vs, _, _) |- _ => rename A into E0; pose proof (hparse_n_length _ _ _ _ _ _ _ _ E0) as LN end.
    inversion Rg; subst. match goal with A : Forall _ (combine _ _) |- _ => apply (Forall_combine_snd reg _ _ LN) in A; rename A into Rv end.
    unfold object_at in D. change (Decoder.nth_z (dcls (dst_of st h)) i) with (Grammar.nth_z (pclasses st) i) in D. rewrite EN in D.
    destruct (tm_lookup tm cname) as [[| | | | | | |n| | | | |]|] eqn:TL; try discriminate D.
    destruct g as [|g]; [discriminate D|]. rewrite roS in D. unfold ro_step in D.
    destruct (te_lookup te n) as [gfs|] eqn:TE; [|discriminate D].
    destruct (has_dup (bound_names gfs fnames)) eqn:HD; [discriminate D|].
    change (heap_push (dst_of st h) (RObj n None)) with (dst_of (st_open st) (h ++ [RObj n None])) in D.
    dbrk D. cbn [bind] in D.
    match goal with A : R_rfs _ _ _ _ _ _ = Ok _ |- _ => destruct (IHfs _ _ _ _ _ _ _ _ _ _ _ _ _ E0 B Rv A) as (hp & S1 & -> & ->) end.
    inversion D; subst. eexists. split; [|split; reflexivity].
    apply sv_obj. eapply sobj_intro; try eassumption. rewrite map_fst_combine by exact LN. exact HD.
  Qed.

  Lemma list_core_c f : Cn f -> Cz f -> forall t st r hv rest st' h g d rest2 dst2,
    0 <= t < 256 -> spec_cls t = CTList \/ spec_cls t = CUList ->
    pv_body f0 (hparse_v f0 f) (hparse_n f0 f) (hparse_z f0 f) (hparse_e f0 f) (spec_cls t) t st r = Ok (hv, rest, st') ->
    bytes_ok r -> reg hv ->
    rl_step tm (RA g) None (dst_of st h) (t :: r) = Ok (d, rest2, dst2) ->
    exists ty vs h', hv = HList ty vs /\ slist te tm ty vs h d h' /\ rest2 = rest /\ dst2 = dst_of st' h'.
  Proof.
    intros IHn IHz t st r hv rest st' h g d rest2 dst2 Bt C P B Rg D.
    rewrite rl_step_cls, (rl_cls_list t Bt C) in D.
    destruct (container_tag_facts t Bt) as (FT & FU & _).
    destruct C as [C|C]; rewrite C in *; cbn [rl_body pv_body] in *.
    - destruct (FT eq_refl) as [->|[->|(F1 & F2 & F3 & F4 & F5 & F6)]].
      + change (85 =? 85) with true in P. cbv iota in P. brk P. inversion P; subst. inversion Rg; subst.
        match goal with A : parse_type _ _ _ = Ok (_, ?r1, _) |- _ =>
          pose proof (type_refines _ _ _ _ _ _ h B A) as RT;
          assert (B1 : bytes_ok r1) by (eapply bytes_ok_psuffix; [eapply read_type_psuffix; exact RT|exact B]) end.
        unfold typed_list_step in D. rewrite RT in D. cbn [bind] in D.
        change (85 =? g_listVariableTypedTag) with true in D. cbv iota in D. cbn [bind] in D.
        match type of D with match tm_lookup tm ?n with _ => _ end = _ => destruct (tm_lookup tm n) as [[| | | | | | | | |e| | |]|] eqn:TL; try discriminate D end.
        change (heap_push (dst_of ?s h) (RList None)) with (dst_of (st_open s) (h ++ [RList None])) in D.
        dbrk D. cbn [bind] in D.
        match goal with A : hparse_z _ _ _ _ = Ok (?l, _, _), A' : R_rz _ _ _ _ = Ok _, Rl : Forall reg ?l |- _ =>
          destruct (IHz _ _ _ _ _ _ _ _ _ _ _ A B1 Rl A') as (hp & S1 & -> & ->) end.
        inversion D; subst. eexists _, _, _. split; [reflexivity|]. split; [eapply slist_typed; eassumption|]. split; reflexivity.
      + change (86 =? 85) with false in P. change (86 =? 86) with true in P. cbv iota in P. brk P. inversion P; subst. inversion Rg; subst.
        match goal with A : parse_type _ _ _ = Ok (_, ?r1, _) |- _ =>
          pose proof (type_refines _ _ _ _ _ _ h B A) as RT;
          assert (B1 : bytes_ok r1) by (eapply bytes_ok_psuffix; [eapply read_type_psuffix; exact RT|exact B]) end.
        match goal with A : parse_int_value _ = Ok (_, ?r2) |- _ =>
          pose proof (int_value_refines _ _ _ B1 A) as RI;
          assert (B2 : bytes_ok r2) by (eapply bytes_ok_psuffix; [eapply decode_int_psuffix; exact RI|exact B1]) end.
        match goal with A : negb (count_ok _ _) = false |- _ => apply negb_false_iff in A; unfold count_ok in A; apply andb_true_iff in A; destruct A as [C1 C2] end.
        unfold typed_list_step in D. rewrite RT in D. cbn [bind] in D.
        change (86 =? g_listVariableTypedTag) with false in D. change (glistFixedTypedLenTag 86) with false in D.
        change (86 =? g_listFixedTypedStartTag) with true in D. cbv iota in D. rewrite RI in D. cbn [bind] in D.
        match type of D with context [?n <? 0] => replace (n <? 0) with false in D by lia end.
        match type of D with context [Z.of_nat ?l <? ?n] => replace (Z.of_nat l <? n) with false in D by lia end.
        match type of D with match tm_lookup tm ?n with _ => _ end = _ => destruct (tm_lookup tm n) as [[| | | | | | | | |e| | |]|] eqn:TL; try discriminate D end.
        change (heap_push (dst_of ?s h) (RList None)) with (dst_of (st_open s) (h ++ [RList None])) in D.
        dbrk D. cbn [bind] in D.
        match goal with A : hparse_n _ _ _ _ _ = Ok (?l, _, _), A' : R_rn _ _ _ _ _ = Ok _, Rl : Forall reg ?l |- _ =>
          destruct (IHn _ _ _ _ _ _ _ _ _ _ _ _ A B2 Rl A') as (hp & S1 & -> & ->) end.
        inversion D; subst. eexists _, _, _. split; [reflexivity|]. split; [eapply slist_typed; eassumption|]. split; reflexivity.
      + rewrite F3, F4 in P. brk P. inversion P; subst. inversion Rg; subst.
        match goal with A : parse_type _ _ _ = Ok (_, ?r1, _) |- _ =>
          pose proof (type_refines _ _ _ _ _ _ h B A) as RT;
          assert (B1 : bytes_ok r1) by (eapply bytes_ok_psuffix; [eapply read_type_psuffix; exact RT|exact B]) end.
        unfold typed_list_step in D. rewrite RT in D. cbn [bind] in D. rewrite F1, F2, F5 in D. cbn [bind] in D.
        match type of D with context [?n <? 0] => replace (n <? 0) with false in D by lia end.
        match type of D with (if ?b then _ else _) = _ => destruct b; [discriminate D|] end.
        match type of D with match tm_lookup tm ?n with _ => _ end = _ => destruct (tm_lookup tm n) as [[| | | | | | | | |e| | |]|] eqn:TL; try discriminate D end.
        change (heap_push (dst_of ?s h) (RList None)) with (dst_of (st_open s) (h ++ [RList None])) in D.
        dbrk D. cbn [bind] in D.
        match goal with A : hparse_n _ _ _ _ _ = Ok (?l, _, _), A' : R_rn _ _ _ _ _ = Ok _, Rl : Forall reg ?l |- _ =>
          destruct (IHn _ _ _ _ _ _ _ _ _ _ _ _ A B1 Rl A') as (hp & S1 & -> & ->) end.
        inversion D; subst. eexists _, _, _. split; [reflexivity|]. split; [eapply slist_typed; eassumption|]. split; reflexivity.
    - destruct (FU eq_refl) as [->|[->|(F1 & F2 & F3 & F4 & F5 & F6)]].
      + change (87 =? 87) with true in P. cbv iota in P. brk P. inversion P; subst. inversion Rg; subst.
        unfold untyped_list_step in D.
        change (87 =? g_listVariableUntypedTag) with true in D. cbv iota in D. cbn [bind] in D.
        change (heap_push (dst_of ?s h) (RList None)) with (dst_of (st_open s) (h ++ [RList None])) in D.
        dbrk D. cbn [bind] in D.
        match goal with A : hparse_z _ _ _ _ = Ok (?l, _, _), A' : R_rz _ _ _ _ = Ok _, Rl : Forall reg ?l |- _ =>
          destruct (IHz _ _ _ _ _ _ _ _ _ _ _ A B Rl A') as (hp & S1 & -> & ->) end.
        inversion D; subst. eexists _, _, _. split; [reflexivity|]. split; [eapply slist_untyped; eassumption|]. split; reflexivity.
      + change (88 =? 87) with false in P. change (88 =? 88) with true in P. cbv iota in P. brk P. inversion P; subst. inversion Rg; subst.
        match goal with A : parse_int_value _ = Ok (_, ?r2) |- _ =>
          pose proof (int_value_refines _ _ _ B A) as RI;
          assert (B2 : bytes_ok r2) by (eapply bytes_ok_psuffix; [eapply decode_int_psuffix; exact RI|exact B]) end.
        match goal with A : negb (count_ok _ _) = false |- _ => apply negb_false_iff in A; unfold count_ok in A; apply andb_true_iff in A; destruct A as [C1 C2] end.
        unfold untyped_list_step in D.
        change (88 =? g_listVariableUntypedTag) with false in D. change (glistFixedUntypedLenTag 88) with false in D.
        change (88 =? g_listFixedUntypedTag) with true in D. cbv iota in D. rewrite RI in D. cbn [bind] in D.
        match type of D with context [?n <? 0] => replace (n <? 0) with false in D by lia end.
        match type of D with context [Z.of_nat ?l <? ?n] => replace (Z.of_nat l <? n) with false in D by lia end.
        change (heap_push (dst_of ?s h) (RList None)) with (dst_of (st_open s) (h ++ [RList None])) in D.
        dbrk D. cbn [bind] in D.
        match goal with A : hparse_n _ _ _ _ _ = Ok (?l, _, _), A' : R_rn _ _ _ _ _ = Ok _, Rl : Forall reg ?l |- _ =>
          destruct (IHn _ _ _ _ _ _ _ _ _ _ _ _ A B2 Rl A') as (hp & S1 & -> & ->) end.
        inversion D; subst. eexists _, _, _. split; [reflexivity|]. split; [eapply slist_untyped; eassumption|]. split; reflexivity.
      + rewrite F3, F4 in P. brk P. inversion P; subst. inversion Rg; subst.
        unfold untyped_list_step in D. rewrite F1, F2, F5 in D. cbn [bind] in D.
        match type of D with context [?n <? 0] => replace (n <? 0) with false in D by lia end.
        match type of D with (if ?b then _ else _) = _ => destruct b; [discriminate D|] end.
        change (heap_push (dst_of ?s h) (RList None)) with (dst_of (st_open s) (h ++ [RList None])) in D.
        dbrk D. cbn [bind] in D.
        match goal with A : hparse_n _ _ _ _ _ = Ok (?l, _, _), A' : R_rn _ _ _ _ _ = Ok _, Rl : Forall reg ?l |- _ =>
          destruct (IHn _ _ _ _ _ _ _ _ _ _ _ _ A B Rl A') as (hp & S1 & -> & ->) end.
        inversion D; subst. eexists _, _, _. split; [reflexivity|]. split; [eapply slist_untyped; eassumption|]. split; reflexivity.
  Qed.

  Lemma reg_list_inv ty vs : reg (HList ty vs) -> Forall reg vs.
  Proof. intros H. inversion H; assumption. Qed.

  Lemma read_ref_inv st h r z r' d rest2 dst2 : bytes_ok r -> parse_int_value r = Ok (z, r') ->
    read_ref (dst_of st h) r = Ok (d, rest2, dst2) -> ref_val h z = Some d /\ rest2 = r' /\ dst2 = dst_of st h.
  Proof.
    intros B P D. unfold read_ref in D. rewrite (int_value_refines _ _ _ B P) in D. cbn [bind] in D.
    change (dheap (dst_of st h)) with h in D. unfold ref_val.
    destruct (Decoder.nth_z h z) as [[ty fs|[v|]|[v|]]|]; try discriminate D; inversion D; subst; repeat split; reflexivity.
  Qed.

  Lemma Cv_step f : Cv f -> Cn f -> Cz f -> Ce f -> Cfs f -> Cv (S f).
  Proof.
    intros IHv IHn IHz IHe IHfs st bs hv rest st' h g d rest2 dst2 P B Rg D.
    rewrite hparse_v_S in P. destruct bs as [|t r]; [discriminate P|]. rewrite pv_step_cls in P.
    apply bytes_ok_cons in B. destruct B as [Bt Br].
    destruct g as [|g]; [discriminate D|]. rewrite rdS, rd_step_cls, (tag_dispatch_agrees t Bt) in D.
    destruct (container_tag_facts t Bt) as (_ & _ & FO).
    destruct (spec_cls t) eqn:C; cbn [pv_body rd_body] in *; try discriminate P.
    - inversion P; subst. inversion D; subst. eexists. split; [constructor|]. split; reflexivity.
    - inversion P; subst. inversion D; subst. eexists. split; [constructor|]. split; reflexivity.
    - inversion P; subst. inversion D; subst. eexists. split; [constructor|]. split; reflexivity.
    - brk P. inversion P; subst.
      match goal with A : parse_int _ _ = Ok _ |- _ => rewrite (decode_int_follows_spec _ _ _ _ Bt Br A) in D end.
      inversion D; subst. eexists. split; [constructor|]. split; reflexivity.
    - brk P. inversion P; subst.
      match goal with A : parse_long _ _ = Ok _ |- _ => rewrite (decode_long_follows_spec _ _ _ _ Bt Br A) in D end.
      inversion D; subst. eexists. split; [constructor|]. split; reflexivity.
    - brk P. inversion P; subst.
      match goal with A : parse_double _ _ = Ok _ |- _ => rewrite (decode_double_follows_spec _ _ _ _ Br A) in D end.
      inversion D; subst. eexists. split; [constructor|]. split; reflexivity.
    - brk P. inversion P; subst.
      match goal with A : parse_string _ _ _ = Ok _ |- _ => rewrite (decode_string_follows_spec _ _ _ _ _ A) in D end.
      inversion D; subst. eexists. split; [constructor|]. split; reflexivity.
    - brk P. inversion P; subst.
      match goal with A : parse_binary _ _ _ = Ok _ |- _ => rewrite (decode_binary_follows_spec _ _ _ _ _ A) in D end.
      inversion D; subst. eexists. split; [constructor|]. split; reflexivity.
    - brk P. inversion P; subst. inversion Rg.
    - (* instance, short form *) rewrite (FO eq_refl) in D. eapply (obj_core_c f IHfs); eassumption.
    - (* typed list *) destruct g as [|g]; [discriminate D|]. rewrite rlS, rl_step_some in D.
      destruct (list_core_c f IHn IHz t st r hv rest st' h g d rest2 dst2 Bt (or_introl C) ltac:(rewrite C; exact P) Br Rg D)
        as (ty & vs & hp & -> & S1 & -> & ->).
      exists hp. split; [apply sv_list; exact S1|]. split; reflexivity.
    - destruct g as [|g]; [discriminate D|]. rewrite rlS, rl_step_some in D.
      destruct (list_core_c f IHn IHz t st r hv rest st' h g d rest2 dst2 Bt (or_intror C) ltac:(rewrite C; exact P) Br Rg D)
        as (ty & vs & hp & -> & S1 & -> & ->).
      exists hp. split; [apply sv_list; exact S1|]. split; reflexivity.
    - brk P. inversion P; subst.
      match goal with A : parse_int_value _ = Ok _ |- _ => destruct (read_ref_inv _ _ _ _ _ _ _ _ Br A D) as (V & -> & ->) end.
      eexists. split; [apply sv_ref; exact V|]. split; reflexivity.
    - (* typed map *) brk P. inversion P; subst. inversion Rg; subst.
      match goal with A : parse_type _ _ _ = Ok (_, ?r1, _) |- _ =>
        pose proof (type_refines _ _ _ _ _ _ h Br A) as RT;
        assert (B1 : bytes_ok r1) by (eapply bytes_ok_psuffix; [eapply read_type_psuffix; exact RT|exact Br]) end.
      rewrite RT in D. cbn [bind] in D.
      match type of D with match tm_lookup tm ?n with _ => _ end = _ => destruct (tm_lookup tm n) as [[| | | | | | | | | |kt vt| |]|] eqn:TL; try discriminate D end.
      match goal with A : hparse_e _ _ _ _ = Ok (?l, _, _), Rl : Forall _ ?l |- _ =>
        destruct (map_core_c f IHe _ _ _ _ _ _ _ _ _ _ _ _ A B1 Rl D) as (hp & S1 & -> & ->) end.
      exists hp. split; [eapply sv_map_typed; eassumption|]. split; reflexivity.
    - brk P. inversion P; subst. inversion Rg; subst.
      match goal with A : hparse_e _ _ _ _ = Ok (?l, _, _), Rl : Forall _ ?l |- _ =>
        destruct (map_core_c f IHe _ _ _ _ _ _ _ _ _ _ _ _ A Br Rl D) as (hp & S1 & -> & ->) end.
      exists hp. split; [apply sv_map_untyped; exact S1|]. split; reflexivity.
    - (* class definition *)
      destruct (def_prefix f0 (hparse_v f0 f) (hparse_n f0 f) (hparse_z f0 f) (hparse_e f0 f) t st r _ h P Br) as (st1 & r3 & RC & B3 & P3).
      rewrite RC in D. cbn [bind snd] in D. apply (IHv _ _ _ _ _ _ _ _ _ _ P3 B3 Rg D).
    - (* instance, long form *) brk P.
      match goal with A : parse_int_value _ = Ok (_, ?r1) |- _ =>
        pose proof (int_value_refines _ _ _ Br A) as RI;
        assert (B1 : bytes_ok r1) by (eapply bytes_ok_psuffix; [eapply decode_int_psuffix; exact RI|exact Br]) end.
      rewrite RI in D. cbn [bind] in D. eapply (obj_core_c f IHfs); eassumption.
  Qed.

  Lemma Cl_step f : Cl f -> Cn f -> Cz f -> Cl (S f).
  Proof.
    intros IHl IHn IHz st bs hv rest st' h g d rest2 dst2 P B Rg D.
    rewrite hparse_v_S in P. destruct bs as [|t r]; [discriminate P|]. rewrite pv_step_cls in P.
    apply bytes_ok_cons in B. destruct B as [Bt Br].
    destruct g as [|g]; [discriminate D|]. rewrite rlS in D.
    pose proof D as D0. rewrite rl_step_cls in D. destruct (pos_cls t Bt) as (_ & RL & _). rewrite RL, (tag_dispatch_agrees t Bt) in D.
    destruct (spec_cls t) eqn:C; cbn [pv_body rl_body] in *; try discriminate D.
    - inversion P; subst. inversion D; subst. eexists. split; [constructor|]. split; reflexivity.
    - brk P. inversion P; subst.
      match goal with A : parse_binary _ _ _ = Ok _ |- _ => rewrite (decode_binary_follows_spec _ _ _ _ _ A) in D end.
      inversion D; subst. eexists. split; [constructor|]. split; reflexivity.
    - destruct (list_core_c f IHn IHz t st r hv rest st' h g d rest2 dst2 Bt (or_introl C) ltac:(rewrite C; exact P) Br Rg D0)
        as (ty & vs & hp & -> & S1 & -> & ->).
      exists hp. split; [apply sl_list; exact S1|]. split; reflexivity.
    - destruct (list_core_c f IHn IHz t st r hv rest st' h g d rest2 dst2 Bt (or_intror C) ltac:(rewrite C; exact P) Br Rg D0)
        as (ty & vs & hp & -> & S1 & -> & ->).
      exists hp. split; [apply sl_list; exact S1|]. split; reflexivity.
    - brk P. inversion P; subst.
      match goal with A : parse_int_value _ = Ok _ |- _ => destruct (read_ref_inv _ _ _ _ _ _ _ _ Br A D) as (V & -> & ->) end.
      eexists. split; [apply sl_ref; exact V|]. split; reflexivity.
    - destruct (def_prefix f0 (hparse_v f0 f) (hparse_n f0 f) (hparse_z f0 f) (hparse_e f0 f) t st r _ h P Br) as (st1 & r3 & RC & B3 & P3).
      rewrite RC in D. cbn [bind snd] in D. apply (IHl _ _ _ _ _ _ _ _ _ _ P3 B3 Rg D).
  Qed.

  Lemma Cm_step f : Cm f -> Ce f -> Cm (S f).
  Proof.
    intros IHm IHe st bs hv rest st' kt vt h g d rest2 dst2 P B Rg D.
    rewrite hparse_v_S in P. destruct bs as [|t r]; [discriminate P|]. rewrite pv_step_cls in P.
    apply bytes_ok_cons in B. destruct B as [Bt Br].
    destruct g as [|g]; [discriminate D|]. rewrite rmS, rm_step_cls in D.
    destruct (pos_cls t Bt) as (_ & _ & RM). rewrite RM, (tag_dispatch_agrees t Bt) in D.
    destruct (spec_cls t) eqn:C; cbn [pv_body rm_body] in *; try discriminate D.
    - inversion P; subst. inversion D; subst. eexists. split; [constructor|]. split; reflexivity.
    - brk P. inversion P; subst. dbrk D. cbn [bind] in D.
      match goal with A : parse_int_value _ = Ok _, A' : read_ref _ _ = Ok _ |- _ => destruct (read_ref_inv _ _ _ _ _ _ _ _ Br A A') as (V & -> & ->) end.
      dbrk D. cbn [bind] in D. inversion D; subst. eexists. split; [eapply sm_ref; eassumption|]. split; reflexivity.
    - brk P. inversion P; subst. inversion Rg; subst.
      match goal with A : parse_type _ _ _ = Ok (_, ?r1, _) |- _ =>
        pose proof (type_refines _ _ _ _ _ _ h Br A) as RT;
        assert (B1 : bytes_ok r1) by (eapply bytes_ok_psuffix; [eapply read_type_psuffix; exact RT|exact Br]) end.
      rewrite RT in D. cbn [bind snd] in D.
      match goal with A : hparse_e _ _ _ _ = Ok (?l, _, _), Rl : Forall _ ?l |- _ =>
        destruct (map_core_c f IHe _ _ _ _ _ _ _ _ _ _ _ _ A B1 Rl D) as (hp & S1 & -> & ->) end.
      exists hp. split; [apply sm_map; exact S1|]. split; reflexivity.
    - brk P. inversion P; subst. inversion Rg; subst.
      match goal with A : hparse_e _ _ _ _ = Ok (?l, _, _), Rl : Forall _ ?l |- _ =>
        destruct (map_core_c f IHe _ _ _ _ _ _ _ _ _ _ _ _ A Br Rl D) as (hp & S1 & -> & ->) end.
      exists hp. split; [apply sm_map; exact S1|]. split; reflexivity.
    - destruct (def_prefix f0 (hparse_v f0 f) (hparse_n f0 f) (hparse_z f0 f) (hparse_e f0 f) t st r _ h P Br) as (st1 & r3 & RC & B3 & P3).
      rewrite RC in D. cbn [bind snd] in D. apply (IHm _ _ _ _ _ _ _ _ _ _ _ _ P3 B3 Rg D).
  Qed.

  Lemma object_of_shape pn st i r hv rest st' : object_of pn st i r = Ok (hv, rest, st') -> exists c fs, hv = HObject c fs.
  Proof. unfold object_of. intros P. brk P. inversion P; subst. eauto. Qed.
  Lemma sv_obj_ss c fs h d h' : sv te tm (HObject c fs) h d h' -> ss te tm (HObject c fs) h d h'.
  Proof. intros S. inversion S; subst. apply ss_obj. assumption. Qed.

  (* decoder.go readStruct *)
  Lemma Cs_step f : Cv f -> Cfs f -> forall st bs hv rest st' h g d rest2 dst2,
    hparse_v f0 (S f) st bs = Ok (hv, rest, st') -> bytes_ok bs -> reg hv ->
    read_struct tm (RA g) (dst_of st h) bs = Ok (d, rest2, dst2) ->
    exists h', (ss te tm hv h d h' \/ (exists r, bs = 67 :: r) /\ sv te tm hv h d h') /\ rest2 = rest /\ dst2 = dst_of st' h'.
  Proof.
    intros IHv IHfs st bs hv rest st' h g d rest2 dst2 P B Rg D.
    rewrite hparse_v_S in P. destruct bs as [|t r]; [discriminate P|]. rewrite pv_step_cls in P.
    apply bytes_ok_cons in B. destruct B as [Bt Br]. rewrite read_struct_cls in D.
    destruct (container_tag_facts t Bt) as (_ & _ & FO).
    destruct (pos_cls t Bt) as (RS & _ & _). rewrite RS, (tag_dispatch_agrees t Bt) in D.
    destruct (spec_cls t) eqn:C; cbn [pv_body rs_body] in *; try discriminate D.
    - inversion P; subst. inversion D; subst. eexists. split; [left; constructor|]. split; reflexivity.
    - brk P. inversion P; subst. inversion Rg.
    - rewrite (FO eq_refl) in D.
      destruct (object_of_shape _ _ _ _ _ _ _ P) as (c0 & fs0 & ->).
      destruct (obj_core_c f IHfs _ _ _ _ _ _ _ _ _ _ _ P Br Rg D) as (hp & S1 & -> & ->).
      exists hp. split; [|split; reflexivity]. left. apply sv_obj_ss. exact S1.
    - brk P. inversion P; subst.
      match goal with A : parse_int_value _ = Ok _ |- _ => destruct (read_ref_inv _ _ _ _ _ _ _ _ Br A D) as (V & -> & ->) end.
      eexists. split; [left; apply ss_ref; exact V|]. split; reflexivity.
    - destruct (def_prefix f0 (hparse_v f0 f) (hparse_n f0 f) (hparse_z f0 f) (hparse_e f0 f) t st r _ h P Br) as (st1 & r3 & RC & B3 & P3).
      rewrite RC in D. cbn [bind snd] in D. destruct (IHv _ _ _ _ _ _ _ _ _ _ P3 B3 Rg D) as (hp & S1 & -> & ->).
      exists hp. split; [|split; reflexivity]. right. split; [|exact S1]. apply spec_cls_def in C. subst t. eexists; reflexivity.
    - brk P.
      match goal with A : parse_int_value _ = Ok (_, ?r1) |- _ =>
        pose proof (int_value_refines _ _ _ Br A) as RI;
        assert (B1 : bytes_ok r1) by (eapply bytes_ok_psuffix; [eapply decode_int_psuffix; exact RI|exact Br]) end.
      rewrite RI in D. cbn [bind] in D.
      destruct (object_of_shape _ _ _ _ _ _ _ P) as (c0 & fs0 & ->).
      destruct (obj_core_c f IHfs _ _ _ _ _ _ _ _ _ _ _ P B1 Rg D) as (hp & S1 & -> & ->).
      exists hp. split; [|split; reflexivity]. left. apply sv_obj_ss. exact S1.
  Qed.

  Lemma sv_struct_ss t hv h s h' d : struct_like t -> sv te tm hv h s h' -> set_value te h' t s = Ok d -> ss te tm hv h s h'.
  Proof.
    intros SL S V. inversion S; subst; try (constructor; assumption);
      try match goal with A : slist _ _ _ _ _ _ _ |- _ => inversion A; subst end;
      try match goal with A : smap _ _ _ _ _ _ _ _ |- _ => inversion A; subst end;
      exfalso; destruct t as [| | | | | | |n|t0| | | |]; cbn in SL; try contradiction;
      try (destruct t0; try contradiction); cbn in V; discriminate V.
  Qed.

  Lemma Cf_step f : Cf f -> Cv f -> Cfs f -> Cl (S f) -> Cm (S f) -> Cf (S f).
  Proof.
    intros IHf IHv IHfs IHl IHm st bs hv rest st' t h g d rest2 dst2 P B Rg D.
    destruct g as [|g]; [discriminate D|]. rewrite rfS in D.
    destruct bs as [|t0 r]; [rewrite hparse_v_S in P; discriminate P|].
    pose proof P as Pb. rewrite hparse_v_S, pv_step_cls in Pb.
    pose proof B as B0. apply bytes_ok_cons in B. destruct B as [Bt Br].
    destruct (Bool.bool_dec (scalar_type t) true) as [SC|SC].
    - destruct (Z.eq_dec t0 67) as [->|N].
      + change (spec_cls 67) with CDef in Pb.
        destruct (def_prefix f0 (hparse_v f0 f) (hparse_n f0 f) (hparse_z f0 f) (hparse_e f0 f) 67 st r _ h Pb Br) as (st1 & r3 & RC & B3 & P3).
        unfold rf_step in D. rewrite SC in D. change (67 =? g_objectDefTag) with true in D. cbn [andb] in D. rewrite RC in D. cbn [bind snd] in D.
        apply (IHf _ _ _ _ _ _ _ _ _ _ _ P3 B3 Rg D).
      + rewrite rf_step_core_eq in D by (right; exact N).
        destruct t; try discriminate SC; cbn [rf_core] in D.
        * (* bool *) dbrk D. cbn [bind] in D. inversion D; subst.
          match goal with A : decode_boolean _ = Ok _ |- _ => destruct (dbool_ok _ _ _ A) as [[-> X]|[-> X]]; inversion X; subst end.
          -- cbn in Pb. inversion Pb; subst. eexists. split; [constructor|]. split; reflexivity.
          -- cbn in Pb. inversion Pb; subst. eexists. split; [constructor|]. split; reflexivity.
        * (* integer kinds *) dbrk D. cbn [bind] in D. inversion D; subst.
          match goal with A : dec_field_kind _ _ = Ok _ |- _ => unfold dec_field_kind in A; destruct (kind_wire_int k) eqn:KW; dbrk A; cbn [bind] in A; inversion A; subst end.
          -- match goal with A : decode_int _ = Ok _ |- _ => change (decode_int (t0 :: r)) with (decode_int_tag t0 r) in A; pose proof (dint_ok _ _ _ Bt A) as C; rename A into DI end.
             rewrite C in Pb. cbn [pv_body] in Pb. brk Pb. inversion Pb; subst.
             match goal with A : parse_int _ _ = Ok _ |- _ => rewrite (decode_int_follows_spec _ _ _ _ Bt Br A) in DI; inversion DI; subst end.
             eexists. split; [apply sf_int; exact KW|]. split; reflexivity.
          -- match goal with A : decode_long _ = Ok _ |- _ => change (decode_long (t0 :: r)) with (decode_long_tag t0 r) in A; pose proof (dlong_ok _ _ _ Bt A) as C; rename A into DI end.
             rewrite C in Pb. cbn [pv_body] in Pb. brk Pb. inversion Pb; subst.
             match goal with A : parse_long _ _ = Ok _ |- _ => rewrite (decode_long_follows_spec _ _ _ _ Bt Br A) in DI; inversion DI; subst end.
             eexists. split; [apply sf_long; exact KW|]. split; reflexivity.
        * (* float32 *) dbrk D. cbn [bind] in D. inversion D; subst.
          match goal with A : decode_double _ = Ok _ |- _ => change (decode_double (t0 :: r)) with (decode_double_tag t0 r) in A; pose proof (ddouble_ok _ _ _ Bt A) as C; rename A into DI end.
          rewrite C in Pb. cbn [pv_body] in Pb. brk Pb. inversion Pb; subst.
          match goal with A : parse_double _ _ = Ok _ |- _ => rewrite (decode_double_follows_spec _ _ _ _ Br A) in DI; inversion DI; subst end.
          eexists. split; [constructor|]. split; reflexivity.
        * (* float64 *) dbrk D. cbn [bind] in D. inversion D; subst.
          match goal with A : decode_double _ = Ok _ |- _ => change (decode_double (t0 :: r)) with (decode_double_tag t0 r) in A; pose proof (ddouble_ok _ _ _ Bt A) as C; rename A into DI end.
          rewrite C in Pb. cbn [pv_body] in Pb. brk Pb. inversion Pb; subst.
          match goal with A : parse_double _ _ = Ok _ |- _ => rewrite (decode_double_follows_spec _ _ _ _ Br A) in DI; inversion DI; subst end.
          eexists. split; [constructor|]. split; reflexivity.
        * (* string *) dbrk D. cbn [bind] in D. inversion D; subst.
          match goal with A : decode_string _ = Ok _ |- _ => change (decode_string (t0 :: r)) with (decode_string_tag t0 r) in A; destruct (dstring_ok _ _ _ Bt A) as [->|C]; rename A into DI end.
          -- cbn in Pb. inversion Pb; subst. cbn in DI. inversion DI; subst. eexists. split; [apply sf_str_null|]. split; reflexivity.
          -- rewrite C in Pb. cbn [pv_body] in Pb. brk Pb. inversion Pb; subst.
             match goal with A : parse_string _ _ _ = Ok _ |- _ => rewrite (decode_string_follows_spec _ _ _ _ _ A) in DI; inversion DI; subst end.
             eexists. split; [constructor|]. split; reflexivity.
    - rewrite rf_step_core_eq in D by (left; destruct (scalar_type t); congruence).
      destruct t as [| | | | | | |n|t1| |kt vt| |]; try (exfalso; apply SC; reflexivity); cbn [rf_core] in D; try discriminate D.
      + (* time.Time *) dbrk D. cbn [bind] in D. inversion D; subst.
        match goal with A : read_struct _ _ _ _ = Ok _ |- _ =>
          destruct (Cs_step f IHv IHfs _ _ _ _ _ _ _ _ _ _ P B0 Rg A) as (hp & [S1|[_ S1]] & -> & ->) end.
        * exists hp. split; [eapply sf_struct; [exact I|exact S1|eassumption]|split; reflexivity].
        * exists hp. split; [eapply sf_struct; [exact I|eapply (sv_struct_ss TTime); [exact I|exact S1|eassumption]|eassumption]|split; reflexivity].
      + (* []byte *)
        destruct (R_rl (RA g) None (dst_of st h) (t0 :: r)) as [[[m r1] st1]|er| |] eqn:EL; try discriminate D.
        * destruct (IHl _ _ _ _ _ _ _ _ _ _ P B0 Rg EL) as (hp & S1 & -> & ->). dbrk D. cbn [bind] in D. inversion D; subst.
          exists hp. split; [eapply sf_slice; [exact I|exact S1|eassumption]|split; reflexivity].
        * destruct er; try discriminate D. destruct (Z.eqb_spec t0 g_endFlag) as [->|NE]; [|discriminate D]. discriminate Pb.
      + (* struct by value *) dbrk D. cbn [bind] in D. inversion D; subst.
        match goal with A : read_struct _ _ _ _ = Ok _ |- _ =>
          destruct (Cs_step f IHv IHfs _ _ _ _ _ _ _ _ _ _ P B0 Rg A) as (hp & [S1|[_ S1]] & -> & ->) end.
        * exists hp. split; [eapply sf_struct; [exact I|exact S1|eassumption]|split; reflexivity].
        * exists hp. split; [eapply sf_struct; [exact I|eapply (sv_struct_ss (TStruct n)); [exact I|exact S1|eassumption]|eassumption]|split; reflexivity].
      + (* pointer to struct *) destruct t1; try discriminate D. dbrk D. cbn [bind] in D. inversion D; subst.
        match goal with A : read_struct _ _ _ _ = Ok _ |- _ =>
          destruct (Cs_step f IHv IHfs _ _ _ _ _ _ _ _ _ _ P B0 Rg A) as (hp & [S1|[_ S1]] & -> & ->) end.
        * exists hp. split; [eapply sf_struct; [exact I|exact S1|eassumption]|split; reflexivity].
        * exists hp. split; [eapply sf_struct; [exact I|eapply (sv_struct_ss (TPtr (TStruct n))); [exact I|exact S1|eassumption]|eassumption]|split; reflexivity].
      + (* slice *)
        destruct (R_rl (RA g) None (dst_of st h) (t0 :: r)) as [[[m r1] st1]|er| |] eqn:EL; try discriminate D.
        * destruct (IHl _ _ _ _ _ _ _ _ _ _ P B0 Rg EL) as (hp & S1 & -> & ->). dbrk D. cbn [bind] in D. inversion D; subst.
          exists hp. split; [eapply sf_slice; [exact I|exact S1|eassumption]|split; reflexivity].
        * destruct er; try discriminate D. destruct (Z.eqb_spec t0 g_endFlag) as [->|NE]; [|discriminate D]. discriminate Pb.
      + (* map *) destruct (IHm _ _ _ _ _ _ _ _ _ _ _ _ P B0 Rg D) as (hp & S1 & -> & ->).
        exists hp. split; [apply sf_map; exact S1|split; reflexivity].
  Qed.

  Definition AllC (f : nat) : Prop := Cv f /\ Cl f /\ Cm f /\ Cf f /\ Cn f /\ Cz f /\ Ce f /\ Cfs f.
  Lemma allc_fuel : forall f, AllC f.
  Proof.
    induction f as [|f (IHv & IHl & IHm & IHf & IHn & IHz & IHe & IHfs)].
    - unfold AllC, Cv, Cl, Cm, Cf, Cn, Cz, Ce, Cfs. repeat split; intros; try match goal with P : _ = Ok _ |- _ => discriminate P end.
    - pose proof (Cl_step f IHl IHn IHz) as Hl. pose proof (Cm_step f IHm IHe) as Hm.
      refine (conj _ (conj Hl (conj Hm (conj _ (conj _ (conj _ (conj _ _))))))).
      + apply Cv_step; assumption.
      + apply Cf_step; assumption.
      + apply Cn_step; assumption.
      + apply Cz_step; assumption.
      + apply Ce_step; assumption.
      + apply Cfs_step; assumption.
  Qed.

  Theorem success_is_meaning_from_any_state f st bs hv rest st' h g d rest2 dst2 :
    hparse_v f0 f st bs = Ok (hv, rest, st') -> bytes_ok bs -> reg hv ->
    R_rd (RA g) (dst_of st h) bs = Ok (d, rest2, dst2) ->
    exists h', sv te tm hv h d h' /\ rest2 = rest /\ dst2 = dst_of st' h'.
  Proof. apply (proj1 (allc_fuel f)). Qed.
End Conv.

(* Decoder.Decode / ToObject on a whole message: a successful decode of a rendering of a regular
   value returns a meaning of that value, consumed the rendering and nothing else *)
Theorem decode_success_is_meaning te tm bs hv rest st' d rest2 dst2 :
  hparse pstate0 bs = Ok (hv, rest, st') -> bytes_ok bs -> reg hv ->
  decode te tm bs = Ok (d, rest2, dst2) ->
  exists h', sv te tm hv [] d h' /\ rest2 = rest /\ dst2 = dst_of st' h'.
Proof.
  intros P B Rg D. unfold decode in D. change dstate0 with (dst_of pstate0 []) in D.
  eapply success_is_meaning_from_any_state; eassumption.
Qed.

(* C03 on the model, with no hypothesis about meanings: whatever decoding one rendering of a
   regular value yields, decoding any other rendering of that value yields too *)
Theorem renderings_decode_alike_iff te tm bs1 bs2 hv st1 st2 d r1 s1 :
  hparse pstate0 bs1 = Ok (hv, [], st1) -> hparse pstate0 bs2 = Ok (hv, [], st2) ->
  bytes_ok bs1 -> bytes_ok bs2 -> reg hv ->
  decode te tm bs1 = Ok (d, r1, s1) ->
  r1 = [] /\ s1 = dst_of st1 (dheap s1) /\ decode te tm bs2 = Ok (d, [], dst_of st2 (dheap s1)).
Proof.
  intros P1 P2 B1 B2 Rg D.
  destruct (decode_success_is_meaning _ _ _ _ _ _ _ _ _ P1 B1 Rg D) as (h' & S & -> & ->).
  split; [reflexivity|]. split; [reflexivity|]. cbn [dheap dst_of].
  eapply decoder_refines_grammar; eassumption.
Qed.
