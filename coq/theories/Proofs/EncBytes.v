(* Every octet the encoder model writes is an octet (0..255): the tag and length octets are
   `byte(...)` conversions or constants, text is UTF-8, and the payload of a byte slice is what
   the caller put there. *)
From Coq Require Import ZArith List Lia Bool.
From GH Require Import Base.GoSem Base.Result Base.FloatBits Base.TimeSem Base.Utf8 Gen.GoConsts Gen.GoLeaf
  Model.Scalars Model.Strings Spec.Grammar Model.Encoder Proofs.EncoderFacts.
Import ListNotations.
Open Scope Z_scope.
Ltac Zify.zify_post_hook ::= Z.div_mod_to_equations.

Lemma bok_nil : bytes_ok []. Proof. constructor. Qed.
Lemma bok_cons b r : 0 <= b < 256 -> bytes_ok r -> bytes_ok (b :: r). Proof. intros; constructor; assumption. Qed.
Lemma bok_app a b : bytes_ok a -> bytes_ok b -> bytes_ok (a ++ b).
Proof. unfold bytes_ok. intros. apply Forall_app. split; assumption. Qed.
Lemma bok_firstn n a : bytes_ok a -> bytes_ok (firstn n a).
Proof. unfold bytes_ok. revert a. induction n; intros [|x a] H; cbn; try constructor; inversion H; subst; auto. Qed.
Lemma bok_skipn n a : bytes_ok a -> bytes_ok (skipn n a).
Proof. unfold bytes_ok. revert a. induction n; intros [|x a] H; cbn; try assumption; inversion H; subst; auto. Qed.

Ltac octets :=
  repeat first [ apply bok_nil | apply bok_cons; [first [apply wrap8_range | cbv; split; congruence | lia]|] ].

Lemma gencodeInt_bok z : bytes_ok (gencodeInt z).
Proof. unfold gencodeInt. repeat match goal with |- context [if ?b then _ else _] => destruct b end; octets. Qed.
Lemma gencodeLong_bok z : bytes_ok (gencodeLong z).
Proof. unfold gencodeLong. repeat match goal with |- context [if ?b then _ else _] => destruct b end; octets. Qed.
Lemma enc_kind_bok k z bs : enc_kind k z = Ok bs -> bytes_ok bs.
Proof.
  unfold enc_kind. destruct k; try (destruct (between _ _ z)); intros H; inversion H; subst;
    first [apply gencodeInt_bok | apply gencodeLong_bok].
Qed.
Lemma gencodeDate_bok s n : bytes_ok (gencodeDate s n).
Proof. unfold gencodeDate. cbv zeta. repeat match goal with |- context [if ?b then _ else _] => destruct b end; octets. Qed.
Lemma gencodeDouble_bok b bs : gencodeDouble b = Ok bs -> bytes_ok bs.
Proof.
  unfold gencodeDouble. cbv zeta.
  repeat match goal with |- context [if ?b then _ else _] => destruct b end; intros H; inversion H; subst; octets.
Qed.

Lemma utf8_enc1_bok r : 0 <= r <= 1114111 -> bytes_ok (utf8_enc1 r).
Proof.
  intros H. unfold utf8_enc1.
  destruct (r <? 128) eqn:E1; [octets|]. destruct (r <? 2048) eqn:E2; [octets|]. destruct (r <? 65536) eqn:E3; octets.
Qed.
Lemma utf8_enc_bok r : bytes_ok (utf8_enc r).
Proof.
  unfold utf8_enc. destruct (valid_runeb r) eqn:V.
  - apply utf8_enc1_bok. unfold valid_runeb in V. lia.
  - apply utf8_enc1_bok. unfold rune_error. lia.
Qed.
Lemma utf8_encs_bok rs : bytes_ok (utf8_encs rs).
Proof. unfold utf8_encs. induction rs as [|r rs IH]; cbn [flat_map]; [apply bok_nil|apply bok_app; [apply utf8_enc_bok|exact IH]]. Qed.

Lemma enc_str_final_bok rs : bytes_ok (enc_str_final rs).
Proof.
  unfold enc_str_final. cbv zeta.
  repeat match goal with |- context [if ?b then _ else _] => destruct b end;
    repeat (apply bok_cons; [first [apply wrap8_range | cbv; split; congruence]|]); apply utf8_encs_bok.
Qed.
Lemma enc_str_chunks_bok : forall f rs, bytes_ok (enc_str_chunks f rs).
Proof.
  induction f as [|f IH]; intros rs; cbn [enc_str_chunks]; [apply enc_str_final_bok|].
  destruct (g_stringChunkSize <? zlen rs); [|apply enc_str_final_bok].
  repeat (apply bok_cons; [first [apply wrap8_range | cbv; split; congruence]|]). apply bok_app; [apply utf8_encs_bok|apply IH].
Qed.
Lemma encode_string_bok rs : bytes_ok (encode_string rs).
Proof. unfold encode_string. destruct rs; [octets|apply enc_str_chunks_bok]. Qed.

Lemma enc_bin_final_bok bs : bytes_ok bs -> bytes_ok (enc_bin_final bs).
Proof.
  intros H. unfold enc_bin_final. cbv zeta.
  repeat match goal with |- context [if ?b then _ else _] => destruct b end;
    repeat (apply bok_cons; [first [apply wrap8_range | cbv; split; congruence]|]); exact H.
Qed.
Lemma enc_bin_chunks_bok : forall f bs, bytes_ok bs -> bytes_ok (enc_bin_chunks f bs).
Proof.
  induction f as [|f IH]; intros bs H; cbn [enc_bin_chunks]; [apply enc_bin_final_bok; exact H|].
  destruct (g_binaryChunkSize <? zlen bs); [|apply enc_bin_final_bok; exact H].
  repeat (apply bok_cons; [first [apply wrap8_range | cbv; split; congruence]|]).
  apply bok_app; [apply bok_firstn; exact H|apply IH; apply bok_skipn; exact H].
Qed.
Lemma encode_binary_bok bs : bytes_ok bs -> bytes_ok (encode_binary bs).
Proof. intros H. unfold encode_binary. destruct bs; [octets|apply enc_bin_chunks_bok; exact H]. Qed.

(* the payload of every byte slice in the value consists of octets *)
Inductive pok : gval -> Prop :=
| pok_nil : pok VNil | pok_bool b : pok (VBool b) | pok_int k z : pok (VInt k z)
| pok_f32 b : pok (VF32 b) | pok_f64 b : pok (VF64 b) | pok_str rs : pok (VStr rs)
| pok_bytes bs : bytes_ok bs -> pok (VBytes bs)
| pok_time s n : pok (VTime s n) | pok_seen k a : pok (VSeen k a)
| pok_unexp : pok VUnexported | pok_bad : pok VBad
| pok_struct a ty fs : Forall (fun f => pok (snd f)) fs -> pok (VStruct a ty fs)
| pok_slice a ty l : Forall pok l -> pok (VSlice a ty l)
| pok_map a ty es : Forall (fun e => pok (fst e) /\ pok (snd e)) es -> pok (VMap a ty es).

Definition B (st : estate) : Prop := bytes_ok (ebytes st).
Lemma ebytes_emit' st c : ebytes (emit st c) = ebytes st ++ c.
Proof. unfold ebytes, emit. cbn [eout]. rewrite concat_app. cbn. rewrite app_nil_r. reflexivity. Qed.
Lemma B_emit st c : B st -> bytes_ok c -> B (emit st c).
Proof. unfold B. intros. rewrite ebytes_emit'. apply bok_app; assumption. Qed.
Lemma B_out st st' : eout st' = eout st -> B st -> B st'.
Proof. unfold B, ebytes. intros ->. exact (fun H => H). Qed.

Lemma write_ref_B st i : B st -> B (write_ref st i).
Proof. intros H. unfold write_ref. apply B_emit; [apply B_emit; [exact H|octets]|apply gencodeInt_bok]. Qed.
Lemma check_ref_B st k a o st1 : check_ref st k a = (o, st1) -> B st -> B st1.
Proof.
  unfold check_ref. destruct (ref_find (erefs st) a k 0); intros E H; inversion E; subst; [exact H|].
  eapply B_out; [|exact H]. reflexivity.
Qed.
Lemma fold_emit_B l : forall st, B st -> B (fold_left (fun s f => emit s (encode_string f)) l st).
Proof. induction l as [|x l IH]; intros st H; cbn [fold_left]; [exact H|]. apply IH. apply B_emit; [exact H|apply encode_string_bok]. Qed.
Lemma write_cls_def_B st c fs : B st -> B (write_cls_def st c fs).
Proof.
  intros H. unfold write_cls_def. cbv zeta. eapply B_out; [reflexivity|]. cbn [eout].
  apply fold_emit_B. apply B_emit; [apply B_emit; [apply B_emit; [exact H|octets]|apply encode_string_bok]|apply gencodeInt_bok].
Qed.
Lemma list_header_B st ty n : B st -> B (list_header st ty n).
Proof.
  intros H. unfold list_header.
  repeat match goal with |- context [match ?x with _ => _ end] => destruct x end;
    repeat first [ apply gencodeInt_bok | apply encode_string_bok | exact H
                 | apply B_emit | apply bok_cons; [first [apply wrap8_range | cbv; split; congruence]|apply bok_nil] ].
Qed.
Lemma struct_prefix_B st ty fs : B st -> B (struct_prefix st ty fs).
Proof.
  intros H. unfold struct_prefix.
  destruct (nm_lookup (enm st) ty) as [c|].
  - destruct (cls_index (ecls st) c 0) as [i|]; cbv zeta;
      destruct (_ <=? g_objectTagMaxLen);
      repeat first [ apply gencodeInt_bok | exact H | apply write_cls_def_B
                   | apply B_emit | apply bok_cons; [first [apply wrap8_range | cbv; split; congruence]|apply bok_nil] ].
  - match goal with |- context [cls_index ?a ?b ?c] => destruct (cls_index a b c) as [i|] end; cbv zeta;
      destruct (_ <=? g_objectTagMaxLen);
      repeat first [ apply gencodeInt_bok | apply write_cls_def_B
                   | apply B_emit | apply bok_cons; [first [apply wrap8_range | cbv; split; congruence]|apply bok_nil]
                   | (eapply B_out; [|exact H]; reflexivity) ].
Qed.
Lemma map_prefix_B st ty : B st -> B (map_prefix st ty).
Proof.
  intros H. unfold map_prefix. destruct (nm_lookup (enm st) ty);
    repeat first [ apply encode_string_bok | exact H | apply B_emit | apply bok_cons; [cbv; split; congruence|apply bok_nil] ].
Qed.

Theorem write_data_octets : forall v, pok v -> forall st st', write_data v st = Ok st' -> B st -> B st'.
Proof.
  induction v using gval_ind'; intros Pk st st' W Hb.
  - cbn in W. inversion W; subst. apply B_emit; [exact Hb|octets].
  - cbn in W. inversion W; subst. apply B_emit; [exact Hb|destruct b; octets].
  - cbn [write_data] in W. destruct (enc_kind k z) eqn:E; try discriminate W. inversion W; subst.
    apply B_emit; [exact Hb|eapply enc_kind_bok; exact E].
  - cbn [write_data] in W. unfold write_double in W. destruct (gencodeDouble _) eqn:E; try discriminate W. inversion W; subst.
    apply B_emit; [exact Hb|eapply gencodeDouble_bok; exact E].
  - cbn [write_data] in W. unfold write_double in W. destruct (gencodeDouble _) eqn:E; try discriminate W. inversion W; subst.
    apply B_emit; [exact Hb|eapply gencodeDouble_bok; exact E].
  - cbn in W. inversion W; subst. apply B_emit; [exact Hb|apply encode_string_bok].
  - cbn in W. inversion W; subst. inversion Pk; subst. apply B_emit; [exact Hb|apply encode_binary_bok; assumption].
  - cbn in W. inversion W; subst. apply B_emit; [exact Hb|apply gencodeDate_bok].
  - (* struct *) rewrite write_data_struct in W. destruct (check_ref st RStruct a) as [[i|] st1] eqn:CR.
    + inversion W; subst. apply write_ref_B. eapply check_ref_B; eassumption.
    + assert (H1 : B (struct_prefix st1 ty fs)) by (apply struct_prefix_B; eapply check_ref_B; eassumption).
      inversion Pk; subst. revert W H1. generalize (struct_prefix st1 ty fs). clear CR Hb Pk.
      match goal with A : Forall (fun f => pok (snd f)) fs |- _ => revert A end.
      induction H as [|[n x] r Hx Hr IHr]; intros Pf s W Hs; cbn [write_fields] in W; [inversion W; subst; exact Hs|].
      inversion Pf; subst. destruct (write_data x s) as [s'| | |] eqn:E; try discriminate W.
      apply (IHr ltac:(assumption) s' W). eapply Hx; [assumption|exact E|exact Hs].
  - (* slice *) rewrite write_data_slice in W. destruct (check_ref st RSlice _) as [[i|] st1] eqn:CR.
    + inversion W; subst. apply write_ref_B. eapply check_ref_B; eassumption.
    + assert (H1 : B (list_header st1 ty (Z.of_nat (length l)))) by (apply list_header_B; eapply check_ref_B; eassumption).
      inversion Pk; subst. revert W H1. generalize (list_header st1 ty (Z.of_nat (length l))). clear CR Hb Pk.
      match goal with A : Forall pok l |- _ => revert A end.
      induction H as [|x r Hx Hr IHr]; intros Pf s W Hs; cbn [write_items] in W; [inversion W; subst; exact Hs|].
      inversion Pf; subst. destruct (write_data x s) as [s'| | |] eqn:E; try discriminate W.
      apply (IHr ltac:(assumption) s' W). eapply Hx; [assumption|exact E|exact Hs].
  - (* map *) rewrite write_data_map in W. destruct es as [|e es]; [inversion W; subst; apply B_emit; [exact Hb|octets]|].
    destruct (check_ref st RMap a) as [[i|] st1] eqn:CR.
    + inversion W; subst. apply write_ref_B. eapply check_ref_B; eassumption.
    + destruct (write_entries (e :: es) (map_prefix st1 ty)) as [s| | |] eqn:WE; try discriminate W. inversion W; subst.
      apply B_emit; [|octets].
      assert (H1 : B (map_prefix st1 ty)) by (apply map_prefix_B; eapply check_ref_B; eassumption).
      inversion Pk; subst. revert WE H1. generalize (map_prefix st1 ty). clear CR Hb W.
      match goal with A : Forall _ (e :: es) |- _ => revert A end. generalize (e :: es) H. clear.
      intros l H. induction H as [|[k x] r [Hk Hx] Hr IHr]; intros Pf s0 W Hs; cbn [write_entries] in W; [inversion W; subst; exact Hs|].
      inversion Pf as [|? ? [Pk Px] Pr]; subst. cbn [fst snd] in *.
      destruct (write_data k s0) as [s1| | |] eqn:E1; try discriminate W.
      destruct (write_data x s1) as [s2| | |] eqn:E2; try discriminate W.
      apply (IHr Pr s2 W). eapply Hx; [exact Px|exact E2|]. eapply Hk; eassumption.
  - (* seen *) cbn [write_data] in W. destruct (ref_find (erefs st) a k 0); [|discriminate W]. inversion W; subst. apply write_ref_B. exact Hb.
  - discriminate W.
  - discriminate W.
Qed.

Corollary encode_octets nm v st' : pok v -> write_data v (estate0 nm) = Ok st' -> bytes_ok (ebytes st').
Proof. intros P W. apply (write_data_octets v P _ _ W). unfold B. cbn. constructor. Qed.
