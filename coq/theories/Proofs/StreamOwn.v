(* the encoder's stream of ANY values is read back by one decoder: composition of EncSpec (items_ok),
   EncBytes (octets) and StreamRefines; stated as C06_any_values_on_one_stream in Props/C06own.v *)
From Coq Require Import ZArith List Lia.
From GH Require Import Base.GoSem Base.Result Base.Utf8 Gen.GoLeaf Model.Scalars Model.Strings Spec.Grammar
  Model.Encoder Model.Decoder Model.Session Proofs.EncoderFacts Proofs.EncSpec Proofs.EncBytes Proofs.RoundTrip Proofs.DecRefines
  Proofs.StreamRefines.
Import ListNotations.
Open Scope Z_scope.

Lemma write_items_octets : forall vs, Forall pok vs -> forall st st', write_items vs st = Ok st' -> B st -> B st'.
Proof.
  induction vs as [|x r IH]; intros Pk st st' W Hb; cbn [write_items] in W; [inversion W; subst; exact Hb|].
  inversion Pk; subst. destruct (write_data x st) as [s1| | |] eqn:E; try discriminate W.
  eapply IH; [assumption|exact W|]. eapply write_data_octets; [eassumption|exact E|exact Hb].
Qed.

Theorem encoder_stream_refines : forall nm F f0 vs st' te tm,
  write_items vs (estate0 nm) = Ok st' -> small st' -> forallb (nm_complete nm) vs = true ->
  Forall (wfv nm F f0) vs -> Forall pok vs ->
  exists hs, den_list nm F [] vs hs (erefs st') /\
    forall rest, bytes_ok rest -> exists pst',
      (forall f, (need_items vs <= f)%nat ->
         hparse_n f0 f (length vs) pstate0 (ebytes st' ++ rest) = Ok (hs, rest, pst')) /\
      forall items h', sn te tm TIface hs [] items h' -> forall g, (2 * need_items vs <= g)%nat ->
        read_n te tm g (length vs) dstate0 (ebytes st' ++ rest) = Ok (items, rest, dst_of pst' h').
Proof.
  intros nm F f0 vs st' te tm W Sm Hc Hw Pk.
  destruct (items_ok nm F f0 vs ltac:(apply Forall_forall; intros x _; apply enc_parses) (estate0 nm) st' eq_refl Hc Hw)
    as (_ & _ & bs & hs & Bq & _ & D & P); [intros c fs []|exact W|].
  cbn in Bq. exists hs. split; [exact D|]. intros rest Br.
  destruct (P Sm pstate0 rest (conj eq_refl eq_refl)) as (pst' & _ & V).
  exists pst'. rewrite Bq. split; [exact V|].
  intros items h' S g Hg. change dstate0 with (dst_of pstate0 []).
  eapply (stream_refines te tm f0 (need_items vs)); [apply V; lia| |exact S|exact Hg].
  apply bok_app; [|exact Br]. rewrite <- Bq. apply (write_items_octets vs Pk (estate0 nm) st' W). constructor.
Qed.
