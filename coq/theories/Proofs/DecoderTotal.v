(* C14: the decoder model never runs out of its fuel.  decode gives the readers fuel linear in
   the input (8 * length + 16); every recursive call either follows the consumption of at least
   one byte or moves down a fixed, six-level chain of readers (object -> fields -> field ->
   list -> elements -> value), so the recursion depth is bounded by 8 * length + 6.  Hence
   `decode te tm bs <> Fuel` for EVERY input, type environment and type map: the model is a
   total function whose cost is linear in the input, and the outcome of every decode is a value
   or an error, never "ran away". *)
From Coq Require Import ZArith List Lia Bool.
From GH Require Import Base.GoSem Base.Result Base.FloatBits Base.TimeSem Base.Utf8 Gen.GoConsts Gen.GoLeaf
  Model.Scalars Model.Strings Spec.Grammar Model.Encoder Model.Decoder Proofs.DecoderFacts.
Import ListNotations.
Open Scope Z_scope.

Lemma bind_nf {A B} (r : result A) (k : A -> result B) :
  r <> Fuel -> (forall x, r = Ok x -> k x <> Fuel) -> bind r k <> Fuel.
Proof. destruct r; cbn; intros H1 H2; try discriminate; [apply H2; reflexivity|congruence]. Qed.

Create HintDb nf.
Ltac nfc :=
  intros;
  repeat match goal with
  | |- bind ?r ?k <> Fuel => apply bind_nf; [|intros ? ?]
  | |- (if ?b then _ else _) <> Fuel => destruct b
  | |- (let '(_, _) := ?x in _) <> Fuel => destruct x
  | |- (match ?x with _ => _ end) <> Fuel => destruct x
  | |- Ok _ <> Fuel => discriminate
  | |- Err _ <> Fuel => discriminate
  | |- Panic <> Fuel => discriminate
  end; auto with nf.

(* ---- leaves ---- *)
Lemma read_full_nf n bs : read_full n bs <> Fuel.
Proof. unfold read_full. destruct n; [discriminate|]. destruct bs; [discriminate|]. destruct (take_n _ _); discriminate. Qed.
#[export] Hint Resolve read_full_nf : nf.
Lemma read_tag_nf bs : read_tag bs <> Fuel.
Proof. destruct bs; discriminate. Qed.
#[export] Hint Resolve read_tag_nf : nf.
Lemma decode_int_tag_nf t r : decode_int_tag t r <> Fuel.
Proof. unfold decode_int_tag. nfc. Qed.
#[export] Hint Resolve decode_int_tag_nf : nf.
Lemma decode_long_tag_nf t r : decode_long_tag t r <> Fuel.
Proof. unfold decode_long_tag. nfc. Qed.
#[export] Hint Resolve decode_long_tag_nf : nf.
Lemma decode_double_tag_nf t r : decode_double_tag t r <> Fuel.
Proof. unfold decode_double_tag. nfc. Qed.
#[export] Hint Resolve decode_double_tag_nf : nf.
Lemma decode_date_tag_nf t r : decode_date_tag t r <> Fuel.
Proof. unfold decode_date_tag. nfc. Qed.
#[export] Hint Resolve decode_date_tag_nf : nf.
Lemma decode_int_nf bs : decode_int bs <> Fuel.
Proof. unfold decode_int. nfc. Qed.
Lemma decode_long_nf bs : decode_long bs <> Fuel.
Proof. unfold decode_long. nfc. Qed.
Lemma decode_double_nf bs : decode_double bs <> Fuel.
Proof. unfold decode_double. nfc. Qed.
Lemma decode_boolean_nf bs : decode_boolean bs <> Fuel.
Proof. unfold decode_boolean. nfc. Qed.
#[export] Hint Resolve decode_int_nf decode_long_nf decode_double_nf decode_boolean_nf : nf.
Lemma dec_field_kind_nf k bs : dec_field_kind k bs <> Fuel.
Proof. unfold dec_field_kind. nfc. Qed.
#[export] Hint Resolve dec_field_kind_nf : nf.

Lemma get_string_len_nf t r : get_string_len t r <> Fuel.
Proof. unfold get_string_len. nfc. Qed.
#[export] Hint Resolve get_string_len_nf : nf.
Lemma dec_str_loop_nf : forall fuel t len r acc, (length r < fuel)%nat -> dec_str_loop fuel t len r acc <> Fuel.
Proof.
  induction fuel as [|f IH]; intros t len r acc L; [lia|]. cbn [dec_str_loop].
  destruct (read_runes (Z.to_nat len) r) as [rs r1] eqn:RR. pose proof (read_runes_suffix _ _ _ _ RR) as [p1 E1].
  destruct (gstringEndTag t); [discriminate|]. destruct r1 as [|t1 r2]; [discriminate|].
  destruct (gstringTag t1); [|discriminate]. apply bind_nf; [apply get_string_len_nf|]. intros [len' r3] G.
  apply IH. destruct (get_string_len_suffix _ _ _ _ G) as [p2 E2]. subst. rewrite !app_length in L. cbn [length] in L. rewrite app_length in L. lia.
Qed.
Lemma decode_string_tag_nf t r : decode_string_tag t r <> Fuel.
Proof.
  unfold decode_string_tag. destruct (t =? g_nilTag); [discriminate|]. apply bind_nf; [apply get_string_len_nf|].
  intros [len r'] _. apply dec_str_loop_nf. lia.
Qed.
#[export] Hint Resolve decode_string_tag_nf : nf.
Lemma decode_string_nf bs : decode_string bs <> Fuel.
Proof. unfold decode_string. nfc. Qed.
#[export] Hint Resolve decode_string_nf : nf.
Lemma get_binary_len_nf t r : get_binary_len t r <> Fuel.
Proof. unfold get_binary_len. nfc. Qed.
#[export] Hint Resolve get_binary_len_nf : nf.
Lemma dec_bin_loop_nf : forall fuel t len r acc, (length r < fuel)%nat -> dec_bin_loop fuel t len r acc <> Fuel.
Proof.
  induction fuel as [|f IH]; intros t len r acc L; [lia|]. cbn [dec_bin_loop].
  destruct (read_upto (Z.to_nat len) r) as [x r1] eqn:RR. pose proof (read_upto_suffix _ _ _ _ RR) as [p1 E1].
  destruct (gbinaryEndTag t); [discriminate|]. destruct r1 as [|t1 r2]; [discriminate|].
  destruct (gbinaryTag t1); [|discriminate]. apply bind_nf; [apply get_binary_len_nf|]. intros [len' r3] G.
  apply IH. destruct (get_binary_len_suffix _ _ _ _ G) as [p2 E2]. subst. rewrite !app_length in L. cbn [length] in L. rewrite app_length in L. lia.
Qed.
Lemma decode_binary_tag_nf t r : decode_binary_tag t r <> Fuel.
Proof.
  unfold decode_binary_tag. destruct (t =? g_binaryShortLenTagMin); [discriminate|]. apply bind_nf; [apply get_binary_len_nf|].
  intros [len r'] _. apply dec_bin_loop_nf. lia.
Qed.
#[export] Hint Resolve decode_binary_tag_nf : nf.

Lemma read_type_nf st bs : read_type st bs <> Fuel.
Proof. unfold read_type. nfc. Qed.
Lemma read_strings_nf : forall n bs, read_strings n bs <> Fuel.
Proof. induction n as [|n IH]; intros bs; cbn [read_strings]; [discriminate|]. nfc. Qed.
#[export] Hint Resolve read_type_nf read_strings_nf : nf.
Lemma read_class_def_nf st bs : read_class_def st bs <> Fuel.
Proof. unfold read_class_def. nfc. Qed.
Lemma read_ref_nf st bs : read_ref st bs <> Fuel.
Proof. unfold read_ref. nfc. Qed.
#[export] Hint Resolve read_class_def_nf read_ref_nf : nf.
Lemma set_value_nf te heap dest v : set_value te heap dest v <> Fuel.
Proof. unfold set_value. nfc. Qed.
#[export] Hint Resolve set_value_nf : nf.
Lemma map_result_nf {A B} (f : A -> result B) l : (forall x, f x <> Fuel) -> map_result f l <> Fuel.
Proof.
  intros H. induction l as [|x r IH]; cbn [map_result]; [discriminate|].
  pose proof (H x). destruct (f x); try discriminate; try congruence. destruct (map_result f r); try discriminate; congruence.
Qed.
Lemma set_slice_nf te heap dest m : set_slice te heap dest m <> Fuel.
Proof.
  unfold set_slice. destruct m; try discriminate; destruct dest; try discriminate;
    repeat match goal with
    | |- (if ?b then _ else _) <> Fuel => destruct b
    | |- (match ?x with [] => _ | _ :: _ => _ end) <> Fuel => destruct x
    | |- Ok _ <> Fuel => discriminate
    | |- Err _ <> Fuel => discriminate
    | |- Panic <> Fuel => discriminate
    | |- (match ?t with TIface => _ | _ => _ end) <> Fuel => destruct t
    end.
  all: match goal with |- match map_result ?f ?l with _ => _ end <> Fuel =>
         pose proof (map_result_nf f l) as M; destruct (map_result f l); try discriminate; exfalso; apply M; [intros; apply set_value_nf|reflexivity] end.
Qed.
#[export] Hint Resolve set_slice_nf : nf.

(* ---- the bound ---- *)
Definition lt8 (c f : nat) (bs : bytes) : Prop := (8 * length bs + c < f)%nat.
Lemma lt8_consume c c' f bs bs' : lt8 c (S f) bs -> psuffix bs' bs -> (c' <= 7)%nat -> lt8 c' f bs'.
Proof. unfold lt8. intros H P L. pose proof (psuffix_length _ _ P). lia. Qed.
Lemma suffix_length a b : suffix a b -> (length a <= length b)%nat.
Proof. intros [p ->]. rewrite app_length. lia. Qed.
Lemma lt8_down c c' f bs bs' : lt8 c (S f) bs -> suffix bs' bs -> (c' < c)%nat -> lt8 c' f bs'.
Proof. unfold lt8. intros H P L. pose proof (suffix_length _ _ P). lia. Qed.

Definition readers_nf (R : readers) (f : nat) : Prop :=
  (forall st bs, lt8 0 f bs -> R_rd R st bs <> Fuel) /\
  (forall fl st bs, lt8 2 f bs -> R_rl R fl st bs <> Fuel) /\
  (forall t st bs, lt8 3 f bs -> R_rf R t st bs <> Fuel) /\
  (forall n w st bs, lt8 5 f bs -> R_ro R n w st bs <> Fuel) /\
  (forall t st bs, lt8 0 f bs -> R_rm R t st bs <> Fuel) /\
  (forall e n st bs, lt8 1 f bs -> R_rn R e n st bs <> Fuel) /\
  (forall e st bs, lt8 1 f bs -> R_rz R e st bs <> Fuel) /\
  (forall k x acc st bs, lt8 1 f bs -> R_re R k x acc st bs <> Fuel) /\
  (forall g w acc st bs, lt8 4 f bs -> R_rfs R g w acc st bs <> Fuel).

Section StepNf.
  Variables (te : tenv) (tm : typmap) (R : readers) (f : nat).
  Hypothesis HK : readers_ok R.
  Hypothesis HN : readers_nf R f.
  Let Nrd := proj1 HN.
  Let Nrl := proj1 (proj2 HN).
  Let Nrf := proj1 (proj2 (proj2 HN)).
  Let Nro := proj1 (proj2 (proj2 (proj2 HN))).
  Let Nrm := proj1 (proj2 (proj2 (proj2 (proj2 HN)))).
  Let Nrn := proj1 (proj2 (proj2 (proj2 (proj2 (proj2 HN))))).
  Let Nrz := proj1 (proj2 (proj2 (proj2 (proj2 (proj2 (proj2 HN)))))).
  Let Nre := proj1 (proj2 (proj2 (proj2 (proj2 (proj2 (proj2 (proj2 HN))))))).
  Let Nrfs := proj2 (proj2 (proj2 (proj2 (proj2 (proj2 (proj2 (proj2 HN))))))).
  Let Krd := proj1 HK.
  Let Krf := proj1 (proj2 (proj2 HK)).

  Lemma elem_step_nf e st bs : lt8 1 (S f) bs -> elem_step te R e st bs <> Fuel.
  Proof.
    intros L. unfold elem_step. apply bind_nf; [apply Nrd; eapply lt8_down; [exact L|apply suffix_refl|lia]|].
    intros [[item r1] st1] _. destruct e; try discriminate; (apply bind_nf; [apply set_value_nf|discriminate]).
  Qed.
  Lemma rn_step_nf e n st bs : lt8 1 (S f) bs -> rn_step te R e n st bs <> Fuel.
  Proof.
    intros L. unfold rn_step. destruct n as [|n']; [discriminate|].
    apply bind_nf; [apply elem_step_nf; exact L|]. intros [[el r1] st1] E. apply (elem_step_ok te R HK) in E.
    apply bind_nf; [apply Nrn; eapply lt8_consume; [exact L|exact E|lia]|]. intros [[els r2] st2] _. discriminate.
  Qed.
  Lemma rz_step_nf e st bs : lt8 1 (S f) bs -> rz_step te R e st bs <> Fuel.
  Proof.
    intros L. unfold rz_step. pose proof (elem_step_nf e st bs L) as EN.
    destruct (elem_step te R e st bs) as [[[el r1] st1]|er| |] eqn:E; try discriminate; try congruence.
    - apply (elem_step_ok te R HK) in E. apply bind_nf; [apply Nrz; eapply lt8_consume; [exact L|exact E|lia]|]. intros [[els r2] st2] _. discriminate.
    - destruct er; try discriminate. destruct bs as [|t r]; [discriminate|]. destruct (t =? g_endFlag); discriminate.
  Qed.
  Lemma typed_list_step_nf tag st bs : lt8 2 (S f) bs -> typed_list_step tm R tag st bs <> Fuel.
  Proof.
    intros L. unfold typed_list_step. apply bind_nf; [apply read_type_nf|]. intros [[lty r1] st1] E.
    apply read_type_psuffix in E.
    apply bind_nf.
    { destruct (tag =? g_listVariableTypedTag); [discriminate|]. destruct (glistFixedTypedLenTag tag); [discriminate|].
      destruct (tag =? g_listFixedTypedStartTag); [|discriminate]. apply bind_nf; [apply decode_int_nf|]. intros [n r] _. discriminate. }
    intros [y r2] E2.
    assert (S2 : suffix r2 r1).
    { destruct (tag =? g_listVariableTypedTag); [inversion E2; subst; apply suffix_refl|].
      destruct (glistFixedTypedLenTag tag); [inversion E2; subst; apply suffix_refl|].
      destruct (tag =? g_listFixedTypedStartTag); [|discriminate].
      apply bind_ok in E2. destruct E2 as ([n rr] & E3 & E2). inversion E2; subst. apply psuffix_suffix, (decode_int_psuffix _ _ _ E3). }
    assert (P2 : psuffix r2 bs) by (eapply psuffix_trans_r; [exact S2|exact E]).
    destruct y as [n|].
    - destruct (n <? 0); [discriminate|]. destruct (Z.of_nat (length r2) <? n); [discriminate|].
      destruct (tm_lookup tm lty) as [[]|]; try discriminate.
      apply bind_nf; [apply Nrn; eapply lt8_consume; [exact L|exact P2|lia]|]. intros [[items r3] st2] _. discriminate.
    - destruct (tm_lookup tm lty) as [[]|]; try discriminate.
      apply bind_nf; [apply Nrz; eapply lt8_consume; [exact L|exact P2|lia]|]. intros [[items r3] st2] _. discriminate.
  Qed.
  Lemma untyped_list_step_nf tag st bs : lt8 2 (S f) bs -> untyped_list_step R tag st bs <> Fuel.
  Proof.
    intros L. unfold untyped_list_step. apply bind_nf.
    { destruct (tag =? g_listVariableUntypedTag); [discriminate|]. destruct (glistFixedUntypedLenTag tag); [discriminate|].
      destruct (tag =? g_listFixedUntypedTag); [|discriminate]. apply bind_nf; [apply decode_int_nf|]. intros [n r] _. discriminate. }
    intros [y r2] E2.
    assert (S2 : suffix r2 bs).
    { destruct (tag =? g_listVariableUntypedTag); [inversion E2; subst; apply suffix_refl|].
      destruct (glistFixedUntypedLenTag tag); [inversion E2; subst; apply suffix_refl|].
      destruct (tag =? g_listFixedUntypedTag); [|discriminate].
      apply bind_ok in E2. destruct E2 as ([n rr] & E3 & E2). inversion E2; subst. apply psuffix_suffix, (decode_int_psuffix _ _ _ E3). }
    destruct y as [n|].
    - destruct (n <? 0); [discriminate|]. destruct (Z.of_nat (length r2) <? n); [discriminate|].
      apply bind_nf; [apply Nrn; eapply lt8_down; [exact L|exact S2|lia]|]. intros [[items r3] st2] _. discriminate.
    - apply bind_nf; [apply Nrz; eapply lt8_down; [exact L|exact S2|lia]|]. intros [[items r3] st2] _. discriminate.
  Qed.
  Lemma rl_step_nf fl st bs : lt8 2 (S f) bs -> rl_step tm R fl st bs <> Fuel.
  Proof.
    intros L. unfold rl_step. apply bind_nf; [destruct fl; [discriminate|destruct bs; discriminate]|].
    intros [tag r] E.
    assert (S0 : suffix r bs).
    { destruct fl; [inversion E; subst; apply suffix_refl|]. destruct bs as [|t0 r0]; [discriminate|]. inversion E; subst. apply psuffix_suffix, psuffix_cons. }
    assert (L0 : lt8 2 (S f) r) by (unfold lt8 in *; pose proof (suffix_length _ _ S0); lia).
    destruct (gbinaryTag tag); [apply bind_nf; [apply decode_binary_tag_nf|intros [b r'] _; discriminate]|].
    destruct (tag =? g_nilTag); [discriminate|]. destruct (grefTag tag); [apply read_ref_nf|].
    destruct (tag =? g_objectDefTag).
    { apply bind_nf; [apply read_class_def_nf|]. intros [[u r1] st1] E1. apply read_class_def_psuffix in E1. cbn [snd].
      apply Nrl. eapply lt8_consume; [exact L0|exact E1|lia]. }
    destruct (gtypedListTag tag); [apply typed_list_step_nf; exact L0|].
    destruct (guntypedListTag tag); [apply untyped_list_step_nf; exact L0|discriminate].
  Qed.

  Lemma object_at_nf idx st bs : lt8 5 f bs -> object_at tm R idx st bs <> Fuel.
  Proof.
    intros L. unfold object_at. destruct (Decoder.nth_z (dcls st) idx) as [[cname fnames]|]; [|discriminate].
    destruct (tm_lookup tm cname) as [[]|]; try discriminate. apply Nro. exact L.
  Qed.
  Lemma re_step_nf kt vt acc st bs : lt8 1 (S f) bs -> re_step te R kt vt acc st bs <> Fuel.
  Proof.
    intros L. unfold re_step. pose proof (Nrd st bs ltac:(eapply lt8_down; [exact L|apply suffix_refl|lia])) as N1.
    destruct (R_rd R st bs) as [[[k r1] st1]|er| |] eqn:E; try discriminate; try congruence.
    - apply Krd in E.
      assert (X : (do (y, st2) <- R_rd R st1 r1 ;; let '(v, r2) := y in
                   do k' <- (match kt with TIface => Ok k | _ => set_value te (dheap st2) kt k end) ;;
                   do v' <- (match vt with TIface => Ok v | _ => set_value te (dheap st2) vt v end) ;;
                   if hashable k' then R_re R kt vt (entries_put acc k' v') st2 r2 else Err ECodec) <> Fuel).
      { apply bind_nf; [apply Nrd; eapply lt8_consume; [exact L|exact E|lia]|]. intros [[v r2] st2] E2. apply Krd in E2.
        apply bind_nf; [destruct kt; try discriminate; apply set_value_nf|]. intros k' _.
        apply bind_nf; [destruct vt; try discriminate; apply set_value_nf|]. intros v' _.
        destruct (hashable k'); [|discriminate]. apply Nre. eapply lt8_consume; [exact L| |lia].
        eapply psuffix_trans_l; [exact E2|apply psuffix_suffix; exact E]. }
      exact X.
    - destruct er; try discriminate. destruct bs as [|t r]; [discriminate|]. destruct (t =? g_endFlag); discriminate.
  Qed.

  Lemma map_body_nf kt vt st bs : lt8 1 f bs -> map_body R kt vt st bs <> Fuel.
  Proof. intros L. unfold map_body. apply bind_nf; [apply Nre; exact L|]. intros [[es r] st2] _. discriminate. Qed.

  (* after the tag byte, every reader of the level below has room *)
  Lemma after_tag c c' t r : lt8 c (S f) (t :: r) -> (c' <= 7)%nat -> lt8 c' f r.
  Proof. intros L H. eapply lt8_consume; [exact L|apply psuffix_cons|exact H]. Qed.

  Lemma rd_step_nf st bs : lt8 0 (S f) bs -> rd_step tm R st bs <> Fuel.
  Proof.
    intros L. unfold rd_step. destruct bs as [|tag r]; [discriminate|].
    destruct (tag =? g_endFlag); [discriminate|]. destruct (tag =? g_nilTag); [discriminate|].
    destruct (tag =? g_boolTrueTag); [discriminate|]. destruct (tag =? g_boolFalseTag); [discriminate|].
    destruct (gintTag tag); [apply bind_nf; [apply decode_int_tag_nf|intros [z r'] _; discriminate]|].
    destruct (glongTag tag); [apply bind_nf; [apply decode_long_tag_nf|intros [z r'] _; discriminate]|].
    destruct (gdoubleTag tag); [apply bind_nf; [apply decode_double_tag_nf|intros [z r'] _; discriminate]|].
    destruct (gstringTag tag); [apply bind_nf; [apply decode_string_tag_nf|intros [z r'] _; discriminate]|].
    destruct (gdateTag tag); [apply bind_nf; [apply decode_date_tag_nf|intros [z r'] _; discriminate]|].
    destruct (gbinaryTag tag); [apply bind_nf; [apply decode_binary_tag_nf|intros [z r'] _; discriminate]|].
    destruct (grefTag tag); [apply read_ref_nf|].
    destruct (tag =? g_mapTypedTag).
    { apply bind_nf; [apply read_type_nf|]. intros [[mty r1] st1] E. apply read_type_psuffix in E.
      destruct (tm_lookup tm mty) as [[]|]; try discriminate. apply map_body_nf.
      eapply lt8_consume; [exact L|eapply psuffix_trans_l; [exact E|apply psuffix_suffix, psuffix_cons]|lia]. }
    destruct (tag =? g_mapUntypedTag); [apply map_body_nf; eapply after_tag; [exact L|lia]|].
    destruct (tag =? g_objectDefTag).
    { apply bind_nf; [apply read_class_def_nf|]. intros [[u r1] st1] E. apply read_class_def_psuffix in E. cbn [snd].
      apply Nrd. eapply lt8_consume; [exact L|eapply psuffix_trans_l; [exact E|apply psuffix_suffix, psuffix_cons]|lia]. }
    destruct (gobjectLenTag tag); [apply object_at_nf; eapply after_tag; [exact L|lia]|].
    destruct (tag =? g_objectTag).
    { apply bind_nf; [apply decode_int_nf|]. intros [i r'] E. apply decode_int_psuffix in E.
      apply object_at_nf. eapply lt8_consume; [exact L|eapply psuffix_trans_l; [exact E|apply psuffix_suffix, psuffix_cons]|lia]. }
    destruct (gtypedListTag tag || guntypedListTag tag); [|discriminate]. apply Nrl. eapply after_tag; [exact L|lia].
  Qed.
  Lemma read_struct_nf st bs : lt8 0 (S f) bs -> read_struct tm R st bs <> Fuel.
  Proof.
    intros L. unfold read_struct. destruct bs as [|tag r]; [discriminate|].
    destruct (tag =? g_endFlag); [discriminate|]. destruct (tag =? g_nilTag); [discriminate|].
    destruct (gdateTag tag); [apply bind_nf; [apply decode_date_tag_nf|intros [z r'] _; discriminate]|].
    destruct (tag =? g_objectDefTag).
    { apply bind_nf; [apply read_class_def_nf|]. intros [[u r1] st1] E. apply read_class_def_psuffix in E. cbn [snd].
      apply Nrd. eapply lt8_consume; [exact L|eapply psuffix_trans_l; [exact E|apply psuffix_suffix, psuffix_cons]|lia]. }
    destruct (gobjectLenTag tag); [apply object_at_nf; eapply after_tag; [exact L|lia]|].
    destruct (tag =? g_objectTag).
    { apply bind_nf; [apply decode_int_nf|]. intros [i r'] E. apply decode_int_psuffix in E.
      apply object_at_nf. eapply lt8_consume; [exact L|eapply psuffix_trans_l; [exact E|apply psuffix_suffix, psuffix_cons]|lia]. }
    destruct (grefTag tag); [apply read_ref_nf|discriminate].
  Qed.
  Lemma rf_core_nf t st bs : lt8 3 (S f) bs -> rf_core te tm R t st bs <> Fuel.
  Proof.
    intros L. assert (L0 : lt8 0 (S f) bs) by (unfold lt8 in *; lia).
    assert (RS : (do (x, st1) <- read_struct tm R st bs ;; let '(s, r) := x in
                  do v <- set_value te (dheap st1) t s ;; Ok (v, r, st1)) <> Fuel).
    { apply bind_nf; [apply read_struct_nf; exact L0|]. intros [[s r] st1] _. apply bind_nf; [apply set_value_nf|discriminate]. }
    assert (RL : match R_rl R None st bs with
                 | Err EEof => match bs with tg :: r => if tg =? g_endFlag then Ok (zero te t, r, st) else Unmodelled | [] => Unmodelled end
                 | Ok (m, r, st1) => do v <- set_slice te (dheap st1) t m ;; Ok (v, r, st1)
                 | Err er => Err er | Panic => Panic | Fuel => Fuel
                 end <> Fuel).
    { pose proof (Nrl None st bs ltac:(eapply lt8_down; [exact L|apply suffix_refl|lia])) as N1.
      destruct (R_rl R None st bs) as [[[m r] st1]|er| |]; try discriminate; try congruence.
      - apply bind_nf; [apply set_slice_nf|discriminate].
      - destruct er; try discriminate. destruct bs as [|tg r]; [discriminate|]. destruct (tg =? g_endFlag); discriminate. }
    unfold rf_core. destruct t; try discriminate; try exact RS; try exact RL;
      try (apply bind_nf; [auto with nf|intros [x r] _; discriminate]).
    - destruct t; try discriminate; exact RS.
    - apply Nrm. eapply lt8_down; [exact L|apply suffix_refl|lia].
  Qed.
  Lemma rf_step_nf t st bs : lt8 3 (S f) bs -> rf_step te tm R t st bs <> Fuel.
  Proof.
    intros L. unfold rf_step. destruct bs as [|tag r]; [apply rf_core_nf; exact L|].
    destruct (scalar_type t && (tag =? g_objectDefTag)); [|apply rf_core_nf; exact L].
    apply bind_nf; [apply read_class_def_nf|]. intros [[u r1] st1] E. apply read_class_def_psuffix in E. cbn [snd].
    apply Nrf. eapply lt8_consume; [exact L|eapply psuffix_trans_l; [exact E|apply psuffix_suffix, psuffix_cons]|lia].
  Qed.
  Lemma rm_step_nf t st bs : lt8 0 (S f) bs -> rm_step te R t st bs <> Fuel.
  Proof.
    intros L. unfold rm_step. destruct t; destruct bs as [|tag r]; try discriminate.
    destruct (tag =? g_nilTag); [discriminate|].
    destruct (grefTag tag).
    { apply bind_nf; [apply read_ref_nf|]. intros [[v r1] st1] _. apply bind_nf; [apply set_value_nf|discriminate]. }
    destruct (tag =? g_objectDefTag).
    { apply bind_nf; [apply read_class_def_nf|]. intros [[u r1] st1] E. apply read_class_def_psuffix in E. cbn [snd].
      apply Nrm. eapply lt8_consume; [exact L|eapply psuffix_trans_l; [exact E|apply psuffix_suffix, psuffix_cons]|lia]. }
    destruct (tag =? g_mapTypedTag).
    { apply bind_nf; [apply read_type_nf|]. intros [[mty r1] st1] E. apply read_type_psuffix in E. cbn [snd].
      apply map_body_nf. eapply lt8_consume; [exact L|eapply psuffix_trans_l; [exact E|apply psuffix_suffix, psuffix_cons]|lia]. }
    destruct (tag =? g_mapUntypedTag); [apply map_body_nf; eapply after_tag; [exact L|lia]|discriminate].
  Qed.
  Lemma rfs_step_nf g w acc st bs : lt8 4 (S f) bs -> rfs_step R g w acc st bs <> Fuel.
  Proof.
    intros L. unfold rfs_step. destruct w as [|w0 ws]; [discriminate|].
    destruct (find_field g w0) as [[gn gt]|].
    - apply bind_nf; [apply Nrf; eapply lt8_down; [exact L|apply suffix_refl|lia]|]. intros [[v r] st1] E. apply Krf in E.
      apply Nrfs. eapply lt8_consume; [exact L|exact E|lia].
    - apply bind_nf; [apply Nrd; eapply lt8_down; [exact L|apply suffix_refl|lia]|]. intros [[v r] st1] E. apply Krd in E. cbn [snd].
      apply Nrfs. eapply lt8_consume; [exact L|exact E|lia].
  Qed.
  Lemma ro_step_nf n w st bs : lt8 5 (S f) bs -> ro_step te R n w st bs <> Fuel.
  Proof.
    intros L. unfold ro_step. destruct (te_lookup te n) as [gfields|]; [|discriminate]. destruct (has_dup (bound_names gfields w)); [discriminate|]. cbv zeta.
    apply bind_nf; [apply Nrfs; eapply lt8_down; [exact L|apply suffix_refl|lia]|]. intros [[fs r] st1] _. discriminate.
  Qed.

  Lemma step_readers_nf : readers_nf (step_readers te tm R) (S f).
  Proof.
    unfold readers_nf, step_readers; cbn [R_rd R_rl R_rf R_ro R_rm R_rn R_rz R_re R_rfs].
    repeat split.
    - apply rd_step_nf.
    - apply rl_step_nf.
    - apply rf_step_nf.
    - apply ro_step_nf.
    - apply rm_step_nf.
    - apply rn_step_nf.
    - apply rz_step_nf.
    - apply re_step_nf.
    - apply rfs_step_nf.
  Qed.
End StepNf.

Theorem readers_at_nf te tm : forall f, readers_nf (readers_at te tm f) f.
Proof.
  induction f as [|f IH].
  - unfold readers_nf, lt8. repeat split; intros; lia.
  - cbn [readers_at]. apply step_readers_nf; [apply readers_at_ok|exact IH].
Qed.
(* the decoder model is total within its fuel: on EVERY input it returns a value or an error *)
Theorem decode_never_out_of_fuel te tm bs : decode te tm bs <> Fuel.
Proof.
  unfold decode. apply (proj1 (readers_at_nf te tm (decode_fuel bs))). unfold lt8, decode_fuel. lia.
Qed.
