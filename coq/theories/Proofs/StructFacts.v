(* Small structural facts about the encoder and decoder models used by C01, C04, C05, C06. *)
From Coq Require Import ZArith List Lia Bool.
From GH Require Import Base.GoSem Base.Result Base.FloatBits Base.TimeSem Base.Utf8 Gen.GoConsts Gen.GoLeaf
  Model.Scalars Model.Strings Spec.Grammar Model.Encoder Model.Decoder
  Proofs.IntProofs Proofs.LongProofs Proofs.KindProofs Proofs.DateProofs Proofs.FloatFacts Proofs.DoubleProofs
  Proofs.Utf8Proofs Proofs.BinaryProofs Proofs.StringProofs.
Import ListNotations.
Open Scope Z_scope.

(* ================= C04: reference ordinals ================= *)
(* encoder: a container registered when n others were is given ordinal n, and keeps it whatever
   is registered after it *)
Lemma rkind_eqb_refl k : rkind_eqb k k = true.
Proof. destruct k; reflexivity. Qed.
Lemma ref_find_miss_app refs a k more i : a <> 0 -> ref_find refs a k i = None ->
  ref_find (refs ++ (a, k) :: more) a k i = Some (i + Z.of_nat (length refs)).
Proof.
  intros Ha. revert i. induction refs as [|[b kb] r IH]; intros i H; cbn [ref_find app length] in *.
  - rewrite Z.eqb_refl, rkind_eqb_refl. replace (a =? 0) with false by lia. cbn. f_equal. lia.
  - destruct ((b =? a) && rkind_eqb k kb && negb (a =? 0)); [discriminate|]. rewrite (IH (i + 1) H). f_equal. lia.
Qed.
Theorem encoder_ordinal_is_registration_count st k a : a <> 0 -> ref_find (erefs st) a k 0 = None ->
  forall more, ref_find (erefs (snd (check_ref st k a)) ++ more) a k 0 = Some (Z.of_nat (length (erefs st))).
Proof.
  intros Ha Hm more. unfold check_ref. rewrite Hm. cbn [snd erefs]. rewrite <- app_assoc. cbn [app].
  rewrite (ref_find_miss_app _ _ _ _ 0 Ha Hm). reflexivity.
Qed.
Theorem encoder_second_occurrence_is_ref st k a i : ref_find (erefs st) a k 0 = Some i ->
  check_ref st k a = (Some i, st).
Proof. intros H. unfold check_ref. rewrite H. reflexivity. Qed.
(* a container of another kind at the same address neither hides nor is hidden by it *)
Theorem encoder_kinds_do_not_collide refs a k k' i : rkind_eqb k k' = false ->
  ref_find ((a, k') :: refs) a k i = ref_find refs a k (i + 1).
Proof. intros H. cbn [ref_find]. rewrite H, andb_false_r. reflexivity. Qed.

(* decoder: an object is registered - at the ordinal equal to the number of containers
   registered before it - BEFORE its fields are read, and a back-reference with that ordinal
   yields a pointer to that very cell *)
Lemma nth_z_app_new {A} (l : list A) x more : nth_z (l ++ x :: more) (Z.of_nat (length l)) = Some x.
Proof.
  unfold nth_z.
  assert (E : (Z.of_nat (length l) <? 0) || (Z.of_nat (length (l ++ x :: more)) <=? Z.of_nat (length l)) = false).
  { rewrite app_length. cbn [length]. apply orb_false_iff. split; [apply Z.ltb_ge|apply Z.leb_gt]; lia. }
  rewrite E. rewrite Nat2Z.id, nth_error_app2, Nat.sub_diag by lia. reflexivity.
Qed.
Theorem decoder_ref_hits_registered_object heap n fs more tys cls bs r :
  decode_int bs = Ok (Z.of_nat (length heap), r) ->
  read_ref {| dtypes := tys; dcls := cls; dheap := heap ++ RObj n fs :: more |} bs =
  Ok (DPtr (length heap) n, r, {| dtypes := tys; dcls := cls; dheap := heap ++ RObj n fs :: more |}).
Proof. intros H. unfold read_ref. rewrite H. cbn [bind dheap]. rewrite nth_z_app_new, Nat2Z.id. reflexivity. Qed.

(* ================= C05: binding by name ================= *)
Theorem find_field_sound fs w n t : find_field fs w = Some (n, t) -> In (n, t) fs /\ (n = w \/ n = capitalize_name w).
Proof.
  induction fs as [|[n0 t0] r IH]; cbn [find_field]; [discriminate|].
  destruct (name_eqb n0 w || name_eqb n0 (capitalize_name w)) eqn:E.
  - intros H; inversion H; subst. split; [left; reflexivity|].
    assert (NE : forall a b, name_eqb a b = true -> a = b).
    { induction a as [|x a IHa]; destruct b as [|y b]; cbn; try discriminate; [reflexivity|].
      intros H0. apply andb_true_iff in H0. destruct H0 as [H1 H2]. f_equal; [lia|apply IHa; exact H2]. }
    apply orb_true_iff in E. destruct E as [E|E]; [left|right]; apply NE; exact E.
  - intros H. destruct (IH H) as [I O]. split; [right; exact I|exact O].
Qed.
(* a wire field with no Go counterpart consumes exactly one value and changes nothing else *)
Theorem unknown_field_skips_one_value R g w ws acc st bs : find_field g w = None ->
  rfs_step R g (w :: ws) acc st bs = (do (x, st1) <- R_rd R st bs ;; R_rfs R g ws acc st1 (snd x)).
Proof. intros H. unfold rfs_step. rewrite H. reflexivity. Qed.
(* a known one is read with ITS Go type and stored under ITS Go name, wherever it stands *)
Theorem known_field_bound_by_name R g w ws acc st bs gn gt : find_field g w = Some (gn, gt) ->
  rfs_step R g (w :: ws) acc st bs =
  (do (x, st1) <- R_rf R gt st bs ;; let '(v, r) := x in R_rfs R g ws (assoc_set acc gn v) st1 r).
Proof. intros H. unfold rfs_step. rewrite H. reflexivity. Qed.

(* every instance is built from the definition its tag or index denotes *)
Theorem instance_uses_named_def tm R st i cname fnames n bs :
  nth_z (dcls st) i = Some (cname, fnames) -> tm_lookup tm cname = Some (TStruct n) ->
  object_at tm R i st bs = R_ro R n fnames st bs.
Proof. intros H1 H2. unfold object_at. rewrite H1, H2. reflexivity. Qed.
Theorem short_instance_tag_dispatch tm R st i r : 0 <= i <= 15 ->
  rd_step tm R st (96 + i :: r) = object_at tm R (wrap 8 (96 + i - g_objectLenTagMin)) st r /\ wrap 8 (96 + i - g_objectLenTagMin) = i.
Proof.
  intros H.
  assert (C : i = 0 \/ i = 1 \/ i = 2 \/ i = 3 \/ i = 4 \/ i = 5 \/ i = 6 \/ i = 7 \/ i = 8 \/ i = 9 \/ i = 10 \/ i = 11 \/ i = 12 \/ i = 13 \/ i = 14 \/ i = 15) by lia.
  destruct C as [->|[->|[->|[->|[->|[->|[->|[->|[->|[->|[->|[->|[->|[->|[->| ->]]]]]]]]]]]]]]]; split; reflexivity.
Qed.
Theorem long_instance_tag_dispatch tm R st r :
  rd_step tm R st (79 :: r) = (do (i, r') <- decode_int r ;; object_at tm R i st r').
Proof. reflexivity. Qed.
(* 'O' followed by the encoder's rendering of an index i >= 16 (or any int32) selects definition i *)
Corollary long_instance_selects tm R st i r : in_i32 i ->
  rd_step tm R st (79 :: gencodeInt i ++ r) = object_at tm R i st r.
Proof. intros H. rewrite long_instance_tag_dispatch, int_roundtrip by exact H. reflexivity. Qed.

(* ================= C01: scalars at a struct-field position of the decoder model ================= *)
(* readField on a scalar field first consumes class definitions (readScalarTag); none of the scalar
   readers accepts the definition tag, so whenever the field reader proper succeeds there was no
   definition to consume *)
Lemma rf_core_def_err te tm R t st r x : scalar_type t = true -> rf_core te tm R t st (67 :: r) <> Ok x.
Proof.
  intros S H. destruct t as [| k | | | | | | | | | | |]; try discriminate S; cbn [rf_core] in H.
  - vm_compute in H. discriminate H.
  - unfold dec_field_kind in H. destruct (kind_wire_int k); vm_compute in H; discriminate H.
  - vm_compute in H. discriminate H.
  - vm_compute in H. discriminate H.
  - vm_compute in H. discriminate H.
Qed.
Lemma rf_step_of_core te tm R t st bs x : rf_core te tm R t st bs = Ok x -> rf_step te tm R t st bs = Ok x.
Proof.
  intros H. unfold rf_step. destruct bs as [|tag r]; [exact H|].
  destruct (scalar_type t) eqn:S; [|exact H]. destruct (Z.eqb_spec tag g_objectDefTag) as [->|N]; [|exact H].
  exfalso. exact (rf_core_def_err _ _ _ _ _ _ _ S H).
Qed.
Theorem field_int_roundtrip te tm R k z st rest bs : in_kind k z -> enc_kind k z = Ok bs ->
  rf_step te tm R (TInt k) st (bs ++ rest) = Ok (DInt k z, rest, st).
Proof.
  intros Hk He. apply rf_step_of_core. unfold rf_core. pose proof (kind_field_exact_or_error k z rest Hk) as F. rewrite He in F. rewrite F. reflexivity.
Qed.
Theorem field_string_roundtrip te tm R rs st rest : Forall valid_rune rs ->
  rf_step te tm R TStr st (encode_string rs ++ rest) = Ok (DStr rs, rest, st).
Proof. intros H. apply rf_step_of_core. unfold rf_core. rewrite string_roundtrip by exact H. reflexivity. Qed.
Theorem field_double_roundtrip te tm R b st rest bs : in_f64 b -> gencodeDouble b = Ok bs ->
  exists d, rf_step te tm R TF64 st (bs ++ rest) = Ok (DF64 d, rest, st) /\ feq d b = true.
Proof.
  intros Hb He. destruct (double_roundtrip b rest bs Hb He) as (d & D & F). exists d. split; [|exact F].
  apply rf_step_of_core. unfold rf_core. rewrite D. reflexivity.
Qed.
Theorem field_bool_roundtrip te tm R (b : bool) st rest :
  rf_step te tm R TBool st ((if b then g_boolTrueTag else g_boolFalseTag) :: rest) = Ok (DBool b, rest, st).
Proof. destruct b; reflexivity. Qed.
