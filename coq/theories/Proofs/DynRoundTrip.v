(* C01 for dynamic ("JSON-like") data at interface-typed positions - the top level of ToObject,
   the elements of []interface{}, the keys and values of map[interface{}]interface{}: nil,
   booleans, integers of every kind, floats, strings, byte slices, untyped lists and untyped maps of
   such data, nested to any depth.  The bytes-free half of the round trip: whatever abstract value
   such a Go value denotes (`den`, C02), its meaning under the decoder's semantics (`sv`, C03) is
   the value itself in its canonical dynamic form (`jr`): integers as int32 / int64 by wire type,
   float32 widened, an untyped list as []interface{}, an untyped map as
   map[interface{}]interface{} with later equal keys replacing earlier ones.
   Composed with Props/C01abstract.v this is ToObject(ToBytes(v)) = v for this fragment.

   Lists and maps here are anonymous (address 0: not shared with any other position). *)
From Coq Require Import ZArith List Lia Bool.
From GH Require Import Base.GoSem Base.Result Base.FloatBits Base.TimeSem Base.Utf8 Gen.GoConsts Gen.GoLeaf
  Model.Scalars Model.Strings Spec.Grammar Model.Encoder Model.Decoder
  Proofs.EncoderFacts Proofs.EncSpec Proofs.DecRefines.
Import ListNotations.
Open Scope Z_scope.

Section Dyn.
  Variable nm : namemap.
  Variable F : name -> list name.
  Variables (te : tenv) (tm : typmap).

  (* the canonical dynamic form of a value *)
  Inductive jr : gval -> dval -> Prop :=
  | jr_nil : jr VNil DNil
  | jr_bool b : jr (VBool b) (DBool b)
  | jr_int k z : kind_wire_int k = true -> jr (VInt k z) (DInt KInt32 (swrap 32 z))
  | jr_long k z : kind_wire_int k = false -> jr (VInt k z) (DInt KInt64 (swrap 64 z))
  | jr_f32 b d : feq d (widen b) = true -> jr (VF32 b) (DF64 d)
  | jr_f64 b d : feq d b = true -> jr (VF64 b) (DF64 d)
  | jr_str rs : jr (VStr rs) (DStr rs)
  | jr_bytes bs : jr (VBytes bs) (DBytes bs)
  | jr_list ty l ds : list_type nm ty = None -> Forall2 jr l ds -> jr (VSlice 0 ty l) (DSlice TIface ds)
  | jr_map_empty ty : jr (VMap 0 ty []) DNil
  | jr_map ty e es out : nm_lookup nm ty = None -> jes [] (e :: es) out -> jr (VMap 0 ty (e :: es)) (DMapV TIface TIface out)
  with jes : list (dval * dval) -> list (gval * gval) -> list (dval * dval) -> Prop :=
  | jes_nil acc : jes acc [] acc
  | jes_cons acc k x es dk dx out : jr k dk -> jr x dx -> hashable dk = true ->
      jes (entries_put acc dk dx) es out -> jes acc ((k, x) :: es) out.

  (* the shape: dynamic data, anonymous untyped containers, hashable keys *)
  Definition jkey (k : gval) : Prop :=
    match k with VNil | VBool _ | VInt _ _ | VF32 _ | VF64 _ | VStr _ => True | _ => False end.
  Inductive jv : gval -> Prop :=
  | jv_nil : jv VNil | jv_bool b : jv (VBool b) | jv_int k z : jv (VInt k z)
  | jv_f32 b : jv (VF32 b) | jv_f64 b : jv (VF64 b) | jv_str rs : jv (VStr rs) | jv_bytes bs : jv (VBytes bs)
  | jv_list ty l : list_type nm ty = None -> Forall jv l -> jv (VSlice 0 ty l)
  | jv_map ty es : nm_lookup nm ty = None -> Forall (fun e => jv (fst e) /\ jkey (fst e) /\ jv (snd e)) es -> jv (VMap 0 ty es).

  Lemma jr_key_hashable k d : jkey k -> jr k d -> hashable d = true.
  Proof. intros K J. inversion J; subst; cbn in K; try contradiction; reflexivity. Qed.

  Scheme den_mind2 := Induction for den Sort Prop
    with den_list_mind2 := Induction for den_list Sort Prop
    with den_entries_mind2 := Induction for den_entries Sort Prop.

  (* the meaning of what a dynamic value denotes is its canonical dynamic form *)
  Theorem dynamic_meaning : forall refs v hv refs', den nm F refs v hv refs' -> jv v ->
    forall h, exists d h', jr v d /\ sv te tm hv h d h'.
  Proof.
    apply (den_mind2 nm F
      (fun refs v hv refs' (_ : den nm F refs v hv refs') => jv v -> forall h, exists d h', jr v d /\ sv te tm hv h d h')
      (fun refs l hs refs' (_ : den_list nm F refs l hs refs') =>
         Forall jv l -> forall h, exists ds h', Forall2 jr l ds /\ sn te tm TIface hs h ds h')
      (fun refs l hes refs' (_ : den_entries nm F refs l hes refs') =>
         Forall (fun e => jv (fst e) /\ jkey (fst e) /\ jv (snd e)) l ->
         forall acc h, exists out h', jes acc l out /\ se te tm TIface TIface acc hes h out h'));
      intros.
    all: try (match goal with J : jv _ |- _ => inversion J; subst end; fail).
    all: try solve [eexists; eexists; split; [econstructor; eassumption|econstructor]].
    - (* slice ref: an anonymous list is never found in the table *)
      match goal with J : jv _ |- _ => inversion J; subst end.
      match goal with E : ref_find _ _ _ _ = Some _ |- _ => destruct (length l =? 0)%nat; rewrite ref_find_zero in E; discriminate E end.
    - (* slice *) match goal with J : jv _ |- _ => inversion J; subst end.
      match goal with IH : Forall jv l -> _, A : Forall jv l |- _ => destruct (IH A (h ++ [RList None])) as (ds & h2 & J2 & S2) end.
      eexists; eexists. split; [apply jr_list; eassumption|].
      apply sv_list. match goal with A : list_type nm ty = None |- _ => rewrite A end. apply slist_untyped. exact S2.
    - (* empty map *) eexists; eexists. split; [match goal with J : jv _ |- _ => inversion J; subst end; apply jr_map_empty|constructor].
    - (* map ref *) match goal with J : jv _ |- _ => inversion J; subst end.
      match goal with E : ref_find _ _ _ _ = Some _ |- _ => rewrite ref_find_zero in E; discriminate E end.
    - (* map *) match goal with J : jv _ |- _ => inversion J; subst end.
      match goal with IH : Forall _ (e :: es) -> _, A : Forall _ (e :: es) |- _ =>
        destruct (IH A [] (h ++ [Decoder.RMap None])) as (out & h2 & J2 & S2) end.
      eexists; eexists. split; [apply jr_map; eassumption|].
      match goal with A : nm_lookup nm ty = None |- _ => rewrite A end. apply sv_map_untyped. constructor. exact S2.
    - (* list cons *) match goal with A : Forall jv (_ :: _) |- _ => inversion A; subst end.
      match goal with IH : jv x -> _, J : jv x |- _ => destruct (IH J h0) as (d1 & h1 & J1 & S1) end.
      match goal with IH : Forall jv r -> _, A : Forall jv r |- _ => destruct (IH A h1) as (ds & h2 & J2 & S2) end.
      eexists; eexists. split; [constructor; eassumption|]. eapply sn_cons; [exact S1|reflexivity|exact S2].
    - (* entries cons *) match goal with A : Forall _ (_ :: _) |- _ => inversion A as [|? ? (Jk & Kk & Jx) Ar]; subst end. cbn [fst snd] in *.
      match goal with |- exists out h', _ /\ se _ _ _ _ ?ac _ ?hp _ _ => rename hp into hh; rename ac into acc0 end.
      match goal with IH : jv k -> _ |- _ => destruct (IH Jk hh) as (dk & h1 & J1 & S1) end.
      match goal with IH : jv x -> _ |- _ => destruct (IH Jx h1) as (dx & h2 & J2 & S2) end.
      pose proof (jr_key_hashable _ _ Kk J1) as Hh.
      match goal with IH : Forall _ r -> _ |- _ => destruct (IH Ar (entries_put acc0 dk dx) h2) as (out & h3 & J3 & S3) end.
      eexists; eexists. split; [econstructor; eassumption|].
      eapply se_cons; [exact S1|exact S2|reflexivity|reflexivity|exact Hh|exact S3].
  Qed.
End Dyn.
