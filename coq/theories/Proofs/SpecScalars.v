(* The scalar encoders against the reference parser of Spec/Grammar.v: what the encoder writes
   for a scalar is, under the independent reading of the grammar, that scalar (C02, scalar part). *)
From Coq Require Import ZArith List Lia Bool.
From GH Require Import Base.GoSem Base.Result Base.FloatBits Base.TimeSem Base.Utf8 Gen.GoConsts Gen.GoLeaf
  Model.Scalars Model.Strings Spec.Grammar
  Proofs.IntProofs Proofs.LongProofs Proofs.DateProofs Proofs.FloatFacts Proofs.DoubleProofs Proofs.Utf8Proofs Proofs.BinaryProofs Proofs.StringProofs.
Import ListNotations.
Open Scope Z_scope.
Ltac Zify.zify_post_hook ::= Z.div_mod_to_equations.
Arguments Z.add : simpl never. Arguments Z.sub : simpl never. Arguments Z.mul : simpl never.
Arguments Z.leb : simpl never. Arguments Z.eqb : simpl never. Arguments Z.ltb : simpl never.
Arguments Z.to_nat : simpl never. Arguments Z.of_nat : simpl never. Arguments Z.pow : simpl never.

Lemma need1 b r : need 1 (b :: r) = Ok ([b], r). Proof. reflexivity. Qed.
Lemma need2 a b r : need 2 (a :: b :: r) = Ok ([a; b], r). Proof. reflexivity. Qed.
Lemma need4 a b c d r : need 4 (a :: b :: c :: d :: r) = Ok ([a; b; c; d], r). Proof. reflexivity. Qed.
Lemma need8 a b c d e f g h r : need 8 (a :: b :: c :: d :: e :: f :: g :: h :: r) = Ok ([a; b; c; d; e; f; g; h], r).
Proof. reflexivity. Qed.

(* ---------------- int ---------------- *)
Theorem int_denotes v r : in_i32 v ->
  exists t tl, gencodeInt v = t :: tl /\ is_int_tag t = true /\ parse_int t (tl ++ r) = Ok (v, r).
Proof.
  unfold in_i32. intros Hr. unfold gencodeInt. iconsts. rewrite ?shr8, ?shr16, ?shr24, ?wrap8_mod.
  destruct (((-16) <=? v) && (v <=? 47)) eqn:E1.
  { rewrite swrap32_id by (unfold in_i32; lia). replace ((144 + v) mod 256) with (144 + v) by lia.
    eexists; eexists; split; [reflexivity|]. unfold is_int_tag, parse_int, rng. cbn [app].
    replace ((128 <=? 144 + v) && (144 + v <=? 191)) with true by lia. split; [reflexivity|]. do 2 f_equal. lia. }
  destruct (((-2048) <=? v) && (v <=? 2047)) eqn:E2.
  { rewrite swrap32_id by (unfold in_i32; lia). replace ((200 + v / 256) mod 256) with (200 + v / 256) by lia.
    eexists; eexists; split; [reflexivity|]. unfold is_int_tag, parse_int, rng. cbn [app].
    replace ((128 <=? 200 + v / 256) && (200 + v / 256 <=? 191)) with false by lia.
    replace ((192 <=? 200 + v / 256) && (200 + v / 256 <=? 207)) with true by lia. split; [reflexivity|].
    rewrite need1. cbn [bind]. unfold be_val. cbn [fold_left]. do 2 f_equal. lia. }
  destruct (((-262144) <=? v) && (v <=? 262143)) eqn:E3.
  { rewrite swrap32_id by (unfold in_i32; lia). replace ((212 + v / 65536) mod 256) with (212 + v / 65536) by lia.
    eexists; eexists; split; [reflexivity|]. unfold is_int_tag, parse_int, rng. cbn [app].
    replace ((128 <=? 212 + v / 65536) && (212 + v / 65536 <=? 191)) with false by lia.
    replace ((192 <=? 212 + v / 65536) && (212 + v / 65536 <=? 207)) with false by lia.
    replace ((208 <=? 212 + v / 65536) && (212 + v / 65536 <=? 215)) with true by lia. split; [reflexivity|].
    rewrite need2. cbn [bind]. unfold be_val. cbn [fold_left]. do 2 f_equal. lia. }
  { eexists; eexists; split; [reflexivity|]. split; [reflexivity|]. unfold parse_int, rng. cbn [app].
    change ((128 <=? 73) && (73 <=? 191)) with false. change ((192 <=? 73) && (73 <=? 207)) with false.
    change ((208 <=? 73) && (73 <=? 215)) with false. change (73 =? 73) with true. cbv iota.
    rewrite need4. cbn [bind]. unfold sbe, be_val. cbn [fold_left]. change (2 ^ (8 * 4 - 1)) with 2147483648. change (2 ^ (8 * 4)) with 4294967296.
    do 2 f_equal.
    destruct ((((0 * 256 + (v / 16777216) mod 256) * 256 + (v / 65536) mod 256) * 256 + (v / 256) mod 256) * 256 + v mod 256 <? 2147483648) eqn:E4; lia. }
Qed.

(* ---------------- long ---------------- *)
Lemma sbe8_of_value v : in_i64 v ->
  sbe 8 [wrap 8 (Z.shiftr v 56); wrap 8 (Z.shiftr v 48); wrap 8 (Z.shiftr v 40); wrap 8 (Z.shiftr v 32);
         wrap 8 (Z.shiftr v 24); wrap 8 (Z.shiftr v 16); wrap 8 (Z.shiftr v 8); wrap 8 v] = v.
Proof.
  intros H. unfold sbe. rewrite be8_of_value. change (2 ^ (8 * 8 - 1)) with 9223372036854775808. change (2 ^ (8 * 8)) with 18446744073709551616.
  unfold in_i64 in H.
  set (m := v mod 18446744073709551616).
  assert (Hm : m = if v <? 0 then v + 18446744073709551616 else v).
  { unfold m. destruct (v <? 0) eqn:Ev.
    - symmetry. apply Z.mod_unique_pos with (q := -1); lia.
    - symmetry. apply Z.mod_unique_pos with (q := 0); lia. }
  clearbody m. destruct (v <? 0) eqn:Ev; subst m; destruct (_ <? 9223372036854775808) eqn:E; lia.
Qed.
Lemma sbe4_of_value v : in_i32 v ->
  sbe 4 [wrap 8 (Z.shiftr v 24); wrap 8 (Z.shiftr v 16); wrap 8 (Z.shiftr v 8); wrap 8 v] = v.
Proof.
  unfold in_i32. intros H. rewrite shr8, shr16, shr24, !wrap8_mod. unfold sbe, be_val. cbn [fold_left].
  change (2 ^ (8 * 4 - 1)) with 2147483648. change (2 ^ (8 * 4)) with 4294967296.
  destruct (_ <? 2147483648) eqn:E; lia.
Qed.

Theorem long_denotes v r : in_i64 v ->
  exists t tl, gencodeLong v = t :: tl /\ is_int_tag t = false /\ is_long_tag t = true /\ parse_long t (tl ++ r) = Ok (v, r).
Proof.
  unfold in_i64. intros Hr. unfold gencodeLong. lconsts.
  destruct (((-8) <=? v) && (v <=? 15)) eqn:E1.
  { rewrite swrap64_id by (unfold in_i64; lia). rewrite wrap8_mod. replace ((224 + v) mod 256) with (224 + v) by lia.
    eexists; eexists; split; [reflexivity|]. unfold is_int_tag, is_long_tag, parse_long, rng. cbn [app].
    replace ((216 <=? 224 + v) && (224 + v <=? 239)) with true by lia.
    split; [lia|]. split; [reflexivity|]. do 2 f_equal. lia. }
  destruct (((-2048) <=? v) && (v <=? 2047)) eqn:E2.
  { rewrite shr8. rewrite swrap64_id by (unfold in_i64; lia). rewrite !wrap8_mod. replace ((248 + v / 256) mod 256) with (248 + v / 256) by lia.
    eexists; eexists; split; [reflexivity|]. unfold is_int_tag, is_long_tag, parse_long, rng. cbn [app].
    replace ((216 <=? 248 + v / 256) && (248 + v / 256 <=? 239)) with false by lia.
    replace ((240 <=? 248 + v / 256) && (248 + v / 256 <=? 255)) with true by lia.
    split; [lia|]. split; [reflexivity|]. rewrite need1. cbn [bind]. unfold be_val. cbn [fold_left]. do 2 f_equal. lia. }
  destruct (((-262144) <=? v) && (v <=? 262143)) eqn:E3.
  { rewrite shr8, shr16. rewrite swrap64_id by (unfold in_i64; lia). rewrite !wrap8_mod. replace ((60 + v / 65536) mod 256) with (60 + v / 65536) by lia.
    eexists; eexists; split; [reflexivity|]. unfold is_int_tag, is_long_tag, parse_long, rng. cbn [app].
    replace ((216 <=? 60 + v / 65536) && (60 + v / 65536 <=? 239)) with false by lia.
    replace ((240 <=? 60 + v / 65536) && (60 + v / 65536 <=? 255)) with false by lia.
    replace ((56 <=? 60 + v / 65536) && (60 + v / 65536 <=? 63)) with true by lia.
    split; [lia|]. split; [rewrite ?orb_true_r; reflexivity|]. rewrite need2. cbn [bind]. unfold be_val. cbn [fold_left]. do 2 f_equal. lia. }
  destruct (((-2147483648) <=? v) && (v <=? 2147483647)) eqn:E4.
  { eexists; eexists; split; [reflexivity|]. split; [reflexivity|]. split; [reflexivity|]. unfold parse_long, rng. cbn [app].
    change ((216 <=? 89) && (89 <=? 239)) with false. change ((240 <=? 89) && (89 <=? 255)) with false.
    change ((56 <=? 89) && (89 <=? 63)) with false. change (89 =? 89) with true. cbv iota.
    rewrite need4. cbn [bind]. rewrite sbe4_of_value by (unfold in_i32; lia). reflexivity. }
  { eexists; eexists; split; [reflexivity|]. split; [reflexivity|]. split; [reflexivity|]. unfold parse_long, rng. cbn [app].
    change ((216 <=? 76) && (76 <=? 239)) with false. change ((240 <=? 76) && (76 <=? 255)) with false.
    change ((56 <=? 76) && (76 <=? 63)) with false. change (76 =? 89) with false. change (76 =? 76) with true. cbv iota.
    rewrite need8. cbn [bind]. rewrite sbe8_of_value by (unfold in_i64; lia). reflexivity. }
Qed.

(* ---------------- double ---------------- *)
Lemma sbe1_small iv : -128 <= iv <= 127 -> sbe 1 [wrap 8 (swrap 8 iv)] = iv.
Proof.
  intros H. unfold sbe, be_val. cbn [fold_left]. rewrite swrap8_def, wrap8_mod.
  change (2 ^ (8 * 1 - 1)) with 128. change (2 ^ (8 * 1)) with 256. destruct (_ <? 128) eqn:E; lia.
Qed.
Lemma sbe2_small iv : -32768 <= iv <= 32767 -> sbe 2 [wrap 8 (Z.shiftr iv 8); wrap 8 iv] = iv.
Proof.
  intros H. unfold sbe, be_val. cbn [fold_left]. rewrite shr8, !wrap8_mod.
  change (2 ^ (8 * 2 - 1)) with 32768. change (2 ^ (8 * 2)) with 65536. destruct (_ <? 32768) eqn:E; lia.
Qed.

Theorem double_denotes b bs r : in_f64 b -> gencodeDouble b = Ok bs ->
  exists t tl d, bs = t :: tl /\ is_int_tag t = false /\ is_long_tag t = false /\ is_double_tag t = true /\
                 parse_double t (tl ++ r) = Ok (d, r) /\ feq d b = true.
Proof.
  intros Hb. rewrite gencodeDouble_unfold. cbv zeta.
  assert (Tail : forall bs, enc_tail b = Ok bs -> exists t tl d, bs = t :: tl /\ is_int_tag t = false /\ is_long_tag t = false /\ is_double_tag t = true /\
                 parse_double t (tl ++ r) = Ok (d, r) /\ feq d b = true).
  { clear bs. intros bs. unfold enc_tail.
    destruct (f64_eq (widen (narrow b)) b) eqn:G; intros E; inversion E; subst bs; clear E.
    - unfold enc_f32_form. eexists; eexists; exists (widen (narrow b)). split; [reflexivity|].
      split; [reflexivity|]. split; [reflexivity|]. split; [reflexivity|]. split; [|apply f64_eq_feq; exact G].
      unfold parse_double. change (95 =? 91) with false. change (95 =? 92) with false. change (95 =? 93) with false.
      change (95 =? 94) with false. change (95 =? 95) with true. cbv iota. cbn [app]. rewrite need4. cbn [bind].
      pose proof (narrow_range b Hb) as R. unfold in_f32, p32 in R. rewrite be4_of_u32 by exact R. reflexivity.
    - unfold enc_f64_form. cbv zeta. eexists; eexists; exists b. split; [reflexivity|].
      split; [reflexivity|]. split; [reflexivity|]. split; [reflexivity|]. split; [|apply feq_refl].
      unfold parse_double. change (68 =? 91) with false. change (68 =? 92) with false. change (68 =? 93) with false.
      change (68 =? 94) with false. change (68 =? 95) with false. change (68 =? 68) with true. cbv iota. cbn [app]. rewrite need8. cbn [bind].
      rewrite be8_of_value. unfold in_f64, p64 in Hb. rewrite wrap64_mod, Z.mod_mod by lia. rewrite Z.mod_small by lia. reflexivity. }
  destruct (f64_eq (of_int64 (trunc64 b)) b) eqn:G; [|apply Tail].
  set (iv := trunc64 b) in *.
  destruct (iv =? 0) eqn:E0.
  { intros E; inversion E; subst bs. eexists; eexists; exists (of_int64 0). repeat (split; [reflexivity|]).
    apply f64_eq_feq. replace 0 with iv by lia. exact G. }
  destruct (iv =? 1) eqn:E1.
  { intros E; inversion E; subst bs. eexists; eexists; exists (of_int64 1). repeat (split; [reflexivity|]).
    apply f64_eq_feq. replace 1 with iv by lia. exact G. }
  destruct ((-128 <=? iv) && (iv <=? 127)) eqn:E2.
  { intros E; inversion E; subst bs. eexists; eexists; exists (of_int64 iv). repeat (split; [reflexivity|]).
    split; [|apply f64_eq_feq; exact G]. unfold parse_double.
    change (93 =? 91) with false. change (93 =? 92) with false. change (93 =? 93) with true. cbv iota. cbn [app].
    rewrite need1. cbn [bind]. rewrite sbe1_small by lia. reflexivity. }
  destruct ((-32768 <=? iv) && (iv <=? 32767)) eqn:E3; [|apply Tail].
  intros E; inversion E; subst bs. eexists; eexists; exists (of_int64 iv). repeat (split; [reflexivity|]).
  split; [|apply f64_eq_feq; exact G]. unfold parse_double.
  change (94 =? 91) with false. change (94 =? 92) with false. change (94 =? 93) with false. change (94 =? 94) with true. cbv iota. cbn [app].
  rewrite need2. cbn [bind]. rewrite sbe2_small by lia. reflexivity.
Qed.

(* ---------------- date ---------------- *)
(* what the reference parser reads for the encoder's rendering of an instant.  In the
   millisecond form it is the instant (floor ms); in the compact form the implementation writes
   SECONDS where the grammar defines MINUTES, so a peer reads sec * 60000 ms (known finding C02-F1) *)
Definition date_ms (sec nsec : Z) : Z := sec * 1000 + nsec / 1000000.
Definition date_compact (sec nsec : Z) : bool :=
  negb (negb (nsec =? 0) || (sec <? -2147483648) || (2147483647 <? sec)).

Theorem date_denotes sec nsec r :
  year_ok sec -> 0 <= nsec < 1000000000 -> time_is_zero sec nsec = false ->
  exists t tl, gencodeDate sec nsec = t :: tl /\ is_date_tag t = true /\
    parse_date t (tl ++ r) = Ok ((if date_compact sec nsec then sec * 60000 else date_ms sec nsec), r).
Proof.
  unfold year_ok, date_compact, date_ms. intros Hy Hn Hz. unfold gencodeDate. rewrite Hz.
  destruct (negb (nsec =? 0) || (sec <? -2147483648) || (2147483647 <? sec)) eqn:E; cbn [negb]; cbv zeta.
  - assert (Hq : Z.quot nsec 1000000 = nsec / 1000000) by (apply Z.quot_div_nonneg; lia).
    rewrite Hq.
    rewrite (swrap64_id (nsec / 1000000)) by (unfold in_i64; lia).
    rewrite (swrap64_id (nsec / 1000000)) by (unfold in_i64; lia).
    rewrite (swrap64_id (sec * 1000)) by (unfold in_i64; lia).
    rewrite (swrap64_id (sec * 1000 + nsec / 1000000)) by (unfold in_i64; lia).
    eexists; eexists; split; [reflexivity|]. split; [reflexivity|]. unfold parse_date.
    change (74 =? 74) with true. cbv iota. cbn [app]. rewrite need8. cbn [bind].
    rewrite sbe8_of_value by (unfold in_i64; lia). reflexivity.
  - assert (Hn0 : nsec = 0) by lia. subst nsec.
    eexists; eexists; split; [reflexivity|]. split; [reflexivity|]. unfold parse_date.
    change (75 =? 74) with false. change (75 =? 75) with true. cbv iota. cbn [app]. rewrite need4. cbn [bind].
    rewrite sbe4_of_value by (unfold in_i32; lia). reflexivity.
Qed.

(* the compact form denotes another instant than the one encoded: the known finding, as a theorem *)
Theorem date_compact_refuted :
  exists sec, year_ok sec /\ date_compact sec 0 = true /\ sec * 60000 <> date_ms sec 0.
Proof. exists 60. unfold year_ok, date_compact, date_ms. repeat split; try lia; vm_compute; congruence. Qed.

(* ---------------- string ---------------- *)
Lemma utf8_strict_roundtrip r rest : valid_rune r -> utf8_dec_strict (utf8_enc r ++ rest) = Some (r, rest).
Proof.
  intros Hv. unfold utf8_dec_strict. rewrite utf8_roundtrip by exact Hv.
  destruct (r =? rune_error) eqn:E; [|reflexivity].
  assert (r = 65533) by (unfold rune_error in E; lia). subst r. reflexivity.
Qed.
Lemma runes_n_app rs : Forall valid_rune rs -> forall rest, runes_n (length rs) (utf8_encs rs ++ rest) = Ok (rs, rest).
Proof.
  induction 1 as [|r rs Hr Hrs IH]; intros rest; [reflexivity|].
  cbn [length runes_n utf8_encs flat_map]. rewrite <- app_assoc.
  rewrite utf8_strict_roundtrip by exact Hr. fold (utf8_encs rs). rewrite IH. reflexivity.
Qed.

Definition spec_str_decodes (enc : bytes) (rs : list Z) (rest : bytes) : Prop :=
  exists t tl, enc = t :: tl /\ is_string_tag t = true /\
    forall fuel, (length rs < fuel)%nat -> parse_string fuel t (tl ++ rest) = Ok (rs, rest).

Lemma spec_str_final rs rest : Forall valid_rune rs -> zlen rs <= 2048 -> spec_str_decodes (enc_str_final rs) rs rest.
Proof.
  intros Hv Hn. unfold spec_str_decodes, enc_str_final. cbv zeta. sconsts.
  pose proof (Zle_0_nat (length rs)) as Hp. fold (zlen rs) in Hp.
  destruct (zlen rs <=? 31) eqn:E.
  - rewrite wrap8_id by lia. replace (0 + zlen rs) with (zlen rs) by lia.
    eexists; eexists; split; [reflexivity|]. split; [unfold is_string_tag, rng; lia|].
    intros fuel Hf. destruct fuel as [|f]; [lia|]. cbn [parse_string]. unfold string_chunk_hdr, rng.
    replace ((0 <=? zlen rs) && (zlen rs <=? 31)) with true by lia. cbn [bind].
    rewrite zlen_nat, runes_n_app by exact Hv. reflexivity.
  - destruct (zlen rs <=? 1023) eqn:E2.
    + rewrite shr8. assert (Hh : 0 <= zlen rs / 256 <= 3) by lia.
      rewrite (wrap8_id (zlen rs / 256 + 48)) by lia.
      eexists; eexists; split; [reflexivity|]. split; [unfold is_string_tag, rng; lia|].
      intros fuel Hf. destruct fuel as [|f]; [lia|]. cbn [parse_string]. unfold string_chunk_hdr, rng.
      replace ((0 <=? zlen rs / 256 + 48) && (zlen rs / 256 + 48 <=? 31)) with false by lia.
      replace ((48 <=? zlen rs / 256 + 48) && (zlen rs / 256 + 48 <=? 51)) with true by lia.
      cbn [app]. rewrite need1. cbn [bind]. unfold be_val. cbn [fold_left]. rewrite wrap8_mod.
      replace ((zlen rs / 256 + 48 - 48) * 256 + (0 * 256 + zlen rs mod 256)) with (zlen rs) by lia.
      rewrite zlen_nat, runes_n_app by exact Hv. reflexivity.
    + eexists; eexists; split; [reflexivity|]. split; [reflexivity|].
      intros fuel Hf. destruct fuel as [|f]; [lia|]. cbn [parse_string]. unfold string_chunk_hdr, rng.
      change ((0 <=? 83) && (83 <=? 31)) with false. change ((48 <=? 83) && (83 <=? 51)) with false. change (83 =? 83) with true. cbv iota.
      cbn [app]. rewrite need2. cbn [bind]. rewrite be2_val by lia.
      rewrite zlen_nat, runes_n_app by exact Hv. reflexivity.
Qed.

Lemma spec_str_chunks : forall fuel rs rest, Forall valid_rune rs -> (length rs <= fuel)%nat ->
  spec_str_decodes (enc_str_chunks fuel rs) rs rest.
Proof.
  induction fuel as [|f IH]; intros rs rest Hv Hl.
  - cbn [enc_str_chunks]. apply spec_str_final; [exact Hv|unfold zlen; lia].
  - cbn [enc_str_chunks]. sconsts.
    destruct (2048 <? zlen rs) eqn:E; [|apply spec_str_final; [exact Hv|lia]].
    assert (Hlen : (Z.to_nat 2048 <= length rs)%nat) by (unfold zlen in E; lia).
    set (K := Z.to_nat 2048) in *.
    assert (Hfl : length (firstn K rs) = K) by (apply firstn_length_le; exact Hlen).
    assert (Hsl : length (skipn K rs) = (length rs - K)%nat) by apply skipn_length.
    assert (HK : (1 <= K)%nat) by (unfold K; lia).
    assert (Hv1 : Forall valid_rune (firstn K rs)).
    { rewrite <- (firstn_skipn K rs) in Hv. apply Forall_app in Hv. apply Hv. }
    assert (Hv2 : Forall valid_rune (skipn K rs)).
    { rewrite <- (firstn_skipn K rs) in Hv. apply Forall_app in Hv. apply Hv. }
    destruct (IH (skipn K rs) rest Hv2 ltac:(lia)) as (t' & tl' & E1 & T1 & D1).
    unfold spec_str_decodes.
    eexists; eexists; split; [reflexivity|]. split; [reflexivity|].
    intros fuel2 Hf. destruct fuel2 as [|f2]; [lia|]. cbn [parse_string]. unfold string_chunk_hdr, rng.
    change ((0 <=? 82) && (82 <=? 31)) with false. change ((48 <=? 82) && (82 <=? 51)) with false.
    change (82 =? 83) with false. change (82 =? 82) with true. cbv iota.
    change (wrap 8 (Z.shiftr 2048 8)) with 8. change (wrap 8 2048) with 0.
    cbn [app]. rewrite need2. cbn [bind]. change (be_val [8; 0]) with 2048. fold K.
    rewrite <- Hfl at 1. rewrite <- app_assoc, runes_n_app by exact Hv1. cbn [bind].
    rewrite E1. cbn [app]. rewrite D1 by lia. cbn [bind]. rewrite firstn_skipn. reflexivity.
Qed.

Theorem string_denotes rs rest : Forall valid_rune rs ->
  exists t tl, encode_string rs = t :: tl /\ is_string_tag t = true /\
    forall fuel, (length rs < fuel)%nat -> parse_string fuel t (tl ++ rest) = Ok (rs, rest).
Proof.
  intros Hv. destruct rs as [|r rs'] eqn:Ers.
  - eexists; eexists; split; [reflexivity|]. split; [reflexivity|].
    intros fuel Hf. destruct fuel as [|f]; [cbn in Hf; lia|]. reflexivity.
  - rewrite <- Ers in *.
    replace (encode_string rs) with (enc_str_chunks (length rs) rs) by (subst rs; reflexivity).
    apply (spec_str_chunks (length rs) rs rest Hv). lia.
Qed.

(* ---------------- binary ---------------- *)
Lemma need_app (x y : bytes) : need (length x) (x ++ y) = Ok (x, y).
Proof.
  unfold need. assert (H : take_n (length x) (x ++ y) = Some (x, y)).
  { induction x as [|a x IH]; [reflexivity|]. cbn [length take_n app]. rewrite IH. reflexivity. }
  rewrite H. reflexivity.
Qed.

Definition spec_bin_decodes (enc : bytes) (bs rest : bytes) : Prop :=
  exists t tl, enc = t :: tl /\ is_binary_tag t = true /\
    forall fuel, (length bs < fuel)%nat -> parse_binary fuel t (tl ++ rest) = Ok (bs, rest).

Lemma spec_bin_final bs rest : zlen bs <= 4096 -> spec_bin_decodes (enc_bin_final bs) bs rest.
Proof.
  intros Hn. unfold spec_bin_decodes, enc_bin_final. cbv zeta. bconsts.
  pose proof (Zle_0_nat (length bs)) as Hp. fold (zlen bs) in Hp.
  destruct (zlen bs <=? 15) eqn:E.
  - rewrite wrap8_id by lia.
    eexists; eexists; split; [reflexivity|]. split; [unfold is_binary_tag, rng; lia|].
    intros fuel Hf. destruct fuel as [|f]; [lia|]. cbn [parse_binary]. unfold binary_chunk_hdr, rng.
    replace ((32 <=? 32 + zlen bs) && (32 + zlen bs <=? 47)) with true by lia. cbn [bind].
    replace (32 + zlen bs - 32) with (zlen bs) by lia. rewrite zlen_nat, need_app. reflexivity.
  - eexists; eexists; split; [reflexivity|]. split; [reflexivity|].
    intros fuel Hf. destruct fuel as [|f]; [lia|]. cbn [parse_binary]. unfold binary_chunk_hdr, rng.
    change ((32 <=? 66) && (66 <=? 47)) with false. change ((52 <=? 66) && (66 <=? 55)) with false. change (66 =? 66) with true. cbv iota.
    cbn [app]. rewrite need2. cbn [bind]. rewrite be2_val by lia. rewrite zlen_nat, need_app. reflexivity.
Qed.

Lemma spec_bin_chunks : forall fuel bs rest, (length bs <= fuel)%nat -> spec_bin_decodes (enc_bin_chunks fuel bs) bs rest.
Proof.
  induction fuel as [|f IH]; intros bs rest Hl.
  - cbn [enc_bin_chunks]. apply spec_bin_final. unfold zlen; lia.
  - cbn [enc_bin_chunks]. bconsts.
    destruct (4096 <? zlen bs) eqn:E; [|apply spec_bin_final; lia].
    assert (Hlen : (Z.to_nat 4096 <= length bs)%nat) by (unfold zlen in E; lia).
    set (K := Z.to_nat 4096) in *.
    assert (Hfl : length (firstn K bs) = K) by (apply firstn_length_le; exact Hlen).
    assert (Hsl : length (skipn K bs) = (length bs - K)%nat) by apply skipn_length.
    assert (HK : (1 <= K)%nat) by (unfold K; lia).
    destruct (IH (skipn K bs) rest ltac:(lia)) as (t' & tl' & E1 & T1 & D1).
    unfold spec_bin_decodes.
    eexists; eexists; split; [reflexivity|]. split; [reflexivity|].
    intros fuel2 Hf. destruct fuel2 as [|f2]; [lia|]. cbn [parse_binary]. unfold binary_chunk_hdr, rng.
    change ((32 <=? 65) && (65 <=? 47)) with false. change ((52 <=? 65) && (65 <=? 55)) with false.
    change (65 =? 66) with false. change (65 =? 65) with true. cbv iota.
    change (wrap 8 (Z.shiftr 4096 8)) with 16. change (wrap 8 4096) with 0.
    cbn [app]. rewrite need2. cbn [bind]. change (be_val [16; 0]) with 4096. fold K.
    rewrite <- Hfl at 1. rewrite <- app_assoc, need_app. cbn [bind].
    rewrite E1. cbn [app]. rewrite D1 by lia. cbn [bind]. rewrite firstn_skipn. reflexivity.
Qed.

Theorem binary_denotes bs rest :
  exists t tl, encode_binary bs = t :: tl /\ is_binary_tag t = true /\
    forall fuel, (length bs < fuel)%nat -> parse_binary fuel t (tl ++ rest) = Ok (bs, rest).
Proof.
  destruct bs as [|b bs'] eqn:Ebs.
  - eexists; eexists; split; [reflexivity|]. split; [reflexivity|].
    intros fuel Hf. destruct fuel as [|f]; [cbn in Hf; lia|]. reflexivity.
  - rewrite <- Ebs in *.
    replace (encode_binary bs) with (enc_bin_chunks (length bs) bs) by (subst bs; reflexivity).
    apply (spec_bin_chunks (length bs) bs rest). lia.
Qed.
