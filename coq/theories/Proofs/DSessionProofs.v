(* C11 decoder side: lemmas behind Props/C11dec.v *)
From Coq Require Import ZArith List Bool.
From GH Require Import Base.Result Model.Scalars Spec.Grammar Model.Decoder Model.DSession.
Import ListNotations.

Theorem decoder_reuse_is_fresh : forall te tm h bs junk,
  snd (dstep te tm (drun te tm h dstate0) (DDecode bs, junk)) = snd (dstep te tm dstate0 (DDecode bs, junk)) /\
  snd (dstep te tm dstate0 (DDecode bs, junk)) =
    match decode te tm bs with Ok (v, rest, _) => Ok (v, rest) | Err e => Err e | Panic => Panic | Fuel => Fuel end.
Proof.
  intros te tm h bs junk. split; [reflexivity|].
  unfold dstep, dcall, decode. cbn [fst snd].
  destruct (R_rd _ dstate0 bs) as [[[v r] s]| | |]; reflexivity.
Qed.

Theorem decoder_sequences_after_reset_are_fresh : forall te tm h o calls,
  resets (fst o) = true ->
  douts te tm (o :: calls) (drun te tm h dstate0) = douts te tm (o :: calls) dstate0.
Proof.
  intros te tm h [[bs|bs|] j] calls R; try discriminate R; reflexivity.
Qed.
