From Coq Require Import ZArith List Lia Bool.
From GH Require Import Base.GoSem Base.Result Gen.GoConsts Gen.GoLeaf Model.Scalars.
Import ListNotations.
Open Scope Z_scope.
Ltac Zify.zify_post_hook ::= Z.div_mod_to_equations.
Arguments Z.add : simpl never. Arguments Z.sub : simpl never. Arguments Z.mul : simpl never.
Arguments Z.leb : simpl never. Arguments Z.eqb : simpl never. Arguments Z.ltb : simpl never.

Ltac iconsts := unfold g_int1ByteTagMin, g_int1ByteTagMax, g_int1ByteZero, g_int2ByteTagMin, g_int2ByteTagMax, g_int2ByteZero,
                      g_int3ByteTagMin, g_int3ByteTagMax, g_int3ByteZero, g_int4ByteStartTag,
                      g_int1ByteValueMin, g_int1ByteValueMax, g_int2ByteValueMin, g_int2ByteValueMax,
                      g_int3ByteValueMin, g_int3ByteValueMax, g_int1ByteZeroInt32, g_int2ByteZeroInt32, g_int3ByteZeroInt32 in *.
Ltac lconsts := unfold g_long1ByteTagMin, g_long1ByteTagMax, g_long1ByteZero, g_long2ByteTagMin, g_long2ByteTagMax, g_long2ByteZero,
                      g_long3ByteTagMin, g_long3ByteTagMax, g_long3ByteZero, g_long4ByteStartTag, g_longStartTag,
                      g_long1ByteMinInt64, g_long1ByteMaxInt64, g_long2ByteValueMinInt64, g_long2ByteValueMaxInt64,
                      g_long3ByteValueMinInt64, g_long3ByteValueMaxInt64,
                      g_long1ByteZeroInt64, g_long2ByteZeroInt64, g_long3ByteZeroInt64 in *.

Lemma land8 b : 0 <= b < 256 -> (0 <? Z.land b 8) = (8 <=? b mod 16).
Proof.
  intros H. apply eqb_prop.
  apply (byte_forall (fun b => Bool.eqb (0 <? Z.land b 8) (8 <=? b mod 16))); [vm_compute; reflexivity|assumption].
Qed.
Lemma land128 b : 0 <= b < 256 -> (0 <? Z.land b 128) = (128 <=? b).
Proof.
  intros H. apply eqb_prop.
  apply (byte_forall (fun b => Bool.eqb (0 <? Z.land b 128) (128 <=? b))); [vm_compute; reflexivity|assumption].
Qed.

Lemma read_full_app1 b r : read_full 1 (b :: r) = Ok ([b], r). Proof. reflexivity. Qed.
Lemma read_full_app2 a b r : read_full 2 (a :: b :: r) = Ok ([a; b], r). Proof. reflexivity. Qed.
Lemma read_full_app4 a b c d r : read_full 4 (a :: b :: c :: d :: r) = Ok ([a; b; c; d], r). Proof. reflexivity. Qed.
Lemma read_full_app8 a b c d e f g h r :
  read_full 8 (a :: b :: c :: d :: e :: f :: g :: h :: r) = Ok ([a; b; c; d; e; f; g; h], r). Proof. reflexivity. Qed.

(* ---------------- int ---------------- *)
Theorem int_roundtrip v rest : in_i32 v -> decode_int (gencodeInt v ++ rest) = Ok (v, rest).
Proof.
  unfold in_i32. intros Hr. unfold gencodeInt. iconsts. rewrite ?shr8, ?shr16, ?shr24, ?wrap8_mod.
  destruct (((-16) <=? v) && (v <=? 47)) eqn:E1.
  { rewrite swrap32_id by (unfold in_i32; lia). replace ((144 + v) mod 256) with (144 + v) by lia.
    cbn [app decode_int read_tag bind]. unfold decode_int_tag, between. iconsts.
    replace ((128 <=? 144 + v) && (144 + v <=? 191)) with true by lia.
    rewrite swrap8_def, wrap8_mod. f_equal. f_equal. lia. }
  destruct (((-2048) <=? v) && (v <=? 2047)) eqn:E2.
  { rewrite swrap32_id by (unfold in_i32; lia). replace ((200 + v / 256) mod 256) with (200 + v / 256) by lia.
    cbn [app decode_int read_tag bind]. unfold decode_int_tag, between. iconsts.
    replace ((128 <=? 200 + v / 256) && (200 + v / 256 <=? 191)) with false by lia.
    replace ((192 <=? 200 + v / 256) && (200 + v / 256 <=? 207)) with true by lia.
    rewrite read_full_app1. cbn [bind]. rewrite swrap16_def, wrap8_mod. f_equal. f_equal. lia. }
  destruct (((-262144) <=? v) && (v <=? 262143)) eqn:E3.
  { rewrite swrap32_id by (unfold in_i32; lia). replace ((212 + v / 65536) mod 256) with (212 + v / 65536) by lia.
    cbn [app decode_int read_tag bind]. unfold decode_int_tag, between. iconsts.
    replace ((128 <=? 212 + v / 65536) && (212 + v / 65536 <=? 191)) with false by lia.
    replace ((192 <=? 212 + v / 65536) && (212 + v / 65536 <=? 207)) with false by lia.
    replace ((208 <=? 212 + v / 65536) && (212 + v / 65536 <=? 215)) with true by lia.
    rewrite read_full_app2. cbn [bind]. cbv zeta. rewrite wrap8_mod. rewrite land8 by lia.
    f_equal. f_equal. rewrite swrap32_def.
    destruct (8 <=? ((212 + v / 65536 - 212) mod 256) mod 16) eqn:E4; lia. }
  { cbn [app decode_int read_tag bind]. unfold decode_int_tag, between. iconsts.
    change ((128 <=? 73) && (73 <=? 191)) with false. change ((192 <=? 73) && (73 <=? 207)) with false.
    change ((208 <=? 73) && (73 <=? 215)) with false. change (73 =? 73) with true. cbv iota.
    rewrite read_full_app4. cbn [bind]. rewrite swrap32_def. f_equal. f_equal. lia. }
Qed.

Theorem int_shortest v : length (gencodeInt v) = spec_int_len v.
Proof.
  unfold gencodeInt, spec_int_len, between. iconsts.
  repeat (match goal with |- context [if ?c then _ else _] => destruct c end); reflexivity.
Qed.

Theorem int_bytes_ok v : bytes_ok (gencodeInt v).
Proof.
  unfold gencodeInt, bytes_ok. iconsts.
  repeat (match goal with |- context [if ?c then _ else _] => destruct c end);
  repeat constructor; try apply wrap8_range; lia.
Qed.
