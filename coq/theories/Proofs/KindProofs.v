From Coq Require Import ZArith List Lia Bool.
From GH Require Import Base.GoSem Base.Result Gen.GoConsts Gen.GoLeaf Model.Scalars Proofs.IntProofs Proofs.LongProofs.
Import ListNotations.
Open Scope Z_scope.
Ltac Zify.zify_post_hook ::= Z.div_mod_to_equations.
Arguments Z.add : simpl never. Arguments Z.sub : simpl never. Arguments Z.mul : simpl never.
Arguments Z.leb : simpl never. Arguments Z.eqb : simpl never. Arguments Z.ltb : simpl never.

Lemma decode_int_bind v r k :
  in_i32 v -> (do (i, r') <- decode_int (gencodeInt v ++ r) ;; Ok (set_kind k i, r')) = Ok (set_kind k v, r).
Proof. intros H. rewrite int_roundtrip by assumption. reflexivity. Qed.
Lemma decode_long_bind v r k :
  in_i64 v -> (do (i, r') <- decode_long (gencodeLong v ++ r) ;; Ok (set_kind k i, r')) = Ok (set_kind k v, r).
Proof. intros H. rewrite long_roundtrip by assumption. reflexivity. Qed.

(* a field of any integer kind: carried exactly, or the encode call fails (only for an
   int outside 32 bits); never a panic *)
Theorem kind_field_exact_or_error k z r :
  in_kind k z ->
  match enc_kind k z with
  | Ok bs => dec_field_kind k (bs ++ r) = Ok (z, r)
  | Err _ => k = KInt /\ ~ in_i32 z
  | _ => False
  end.
Proof.
  unfold in_kind. intros H.
  destruct k; cbn [enc_kind kind_lo kind_hi] in *; unfold between;
  try (destruct ((-2147483648 <=? z) && (z <=? 2147483647)) eqn:E; [|split; [reflexivity|unfold in_i32; lia]]);
  unfold dec_field_kind; cbn [kind_wire_int];
  try (rewrite swrap32_id by (unfold in_i32; lia); rewrite decode_int_bind by (unfold in_i32; lia));
  try (rewrite decode_long_bind by apply swrap64_range);
  f_equal; f_equal; cbn [set_kind];
  rewrite ?swrap64_def, ?swrap32_def, ?swrap16_def, ?swrap8_def, ?wrap64_mod, ?wrap32_mod, ?wrap16_mod, ?wrap8_mod; lia.
Qed.

(* length of the emitted form: the shortest the grammar defines for the wire type of the kind *)
Theorem kind_shortest k z bs :
  in_kind k z -> enc_kind k z = Ok bs ->
  length bs = if kind_wire_int k then spec_int_len z else spec_long_len (swrap 64 z).
Proof.
  unfold in_kind. intros H E.
  destruct k; cbn [enc_kind kind_wire_int kind_lo kind_hi] in *; unfold between in *;
  try (destruct ((-2147483648 <=? z) && (z <=? 2147483647)) eqn:E1; [|discriminate]);
  inversion E; subst bs;
  try (rewrite swrap32_id by (unfold in_i32; lia); apply int_shortest);
  apply long_shortest.
Qed.

(* an untyped position (top level, interface element, untyped map): the value comes back as
   the canonical wire type int32/int64.  Exact whenever the value fits the signed wire type. *)
Lemma int_first_tag v : in_i32 v -> exists t r, gencodeInt v = t :: r /\ gintTag t = true.
Proof.
  unfold in_i32. intros Hr. unfold gencodeInt, gintTag. iconsts.
  rewrite ?shr8, ?shr16, ?shr24, ?wrap8_mod.
  destruct (((-16) <=? v) && (v <=? 47)) eqn:E1.
  { eexists; eexists; split; [reflexivity|]. rewrite swrap32_id by (unfold in_i32; lia). lia. }
  destruct (((-2048) <=? v) && (v <=? 2047)) eqn:E2.
  { eexists; eexists; split; [reflexivity|]. rewrite swrap32_id by (unfold in_i32; lia). lia. }
  destruct (((-262144) <=? v) && (v <=? 262143)) eqn:E3.
  { eexists; eexists; split; [reflexivity|]. rewrite swrap32_id by (unfold in_i32; lia). lia. }
  eexists; eexists; split; [reflexivity|]. reflexivity.
Qed.
Lemma long_first_tag v : in_i64 v -> exists t r, gencodeLong v = t :: r /\ gintTag t = false /\ glongTag t = true.
Proof.
  unfold in_i64. intros Hr. unfold gencodeLong, gintTag, glongTag. iconsts. lconsts.
  rewrite ?shr8, ?shr16, ?shr24, ?wrap8_mod.
  destruct (((-8) <=? v) && (v <=? 15)) eqn:E1.
  { eexists; eexists; split; [reflexivity|]. rewrite swrap64_id by (unfold in_i64; lia). lia. }
  destruct (((-2048) <=? v) && (v <=? 2047)) eqn:E2.
  { eexists; eexists; split; [reflexivity|]. rewrite swrap64_id by (unfold in_i64; lia). lia. }
  destruct (((-262144) <=? v) && (v <=? 262143)) eqn:E3.
  { eexists; eexists; split; [reflexivity|]. rewrite swrap64_id by (unfold in_i64; lia). lia. }
  destruct (((-2147483648) <=? v) && (v <=? 2147483647)) eqn:E4.
  { eexists; eexists; split; [reflexivity|]. split; reflexivity. }
  eexists; eexists; split; [reflexivity|]. split; reflexivity.
Qed.

Lemma dec_top_int_int v r : in_i32 v -> dec_top_int (gencodeInt v ++ r) = Ok (v, r).
Proof.
  intros H. destruct (int_first_tag v H) as (t & r0 & E & T).
  pose proof (int_roundtrip v r H) as RT. unfold decode_int in RT. rewrite E in *.
  unfold dec_top_int. cbn [app read_tag bind] in *. rewrite T. exact RT.
Qed.
Lemma dec_top_int_long v r : in_i64 v -> dec_top_int (gencodeLong v ++ r) = Ok (v, r).
Proof.
  intros H. destruct (long_first_tag v H) as (t & r0 & E & T1 & T2).
  pose proof (long_roundtrip v r H) as RT. unfold decode_long in RT. rewrite E in *.
  unfold dec_top_int. cbn [app read_tag bind] in *. rewrite T1, T2. exact RT.
Qed.

Theorem kind_untyped_exact_partial k z r :
  in_kind k z -> z <= 9223372036854775807 ->
  match enc_kind k z with
  | Ok bs => dec_top_int (bs ++ r) = Ok (z, r)
  | Err _ => k = KInt /\ ~ in_i32 z
  | _ => False
  end.
Proof.
  unfold in_kind. intros H Hm.
  destruct k; cbn [enc_kind kind_lo kind_hi] in *; unfold between;
  try (destruct ((-2147483648 <=? z) && (z <=? 2147483647)) eqn:E; [|split; [reflexivity|unfold in_i32; lia]]);
  try (rewrite swrap32_id by (unfold in_i32; lia); apply dec_top_int_int; unfold in_i32; lia);
  rewrite swrap64_id by (unfold in_i64; lia); apply dec_top_int_long; unfold in_i64; lia.
Qed.

(* the unguarded statement is false of the faithful model: an unsigned 64-bit value above
   MaxInt64 at an untyped position comes back as a negative int64 (known finding C07-F2) *)
Theorem kind_untyped_refuted :
  exists k z, in_kind k z /\ exists bs, enc_kind k z = Ok bs /\ dec_top_int bs <> Ok (z, []).
Proof.
  exists KUint64, 18446744073709551615. split; [unfold in_kind; cbn; lia|].
  eexists. split; [vm_compute; reflexivity|]. vm_compute. discriminate.
Qed.

(* non-vacuity: concrete inputs meeting the hypotheses *)
Example kind_nonvacuous : in_kind KUint16 40000 /\ in_kind KInt (1099511627776) /\ enc_kind KInt 1099511627776 = Err ECodec.
Proof. unfold in_kind; cbn. repeat split; lia. Qed.
