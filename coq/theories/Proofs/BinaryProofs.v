From Coq Require Import ZArith List Lia Bool.
From GH Require Import Base.GoSem Base.Result Gen.GoConsts Gen.GoLeaf Model.Scalars Model.Strings Proofs.IntProofs.
Import ListNotations.
Open Scope Z_scope.
Ltac Zify.zify_post_hook ::= Z.div_mod_to_equations.
Arguments Z.add : simpl never. Arguments Z.sub : simpl never. Arguments Z.mul : simpl never.
Arguments Z.leb : simpl never. Arguments Z.eqb : simpl never. Arguments Z.ltb : simpl never.
Arguments Z.to_nat : simpl never. Arguments Z.of_nat : simpl never.

Ltac bconsts := unfold g_binaryChunkSize, g_binaryFinalChunk, g_binaryChunk, g_binaryShortLenTagMin,
                       g_binaryShortLenTagMax, g_binaryShortTagMaxLen in *.

Lemma read_upto_app (x y : bytes) : read_upto (length x) (x ++ y) = (x, y).
Proof.
  unfold read_upto. f_equal.
  - rewrite firstn_app, Nat.sub_diag, firstn_all. cbn. apply app_nil_r.
  - rewrite skipn_app, Nat.sub_diag, skipn_all. reflexivity.
Qed.

Lemma zlen_nat {A} (l : list A) : Z.to_nat (zlen l) = length l.
Proof. unfold zlen. apply Nat2Z.id. Qed.

(* tags of the three header shapes *)
Lemma bin_short_tag n : 0 <= n <= 15 ->
  gbinaryShortTag (32 + n) = true /\ gbinaryEndTag (32 + n) = true /\ gbinaryTag (32 + n) = true.
Proof.
  intros H. unfold gbinaryTag, gbinaryEndTag, gbinaryShortTag, gbinaryChunkTag. bconsts.
  replace ((32 <=? 32 + n) && (32 + n <=? 47)) with true by lia. rewrite ?orb_true_r, ?orb_true_l. cbn [orb]. auto.
Qed.

Lemma be2_val n : 0 <= n < 65536 -> be_val [wrap 8 (Z.shiftr n 8); wrap 8 n] = n.
Proof. intros H. rewrite shr8, !wrap8_mod. unfold be_val. cbn [fold_left]. lia. Qed.

(* the chunk loop: whatever the encoder wrote for bs is read back as bs, appended to the
   accumulator, leaving exactly the rest *)
Definition bin_decodes (enc : bytes) (bs acc rest : bytes) : Prop :=
  exists t tl len r3, enc = t :: tl /\ gbinaryTag t = true /\ (bs <> [] -> t <> 32) /\
    get_binary_len t (tl ++ rest) = Ok (len, r3) /\ (length bs <= length r3)%nat /\
    forall fuel2, (length bs < fuel2)%nat -> dec_bin_loop fuel2 t len r3 acc = Ok (acc ++ bs, rest).

Lemma bin_final_decodes bs acc rest : zlen bs <= 4096 -> bin_decodes (enc_bin_final bs) bs acc rest.
Proof.
  intros Hn. unfold bin_decodes, enc_bin_final. cbv zeta. bconsts.
  pose proof (Zle_0_nat (length bs)) as Hp. fold (zlen bs) in Hp.
  destruct (zlen bs <=? 15) eqn:E.
  - rewrite wrap8_id by lia.
    destruct (bin_short_tag (zlen bs) ltac:(lia)) as (S1 & S2 & S3).
    exists (32 + zlen bs), bs, (zlen bs), (bs ++ rest).
    split; [reflexivity|]. split; [exact S3|].
    split; [intros Hne; destruct bs; [congruence|unfold zlen; cbn [length]; lia]|].
    split; [unfold get_binary_len; rewrite S1; bconsts; cbn [bind]; rewrite wrap8_id by lia; do 2 f_equal; lia|].
    split; [rewrite app_length; lia|].
    intros fuel2 Hf. destruct fuel2 as [|f2]; [lia|].
    cbn [dec_bin_loop]. rewrite zlen_nat, read_upto_app, S2. reflexivity.
  - exists 66, (wrap 8 (Z.shiftr (zlen bs) 8) :: wrap 8 (zlen bs) :: bs), (zlen bs), (bs ++ rest).
    split; [reflexivity|]. split; [reflexivity|]. split; [intros _; lia|].
    split; [unfold get_binary_len; change (gbinaryShortTag 66) with false; change (gbinaryMiddleTag 66) with false; cbv iota;
            cbn [app]; rewrite read_full_app2; cbn [bind]; rewrite be2_val by lia; reflexivity|].
    split; [rewrite app_length; lia|].
    intros fuel2 Hf. destruct fuel2 as [|f2]; [lia|].
    cbn [dec_bin_loop]. rewrite zlen_nat, read_upto_app. change (gbinaryEndTag 66) with true. reflexivity.
Qed.

Lemma bin_chunks_decode : forall fuel bs acc rest,
  (length bs <= fuel)%nat -> bin_decodes (enc_bin_chunks fuel bs) bs acc rest.
Proof.
  induction fuel as [|f IH]; intros bs acc rest Hl.
  - cbn [enc_bin_chunks]. apply bin_final_decodes. unfold zlen; lia.
  - cbn [enc_bin_chunks]. bconsts.
    destruct (4096 <? zlen bs) eqn:E; [|apply bin_final_decodes; lia].
    assert (Hlen : (Z.to_nat 4096 <= length bs)%nat) by (unfold zlen in E; lia).
    assert (Hfl : length (firstn (Z.to_nat 4096) bs) = Z.to_nat 4096) by (apply firstn_length_le; exact Hlen).
    assert (Hsl : length (skipn (Z.to_nat 4096) bs) = (length bs - Z.to_nat 4096)%nat) by apply skipn_length.
    destruct (IH (skipn (Z.to_nat 4096) bs) (acc ++ firstn (Z.to_nat 4096) bs) rest ltac:(lia))
      as (t' & tl' & len' & r3' & E1 & T1 & _ & G1 & L1 & D1).
    unfold bin_decodes.
    exists 65, (wrap 8 (Z.shiftr 4096 8) :: wrap 8 4096 :: firstn (Z.to_nat 4096) bs ++ enc_bin_chunks f (skipn (Z.to_nat 4096) bs)),
           4096, (firstn (Z.to_nat 4096) bs ++ enc_bin_chunks f (skipn (Z.to_nat 4096) bs) ++ rest).
    split; [reflexivity|]. split; [reflexivity|]. split; [intros _; lia|].
    split.
    { unfold get_binary_len. change (gbinaryShortTag 65) with false. change (gbinaryMiddleTag 65) with false. cbv iota.
      change (wrap 8 (Z.shiftr 4096 8)) with 16. change (wrap 8 4096) with 0.
      cbn [app]. rewrite read_full_app2. cbn [bind]. change (be_val [16; 0]) with 4096.
      rewrite <- app_assoc. reflexivity. }
    split.
    { rewrite !app_length, Hfl, E1. cbn [length].
      assert (length r3' <= length (tl' ++ rest))%nat.
      { clear - G1. unfold get_binary_len in G1. destruct (gbinaryShortTag t'); [inversion G1; subst; lia|].
        destruct (gbinaryMiddleTag t').
        { destruct (tl' ++ rest) as [|a l]; cbn in G1; try discriminate. inversion G1; subst. cbn [length]. lia. }
        destruct (tl' ++ rest) as [|a [|b l]]; cbn in G1; try discriminate. inversion G1; subst. cbn [length]. lia. }
      rewrite app_length in *. lia. }
    intros fuel2 Hf. destruct fuel2 as [|f2]; [lia|].
    cbn [dec_bin_loop].
    rewrite <- Hfl at 1. rewrite read_upto_app.
    change (gbinaryEndTag 65) with false. cbv iota.
    rewrite E1. cbn [app]. rewrite T1, G1. cbn [bind].
    rewrite D1 by lia. rewrite <- app_assoc, firstn_skipn. reflexivity.
Qed.

Theorem binary_roundtrip bs rest : decode_binary (encode_binary bs ++ rest) = Ok (bs, rest).
Proof.
  destruct bs as [|b bs'] eqn:Ebs.
  - cbn [encode_binary app decode_binary read_tag bind]. unfold decode_binary_tag. bconsts. reflexivity.
  - rewrite <- Ebs.
    replace (encode_binary bs) with (enc_bin_chunks (length bs) bs) by (subst bs; reflexivity).
    destruct (bin_chunks_decode (length bs) bs [] rest ltac:(lia)) as (t & tl & len & r3 & E1 & T1 & N1 & G1 & L1 & D1).
    rewrite E1. cbn [app decode_binary read_tag bind]. unfold decode_binary_tag. bconsts.
    replace (t =? 32) with false by (assert (t <> 32) by (apply N1; subst bs; discriminate); lia).
    rewrite G1. cbn [bind]. apply D1. lia.
Qed.

(* the length prefixes count octets: the payload bytes of bs appear unchanged, and the
   encoding has exactly one header per chunk (3 octets per full chunk, 1 or 3 for the last) *)
Theorem binary_bytes_ok bs : bytes_ok bs -> bytes_ok (encode_binary bs).
Proof.
  intros H. destruct bs as [|b bs'] eqn:Ebs; [repeat constructor; bconsts; lia|]. rewrite <- Ebs in *.
  replace (encode_binary bs) with (enc_bin_chunks (length bs) bs) by (subst bs; reflexivity).
  clear Ebs. generalize (length bs) at 1. intros fuel. revert bs H.
  assert (Final : forall bs, bytes_ok bs -> bytes_ok (enc_bin_final bs)).
  { intros bs H. unfold enc_bin_final. cbv zeta. destruct (zlen bs <=? g_binaryShortTagMaxLen);
    repeat (constructor; [try apply wrap8_range; bconsts; lia|]); exact H. }
  induction fuel as [|f IH]; intros bs H; cbn [enc_bin_chunks]; [apply Final; exact H|].
  destruct (g_binaryChunkSize <? zlen bs); [|apply Final; exact H].
  repeat (constructor; [try apply wrap8_range; bconsts; lia|]).
  unfold bytes_ok in *. apply Forall_app. split.
  - rewrite <- (firstn_skipn (Z.to_nat g_binaryChunkSize) bs) in H. apply Forall_app in H. apply H.
  - apply IH. rewrite <- (firstn_skipn (Z.to_nat g_binaryChunkSize) bs) in H. apply Forall_app in H. apply H.
Qed.
