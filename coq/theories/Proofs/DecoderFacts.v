(* Facts about the decoder model that hold for EVERY input (hostile or not): every reader only
   ever consumes a prefix of its input (what is left is a suffix), and every reader that starts
   at a tag consumes at least one byte (progress).  C14 (no unbounded work without consuming
   input) and C06 (a read never hands back bytes it did not own) build on these. *)
From Coq Require Import ZArith List Lia Bool.
From GH Require Import Base.GoSem Base.Result Base.FloatBits Base.TimeSem Base.Utf8 Gen.GoConsts Gen.GoLeaf
  Model.Scalars Model.Strings Spec.Grammar Model.Encoder Model.Decoder.
Import ListNotations.
Open Scope Z_scope.

Definition suffix (rest bs : bytes) : Prop := exists pre, bs = pre ++ rest.
Definition psuffix (rest bs : bytes) : Prop := exists pre, pre <> [] /\ bs = pre ++ rest.
Lemma suffix_refl bs : suffix bs bs. Proof. exists []. reflexivity. Qed.
Lemma psuffix_suffix a b : psuffix a b -> suffix a b. Proof. intros (p & _ & E). exists p. exact E. Qed.
Lemma suffix_trans a b c : suffix a b -> suffix b c -> suffix a c.
Proof. intros [p ->] [q ->]. exists (q ++ p). rewrite app_assoc. reflexivity. Qed.
Lemma psuffix_trans_l a b c : psuffix a b -> suffix b c -> psuffix a c.
Proof. intros (p & N & ->) [q ->]. exists (q ++ p). split; [destruct q; [exact N|discriminate]|rewrite app_assoc; reflexivity]. Qed.
Lemma psuffix_trans_r a b c : suffix a b -> psuffix b c -> psuffix a c.
Proof. intros [p ->] (q & N & ->). exists (q ++ p). split; [destruct q; [contradiction|discriminate]|rewrite app_assoc; reflexivity]. Qed.
Lemma psuffix_cons t r : psuffix r (t :: r). Proof. exists [t]. split; [discriminate|reflexivity]. Qed.
Lemma suffix_cons a t r : suffix a r -> psuffix a (t :: r).
Proof. intros S. apply (psuffix_trans_r a r (t :: r) S (psuffix_cons t r)). Qed.
Lemma psuffix_length a b : psuffix a b -> (length a < length b)%nat.
Proof. intros (p & N & ->). rewrite app_length. destruct p; [contradiction|cbn; lia]. Qed.

(* ---- leaves ---- *)
Lemma take_n_suffix n : forall r x r', take_n n r = Some (x, r') -> suffix r' r.
Proof.
  induction n as [|n IH]; intros r x r' H; cbn in H; [inversion H; subst; apply suffix_refl|].
  destruct r as [|c r0]; [discriminate|]. destruct (take_n n r0) as [[a b]|] eqn:E; [|discriminate]. inversion H; subst.
  destruct (IH _ _ _ E) as [p ->]. exists (c :: p). reflexivity.
Qed.
Lemma read_full_suffix n r x r' : read_full n r = Ok (x, r') -> suffix r' r.
Proof.
  unfold read_full. destruct n as [|n]; [intros H; inversion H; subst; apply suffix_refl|].
  destruct r as [|c r0]; [discriminate|]. destruct (take_n (S n) (c :: r0)) as [[a b]|] eqn:E; [|discriminate].
  intros H; inversion H; subst. apply (take_n_suffix _ _ _ _ E).
Qed.
Lemma read_tag_psuffix bs t r : read_tag bs = Ok (t, r) -> psuffix r bs.
Proof. destruct bs as [|c r0]; [discriminate|]. intros H; inversion H; subst. apply psuffix_cons. Qed.

Ltac rf_case H :=
  match type of H with
  | context [read_full ?n ?r] =>
    let E := fresh "E" in destruct (read_full n r) as [[bf rr]| | |] eqn:E; cbn [bind] in H; try discriminate;
    apply read_full_suffix in E
  end.

Lemma decode_int_tag_suffix t r v r' : decode_int_tag t r = Ok (v, r') -> suffix r' r.
Proof.
  unfold decode_int_tag. intros H.
  destruct (between _ _ t); [inversion H; subst; apply suffix_refl|].
  destruct (between _ _ t). { rf_case H. destruct bf as [|? [|? ?]]; inversion H; subst; assumption. }
  destruct (between _ _ t). { rf_case H. destruct bf as [|? [|? [|? ?]]]; inversion H; subst; assumption. }
  destruct (t =? _); [|discriminate]. rf_case H. destruct bf as [|? [|? [|? [|? [|? ?]]]]]; inversion H; subst; assumption.
Qed.
Lemma decode_long_tag_suffix t r v r' : decode_long_tag t r = Ok (v, r') -> suffix r' r.
Proof.
  unfold decode_long_tag. intros H.
  destruct (between _ _ t); [inversion H; subst; apply suffix_refl|].
  destruct (between _ _ t). { rf_case H. destruct bf as [|? [|? ?]]; inversion H; subst; assumption. }
  destruct (between _ _ t). { rf_case H. destruct bf as [|? [|? [|? ?]]]; inversion H; subst; assumption. }
  destruct (t =? _). { rf_case H. destruct bf as [|? [|? [|? [|? [|? ?]]]]]; inversion H; subst; assumption. }
  destruct (t =? _); [|discriminate]. rf_case H. inversion H; subst; assumption.
Qed.
Lemma decode_double_tag_suffix t r v r' : decode_double_tag t r = Ok (v, r') -> suffix r' r.
Proof.
  unfold decode_double_tag. intros H.
  destruct (t =? _); [inversion H; subst; apply suffix_refl|].
  destruct (t =? _); [inversion H; subst; apply suffix_refl|].
  destruct (t =? _).
  { destruct (read_tag r) as [[? ?]| | |] eqn:E; cbn [bind] in H; try discriminate. inversion H; subst.
    apply psuffix_suffix, (read_tag_psuffix _ _ _ E). }
  destruct (t =? _). { rf_case H. inversion H; subst; assumption. }
  destruct (t =? _). { rf_case H. inversion H; subst; assumption. }
  destruct (t =? _); [|discriminate]. rf_case H. inversion H; subst; assumption.
Qed.
Lemma decode_date_tag_suffix t r v r' : decode_date_tag t r = Ok (v, r') -> suffix r' r.
Proof.
  unfold decode_date_tag. intros H.
  destruct (t =? _). { rf_case H. inversion H; subst; assumption. }
  destruct (t =? _); [|discriminate]. rf_case H. inversion H; subst; assumption.
Qed.

Lemma utf8_dec_suffix bs r rest : utf8_dec bs = Some (r, rest) -> suffix rest bs.
Proof.
  unfold utf8_dec. destruct bs as [|b0 r0]; [discriminate|].
  destruct (b0 <? 128); [intros H; injection H as <- <-; exists [b0]; reflexivity|].
  destruct (inr 194 223 b0).
  { destruct r0 as [|b1 r1]; [intros H; injection H as <- <-; exists [b0]; reflexivity|].
    destruct (is_cont b1); intros H; injection H as <- <-; [exists [b0; b1]|exists [b0]]; reflexivity. }
  destruct (inr 224 239 b0).
  { destruct r0 as [|b1 [|b2 r2]]; try (intros H; injection H as <- <-; exists [b0]; reflexivity).
    destruct (_ && _); intros H; injection H as <- <-; [exists [b0; b1; b2]|exists [b0]]; reflexivity. }
  destruct (inr 240 244 b0).
  { destruct r0 as [|b1 [|b2 [|b3 r3]]]; try (intros H; injection H as <- <-; exists [b0]; reflexivity).
    destruct (_ && _ && _); intros H; injection H as <- <-; [exists [b0; b1; b2; b3]|exists [b0]]; reflexivity. }
  intros H; injection H as <- <-; exists [b0]; reflexivity.
Qed.
Lemma read_runes_suffix n : forall bs rs bs', read_runes n bs = (rs, bs') -> suffix bs' bs.
Proof.
  induction n as [|n IH]; intros bs rs bs' H; cbn [read_runes] in H; [inversion H; subst; apply suffix_refl|].
  destruct (utf8_dec bs) as [[r rest]|] eqn:D; [|inversion H; subst; apply suffix_refl].
  destruct (read_runes n rest) as [rs0 bs0] eqn:R. inversion H; subst.
  apply (suffix_trans _ _ _ (IH _ _ _ R) (utf8_dec_suffix _ _ _ D)).
Qed.
Lemma get_string_len_suffix t r len r1 : get_string_len t r = Ok (len, r1) -> suffix r1 r.
Proof.
  unfold get_string_len. intros H. destruct (gstringShortTag t); [inversion H; subst; apply suffix_refl|].
  destruct (gstringMiddleTag t). { rf_case H. inversion H; subst; assumption. }
  destruct (gstringChunkTag t); [|discriminate]. rf_case H. inversion H; subst; assumption.
Qed.
Lemma dec_str_loop_suffix : forall fuel t len r acc rs r', dec_str_loop fuel t len r acc = Ok (rs, r') -> suffix r' r.
Proof.
  induction fuel as [|f IH]; intros t len r acc rs r' H; [discriminate|]. cbn [dec_str_loop] in H.
  destruct (read_runes (Z.to_nat len) r) as [rs1 r1] eqn:R. pose proof (read_runes_suffix _ _ _ _ R) as S1.
  destruct (gstringEndTag t); [inversion H; subst; exact S1|].
  destruct r1 as [|t' r2]; [inversion H; subst; exact S1|].
  destruct (gstringTag t'); [|discriminate].
  destruct (get_string_len t' r2) as [[len' r3]| | |] eqn:G; cbn [bind] in H; try discriminate.
  apply IH in H. apply (suffix_trans _ _ _ H).
  apply (suffix_trans _ _ _ (get_string_len_suffix _ _ _ _ G)).
  apply (suffix_trans _ (t' :: r2)); [exists [t']; reflexivity|exact S1].
Qed.
Lemma decode_string_tag_suffix t r rs r' : decode_string_tag t r = Ok (rs, r') -> suffix r' r.
Proof.
  unfold decode_string_tag. intros H. destruct (t =? g_nilTag); [inversion H; subst; apply suffix_refl|].
  destruct (get_string_len t r) as [[len r1]| | |] eqn:G; cbn [bind] in H; try discriminate.
  apply (suffix_trans _ _ _ (dec_str_loop_suffix _ _ _ _ _ _ _ H) (get_string_len_suffix _ _ _ _ G)).
Qed.
Lemma get_binary_len_suffix t r len r1 : get_binary_len t r = Ok (len, r1) -> suffix r1 r.
Proof.
  unfold get_binary_len. intros H. destruct (gbinaryShortTag t); [inversion H; subst; apply suffix_refl|].
  destruct (gbinaryMiddleTag t). { rf_case H. inversion H; subst; assumption. }
  rf_case H. inversion H; subst; assumption.
Qed.
Lemma read_upto_suffix n r x r' : read_upto n r = (x, r') -> suffix r' r.
Proof. unfold read_upto. intros H; inversion H; subst. exists (firstn n r). symmetry. apply firstn_skipn. Qed.
Lemma dec_bin_loop_suffix : forall fuel t len r acc bs r', dec_bin_loop fuel t len r acc = Ok (bs, r') -> suffix r' r.
Proof.
  induction fuel as [|f IH]; intros t len r acc bs r' H; [discriminate|]. cbn [dec_bin_loop] in H.
  destruct (read_upto (Z.to_nat len) r) as [x r1] eqn:R. pose proof (read_upto_suffix _ _ _ _ R) as S1.
  destruct (gbinaryEndTag t); [inversion H; subst; exact S1|].
  destruct r1 as [|t' r2]; [inversion H; subst; exact S1|].
  destruct (gbinaryTag t'); [|discriminate].
  destruct (get_binary_len t' r2) as [[len' r3]| | |] eqn:G; cbn [bind] in H; try discriminate.
  apply IH in H. apply (suffix_trans _ _ _ H).
  apply (suffix_trans _ _ _ (get_binary_len_suffix _ _ _ _ G)).
  apply (suffix_trans _ (t' :: r2)); [exists [t']; reflexivity|exact S1].
Qed.
Lemma decode_binary_tag_suffix t r bs r' : decode_binary_tag t r = Ok (bs, r') -> suffix r' r.
Proof.
  unfold decode_binary_tag. intros H. destruct (t =? g_binaryShortLenTagMin); [inversion H; subst; apply suffix_refl|].
  destruct (get_binary_len t r) as [[len r1]| | |] eqn:G; cbn [bind] in H; try discriminate.
  apply (suffix_trans _ _ _ (dec_bin_loop_suffix _ _ _ _ _ _ _ H) (get_binary_len_suffix _ _ _ _ G)).
Qed.

(* readers that start with a tag: a proper suffix *)
Lemma decode_int_psuffix bs v r : decode_int bs = Ok (v, r) -> psuffix r bs.
Proof.
  unfold decode_int. destruct (read_tag bs) as [[t r0]| | |] eqn:E; cbn [bind]; try discriminate. intros H.
  apply (psuffix_trans_r _ _ _ (decode_int_tag_suffix _ _ _ _ H) (read_tag_psuffix _ _ _ E)).
Qed.
Lemma decode_long_psuffix bs v r : decode_long bs = Ok (v, r) -> psuffix r bs.
Proof.
  unfold decode_long. destruct (read_tag bs) as [[t r0]| | |] eqn:E; cbn [bind]; try discriminate. intros H.
  apply (psuffix_trans_r _ _ _ (decode_long_tag_suffix _ _ _ _ H) (read_tag_psuffix _ _ _ E)).
Qed.
Lemma decode_double_psuffix bs v r : decode_double bs = Ok (v, r) -> psuffix r bs.
Proof.
  unfold decode_double. destruct (read_tag bs) as [[t r0]| | |] eqn:E; cbn [bind]; try discriminate. intros H.
  apply (psuffix_trans_r _ _ _ (decode_double_tag_suffix _ _ _ _ H) (read_tag_psuffix _ _ _ E)).
Qed.
Lemma decode_string_psuffix bs v r : decode_string bs = Ok (v, r) -> psuffix r bs.
Proof.
  unfold decode_string. destruct (read_tag bs) as [[t r0]| | |] eqn:E; cbn [bind]; try discriminate. intros H.
  apply (psuffix_trans_r _ _ _ (decode_string_tag_suffix _ _ _ _ H) (read_tag_psuffix _ _ _ E)).
Qed.
Lemma decode_boolean_psuffix bs v r : decode_boolean bs = Ok (v, r) -> psuffix r bs.
Proof.
  unfold decode_boolean. destruct (read_tag bs) as [[t r0]| | |] eqn:E; cbn [bind]; try discriminate.
  destruct (t =? _); [|destruct (t =? _); [|discriminate]]; intros H; inversion H; subst; apply (read_tag_psuffix _ _ _ E).
Qed.
Lemma dec_field_kind_psuffix k bs v r : dec_field_kind k bs = Ok (v, r) -> psuffix r bs.
Proof.
  unfold dec_field_kind. destruct (kind_wire_int k).
  - destruct (decode_int bs) as [[i r0]| | |] eqn:E; cbn [bind]; try discriminate. intros H; inversion H; subst. apply (decode_int_psuffix _ _ _ E).
  - destruct (decode_long bs) as [[i r0]| | |] eqn:E; cbn [bind]; try discriminate. intros H; inversion H; subst. apply (decode_long_psuffix _ _ _ E).
Qed.

Lemma read_type_psuffix st bs n r st' : read_type st bs = Ok (n, r, st') -> psuffix r bs.
Proof.
  unfold read_type. destruct bs as [|t r0]; [discriminate|].
  destruct (gstringTag t).
  - destruct (decode_string_tag t r0) as [[s r1]| | |] eqn:E; cbn [bind]; try discriminate. intros H; inversion H; subst.
    apply suffix_cons, (decode_string_tag_suffix _ _ _ _ E).
  - destruct (decode_int_tag t r0) as [[i r1]| | |] eqn:E; cbn [bind]; try discriminate.
    destruct (nth_z _ i); [|discriminate]. intros H; inversion H; subst.
    apply suffix_cons, (decode_int_tag_suffix _ _ _ _ E).
Qed.
Lemma read_strings_suffix n : forall bs ss r, read_strings n bs = Ok (ss, r) -> suffix r bs.
Proof.
  induction n as [|n IH]; intros bs ss r H; cbn [read_strings] in H; [inversion H; subst; apply suffix_refl|].
  destruct (decode_string bs) as [[s r0]| | |] eqn:E; cbn [bind] in H; try discriminate.
  destruct (read_strings n r0) as [[ss0 r1]| | |] eqn:E2; cbn [bind] in H; try discriminate. inversion H; subst.
  apply (suffix_trans _ _ _ (IH _ _ _ E2) (psuffix_suffix _ _ (decode_string_psuffix _ _ _ E))).
Qed.
Lemma read_class_def_psuffix st bs u r st' : read_class_def st bs = Ok (u, r, st') -> psuffix r bs.
Proof.
  unfold read_class_def.
  destruct (decode_string bs) as [[c r1]| | |] eqn:E1; cbn [bind]; try discriminate.
  destruct (decode_int r1) as [[n r2]| | |] eqn:E2; cbn [bind]; try discriminate.
  destruct (n <? 0); [discriminate|]. destruct (Z.of_nat (length r2) <? n); [discriminate|].
  destruct (read_strings (Z.to_nat n) r2) as [[fs r3]| | |] eqn:E3; cbn [bind]; try discriminate.
  intros H; inversion H; subst.
  apply (psuffix_trans_r _ _ _ (suffix_trans _ _ _ (read_strings_suffix _ _ _ _ E3) (psuffix_suffix _ _ (decode_int_psuffix _ _ _ E2)))
                          (decode_string_psuffix _ _ _ E1)).
Qed.
Lemma read_ref_psuffix st bs v r st' : read_ref st bs = Ok (v, r, st') -> psuffix r bs.
Proof.
  unfold read_ref. destruct (decode_int bs) as [[i r0]| | |] eqn:E; cbn [bind]; try discriminate.
  destruct (nth_z _ i) as [[ty fs|[v0|]|[v0|]]|]; intros H; inversion H; subst; apply (decode_int_psuffix _ _ _ E).
Qed.

(* ---- the nine mutually recursive readers ---- *)
Lemma bind_ok {A B} (r : result A) (f : A -> result B) y : bind r f = Ok y -> exists x, r = Ok x /\ f x = Ok y.
Proof. destruct r; cbn; try discriminate. intros H. eexists; split; [reflexivity|exact H]. Qed.

Definition readers_ok (R : readers) : Prop :=
  (forall st bs v r st', R_rd R st bs = Ok (v, r, st') -> psuffix r bs) /\
  (forall fl st bs v r st', R_rl R fl st bs = Ok (v, r, st') -> match fl with None => psuffix r bs | Some _ => suffix r bs end) /\
  (forall t st bs v r st', R_rf R t st bs = Ok (v, r, st') -> psuffix r bs) /\
  (forall n w st bs v r st', R_ro R n w st bs = Ok (v, r, st') -> suffix r bs) /\
  (forall t st bs v r st', R_rm R t st bs = Ok (v, r, st') -> psuffix r bs) /\
  (forall e n st bs v r st', R_rn R e n st bs = Ok (v, r, st') -> suffix r bs) /\
  (forall e st bs v r st', R_rz R e st bs = Ok (v, r, st') -> psuffix r bs) /\
  (forall k x acc st bs v r st', R_re R k x acc st bs = Ok (v, r, st') -> psuffix r bs) /\
  (forall g w acc st bs v r st', R_rfs R g w acc st bs = Ok (v, r, st') -> suffix r bs).

Section StepOk.
  Variables (te : tenv) (tm : typmap) (R : readers).
  Hypothesis HR : readers_ok R.
  Let Hrd := proj1 HR.
  Let Hrl := proj1 (proj2 HR).
  Let Hrf := proj1 (proj2 (proj2 HR)).
  Let Hro := proj1 (proj2 (proj2 (proj2 HR))).
  Let Hrm := proj1 (proj2 (proj2 (proj2 (proj2 HR)))).
  Let Hrn := proj1 (proj2 (proj2 (proj2 (proj2 (proj2 HR))))).
  Let Hrz := proj1 (proj2 (proj2 (proj2 (proj2 (proj2 (proj2 HR)))))).
  Let Hre := proj1 (proj2 (proj2 (proj2 (proj2 (proj2 (proj2 (proj2 HR))))))).
  Let Hrfs := proj2 (proj2 (proj2 (proj2 (proj2 (proj2 (proj2 (proj2 HR))))))).

  Lemma elem_step_ok e st bs v r st' : elem_step te R e st bs = Ok (v, r, st') -> psuffix r bs.
  Proof.
    unfold elem_step. intros H. apply bind_ok in H. destruct H as ([[item r1] st1] & E & H).
    apply Hrd in E. destruct e; try (apply bind_ok in H; destruct H as (el & _ & H)); inversion H; subst; exact E.
  Qed.

  Lemma rn_step_ok e n st bs v r st' : rn_step te R e n st bs = Ok (v, r, st') -> suffix r bs.
  Proof.
    unfold rn_step. destruct n as [|n']; [intros H; inversion H; subst; apply suffix_refl|].
    intros H. apply bind_ok in H. destruct H as ([[el r1] st1] & E & H). apply elem_step_ok in E.
    apply bind_ok in H. destruct H as ([[els r2] st2] & E2 & H). apply Hrn in E2. inversion H; subst.
    apply (suffix_trans _ _ _ E2 (psuffix_suffix _ _ E)).
  Qed.

  Lemma rz_step_ok e st bs v r st' : rz_step te R e st bs = Ok (v, r, st') -> psuffix r bs.
  Proof.
    unfold rz_step. destruct (elem_step te R e st bs) as [[[el r1] st1]|er| |] eqn:E; try discriminate.
    - intros H. apply bind_ok in H. destruct H as ([[els r2] st2] & E2 & H). apply Hrz in E2. inversion H; subst.
      apply elem_step_ok in E. apply (psuffix_trans_l _ _ _ E2 (psuffix_suffix _ _ E)).
    - destruct er; try discriminate. destruct bs as [|t r0]; [discriminate|].
      destruct (t =? g_endFlag); [|discriminate]. intros H; inversion H; subst. apply psuffix_cons.
  Qed.

  Lemma typed_list_step_ok tag st bs v r st' : typed_list_step tm R tag st bs = Ok (v, r, st') -> suffix r bs.
  Proof.
    unfold typed_list_step. intros H. apply bind_ok in H. destruct H as ([[lty r1] st1] & E & H).
    apply read_type_psuffix, psuffix_suffix in E.
    apply bind_ok in H. destruct H as ([y r2] & E2 & H).
    assert (S2 : suffix r2 r1).
    { destruct (tag =? g_listVariableTypedTag); [inversion E2; subst; apply suffix_refl|].
      destruct (glistFixedTypedLenTag tag); [inversion E2; subst; apply suffix_refl|].
      destruct (tag =? g_listFixedTypedStartTag); [|discriminate].
      apply bind_ok in E2. destruct E2 as ([n rr] & E3 & E2). inversion E2; subst.
      apply psuffix_suffix, (decode_int_psuffix _ _ _ E3). }
    destruct y as [n|].
    - destruct (n <? 0); [inversion H; subst; apply (suffix_trans _ _ _ S2 E)|].
      destruct (Z.of_nat (length r2) <? n); [discriminate|].
      destruct (tm_lookup tm lty) as [[]|]; try discriminate.
      apply bind_ok in H. destruct H as ([[items r3] st2] & E3 & H). apply Hrn in E3. inversion H; subst.
      apply (suffix_trans _ _ _ E3 (suffix_trans _ _ _ S2 E)).
    - destruct (tm_lookup tm lty) as [[]|]; try discriminate.
      apply bind_ok in H. destruct H as ([[items r3] st2] & E3 & H). apply Hrz, psuffix_suffix in E3. inversion H; subst.
      apply (suffix_trans _ _ _ E3 (suffix_trans _ _ _ S2 E)).
  Qed.

  Lemma untyped_list_step_ok tag st bs v r st' : untyped_list_step R tag st bs = Ok (v, r, st') -> suffix r bs.
  Proof.
    unfold untyped_list_step. intros H. apply bind_ok in H. destruct H as ([y r2] & E2 & H).
    assert (S2 : suffix r2 bs).
    { destruct (tag =? g_listVariableUntypedTag); [inversion E2; subst; apply suffix_refl|].
      destruct (glistFixedUntypedLenTag tag); [inversion E2; subst; apply suffix_refl|].
      destruct (tag =? g_listFixedUntypedTag); [|discriminate].
      apply bind_ok in E2. destruct E2 as ([n rr] & E3 & E2). inversion E2; subst.
      apply psuffix_suffix, (decode_int_psuffix _ _ _ E3). }
    destruct y as [n|].
    - destruct (n <? 0); [inversion H; subst; exact S2|].
      destruct (Z.of_nat (length r2) <? n); [discriminate|].
      apply bind_ok in H. destruct H as ([[items r3] st2] & E3 & H). apply Hrn in E3. inversion H; subst.
      apply (suffix_trans _ _ _ E3 S2).
    - apply bind_ok in H. destruct H as ([[items r3] st2] & E3 & H). apply Hrz, psuffix_suffix in E3. inversion H; subst.
      apply (suffix_trans _ _ _ E3 S2).
  Qed.

  Lemma rl_step_ok fl st bs v r st' :
    rl_step tm R fl st bs = Ok (v, r, st') -> match fl with None => psuffix r bs | Some _ => suffix r bs end.
  Proof.
    unfold rl_step. intros H. apply bind_ok in H. destruct H as ([tag r0] & E & H).
    assert (Core : suffix r r0).
    { destruct (gbinaryTag tag).
      { apply bind_ok in H. destruct H as ([b r1] & E1 & H). inversion H; subst. apply (decode_binary_tag_suffix _ _ _ _ E1). }
      destruct (tag =? g_nilTag); [inversion H; subst; apply suffix_refl|].
      destruct (grefTag tag); [apply psuffix_suffix, (read_ref_psuffix _ _ _ _ _ H)|].
      destruct (tag =? g_objectDefTag).
      { apply bind_ok in H. destruct H as ([[u r1] st1] & E1 & H). apply read_class_def_psuffix, psuffix_suffix in E1.
        apply (Hrl None) in H. cbn [snd] in H. apply (suffix_trans _ _ _ (psuffix_suffix _ _ H) E1). }
      destruct (gtypedListTag tag); [apply (typed_list_step_ok _ _ _ _ _ _ H)|].
      destruct (guntypedListTag tag); [apply (untyped_list_step_ok _ _ _ _ _ _ H)|discriminate]. }
    destruct fl as [t|].
    - inversion E; subst. exact Core.
    - destruct bs as [|t r1]; [discriminate|]. inversion E; subst. apply suffix_cons, Core.
  Qed.

  Lemma object_at_ok idx st bs v r st' : object_at tm R idx st bs = Ok (v, r, st') -> suffix r bs.
  Proof.
    unfold object_at. destruct (nth_z (dcls st) idx) as [[cname fnames]|]; [|discriminate].
    destruct (tm_lookup tm cname) as [[]|]; try discriminate. apply Hro.
  Qed.

  Lemma re_step_ok kt vt acc st bs v r st' : re_step te R kt vt acc st bs = Ok (v, r, st') -> psuffix r bs.
  Proof.
    unfold re_step. destruct (R_rd R st bs) as [[[k r1] st1]|er| |] eqn:E; try discriminate.
    - apply Hrd in E. destruct k; try (intros H; inversion H; subst; exact E);
      (intros H; apply bind_ok in H; destruct H as ([[x r2] st2] & E2 & H); apply Hrd in E2;
       apply bind_ok in H; destruct H as (k' & _ & H); apply bind_ok in H; destruct H as (v' & _ & H);
       destruct (hashable k'); [|discriminate]; apply Hre in H;
       apply (psuffix_trans_l _ _ _ H (suffix_trans _ _ _ (psuffix_suffix _ _ E2) (psuffix_suffix _ _ E)))).
    - destruct er; try discriminate. destruct bs as [|t r0]; [discriminate|].
      destruct (t =? g_endFlag); [|discriminate]. intros H; inversion H; subst. apply psuffix_cons.
  Qed.

  Lemma map_body_ok kt vt st bs v r st' : map_body R kt vt st bs = Ok (v, r, st') -> psuffix r bs.
  Proof.
    unfold map_body. intros H. apply bind_ok in H. destruct H as ([[es r1] st2] & E & H). apply Hre in E. inversion H; subst. exact E.
  Qed.

  Lemma rd_step_ok st bs v r st' : rd_step tm R st bs = Ok (v, r, st') -> psuffix r bs.
  Proof.
    unfold rd_step. destruct bs as [|tag r0]; [discriminate|]. intros H.
    apply suffix_cons.
    destruct (tag =? g_endFlag); [discriminate|].
    destruct (tag =? g_nilTag); [inversion H; subst; apply suffix_refl|].
    destruct (tag =? g_boolTrueTag); [inversion H; subst; apply suffix_refl|].
    destruct (tag =? g_boolFalseTag); [inversion H; subst; apply suffix_refl|].
    destruct (gintTag tag). { apply bind_ok in H. destruct H as ([z r1] & E & H). inversion H; subst. apply (decode_int_tag_suffix _ _ _ _ E). }
    destruct (glongTag tag). { apply bind_ok in H. destruct H as ([z r1] & E & H). inversion H; subst. apply (decode_long_tag_suffix _ _ _ _ E). }
    destruct (gdoubleTag tag). { apply bind_ok in H. destruct H as ([z r1] & E & H). inversion H; subst. apply (decode_double_tag_suffix _ _ _ _ E). }
    destruct (gstringTag tag). { apply bind_ok in H. destruct H as ([z r1] & E & H). inversion H; subst. apply (decode_string_tag_suffix _ _ _ _ E). }
    destruct (gdateTag tag). { apply bind_ok in H. destruct H as ([z r1] & E & H). inversion H; subst. apply (decode_date_tag_suffix _ _ _ _ E). }
    destruct (gbinaryTag tag). { apply bind_ok in H. destruct H as ([z r1] & E & H). inversion H; subst. apply (decode_binary_tag_suffix _ _ _ _ E). }
    destruct (grefTag tag); [apply psuffix_suffix, (read_ref_psuffix _ _ _ _ _ H)|].
    destruct (tag =? g_mapTypedTag).
    { apply bind_ok in H. destruct H as ([[mty r1] st1] & E & H). apply read_type_psuffix, psuffix_suffix in E.
      destruct (tm_lookup tm mty) as [[]|]; try discriminate.
      apply map_body_ok, psuffix_suffix in H. apply (suffix_trans _ _ _ H E). }
    destruct (tag =? g_mapUntypedTag); [apply psuffix_suffix, (map_body_ok _ _ _ _ _ _ _ H)|].
    destruct (tag =? g_objectDefTag).
    { apply bind_ok in H. destruct H as ([[u r1] st1] & E & H). apply read_class_def_psuffix, psuffix_suffix in E.
      apply Hrd, psuffix_suffix in H. cbn [snd] in H. apply (suffix_trans _ _ _ H E). }
    destruct (gobjectLenTag tag); [apply (object_at_ok _ _ _ _ _ _ H)|].
    destruct (tag =? g_objectTag).
    { apply bind_ok in H. destruct H as ([i r1] & E & H). apply object_at_ok in H.
      apply (suffix_trans _ _ _ H (psuffix_suffix _ _ (decode_int_psuffix _ _ _ E))). }
    destruct (gtypedListTag tag || guntypedListTag tag); [|discriminate].
    apply (Hrl (Some tag)) in H. exact H.
  Qed.

  Lemma read_struct_ok st bs v r st' : read_struct tm R st bs = Ok (v, r, st') -> psuffix r bs.
  Proof.
    unfold read_struct. destruct bs as [|tag r0]; [discriminate|]. intros H. apply suffix_cons.
    destruct (tag =? g_endFlag); [discriminate|].
    destruct (tag =? g_nilTag); [inversion H; subst; apply suffix_refl|].
    destruct (gdateTag tag). { apply bind_ok in H. destruct H as ([z r1] & E & H). inversion H; subst. apply (decode_date_tag_suffix _ _ _ _ E). }
    destruct (tag =? g_objectDefTag).
    { apply bind_ok in H. destruct H as ([[u r1] st1] & E & H). apply read_class_def_psuffix, psuffix_suffix in E.
      apply Hrd, psuffix_suffix in H. cbn [snd] in H. apply (suffix_trans _ _ _ H E). }
    destruct (gobjectLenTag tag); [apply (object_at_ok _ _ _ _ _ _ H)|].
    destruct (tag =? g_objectTag).
    { apply bind_ok in H. destruct H as ([i r1] & E & H). apply object_at_ok in H.
      apply (suffix_trans _ _ _ H (psuffix_suffix _ _ (decode_int_psuffix _ _ _ E))). }
    destruct (grefTag tag); [apply psuffix_suffix, (read_ref_psuffix _ _ _ _ _ H)|discriminate].
  Qed.

  Lemma rf_core_ok t st bs v r st' : rf_core te tm R t st bs = Ok (v, r, st') -> psuffix r bs.
  Proof.
    unfold rf_core. intros H.
    assert (Sl : forall t0, (t0 = t) -> match R_rl R None st bs with
              | Ok (m, r1, st1) => do v0 <- set_slice te (dheap st1) t0 m ;; Ok (v0, r1, st1)
              | Err EEof => match bs with tg :: r1 => if tg =? g_endFlag then Ok (zero te t0, r1, st) else Unmodelled | [] => Unmodelled end
              | Err er => Err er | Panic => Panic | Fuel => Fuel end = Ok (v, r, st') -> psuffix r bs).
    { intros t0 _ H0. destruct (R_rl R None st bs) as [[[m r1] st1]|er| |] eqn:E; try discriminate.
      - apply (Hrl None) in E. apply bind_ok in H0. destruct H0 as (v0 & _ & H0). inversion H0; subst. exact E.
      - destruct er; try discriminate. destruct bs as [|tg r1]; [discriminate|].
        destruct (tg =? g_endFlag); [|discriminate]. inversion H0; subst. apply psuffix_cons. }
    destruct t; try discriminate.
    - apply bind_ok in H. destruct H as ([b r1] & E & H). inversion H; subst. apply (decode_boolean_psuffix _ _ _ E).
    - apply bind_ok in H. destruct H as ([x r1] & E & H). inversion H; subst. apply (dec_field_kind_psuffix _ _ _ _ E).
    - apply bind_ok in H. destruct H as ([x r1] & E & H). inversion H; subst. apply (decode_double_psuffix _ _ _ E).
    - apply bind_ok in H. destruct H as ([x r1] & E & H). inversion H; subst. apply (decode_double_psuffix _ _ _ E).
    - apply bind_ok in H. destruct H as ([x r1] & E & H). inversion H; subst. apply (decode_string_psuffix _ _ _ E).
    - apply bind_ok in H. destruct H as ([[s r1] st1] & E & H). apply read_struct_ok in E.
      apply bind_ok in H. destruct H as (v0 & _ & H). inversion H; subst. exact E.
    - apply (Sl TBytes eq_refl H).
    - apply bind_ok in H. destruct H as ([[s r1] st1] & E & H). apply read_struct_ok in E.
      apply bind_ok in H. destruct H as (v0 & _ & H). inversion H; subst. exact E.
    - destruct t; try discriminate.
      apply bind_ok in H. destruct H as ([[s r1] st1] & E & H). apply read_struct_ok in E.
      apply bind_ok in H. destruct H as (v0 & _ & H). inversion H; subst. exact E.
    - apply (Sl (TSlice t) eq_refl H).
    - apply Hrm in H. exact H.
  Qed.
  Lemma rf_step_ok t st bs v r st' : rf_step te tm R t st bs = Ok (v, r, st') -> psuffix r bs.
  Proof.
    unfold rf_step. destruct bs as [|tag r0]; [apply rf_core_ok|].
    destruct (scalar_type t && (tag =? g_objectDefTag)); [|apply rf_core_ok].
    intros H. apply bind_ok in H. destruct H as ([[u r1] st1] & E & H). apply read_class_def_psuffix in E. apply Hrf in H.
    cbn [snd] in H. apply (psuffix_trans_l _ _ _ H). apply psuffix_suffix. apply suffix_cons. apply psuffix_suffix. exact E.
  Qed.

  Lemma rm_step_ok t st bs v r st' : rm_step te R t st bs = Ok (v, r, st') -> psuffix r bs.
  Proof.
    unfold rm_step. destruct t; try (destruct bs; discriminate). destruct bs as [|tag r0]; [discriminate|]. intros H.
    apply suffix_cons.
    destruct (tag =? g_nilTag); [inversion H; subst; apply suffix_refl|].
    destruct (grefTag tag).
    { apply bind_ok in H. destruct H as ([[x r1] st1] & E & H). apply read_ref_psuffix, psuffix_suffix in E.
      apply bind_ok in H. destruct H as (v' & _ & H). inversion H; subst. exact E. }
    destruct (tag =? g_objectDefTag).
    { apply bind_ok in H. destruct H as ([[u r1] st1] & E & H). apply read_class_def_psuffix, psuffix_suffix in E.
      apply Hrm, psuffix_suffix in H. cbn [snd] in H. apply (suffix_trans _ _ _ H E). }
    destruct (tag =? g_mapTypedTag).
    { apply bind_ok in H. destruct H as ([[mty r1] st1] & E & H). apply read_type_psuffix, psuffix_suffix in E.
      apply map_body_ok, psuffix_suffix in H. cbn [snd] in H. apply (suffix_trans _ _ _ H E). }
    destruct (tag =? g_mapUntypedTag); [apply psuffix_suffix, (map_body_ok _ _ _ _ _ _ _ H)|discriminate].
  Qed.

  Lemma rfs_step_ok g w acc st bs v r st' : rfs_step R g w acc st bs = Ok (v, r, st') -> suffix r bs.
  Proof.
    unfold rfs_step. destruct w as [|w0 ws]; [intros H; inversion H; subst; apply suffix_refl|].
    destruct (find_field g w0) as [[gn gt]|].
    - intros H. apply bind_ok in H. destruct H as ([[x r1] st1] & E & H). apply Hrf, psuffix_suffix in E.
      apply Hrfs in H. apply (suffix_trans _ _ _ H E).
    - intros H. apply bind_ok in H. destruct H as ([[x r1] st1] & E & H). apply Hrd, psuffix_suffix in E.
      apply Hrfs in H. cbn [snd] in H. apply (suffix_trans _ _ _ H E).
  Qed.

  Lemma ro_step_ok n w st bs v r st' : ro_step te R n w st bs = Ok (v, r, st') -> suffix r bs.
  Proof.
    unfold ro_step. destruct (te_lookup te n) as [gfs0|]; [|discriminate]. destruct (has_dup (bound_names gfs0 w)); [discriminate|]. intros H.
    apply bind_ok in H. destruct H as ([[fs r1] st1] & E & H). apply Hrfs in E. inversion H; subst. exact E.
  Qed.

  Lemma step_readers_ok : readers_ok (step_readers te tm R).
  Proof.
    unfold readers_ok, step_readers. cbn [R_rd R_rl R_rf R_ro R_rm R_rn R_rz R_re R_rfs].
    repeat split.
    - apply rd_step_ok. - apply rl_step_ok. - apply rf_step_ok. - apply ro_step_ok. - apply rm_step_ok.
    - apply rn_step_ok. - apply rz_step_ok. - apply re_step_ok. - apply rfs_step_ok.
  Qed.
End StepOk.

Theorem readers_at_ok te tm fuel : readers_ok (readers_at te tm fuel).
Proof.
  induction fuel as [|f IH].
  - unfold readers_ok. cbn. repeat split; intros; discriminate.
  - cbn [readers_at]. apply step_readers_ok. exact IH.
Qed.

(* C14 / C06: for EVERY byte string, type environment, type map and fuel: a successful decode
   consumed a non-empty prefix of the input and hands back exactly the rest - never a byte it
   did not read, never bytes reordered *)
Theorem decode_consumes_prefix te tm bs v rest st : decode te tm bs = Ok (v, rest, st) -> psuffix rest bs.
Proof. unfold decode. apply (proj1 (readers_at_ok te tm (decode_fuel bs))). Qed.
