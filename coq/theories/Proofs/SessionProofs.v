From Coq Require Import ZArith List Lia Bool.
From GH Require Import Base.GoSem Base.Result Gen.GoConsts Gen.GoLeaf Model.Scalars Model.Strings Spec.Grammar
  Model.Encoder Model.Session Proofs.EncoderFacts.
Import ListNotations.
Open Scope Z_scope.

(* no step of the encoder changes the name map, except the insertion of a missing struct name *)
Lemma emit_enm st c : enm (emit st c) = enm st. Proof. reflexivity. Qed.
Lemma write_ref_enm st i : enm (write_ref st i) = enm st. Proof. reflexivity. Qed.
Lemma check_ref_enm st k a : enm (snd (check_ref st k a)) = enm st.
Proof. unfold check_ref. destruct (ref_find (erefs st) a k 0) as [i|]; reflexivity. Qed.
Lemma fold_emit_enm l : forall st, enm (fold_left (fun s f => emit s (encode_string f)) l st) = enm st.
Proof. induction l as [|x r IH]; intros st; cbn [fold_left]; [reflexivity|]. rewrite IH. reflexivity. Qed.
Lemma write_cls_def_enm st c fs : enm (write_cls_def st c fs) = enm st.
Proof. unfold write_cls_def. cbn [enm]. rewrite fold_emit_enm. reflexivity. Qed.
Lemma list_header_enm st ty n : enm (list_header st ty n) = enm st.
Proof.
  unfold list_header. destruct (nm_lookup (enm st) ty); [|reflexivity].
  destruct (name_eqb _ _); [reflexivity|]. destruct (n <=? g_listFixedTypedLenMax); reflexivity.
Qed.
Lemma map_prefix_enm st ty : enm (map_prefix st ty) = enm st.
Proof. unfold map_prefix. destruct (nm_lookup (enm st) ty); reflexivity. Qed.

Lemma struct_prefix_enm st ty fs c : nm_lookup (enm st) ty = Some c -> enm (struct_prefix st ty fs) = enm st.
Proof.
  intros L. unfold struct_prefix. rewrite L.
  destruct (cls_index (ecls st) c 0);
  match goal with |- context [if ?b then _ else _] => destruct b end; cbn [enm emit]; rewrite ?write_cls_def_enm; reflexivity.
Qed.

(* C11 / C12: with a complete name map an encode call does not touch the (shared) name map *)
Theorem complete_maps_unchanged v : forall st st',
  nm_complete (enm st) v = true -> write_data v st = Ok st' -> enm st' = enm st.
Proof.
  induction v using gval_ind'; intros st st' Hc E; cbn [nm_complete] in Hc;
    try (cbn [write_data] in E; inversion E; subst; reflexivity).
  - cbn [write_data] in E. destruct (enc_kind k z); inversion E; reflexivity.
  - cbn [write_data] in E. unfold write_double in E. destruct (gencodeDouble _); inversion E; reflexivity.
  - cbn [write_data] in E. unfold write_double in E. destruct (gencodeDouble _); inversion E; reflexivity.
  - (* struct *)
    rewrite write_data_struct in E. pose proof (check_ref_enm st RStruct a) as CE.
    destruct (check_ref st RStruct a) as [[i|] st1]; cbn [snd] in CE.
    + inversion E; subst. rewrite write_ref_enm. exact CE.
    + apply andb_true_iff in Hc. destruct Hc as [Hl Hfs].
      destruct (nm_lookup (enm st) ty) as [c|] eqn:L; [|discriminate].
      assert (L1 : nm_lookup (enm st1) ty = Some c) by (rewrite CE; exact L).
      pose proof (struct_prefix_enm st1 ty fs c L1) as PE.
      assert (G : forall s s', enm s = enm st -> write_fields fs s = Ok s' -> enm s' = enm st).
      { clear E PE. induction fs as [|[n x] r IHr]; intros s s' Hs Ef; cbn [write_fields] in Ef; [inversion Ef; subst; exact Hs|].
        inversion H as [|? ? Hx Hr]; subst. cbn [forallb snd] in Hfs. apply andb_true_iff in Hfs. destruct Hfs as [Hcx Hcr].
        destruct (write_data x s) as [s1| | |] eqn:Ex; try discriminate.
        apply (IHr Hr Hcr s1 s'); [|exact Ef]. rewrite <- Hs. apply (Hx s s1); [rewrite Hs; exact Hcx|exact Ex]. }
      apply (G _ _ (eq_trans PE CE) E).
  - (* slice *)
    rewrite write_data_slice in E. pose proof (check_ref_enm st RSlice (if (length l =? 0)%nat then 0 else a)) as CE.
    destruct (check_ref st RSlice _) as [[i|] st1]; cbn [snd] in CE.
    + inversion E; subst. rewrite write_ref_enm. exact CE.
    + assert (G : forall s s', enm s = enm st -> write_items l s = Ok s' -> enm s' = enm st).
      { clear E. induction l as [|x r IHr]; intros s s' Hs Ef; cbn [write_items] in Ef; [inversion Ef; subst; exact Hs|].
        inversion H as [|? ? Hx Hr]; subst. cbn [forallb] in Hc. apply andb_true_iff in Hc. destruct Hc as [Hcx Hcr].
        destruct (write_data x s) as [s1| | |] eqn:Ex; try discriminate.
        apply (IHr Hr Hcr s1 s'); [|exact Ef]. rewrite <- Hs. apply (Hx s s1); [rewrite Hs; exact Hcx|exact Ex]. }
      apply (G _ _ (eq_trans (list_header_enm _ _ _) CE) E).
  - (* map *)
    rewrite write_data_map in E. destruct es as [|e0 es0]; [inversion E; reflexivity|].
    pose proof (check_ref_enm st RMap a) as CE.
    destruct (check_ref st RMap a) as [[i|] st1]; cbn [snd] in CE.
    + inversion E; subst. rewrite write_ref_enm. exact CE.
    + assert (G : forall l, Forall (fun e => (forall st st', nm_complete (enm st) (fst e) = true -> write_data (fst e) st = Ok st' -> enm st' = enm st) /\
                                            (forall st st', nm_complete (enm st) (snd e) = true -> write_data (snd e) st = Ok st' -> enm st' = enm st)) l ->
                  forallb (fun e => nm_complete (enm st) (fst e) && nm_complete (enm st) (snd e)) l = true ->
                  forall s s', enm s = enm st -> write_entries l s = Ok s' -> enm s' = enm st).
      { clear. induction l as [|[k x] r IHr]; intros HF Hc s s' Hs Ef; cbn [write_entries] in Ef; [inversion Ef; subst; exact Hs|].
        inversion HF as [|? ? [Hk Hx] Hr]; subst. cbn [forallb fst snd] in Hc, Hk, Hx.
        apply andb_true_iff in Hc. destruct Hc as [Hkx Hcr]. apply andb_true_iff in Hkx. destruct Hkx as [Hck Hcx].
        destruct (write_data k s) as [s1| | |] eqn:Ek; try discriminate.
        destruct (write_data x s1) as [s2| | |] eqn:Ex; try discriminate.
        assert (H1 : enm s1 = enm st) by (rewrite <- Hs; apply (Hk s s1); [rewrite Hs; exact Hck|exact Ek]).
        assert (H2 : enm s2 = enm st) by (rewrite <- H1; apply (Hx s1 s2); [rewrite H1; exact Hcx|exact Ex]).
        apply (IHr Hr Hcr s2 s' H2 Ef). }
      destruct (write_entries (e0 :: es0) (map_prefix st1 ty)) as [s| | |] eqn:Ee; try discriminate.
      inversion E; subst. rewrite emit_enm.
      apply (G (e0 :: es0) H Hc _ _ (eq_trans (map_prefix_enm _ _) CE) Ee).
  - cbn [write_data] in E. destruct (ref_find (erefs st) a k 0) as [i|]; inversion E; reflexivity.
Qed.

(* every step of a history over values for which nm is complete keeps the name map *)
Lemma estep_enm nm st o : enm st = nm -> op_complete nm o = true -> enm (fst (estep st o)) = nm.
Proof.
  intros Hs Hc. destruct o as [v|v|]; cbn [estep op_complete] in *.
  - destruct (write_data v (reset st)) as [st'| | |] eqn:E; cbn [fst]; try (cbn; exact Hs).
    rewrite (complete_maps_unchanged v (reset st) st'); [cbn; exact Hs|cbn [reset enm]; rewrite Hs; exact Hc|exact E].
  - destruct (write_data v _) as [st'| | |] eqn:E; cbn [fst]; try exact Hs.
    pose proof (complete_maps_unchanged v {| ecls := ecls st; erefs := erefs st; enm := enm st; eout := [] |} st') as CM.
    cbn [enm] in CM. rewrite Hs in CM, E. rewrite (CM Hc E). reflexivity.
  - cbn. exact Hs.
Qed.
Lemma erun_enm nm h : forall st, enm st = nm -> forallb (op_complete nm) h = true -> enm (erun h st) = nm.
Proof.
  induction h as [|o r IH]; intros st Hs Hc; cbn [erun fold_left]; [exact Hs|].
  cbn [forallb] in Hc. apply andb_true_iff in Hc. destruct Hc as [Ho Hr].
  apply IH; [apply estep_enm; assumption|exact Hr].
Qed.

(* C11: after ANY history of calls (one-shot or streaming, successful or failed, any values for
   which the caller's map is complete) a one-shot encode gives exactly what a fresh instance gives *)
Theorem reuse_is_fresh nm h v :
  forallb (op_complete nm) h = true ->
  snd (estep (erun h (estate0 nm)) (OEncode v)) = snd (estep (estate0 nm) (OEncode v)).
Proof.
  intros Hc. pose proof (erun_enm nm h (estate0 nm) eq_refl Hc) as E.
  cbn [estep]. unfold reset. rewrite E. reflexivity.
Qed.

Example reuse_nonvacuous :
  let nm := [([73], [73])] in
  let h := [OEncode (VStruct 1 [73] [([65], VInt KInt32 5)]); OWrite (VSlice 2 [91] [VBad]); OWrite (VStruct 1 [73] [([65], VInt KInt32 5)]); OReset] in
  forallb (op_complete nm) h = true /\ ecls (erun [OWrite (VStruct 1 [73] [([65], VInt KInt32 5)])] (estate0 nm)) <> [].
Proof. cbv zeta. split; [vm_compute; reflexivity|vm_compute; discriminate]. Qed.
