(* C16: facts about the extraction model (Model/Extraction.v):
   - the walk never runs out of fuel (termination, also on cyclic heaps and recursive types);
   - the maps it builds are consistent (every name-map entry leads back to the type);
   - they are closed under the static structure of every registered type. *)
From Coq Require Import ZArith List Bool Arith Lia.
From GH Require Import Base.Result Model.Scalars Spec.Grammar Model.Encoder Model.Extraction.
Import ListNotations.
Local Open Scope nat_scope.

(* ---------- association lists ---------- *)
Lemma name_eqb_eq a b : name_eqb a b = true <-> a = b.
Proof.
  revert b. induction a as [|x a IH]; destruct b as [|y b]; cbn; split; intros H; try discriminate; try reflexivity.
  - apply andb_true_iff in H. destruct H as [H1 H2]. apply Z.eqb_eq in H1. apply IH in H2. subst. reflexivity.
  - inversion H; subst. rewrite Z.eqb_refl. cbn. apply IH. reflexivity.
Qed.
Lemma name_eqb_refl a : name_eqb a a = true.
Proof. apply name_eqb_eq. reflexivity. Qed.
Lemma name_eqb_neq a b : a <> b -> name_eqb a b = false.
Proof. intros H. destruct (name_eqb a b) eqn:E; [apply name_eqb_eq in E; contradiction|reflexivity]. Qed.
Lemma name_eq_dec (a b : name) : {a = b} + {a <> b}.
Proof. destruct (name_eqb a b) eqn:E; [left; apply name_eqb_eq; exact E|right; intros H; apply name_eqb_eq in H; congruence]. Qed.

Lemma tm_get_set_same m k v : tm_get (tm_set m k v) k = Some v.
Proof.
  induction m as [|[k' v'] r IH]; cbn; [rewrite name_eqb_refl; reflexivity|].
  destruct (name_eqb k k') eqn:E; cbn; [rewrite name_eqb_refl; reflexivity|rewrite E; exact IH].
Qed.
Lemma tm_get_set_other m k k' v : k <> k' -> tm_get (tm_set m k v) k' = tm_get m k'.
Proof.
  intros N. induction m as [|[k0 v0] r IH]; cbn.
  - rewrite (name_eqb_neq k' k) by congruence. reflexivity.
  - destruct (name_eqb k k0) eqn:E; cbn.
    + apply name_eqb_eq in E. subst k0. rewrite (name_eqb_neq k' k) by congruence. reflexivity.
    + destruct (name_eqb k' k0); [reflexivity|exact IH].
Qed.
Lemma nm_get_set_same m k v : nm_lookup (nm_set m k v) k = Some v.
Proof.
  induction m as [|[k' v'] r IH]; cbn; [rewrite name_eqb_refl; reflexivity|].
  destruct (name_eqb k k') eqn:E; cbn; [rewrite name_eqb_refl; reflexivity|rewrite E; exact IH].
Qed.
Lemma nm_get_set_other m k k' v : k <> k' -> nm_lookup (nm_set m k v) k' = nm_lookup m k'.
Proof.
  intros N. induction m as [|[k0 v0] r IH]; cbn.
  - rewrite (name_eqb_neq k' k) by congruence. reflexivity.
  - destruct (name_eqb k k0) eqn:E; cbn.
    + apply name_eqb_eq in E. subst k0. rewrite (name_eqb_neq k' k) by congruence. reflexivity.
    + destruct (name_eqb k' k0); [reflexivity|exact IH].
Qed.

Definition has (st : xstate) (n : name) : Prop := tm_get (xtm st) n <> None.
Definition mono (s s' : xstate) : Prop := forall n, has s n -> has s' n.

(* ---------- the extractor ---------- *)
Lemma extractor_some env t ro st st1 : extractor env t ro st = Some st1 ->
  exists d, nth_error env t = Some d /\ tm_get (xtm st) (tname d) = None /\
    ((st1 = {| xtm := tm_set (xtm st) (tname d) t; xnm := nm_set (xnm st) (tname d) (tname d) |} /\ (ro = true \/ tcodec d = None)) \/
     (exists cn, tcodec d = Some cn /\ ro = false /\
        st1 = {| xtm := tm_set (tm_set (xtm st) (tname d) t) cn t; xnm := nm_set (nm_set (xnm st) (tname d) (tname d)) (tname d) cn |})).
Proof.
  unfold extractor. destruct (nth_error env t) as [d|]; [|discriminate].
  destruct (tm_get (xtm st) (tname d)) eqn:G; [discriminate|]. intros H. exists d. split; [reflexivity|]. split; [exact G|].
  destruct ro; [left; inversion H; split; [reflexivity|left; reflexivity]|].
  destruct (tcodec d) as [cn|]; inversion H; [right; exists cn; repeat split|left; split; [reflexivity|right; reflexivity]].
Qed.
Lemma extractor_none env t ro st : extractor env t ro st = None ->
  nth_error env t = None \/ exists d, nth_error env t = Some d /\ has st (tname d).
Proof.
  unfold extractor. destruct (nth_error env t) as [d|]; [|left; reflexivity].
  destruct (tm_get (xtm st) (tname d)) eqn:G.
  - intros _. right. exists d. split; [reflexivity|]. unfold has. rewrite G. discriminate.
  - destruct (if ro then None else tcodec d); discriminate.
Qed.
Lemma extractor_mono env t ro st st1 : extractor env t ro st = Some st1 -> mono st st1.
Proof.
  intros H n Hn. destruct (extractor_some _ _ _ _ _ H) as (d & D & G & [[-> _]|(cn & C & R & ->)]); unfold has in *; cbn.
  - destruct (name_eq_dec (tname d) n) as [->|N]; [rewrite tm_get_set_same; discriminate|rewrite tm_get_set_other by exact N; exact Hn].
  - destruct (name_eq_dec cn n) as [->|N1]; [rewrite tm_get_set_same; discriminate|]. rewrite tm_get_set_other by exact N1.
    destruct (name_eq_dec (tname d) n) as [->|N]; [rewrite tm_get_set_same; discriminate|rewrite tm_get_set_other by exact N; exact Hn].
Qed.
Lemma extractor_registers env t ro st st1 d : extractor env t ro st = Some st1 -> nth_error env t = Some d -> has st1 (tname d).
Proof.
  intros H D. destruct (extractor_some _ _ _ _ _ H) as (d' & D' & G & [[-> _]|(cn & C & R & ->)]); rewrite D in D'; inversion D'; subst d'; unfold has; cbn.
  - rewrite tm_get_set_same. discriminate.
  - destruct (name_eq_dec cn (tname d)) as [->|N]; [rewrite tm_get_set_same; discriminate|].
    rewrite tm_get_set_other by exact N. rewrite tm_get_set_same. discriminate.
Qed.

(* ---------- unfolding the walk ---------- *)
Definition each_walk env h f : list child -> xstate -> result xstate :=
  fix each (l : list child) (s : xstate) : result xstate :=
    match l with [] => Ok s | x :: r => do s1 <- walk env h f x s ;; each r s1 end.
Lemma walk_S env h f c st : walk env h (S f) c st =
  (do tg <- resolve env h c ;;
   match target_type h tg with
   | None => match tg with TStop => Ok st | _ => Panic end
   | Some (t, ro) =>
     match extractor env t ro st with
     | None => Ok st
     | Some st1 => do cs <- children_of env h tg ;; each_walk env h f cs st1
     end
   end).
Proof. reflexivity. Qed.

Section Rel.
Variables (env : tyenv) (h : xheap).
Variable R : xstate -> xstate -> Prop.
Hypothesis R_refl : forall s, R s s.
Hypothesis R_trans : forall a b c, R a b -> R b c -> R a c.
Hypothesis R_ext : forall t ro s s1, extractor env t ro s = Some s1 -> R s s1.
Lemma each_R f : (forall c s s', walk env h f c s = Ok s' -> R s s') ->
  forall l s s', each_walk env h f l s = Ok s' -> R s s'.
Proof.
  intros IH. induction l as [|x r IHl]; intros s s' H; cbn in H.
  - inversion H. apply R_refl.
  - destruct (walk env h f x s) as [s1| | |] eqn:W; try discriminate. cbn in H.
    eapply R_trans; [eapply IH; exact W|apply IHl; exact H].
Qed.
Lemma walk_R : forall f c s s', walk env h f c s = Ok s' -> R s s'.
Proof.
  induction f as [|f IH]; intros c s s' H; [discriminate|]. rewrite walk_S in H.
  destruct (resolve env h c) as [tg| | |]; try discriminate. cbn [bind] in H.
  destruct (target_type h tg) as [[t ro]|].
  - destruct (extractor env t ro s) as [s1|] eqn:E; [|inversion H; apply R_refl].
    destruct (children_of env h tg) as [cs| | |]; try discriminate. cbn [bind] in H.
    eapply R_trans; [eapply R_ext; exact E|eapply each_R; [exact IH|exact H]].
  - destruct tg; try discriminate. inversion H. apply R_refl.
Qed.
End Rel.

Lemma walk_mono env h f c s s' : walk env h f c s = Ok s' -> mono s s'.
Proof.
  apply (walk_R env h mono).
  - intros x n Hn; exact Hn.
  - intros a b c0 H1 H2 n Hn. apply H2, H1, Hn.
  - intros t ro s0 s1 H. eapply extractor_mono; exact H.
Qed.
Lemma each_mono env h f l s s' : each_walk env h f l s = Ok s' -> mono s s'.
Proof.
  apply (each_R env h mono).
  - intros x n Hn; exact Hn.
  - intros a b c0 H1 H2 n Hn. apply H2, H1, Hn.
  - intros c s0 s1 H. eapply walk_mono; exact H.
Qed.

(* ---------- termination ---------- *)
(* no pointer type is its own element type, directly or not (type P *P makes UnpackPtrType spin) *)
Definition ptr_ground (env : tyenv) : Prop := forall t, unpack_ptr_type (S (length env)) env t <> Fuel.
Definition body_addrs (b : xbody) : list nat :=
  match b with
  | XPtr a | XIface a => [a]
  | XList l | XStruct l => l
  | XMap es => flat_map (fun e => [fst e; snd e]) es
  | _ => []
  end.
Definition heap_closed (h : xheap) : Prop :=
  forall a n, nth_error h a = Some n -> forall b, In b (body_addrs (xbd n)) -> b < length h.

Lemma mem_nat_true a l : mem_nat a l = true <-> In a l.
Proof.
  unfold mem_nat. rewrite existsb_exists. split.
  - intros (x & I & E). apply Nat.eqb_eq in E. subst. exact I.
  - intros I. exists a. split; [exact I|apply Nat.eqb_refl].
Qed.
Lemma pigeon (l : list nat) n : NoDup l -> (forall x, In x l -> x < n) -> length l <= n.
Proof.
  intros ND R. rewrite <- (seq_length n 0). apply NoDup_incl_length; [exact ND|].
  intros x I. apply in_seq. specialize (R x I). lia.
Qed.
Lemma bind_fuel {A B} (r : result A) (k : A -> result B) :
  r <> Fuel -> (forall x, r = Ok x -> k x <> Fuel) -> bind r k <> Fuel.
Proof. destruct r; cbn; intros H1 H2; try discriminate; [apply H2; reflexivity|congruence]. Qed.

Lemma unwrap_no_fuel env h : ptr_ground env -> heap_closed h ->
  forall fuel a ro seen, NoDup seen -> (forall x, In x seen -> x < length h) -> length h - length seen < fuel ->
  unwrap fuel env h a ro seen <> Fuel.
Proof.
  intros PG HC. induction fuel as [|f IH]; intros a ro seen ND RG LT; [lia|].
  assert (CONT : forall n, (forall b, In b (body_addrs (xbd n)) -> b < length h) ->
    (do r <- ptr_step env h n seen ;;
     match r with inr tg => Ok tg | inl (Some b) => unwrap f env h b ro (b :: seen) | inl None => Panic end) <> Fuel).
  { intros n HB. unfold ptr_step. destruct (xbd n) eqn:B; cbn [bind]; try discriminate.
    - destruct (unpack_ptr_type (S (length env)) env (xty n)) eqn:U; cbn [bind]; try discriminate. exfalso. eapply PG. exact U.
    - destruct (mem_nat a0 seen) eqn:M; cbn [bind]; [discriminate|].
      assert (NI : ~ In a0 seen) by (intros I; apply mem_nat_true in I; congruence).
      assert (LB : a0 < length h) by (apply HB; left; reflexivity).
      assert (ND' : NoDup (a0 :: seen)) by (constructor; assumption).
      assert (RG' : forall x, In x (a0 :: seen) -> x < length h) by (intros x [<-|I]; [exact LB|apply RG; exact I]).
      pose proof (pigeon _ _ ND' RG') as P. cbn [length] in P.
      apply IH; [exact ND'|exact RG'|cbn [length]; lia]. }
  cbn [unwrap]. destruct (nth_error h a) as [n|] eqn:N; [|discriminate].
  destruct (kind_of env (xty n)) as [k|]; [|discriminate].
  destruct k; try discriminate.
  - destruct (xbd n) eqn:B; try discriminate.
    destruct (nth_error h a0) as [m|] eqn:M; [|discriminate].
    destruct (kind_of env (xty m)) as [k|]; [|discriminate].
    destruct k; try discriminate. apply CONT. intros b I. eapply HC; [exact M|exact I].
  - apply CONT. intros b I. eapply HC; [exact N|exact I].
Qed.

Definition is_some {A} (o : option A) : bool := match o with Some _ => true | None => false end.
Definition unseen (env : tyenv) (st : xstate) : nat :=
  length (filter (fun d => negb (is_some (tm_get (xtm st) (tname d)))) env).
Lemma filter_length_le {A} (p q : A -> bool) l : (forall x, q x = true -> p x = true) -> length (filter q l) <= length (filter p l).
Proof.
  intros I. induction l as [|x r IH]; cbn; [lia|].
  destruct (q x) eqn:Q; [rewrite (I x Q); cbn; lia|destruct (p x); cbn; lia].
Qed.
Lemma filter_length_lt {A} (p q : A -> bool) l x : (forall x, q x = true -> p x = true) ->
  In x l -> p x = true -> q x = false -> length (filter q l) < length (filter p l).
Proof.
  intros I. induction l as [|y r IH]; cbn; [intros []|]. intros [->|IN] P Q.
  - rewrite P, Q. cbn. pose proof (filter_length_le p q r I). lia.
  - specialize (IH IN P Q). destruct (q y) eqn:Qy; [rewrite (I y Qy); cbn; lia|destruct (p y); cbn; lia].
Qed.
Lemma unseen_step s s' : mono s s' ->
  forall x, negb (is_some (tm_get (xtm s') (tname x))) = true -> negb (is_some (tm_get (xtm s) (tname x))) = true.
Proof.
  intros M x H. destruct (tm_get (xtm s) (tname x)) eqn:G; [|reflexivity].
  assert (Hs : has s (tname x)) by (unfold has; rewrite G; discriminate).
  apply M in Hs. unfold has in Hs. destruct (tm_get (xtm s') (tname x)); [discriminate|contradiction].
Qed.
Lemma unseen_mono env s s' : mono s s' -> unseen env s' <= unseen env s.
Proof. intros M. apply filter_length_le. apply unseen_step. exact M. Qed.
Lemma unseen_extractor env t ro s s1 : extractor env t ro s = Some s1 -> unseen env s1 < unseen env s.
Proof.
  intros E. destruct (extractor_some _ _ _ _ _ E) as (d & D & G & _).
  apply (filter_length_lt _ _ env d).
  - apply unseen_step. eapply extractor_mono; exact E.
  - eapply nth_error_In; exact D.
  - rewrite G. reflexivity.
  - pose proof (extractor_registers _ _ _ _ _ d E D) as Hs. unfold has in Hs.
    destruct (tm_get (xtm s1) (tname d)); [reflexivity|contradiction].
Qed.

Lemma resolve_no_fuel env h c : ptr_ground env -> heap_closed h -> resolve env h c <> Fuel.
Proof.
  intros PG HC. destruct c as [a ro|t ro]; cbn [resolve].
  - apply unwrap_no_fuel; [exact PG|exact HC|constructor|intros x []|cbn; lia].
  - destruct (kind_of env t) as [k|]; [|discriminate]. destruct k; try discriminate.
    apply bind_fuel; [apply PG|discriminate].
Qed.
Lemma zip_fields_no_fuel ts l ro : zip_fields ts l ro <> Fuel.
Proof.
  revert l. induction ts as [|[ex t] tr IH]; intros [|x r]; cbn; try discriminate.
  apply bind_fuel; [apply IH|discriminate].
Qed.
Lemma children_no_fuel env h tg : children_of env h tg <> Fuel.
Proof.
  destruct tg as [|a ro|t ro]; cbn; [discriminate| |].
  - destruct (nth_error h a) as [n|]; [|discriminate].
    destruct (kind_of env (xty n)) as [[| | | | | |]|]; destruct (xbd n) as [| | | |[|]|[|]|]; try discriminate; apply zip_fields_no_fuel.
  - destruct (kind_of env t) as [[| | | |[|]| |]|]; discriminate.
Qed.

Lemma walk_no_fuel env h : ptr_ground env -> heap_closed h ->
  forall f c s, unseen env s < f -> walk env h f c s <> Fuel.
Proof.
  intros PG HC. induction f as [|f IH]; intros c s LT; [lia|]. rewrite walk_S.
  apply bind_fuel; [apply resolve_no_fuel; assumption|]. intros tg _.
  destruct (target_type h tg) as [[t ro]|]; [|destruct tg; discriminate].
  destruct (extractor env t ro s) as [s1|] eqn:E; [|discriminate].
  apply bind_fuel; [apply children_no_fuel|]. intros cs _.
  pose proof (unseen_extractor _ _ _ _ _ E) as U1.
  assert (G : forall l s0, unseen env s0 < f -> each_walk env h f l s0 <> Fuel).
  { induction l as [|x r IHl]; intros s0 L0; cbn; [discriminate|].
    apply bind_fuel; [apply IH; exact L0|]. intros s2 W. apply IHl.
    pose proof (unseen_mono env _ _ (walk_mono _ _ _ _ _ _ W)). lia. }
  apply G. lia.
Qed.

Lemma unseen_le env s : unseen env s <= length env.
Proof. unfold unseen. induction env as [|x r IH]; cbn; [lia|]. destruct (negb _); cbn; lia. Qed.
Theorem extract_walk_terminates env h root : ptr_ground env -> heap_closed h -> extract_walk env h root <> Fuel.
Proof.
  intros PG HC. destruct root as [a|]; unfold extract_walk; [|discriminate].
  apply walk_no_fuel; [exact PG|exact HC|]. pose proof (unseen_le env xstate0). unfold walk_fuel. lia.
Qed.
Theorem extract_terminates builtin env h root : ptr_ground env -> heap_closed h -> extract builtin env h root <> Fuel.
Proof.
  intros PG HC. unfold extract. apply bind_fuel; [apply extract_walk_terminates; assumption|discriminate].
Qed.

(* ---------- consistency of the two maps ---------- *)
Definition wire_names (d : tdesc) : list name := tname d :: match tcodec d with Some c => [c] | None => [] end.
(* distinct types have distinct Go names and custom names *)
Definition names_distinct (env : tyenv) : Prop :=
  forall i j di dj n, nth_error env i = Some di -> nth_error env j = Some dj ->
    In n (wire_names di) -> In n (wire_names dj) -> i = j.
Definition tm_ok env st := forall n t, tm_get (xtm st) n = Some t ->
  exists d, nth_error env t = Some d /\ In n (wire_names d) /\ tm_get (xtm st) (tname d) = Some t.
Definition nm_ok env st := forall k w, nm_lookup (xnm st) k = Some w ->
  exists t d, nth_error env t = Some d /\ tname d = k /\ tm_get (xtm st) k = Some t /\ tm_get (xtm st) w = Some t /\
              (w = k \/ tcodec d = Some w).
Definition maps_ok env st := tm_ok env st /\ nm_ok env st.

Lemma in_wire_tname d : In (tname d) (wire_names d).
Proof. left. reflexivity. Qed.
Lemma in_wire_codec d cn : tcodec d = Some cn -> In cn (wire_names d).
Proof. intros H. unfold wire_names. rewrite H. right. left. reflexivity. Qed.

Lemma extractor_ok env : names_distinct env -> forall t ro s s1, extractor env t ro s = Some s1 -> maps_ok env s -> maps_ok env s1.
Proof.
  intros ND t ro s s1 E [TO NO].
  destruct (extractor_some _ _ _ _ _ E) as (d & D & G & [[-> _]|(cn & C & R & ->)]).
  - split.
    + intros n t0 H. cbn in H. destruct (name_eq_dec (tname d) n) as [<-|N].
      * rewrite tm_get_set_same in H. inversion H; subst t0. exists d. cbn. rewrite tm_get_set_same. repeat split; [exact D|apply in_wire_tname].
      * rewrite tm_get_set_other in H by exact N. destruct (TO _ _ H) as (d0 & D0 & I0 & G0). exists d0. cbn.
        rewrite tm_get_set_other by (intros X; rewrite <- X in G0; congruence). repeat split; assumption.
    + intros k w H. cbn in H. destruct (name_eq_dec (tname d) k) as [<-|N].
      * rewrite nm_get_set_same in H. inversion H; subst w. exists t, d. cbn. rewrite tm_get_set_same. repeat split; [exact D|left; reflexivity].
      * rewrite nm_get_set_other in H by exact N. destruct (NO _ _ H) as (t0 & d0 & D0 & K0 & G1 & G2 & W). exists t0, d0. cbn.
        rewrite !tm_get_set_other by (intros X; rewrite <- X in *; congruence). repeat split; assumption.
  - (* with a custom name *)
    assert (OLD : forall n t0 d0, tm_get (xtm s) n = Some t0 -> nth_error env t0 = Some d0 -> In n (wire_names d0) ->
                  tm_get (xtm s) (tname d0) = Some t0 -> n <> cn /\ n <> tname d).
    { intros n t0 d0 H D0 I0 G0. split.
      - intros ->. assert (t0 = t) by (eapply ND; [exact D0|exact D|exact I0|apply in_wire_codec; exact C]). subst t0.
        rewrite D in D0. inversion D0; subst d0. congruence.
      - intros ->. congruence. }
    assert (GT : tm_get (tm_set (tm_set (xtm s) (tname d) t) cn t) (tname d) = Some t).
    { destruct (name_eq_dec cn (tname d)) as [->|N]; [apply tm_get_set_same|rewrite tm_get_set_other by exact N; apply tm_get_set_same]. }
    split.
    + intros n t0 H. cbn in H. destruct (name_eq_dec cn n) as [<-|N1].
      * rewrite tm_get_set_same in H. inversion H; subst t0. exists d. cbn. repeat split; [exact D|apply in_wire_codec; exact C|exact GT].
      * rewrite tm_get_set_other in H by exact N1. destruct (name_eq_dec (tname d) n) as [<-|N].
        -- rewrite tm_get_set_same in H. inversion H; subst t0. exists d. cbn. repeat split; [exact D|apply in_wire_tname|exact GT].
        -- rewrite tm_get_set_other in H by exact N. destruct (TO _ _ H) as (d0 & D0 & I0 & G0). exists d0. cbn.
           destruct (OLD _ _ _ G0 D0 (in_wire_tname d0) G0) as [O1 O2].
           rewrite !tm_get_set_other by congruence. repeat split; assumption.
    + intros k w H. cbn in H. destruct (name_eq_dec (tname d) k) as [<-|N].
      * rewrite nm_get_set_same in H. inversion H; subst w. exists t, d. cbn. rewrite tm_get_set_same. repeat split; [exact D|exact GT|right; exact C].
      * rewrite !nm_get_set_other in H by exact N. destruct (NO _ _ H) as (t0 & d0 & D0 & K0 & G1 & G2 & W). exists t0, d0. cbn.
        assert (G0 : tm_get (xtm s) (tname d0) = Some t0) by (rewrite K0; exact G1).
        destruct (OLD _ _ _ G0 D0 (in_wire_tname d0) G0) as [O1 O2]. rewrite K0 in O1, O2.
        assert (IW : In w (wire_names d0)) by (destruct W as [->|W]; [rewrite <- K0; apply in_wire_tname|apply in_wire_codec; exact W]).
        destruct (OLD _ _ _ G2 D0 IW G0) as [O3 O4].
        rewrite !tm_get_set_other by congruence. repeat split; assumption.
Qed.
Lemma walk_ok env h : names_distinct env -> forall f c s s', walk env h f c s = Ok s' -> maps_ok env s -> maps_ok env s'.
Proof.
  intros ND. apply (walk_R env h (fun s s' => maps_ok env s -> maps_ok env s')).
  - intros s H; exact H.
  - intros a b c H1 H2 H. apply H2, H1, H.
  - intros t ro s s1 E. eapply extractor_ok; [exact ND|exact E].
Qed.
Lemma maps_ok0 env : maps_ok env xstate0.
Proof. split; intros ? ? H; discriminate. Qed.
Theorem extract_walk_consistent env h root st : names_distinct env -> extract_walk env h root = Ok st -> maps_ok env st.
Proof.
  intros ND H. destruct root as [a|]; unfold extract_walk in H.
  - eapply walk_ok; [exact ND|exact H|apply maps_ok0].
  - inversion H. apply maps_ok0.
Qed.

(* one step of the list-name rewriting: the entry, its new name and the type agree afterwards *)
Lemma rewrite_entry_spec builtin st k r : exists v2,
  nm_lookup (xnm (rewrite_entry builtin st k (91%Z :: r))) k = Some v2 /\
  nm_lookup (xnm (rewrite_entry builtin st k (91%Z :: r))) v2 = Some v2 /\
  (forall t, tm_get (xtm st) k = Some t -> tm_get (xtm (rewrite_entry builtin st k (91%Z :: r))) v2 = Some t).
Proof.
  unfold rewrite_entry. cbv zeta.
  set (v1 := format_array_type_name (91%Z :: r)). set (el := array_root_elem_name v1).
  set (v2 := match nm_lookup (xnm st) el with Some rn => go_replace v1 el rn
             | None => match nm_lookup builtin el with Some rn => go_replace v1 el rn | None => v1 end end).
  exists v2. cbn [xnm xtm]. repeat split.
  - destruct (name_eq_dec v2 k) as [->|N]; [apply nm_get_set_same|rewrite nm_get_set_other by exact N; apply nm_get_set_same].
  - apply nm_get_set_same.
  - intros t H. rewrite H. apply tm_get_set_same.
Qed.

(* ---------- closure under the static structure of every registered type ---------- *)
Lemma unpack_S_ptr env f t e : kind_of env t = Some (KPtr e) -> unpack_ptr_type (S f) env t = unpack_ptr_type f env e.
Proof. intros H. cbn [unpack_ptr_type]. rewrite H. reflexivity. Qed.
Lemma unpack_S_nonptr env f t k : kind_of env t = Some k -> (forall e, k <> KPtr e) -> unpack_ptr_type (S f) env t = Ok t.
Proof. intros H N. cbn [unpack_ptr_type]. rewrite H. destruct k; try reflexivity. exfalso. eapply N. reflexivity. Qed.
Lemma unpack_mono env : forall f t u, unpack_ptr_type f env t = Ok u -> unpack_ptr_type (S f) env t = Ok u.
Proof.
  induction f as [|f IH]; intros t u H; [discriminate|]. cbn [unpack_ptr_type] in H.
  destruct (kind_of env t) as [k|] eqn:K; [|discriminate].
  destruct k; try (rewrite (unpack_S_nonptr env _ t _ K) by discriminate; exact H).
  rewrite (unpack_S_ptr env _ t _ K). apply IH. exact H.
Qed.
Lemma unpack_nonptr env : forall f t u, unpack_ptr_type f env t = Ok u ->
  exists k, kind_of env u = Some k /\ forall e, k <> KPtr e.
Proof.
  induction f as [|f IH]; intros t u H; [discriminate|]. cbn [unpack_ptr_type] in H.
  destruct (kind_of env t) as [k|] eqn:K; [|discriminate].
  destruct k; try (inversion H; subst u; eexists; split; [exact K|discriminate]).
  eapply IH. exact H.
Qed.
Inductive pdepth (env : tyenv) : tid -> nat -> Prop :=
| pd_base t k : kind_of env t = Some k -> (forall e, k <> KPtr e) -> pdepth env t 0
| pd_ptr t e n : kind_of env t = Some (KPtr e) -> pdepth env e n -> pdepth env t (S n).
Lemma pdepth_fun env t n : pdepth env t n -> forall m, pdepth env t m -> n = m.
Proof.
  induction 1 as [t k K N|t e n K _ IH]; intros m Hm; inversion Hm as [t' k' K' N'|t' e' n' K' P']; subst.
  - reflexivity.
  - rewrite K in K'. inversion K'; subst k. exfalso. eapply N. reflexivity.
  - rewrite K in K'. inversion K'; subst k'. exfalso. eapply N'. reflexivity.
  - rewrite K in K'. inversion K'; subst e'. f_equal. apply IH. exact P'.
Qed.
Lemma unpack_depth env : forall f t u, unpack_ptr_type f env t = Ok u -> exists n, pdepth env t n.
Proof.
  induction f as [|f IH]; intros t u H; [discriminate|]. cbn [unpack_ptr_type] in H.
  destruct (kind_of env t) as [k|] eqn:K; [|discriminate].
  destruct k; try (exists 0; eapply pd_base; [exact K|discriminate]).
  destruct (IH _ _ H) as [n P]. exists (S n). eapply pd_ptr; [exact K|exact P].
Qed.

Definition nty (h : xheap) (a : nat) : option tid := option_map xty (nth_error h a).
Definition node_typed (env : tyenv) (h : xheap) (n : xnode) : Prop :=
  match kind_of env (xty n), xbd n with
  | Some (KPtr e), XNil => True
  | Some (KPtr e), XPtr b => nty h b = Some e
  | Some KIface, XNil | Some KIface, XIface _ => True
  | Some (KSlice e), XNil => True
  | Some (KSlice e), XList l | Some (KArray _ e), XList l => forall x, In x l -> nty h x = Some e
  | Some (KMap k v), XNil => True
  | Some (KMap k v), XMap es => forall e, In e es -> nty h (fst e) = Some k /\ nty h (snd e) = Some v
  | Some (KStruct ts), XStruct fs => Forall2 (fun t x => nty h x = Some (snd t)) ts fs
  | Some KRaw, _ => True
  | _, _ => False
  end.
Definition heap_typed env h := forall a n, nth_error h a = Some n -> node_typed env h n.

Definition child_type (h : xheap) (c : child) : option tid :=
  match c with CNode a _ => nty h a | CZero t _ => Some t end.
Definition is_iface env u := kind_of env u = Some KIface.

Lemma unwrap_spec env h : heap_typed env h -> forall fuel a ro seen tg ct u,
  nty h a = Some ct -> unpack_ptr_type (S (length env)) env ct = Ok u ->
  (forall x tx dx da, In x seen -> nty h x = Some tx -> pdepth env tx dx -> pdepth env ct da -> da <= dx) ->
  unwrap fuel env h a ro seen = Ok tg ->
  is_iface env u \/ exists ro', target_type h tg = Some (u, ro').
Proof.
  intros HT. induction fuel as [|f IH]; intros a ro seen tg ct u NT U INV H; [discriminate|].
  cbn [unwrap] in H. unfold nty in NT. destruct (nth_error h a) as [n|] eqn:N; [|discriminate]. cbn in NT. inversion NT as [X]. 
  destruct (kind_of env (xty n)) as [k|] eqn:K; [|discriminate]. rewrite X in K.
  assert (PLAIN : (forall e, k <> KPtr e) -> k <> KIface -> tg = TNode a ro -> is_iface env u \/ exists ro', target_type h tg = Some (u, ro')).
  { intros NP NI ->. right. exists ro. rewrite (unpack_S_nonptr env _ ct k K NP) in U. inversion U; subst u.
    cbn. rewrite N. cbn. rewrite X. reflexivity. }
  destruct k; try (apply PLAIN; [discriminate|discriminate|inversion H; reflexivity]).
  - (* interface *) left. rewrite (unpack_S_nonptr env _ ct _ K) in U by discriminate. inversion U; subst u. exact K.
  - (* pointer *)
    pose proof (HT _ _ N) as TY. unfold node_typed in TY. rewrite X, K in TY.
    unfold ptr_step in H. destruct (xbd n) eqn:B; try contradiction.
    + rewrite X in H. rewrite U in H. cbn [bind] in H. inversion H; subst tg. right. exists false. reflexivity.
    + rewrite (unpack_S_ptr env _ ct _ K) in U. destruct (unpack_depth _ _ _ _ U) as [de PE].
      assert (PC : pdepth env ct (S de)) by (eapply pd_ptr; [exact K|exact PE]).
      destruct (mem_nat a0 seen) eqn:M; cbn [bind] in H.
      * exfalso. apply mem_nat_true in M. specialize (INV a0 e de (S de) M TY PE PC). lia.
      * eapply (IH a0 ro (a0 :: seen) tg e u); [exact TY|apply unpack_mono; exact U| |exact H].
        intros x tx dx da [<-|I] TX PX PA.
        -- rewrite TY in TX. inversion TX; subst tx. rewrite (pdepth_fun _ _ _ PX _ PA). lia.
        -- pose proof (INV x tx dx (S de) I TX PX PC). rewrite (pdepth_fun _ _ _ PA _ PE). lia.
Qed.

Lemma resolve_spec env h c tg ct u : heap_typed env h -> child_type h c = Some ct -> resolve env h c = Ok tg ->
  unpack_ptr_type (S (length env)) env ct = Ok u ->
  is_iface env u \/ exists ro', target_type h tg = Some (u, ro').
Proof.
  intros HT CT R U. destruct c as [a ro|t ro]; cbn [child_type resolve] in CT, R.
  - eapply (unwrap_spec env h HT _ a ro [] tg ct u CT U); [|exact R]. intros x tx dx da I; destruct I.
  - inversion CT; subst ct. destruct (kind_of env t) as [k|] eqn:K; [|discriminate].
    destruct k; try (rewrite (unpack_S_nonptr env _ t _ K) in U by discriminate; inversion U; subst u; inversion R; subst tg; right; eexists; reflexivity).
    + left. rewrite (unpack_S_nonptr env _ t _ K) in U by discriminate. inversion U; subst u. exact K.
    + rewrite U in R. cbn [bind] in R. inversion R; subst tg. right. eexists. reflexivity.
Qed.

Definition kid_types (k : tkind) : list tid :=
  match k with KSlice e | KArray _ e => [e] | KMap a b => [a; b] | KStruct fs => map snd fs | _ => [] end.

Lemma zip_fields_cover h ts : forall fs ro cs, Forall2 (fun t x => nty h x = Some (snd t)) ts fs -> zip_fields ts fs ro = Ok cs ->
  forall c, In c (map snd ts) -> exists x, In x cs /\ child_type h x = Some c.
Proof.
  induction ts as [|[ex t] tr IH]; intros fs ro cs F Z c I; [destruct I|].
  inversion F as [|? x ? r TX FR]; subst. cbn in Z. destruct (zip_fields tr r ro) as [cs'| | |] eqn:Z'; try discriminate.
  cbn in Z. inversion Z; subst cs. destruct I as [<-|I].
  - eexists. split; [left; reflexivity|exact TX].
  - destruct (IH _ _ _ FR Z' _ I) as (x0 & I0 & C0). exists x0. split; [right; exact I0|exact C0].
Qed.
Lemma children_cover env h tg t ro d cs : heap_typed env h -> target_type h tg = Some (t, ro) -> nth_error env t = Some d ->
  children_of env h tg = Ok cs -> forall c, In c (kid_types (tkd d)) -> exists x, In x cs /\ child_type h x = Some c.
Proof.
  intros HT TT D CH c I. destruct tg as [|a r|t0 r]; cbn in TT; [discriminate| |].
  - destruct (nth_error h a) as [n|] eqn:N; [|discriminate]. cbn in TT. inversion TT; subst t ro.
    pose proof (HT _ _ N) as TY. unfold node_typed in TY. cbn in CH. rewrite N in CH.
    unfold kind_of in *. rewrite D in *. cbn in *.
    destruct (tkd d) as [| |e|e|m e|k v|ts]; cbn in I; try contradiction.
    + destruct I as [<-|[]]. destruct (xbd n) as [| | | |[|x l]| |]; try contradiction; inversion CH; subst cs.
      * eexists; split; [left; reflexivity|reflexivity].
      * eexists; split; [left; reflexivity|reflexivity].
      * exists (CNode x r). split; [left; reflexivity|]. cbn. apply TY. left. reflexivity.
    + destruct I as [<-|[]]. destruct (xbd n) as [| | | |[|x l]| |]; try contradiction; inversion CH; subst cs.
      * eexists; split; [left; reflexivity|reflexivity].
      * exists (CNode x r). split; [left; reflexivity|]. cbn. apply TY. left. reflexivity.
    + destruct (xbd n) as [| | | | |[|[ka va] es]|]; try contradiction; inversion CH; subst cs.
      * destruct I as [<-|[<-|[]]]; [exists (CZero k false)|exists (CZero v false)]; (split; [|reflexivity]); [left; reflexivity|right; left; reflexivity].
      * destruct I as [<-|[<-|[]]]; [exists (CZero k false)|exists (CZero v false)]; (split; [|reflexivity]); [left; reflexivity|right; left; reflexivity].
      * destruct (TY (ka, va) (or_introl eq_refl)) as [T1 T2]. cbn in T1, T2.
        destruct I as [<-|[<-|[]]]; [exists (CNode ka r)|exists (CNode va r)]; (split; [|assumption]); [left; reflexivity|right; left; reflexivity].
    + destruct (xbd n); try contradiction. eapply zip_fields_cover; [exact TY|exact CH|exact I].
  - inversion TT; subst t0 r. cbn in CH. unfold kind_of in CH. rewrite D in CH. cbn in CH.
    destruct (tkd d) as [| |e|e|m e|k v|ts]; cbn in I; try contradiction.
    + destruct I as [<-|[]]. inversion CH. eexists; split; [left; reflexivity|reflexivity].
    + destruct I as [<-|[]]. destruct m; inversion CH; eexists; (split; [left; reflexivity|reflexivity]).
    + inversion CH. destruct I as [<-|[<-|[]]]; [exists (CZero k false)|exists (CZero v false)]; (split; [|reflexivity]); [left; reflexivity|right; left; reflexivity].
    + inversion CH. apply in_map_iff in I. destruct I as ([ex ft] & <- & I). exists (CZero ft (ro || negb ex)).
      split; [|reflexivity]. apply in_map_iff. exists (ex, ft). split; [reflexivity|exact I].
Qed.

(* c's pointed-to base type, when it is in the table, is an interface type or registered *)
Definition reg env st (c : tid) : Prop :=
  forall u, unpack_ptr_type (S (length env)) env c = Ok u ->
  exists d, nth_error env u = Some d /\ (tkd d = KIface \/ has st (tname d)).
Definition closed_at env st (t : tid) : Prop :=
  forall d, nth_error env t = Some d -> forall c, In c (kid_types (tkd d)) -> reg env st c.
Definition stable (s s' : xstate) : Prop := forall n t, tm_get (xtm s) n = Some t -> tm_get (xtm s') n = Some t.
Definition fresh_closed env (s s' : xstate) : Prop :=
  forall n t, tm_get (xtm s') n = Some t -> tm_get (xtm s) n = Some t \/ closed_at env s' t.

Lemma stable_mono s s' : stable s s' -> mono s s'.
Proof. intros S n H. unfold has in *. destruct (tm_get (xtm s) n) eqn:G; [|contradiction]. rewrite (S _ _ G). discriminate. Qed.
Lemma reg_mono env s s' c : mono s s' -> reg env s c -> reg env s' c.
Proof. intros M R u U. destruct (R u U) as (d & D & [I|H]); exists d; (split; [exact D|]); [left; exact I|right; apply M; exact H]. Qed.
Lemma closed_mono env s s' t : mono s s' -> closed_at env s t -> closed_at env s' t.
Proof. intros M C d D c I. eapply reg_mono; [exact M|eapply C; [exact D|exact I]]. Qed.

Lemma extractor_stable env : names_distinct env -> forall t ro s s1, extractor env t ro s = Some s1 -> maps_ok env s -> stable s s1.
Proof.
  intros ND t ro s s1 E [TO NO] n t0 H.
  destruct (extractor_some _ _ _ _ _ E) as (d & D & G & [[-> _]|(cn & C & R & ->)]); cbn.
  - rewrite tm_get_set_other by (intros X; rewrite <- X in H; congruence). exact H.
  - destruct (TO _ _ H) as (d0 & D0 & I0 & G0).
    assert (n <> cn).
    { intros ->. assert (t0 = t) by (eapply ND; [exact D0|exact D|exact I0|apply in_wire_codec; exact C]). subst t0.
      rewrite D in D0. inversion D0; subst d0. congruence. }
    rewrite !tm_get_set_other by (intros X; rewrite <- X in H; congruence). exact H.
Qed.
Lemma extractor_new env t ro s s1 n t0 : extractor env t ro s = Some s1 -> tm_get (xtm s1) n = Some t0 ->
  tm_get (xtm s) n = Some t0 \/ t0 = t.
Proof.
  intros E H. destruct (extractor_some _ _ _ _ _ E) as (d & D & G & [[-> _]|(cn & C & R & ->)]); cbn in H.
  - destruct (name_eq_dec (tname d) n) as [<-|N]; [rewrite tm_get_set_same in H; inversion H; right; reflexivity|].
    rewrite tm_get_set_other in H by exact N. left; exact H.
  - destruct (name_eq_dec cn n) as [<-|N1]; [rewrite tm_get_set_same in H; inversion H; right; reflexivity|].
    rewrite tm_get_set_other in H by exact N1.
    destruct (name_eq_dec (tname d) n) as [<-|N]; [rewrite tm_get_set_same in H; inversion H; right; reflexivity|].
    rewrite tm_get_set_other in H by exact N. left; exact H.
Qed.

Section Closed.
Variables (env : tyenv) (h : xheap).
Hypothesis ND : names_distinct env.
Hypothesis HT : heap_typed env h.

Definition walk_post (c : child) (s s' : xstate) : Prop :=
  maps_ok env s' /\ stable s s' /\ fresh_closed env s s' /\ (forall ct, child_type h c = Some ct -> reg env s' ct).

Lemma each_closed f : (forall c s s', maps_ok env s -> walk env h f c s = Ok s' -> walk_post c s s') ->
  forall l s s', maps_ok env s -> each_walk env h f l s = Ok s' ->
  maps_ok env s' /\ stable s s' /\ fresh_closed env s s' /\ (forall x ct, In x l -> child_type h x = Some ct -> reg env s' ct).
Proof.
  intros IH. induction l as [|x r IHl]; intros s s' OK H; cbn in H.
  - inversion H; subst s'. repeat split; [apply OK|apply OK|intros n t G; exact G|intros n t G; left; exact G|intros x ct []].
  - destruct (walk env h f x s) as [s1| | |] eqn:W; try discriminate. cbn [bind] in H.
    destruct (IH _ _ _ OK W) as (OK1 & ST1 & FC1 & RG1).
    destruct (IHl _ _ OK1 H) as (OK2 & ST2 & FC2 & RG2).
    split; [exact OK2|]. split; [intros n t G; apply ST2, ST1, G|]. split.
    + intros n t G. destruct (FC2 _ _ G) as [G1|C]; [|right; exact C].
      destruct (FC1 _ _ G1) as [G0|C]; [left; exact G0|right]. eapply closed_mono; [apply stable_mono; exact ST2|exact C].
    + intros y ct [<-|I] CT; [|eapply RG2; [exact I|exact CT]].
      eapply reg_mono; [apply stable_mono; exact ST2|apply RG1; exact CT].
Qed.

Lemma walk_closed : forall f c s s', maps_ok env s -> walk env h f c s = Ok s' -> walk_post c s s'.
Proof.
  induction f as [|f IH]; intros c s s' OK H; [discriminate|]. rewrite walk_S in H.
  destruct (resolve env h c) as [tg| | |] eqn:RS; try discriminate. cbn [bind] in H.
  assert (IFACE : forall u, is_iface env u -> exists d, nth_error env u = Some d /\ (tkd d = KIface \/ has s' (tname d))).
  { intros u I. unfold is_iface, kind_of in I. destruct (nth_error env u) as [d|]; [|discriminate]. cbn in I. injection I as I'.
    exists d. split; [reflexivity|left; exact I']. }
  destruct (target_type h tg) as [[t ro]|] eqn:TT.
  - destruct (extractor env t ro s) as [s1|] eqn:E.
    + destruct (children_of env h tg) as [cs| | |] eqn:CH; try discriminate. cbn [bind] in H.
      pose proof (extractor_ok env ND _ _ _ _ E OK) as OK1.
      pose proof (extractor_stable env ND _ _ _ _ E OK) as ST1.
      destruct (each_closed f IH _ _ _ OK1 H) as (OK2 & ST2 & FC2 & RG2).
      split; [exact OK2|]. split; [intros n t0 G; apply ST2, ST1, G|]. split.
      * intros n t0 G. destruct (FC2 _ _ G) as [G1|C]; [|right; exact C].
        destruct (extractor_new _ _ _ _ _ _ _ E G1) as [G0| ->]; [left; exact G0|right].
        intros d D c0 I. destruct (children_cover env h tg t ro d cs HT TT D CH c0 I) as (x & IX & CX).
        eapply RG2; [exact IX|exact CX].
      * intros ct CT u U. destruct (resolve_spec env h c tg ct u HT CT RS U) as [I|[ro' T']]; [apply IFACE; exact I|].
        rewrite TT in T'. inversion T'; subst u ro'.
        destruct (unpack_nonptr _ _ _ _ U) as (k & K & _). unfold kind_of in K. destruct (nth_error env t) as [d|] eqn:D; [|discriminate].
        exists d. split; [reflexivity|right]. apply (stable_mono _ _ ST2). eapply extractor_registers; [exact E|exact D].
    + inversion H; subst s'. split; [exact OK|]. split; [intros n t0 G; exact G|]. split; [intros n t0 G; left; exact G|].
      intros ct CT u U. destruct (resolve_spec env h c tg ct u HT CT RS U) as [I|[ro' T']]; [apply IFACE; exact I|].
      rewrite TT in T'. inversion T'; subst u ro'.
      destruct (extractor_none _ _ _ _ E) as [X|(d & D & Hs)].
      * destruct (unpack_nonptr _ _ _ _ U) as (k & K & _). unfold kind_of in K. rewrite X in K. discriminate.
      * exists d. split; [exact D|right; exact Hs].
  - destruct tg; try discriminate. inversion H; subst s'. split; [exact OK|]. split; [intros n t0 G; exact G|]. split; [intros n t0 G; left; exact G|].
    intros ct CT u U. destruct (resolve_spec env h c TStop ct u HT CT RS U) as [I|[ro' T']]; [apply IFACE; exact I|discriminate].
Qed.
End Closed.

(* every type registered by the walk has all its statically reachable component types
   registered (an interface type ends the static structure) *)
Theorem extract_walk_closed env h root st : names_distinct env -> heap_typed env h ->
  extract_walk env h root = Ok st -> forall n t, tm_get (xtm st) n = Some t -> closed_at env st t.
Proof.
  intros ND HT H n t G. destruct root as [a|]; unfold extract_walk in H; [|inversion H; subst st; discriminate].
  destruct (walk_closed env h ND HT _ _ _ _ (maps_ok0 env) H) as (_ & _ & FC & _).
  destruct (FC _ _ G) as [X|C]; [discriminate|exact C].
Qed.
(* and the root's own base type is registered (or is an interface type) *)
Theorem extract_walk_root env h a st ct : names_distinct env -> heap_typed env h ->
  extract_walk env h (Some a) = Ok st -> nty h a = Some ct -> reg env st ct.
Proof.
  intros ND HT H CT. unfold extract_walk in H.
  destruct (walk_closed env h ND HT _ _ _ _ (maps_ok0 env) H) as (_ & _ & _ & RG). apply RG. exact CT.
Qed.

(* the transitive version: from a registered type, everything statically reachable *)
Inductive sreach (env : tyenv) : tid -> tid -> Prop :=
| sr_refl t : sreach env t t
| sr_step t m d c u : sreach env t m -> nth_error env m = Some d -> In c (kid_types (tkd d)) ->
    unpack_ptr_type (S (length env)) env c = Ok u -> ~ is_iface env u -> sreach env t u.
Definition registered env st (t : tid) : Prop := exists d, nth_error env t = Some d /\ tm_get (xtm st) (tname d) = Some t.
Theorem extract_walk_transitively_closed env h root st : names_distinct env -> heap_typed env h ->
  extract_walk env h root = Ok st -> forall t u, registered env st t -> sreach env t u -> registered env st u.
Proof.
  intros ND HT H t u RT SR. induction SR as [t|t m d c u SR IH D I U NI]; [exact RT|].
  destruct (IH RT) as (dm & DM & GM). rewrite D in DM. inversion DM; subst dm.
  pose proof (extract_walk_closed env h root st ND HT H _ _ GM d D c I u U) as (du & DU & [X|Hs]).
  - exfalso. apply NI. unfold is_iface, kind_of. rewrite DU. cbn. rewrite X. reflexivity.
  - exists du. split; [exact DU|]. unfold has in Hs. destruct (tm_get (xtm st) (tname du)) as [t'|] eqn:G; [|contradiction].
    destruct (extract_walk_consistent env h root st ND H) as [TO _].
    destruct (TO _ _ G) as (d' & D' & I' & _). f_equal. eapply ND; [exact D'|exact DU|exact I'|apply in_wire_tname].
Qed.

(* ---------- TypeMapOf / FetchType terminates on every type table ---------- *)
Definition facc := (tymap * list tid)%type.
Definition fetch_fields env f : list (bool * tid) -> facc -> result facc :=
  fix fields (l : list (bool * tid)) (a : facc) : result facc :=
    match l with [] => Ok a | (_, ft) :: r => do a1 <- fetch env f ft a ;; fields r a1 end.
Lemma fetch_S env f t acc : fetch env (S f) t acc =
  (do u <- unpack_ptr_type (S (length env)) env t ;;
   match nth_error env u with
   | None => Panic
   | Some d =>
     let '(tm, walked) := acc in
     match tkd d with
     | KRaw | KIface | KPtr _ => Ok acc
     | KSlice e | KArray _ e => if mem_nat u walked then Ok acc else fetch env f e (tm, u :: walked)
     | KMap k v => if mem_nat u walked then Ok acc else do a1 <- fetch env f k (tm, u :: walked) ;; fetch env f v a1
     | KStruct fs =>
       match tm_get tm (tshort d) with
       | Some _ => Ok acc
       | None => fetch_fields env f fs (tm_set tm (tshort d) u, walked)
       end
     end
   end).
Proof. destruct acc. reflexivity. Qed.

Definition fmono (a a' : facc) : Prop :=
  (forall n, tm_get (fst a) n <> None -> tm_get (fst a') n <> None) /\ (forall u, In u (snd a) -> In u (snd a')).
Lemma fmono_refl a : fmono a a.
Proof. split; intros ? H; exact H. Qed.
Lemma fmono_trans a b c : fmono a b -> fmono b c -> fmono a c.
Proof. intros [A1 A2] [B1 B2]. split; intros ? H; [apply B1, A1, H|apply B2, A2, H]. Qed.
Lemma fmono_walked tm walked u : fmono (tm, walked) (tm, u :: walked).
Proof. split; intros ? H; [exact H|right; exact H]. Qed.
Lemma fmono_set tm walked k v : fmono (tm, walked) (tm_set tm k v, walked).
Proof.
  split; intros n H; [|exact H]. cbn in *.
  destruct (name_eq_dec k n) as [->|N]; [rewrite tm_get_set_same; discriminate|rewrite tm_get_set_other by exact N; exact H].
Qed.
Lemma fetch_mono env : forall f t a a', fetch env f t a = Ok a' -> fmono a a'.
Proof.
  induction f as [|f IH]; intros t a a' H; [discriminate|]. rewrite fetch_S in H.
  destruct (unpack_ptr_type (S (length env)) env t) as [u| | |]; try discriminate. cbn [bind] in H.
  destruct (nth_error env u) as [d|]; [|discriminate]. destruct a as [tm walked].
  assert (FL : forall l a0 a1, fetch_fields env f l a0 = Ok a1 -> fmono a0 a1).
  { induction l as [|[ex ft] r IHl]; intros a0 a1 F; cbn in F; [inversion F; apply fmono_refl|].
    destruct (fetch env f ft a0) as [a2| | |] eqn:F2; try discriminate. cbn [bind] in F.
    eapply fmono_trans; [eapply IH; exact F2|apply IHl; exact F]. }
  destruct (tkd d); try (inversion H; apply fmono_refl).
  - destruct (mem_nat u walked); [inversion H; apply fmono_refl|].
    eapply fmono_trans; [apply fmono_walked|eapply IH; exact H].
  - destruct (mem_nat u walked); [inversion H; apply fmono_refl|].
    eapply fmono_trans; [apply fmono_walked|eapply IH; exact H].
  - destruct (mem_nat u walked); [inversion H; apply fmono_refl|].
    destruct (fetch env f k (tm, u :: walked)) as [a1| | |] eqn:F1; try discriminate. cbn [bind] in H.
    eapply fmono_trans; [apply fmono_walked|]. eapply fmono_trans; [eapply IH; exact F1|eapply IH; exact H].
  - destruct (tm_get tm (tshort d)); [inversion H; apply fmono_refl|].
    eapply fmono_trans; [apply fmono_set|eapply FL; exact H].
Qed.

Definition funseen (env : tyenv) (a : facc) : nat :=
  length (filter (fun d => negb (is_some (tm_get (fst a) (tshort d)))) env) +
  length (filter (fun u => negb (mem_nat u (snd a))) (seq 0 (length env))).
Lemma fmono_p1 a a' : fmono a a' -> forall d : tdesc,
  negb (is_some (tm_get (fst a') (tshort d))) = true -> negb (is_some (tm_get (fst a) (tshort d))) = true.
Proof.
  intros [M _] d H. destruct (tm_get (fst a) (tshort d)) eqn:G; [|reflexivity].
  assert (X : tm_get (fst a) (tshort d) <> None) by (rewrite G; discriminate). apply M in X.
  destruct (tm_get (fst a') (tshort d)); [discriminate|contradiction].
Qed.
Lemma fmono_p2 a a' : fmono a a' -> forall u, negb (mem_nat u (snd a')) = true -> negb (mem_nat u (snd a)) = true.
Proof.
  intros [_ M] u H. destruct (mem_nat u (snd a)) eqn:G; [|reflexivity].
  apply mem_nat_true in G. apply M in G. apply mem_nat_true in G. rewrite G in H. discriminate.
Qed.
Lemma funseen_mono env a a' : fmono a a' -> funseen env a' <= funseen env a.
Proof.
  intros M. unfold funseen.
  pose proof (filter_length_le _ _ env (fmono_p1 a a' M)).
  pose proof (filter_length_le _ _ (seq 0 (length env)) (fmono_p2 a a' M)). lia.
Qed.
Lemma funseen_walked env tm walked u d : nth_error env u = Some d -> mem_nat u walked = false ->
  funseen env (tm, u :: walked) < funseen env (tm, walked).
Proof.
  intros D M. unfold funseen. cbn [fst snd].
  assert (L : u < length env) by (apply nth_error_Some; congruence).
  pose proof (filter_length_lt (fun x => negb (mem_nat x walked)) (fun x => negb (mem_nat x (u :: walked))) (seq 0 (length env)) u) as P.
  enough (length (filter (fun x => negb (mem_nat x (u :: walked))) (seq 0 (length env))) < length (filter (fun x => negb (mem_nat x walked)) (seq 0 (length env)))) by lia.
  apply P.
  - apply (fmono_p2 (tm, walked) (tm, u :: walked)). apply fmono_walked.
  - apply in_seq. lia.
  - rewrite M. reflexivity.
  - cbn. rewrite Nat.eqb_refl. reflexivity.
Qed.
Lemma funseen_set env tm walked u d : nth_error env u = Some d -> tm_get tm (tshort d) = None ->
  funseen env (tm_set tm (tshort d) u, walked) < funseen env (tm, walked).
Proof.
  intros D G. unfold funseen. cbn [fst snd].
  enough (length (filter (fun x => negb (is_some (tm_get (tm_set tm (tshort d) u) (tshort x)))) env) <
          length (filter (fun x => negb (is_some (tm_get tm (tshort x)))) env)) by lia.
  apply (filter_length_lt _ _ env d).
  - apply (fmono_p1 (tm, walked) (tm_set tm (tshort d) u, walked)). apply fmono_set.
  - eapply nth_error_In; exact D.
  - rewrite G. reflexivity.
  - rewrite tm_get_set_same. reflexivity.
Qed.
Lemma lt_chain a b f : a < b -> b < S f -> a < f.
Proof. lia. Qed.
Lemma le_lt_chain a b c f : a <= b -> b < c -> c < S f -> a < f.
Proof. lia. Qed.
Lemma fetch_no_fuel env : ptr_ground env -> forall f t a, funseen env a < f -> fetch env f t a <> Fuel.
Proof.
  intros PG. induction f as [|f IH]; intros t a LT; [lia|]. rewrite fetch_S.
  apply bind_fuel; [apply PG|]. intros u _.
  destruct (nth_error env u) as [d|] eqn:D; [|discriminate]. destruct a as [tm walked].
  assert (FL : forall l a0, funseen env a0 < f -> fetch_fields env f l a0 <> Fuel).
  { induction l as [|[ex ft] r IHl]; intros a0 L0; cbn; [discriminate|].
    apply bind_fuel; [apply IH; exact L0|]. intros a2 F2. apply IHl.
    pose proof (funseen_mono env _ _ (fetch_mono env _ _ _ _ F2)). lia. }
  destruct (tkd d); try discriminate.
  - destruct (mem_nat u walked) eqn:M; [discriminate|]. apply IH. eapply lt_chain; [exact (funseen_walked env tm walked u d D M)|exact LT].
  - destruct (mem_nat u walked) eqn:M; [discriminate|]. apply IH. eapply lt_chain; [exact (funseen_walked env tm walked u d D M)|exact LT].
  - destruct (mem_nat u walked) eqn:M; [discriminate|]. pose proof (funseen_walked env tm walked u d D M) as W.
    apply bind_fuel; [apply IH; eapply lt_chain; [exact W|exact LT]|]. intros a1 F1. apply IH.
    eapply le_lt_chain; [exact (funseen_mono env _ _ (fetch_mono env _ _ _ _ F1))|exact W|exact LT].
  - destruct (tm_get tm (tshort d)) eqn:G; [discriminate|]. apply FL. eapply lt_chain; [exact (funseen_set env tm walked u d D G)|exact LT].
Qed.
Theorem type_map_of_terminates env t : ptr_ground env -> type_map_of env t <> Fuel.
Proof.
  intros PG. unfold type_map_of. apply bind_fuel; [|discriminate]. apply fetch_no_fuel; [exact PG|].
  unfold funseen. cbn [fst snd].
  assert (A : forall (p : tdesc -> bool) l, length (filter p l) <= length l) by (intros p l; induction l as [|x r IHr]; cbn; [lia|destruct (p x); cbn; lia]).
  assert (B : forall (p : nat -> bool) l, length (filter p l) <= length l) by (intros p l; induction l as [|x r IHr]; cbn; [lia|destruct (p x); cbn; lia]).
  eapply Nat.le_lt_trans; [apply Nat.add_le_mono; [apply A|apply B]|]. rewrite seq_length. lia.
Qed.
