From Coq Require Import ZArith List Lia Bool.
From GH Require Import Base.GoSem Base.Result Base.FloatBits Gen.GoConsts Gen.GoLeaf Model.Scalars
  Proofs.IntProofs Proofs.LongProofs Proofs.DateProofs Proofs.FloatFacts.
Import ListNotations.
Open Scope Z_scope.
Ltac Zify.zify_post_hook ::= Z.div_mod_to_equations.
Arguments Z.add : simpl never. Arguments Z.sub : simpl never. Arguments Z.mul : simpl never.
Arguments Z.leb : simpl never. Arguments Z.eqb : simpl never. Arguments Z.ltb : simpl never.

Ltac fconsts := unfold g_doubleZeroTag, g_doubleOneTag, g_doubleOneByteTag, g_doubleTwoByteTag,
                       g_doubleFourByteTag, g_doubleLongStartTag in *.

(* the two tails of encodeDouble *)
Definition enc_f32_form (f : Z) : bytes :=
  [95; wrap 8 (Z.shiftr f 24); wrap 8 (Z.shiftr f 16); wrap 8 (Z.shiftr f 8); wrap 8 f].
Definition enc_f64_form (b : Z) : bytes :=
  let gbits := wrap 64 b in
  [68; wrap 8 (Z.shiftr gbits 56); wrap 8 (Z.shiftr gbits 48); wrap 8 (Z.shiftr gbits 40); wrap 8 (Z.shiftr gbits 32);
       wrap 8 (Z.shiftr gbits 24); wrap 8 (Z.shiftr gbits 16); wrap 8 (Z.shiftr gbits 8); wrap 8 gbits].
Definition enc_tail (b : Z) : result bytes :=
  if f64_eq (widen (narrow b)) b then Ok (enc_f32_form (narrow b)) else Ok (enc_f64_form b).

Lemma gencodeDouble_unfold b :
  gencodeDouble b =
  if f64_eq (of_int64 (trunc64 b)) b then
    let iv := trunc64 b in
    if iv =? 0 then Ok [91] else if iv =? 1 then Ok [92]
    else if (-128 <=? iv) && (iv <=? 127) then Ok [93; wrap 8 (swrap 8 iv)]
    else if (-32768 <=? iv) && (iv <=? 32767) then Ok [94; wrap 8 (Z.shiftr iv 8); wrap 8 iv]
    else enc_tail b
  else enc_tail b.
Proof. reflexivity. Qed.

Theorem double_never_errors b : exists bs, gencodeDouble b = Ok bs.
Proof.
  rewrite gencodeDouble_unfold. unfold enc_tail. cbv zeta.
  repeat (match goal with |- context [if ?c then _ else _] => destruct c end); eexists; reflexivity.
Qed.

Lemma be4_of_u32 f : 0 <= f < 4294967296 ->
  be_val [wrap 8 (Z.shiftr f 24); wrap 8 (Z.shiftr f 16); wrap 8 (Z.shiftr f 8); wrap 8 f] = f.
Proof. intros H. rewrite shr8, shr16, shr24, !wrap8_mod. unfold be_val. cbn [fold_left]. lia. Qed.

Lemma f64_eq_feq a b : f64_eq a b = true -> feq a b = true.
Proof. unfold feq. intros ->. apply orb_true_r. Qed.
Lemma feq_refl b : feq b b = true.
Proof.
  unfold feq, f64_eq. destruct (is_nan64 b); [reflexivity|]. cbn. rewrite Z.eqb_refl. reflexivity.
Qed.

Lemma swrap8_wrap8_small iv : -128 <= iv <= 127 -> swrap 8 (wrap 8 (swrap 8 iv)) = iv.
Proof. intros. rewrite !swrap8_def, wrap8_mod. lia. Qed.
Lemma be2_small iv : -32768 <= iv <= 32767 -> swrap 16 (be_val [wrap 8 (Z.shiftr iv 8); wrap 8 iv]) = iv.
Proof. intros. rewrite shr8, !wrap8_mod, swrap16_def. unfold be_val. cbn [fold_left]. lia. Qed.

(* every float64 bit pattern: the encoder's output decodes to the same number, consuming exactly its bytes *)
Theorem double_roundtrip b rest bs :
  in_f64 b -> gencodeDouble b = Ok bs ->
  exists d, decode_double (bs ++ rest) = Ok (d, rest) /\ feq d b = true.
Proof.
  intros Hb. rewrite gencodeDouble_unfold. cbv zeta.
  assert (Tail : forall bs, enc_tail b = Ok bs -> exists d, decode_double (bs ++ rest) = Ok (d, rest) /\ feq d b = true).
  { clear bs. intros bs. unfold enc_tail.
    destruct (f64_eq (widen (narrow b)) b) eqn:G; intros E; inversion E; subst bs; clear E.
    - exists (widen (narrow b)). split; [|apply f64_eq_feq; exact G].
      unfold enc_f32_form. cbn [app decode_double read_tag bind]. unfold decode_double_tag. fconsts.
      change (95 =? 91) with false. change (95 =? 92) with false. change (95 =? 93) with false.
      change (95 =? 94) with false. change (95 =? 95) with true. cbv iota.
      rewrite read_full_app4. cbn [bind].
      pose proof (narrow_range b Hb) as R. unfold in_f32, p32 in R. rewrite be4_of_u32 by exact R. reflexivity.
    - exists b. split; [|apply feq_refl].
      unfold enc_f64_form. cbv zeta. cbn [app decode_double read_tag bind]. unfold decode_double_tag. fconsts.
      change (68 =? 91) with false. change (68 =? 92) with false. change (68 =? 93) with false.
      change (68 =? 94) with false. change (68 =? 95) with false. change (68 =? 68) with true. cbv iota.
      rewrite read_full_app8. cbn [bind]. rewrite be8_of_value.
      unfold in_f64, p64 in Hb. rewrite wrap64_mod. rewrite Z.mod_mod by lia. rewrite Z.mod_small by lia. reflexivity. }
  destruct (f64_eq (of_int64 (trunc64 b)) b) eqn:G; [|apply Tail].
  set (iv := trunc64 b) in *.
  destruct (iv =? 0) eqn:E0.
  { intros E; inversion E; subst bs. exists (of_int64 0). split; [reflexivity|].
    apply f64_eq_feq. replace 0 with iv by lia. exact G. }
  destruct (iv =? 1) eqn:E1.
  { intros E; inversion E; subst bs. exists (of_int64 1). split; [reflexivity|].
    apply f64_eq_feq. replace 1 with iv by lia. exact G. }
  destruct ((-128 <=? iv) && (iv <=? 127)) eqn:E2.
  { intros E; inversion E; subst bs. exists (of_int64 iv). split; [|apply f64_eq_feq; exact G].
    cbn [app decode_double read_tag bind]. unfold decode_double_tag. fconsts.
    change (93 =? 91) with false. change (93 =? 92) with false. change (93 =? 93) with true. cbv iota.
    cbn [read_tag bind]. rewrite swrap8_wrap8_small by lia. reflexivity. }
  destruct ((-32768 <=? iv) && (iv <=? 32767)) eqn:E3; [|apply Tail].
  intros E; inversion E; subst bs. exists (of_int64 iv). split; [|apply f64_eq_feq; exact G].
  cbn [app decode_double read_tag bind]. unfold decode_double_tag. fconsts.
  change (94 =? 91) with false. change (94 =? 92) with false. change (94 =? 93) with false.
  change (94 =? 94) with true. cbv iota.
  rewrite read_full_app2. cbn [bind]. rewrite be2_small by lia. reflexivity.
Qed.

(* ================= shortest exact form ================= *)

(* b is the small integer n  ==>  the integral guard of the encoder holds with iv = n *)
Lemma small_int_guard b n : in_f64 b -> -32768 <= n <= 32767 -> f64_eq (of_int64 n) b = true ->
  trunc64 b = n /\ f64_eq (of_int64 (trunc64 b)) b = true.
Proof.
  intros Hb Hn He. destruct (small_int_facts n Hn) as (T & NN & NZ).
  destruct (f64_eq_cases _ _ He) as (_ & Nb & [E|[Z1 Z2]]).
  - subst b. rewrite T. split; [reflexivity|exact He].
  - assert (n = 0) by (destruct (Z.eq_dec n 0); [assumption|rewrite (NZ n0) in Z1; discriminate]). subst n.
    destruct (zero64_cases b Hb Z2) as [->| ->]; split; vm_compute; reflexivity.
Qed.

Definition int_form_len (n : Z) : nat :=
  if (n =? 0) || (n =? 1) then 1 else if (-128 <=? n) && (n <=? 127) then 2 else 3.

(* (A) a small integer is written in the 1/2/3-octet form the grammar prescribes for it *)
Theorem double_shortest_int b n bs :
  in_f64 b -> -32768 <= n <= 32767 -> f64_eq (of_int64 n) b = true ->
  gencodeDouble b = Ok bs -> length bs = int_form_len n.
Proof.
  intros Hb Hn He. destruct (small_int_guard b n Hb Hn He) as [T G].
  rewrite gencodeDouble_unfold. cbv zeta. rewrite G, T. unfold int_form_len.
  destruct (n =? 0) eqn:E0; [intros E; inversion E; reflexivity|].
  destruct (n =? 1) eqn:E1; [intros E; inversion E; reflexivity|]. cbn [orb].
  destruct ((-128 <=? n) && (n <=? 127)) eqn:E2; [intros E; inversion E; reflexivity|].
  replace ((-32768 <=? n) && (n <=? 32767)) with true by lia.
  intros E; inversion E; reflexivity.
Qed.

(* (C) the short forms are used only when exact: 1..3 octets only for that small integer,
   5 octets only for a value that is the widening of a float32 *)
Theorem double_forms_exact b bs : gencodeDouble b = Ok bs ->
  (length bs <= 3)%nat -> exists n, -32768 <= n <= 32767 /\ f64_eq (of_int64 n) b = true /\ length bs = int_form_len n.
Proof.
  rewrite gencodeDouble_unfold. cbv zeta. unfold enc_tail, int_form_len.
  destruct (f64_eq (of_int64 (trunc64 b)) b) eqn:G.
  2:{ destruct (f64_eq (widen (narrow b)) b); intros E; inversion E; subst bs; cbn; lia. }
  set (iv := trunc64 b) in *.
  destruct (iv =? 0) eqn:E0; [intros E _; inversion E; exists iv; rewrite E0; cbn; repeat split; try lia; exact G|].
  destruct (iv =? 1) eqn:E1; [intros E _; inversion E; exists iv; rewrite E0, E1; cbn; repeat split; try lia; exact G|].
  destruct ((-128 <=? iv) && (iv <=? 127)) eqn:E2;
    [intros E _; inversion E; exists iv; rewrite E0, E1, E2; cbn; repeat split; try lia; exact G|].
  destruct ((-32768 <=? iv) && (iv <=? 32767)) eqn:E3;
    [intros E _; inversion E; exists iv; rewrite E0, E1, E2; cbn; repeat split; try lia; exact G|].
  destruct (f64_eq (widen (narrow b)) b); intros E; inversion E; subst bs; cbn; lia.
Qed.

Theorem double_form5_exact b bs : in_f64 b -> gencodeDouble b = Ok bs -> length bs = 5%nat ->
  exists f, in_f32 f /\ f64_eq (widen f) b = true.
Proof.
  intros Hb. rewrite gencodeDouble_unfold. cbv zeta. unfold enc_tail.
  assert (T : forall bs, (if f64_eq (widen (narrow b)) b then Ok (enc_f32_form (narrow b)) else Ok (enc_f64_form b)) = Ok bs ->
              length bs = 5%nat -> exists f, in_f32 f /\ f64_eq (widen f) b = true).
  { clear bs. intros bs. destruct (f64_eq (widen (narrow b)) b) eqn:G; intros E L; inversion E; subst bs.
    - exists (narrow b). split; [apply narrow_range; exact Hb|exact G].
    - cbn in L. discriminate. }
  destruct (f64_eq (of_int64 (trunc64 b)) b); [|apply T].
  destruct (trunc64 b =? 0); [intros E L; inversion E; subst bs; discriminate|].
  destruct (trunc64 b =? 1); [intros E L; inversion E; subst bs; discriminate|].
  destruct ((-128 <=? trunc64 b) && (trunc64 b <=? 127)); [intros E L; inversion E; subst bs; discriminate|].
  destruct ((-32768 <=? trunc64 b) && (trunc64 b <=? 32767)); [intros E L; inversion E; subst bs; discriminate|].
  apply T.
Qed.

(* ---- (B) every value that is exactly a float32 and not a small integer takes 5 octets ---- *)
Theorem double_shortest_f32_partial b f bs :
  in_f64 b -> f32_plain f -> f64_eq (widen f) b = true ->
  (forall n, -32768 <= n <= 32767 -> f64_eq (of_int64 n) b = false) ->
  gencodeDouble b = Ok bs -> length bs = 5%nat.
Proof.
  intros Hb Hf He Hno.
  destruct (narrow_widen_plain f Hf) as (NW & Wr & Wn).
  assert (G : f64_eq (widen (narrow b)) b = true).
  { destruct (f64_eq_cases _ _ He) as (_ & Nb & [E|[Z1 Z2]]).
    - subst b. rewrite NW. exact He.
    - destruct (zero64_cases b Hb Z2) as [->| ->]; vm_compute; reflexivity. }
  rewrite gencodeDouble_unfold. cbv zeta. unfold enc_tail. rewrite G.
  destruct (f64_eq (of_int64 (trunc64 b)) b) eqn:G1; [|intros E; inversion E; reflexivity].
  set (iv := trunc64 b) in *.
  assert (Hiv : ~ (-32768 <= iv <= 32767)) by (intros R; rewrite (Hno iv R) in G1; discriminate).
  replace (iv =? 0) with false by lia. replace (iv =? 1) with false by lia.
  replace ((-128 <=? iv) && (iv <=? 127)) with false by lia.
  replace ((-32768 <=? iv) && (iv <=? 32767)) with false by lia.
  intros E; inversion E; reflexivity.
Qed.

(* ... and for EVERY float32 that is not a NaN, subnormals included *)
Theorem double_shortest_f32 b f bs :
  in_f64 b -> f32_number f -> f64_eq (widen f) b = true ->
  (forall n, -32768 <= n <= 32767 -> f64_eq (of_int64 n) b = false) ->
  gencodeDouble b = Ok bs -> length bs = 5%nat.
Proof.
  intros Hb Hf He Hno.
  destruct (narrow_widen_number f Hf) as (NW & Wr & Wn).
  assert (G : f64_eq (widen (narrow b)) b = true).
  { destruct (f64_eq_cases _ _ He) as (_ & Nb & [E|[Z1 Z2]]).
    - subst b. rewrite NW. exact He.
    - destruct (zero64_cases b Hb Z2) as [->| ->]; vm_compute; reflexivity. }
  rewrite gencodeDouble_unfold. cbv zeta. unfold enc_tail. rewrite G.
  destruct (f64_eq (of_int64 (trunc64 b)) b) eqn:G1; [|intros E; inversion E; reflexivity].
  set (iv := trunc64 b) in *.
  assert (Hiv : ~ (-32768 <= iv <= 32767)) by (intros R; rewrite (Hno iv R) in G1; discriminate).
  replace (iv =? 0) with false by lia. replace (iv =? 1) with false by lia.
  replace ((-128 <=? iv) && (iv <=? 127)) with false by lia.
  replace ((-32768 <=? iv) && (iv <=? 32767)) with false by lia.
  intros E; inversion E; reflexivity.
Qed.


Example double_nonvacuous :
  in_f64 4611686018427387904 /\ f64_eq (of_int64 2) 4611686018427387904 = true   (* 2.0 *)
  /\ gencodeDouble 4611686018427387904 = Ok [93; 2]
  /\ f32_plain 1056964608 /\ f64_eq (widen 1056964608) 4602678819172646912 = true (* 0.5 *)
  /\ gencodeDouble 4602678819172646912 = Ok [95; 63; 0; 0; 0].
Proof.
  split; [unfold in_f64, p64; lia|]. split; [vm_compute; reflexivity|]. split; [vm_compute; reflexivity|].
  split; [unfold f32_plain, in_f32, p32; split; [lia|left; vm_compute; split; discriminate]|].
  split; vm_compute; reflexivity.
Qed.
