From Coq Require Import List Arith Lia Bool.
From GH Require Import Model.Pool.
Import ListNotations.

Definition Inv (p : pool) : Prop :=
  length (idle p) <= cap p /\ NoDup (idle p) /\
  (forall o, In o (idle p) -> holder p o = None /\ o < next p) /\
  (forall o c, holder p o = Some c -> o < next p).

Lemma opt_eqb_true a c : opt_eqb a c = true -> a = Some c.
Proof. destruct a; cbn; [intros H; apply Nat.eqb_eq in H; congruence|discriminate]. Qed.

Ltac inv4 := unfold Inv; cbn [cap idle holder next fst]; split; [|split; [|split]].

Theorem pstep_inv p x : Inv p -> Inv (fst (pstep p x)).
Proof.
  intros (I1 & I2 & I3 & I4). destruct x as [c | c o]; cbn [pstep].
  - destruct (idle p) as [|o rest] eqn:E; inv4.
    + cbn; lia.
    + apply NoDup_nil.
    + intros o [].
    + intros o c'. unfold set_holder. destruct (Nat.eqb_spec o (next p)); [lia|]. intros H; apply I4 in H; lia.
    + cbn in I1. lia.
    + inversion I2; assumption.
    + inversion I2; subst. intros o' H. destruct (I3 o' (or_intror H)) as [A B]. split; [|assumption].
      unfold set_holder. destruct (Nat.eqb_spec o' o); [subst; contradiction|assumption].
    + intros o' c'. unfold set_holder. destruct (Nat.eqb_spec o' o); [intros _; subst; apply (I3 o); left; auto|apply I4].
  - destruct (opt_eqb (holder p o) c) eqn:Hh; [|cbn [fst]; unfold Inv; auto].
    apply opt_eqb_true in Hh.
    assert (Hni : ~ In o (idle p)) by (intros H; apply I3 in H; destruct H; congruence).
    destruct (Nat.ltb_spec (length (idle p)) (cap p)); inv4.
    + rewrite app_length; cbn; lia.
    + apply (NoDup_Add (Add_app o (idle p) [])). rewrite app_nil_r. split; assumption.
    + intros o' H'. apply in_app_or in H'. unfold set_holder.
      destruct H' as [H'|[<-|[]]].
      * destruct (I3 o' H') as [A B]. split; [|assumption]. destruct (Nat.eqb_spec o' o); [reflexivity|assumption].
      * rewrite Nat.eqb_refl. split; [reflexivity|]. eapply I4; eassumption.
    + intros o' c'. unfold set_holder. destruct (Nat.eqb_spec o' o); [discriminate|apply I4].
    + assumption.
    + assumption.
    + intros o' H'. destruct (I3 o' H') as [A B]. split; [|assumption].
      unfold set_holder. destruct (Nat.eqb_spec o' o); [reflexivity|assumption].
    + intros o' c'. unfold set_holder. destruct (Nat.eqb_spec o' o); [discriminate|apply I4].
Qed.

Lemma new_pool_inv size : Inv (new_pool size).
Proof. unfold Inv, new_pool; cbn. repeat split; try lia; try constructor; try contradiction; discriminate. Qed.

(* every reachable state: any operation sequence by any number of clients, any capacity *)
Theorem pool_inv_reachable ops p : Inv p -> Inv (run_ops ops p).
Proof. revert p; induction ops as [|x ops IH]; cbn; intros p H; [exact H|]. apply IH, pstep_inv, H. Qed.

Corollary pool_never_exceeds_size size ops : length (idle (run_ops ops (new_pool size))) <= size.
Proof.
  destruct (pool_inv_reachable ops (new_pool size) (new_pool_inv size)) as (I1 & _).
  assert (C : forall ops p, cap (run_ops ops p) = cap p).
  { clear. induction ops as [|x ops IH]; intros p; [reflexivity|]. cbn. rewrite IH.
    destruct x as [c|c o]; cbn [pstep]; [destruct (idle p); reflexivity|].
    destruct (opt_eqb (holder p o) c); [destruct (Nat.ltb (length (idle p)) (cap p))|]; reflexivity. }
  rewrite C in I1. exact I1.
Qed.

(* Get always hands out something (never blocks, whatever the fill level) *)
Theorem get_total p c : exists o, snd (pstep p (PGet c)) = Some o.
Proof. cbn. destruct (idle p); cbn; eauto. Qed.
(* Return always completes (the step function is total) and hands nothing out *)
Theorem return_total p c o : snd (pstep p (PReturn c o)) = None.
Proof. unfold pstep. destruct (opt_eqb (holder p o) c); [destruct (Nat.ltb (length (idle p)) (cap p))|]; reflexivity. Qed.

(* from an empty pool: a fresh object nobody has seen *)
Theorem get_empty_fresh p c : Inv p -> idle p = [] -> snd (pstep p (PGet c)) = Some (next p) /\ holder p (next p) = None.
Proof.
  intros (_ & _ & _ & I4) E. cbn. rewrite E. cbn. split; [reflexivity|].
  destruct (holder p (next p)) eqn:H; [apply I4 in H; lia|reflexivity].
Qed.
(* the object handed out was held by nobody before the call, and is held by the caller after it *)
Theorem get_exclusive p c o : Inv p -> snd (pstep p (PGet c)) = Some o ->
  holder p o = None /\ holder (fst (pstep p (PGet c))) o = Some c /\ ~ In o (idle (fst (pstep p (PGet c)))).
Proof.
  intros I H. destruct (idle p) as [|o' rest] eqn:E.
  - destruct (get_empty_fresh p c I E) as [A B]. rewrite A in H. inversion H; subst.
    split; [exact B|]. cbn. rewrite E. cbn. unfold set_holder. rewrite Nat.eqb_refl. split; [reflexivity|tauto].
  - cbn in H. rewrite E in H. cbn in H. inversion H; subst.
    destruct I as (_ & I2 & I3 & _). split; [apply I3; rewrite E; left; reflexivity|].
    cbn. rewrite E. cbn. unfold set_holder. rewrite Nat.eqb_refl. split; [reflexivity|].
    rewrite E in I2. inversion I2; assumption.
Qed.
(* a returned object is afterwards idle exactly once, or dropped (held by nobody either way) *)
Theorem return_idle_once_or_dropped p c o : Inv p -> holder p o = Some c ->
  let p' := fst (pstep p (PReturn c o)) in
  holder p' o = None /\ (count_occ Nat.eq_dec (idle p') o = 1 \/ (~ In o (idle p') /\ length (idle p) = cap p)).
Proof.
  intros I Hh. pose proof (pstep_inv p (PReturn c o) I) as I'.
  cbn [pstep] in *. rewrite Hh in *. cbn [opt_eqb] in *. rewrite Nat.eqb_refl in *.
  destruct I as (I1 & I2 & I3 & I4).
  assert (Hni : ~ In o (idle p)) by (intros H; apply I3 in H; destruct H; congruence).
  destruct (Nat.ltb_spec (length (idle p)) (cap p)); cbn [fst idle holder] in *.
  - split; [unfold set_holder; rewrite Nat.eqb_refl; reflexivity|]. left.
    rewrite count_occ_app. cbn. destruct (Nat.eq_dec o o); [|congruence].
    rewrite (proj1 (count_occ_not_In Nat.eq_dec (idle p) o) Hni). reflexivity.
  - split; [unfold set_holder; rewrite Nat.eqb_refl; reflexivity|]. right. split; [assumption|lia].
Qed.

Example pool_nonvacuous :
  Inv {| cap := 2; idle := [0]; holder := fun o => if Nat.eqb o 1 then Some 7 else None; next := 2 |}.
Proof.
  unfold Inv; cbn; split; [lia|split; [|split]].
  - repeat constructor; intros [].
  - intros o [<-|[]]; split; [reflexivity|lia].
  - intros o c. destruct (Nat.eqb_spec o 1); [lia|discriminate].
Qed.
