(* Facts about the float bit-pattern model that do not depend on the generated encoder:
   kept in their own file so that a change of the Go source does not recompile them. *)
From Coq Require Import ZArith List Lia Bool.
From GH Require Import Base.GoSem Base.Result Base.FloatBits.
Import ListNotations.
Open Scope Z_scope.
Ltac Zify.zify_post_hook ::= Z.div_mod_to_equations.
Arguments Z.add : simpl never. Arguments Z.sub : simpl never. Arguments Z.mul : simpl never.
Arguments Z.leb : simpl never. Arguments Z.eqb : simpl never. Arguments Z.ltb : simpl never.

(* ---- ranges ---- *)
Lemma rne_bounds sig shift : 0 <= sig -> 0 < shift ->
  sig / 2 ^ shift <= rne sig shift <= sig / 2 ^ shift + 1.
Proof.
  intros. unfold rne. cbv zeta.
  set (q := sig / 2 ^ shift).
  destruct ((2 ^ (shift - 1) <? sig mod 2 ^ shift) || (sig mod 2 ^ shift =? 2 ^ (shift - 1)) && Z.odd q);
    clearbody q; clear; lia.
Qed.

Lemma lor_lt_pow2 a b n : 0 <= a < 2 ^ n -> 0 <= b < 2 ^ n -> 0 < n -> 0 <= Z.lor a b < 2 ^ n.
Proof.
  intros Ha Hb Hn. split; [apply Z.lor_nonneg; lia|].
  destruct (Z.eq_dec (Z.lor a b) 0) as [E|E]; [rewrite E; apply Z.pow_pos_nonneg; lia|].
  apply Z.log2_lt_pow2; [pose proof (Z.lor_nonneg a b); lia|].
  rewrite Z.log2_lor by lia.
  assert (La : Z.log2 a < n).
  { destruct (Z.eq_dec a 0) as [->|Na]; [change (Z.log2 0) with 0; lia|apply Z.log2_lt_pow2; lia]. }
  assert (Lb : Z.log2 b < n).
  { destruct (Z.eq_dec b 0) as [->|Nb]; [change (Z.log2 0) with 0; lia|apply Z.log2_lt_pow2; lia]. }
  lia.
Qed.

Lemma narrow_range b : in_f64 b -> in_f32 (narrow b).
Proof.
  unfold in_f64, in_f32, p64, p32. intros Hb. unfold narrow.
  set (s := b / p63). set (E := (b / p52) mod 2048). set (M := b mod p52).
  assert (Hs : 0 <= s <= 1) by (subst s; unfold p63; lia).
  assert (HE : 0 <= E < 2048) by (subst E; lia).
  assert (HM : 0 <= M < p52) by (subst M; unfold p52; lia).
  clearbody s E M. cbv zeta.
  destruct (E =? 2047) eqn:E1.
  { destruct (M =? 0); [unfold p31, p23; lia|].
    assert (0 <= Z.lor (M / p29) (p23 / 2) < 2 ^ 23).
    { apply lor_lt_pow2; [|unfold p23; cbn; lia|lia]. unfold p29, p52 in *. change (2 ^ 23) with 8388608. lia. }
    change (2 ^ 23) with 8388608 in *. unfold p31, p23 in *. lia. }
  destruct (E =? 0) eqn:E2; [unfold p31; lia|].
  destruct (-126 <=? E - 1023) eqn:E3.
  { pose proof (rne_bounds (p52 + M) 29 ltac:(unfold p52; lia) ltac:(lia)) as R.
    change (2 ^ 29) with 536870912 in R.
    assert (Hq : 8388608 <= (p52 + M) / 536870912 <= 16777215) by (unfold p52 in *; lia).
    set (r := rne (p52 + M) 29) in *. clearbody r.
    destruct (255 * p23 <=? (E - 1023 + 126) * p23 + r) eqn:E4; unfold p31, p23 in *; lia. }
  destruct (55 <? -97 - (E - 1023)) eqn:E4; [unfold p31; lia|].
  assert (Hsh : 30 <= -97 - (E - 1023) <= 55) by lia.
  set (sh := -97 - (E - 1023)) in *. clearbody sh.
  pose proof (rne_bounds (p52 + M) sh ltac:(unfold p52; lia) ltac:(lia)) as R.
  assert (Hq : 0 <= (p52 + M) / 2 ^ sh <= 8388608).
  { split; [apply Z.div_pos; [unfold p52; lia|apply Z.pow_pos_nonneg; lia]|].
    assert (2 ^ 30 <= 2 ^ sh) by (apply Z.pow_le_mono_r; lia).
    change (2 ^ 30) with 1073741824 in *.
    apply Z.div_le_upper_bound; [lia|]. unfold p52 in *. nia. }
  set (r := rne (p52 + M) sh) in *. clearbody r. unfold p31 in *. lia.
Qed.


Fixpoint range_from (k : nat) (s : Z) : list Z :=
  match k with O => [] | S k' => s :: range_from k' (s + 1) end.
Lemma in_range_from k : forall s n, s <= n < s + Z.of_nat k -> In n (range_from k s).
Proof.
  induction k as [|k IH]; intros s n H; [lia|].
  cbn [range_from]. destruct (Z.eq_dec n s) as [->|Ne]; [left; reflexivity|right; apply IH; lia].
Qed.
Definition small_ints : list Z := range_from (Z.to_nat 65536) (-32768).
Lemma in_small_ints n : -32768 <= n <= 32767 -> In n small_ints.
Proof. intros H. apply in_range_from. rewrite Z2Nat.id by lia. lia. Qed.

(* facts about the 65536 small integers, decided by computation over the whole (finite) range *)
Definition small_int_ok (n : Z) : bool :=
  (trunc64 (of_int64 n) =? n) && negb (is_nan64 (of_int64 n)) && ((n =? 0) || negb (is_zero64 (of_int64 n)))
  && (0 <=? of_int64 n) && (of_int64 n <? p64).
Lemma small_ints_ok : forallb small_int_ok small_ints = true.
Proof. vm_cast_no_check (eq_refl true). Qed.
Lemma small_int_facts n : -32768 <= n <= 32767 ->
  trunc64 (of_int64 n) = n /\ is_nan64 (of_int64 n) = false /\ (n <> 0 -> is_zero64 (of_int64 n) = false).
Proof.
  intros H. pose proof small_ints_ok as F. rewrite forallb_forall in F.
  specialize (F n (in_small_ints n H)). unfold small_int_ok in F.
  rewrite !andb_true_iff in F. destruct F as [[[[F1 F2] F3] _] _].
  split; [lia|]. split; [destruct (is_nan64 (of_int64 n)); [discriminate|reflexivity]|].
  intros Hn. destruct (n =? 0) eqn:E; [lia|]. cbn in F3. destruct (is_zero64 (of_int64 n)); [discriminate|reflexivity].
Qed.

Lemma f64_eq_cases a b : f64_eq a b = true ->
  is_nan64 a = false /\ is_nan64 b = false /\ (a = b \/ (is_zero64 a = true /\ is_zero64 b = true)).
Proof.
  unfold f64_eq. rewrite !andb_true_iff, orb_true_iff, !negb_true_iff, andb_true_iff.
  intros [[H1 H2] [H3|H3]]; repeat split; auto. left. lia.
Qed.

Lemma zero64_cases b : in_f64 b -> is_zero64 b = true -> b = 0 \/ b = p63.
Proof. unfold in_f64, is_zero64, p64, p63. intros H Z. lia. Qed.

Lemma hi_lo k hi lo : 0 <= lo < k -> (hi * k + lo) / k = hi /\ (hi * k + lo) mod k = lo.
Proof.
  intros H. assert (0 < k) by lia. split.
  - rewrite Z.div_add_l by lia. rewrite Z.div_small by lia. lia.
  - rewrite Z.add_comm, Z.mod_add by lia. apply Z.mod_small; lia.
Qed.
Lemma field_hi k hi lo : 0 <= lo < k -> (hi * k + lo) / k = hi. Proof. intros; apply hi_lo; assumption. Qed.
Lemma field_lo k hi lo : 0 <= lo < k -> (hi * k + lo) mod k = lo. Proof. intros; apply hi_lo; assumption. Qed.

Theorem narrow_widen_normal f : in_f32 f -> 1 <= (f / p23) mod 256 <= 254 -> narrow (widen f) = f.
Proof.
  unfold in_f32, p32. intros Hb He. unfold widen.
  set (s := f / p31). set (e := (f / p23) mod 256) in *. set (m := f mod p23).
  assert (Hs : 0 <= s <= 1) by (subst s; unfold p31 in *; lia).
  assert (Hm : 0 <= m < p23) by (subst m; unfold p23; lia).
  assert (Hbd : f = s * p31 + e * p23 + m) by (subst s e m; unfold p31, p23 in *; lia).
  clearbody s e m.
  replace (e =? 255) with false by lia. replace (e =? 0) with false by lia.
  unfold narrow.
  set (w := s * p63 + (e + 896) * p52 + m * p29).
  assert (Blo : 0 <= m * p29 < p52) by (unfold p29, p52, p23 in *; lia).
  assert (H1 : w / p63 = s).
  { subst w. rewrite <- Z.add_assoc. apply field_hi. unfold p63, p52, p29, p23 in *; lia. }
  assert (H2 : (w / p52) mod 2048 = e + 896).
  { replace w with ((s * 2048 + (e + 896)) * p52 + m * p29) by (subst w; unfold p63, p52; ring).
    rewrite field_hi by exact Blo. apply field_lo. lia. }
  assert (H3 : w mod p52 = m * p29).
  { replace w with ((s * 2048 + (e + 896)) * p52 + m * p29) by (subst w; unfold p63, p52; ring).
    apply field_lo. exact Blo. }
  clearbody w. rewrite H1, H2, H3. clear H1 H2 H3 Blo.
  replace (e + 896 =? 2047) with false by lia. replace (e + 896 =? 0) with false by lia.
  cbv zeta. replace (-126 <=? e + 896 - 1023) with true by lia.
  unfold rne. change (2 ^ 29) with p29. change (2 ^ (29 - 1)) with 268435456.
  replace (p52 + m * p29) with ((p23 + m) * p29 + 0) by (unfold p52, p23, p29; ring).
  rewrite field_hi, field_lo by (unfold p29; lia).
  change ((268435456 <? 0) || (0 =? 268435456) && Z.odd (p23 + m)) with (false || false && Z.odd (p23 + m)).
  cbn [orb andb].
  replace (255 * p23 <=? (e + 896 - 1023 + 126) * p23 + (p23 + m)) with false by (unfold p23 in *; lia).
  rewrite Hbd. unfold p31, p23. ring.
Qed.

Lemma widen_range_normal f : in_f32 f -> 1 <= (f / p23) mod 256 <= 254 -> in_f64 (widen f).
Proof.
  unfold in_f32, in_f64, p32, p64. intros Hb He. unfold widen.
  set (s := f / p31). set (e := (f / p23) mod 256) in *. set (m := f mod p23).
  assert (Hs : 0 <= s <= 1) by (subst s; unfold p31 in *; lia).
  assert (Hm : 0 <= m < p23) by (subst m; unfold p23; lia).
  clearbody s e m.
  replace (e =? 255) with false by lia. replace (e =? 0) with false by lia.
  unfold p63, p52, p29, p23 in *. lia.
Qed.

(* a float32 in the normal range, or a zero, or an infinity *)
Definition f32_plain (f : Z) : Prop :=
  in_f32 f /\ (1 <= (f / p23) mod 256 <= 254 \/ f = 0 \/ f = p31 \/ f = 255 * p23 \/ f = p31 + 255 * p23).

Lemma narrow_widen_plain f : f32_plain f -> narrow (widen f) = f /\ in_f64 (widen f) /\ is_nan64 (widen f) = false.
Proof.
  intros [Hf [Hn|[->|[->|[->| ->]]]]];
    [|vm_compute; intuition discriminate|vm_compute; intuition discriminate
     |vm_compute; intuition discriminate|vm_compute; intuition discriminate].
  split; [apply narrow_widen_normal; assumption|]. split; [apply widen_range_normal; assumption|].
  (* not a NaN: exponent field of the widened value is e + 896 < 2047 *)
  unfold in_f32, p32 in Hf. unfold widen, is_nan64.
  set (s := f / p31). set (e := (f / p23) mod 256) in *. set (m := f mod p23).
  assert (Hs : 0 <= s <= 1) by (subst s; unfold p31 in *; lia).
  assert (Hm : 0 <= m < p23) by (subst m; unfold p23; lia).
  clearbody s e m.
  replace (e =? 255) with false by lia. replace (e =? 0) with false by lia.
  set (w := s * p63 + (e + 896) * p52 + m * p29).
  assert (Blo : 0 <= m * p29 < p52) by (unfold p29, p52, p23 in *; lia).
  assert (H2 : (w / p52) mod 2048 = e + 896).
  { replace w with ((s * 2048 + (e + 896)) * p52 + m * p29) by (subst w; unfold p63, p52; ring).
    rewrite field_hi by exact Blo. apply field_lo. lia. }
  rewrite H2. replace (e + 896 =? 2047) with false by lia. reflexivity.
Qed.


(* ---- float32 subnormals ---- *)
Theorem narrow_widen_subnormal f : in_f32 f -> (f / p23) mod 256 = 0 -> f mod p23 <> 0 -> narrow (widen f) = f.
Proof.
  unfold in_f32, p32. intros Hb He Hm0. unfold widen. rewrite He.
  set (s := f / p31). set (m := f mod p23) in *.
  assert (Hs : 0 <= s <= 1) by (subst s; unfold p31 in *; lia).
  assert (Hm : 1 <= m < p23) by (subst m; unfold p23 in *; lia).
  assert (Hbd : f = s * p31 + m) by (subst s m; unfold p31, p23 in *; lia).
  clearbody s m. change (0 =? 255) with false. change (0 =? 0) with true. cbv iota.
  replace (m =? 0) with false by lia. cbv zeta. unfold bitlen.
  set (k := Z.log2 m + 1).
  assert (Hl0 : 0 <= Z.log2 m) by apply Z.log2_nonneg.
  assert (Hl1 : Z.log2 m < 23) by (apply Z.log2_lt_pow2; [lia|unfold p23 in Hm; exact (proj2 Hm)]).
  assert (Hk : 1 <= k <= 23) by (subst k; lia).
  assert (Hlog : 2 ^ (k - 1) <= m < 2 * 2 ^ (k - 1)).
  { destruct (Z.log2_spec m ltac:(lia)) as [A B]. subst k. replace (Z.log2 m + 1 - 1) with (Z.log2 m) by lia.
    rewrite Z.pow_succ_r in B by lia. lia. }
  set (h := 2 ^ (k - 1)) in *. set (c := 2 ^ (53 - k)).
  assert (Hhc : h * c = p52) by (subst h c; rewrite <- Z.pow_add_r by lia; replace (k - 1 + (53 - k)) with 52 by lia; reflexivity).
  assert (Hc : 2 <= c) by (subst c; change 2 with (2 ^ 1) at 1; apply Z.pow_le_mono_r; lia).
  assert (Hh : 1 <= h) by (assert (0 < h) by (subst h; apply Z.pow_pos_nonneg; lia); lia).
  assert (Hmc : p52 + (m - h) * c = m * c) by (rewrite <- Hhc; ring).
  assert (HM : 0 <= (m - h) * c < p52).
  { split; [apply Z.mul_nonneg_nonneg; lia|]. rewrite <- Hhc. apply Z.mul_lt_mono_pos_r; lia. }
  unfold narrow.
  set (w := s * p63 + (k + 873) * p52 + (m - h) * c).
  assert (H1 : w / p63 = s).
  { subst w. rewrite <- Z.add_assoc. apply field_hi. unfold p63, p52 in *; lia. }
  assert (H2 : (w / p52) mod 2048 = k + 873).
  { replace w with ((s * 2048 + (k + 873)) * p52 + (m - h) * c) by (subst w; unfold p63, p52; ring).
    rewrite field_hi by exact HM. apply field_lo. lia. }
  assert (H3 : w mod p52 = (m - h) * c).
  { replace w with ((s * 2048 + (k + 873)) * p52 + (m - h) * c) by (subst w; unfold p63, p52; ring). apply field_lo. exact HM. }
  clearbody w. rewrite H1, H2, H3.
  replace (k + 873 =? 2047) with false by lia. replace (k + 873 =? 0) with false by lia. cbv zeta.
  replace (-126 <=? k + 873 - 1023) with false by lia.
  replace (-97 - (k + 873 - 1023)) with (53 - k) by lia.
  replace (55 <? 53 - k) with false by lia.
  unfold rne. fold c. rewrite Hmc. rewrite Z.div_mul by lia. rewrite Z.mod_mul by lia.
  assert (Hhalf : 1 <= 2 ^ (53 - k - 1)) by (assert (0 < 2 ^ (53 - k - 1)) by (apply Z.pow_pos_nonneg; lia); lia).
  replace (2 ^ (53 - k - 1) <? 0) with false by lia. replace (0 =? 2 ^ (53 - k - 1)) with false by lia.
  cbn [orb andb]. rewrite Hbd. reflexivity.
Qed.

Lemma widen_subnormal_facts f : in_f32 f -> (f / p23) mod 256 = 0 -> f mod p23 <> 0 -> in_f64 (widen f) /\ is_nan64 (widen f) = false.
Proof.
  unfold in_f32, p32. intros Hb He Hm0. unfold widen. rewrite He.
  set (s := f / p31). set (m := f mod p23) in *.
  assert (Hs : 0 <= s <= 1) by (subst s; unfold p31 in *; lia).
  assert (Hm : 1 <= m < p23) by (subst m; unfold p23 in *; lia).
  clearbody s m. change (0 =? 255) with false. change (0 =? 0) with true. cbv iota.
  replace (m =? 0) with false by lia. cbv zeta. unfold bitlen.
  set (k := Z.log2 m + 1).
  assert (Hl0 : 0 <= Z.log2 m) by apply Z.log2_nonneg.
  assert (Hl1 : Z.log2 m < 23) by (apply Z.log2_lt_pow2; [lia|unfold p23 in Hm; exact (proj2 Hm)]).
  assert (Hk : 1 <= k <= 23) by (subst k; lia).
  assert (Hlog : 2 ^ (k - 1) <= m < 2 * 2 ^ (k - 1)).
  { destruct (Z.log2_spec m ltac:(lia)) as [A B]. subst k. replace (Z.log2 m + 1 - 1) with (Z.log2 m) by lia.
    rewrite Z.pow_succ_r in B by lia. lia. }
  set (h := 2 ^ (k - 1)) in *. set (c := 2 ^ (53 - k)).
  assert (Hhc : h * c = p52) by (subst h c; rewrite <- Z.pow_add_r by lia; replace (k - 1 + (53 - k)) with 52 by lia; reflexivity).
  assert (Hc : 2 <= c) by (subst c; change 2 with (2 ^ 1) at 1; apply Z.pow_le_mono_r; lia).
  assert (HM : 0 <= (m - h) * c < p52).
  { split; [apply Z.mul_nonneg_nonneg; lia|]. rewrite <- Hhc. apply Z.mul_lt_mono_pos_r; lia. }
  set (w := s * p63 + (k + 873) * p52 + (m - h) * c).
  split.
  - unfold in_f64, p64. subst w. unfold p63, p52 in *. lia.
  - unfold is_nan64.
    assert (H2 : (w / p52) mod 2048 = k + 873).
    { replace w with ((s * 2048 + (k + 873)) * p52 + (m - h) * c) by (subst w; unfold p63, p52; ring).
      rewrite field_hi by exact HM. apply field_lo. lia. }
    rewrite H2. replace (k + 873 =? 2047) with false by lia. reflexivity.
Qed.

(* every float32 that is not a NaN *)
Definition f32_number (f : Z) : Prop := in_f32 f /\ is_nan32 f = false.
Lemma narrow_widen_number f : f32_number f -> narrow (widen f) = f /\ in_f64 (widen f) /\ is_nan64 (widen f) = false.
Proof.
  intros [Hf Hn]. pose proof Hf as Hf'. unfold in_f32, p32 in Hf'.
  assert (He : 0 <= (f / p23) mod 256 < 256) by (unfold p23; lia).
  destruct (Z.eq_dec ((f / p23) mod 256) 0) as [E0|E0].
  - destruct (Z.eq_dec (f mod p23) 0) as [M0|M0].
    + (* a zero *)
      assert (f = 0 \/ f = p31) by (unfold p23, p31 in *; lia).
      apply narrow_widen_plain. split; [exact Hf|]. right. destruct H as [->| ->]; [left; reflexivity|right; left; reflexivity].
    + split; [apply narrow_widen_subnormal; assumption|apply widen_subnormal_facts; assumption].
  - destruct (Z.eq_dec ((f / p23) mod 256) 255) as [E1|E1].
    + (* an infinity: the mantissa is zero since f is not a NaN *)
      unfold is_nan32 in Hn. rewrite E1 in Hn. change (255 =? 255) with true in Hn. cbn [andb] in Hn.
      assert (M0 : f mod p23 = 0) by (destruct (f mod p23 =? 0) eqn:X; [lia|discriminate]).
      assert (f = 255 * p23 \/ f = p31 + 255 * p23) by (unfold p23, p31 in *; lia).
      apply narrow_widen_plain. split; [exact Hf|]. right. right. right. exact H.
    + apply narrow_widen_plain. split; [exact Hf|]. left. lia.
Qed.
