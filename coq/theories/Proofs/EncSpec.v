(* C02, structural part: whatever the encoder model writes for a value - objects with their
   class definitions, typed and untyped lists, maps, back-references - is accepted by the
   reference parser of Spec/Grammar.v, consumes exactly the bytes written, and parses to a value
   that denotes the original (relation den below). *)
From Coq Require Import ZArith List Lia Bool.
From GH Require Import Base.GoSem Base.Result Base.FloatBits Base.TimeSem Base.Utf8 Gen.GoConsts Gen.GoLeaf
  Model.Scalars Model.Strings Spec.Grammar Model.Encoder Model.Session
  Proofs.IntProofs Proofs.LongProofs Proofs.KindProofs Proofs.DateProofs Proofs.FloatFacts Proofs.DoubleProofs
  Proofs.Utf8Proofs Proofs.BinaryProofs Proofs.StringProofs Proofs.SpecScalars Proofs.SpecDispatch
  Proofs.EncoderFacts Proofs.SessionProofs Proofs.StructFacts.
Import ListNotations.
Open Scope Z_scope.

(* ---------- the reference parser on the encoder's leaf renderings ---------- *)
Lemma piv v r : in_i32 v -> parse_int_value (gencodeInt v ++ r) = Ok (v, r).
Proof.
  intros H. destruct (int_denotes v r H) as (t & tl & E & T & P). rewrite E. cbn [app parse_int_value]. rewrite T. exact P.
Qed.
Lemma psv f0 rs r : Forall valid_rune rs -> (length rs < f0)%nat -> parse_string_value f0 (encode_string rs ++ r) = Ok (rs, r).
Proof.
  intros V L. destruct (string_denotes rs r V) as (t & tl & E & T & P). rewrite E. cbn [app parse_string_value]. rewrite T. apply P. exact L.
Qed.
Lemma pss f0 : forall names r, Forall (Forall valid_rune) names -> Forall (fun n => (length n < f0)%nat) names ->
  parse_strings f0 (length names) (concat (map encode_string names) ++ r) = Ok (names, r).
Proof.
  induction names as [|n ns IH]; intros r V L; [reflexivity|].
  inversion V as [|? ? Vn Vs]; inversion L as [|? ? Ln Ls]; subst.
  cbn [length map concat parse_strings]. rewrite <- app_assoc. rewrite psv by assumption. cbn [bind].
  rewrite IH by assumption. reflexivity.
Qed.
Lemma ptype f0 pst rs r : Forall valid_rune rs -> (length rs < f0)%nat ->
  parse_type f0 pst (encode_string rs ++ r) = Ok (rs, r, st_add_type pst rs).
Proof.
  intros V L. destruct (string_denotes rs r V) as (t & tl & E & T & P). rewrite E. cbn [app parse_type]. rewrite T.
  rewrite (P f0 L). reflexivity.
Qed.

(* ---------- what the encoder's output must denote ---------- *)
Section Den.
Variable nm : namemap.               (* the name map of the encoder: complete for the value *)
Variable F : name -> list name.      (* the field names under which a class name is defined *)

Definition cname_of (ty : name) : name := match nm_lookup nm ty with Some c => c | None => ty end.
Definition list_type (ty : name) : option name :=
  match nm_lookup nm ty with
  | Some ltn => if name_eqb interface_type_name (array_root_elem_name ty) then None else Some ltn
  | None => None
  end.

(* refs: the containers registered so far, in order (the encoder's reference table) *)
Inductive den : list (Z * rkind) -> gval -> hval -> list (Z * rkind) -> Prop :=
| d_nil refs : den refs VNil HNull refs
| d_bool refs b : den refs (VBool b) (HBool b) refs
| d_int refs k z : kind_wire_int k = true -> den refs (VInt k z) (HInt (swrap 32 z)) refs
| d_long refs k z : kind_wire_int k = false -> den refs (VInt k z) (HLong (swrap 64 z)) refs
| d_f32 refs b d : feq d (widen b) = true -> den refs (VF32 b) (HDouble d) refs
| d_f64 refs b d : feq d b = true -> den refs (VF64 b) (HDouble d) refs
| d_str refs rs : den refs (VStr rs) (HString rs) refs
| d_bytes refs bs : den refs (VBytes bs) (HBinary bs) refs
| d_time0 refs s n : time_is_zero s n = true -> den refs (VTime s n) HNull refs
| d_time refs s n : time_is_zero s n = false -> den refs (VTime s n) (HDate (date_ms s n)) refs
| d_seen refs k a i : ref_find refs a k 0 = Some i -> den refs (VSeen k a) (HRef (swrap 32 i)) refs
| d_struct_ref refs a ty fs i : ref_find refs a RStruct 0 = Some i -> den refs (VStruct a ty fs) (HRef (swrap 32 i)) refs
| d_struct refs a ty fs hs refs' : ref_find refs a RStruct 0 = None ->
    den_list (refs ++ [(a, RStruct)]) (map snd fs) hs refs' ->
    den refs (VStruct a ty fs) (HObject (cname_of ty) (combine (F (cname_of ty)) hs)) refs'
| d_slice_ref refs a ty l i : ref_find refs (if (length l =? 0)%nat then 0 else a) RSlice 0 = Some i ->
    den refs (VSlice a ty l) (HRef (swrap 32 i)) refs
| d_slice refs a ty l hs refs' : ref_find refs (if (length l =? 0)%nat then 0 else a) RSlice 0 = None ->
    den_list (refs ++ [(if (length l =? 0)%nat then 0 else a, RSlice)]) l hs refs' ->
    den refs (VSlice a ty l) (HList (list_type ty) hs) refs'
| d_map_empty refs a ty : den refs (VMap a ty []) HNull refs
| d_map_ref refs a ty e es i : ref_find refs a RMap 0 = Some i -> den refs (VMap a ty (e :: es)) (HRef (swrap 32 i)) refs
| d_map refs a ty e es hes refs' : ref_find refs a RMap 0 = None ->
    den_entries (refs ++ [(a, RMap)]) (e :: es) hes refs' ->
    den refs (VMap a ty (e :: es)) (HMap (nm_lookup nm ty) hes) refs'
with den_list : list (Z * rkind) -> list gval -> list hval -> list (Z * rkind) -> Prop :=
| dl_nil refs : den_list refs [] [] refs
| dl_cons refs x r h hs refs1 refs2 : den refs x h refs1 -> den_list refs1 r hs refs2 -> den_list refs (x :: r) (h :: hs) refs2
with den_entries : list (Z * rkind) -> list (gval * gval) -> list (hval * hval) -> list (Z * rkind) -> Prop :=
| de_nil refs : den_entries refs [] [] refs
| de_cons refs k x r hk hx hes refs1 refs2 refs3 : den refs k hk refs1 -> den refs1 x hx refs2 -> den_entries refs2 r hes refs3 ->
    den_entries refs ((k, x) :: r) ((hk, hx) :: hes) refs3.

(* ---------- the values the statement is about ---------- *)
Variable f0 : nat.   (* the fuel of the string parsers: more than the longest string *)
Definition name_ok (n : name) : Prop := Forall valid_rune n /\ (length n < f0)%nat.
Inductive wfv : gval -> Prop :=
| wf_nil : wfv VNil
| wf_bool b : wfv (VBool b)
| wf_int k z : wfv (VInt k z)
| wf_f32 b : in_f64 (widen b) -> wfv (VF32 b)
| wf_f64 b : in_f64 b -> wfv (VF64 b)
| wf_str rs : name_ok rs -> wfv (VStr rs)
| wf_bytes bs : (length bs < f0)%nat -> wfv (VBytes bs)
| wf_time s n : time_is_zero s n = true \/ (year_ok s /\ 0 <= n < 1000000000 /\ date_compact s n = false) -> wfv (VTime s n)
| wf_seen k a : wfv (VSeen k a)
| wf_struct a ty fs : nm_lookup nm ty <> None -> name_ok (cname_of ty) ->
    map lower_name (map fst fs) = F (cname_of ty) -> Forall name_ok (F (cname_of ty)) ->
    Z.of_nat (length fs) <= 2147483647 -> Forall (fun f => wfv (snd f)) fs -> wfv (VStruct a ty fs)
| wf_slice a ty l : (forall ltn, nm_lookup nm ty = Some ltn -> name_ok ltn) ->
    Z.of_nat (length l) <= 2147483647 -> Forall wfv l -> wfv (VSlice a ty l)
| wf_map a ty es : (forall mn, nm_lookup nm ty = Some mn -> name_ok mn) ->
    Forall (fun e => wfv (fst e) /\ wfv (snd e)) es -> wfv (VMap a ty es).
End Den.

(* ---------- bookkeeping on the encoder state ---------- *)
Lemma ebytes_emit st c : ebytes (emit st c) = ebytes st ++ c.
Proof. unfold ebytes, emit. cbn [eout]. rewrite concat_app. cbn. rewrite app_nil_r. reflexivity. Qed.
Lemma ebytes_fold_emit l : forall st,
  ebytes (fold_left (fun s f => emit s (encode_string f)) l st) = ebytes st ++ concat (map encode_string l).
Proof.
  induction l as [|x r IH]; intros st; cbn [fold_left map concat]; [rewrite app_nil_r; reflexivity|].
  rewrite IH, ebytes_emit, <- app_assoc. reflexivity.
Qed.
Lemma fold_emit_tables l : forall st,
  ecls (fold_left (fun s f => emit s (encode_string f)) l st) = ecls st /\
  erefs (fold_left (fun s f => emit s (encode_string f)) l st) = erefs st.
Proof. induction l as [|x r IH]; intros st; cbn [fold_left]; [split; reflexivity|]. destruct (IH (emit st (encode_string x))) as [A B]. rewrite A, B. split; reflexivity. Qed.

Definition Rst (st : estate) (pst : pstate) : Prop := pclasses pst = ecls st /\ popen pst = length (erefs st).
Definition grows (st st' : estate) : Prop :=
  (length (erefs st) <= length (erefs st'))%nat /\ (length (ecls st) <= length (ecls st'))%nat.
Definition small (st : estate) : Prop :=
  Z.of_nat (length (erefs st)) <= 2147483647 /\ Z.of_nat (length (ecls st)) <= 2147483647.
Lemma grows_refl st : grows st st. Proof. split; lia. Qed.
Lemma grows_trans a b c : grows a b -> grows b c -> grows a c.
Proof. intros [A1 A2] [B1 B2]. split; lia. Qed.
Lemma small_back st st' : grows st st' -> small st' -> small st.
Proof. intros [G1 G2] [S1 S2]. split; lia. Qed.

(* fuel needed by the reference parser: the nesting depth, counting one per list position *)
Fixpoint need (v : gval) : nat :=
  match v with
  | VStruct _ _ fs =>
    2 + (fix go (l : list (name * gval)) : nat := match l with [] => 1 | (_, x) :: r => 1 + Nat.max (need x) (go r) end) fs
  | VSlice _ _ l => 1 + (fix go (l : list gval) : nat := match l with [] => 1 | x :: r => 1 + Nat.max (need x) (go r) end) l
  | VMap _ _ es =>
    1 + (fix go (l : list (gval * gval)) : nat :=
           match l with [] => 1 | (k, x) :: r => 1 + Nat.max (need k) (Nat.max (need x) (go r)) end) es
  | _ => 1
  end%nat.
Fixpoint need_items (l : list gval) : nat := match l with [] => 1 | x :: r => 1 + Nat.max (need x) (need_items r) end%nat.
Fixpoint need_entries (l : list (gval * gval)) : nat :=
  match l with [] => 1 | (k, x) :: r => 1 + Nat.max (need k) (Nat.max (need x) (need_entries r)) end%nat.
Lemma need_struct a ty fs : need (VStruct a ty fs) = (2 + need_items (map snd fs))%nat.
Proof. cbn [need]. apply (f_equal (fun k => (2 + k)%nat)). induction fs as [|[n x] r IH]; cbn [map snd need_items]; [reflexivity|]. rewrite <- IH. reflexivity. Qed.
Lemma need_slice a ty l : need (VSlice a ty l) = (1 + need_items l)%nat.
Proof. cbn [need]. apply (f_equal (fun k => (1 + k)%nat)). induction l as [|x r IH]; cbn [need_items]; [reflexivity|]. rewrite <- IH. reflexivity. Qed.
Lemma need_map a ty es : need (VMap a ty es) = (1 + need_entries es)%nat.
Proof. cbn [need]. apply (f_equal (fun k => (1 + k)%nat)). induction es as [|[k x] r IH]; cbn [need_entries]; [reflexivity|]. rewrite <- IH. reflexivity. Qed.
Lemma need_pos v : (1 <= need v)%nat.
Proof. destruct v; cbn [need]; lia. Qed.
Lemma write_fields_items fs : forall s, write_fields fs s = write_items (map snd fs) s.
Proof. induction fs as [|[n x] r IH]; intros s; cbn [write_fields write_items map snd]; [reflexivity|]. destruct (write_data x s); try reflexivity. apply IH. Qed.

(* ---- class definitions ---- *)
Lemma name_eqb_true a b : name_eqb a b = true -> a = b.
Proof.
  revert b. induction a as [|x a IH]; destruct b as [|y b]; cbn; intros H; try discriminate; [reflexivity|].
  apply andb_true_iff in H. destruct H as [H1 H2]. f_equal; [lia|apply IH; exact H2].
Qed.
Lemma nth_z_cons {A} (x : A) r k : 0 < k -> nth_z (x :: r) k = nth_z r (k - 1).
Proof.
  intros H. unfold nth_z. cbn [length]. rewrite Nat2Z.inj_succ.
  destruct (Z.ltb_spec k 0); [lia|]. destruct (Z.ltb_spec (k - 1) 0); [lia|]. cbn [orb].
  destruct (Z.leb_spec (Z.succ (Z.of_nat (length r))) k); destruct (Z.leb_spec (Z.of_nat (length r)) (k - 1)); try lia; [reflexivity|].
  replace (Z.to_nat k) with (S (Z.to_nat (k - 1))) by lia. reflexivity.
Qed.
Lemma nth_z_0 {A} (x : A) r : nth_z (x :: r) 0 = Some x.
Proof. unfold nth_z. cbn [length]. rewrite Nat2Z.inj_succ. destruct (Z.leb_spec (Z.succ (Z.of_nat (length r))) 0); [lia|]. reflexivity. Qed.
Lemma cls_index_spec cls n : forall i j, cls_index cls n i = Some j ->
  (exists fs, nth_z cls (j - i) = Some (n, fs)) /\ i <= j < i + Z.of_nat (length cls).
Proof.
  induction cls as [|[n' fs'] r IH]; intros i j H; cbn [cls_index] in H; [discriminate|].
  destruct (name_eqb n n') eqn:E.
  - inversion H; subst j. apply name_eqb_true in E. subst n'. replace (i - i) with 0 by lia. rewrite nth_z_0.
    split; [eexists; reflexivity|]. cbn [length]. lia.
  - destruct (IH _ _ H) as [[fs N] B]. split.
    + exists fs. rewrite nth_z_cons by lia. replace (j - i - 1) with (j - (i + 1)) by lia. exact N.
    + cbn [length]. lia.
Qed.
Lemma cls_def_state st c names :
  ebytes (write_cls_def st c names) =
    ebytes st ++ [67] ++ encode_string c ++ gencodeInt (swrap 32 (Z.of_nat (length names))) ++ concat (map encode_string (map lower_name names)) /\
  ecls (write_cls_def st c names) = ecls st ++ [(c, map lower_name names)] /\
  erefs (write_cls_def st c names) = erefs st /\ enm (write_cls_def st c names) = enm st.
Proof.
  unfold write_cls_def. cbv zeta.
  set (st3 := emit (emit (emit st [g_objectDefTag]) (encode_string c)) (gencodeInt (swrap 32 (Z.of_nat (length names))))).
  destruct (fold_emit_tables (map lower_name names) st3) as [T1 T2].
  cbn [ecls erefs enm]. rewrite T1, T2, fold_emit_enm. split; [|repeat split].
  transitivity (ebytes (fold_left (fun s f => emit s (encode_string f)) (map lower_name names) st3)); [reflexivity|].
  rewrite ebytes_fold_emit. unfold st3. rewrite !ebytes_emit, <- !app_assoc. reflexivity.
Qed.
Lemma concat_len_ge names : Forall (Forall valid_rune) names -> (length names <= length (concat (map encode_string names)))%nat.
Proof.
  induction 1 as [|n ns V _ IH]; cbn [map concat length]; [lia|].
  destruct (string_denotes n [] V) as (t & tl & E & _). rewrite app_length, E. cbn [length]. lia.
Qed.
Lemma lower_name_valid n : Forall valid_rune n -> Forall valid_rune (lower_name n).
Proof.
  intros H. unfold lower_name. destruct n as [|c r]; [constructor|]. inversion H as [|? ? Hc Hr]; subst.
  destruct ((65 <=? c) && (c <=? 90)) eqn:E; [|exact H]. constructor; [|exact Hr]. unfold valid_rune, g_asciiGap. lia.
Qed.


Section Main.
Variable nm : namemap.
Variable F : name -> list name.
Variable f0 : nat.
Definition cls_ok (cls : list (name * list name)) : Prop := forall c fs, In (c, fs) cls -> fs = F c.

Definition enc_ok (v : gval) : Prop := forall st st',
  enm st = nm -> nm_complete nm v = true -> wfv nm F f0 v -> cls_ok (ecls st) -> write_data v st = Ok st' ->
  cls_ok (ecls st') /\ grows st st' /\
  exists bs h, ebytes st' = ebytes st ++ bs /\ (exists t tl, bs = t :: tl /\ t <> 90) /\
    den nm F (erefs st) v h (erefs st') /\
    (small st' -> forall pst rest, Rst st pst ->
      exists pst', Rst st' pst' /\ forall f, (need v <= f)%nat -> hparse_v f0 f pst (bs ++ rest) = Ok (h, rest, pst')).

(* a value written by one emit, parsed by one production that leaves the tables alone *)
Lemma leaf_ok v st st' bs h t tl :
  st' = emit st bs -> bs = t :: tl -> t <> 90 -> den nm F (erefs st) v h (erefs st) ->
  (forall pv pn pz pe pst rest, pv_step f0 pv pn pz pe pst (bs ++ rest) = Ok (h, rest, pst)) ->
  cls_ok (ecls st) ->
  cls_ok (ecls st') /\ grows st st' /\
  exists bs h, ebytes st' = ebytes st ++ bs /\ (exists t tl, bs = t :: tl /\ t <> 90) /\
    den nm F (erefs st) v h (erefs st') /\
    (small st' -> forall pst rest, Rst st pst ->
      exists pst', Rst st' pst' /\ forall f, (need v <= f)%nat -> hparse_v f0 f pst (bs ++ rest) = Ok (h, rest, pst')).
Proof.
  intros -> Hb Ht D P C. split; [exact C|]. split; [split; cbn; lia|].
  exists bs, h. split; [apply ebytes_emit|]. split; [exists t, tl; split; assumption|]. split; [exact D|].
  intros _ pst rest R. exists pst. split; [exact R|]. intros f Hf. pose proof (need_pos v). destruct f as [|f]; [lia|].
  rewrite hparse_v_S; apply P.
Qed.

(* ---- leaves ---- *)
Lemma int_tag_not_Z t : is_int_tag t = true -> t <> 90.
Proof. unfold is_int_tag, rng. lia. Qed.
Lemma long_tag_not_Z t : is_long_tag t = true -> t <> 90.
Proof. unfold is_long_tag, rng. lia. Qed.
Lemma double_tag_not_Z t : is_double_tag t = true -> t <> 90.
Proof. unfold is_double_tag, rng. lia. Qed.
Lemma date_tag_not_Z t : is_date_tag t = true -> t <> 90.
Proof. unfold is_date_tag. lia. Qed.
Lemma string_tag_not_Z t : is_string_tag t = true -> t <> 90.
Proof. unfold is_string_tag, rng. lia. Qed.
Lemma binary_tag_not_Z t : is_binary_tag t = true -> t <> 90.
Proof. unfold is_binary_tag, rng. lia. Qed.

Lemma int_leaf v : in_i32 v -> exists t tl, gencodeInt v = t :: tl /\ t <> 90 /\
  forall pv pn pz pe pst rest, pv_step f0 pv pn pz pe pst (gencodeInt v ++ rest) = Ok (HInt v, rest, pst).
Proof.
  intros H. destruct (int_denotes v [] H) as (t & tl & E & T & _). exists t, tl. split; [exact E|]. split; [apply int_tag_not_Z; exact T|].
  intros pv pn pz pe pst rest. destruct (int_denotes v rest H) as (t' & tl' & E' & T' & P'). rewrite E'. cbn [app].
  rewrite pv_int by exact T'. rewrite P'. reflexivity.
Qed.
Lemma long_leaf v : in_i64 v -> exists t tl, gencodeLong v = t :: tl /\ t <> 90 /\
  forall pv pn pz pe pst rest, pv_step f0 pv pn pz pe pst (gencodeLong v ++ rest) = Ok (HLong v, rest, pst).
Proof.
  intros H. destruct (long_denotes v [] H) as (t & tl & E & _ & T & _). exists t, tl. split; [exact E|]. split; [apply long_tag_not_Z; exact T|].
  intros pv pn pz pe pst rest. destruct (long_denotes v rest H) as (t' & tl' & E' & T0 & T' & P'). rewrite E'. cbn [app].
  rewrite pv_long by assumption. rewrite P'. reflexivity.
Qed.
Lemma double_leaf b bs : in_f64 b -> gencodeDouble b = Ok bs -> exists t tl d, bs = t :: tl /\ t <> 90 /\ feq d b = true /\
  forall pv pn pz pe pst rest, pv_step f0 pv pn pz pe pst (bs ++ rest) = Ok (HDouble d, rest, pst).
Proof.
  intros H E. destruct (double_denotes b bs [] H E) as (t & tl & d & B & T0 & T1 & T & P & Fq).
  exists t, tl, d. split; [exact B|]. split; [apply double_tag_not_Z; exact T|]. split; [exact Fq|].
  intros pv pn pz pe pst rest. destruct (double_denotes b bs rest H E) as (t' & tl' & d' & B' & T0' & T1' & T' & P' & Fq').
  rewrite B in B'. inversion B'; subst t' tl'. rewrite B. cbn [app]. rewrite pv_double by assumption. rewrite P'.
  rewrite app_nil_r in P. cbn [bind].
  (* the parsed number does not depend on what follows *)
  assert (d' = d).
  { clear - P P' B. unfold parse_double in *.
    destruct (t =? 91); [inversion P; inversion P'; congruence|]. destruct (t =? 92); [inversion P; inversion P'; congruence|].
    destruct (t =? 93).
    { destruct tl as [|a tl0]; cbn in P, P'; [discriminate|]. inversion P; inversion P'; congruence. }
    destruct (t =? 94).
    { destruct tl as [|a [|b0 tl0]]; cbn in P, P'; try discriminate. inversion P; inversion P'; congruence. }
    destruct (t =? 95).
    { destruct tl as [|a [|b0 [|c [|e tl0]]]]; cbn in P, P'; try discriminate. inversion P; inversion P'; congruence. }
    destruct (t =? 68); [|discriminate].
    destruct tl as [|a1 [|a2 [|a3 [|a4 [|a5 [|a6 [|a7 [|a8 tl0]]]]]]]]; cbn in P, P'; try discriminate. inversion P; inversion P'; congruence. }
  subst d'. reflexivity.
Qed.
Lemma string_leaf rs : Forall valid_rune rs -> (length rs < f0)%nat -> exists t tl, encode_string rs = t :: tl /\ t <> 90 /\
  forall pv pn pz pe pst rest, pv_step f0 pv pn pz pe pst (encode_string rs ++ rest) = Ok (HString rs, rest, pst).
Proof.
  intros V L. destruct (string_denotes rs [] V) as (t & tl & E & T & _). exists t, tl. split; [exact E|]. split; [apply string_tag_not_Z; exact T|].
  intros pv pn pz pe pst rest. destruct (string_denotes rs rest V) as (t' & tl' & E' & T' & P'). rewrite E'. cbn [app].
  rewrite pv_string by exact T'. rewrite (P' f0 L). reflexivity.
Qed.
Lemma binary_leaf bs : (length bs < f0)%nat -> exists t tl, encode_binary bs = t :: tl /\ t <> 90 /\
  forall pv pn pz pe pst rest, pv_step f0 pv pn pz pe pst (encode_binary bs ++ rest) = Ok (HBinary bs, rest, pst).
Proof.
  intros L. destruct (binary_denotes bs []) as (t & tl & E & T & _). exists t, tl. split; [exact E|]. split; [apply binary_tag_not_Z; exact T|].
  intros pv pn pz pe pst rest. destruct (binary_denotes bs rest) as (t' & tl' & E' & T' & P'). rewrite E'. cbn [app].
  rewrite pv_binary by exact T'. rewrite (P' f0 L). reflexivity.
Qed.
Lemma date_leaf s n : year_ok s -> 0 <= n < 1000000000 -> time_is_zero s n = false -> date_compact s n = false ->
  exists t tl, gencodeDate s n = t :: tl /\ t <> 90 /\
  forall pv pn pz pe pst rest, pv_step f0 pv pn pz pe pst (gencodeDate s n ++ rest) = Ok (HDate (date_ms s n), rest, pst).
Proof.
  intros Y N Z0 C. destruct (date_denotes s n [] Y N Z0) as (t & tl & E & T & _). exists t, tl. split; [exact E|]. split; [apply date_tag_not_Z; exact T|].
  intros pv pn pz pe pst rest. destruct (date_denotes s n rest Y N Z0) as (t' & tl' & E' & T' & P'). rewrite E'. cbn [app].
  rewrite pv_date by exact T'. rewrite P', C. reflexivity.
Qed.

(* ---- the conclusion, named ---- *)
Definition post (v : gval) (st st' : estate) : Prop :=
  cls_ok (ecls st') /\ grows st st' /\
  exists bs h, ebytes st' = ebytes st ++ bs /\ (exists t tl, bs = t :: tl /\ t <> 90) /\
    den nm F (erefs st) v h (erefs st') /\
    (small st' -> forall pst rest, Rst st pst ->
      exists pst', Rst st' pst' /\ forall f, (need v <= f)%nat -> hparse_v f0 f pst (bs ++ rest) = Ok (h, rest, pst')).
Lemma enc_ok_post v : enc_ok v <-> (forall st st', enm st = nm -> nm_complete nm v = true -> wfv nm F f0 v -> cls_ok (ecls st) ->
  write_data v st = Ok st' -> post v st st').
Proof. unfold enc_ok, post. split; intros H; exact H. Qed.

(* a back-reference *)
Lemma ref_post v st i : cls_ok (ecls st) -> den nm F (erefs st) v (HRef (swrap 32 i)) (erefs st) -> post v st (write_ref st i).
Proof.
  intros C D. split; [exact C|]. split; [split; cbn; lia|].
  exists (g_refStartTag :: gencodeInt (swrap 32 i)), (HRef (swrap 32 i)).
  split; [unfold write_ref; rewrite !ebytes_emit, <- app_assoc; reflexivity|].
  split; [exists g_refStartTag, (gencodeInt (swrap 32 i)); split; [reflexivity|discriminate]|]. split; [exact D|].
  intros _ pst rest R. exists pst. split; [exact R|]. intros f Hf. pose proof (need_pos v). destruct f as [|f]; [lia|].
  rewrite hparse_v_S. change g_refStartTag with 81. cbn [app]. rewrite pv_ref, piv by apply swrap32_range. reflexivity.
Qed.

(* ---- lists of values ---- *)
Lemma hparse_n_0 f pst bs : hparse_n f0 (S f) 0 pst bs = Ok ([], bs, pst).
Proof. rewrite hparse_n_S. reflexivity. Qed.
Lemma items_ok : forall l, Forall enc_ok l -> forall st st',
  enm st = nm -> forallb (nm_complete nm) l = true -> Forall (wfv nm F f0) l -> cls_ok (ecls st) -> write_items l st = Ok st' ->
  cls_ok (ecls st') /\ grows st st' /\
  exists bs hs, ebytes st' = ebytes st ++ bs /\ (length l <= length bs)%nat /\
    den_list nm F (erefs st) l hs (erefs st') /\
    (small st' -> forall pst rest, Rst st pst ->
      exists pst', Rst st' pst' /\ forall f, (need_items l <= f)%nat -> hparse_n f0 f (length l) pst (bs ++ rest) = Ok (hs, rest, pst')).
Proof.
  induction l as [|x r IH]; intros HF st st' En Hc Hw C W.
  - cbn in W. inversion W; subst st'. split; [exact C|]. split; [apply grows_refl|].
    exists [], []. split; [rewrite app_nil_r; reflexivity|]. split; [cbn; lia|]. split; [constructor|].
    intros _ pst rest R. exists pst. split; [exact R|]. intros f Hf. cbn [need_items] in Hf. destruct f as [|f]; [lia|]. apply hparse_n_0.
  - inversion HF as [|? ? Hx Hr]; subst. inversion Hw as [|? ? Wx Wr]; subst.
    cbn [forallb] in Hc. apply andb_true_iff in Hc. destruct Hc as [Cx Cr].
    cbn [write_items] in W. destruct (write_data x st) as [s1| | |] eqn:E1; try discriminate.
    destruct (Hx st s1 En Cx Wx C E1) as (C1 & G1 & b1 & h1 & B1 & (t & tl & T1 & T1z) & D1 & P1).
    assert (En1 : enm s1 = nm) by (rewrite (complete_maps_unchanged x st s1); [exact En|rewrite En; exact Cx|exact E1]).
    destruct (IH Hr s1 st' En1 Cr Wr C1 W) as (C2 & G2 & b2 & hs2 & B2 & L2 & D2 & P2).
    split; [exact C2|]. split; [eapply grows_trans; eassumption|].
    exists (b1 ++ b2), (h1 :: hs2). split; [rewrite B2, B1, <- app_assoc; reflexivity|].
    split; [rewrite app_length, T1; cbn [length]; lia|]. split; [econstructor; eassumption|].
    intros Sm pst rest R.
    destruct (P1 (small_back _ _ G2 Sm) pst (b2 ++ rest) R) as (pst1 & R1 & V1).
    destruct (P2 Sm pst1 rest R1) as (pst2 & R2 & V2).
    exists pst2. split; [exact R2|]. intros f Hf. cbn [need_items] in Hf. destruct f as [|f]; [lia|].
    cbn [length]. rewrite hparse_n_S. cbn [pn_step]. rewrite <- app_assoc, V1 by lia. cbn [bind]. rewrite V2 by lia. reflexivity.
Qed.

Lemma pe_step_cons pv pe st t r : t <> 90 ->
  pe_step pv pe st (t :: r) =
  (do (x, st1) <- pv st (t :: r) ;; let '(k, r1) := x in
   do (y, st2) <- pv st1 r1 ;; let '(v, r2) := y in
   do (z, st3) <- pe st2 r2 ;; let '(es, r3) := z in Ok ((k, v) :: es, r3, st3)).
Proof.
  intros H. unfold pe_step. destruct t as [|p|p]; try reflexivity.
  repeat (destruct p as [p|p|]; try reflexivity). exfalso. apply H. reflexivity.
Qed.
Lemma entries_ok : forall l, Forall (fun e => enc_ok (fst e) /\ enc_ok (snd e)) l -> forall st st',
  enm st = nm -> forallb (fun e => nm_complete nm (fst e) && nm_complete nm (snd e)) l = true ->
  Forall (fun e => wfv nm F f0 (fst e) /\ wfv nm F f0 (snd e)) l -> cls_ok (ecls st) -> write_entries l st = Ok st' ->
  cls_ok (ecls st') /\ grows st st' /\
  exists bs hes, ebytes st' = ebytes st ++ bs /\
    den_entries nm F (erefs st) l hes (erefs st') /\
    (small st' -> forall pst rest, Rst st pst ->
      exists pst', Rst st' pst' /\ forall f, (need_entries l <= f)%nat -> hparse_e f0 f pst (bs ++ 90 :: rest) = Ok (hes, rest, pst')).
Proof.
  induction l as [|[k x] r IH]; intros HF st st' En Hc Hw C W.
  - cbn in W. inversion W; subst st'. split; [exact C|]. split; [apply grows_refl|].
    exists [], []. split; [rewrite app_nil_r; reflexivity|]. split; [constructor|].
    intros _ pst rest R. exists pst. split; [exact R|]. intros f Hf. cbn [need_entries] in Hf. destruct f as [|f]; [lia|].
    rewrite hparse_e_S. reflexivity.
  - inversion HF as [|? ? [Hk Hx] Hr]; subst. inversion Hw as [|? ? [Wk Wx] Wr]; subst. cbn [fst snd] in *.
    cbn [forallb fst snd] in Hc. apply andb_true_iff in Hc. destruct Hc as [Ckx Cr]. apply andb_true_iff in Ckx. destruct Ckx as [Ck Cx].
    cbn [write_entries] in W. destruct (write_data k st) as [s1| | |] eqn:E1; try discriminate.
    destruct (write_data x s1) as [s2| | |] eqn:E2; try discriminate.
    destruct (Hk st s1 En Ck Wk C E1) as (C1 & G1 & b1 & h1 & B1 & (t & tl & T1 & T1z) & D1 & P1).
    assert (En1 : enm s1 = nm) by (rewrite (complete_maps_unchanged k st s1); [exact En|rewrite En; exact Ck|exact E1]).
    destruct (Hx s1 s2 En1 Cx Wx C1 E2) as (C2 & G2 & b2 & h2 & B2 & _ & D2 & P2).
    assert (En2 : enm s2 = nm) by (rewrite (complete_maps_unchanged x s1 s2); [exact En1|rewrite En1; exact Cx|exact E2]).
    destruct (IH Hr s2 st' En2 Cr Wr C2 W) as (C3 & G3 & b3 & hes & B3 & D3 & P3).
    split; [exact C3|]. split; [eapply grows_trans; [exact G1|eapply grows_trans; eassumption]|].
    exists (b1 ++ b2 ++ b3), ((h1, h2) :: hes). split; [rewrite B3, B2, B1, <- !app_assoc; reflexivity|].
    split; [econstructor; eassumption|].
    intros Sm pst rest R.
    pose proof (small_back _ _ G3 Sm) as Sm2. pose proof (small_back _ _ G2 Sm2) as Sm1.
    destruct (P1 Sm1 pst (b2 ++ b3 ++ 90 :: rest) R) as (pst1 & R1 & V1).
    destruct (P2 Sm2 pst1 (b3 ++ 90 :: rest) R1) as (pst2 & R2 & V2).
    destruct (P3 Sm pst2 rest R2) as (pst3 & R3 & V3).
    exists pst3. split; [exact R3|]. intros f Hf. cbn [need_entries] in Hf. destruct f as [|f]; [lia|].
    rewrite hparse_e_S. rewrite <- !app_assoc. rewrite T1. cbn [app].
    rewrite pe_step_cons by exact T1z. rewrite T1 in V1. cbn [app] in V1. rewrite V1 by lia. cbn [bind]. rewrite V2 by lia. cbn [bind]. rewrite V3 by lia. reflexivity.
Qed.

(* ---- the header of an object: class definition (when new) and instance tag ---- *)
Lemma struct_prefix_spec st1 ty fs c : enm st1 = nm -> nm_lookup nm ty = Some c -> cls_ok (ecls st1) ->
  map lower_name (map fst fs) = F c -> name_ok f0 c -> Forall (name_ok f0) (F c) -> Z.of_nat (length fs) <= 2147483647 ->
  let st4 := struct_prefix st1 ty fs in
  erefs st4 = erefs st1 /\ enm st4 = enm st1 /\ cls_ok (ecls st4) /\ (length (ecls st1) <= length (ecls st4))%nat /\
  exists hdr t tl, ebytes st4 = ebytes st1 ++ hdr /\ hdr = t :: tl /\ t <> 90 /\
    forall pst tail, Z.of_nat (length (ecls st4)) <= 2147483647 -> pclasses pst = ecls st1 ->
      exists pstT, pclasses pstT = ecls st4 /\ popen pstT = popen pst /\
        forall f hs rest pst', (forall f', (f <= f')%nat -> hparse_n f0 f' (length fs) (st_open pstT) tail = Ok (hs, rest, pst')) ->
         hparse_v f0 (S (S f)) pst (hdr ++ tail) = Ok (HObject c (combine (F c) hs), rest, pst').
Proof.
  intros En NL C HF [Vc Lc] NF LN. cbv zeta. unfold struct_prefix.
  replace (nm_lookup (enm st1) ty) with (Some c) by (rewrite En; symmetry; exact NL).
  assert (LF : length (F c) = length fs) by (rewrite <- HF, !map_length; reflexivity).
  (* the instance tag for index idx, once the class table of the parser holds the class at idx *)
  assert (TAG : forall st3 idx, 0 <= idx ->
    let st4 := if idx <=? g_objectTagMaxLen then emit st3 [wrap 8 (wrap 8 idx + g_objectLenTagMin)]
               else emit (emit st3 [g_objectTag]) (gencodeInt (swrap 32 idx)) in
    erefs st4 = erefs st3 /\ enm st4 = enm st3 /\ ecls st4 = ecls st3 /\
    exists hdr t tl, ebytes st4 = ebytes st3 ++ hdr /\ hdr = t :: tl /\ t <> 90 /\
      forall f pst tail hs rest pst', idx <= 2147483647 -> nth_z (pclasses pst) idx = Some (c, F c) ->
        hparse_n f0 f (length fs) (st_open pst) tail = Ok (hs, rest, pst') ->
        hparse_v f0 (S f) pst (hdr ++ tail) = Ok (HObject c (combine (F c) hs), rest, pst')).
  { intros st3 idx Hi. cbv zeta. unfold g_objectTagMaxLen, g_objectLenTagMin, g_objectTag.
    destruct (idx <=? 15) eqn:E.
    - split; [reflexivity|]. split; [reflexivity|]. split; [reflexivity|].
      rewrite (wrap8_id idx) by lia. rewrite wrap8_id by lia.
      exists [idx + 96], (idx + 96), []. split; [apply ebytes_emit|]. split; [reflexivity|]. split; [lia|].
      intros f pst tail hs rest pst' _ N P. rewrite hparse_v_S. cbn [app]. replace (idx + 96) with (96 + idx) by lia.
      rewrite pv_object_short by lia. unfold object_of. rewrite N, LF, P. reflexivity.
    - split; [reflexivity|]. split; [reflexivity|]. split; [reflexivity|].
      exists (79 :: gencodeInt (swrap 32 idx)), 79, (gencodeInt (swrap 32 idx)).
      split; [rewrite !ebytes_emit, <- app_assoc; reflexivity|]. split; [reflexivity|]. split; [lia|].
      intros f pst tail hs rest pst' Hm N P. rewrite hparse_v_S. cbn [app]. rewrite pv_object_long.
      rewrite piv by apply swrap32_range. cbn [bind]. rewrite swrap32_id by (unfold in_i32; lia).
      unfold object_of. rewrite N, LF, P. reflexivity. }
  destruct (cls_index (ecls st1) c 0) as [i|] eqn:CI.
  - (* the class is already defined *)
    destruct (cls_index_spec _ _ _ _ CI) as [[fs0 N0] B0]. replace (i - 0) with i in N0 by lia.
    assert (fs0 = F c).
    { apply C. unfold nth_z in N0. destruct ((i <? 0) || (Z.of_nat (length (ecls st1)) <=? i)); [discriminate|]. eapply nth_error_In. exact N0. }
    subst fs0.
    destruct (TAG st1 i ltac:(lia)) as (T1 & T2 & T3 & hdr & t & tl & B & Hh & Hz & P).
    split; [exact T1|]. split; [exact T2|]. split; [rewrite T3; exact C|]. split; [rewrite T3; lia|].
    exists hdr, t, tl. split; [exact B|]. split; [exact Hh|]. split; [exact Hz|].
    intros pst tail Sm PC. exists pst. split; [rewrite T3; exact PC|]. split; [reflexivity|].
    intros f hs rest pst' HN. apply P; [rewrite T3 in Sm; lia|rewrite PC; exact N0|apply HN; lia].
  - (* a new class: definition first *)
    destruct (cls_def_state st1 c (map fst fs)) as (DB & DC & DR & DN).
    set (stD := write_cls_def st1 c (map fst fs)) in *.
    destruct (TAG stD (Z.of_nat (length (ecls st1))) ltac:(lia)) as (T1 & T2 & T3 & hdr & t & tl & B & Hh & Hz & P).
    rewrite HF in DC, DB.
    split; [rewrite T1; exact DR|]. split; [rewrite T2; exact DN|]. split.
    { rewrite T3, DC. intros c' fs' I. apply in_app_or in I. destruct I as [I|[I|[]]]; [apply C; exact I|]. inversion I; subst. reflexivity. }
    split; [rewrite T3, DC, app_length; cbn; lia|].
    eexists; exists 67; eexists. split; [rewrite B, DB, <- !app_assoc; cbn [app]; reflexivity|]. split; [reflexivity|]. split; [lia|].
    intros pst tail Sm PC.
    exists (st_add_class pst (c, F c)). split; [cbn; rewrite PC, T3, DC; reflexivity|]. split; [reflexivity|].
    intros f hs rest pst' HN. rewrite hparse_v_S. cbn [app]. rewrite pv_classdef.
    rewrite <- !app_assoc. rewrite psv by assumption. cbn [bind].
    rewrite map_length. rewrite piv by apply swrap32_range. cbn [bind]. rewrite swrap32_id by (unfold in_i32; lia).
    assert (VF : Forall (Forall valid_rune) (F c)) by (eapply Forall_impl; [|exact NF]; intros n0 [V0 _]; exact V0).
    assert (LFc : Forall (fun n0 => (length n0 < f0)%nat) (F c)) by (eapply Forall_impl; [|exact NF]; intros n0 [_ L0]; exact L0).
    assert (CO : count_ok (Z.of_nat (length fs)) (concat (map encode_string (F c)) ++ hdr ++ tail) = true).
    { unfold count_ok. assert (H : (length fs <= length (concat (map encode_string (F c))))%nat) by (rewrite <- LF; exact (concat_len_ge (F c) VF)).
      rewrite app_length. apply andb_true_iff. split; [apply Z.leb_le; lia|apply Z.leb_le]. lia. }
    rewrite CO. cbn [negb]. rewrite Nat2Z.id, <- LF. rewrite pss by assumption. cbn [bind].
    apply P; [rewrite T3, DC, app_length in Sm; cbn in Sm; lia| |apply HN; lia].
    cbn [pclasses st_add_class]. rewrite PC. apply nth_z_app_new.
Qed.

(* ---- the header of a list ---- *)
Lemma list_header_spec st1 ty n : enm st1 = nm -> 0 <= n <= 2147483647 ->
  (forall ltn, nm_lookup nm ty = Some ltn -> name_ok f0 ltn) ->
  let st2 := list_header st1 ty n in
  erefs st2 = erefs st1 /\ enm st2 = enm st1 /\ ecls st2 = ecls st1 /\
  exists hdr t tl, ebytes st2 = ebytes st1 ++ hdr /\ hdr = t :: tl /\ t <> 90 /\
    forall pst tail, n <= Z.of_nat (length tail) ->
      exists pstT, pclasses pstT = pclasses pst /\ popen pstT = popen pst /\
        forall f hs rest pst', hparse_n f0 f (Z.to_nat n) (st_open pstT) tail = Ok (hs, rest, pst') ->
         hparse_v f0 (S f) pst (hdr ++ tail) = Ok (HList (list_type nm ty) hs, rest, pst').
Proof.
  intros En Hn NO. cbv zeta. unfold list_header, list_type.
  replace (nm_lookup (enm st1) ty) with (nm_lookup nm ty) by (rewrite En; reflexivity).
  assert (UNT : let st2 := emit (emit st1 [g_listFixedUntypedTag]) (gencodeInt (swrap 32 n)) in
    erefs st2 = erefs st1 /\ enm st2 = enm st1 /\ ecls st2 = ecls st1 /\
    exists hdr t tl, ebytes st2 = ebytes st1 ++ hdr /\ hdr = t :: tl /\ t <> 90 /\
      forall pst tail, n <= Z.of_nat (length tail) ->
        exists pstT, pclasses pstT = pclasses pst /\ popen pstT = popen pst /\
          forall f hs rest pst', hparse_n f0 f (Z.to_nat n) (st_open pstT) tail = Ok (hs, rest, pst') ->
           hparse_v f0 (S f) pst (hdr ++ tail) = Ok (HList None hs, rest, pst')).
  { cbv zeta. split; [reflexivity|]. split; [reflexivity|]. split; [reflexivity|].
    exists (88 :: gencodeInt (swrap 32 n)), 88, (gencodeInt (swrap 32 n)).
    split; [rewrite !ebytes_emit, <- app_assoc; reflexivity|]. split; [reflexivity|]. split; [lia|].
    intros pst tail CT. exists pst. split; [reflexivity|]. split; [reflexivity|]. intros f hs rest pst' P.
    rewrite hparse_v_S. cbn [app]. rewrite pv_list_untyped_fixed. rewrite piv by apply swrap32_range. cbn [bind].
    rewrite swrap32_id by (unfold in_i32; lia).
    replace (count_ok n tail) with true by (unfold count_ok; symmetry; apply andb_true_iff; split; apply Z.leb_le; lia).
    cbn [negb]. rewrite P. reflexivity. }
  destruct (nm_lookup nm ty) as [ltn|] eqn:NL; [|exact UNT].
  destruct (name_eqb interface_type_name (array_root_elem_name ty)); [exact UNT|].
  destruct (NO ltn eq_refl) as [Vl Ll].
  unfold g_listFixedTypedLenMax, g_listFixedTypedLenTagMin, g_listFixedTypedStartTag.
  destruct (n <=? 7) eqn:E.
  - split; [reflexivity|]. split; [reflexivity|]. split; [reflexivity|].
    rewrite (wrap8_id n) by lia. rewrite wrap8_id by lia.
    exists ((112 + n) :: encode_string ltn), (112 + n), (encode_string ltn).
    split; [rewrite !ebytes_emit, <- app_assoc; reflexivity|]. split; [reflexivity|]. split; [lia|].
    intros pst tail CT. exists (st_add_type pst ltn). split; [reflexivity|]. split; [reflexivity|]. intros f hs rest pst' P.
    rewrite hparse_v_S. cbn [app]. rewrite pv_list_typed_short by lia. rewrite ptype by assumption. cbn [bind]. rewrite P. reflexivity.
  - split; [reflexivity|]. split; [reflexivity|]. split; [reflexivity|].
    exists (86 :: encode_string ltn ++ gencodeInt (swrap 32 n)), 86, (encode_string ltn ++ gencodeInt (swrap 32 n)).
    split; [rewrite !ebytes_emit, <- !app_assoc; reflexivity|]. split; [reflexivity|]. split; [lia|].
    intros pst tail CT. exists (st_add_type pst ltn). split; [reflexivity|]. split; [reflexivity|]. intros f hs rest pst' P.
    rewrite hparse_v_S. cbn [app]. rewrite pv_list_typed_fixed. rewrite <- app_assoc. rewrite ptype by assumption. cbn [bind].
    rewrite piv by apply swrap32_range. cbn [bind]. rewrite swrap32_id by (unfold in_i32; lia).
    replace (count_ok n tail) with true by (unfold count_ok; symmetry; apply andb_true_iff; split; apply Z.leb_le; lia).
    cbn [negb]. rewrite P. reflexivity.
Qed.

(* ---- the header of a map ---- *)
Lemma map_prefix_spec st1 ty : enm st1 = nm -> (forall mn, nm_lookup nm ty = Some mn -> name_ok f0 mn) ->
  let st2 := map_prefix st1 ty in
  erefs st2 = erefs st1 /\ enm st2 = enm st1 /\ ecls st2 = ecls st1 /\
  exists hdr t tl, ebytes st2 = ebytes st1 ++ hdr /\ hdr = t :: tl /\ t <> 90 /\
    forall pst tail,
      exists pstT, pclasses pstT = pclasses pst /\ popen pstT = popen pst /\
        forall f hes rest pst', hparse_e f0 f (st_open pstT) tail = Ok (hes, rest, pst') ->
         hparse_v f0 (S f) pst (hdr ++ tail) = Ok (HMap (nm_lookup nm ty) hes, rest, pst').
Proof.
  intros En NO. cbv zeta. unfold map_prefix.
  replace (nm_lookup (enm st1) ty) with (nm_lookup nm ty) by (rewrite En; reflexivity). destruct (nm_lookup nm ty) as [mn|] eqn:NL.
  - destruct (NO mn eq_refl) as [Vm Lm]. split; [reflexivity|]. split; [reflexivity|]. split; [reflexivity|].
    exists (77 :: encode_string mn), 77, (encode_string mn).
    split; [rewrite !ebytes_emit, <- app_assoc; reflexivity|]. split; [reflexivity|]. split; [lia|].
    intros pst tail. exists (st_add_type pst mn). split; [reflexivity|]. split; [reflexivity|]. intros f hes rest pst' P.
    rewrite hparse_v_S. cbn [app]. rewrite pv_map_typed. rewrite ptype by assumption. cbn [bind]. rewrite P. reflexivity.
  - split; [reflexivity|]. split; [reflexivity|]. split; [reflexivity|].
    exists [72], 72, []. split; [apply ebytes_emit|]. split; [reflexivity|]. split; [lia|].
    intros pst tail. exists pst. split; [reflexivity|]. split; [reflexivity|]. intros f hes rest pst' P.
    rewrite hparse_v_S. cbn [app]. rewrite pv_map_untyped. rewrite P. reflexivity.
Qed.

(* ---- the theorem ---- *)
Lemma Rst_open st pst a k pstT : Rst st pst -> pclasses pstT = pclasses pst -> popen pstT = popen pst ->
  forall st2, erefs st2 = erefs st ++ [(a, k)] -> ecls st2 = ecls st -> Rst st2 (st_open pstT).
Proof.
  intros [R1 R2] P1 P2 st2 E1 E2. split; cbn [pclasses popen st_open]; [rewrite P1, R1, E2; reflexivity|].
  rewrite P2, R2, E1, app_length. cbn. lia.
Qed.

Lemma forallb_map' {A B} (f : B -> bool) (g : A -> B) l : forallb f (map g l) = forallb (fun x => f (g x)) l.
Proof. induction l as [|x r IH]; cbn; [reflexivity|rewrite IH; reflexivity]. Qed.

Theorem enc_parses : forall v, enc_ok v.
Proof.
  induction v using gval_ind'; intros st st' En Hc Hw C W.
  - (* nil *) cbn [write_data] in W. inversion W as [W']. clear W. subst st'.
    eapply (leaf_ok VNil st _ [78] HNull 78 []); try reflexivity; [lia|apply d_nil|exact C].
  - (* bool *) cbn [write_data] in W. inversion W as [W']. clear W. subst st'. destruct b.
    + eapply (leaf_ok (VBool true) st _ [84] (HBool true) 84 []); try reflexivity; [lia|apply d_bool|exact C].
    + eapply (leaf_ok (VBool false) st _ [70] (HBool false) 70 []); try reflexivity; [lia|apply d_bool|exact C].
  - (* integers *) cbn [write_data] in W. destruct (enc_kind k z) as [bs| | |] eqn:E; inversion W as [W']. clear W. subst st'.
    destruct (kind_wire_int k) eqn:KW.
    + assert (bs = gencodeInt (swrap 32 z)) by (destruct k; cbn in E, KW; try discriminate; try (destruct (between _ _ _)); inversion E; reflexivity).
      subst bs. destruct (int_leaf (swrap 32 z) (swrap32_range z)) as (t & tl & E1 & T & P).
      eapply (leaf_ok (VInt k z) st _ _ (HInt (swrap 32 z)) t tl); try reflexivity; [exact E1|exact T|apply d_int; exact KW|exact P|exact C].
    + assert (bs = gencodeLong (swrap 64 z)) by (destruct k; cbn in E, KW; try discriminate; inversion E; reflexivity).
      subst bs. destruct (long_leaf (swrap 64 z) (swrap64_range z)) as (t & tl & E1 & T & P).
      eapply (leaf_ok (VInt k z) st _ _ (HLong (swrap 64 z)) t tl); try reflexivity; [exact E1|exact T|apply d_long; exact KW|exact P|exact C].
  - (* float32 *) cbn [write_data] in W. unfold write_double in W. destruct (gencodeDouble (widen b)) as [bs| | |] eqn:E; inversion W as [W']. clear W. subst st'.
    inversion Hw as [| | |? Hr| | | | | | | |].
    destruct (double_leaf (widen b) bs Hr E) as (t & tl & d & B & T & Fq & P).
    eapply (leaf_ok (VF32 b) st _ bs (HDouble d) t tl); try reflexivity; [exact B|exact T|apply d_f32; exact Fq|exact P|exact C].
  - (* float64 *) cbn [write_data] in W. unfold write_double in W. destruct (gencodeDouble b) as [bs| | |] eqn:E; inversion W as [W']. clear W. subst st'.
    inversion Hw as [| | | |? Hr| | | | | | |].
    destruct (double_leaf b bs Hr E) as (t & tl & d & B & T & Fq & P).
    eapply (leaf_ok (VF64 b) st _ bs (HDouble d) t tl); try reflexivity; [exact B|exact T|apply d_f64; exact Fq|exact P|exact C].
  - (* string *) cbn [write_data] in W. inversion W as [W']. clear W. subst st'. inversion Hw as [| | | | |? [Vr Lr]| | | | | |].
    destruct (string_leaf rs Vr Lr) as (t & tl & E1 & T & P).
    eapply (leaf_ok (VStr rs) st _ _ (HString rs) t tl); try reflexivity; [exact E1|exact T|apply d_str|exact P|exact C].
  - (* bytes *) cbn [write_data] in W. inversion W as [W']. clear W. subst st'. inversion Hw as [| | | | | |? Lb| | | | |].
    destruct (binary_leaf bs Lb) as (t & tl & E1 & T & P).
    eapply (leaf_ok (VBytes bs) st _ _ (HBinary bs) t tl); try reflexivity; [exact E1|exact T|apply d_bytes|exact P|exact C].
  - (* time *) cbn [write_data] in W. inversion W as [W']. clear W. subst st'. inversion Hw as [| | | | | | |? ? Ht| | | |].
    destruct (time_is_zero s n) eqn:Z0.
    + assert (G : gencodeDate s n = [78]) by (unfold gencodeDate; rewrite Z0; reflexivity).
      eapply (leaf_ok (VTime s n) st _ _ HNull 78 []); try reflexivity; [exact G|lia|apply d_time0; exact Z0| |exact C].
      intros. rewrite G. apply pv_null.
    + destruct Ht as [X|(Y & N & Cp)]; [discriminate|].
      destruct (date_leaf s n Y N Z0 Cp) as (t & tl & E1 & T & P).
      eapply (leaf_ok (VTime s n) st _ _ (HDate (date_ms s n)) t tl); try reflexivity; [exact E1|exact T|apply d_time; exact Z0|exact P|exact C].
  - (* struct *)
    inversion Hw as [| | | | | | | | |? ? ? NL NC HF NF LN WF| |].
    cbn [nm_complete] in Hc. apply andb_true_iff in Hc. destruct Hc as [_ Hcf].
    rewrite write_data_struct in W. unfold check_ref in W.
    destruct (ref_find (erefs st) a RStruct 0) as [i|] eqn:RF.
    + inversion W. apply ref_post; [exact C|apply d_struct_ref; exact RF].
    + set (st1 := {| ecls := ecls st; erefs := erefs st ++ [(a, RStruct)]; enm := enm st; eout := eout st |}) in *.
      destruct (nm_lookup nm ty) as [c|] eqn:NLc; [|contradiction]. clear NL.
      assert (CN : cname_of nm ty = c) by (unfold cname_of; rewrite NLc; reflexivity). rewrite CN in *.
      destruct (struct_prefix_spec st1 ty fs c En NLc C HF NC NF LN) as (P1 & P2 & P3 & P4 & hdr & t & tl & PB & PH & PZ & PP).
      set (st4 := struct_prefix st1 ty fs) in *.
      rewrite write_fields_items in W.
      assert (HFi : Forall enc_ok (map snd fs)) by (apply Forall_map; exact H).
      assert (Hci : forallb (nm_complete nm) (map snd fs) = true) by (rewrite forallb_map'; exact Hcf).
      assert (Hwi : Forall (wfv nm F f0) (map snd fs)) by (apply Forall_map; exact WF).
      destruct (items_ok (map snd fs) HFi st4 st' (eq_trans P2 En) Hci Hwi P3 W) as (C2 & G2 & b2 & hs & B2 & L2 & D2 & PI).
      split; [exact C2|]. split; [destruct G2 as [G21 G22]; split; [rewrite P1 in G21; cbn [erefs st1] in G21; rewrite app_length in G21; cbn in G21; lia|cbn [ecls st1] in P4; lia]|].
      exists (hdr ++ b2), (HObject c (combine (F c) hs)).
      split; [rewrite B2, PB, <- app_assoc; reflexivity|]. split; [exists t, (tl ++ b2); split; [rewrite PH; reflexivity|exact PZ]|].
      split; [rewrite <- CN; apply d_struct; [exact RF|rewrite P1 in D2; exact D2]|].
      intros Sm pst rest R. destruct R as [R1 R2].
      destruct (PP pst (b2 ++ rest)) as (pstT & T1 & T2 & K); [destruct (small_back _ _ G2 Sm); assumption|exact R1|].
      assert (RT : Rst st4 (st_open pstT)).
      { split; cbn [pclasses popen st_open]; [exact T1|]. rewrite T2, R2, P1. cbn [erefs st1]. rewrite app_length. cbn. lia. }
      destruct (PI Sm (st_open pstT) rest RT) as (pst2 & R2' & V2).
      exists pst2. split; [exact R2'|]. intros f Hf. rewrite need_struct in Hf. destruct f as [|[|f]]; try lia.
      rewrite <- app_assoc. apply K. intros f' Hf'. rewrite map_length in V2. apply V2. lia.
  - (* slice *)
    inversion Hw as [| | | | | | | | | |? ? ? NO LN WF|].
    cbn [nm_complete] in Hc.
    rewrite write_data_slice in W. unfold check_ref in W.
    set (key := if (length l =? 0)%nat then 0 else a) in *.
    destruct (ref_find (erefs st) key RSlice 0) as [i|] eqn:RF.
    + inversion W. apply ref_post; [exact C|apply d_slice_ref; exact RF].
    + set (st1 := {| ecls := ecls st; erefs := erefs st ++ [(key, RSlice)]; enm := enm st; eout := eout st |}) in *.
      destruct (list_header_spec st1 ty (Z.of_nat (length l)) En ltac:(lia) NO) as (P1 & P2 & P3 & hdr & t & tl & PB & PH & PZ & PP).
      set (st2 := list_header st1 ty (Z.of_nat (length l))) in *.
      assert (C2' : cls_ok (ecls st2)) by (rewrite P3; exact C).
      destruct (items_ok l H st2 st' (eq_trans P2 En) Hc WF C2' W) as (C2 & G2 & b2 & hs & B2 & L2 & D2 & PI).
      split; [exact C2|]. split; [destruct G2 as [G21 G22]; split; [rewrite P1 in G21; cbn [erefs st1] in G21; rewrite app_length in G21; cbn in G21; lia|rewrite P3 in G22; exact G22]|].
      exists (hdr ++ b2), (HList (list_type nm ty) hs).
      split; [rewrite B2, PB, <- app_assoc; reflexivity|]. split; [exists t, (tl ++ b2); split; [rewrite PH; reflexivity|exact PZ]|].
      split; [apply d_slice; [exact RF|rewrite P1 in D2; exact D2]|].
      intros Sm pst rest R. destruct R as [R1 R2].
      destruct (PP pst (b2 ++ rest)) as (pstT & T1 & T2 & K); [rewrite app_length; lia|].
      assert (RT : Rst st2 (st_open pstT)).
      { split; cbn [pclasses popen st_open]; [rewrite T1, R1, P3; reflexivity|]. rewrite T2, R2, P1. cbn [erefs st1]. rewrite app_length. cbn. lia. }
      destruct (PI Sm (st_open pstT) rest RT) as (pst2 & R2' & V2).
      exists pst2. split; [exact R2'|]. intros f Hf. rewrite need_slice in Hf. destruct f as [|f]; try lia.
      rewrite <- app_assoc. apply K. rewrite Nat2Z.id. apply V2. lia.
  - (* map *)
    inversion Hw as [| | | | | | | | | | |? ? ? NO WF].
    cbn [nm_complete] in Hc.
    rewrite write_data_map in W. destruct es as [|e1 es1].
    + inversion W as [W']. clear W. subst st'.
      eapply (leaf_ok (VMap a ty []) st _ [78] HNull 78 []); try reflexivity; [lia|apply d_map_empty|exact C].
    + unfold check_ref in W. destruct (ref_find (erefs st) a RMap 0) as [i|] eqn:RF.
      * inversion W. apply ref_post; [exact C|apply d_map_ref; exact RF].
      * set (st1 := {| ecls := ecls st; erefs := erefs st ++ [(a, RMap)]; enm := enm st; eout := eout st |}) in *.
        destruct (map_prefix_spec st1 ty En NO) as (P1 & P2 & P3 & hdr & t & tl & PB & PH & PZ & PP).
        set (st2 := map_prefix st1 ty) in *.
        assert (C2' : cls_ok (ecls st2)) by (rewrite P3; exact C).
        destruct (write_entries (e1 :: es1) st2) as [s3| | |] eqn:WE; try discriminate. inversion W as [W']. clear W. subst st'.
        destruct (entries_ok (e1 :: es1) H st2 s3 (eq_trans P2 En) Hc WF C2' WE) as (C2 & G2 & b2 & hes & B2 & D2 & PI).
        split; [exact C2|]. split; [destruct G2 as [G21 G22]; split; cbn [emit erefs ecls]; [rewrite P1 in G21; cbn [erefs st1] in G21; rewrite app_length in G21; cbn in G21; lia|rewrite P3 in G22; exact G22]|].
        exists (hdr ++ b2 ++ [90]), (HMap (nm_lookup nm ty) hes).
        split; [rewrite ebytes_emit, B2, PB, <- !app_assoc; reflexivity|]. split; [exists t, (tl ++ b2 ++ [90]); split; [rewrite PH; reflexivity|exact PZ]|].
        split; [apply d_map; [exact RF|rewrite P1 in D2; exact D2]|].
        intros Sm pst rest R. destruct R as [R1 R2].
        destruct (PP pst (b2 ++ 90 :: rest)) as (pstT & T1 & T2 & K).
        assert (RT : Rst st2 (st_open pstT)).
        { split; cbn [pclasses popen st_open]; [rewrite T1, R1, P3; reflexivity|]. rewrite T2, R2, P1. cbn [erefs st1]. rewrite app_length. cbn. lia. }
        destruct (PI Sm (st_open pstT) rest RT) as (pst2 & R2' & V2).
        exists pst2. split; [exact R2'|]. intros f Hf. rewrite need_map in Hf. destruct f as [|f]; try lia.
        rewrite <- !app_assoc. cbn [app]. apply K. apply V2. lia.
  - (* already written *)
    cbn [write_data] in W. destruct (ref_find (erefs st) a k 0) as [i|] eqn:RF; [|discriminate].
    inversion W. apply ref_post; [exact C|apply d_seen; exact RF].
  - cbn [write_data] in W. discriminate.
  - cbn [write_data] in W. discriminate.
Qed.

End Main.

(* ---- a whole message ---- *)
Theorem encode_parses nm F f0 v st' :
  write_data v (estate0 nm) = Ok st' -> small st' -> nm_complete nm v = true -> wfv nm F f0 v ->
  exists h pst', den nm F [] v h (erefs st') /\
    forall f, (need v <= f)%nat -> hparse_v f0 f pstate0 (ebytes st') = Ok (h, [], pst').
Proof.
  intros W Sm Hc Hw.
  destruct (enc_parses nm F f0 v (estate0 nm) st' eq_refl Hc Hw) as (_ & _ & bs & h & B & _ & D & P); [intros c fs []|exact W|].
  destruct (P Sm pstate0 [] (conj eq_refl eq_refl)) as (pst' & _ & V).
  exists h, pst'. split; [exact D|]. intros f Hf. cbn in B. rewrite B. rewrite <- (app_nil_r bs). apply V. exact Hf.
Qed.
(* with the fuel the reference parser gives itself for an input of that length *)
Theorem encode_hparse_all nm F v st' :
  write_data v (estate0 nm) = Ok st' -> small st' -> nm_complete nm v = true ->
  wfv nm F (S (length (ebytes st'))) v -> (need v <= S (S (length (ebytes st'))))%nat ->
  exists h, hparse_all (ebytes st') = Ok h /\ den nm F [] v h (erefs st').
Proof.
  intros W Sm Hc Hw Hn. destruct (encode_parses nm F _ v st' W Sm Hc Hw) as (h & pst' & D & V).
  exists h. split; [|exact D]. unfold hparse_all, hparse. rewrite (V _ Hn). reflexivity.
Qed.
