From Coq Require Import ZArith List Lia Bool.
From GH Require Import Base.GoSem Base.Result Gen.GoConsts Gen.GoLeaf Model.Scalars Proofs.IntProofs.
Import ListNotations.
Open Scope Z_scope.
Ltac Zify.zify_post_hook ::= Z.div_mod_to_equations.
Arguments Z.add : simpl never. Arguments Z.sub : simpl never. Arguments Z.mul : simpl never.
Arguments Z.leb : simpl never. Arguments Z.eqb : simpl never. Arguments Z.ltb : simpl never.

(* the eight big-endian bytes byte(v>>56) .. byte(v) recombine to v mod 2^64 *)
Lemma be8_recombine v :
  be_val [ (v / 72057594037927936) mod 256; (v / 281474976710656) mod 256; (v / 1099511627776) mod 256;
           (v / 4294967296) mod 256; (v / 16777216) mod 256; (v / 65536) mod 256; (v / 256) mod 256; v mod 256 ]
  = v mod 18446744073709551616.
Proof.
  unfold be_val. cbn [fold_left].
  pose (q1 := v / 256). pose (q2 := q1 / 256). pose (q3 := q2 / 256). pose (q4 := q3 / 256).
  pose (q5 := q4 / 256). pose (q6 := q5 / 256). pose (q7 := q6 / 256). pose (q8 := q7 / 256).
  assert (H2 : v / 65536 = q2) by (unfold q2, q1; rewrite Z.div_div by lia; reflexivity).
  assert (H3 : v / 16777216 = q3) by (unfold q3; rewrite <- H2, Z.div_div by lia; reflexivity).
  assert (H4 : v / 4294967296 = q4) by (unfold q4; rewrite <- H3, Z.div_div by lia; reflexivity).
  assert (H5 : v / 1099511627776 = q5) by (unfold q5; rewrite <- H4, Z.div_div by lia; reflexivity).
  assert (H6 : v / 281474976710656 = q6) by (unfold q6; rewrite <- H5, Z.div_div by lia; reflexivity).
  assert (H7 : v / 72057594037927936 = q7) by (unfold q7; rewrite <- H6, Z.div_div by lia; reflexivity).
  rewrite H2, H3, H4, H5, H6, H7. fold q1.
  pose proof (Z.div_mod v 256 ltac:(lia)) as E0. pose proof (Z.mod_pos_bound v 256 ltac:(lia)) as B0.
  pose proof (Z.div_mod q1 256 ltac:(lia)) as E1. pose proof (Z.mod_pos_bound q1 256 ltac:(lia)) as B1.
  pose proof (Z.div_mod q2 256 ltac:(lia)) as E2. pose proof (Z.mod_pos_bound q2 256 ltac:(lia)) as B2.
  pose proof (Z.div_mod q3 256 ltac:(lia)) as E3. pose proof (Z.mod_pos_bound q3 256 ltac:(lia)) as B3.
  pose proof (Z.div_mod q4 256 ltac:(lia)) as E4. pose proof (Z.mod_pos_bound q4 256 ltac:(lia)) as B4.
  pose proof (Z.div_mod q5 256 ltac:(lia)) as E5. pose proof (Z.mod_pos_bound q5 256 ltac:(lia)) as B5.
  pose proof (Z.div_mod q6 256 ltac:(lia)) as E6. pose proof (Z.mod_pos_bound q6 256 ltac:(lia)) as B6.
  pose proof (Z.div_mod q7 256 ltac:(lia)) as E7. pose proof (Z.mod_pos_bound q7 256 ltac:(lia)) as B7.
  fold q1 in E0. fold q2 in E1. fold q3 in E2. fold q4 in E3. fold q5 in E4. fold q6 in E5. fold q7 in E6. fold q8 in E7.
  set (d0 := v mod 256) in *. set (d1 := q1 mod 256) in *. set (d2 := q2 mod 256) in *. set (d3 := q3 mod 256) in *.
  set (d4 := q4 mod 256) in *. set (d5 := q5 mod 256) in *. set (d6 := q6 mod 256) in *. set (d7 := q7 mod 256) in *.
  clearbody d0 d1 d2 d3 d4 d5 d6 d7 q1 q2 q3 q4 q5 q6 q7 q8.
  clear H2 H3 H4 H5 H6 H7.
  apply Z.mod_unique_pos with (q := q8); lia.
Qed.

Theorem long_roundtrip v rest : in_i64 v -> decode_long (gencodeLong v ++ rest) = Ok (v, rest).
Proof.
  unfold in_i64. intros Hr. unfold gencodeLong. lconsts.
  rewrite ?shr8, ?shr16, ?shr24, ?shr32, ?shr40, ?shr48, ?shr56, ?wrap8_mod.
  destruct (((-8) <=? v) && (v <=? 15)) eqn:E1.
  { rewrite swrap64_id by (unfold in_i64; lia). replace ((224 + v) mod 256) with (224 + v) by lia.
    cbn [app decode_long read_tag bind]. unfold decode_long_tag, between. lconsts.
    replace ((216 <=? 224 + v) && (224 + v <=? 239)) with true by lia.
    rewrite swrap8_def, wrap8_mod. f_equal. f_equal. lia. }
  destruct (((-2048) <=? v) && (v <=? 2047)) eqn:E2.
  { rewrite swrap64_id by (unfold in_i64; lia). replace ((248 + v / 256) mod 256) with (248 + v / 256) by lia.
    cbn [app decode_long read_tag bind]. unfold decode_long_tag, between. lconsts.
    replace ((216 <=? 248 + v / 256) && (248 + v / 256 <=? 239)) with false by lia.
    replace ((240 <=? 248 + v / 256) && (248 + v / 256 <=? 255)) with true by lia.
    rewrite read_full_app1. cbn [bind]. rewrite swrap16_def, wrap8_mod. f_equal. f_equal. lia. }
  destruct (((-262144) <=? v) && (v <=? 262143)) eqn:E3.
  { rewrite swrap64_id by (unfold in_i64; lia). replace ((60 + v / 65536) mod 256) with (60 + v / 65536) by lia.
    cbn [app decode_long read_tag bind]. unfold decode_long_tag, between. lconsts.
    replace ((216 <=? 60 + v / 65536) && (60 + v / 65536 <=? 239)) with false by lia.
    replace ((240 <=? 60 + v / 65536) && (60 + v / 65536 <=? 255)) with false by lia.
    replace ((56 <=? 60 + v / 65536) && (60 + v / 65536 <=? 63)) with true by lia.
    rewrite read_full_app2. cbn [bind]. cbv zeta. rewrite wrap8_mod. rewrite land128 by lia.
    f_equal. f_equal. rewrite swrap32_def.
    destruct (128 <=? (60 + v / 65536 - 60) mod 256) eqn:E4; lia. }
  destruct (((-2147483648) <=? v) && (v <=? 2147483647)) eqn:E4.
  { cbn [app decode_long read_tag bind]. unfold decode_long_tag, between. lconsts.
    change ((216 <=? 89) && (89 <=? 239)) with false. change ((240 <=? 89) && (89 <=? 255)) with false.
    change ((56 <=? 89) && (89 <=? 63)) with false. change (89 =? 89) with true. cbv iota.
    rewrite read_full_app4. cbn [bind]. rewrite swrap32_def. f_equal. f_equal. lia. }
  { cbn [app decode_long read_tag bind]. unfold decode_long_tag, between. lconsts.
    change ((216 <=? 76) && (76 <=? 239)) with false. change ((240 <=? 76) && (76 <=? 255)) with false.
    change ((56 <=? 76) && (76 <=? 63)) with false. change (76 =? 89) with false. change (76 =? 76) with true. cbv iota.
    rewrite read_full_app8. cbn [bind]. rewrite be8_recombine. f_equal. f_equal.
    rewrite swrap64_def.
    set (m := v mod 18446744073709551616).
    assert (Hm : m = if v <? 0 then v + 18446744073709551616 else v).
    { unfold m. destruct (v <? 0) eqn:Ev.
      - symmetry. apply Z.mod_unique_pos with (q := -1); lia.
      - symmetry. apply Z.mod_unique_pos with (q := 0); lia. }
    clearbody m. destruct (v <? 0) eqn:Ev; subst m.
    - replace (v + 18446744073709551616 + 9223372036854775808) with (v + 9223372036854775808 + 1 * 18446744073709551616) by ring.
      rewrite Z.mod_add by lia. rewrite Z.mod_small by lia. ring.
    - assert (Hq : (v + 9223372036854775808) mod 18446744073709551616 = v + 9223372036854775808 - 18446744073709551616 * 0).
      { rewrite Z.mod_small by lia. ring. } 
      rewrite Hq. ring. }
Qed.

Theorem long_shortest v : length (gencodeLong v) = spec_long_len v.
Proof.
  unfold gencodeLong, spec_long_len, between. lconsts.
  repeat (match goal with |- context [if ?c then _ else _] => destruct c end); reflexivity.
Qed.

Theorem long_bytes_ok v : bytes_ok (gencodeLong v).
Proof.
  unfold gencodeLong, bytes_ok. lconsts.
  repeat (match goal with |- context [if ?c then _ else _] => destruct c end);
  repeat constructor; try apply wrap8_range; lia.
Qed.
