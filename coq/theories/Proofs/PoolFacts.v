(* generated from pool.go by go2v: both channel operations sit in a select with a default clause *)
From Coq Require Import String List.
From GH Require Import Gen.GoFacts.
Import ListNotations.
Open Scope string_scope.
Lemma pool_chan_ops_nonblocking :
  chan_ops = [("objectPool.Get", "recv", true); ("objectPool.Return", "send", true)].
Proof. reflexivity. Qed.
