(* C03, container part: the decoder model refines the reference grammar.

   `sv`, `sf` ... below give the MEANING the decoder assigns to an abstract Hessian value (an
   `hval`, the result of the reference parser) at each of its entry points: ReadData (`sv`),
   a struct field of a given Go type (`sf`), the list, map and struct readers behind it.  The
   meaning mentions the abstract value, the type environment, the type map and the decoder's
   reference table only - never bytes.

   `decoder_refines_grammar`: whenever the reference parser reads a value hv from the front of
   a byte string (in ANY of the forms the grammar allows) and hv has a meaning d, the decoder
   reads d from the same byte string, consumes exactly the same bytes, and leaves its tables
   (type names, class definitions, references) as the parser's tables and the meaning say.

   Hence any two byte strings that the grammar reads as the same value decode alike: compact or
   full-width numbers, any chunking, fixed- or variable-length lists, literal or back-referenced
   type names, short- or long-form instances, class definitions anywhere before first use.

   Not covered: timestamps (the compact form is the known finding C03-F1; the millisecond form
   is C03_date_ms_form), values whose decoding the model marks Unmodelled. *)
From Coq Require Import ZArith List Lia Bool ZifyBool.
From GH Require Import Base.GoSem Base.Result Base.FloatBits Base.TimeSem Base.Utf8 Gen.GoConsts Gen.GoLeaf
  Model.Scalars Model.Strings Spec.Grammar Model.Encoder Model.Decoder
  Proofs.SpecScalars Proofs.DecSpec Proofs.SpecDispatch Proofs.DecoderFacts.
Import ListNotations.
Open Scope Z_scope.
Ltac Zify.zify_post_hook ::= Z.div_mod_to_equations.
Arguments Z.add : simpl never. Arguments Z.sub : simpl never. Arguments Z.mul : simpl never.
Arguments Z.leb : simpl never. Arguments Z.eqb : simpl never. Arguments Z.ltb : simpl never.
Arguments Z.to_nat : simpl never. Arguments Z.of_nat : simpl never. Arguments Z.pow : simpl never.

Definition heap := list rcell.

(* what a back-reference denotes (ref.go readRef) *)
Definition ref_val (h : heap) (z : Z) : option dval :=
  match Decoder.nth_z h z with
  | Some (RObj ty _) => Some (DPtr (Z.to_nat z) ty)
  | Some (RList (Some v)) => Some v
  | Some (Decoder.RMap (Some v)) => Some v
  | _ => None
  end.

Definition struct_like (t : gtype) : Prop :=
  match t with TStruct _ | TPtr (TStruct _) | TTime => True | _ => False end.
Definition slice_like (t : gtype) : Prop :=
  match t with TSlice _ | TBytes => True | _ => False end.

Section Sem.
  Variable te : tenv.
  Variable tm : typmap.

  (* the conversion of a decoded value to an element / key / value type (EnsureInterface or SetValue) *)
  Definition conv (e : gtype) (h : heap) (d : dval) : result dval :=
    match e with TIface => Ok d | _ => set_value te h e d end.

  Inductive sv : hval -> heap -> dval -> heap -> Prop :=
  | sv_null h : sv HNull h DNil h
  | sv_bool b h : sv (HBool b) h (DBool b) h
  | sv_int z h : sv (HInt z) h (DInt KInt32 z) h
  | sv_long z h : sv (HLong z) h (DInt KInt64 z) h
  | sv_double z h : sv (HDouble z) h (DF64 z) h
  | sv_string s h : sv (HString s) h (DStr s) h
  | sv_binary b h : sv (HBinary b) h (DBytes b) h
  | sv_ref z h d : ref_val h z = Some d -> sv (HRef z) h d h
  | sv_list ty vs h d h' : slist ty vs h d h' -> sv (HList ty vs) h d h'
  | sv_map_typed ty kt vt es h d h' :
      tm_lookup tm ty = Some (TMap kt vt) -> smap kt vt es h d h' -> sv (HMap (Some ty) es) h d h'
  | sv_map_untyped es h d h' : smap TIface TIface es h d h' -> sv (HMap None es) h d h'
  | sv_obj c fs h d h' : sobj c fs h d h' -> sv (HObject c fs) h d h'
  (* list.go readTypedList / readUntypedList: the list is registered before its elements are read *)
  with slist : option name -> list hval -> heap -> dval -> heap -> Prop :=
  | slist_typed ty e vs h items h2 :
      tm_lookup tm ty = Some (TSlice e) -> sn e vs (h ++ [RList None]) items h2 ->
      slist (Some ty) vs h (DSlice e items) (list_set h2 (length h) (RList (Some (DSlice e items))))
  | slist_untyped vs h items h2 :
      sn TIface vs (h ++ [RList None]) items h2 ->
      slist None vs h (DSlice TIface items) (list_set h2 (length h) (RList (Some (DSlice TIface items))))
  (* map.go: entries in wire order, a later entry with an equal key replaces the earlier value;
     a null key is a key like any other (the nil interface, or the zero value of the key type) *)
  with smap : gtype -> gtype -> list (hval * hval) -> heap -> dval -> heap -> Prop :=
  | smap_intro kt vt es h out h2 :
      se kt vt [] es (h ++ [Decoder.RMap None]) out h2 ->
      smap kt vt es h (DMapV kt vt out) (list_set h2 (length h) (Decoder.RMap (Some (DMapV kt vt out))))
  (* object.go readObject: the instance is registered before its fields are read; fields bind by name *)
  with sobj : name -> list (name * hval) -> heap -> dval -> heap -> Prop :=
  | sobj_intro c n gfs fs h out h2 :
      tm_lookup tm c = Some (TStruct n) -> te_lookup te n = Some gfs ->
      has_dup (bound_names gfs (map fst fs)) = false ->
      sfs gfs fs (map (fun p => (fst p, zero te (snd p))) gfs) (h ++ [RObj n None]) out h2 ->
      sobj c fs h (DPtr (length h) n) (list_set h2 (length h) (RObj n (Some out)))
  with sn : gtype -> list hval -> heap -> list dval -> heap -> Prop :=
  | sn_nil e h : sn e [] h [] h
  | sn_cons e v vs h d h1 el els h2 :
      sv v h d h1 -> conv e h1 d = Ok el -> sn e vs h1 els h2 -> sn e (v :: vs) h (el :: els) h2
  with se : gtype -> gtype -> list (dval * dval) -> list (hval * hval) -> heap -> list (dval * dval) -> heap -> Prop :=
  | se_nil kt vt acc h : se kt vt acc [] h acc h
  | se_cons kt vt acc k v es h dk h1 dv h2 k' v' out h3 :
      sv k h dk h1 -> sv v h1 dv h2 ->
      conv kt h2 dk = Ok k' -> conv vt h2 dv = Ok v' -> hashable k' = true ->
      se kt vt (entries_put acc k' v') es h2 out h3 ->
      se kt vt acc ((k, v) :: es) h out h3
  with sfs : list (name * gtype) -> list (name * hval) -> list (name * dval) -> heap -> list (name * dval) -> heap -> Prop :=
  | sfs_nil gfs acc h : sfs gfs [] acc h acc h
  | sfs_unknown gfs w v fs acc h d h1 out h2 :
      find_field gfs w = None -> sv v h d h1 -> sfs gfs fs acc h1 out h2 ->
      sfs gfs ((w, v) :: fs) acc h out h2
  | sfs_known gfs w v fs acc h gn gt d h1 out h2 :
      find_field gfs w = Some (gn, gt) -> sf gt v h d h1 -> sfs gfs fs (assoc_set acc gn d) h1 out h2 ->
      sfs gfs ((w, v) :: fs) acc h out h2
  (* object.go readField *)
  with sf : gtype -> hval -> heap -> dval -> heap -> Prop :=
  | sf_str s h : sf TStr (HString s) h (DStr s) h
  | sf_str_null h : sf TStr HNull h (DStr []) h
  | sf_int k z h : kind_wire_int k = true -> sf (TInt k) (HInt z) h (DInt k (set_kind k z)) h
  | sf_long k z h : kind_wire_int k = false -> sf (TInt k) (HLong z) h (DInt k (set_kind k z)) h
  | sf_bool b h : sf TBool (HBool b) h (DBool b) h
  | sf_f64 z h : sf TF64 (HDouble z) h (DF64 z) h
  | sf_f32 z h : sf TF32 (HDouble z) h (DF32 (narrow z)) h
  | sf_struct t v h s h1 d : struct_like t -> ss v h s h1 -> set_value te h1 t s = Ok d -> sf t v h d h1
  | sf_map kt vt v h d h1 : sm kt vt v h d h1 -> sf (TMap kt vt) v h d h1
  | sf_slice t v h m h1 d : slice_like t -> sl v h m h1 -> set_slice te h1 t m = Ok d -> sf t v h d h1
  (* decoder.go readStruct *)
  with ss : hval -> heap -> dval -> heap -> Prop :=
  | ss_null h : ss HNull h DNil h
  | ss_ref z h d : ref_val h z = Some d -> ss (HRef z) h d h
  | ss_obj c fs h d h' : sobj c fs h d h' -> ss (HObject c fs) h d h'
  (* map.go readMap(dest): the declared type of a typed map is read and ignored *)
  with sm : gtype -> gtype -> hval -> heap -> dval -> heap -> Prop :=
  | sm_null kt vt h : sm kt vt HNull h (zero te (TMap kt vt)) h
  | sm_ref kt vt z h v d : ref_val h z = Some v -> set_value te h (TMap kt vt) v = Ok d -> sm kt vt (HRef z) h d h
  | sm_map kt vt ty es h d h' : smap kt vt es h d h' -> sm kt vt (HMap ty es) h d h'
  (* list.go ReadList *)
  with sl : hval -> heap -> dval -> heap -> Prop :=
  | sl_binary b h : sl (HBinary b) h (DBytes b) h
  | sl_null h : sl HNull h DNil h
  | sl_ref z h d : ref_val h z = Some d -> sl (HRef z) h d h
  | sl_list ty vs h d h' : slist ty vs h d h' -> sl (HList ty vs) h d h'.

  Lemma ss_sv v h d h' : ss v h d h' -> sv v h d h'.
  Proof. intros H. inversion H; subst; constructor; assumption. Qed.
  Lemma sl_sv v h d h' : sl v h d h' -> sv v h d h'.
  Proof. intros H. inversion H; subst; constructor; assumption. Qed.
End Sem.

(* ---------------- tag dispatch of the decoder entry points, by tag class ---------------- *)
Section Dispatch.
  Variables (te : tenv) (tm : typmap) (R : readers).

  Definition rd_body (c : cls) (tag : Z) (st : dstate) (r : bytes) : dres dval :=
    match c with
    | CEnd => Err EEof
    | CNull => Ok (DNil, r, st)
    | CTrue => Ok (DBool true, r, st)
    | CFalse => Ok (DBool false, r, st)
    | CInt => do (z, r') <- decode_int_tag tag r ;; Ok (DInt KInt32 z, r', st)
    | CLong => do (z, r') <- decode_long_tag tag r ;; Ok (DInt KInt64 z, r', st)
    | CDouble => do (z, r') <- decode_double_tag tag r ;; Ok (DF64 z, r', st)
    | CString => do (s, r') <- decode_string_tag tag r ;; Ok (DStr s, r', st)
    | CDate => do (t, r') <- decode_date_tag tag r ;; Ok (DTime (fst t) (snd t), r', st)
    | CBinary => do (b, r') <- decode_binary_tag tag r ;; Ok (DBytes b, r', st)
    | CRef => read_ref st r
    | CMapT =>
        do (x, st1) <- read_type st r ;; let '(mty, r1) := x in
        match tm_lookup tm mty with
        | Some (TMap kt vt) => map_body R kt vt st1 r1
        | Some _ => Unmodelled
        | None => Err ECodec
        end
    | CMapU => map_body R TIface TIface st r
    | CDef => do (x, st1) <- read_class_def st r ;; R_rd R st1 (snd x)
    | CObj => object_at tm R (wrap 8 (tag - g_objectLenTagMin)) st r
    | CObjL => do (i, r') <- decode_int r ;; object_at tm R i st r'
    | CTList | CUList => R_rl R (Some tag) st r
    | COther => Err ECodec
    end.
  Lemma rd_step_cls st t r : rd_step tm R st (t :: r) = rd_body (go_cls t) t st r.
  Proof.
    unfold rd_step, go_cls.
    destruct (t =? g_endFlag); [reflexivity|]. destruct (t =? g_nilTag); [reflexivity|].
    destruct (t =? g_boolTrueTag); [reflexivity|]. destruct (t =? g_boolFalseTag); [reflexivity|].
    destruct (gintTag t); [reflexivity|]. destruct (glongTag t); [reflexivity|]. destruct (gdoubleTag t); [reflexivity|].
    destruct (gstringTag t); [reflexivity|]. destruct (gdateTag t); [reflexivity|]. destruct (gbinaryTag t); [reflexivity|].
    destruct (grefTag t); [reflexivity|]. destruct (t =? g_mapTypedTag); [reflexivity|]. destruct (t =? g_mapUntypedTag); [reflexivity|].
    destruct (t =? g_objectDefTag); [reflexivity|]. destruct (gobjectLenTag t); [reflexivity|]. destruct (t =? g_objectTag); [reflexivity|].
    destruct (gtypedListTag t); [reflexivity|]. destruct (guntypedListTag t); reflexivity.
  Qed.

  (* decoder.go readStruct *)
  Definition rs_cls (t : Z) : cls :=
    if t =? g_endFlag then CEnd else if t =? g_nilTag then CNull else if gdateTag t then CDate
    else if t =? g_objectDefTag then CDef else if gobjectLenTag t then CObj else if t =? g_objectTag then CObjL
    else if grefTag t then CRef else COther.
  Definition rs_body (c : cls) (tag : Z) (st : dstate) (r : bytes) : dres dval :=
    match c with
    | CEnd => Err EEof
    | CNull => Ok (DNil, r, st)
    | CDate => do (t, r') <- decode_date_tag tag r ;; Ok (DTime (fst t) (snd t), r', st)
    | CDef => do (x, st1) <- read_class_def st r ;; R_rd R st1 (snd x)
    | CObj => object_at tm R (wrap 8 (tag - g_objectLenTagMin)) st r
    | CObjL => do (i, r') <- decode_int r ;; object_at tm R i st r'
    | CRef => read_ref st r
    | _ => Err ECodec
    end.
  Lemma read_struct_cls st t r : read_struct tm R st (t :: r) = rs_body (rs_cls t) t st r.
  Proof.
    unfold read_struct, rs_cls.
    destruct (t =? g_endFlag); [reflexivity|]. destruct (t =? g_nilTag); [reflexivity|]. destruct (gdateTag t); [reflexivity|].
    destruct (t =? g_objectDefTag); [reflexivity|]. destruct (gobjectLenTag t); [reflexivity|]. destruct (t =? g_objectTag); [reflexivity|].
    destruct (grefTag t); reflexivity.
  Qed.

  (* list.go ReadList *)
  Definition rl_cls (t : Z) : cls :=
    if gbinaryTag t then CBinary else if t =? g_nilTag then CNull else if grefTag t then CRef
    else if t =? g_objectDefTag then CDef else if gtypedListTag t then CTList else if guntypedListTag t then CUList else COther.
  Definition rl_body (c : cls) (tag : Z) (st : dstate) (r : bytes) : dres dval :=
    match c with
    | CBinary => do (b, r') <- decode_binary_tag tag r ;; Ok (DBytes b, r', st)
    | CNull => Ok (DNil, r, st)
    | CRef => read_ref st r
    | CDef => do (x, st1) <- read_class_def st r ;; R_rl R None st1 (snd x)
    | CTList => typed_list_step tm R tag st r
    | CUList => untyped_list_step R tag st r
    | _ => Err ECodec
    end.
  Lemma rl_step_cls st t r : rl_step tm R None st (t :: r) = rl_body (rl_cls t) t st r.
  Proof.
    unfold rl_step, rl_cls. cbn [bind].
    destruct (gbinaryTag t); [reflexivity|]. destruct (t =? g_nilTag); [reflexivity|]. destruct (grefTag t); [reflexivity|].
    destruct (t =? g_objectDefTag); [reflexivity|]. destruct (gtypedListTag t); [reflexivity|]. destruct (guntypedListTag t); reflexivity.
  Qed.
  Lemma rl_step_some st t r : rl_step tm R (Some t) st r = rl_step tm R None st (t :: r).
  Proof. reflexivity. Qed.

  (* map.go readMap(dest) *)
  Definition rm_cls (t : Z) : cls :=
    if t =? g_nilTag then CNull else if grefTag t then CRef else if t =? g_objectDefTag then CDef
    else if t =? g_mapTypedTag then CMapT else if t =? g_mapUntypedTag then CMapU else COther.
  Definition rm_body (c : cls) (kt vt : gtype) (st : dstate) (r : bytes) : dres dval :=
    match c with
    | CNull => Ok (zero te (TMap kt vt), r, st)
    | CRef => do (x, st1) <- read_ref st r ;; let '(v, r1) := x in
              do v' <- set_value te (dheap st1) (TMap kt vt) v ;; Ok (v', r1, st1)
    | CDef => do (x, st1) <- read_class_def st r ;; R_rm R (TMap kt vt) st1 (snd x)
    | CMapT => do (x, st1) <- read_type st r ;; map_body R kt vt st1 (snd x)
    | CMapU => map_body R kt vt st r
    | _ => Err ECodec
    end.
  Lemma rm_step_cls kt vt st t r : rm_step te R (TMap kt vt) st (t :: r) = rm_body (rm_cls t) kt vt st r.
  Proof.
    unfold rm_step, rm_cls.
    destruct (t =? g_nilTag); [reflexivity|]. destruct (grefTag t); [reflexivity|]. destruct (t =? g_objectDefTag); [reflexivity|].
    destruct (t =? g_mapTypedTag); [reflexivity|]. destruct (t =? g_mapUntypedTag); reflexivity.
  Qed.
End Dispatch.

(* how the positional classifications relate to the one of ReadData (all 256 tags) *)
Lemma pos_cls t : 0 <= t < 256 ->
  rs_cls t = match go_cls t with CEnd | CNull | CDate | CDef | CObj | CObjL | CRef => go_cls t | _ => COther end /\
  rl_cls t = match go_cls t with CBinary | CNull | CRef | CDef | CTList | CUList => go_cls t | _ => COther end /\
  rm_cls t = match go_cls t with CNull | CRef | CDef | CMapT | CMapU => go_cls t | _ => COther end.
Proof.
  intros H.
  assert (F : forallb (fun t =>
     cls_eqb (rs_cls t) (match go_cls t with CEnd | CNull | CDate | CDef | CObj | CObjL | CRef => go_cls t | _ => COther end)
     && cls_eqb (rl_cls t) (match go_cls t with CBinary | CNull | CRef | CDef | CTList | CUList => go_cls t | _ => COther end)
     && cls_eqb (rm_cls t) (match go_cls t with CNull | CRef | CDef | CMapT | CMapU => go_cls t | _ => COther end)) all_bytes = true)
    by (vm_compute; reflexivity).
  pose proof (byte_forall _ F t H) as G. rewrite !andb_true_iff in G. destruct G as [[A B] C].
  repeat split; apply cls_eqb_eq; assumption.
Qed.

(* the reference parser by tag class *)
Section PDispatch.
  Variable f0 : nat.
  Variable pv : pstate -> bytes -> pres hval.
  Variable pn : nat -> pstate -> bytes -> pres (list hval).
  Variable pz : pstate -> bytes -> pres (list hval).
  Variable pe : pstate -> bytes -> pres (list (hval * hval)).
  Definition pv_body (c : cls) (t : Z) (st : pstate) (r : bytes) : pres hval :=
    match c with
    | CNull => Ok (HNull, r, st)
    | CTrue => Ok (HBool true, r, st)
    | CFalse => Ok (HBool false, r, st)
    | CInt => do (z, r') <- parse_int t r ;; Ok (HInt z, r', st)
    | CLong => do (z, r') <- parse_long t r ;; Ok (HLong z, r', st)
    | CDouble => do (z, r') <- parse_double t r ;; Ok (HDouble z, r', st)
    | CDate => do (z, r') <- parse_date t r ;; Ok (HDate z, r', st)
    | CString => do (s, r') <- parse_string f0 t r ;; Ok (HString s, r', st)
    | CBinary => do (s, r') <- parse_binary f0 t r ;; Ok (HBinary s, r', st)
    | CRef => do (z, r') <- parse_int_value r ;; Ok (HRef z, r', st)
    | CTList =>
      if t =? 85 then
        do (x, st1) <- parse_type f0 st r ;; let '(ty, r1) := x in
        do (y, st2) <- pz (st_open st1) r1 ;; let '(vs, r2) := y in Ok (HList (Some ty) vs, r2, st2)
      else if t =? 86 then
        do (x, st1) <- parse_type f0 st r ;; let '(ty, r1) := x in
        do (n, r2) <- parse_int_value r1 ;;
        if negb (count_ok n r2) then Err ECodec else
        do (y, st2) <- pn (Z.to_nat n) (st_open st1) r2 ;; let '(vs, r3) := y in Ok (HList (Some ty) vs, r3, st2)
      else
        do (x, st1) <- parse_type f0 st r ;; let '(ty, r1) := x in
        do (y, st2) <- pn (Z.to_nat (t - 112)) (st_open st1) r1 ;; let '(vs, r2) := y in Ok (HList (Some ty) vs, r2, st2)
    | CUList =>
      if t =? 87 then
        do (y, st2) <- pz (st_open st) r ;; let '(vs, r2) := y in Ok (HList None vs, r2, st2)
      else if t =? 88 then
        do (n, r2) <- parse_int_value r ;;
        if negb (count_ok n r2) then Err ECodec else
        do (y, st2) <- pn (Z.to_nat n) (st_open st) r2 ;; let '(vs, r3) := y in Ok (HList None vs, r3, st2)
      else
        do (y, st2) <- pn (Z.to_nat (t - 120)) (st_open st) r ;; let '(vs, r2) := y in Ok (HList None vs, r2, st2)
    | CMapT =>
        do (x, st1) <- parse_type f0 st r ;; let '(ty, r1) := x in
        do (y, st2) <- pe (st_open st1) r1 ;; let '(es, r2) := y in Ok (HMap (Some ty) es, r2, st2)
    | CMapU => do (y, st2) <- pe (st_open st) r ;; let '(es, r2) := y in Ok (HMap None es, r2, st2)
    | CDef =>
        do (cname, r1) <- parse_string_value f0 r ;;
        do (n, r2) <- parse_int_value r1 ;;
        if negb (count_ok n r2) then Err ECodec else
        do (fs, r3) <- parse_strings f0 (Z.to_nat n) r2 ;;
        pv (st_add_class st (cname, fs)) r3
    | CObjL => do (i, r1) <- parse_int_value r ;; object_of pn st i r1
    | CObj => object_of pn st (t - 96) r
    | CEnd | COther => Err ECodec
    end.
  Lemma pv_step_cls st t r : pv_step f0 pv pn pz pe st (t :: r) = pv_body (spec_cls t) t st r.
  Proof.
    unfold pv_step, spec_cls, pv_body.
    destruct (t =? 78); [reflexivity|]. destruct (t =? 84); [reflexivity|]. destruct (t =? 70); [reflexivity|].
    destruct (is_int_tag t); [reflexivity|]. destruct (is_long_tag t); [reflexivity|]. destruct (is_double_tag t); [reflexivity|].
    destruct (is_date_tag t); [reflexivity|]. destruct (is_string_tag t); [reflexivity|]. destruct (is_binary_tag t); [reflexivity|].
    destruct (t =? 81); [reflexivity|].
    destruct (t =? 85); [reflexivity|]. destruct (t =? 86); [reflexivity|].
    destruct (Z.eqb_spec t 87) as [->|N87]; [reflexivity|].
    destruct (Z.eqb_spec t 88) as [->|N88]; [reflexivity|].
    destruct (rng 112 119 t) eqn:E1; [reflexivity|].
    destruct (rng 120 127 t) eqn:E2; [cbn [orb]; reflexivity|]. cbn [orb].
    destruct (t =? 77); [reflexivity|]. destruct (t =? 72); [reflexivity|]. destruct (t =? 67); [reflexivity|].
    destruct (t =? 79); [reflexivity|]. destruct (rng 96 111 t); [reflexivity|]. destruct (t =? 90); reflexivity.
  Qed.
End PDispatch.

(* ---------------- the non-recursive pieces: counts, names, types, class definitions ---------------- *)
Lemma bytes_ok_suffix r bs : suffix r bs -> bytes_ok bs -> bytes_ok r.
Proof. intros (p & ->) H. unfold bytes_ok in *. apply Forall_app in H. apply H. Qed.
Lemma bytes_ok_psuffix r bs : psuffix r bs -> bytes_ok bs -> bytes_ok r.
Proof. intros H. apply bytes_ok_suffix, psuffix_suffix, H. Qed.
Lemma bytes_ok_cons t r : bytes_ok (t :: r) -> 0 <= t < 256 /\ bytes_ok r.
Proof. intros H. inversion H; subst. split; assumption. Qed.

Lemma int_value_refines bs z r : bytes_ok bs -> parse_int_value bs = Ok (z, r) -> decode_int bs = Ok (z, r).
Proof.
  intros B P. destruct bs as [|t r0]; [discriminate|]. apply bytes_ok_cons in B. destruct B as [Bt Br].
  cbn in P. destruct (is_int_tag t); [|discriminate]. cbn. apply decode_int_follows_spec; assumption.
Qed.
Lemma string_value_refines f0 bs s r : parse_string_value f0 bs = Ok (s, r) -> decode_string bs = Ok (s, r).
Proof.
  intros P. destruct bs as [|t r0]; [discriminate|]. cbn in P. destruct (is_string_tag t); [|discriminate].
  cbn. eapply decode_string_follows_spec; exact P.
Qed.
Lemma strings_refine f0 : forall n bs ss r, parse_strings f0 n bs = Ok (ss, r) -> read_strings n bs = Ok (ss, r).
Proof.
  induction n as [|n IH]; intros bs ss r P; cbn in *; [exact P|].
  destruct (parse_string_value f0 bs) as [[s r1]| | |] eqn:E; try discriminate. cbn [bind] in P.
  apply string_value_refines in E. rewrite E. cbn [bind].
  destruct (parse_strings f0 n r1) as [[ss' r2]| | |] eqn:E2; try discriminate. cbn [bind] in P.
  rewrite (IH _ _ _ E2). cbn [bind]. exact P.
Qed.

Definition dst_of (st : pstate) (h : heap) : dstate := {| dtypes := ptypes st; dcls := pclasses st; dheap := h |}.

Lemma type_refines f0 st bs ty r st1 h : bytes_ok bs ->
  parse_type f0 st bs = Ok (ty, r, st1) -> read_type (dst_of st h) bs = Ok (ty, r, dst_of st1 h).
Proof.
  intros B P. destruct bs as [|t r0]; [discriminate|]. apply bytes_ok_cons in B. destruct B as [Bt Br].
  unfold parse_type in P. unfold read_type. destruct (string_tags t Bt) as (S1 & _). rewrite S1.
  destruct (is_string_tag t).
  - destruct (parse_string f0 t r0) as [[s r1]| | |] eqn:E; try discriminate. cbn [bind] in P.
    rewrite (decode_string_follows_spec _ _ _ _ _ E). cbn [bind]. inversion P; subst. reflexivity.
  - destruct (is_int_tag t); [|discriminate].
    destruct (parse_int t r0) as [[i r1]| | |] eqn:E; try discriminate. cbn [bind] in P.
    rewrite (decode_int_follows_spec _ _ _ _ Bt Br E). cbn [bind].
    change (Decoder.nth_z (dtypes (dst_of st h)) i) with (Grammar.nth_z (ptypes st) i).
    destruct (Grammar.nth_z (ptypes st) i); [|discriminate]. inversion P; subst. reflexivity.
Qed.

Lemma classdef_refines f0 st r cname r1 n r2 fs r3 h : bytes_ok r ->
  parse_string_value f0 r = Ok (cname, r1) -> parse_int_value r1 = Ok (n, r2) -> count_ok n r2 = true ->
  parse_strings f0 (Z.to_nat n) r2 = Ok (fs, r3) ->
  read_class_def (dst_of st h) r = Ok (tt, r3, dst_of (st_add_class st (cname, fs)) h).
Proof.
  intros B P1 P2 C P3. unfold read_class_def.
  apply string_value_refines in P1. rewrite P1. cbn [bind].
  assert (B1 : bytes_ok r1) by (eapply bytes_ok_psuffix; [eapply decode_string_psuffix; exact P1|exact B]).
  rewrite (int_value_refines _ _ _ B1 P2). cbn [bind].
  unfold count_ok in C. apply andb_true_iff in C. destruct C as [C1 C2].
  replace (n <? 0) with false by lia. replace (Z.of_nat (length r2) <? n) with false by lia.
  rewrite (strings_refine _ _ _ _ _ P3). cbn [bind]. reflexivity.
Qed.


(* taking a successful monadic computation apart *)
Ltac brk H :=
  repeat (cbn [bind] in H;
    match type of H with
    | bind ?x _ = Ok _ =>
      let E := fresh "E" in
      (destruct x as [[[? ?] ?]| | |] eqn:E || destruct x as [[? ?]| | |] eqn:E || destruct x as [?| | |] eqn:E);
      try discriminate H
    | (if ?b then _ else _) = Ok _ => let E := fresh "E" in destruct b eqn:E; try discriminate H
    | match ?x with Some _ => _ | None => _ end = Ok _ => let E := fresh "E" in destruct x as [[? ?]|] eqn:E; try discriminate H
    end).

Definition is_container (hv : hval) : Prop :=
  match hv with HList _ _ | HMap _ _ | HObject _ _ => True | _ => False end.

Lemma pv_body_shape f0 pv pn pz pe c t st r hv rest st' :
  pv_body f0 pv pn pz pe c t st r = Ok (hv, rest, st') ->
  match c with
  | CNull => hv = HNull
  | CTrue | CFalse => exists b, hv = HBool b
  | CInt => exists z, hv = HInt z
  | CLong => exists z, hv = HLong z
  | CDouble => exists z, hv = HDouble z
  | CDate => exists z, hv = HDate z
  | CString => exists s, hv = HString s
  | CBinary => exists s, hv = HBinary s
  | CRef => exists z, hv = HRef z
  | CTList | CUList => exists ty vs, hv = HList ty vs
  | CMapT | CMapU => exists ty es, hv = HMap ty es
  | CObj | CObjL => exists c fs, hv = HObject c fs
  | CDef => True
  | CEnd | COther => False
  end.
Proof.
  intros H. destruct c; cbn [pv_body] in H; try exact I; try discriminate H;
    try (unfold object_of in H); brk H; inversion H; subst; cbn; eauto.
Qed.

Lemma spec_cls_def t : spec_cls t = CDef -> t = 67.
Proof.
  unfold spec_cls.
  repeat match goal with |- context [if ?b then _ else _] => destruct b eqn:? end; try discriminate. intros _. lia.
Qed.

Lemma spec_cls_single t :
  (spec_cls t = CNull -> t = 78) /\ (spec_cls t = CTrue -> t = 84) /\ (spec_cls t = CFalse -> t = 70).
Proof.
  unfold spec_cls.
  destruct (Z.eqb_spec t 78); [repeat split; intros; (assumption || discriminate)|].
  destruct (Z.eqb_spec t 84); [repeat split; intros; (assumption || discriminate)|].
  destruct (Z.eqb_spec t 70); [repeat split; intros; (assumption || discriminate)|].
  repeat match goal with |- context [if ?b then _ else _] => destruct b end; repeat split; intros; discriminate.
Qed.


(* ---------------- the refinement ---------------- *)
Lemma read_ref_val st h r z r' d : bytes_ok r ->
  parse_int_value r = Ok (z, r') -> ref_val h z = Some d -> read_ref (dst_of st h) r = Ok (d, r', dst_of st h).
Proof.
  intros B P V. unfold read_ref. rewrite (int_value_refines _ _ _ B P). cbn [bind].
  unfold ref_val in V. change (dheap (dst_of st h)) with h.
  destruct (Decoder.nth_z h z) as [[ty fs|[v|]|[v|]]|]; try discriminate V; inversion V; subst; reflexivity.
Qed.

Lemma pz_step_cons pv pz st t r : t <> 90 ->
  pz_step pv pz st (t :: r) =
  (do (x, st1) <- pv st (t :: r) ;; let '(v, r1) := x in
   do (y, st2) <- pz st1 r1 ;; let '(vs, r2) := y in Ok (v :: vs, r2, st2)).
Proof.
  intros H. unfold pz_step. destruct t as [|p|p]; try reflexivity.
  repeat (destruct p as [p|p|]; try reflexivity). exfalso. apply H. reflexivity.
Qed.

Lemma pe_step_cons' pv pe st t r : t <> 90 ->
  pe_step pv pe st (t :: r) =
  (do (x, st1) <- pv st (t :: r) ;; let '(k, r1) := x in
   do (y, st2) <- pv st1 r1 ;; let '(v, r2) := y in
   do (z, st3) <- pe st2 r2 ;; let '(es, r3) := z in Ok ((k, v) :: es, r3, st3)).
Proof.
  intros H. unfold pe_step. destruct t as [|p|p]; try reflexivity.
  repeat (destruct p as [p|p|]; try reflexivity). exfalso. apply H. reflexivity.
Qed.

Lemma hparse_n_length f0 : forall f n st bs vs rest st', hparse_n f0 f n st bs = Ok (vs, rest, st') -> length vs = n.
Proof.
  induction f as [|f IH]; intros n st bs vs rest st' H; [discriminate H|].
  rewrite hparse_n_S in H. destruct n as [|n]; cbn [pn_step] in H; [inversion H; reflexivity|].
  brk H. inversion H; subst. cbn [length]. f_equal. eapply IH. eassumption.
Qed.

(* facts about the container tags (all 256 tags) *)
Lemma container_tag_facts t : 0 <= t < 256 ->
  (spec_cls t = CTList -> t = 85 \/ t = 86 \/
     ((t =? g_listVariableTypedTag) = false /\ glistFixedTypedLenTag t = true /\ (t =? 85) = false /\ (t =? 86) = false /\
      wrap 8 (t - g_listFixedTypedLenTagMin) = t - 112 /\ 0 <= t - 112)) /\
  (spec_cls t = CUList -> t = 87 \/ t = 88 \/
     ((t =? g_listVariableUntypedTag) = false /\ glistFixedUntypedLenTag t = true /\ (t =? 87) = false /\ (t =? 88) = false /\
      wrap 8 (t - g_listFixedUntypedLenTagMin) = t - 120 /\ 0 <= t - 120)) /\
  (spec_cls t = CObj -> wrap 8 (t - g_objectLenTagMin) = t - 96).
Proof.
  intros H.
  assert (F : forallb (fun t =>
     implb (cls_eqb (spec_cls t) CTList) ((t =? 85) || (t =? 86) ||
        (negb (t =? g_listVariableTypedTag) && glistFixedTypedLenTag t && negb (t =? 85) && negb (t =? 86)
         && (wrap 8 (t - g_listFixedTypedLenTagMin) =? t - 112) && (0 <=? t - 112)))
     && implb (cls_eqb (spec_cls t) CUList) ((t =? 87) || (t =? 88) ||
        (negb (t =? g_listVariableUntypedTag) && glistFixedUntypedLenTag t && negb (t =? 87) && negb (t =? 88)
         && (wrap 8 (t - g_listFixedUntypedLenTagMin) =? t - 120) && (0 <=? t - 120)))
     && implb (cls_eqb (spec_cls t) CObj) (wrap 8 (t - g_objectLenTagMin) =? t - 96)) all_bytes = true)
    by (vm_compute; reflexivity).
  pose proof (byte_forall _ F t H) as G. rewrite !andb_true_iff in G. destruct G as [[A B] C].
  repeat split.
  - intros E. rewrite E in A. cbn [cls_eqb implb] in A. rewrite !orb_true_iff, !andb_true_iff, !negb_true_iff in A.
    destruct A as [[A|A]|A]; [left; lia|right; left; lia|right; right]. repeat split; try tauto; lia.
  - intros E. rewrite E in B. cbn [cls_eqb implb] in B. rewrite !orb_true_iff, !andb_true_iff, !negb_true_iff in B.
    destruct B as [[B|B]|B]; [left; lia|right; left; lia|right; right]. repeat split; try tauto; lia.
  - intros E. rewrite E in C. cbn [cls_eqb implb] in C. lia.
Qed.

Lemma map_fst_combine {A B} : forall (l : list A) (m : list B), length m = length l -> map fst (combine l m) = l.
Proof. induction l as [|x l IH]; intros [|y m] H; cbn in *; try reflexivity; try discriminate. f_equal. apply IH. lia. Qed.

Section Main.
  Variables (te : tenv) (tm : typmap) (f0 : nat).
  Local Notation RA := (readers_at te tm).

  Lemma rdS g st bs : R_rd (RA (S g)) st bs = rd_step tm (RA g) st bs. Proof. reflexivity. Qed.
  Lemma rlS g fl st bs : R_rl (RA (S g)) fl st bs = rl_step tm (RA g) fl st bs. Proof. reflexivity. Qed.
  Lemma rfS g t st bs : R_rf (RA (S g)) t st bs = rf_step te tm (RA g) t st bs. Proof. reflexivity. Qed.
  Lemma roS g n w st bs : R_ro (RA (S g)) n w st bs = ro_step te (RA g) n w st bs. Proof. reflexivity. Qed.
  Lemma rmS g t st bs : R_rm (RA (S g)) t st bs = rm_step te (RA g) t st bs. Proof. reflexivity. Qed.
  Lemma rnS g e n st bs : R_rn (RA (S g)) e n st bs = rn_step te (RA g) e n st bs. Proof. reflexivity. Qed.
  Lemma rzS g e st bs : R_rz (RA (S g)) e st bs = rz_step te (RA g) e st bs. Proof. reflexivity. Qed.
  Lemma reS g k v acc st bs : R_re (RA (S g)) k v acc st bs = re_step te (RA g) k v acc st bs. Proof. reflexivity. Qed.
  Lemma rfsS g gf w acc st bs : R_rfs (RA (S g)) gf w acc st bs = rfs_step (RA g) gf w acc st bs. Proof. reflexivity. Qed.

  Lemma elem_step_conv R e st bs item r1 st1 el :
    R_rd R st bs = Ok (item, r1, st1) -> conv te e (dheap st1) item = Ok el -> elem_step te R e st bs = Ok (el, r1, st1).
  Proof. intros A C. unfold elem_step. rewrite A. cbn [bind]. unfold conv in C. destruct e; try (rewrite C; reflexivity). inversion C; reflexivity. Qed.

  Lemma re_step_key R kt vt acc st bs k r1 st1 :
    R_rd R st bs = Ok (k, r1, st1) ->
    re_step te R kt vt acc st bs =
    (do (y, st2) <- R_rd R st1 r1 ;; let '(v, r2) := y in
     do k' <- conv te kt (dheap st2) k ;;
     do v' <- conv te vt (dheap st2) v ;;
     if hashable k' then R_re R kt vt (entries_put acc k' v') st2 r2 else Err ECodec).
  Proof. intros A. unfold re_step. rewrite A. reflexivity. Qed.

  Definition Pv (f : nat) : Prop := forall st bs hv rest st' h d h',
    hparse_v f0 f st bs = Ok (hv, rest, st') -> bytes_ok bs -> sv te tm hv h d h' ->
    forall g, (2 * f <= g)%nat -> R_rd (RA g) (dst_of st h) bs = Ok (d, rest, dst_of st' h').
  Definition Pl (f : nat) : Prop := forall st bs hv rest st' h d h',
    hparse_v f0 f st bs = Ok (hv, rest, st') -> bytes_ok bs -> sl te tm hv h d h' ->
    forall g, (2 * f <= S g)%nat -> R_rl (RA g) None (dst_of st h) bs = Ok (d, rest, dst_of st' h').
  Definition Pm (f : nat) : Prop := forall st bs hv rest st' kt vt h d h',
    hparse_v f0 f st bs = Ok (hv, rest, st') -> bytes_ok bs -> sm te tm kt vt hv h d h' ->
    forall g, (2 * f <= S g)%nat -> R_rm (RA g) (TMap kt vt) (dst_of st h) bs = Ok (d, rest, dst_of st' h').
  Definition Pf (f : nat) : Prop := forall st bs hv rest st' t h d h',
    hparse_v f0 f st bs = Ok (hv, rest, st') -> bytes_ok bs -> sf te tm t hv h d h' ->
    forall g, (2 * f <= g)%nat -> R_rf (RA g) t (dst_of st h) bs = Ok (d, rest, dst_of st' h').
  Definition Pn (f : nat) : Prop := forall n st bs vs rest st' e h items h',
    hparse_n f0 f n st bs = Ok (vs, rest, st') -> bytes_ok bs -> sn te tm e vs h items h' ->
    (n + length rest <= length bs)%nat /\
    forall g, (2 * f <= g)%nat -> R_rn (RA g) e n (dst_of st h) bs = Ok (items, rest, dst_of st' h').
  Definition Pz (f : nat) : Prop := forall st bs vs rest st' e h items h',
    hparse_z f0 f st bs = Ok (vs, rest, st') -> bytes_ok bs -> sn te tm e vs h items h' ->
    forall g, (2 * f <= g)%nat -> R_rz (RA g) e (dst_of st h) bs = Ok (items, rest, dst_of st' h').
  Definition Pe (f : nat) : Prop := forall st bs es rest st' kt vt acc h out h',
    hparse_e f0 f st bs = Ok (es, rest, st') -> bytes_ok bs -> se te tm kt vt acc es h out h' ->
    forall g, (2 * f <= g)%nat -> R_re (RA g) kt vt acc (dst_of st h) bs = Ok (out, rest, dst_of st' h').
  Definition Pfs (f : nat) : Prop := forall wire st bs vs rest st' gfs acc h out h',
    hparse_n f0 f (length wire) st bs = Ok (vs, rest, st') -> bytes_ok bs -> sfs te tm gfs (combine wire vs) acc h out h' ->
    forall g, (2 * f <= g)%nat -> R_rfs (RA g) gfs wire acc (dst_of st h) bs = Ok (out, rest, dst_of st' h').

  Lemma rd_rest_ok g st bs d rest st' : bytes_ok bs -> R_rd (RA g) st bs = Ok (d, rest, st') -> bytes_ok rest /\ (length rest < length bs)%nat.
  Proof.
    intros B H. apply (proj1 (readers_at_ok te tm g)) in H. split; [eapply bytes_ok_psuffix; eassumption|apply psuffix_length; exact H].
  Qed.
  Lemma rf_rest_ok g t st bs d rest st' : bytes_ok bs -> R_rf (RA g) t st bs = Ok (d, rest, st') -> bytes_ok rest.
  Proof.
    intros B H. apply (proj1 (proj2 (proj2 (readers_at_ok te tm g)))) in H. eapply bytes_ok_psuffix; eassumption.
  Qed.

  Lemma Pn_step f : Pv f -> Pn f -> Pn (S f).
  Proof.
    intros IHv IHn n st bs vs rest st' e h items h' P B S.
    rewrite hparse_n_S in P. destruct n as [|n]; cbn [pn_step] in P.
    - inversion P; subst. inversion S; subst. split; [lia|]. intros g Hg. destruct g as [|g]; [lia|]. reflexivity.
    - brk P. inversion P; subst. inversion S; subst.
      match goal with A : sv _ _ _ h _ _ |- _ => rename A into Sv end.
      match goal with A : sn _ _ _ _ _ _ h' |- _ => rename A into Sn end.
      match goal with A : conv _ _ _ _ = Ok _ |- _ => rename A into Cv end.
      pose proof (IHv _ _ _ _ _ _ _ _ E B Sv (2 * f)%nat (le_n _)) as D0.
      destruct (rd_rest_ok _ _ _ _ _ _ B D0) as [B1 L1].
      destruct (IHn _ _ _ _ _ _ _ _ _ _ E0 B1 Sn) as [L2 D2].
      split; [lia|]. intros g Hg. destruct g as [|g]; [lia|]. rewrite rnS. unfold rn_step.
      rewrite (elem_step_conv _ _ _ _ _ _ _ _ (IHv _ _ _ _ _ _ _ _ E B Sv g ltac:(lia)) Cv). cbn [bind].
      rewrite (D2 g ltac:(lia)). reflexivity.
  Qed.

  Lemma Pz_step f : Pv f -> Pz f -> Pz (S f).
  Proof.
    intros IHv IHz st bs vs rest st' e h items h' P B S.
    rewrite hparse_z_S in P. destruct bs as [|t r]; [discriminate P|].
    destruct (Z.eq_dec t 90) as [->|N].
    - cbn in P. inversion P; subst. inversion S; subst. intros g Hg.
      destruct g as [|[|g]]; [lia|lia|]. reflexivity.
    - rewrite pz_step_cons in P by exact N. brk P. inversion P; subst. inversion S; subst.
      match goal with A : sv _ _ _ h _ _ |- _ => rename A into Sv end.
      match goal with A : sn _ _ _ _ _ _ h' |- _ => rename A into Sn end.
      match goal with A : conv _ _ _ _ = Ok _ |- _ => rename A into Cv end.
      pose proof (IHv _ _ _ _ _ _ _ _ E B Sv (2 * f)%nat (le_n _)) as D0.
      destruct (rd_rest_ok _ _ _ _ _ _ B D0) as [B1 L1].
      intros g Hg. destruct g as [|g]; [lia|]. rewrite rzS. unfold rz_step.
      rewrite (elem_step_conv _ _ _ _ _ _ _ _ (IHv _ _ _ _ _ _ _ _ E B Sv g ltac:(lia)) Cv).
      rewrite (IHz _ _ _ _ _ _ _ _ _ E0 B1 Sn g ltac:(lia)). reflexivity.
  Qed.

  Lemma Pe_step f : Pv f -> Pe f -> Pe (S f).
  Proof.
    intros IHv IHe st bs es rest st' kt vt acc h out h' P B S.
    rewrite hparse_e_S in P. destruct bs as [|t r]; [discriminate P|].
    destruct (Z.eq_dec t 90) as [->|N].
    - cbn in P. inversion P; subst. inversion S; subst. intros g Hg.
      destruct g as [|[|g]]; [lia|lia|]. reflexivity.
    - rewrite pe_step_cons' in P by exact N. brk P. inversion P; subst. inversion S; subst.
      match goal with A : sv _ _ ?k h ?dk ?h1, A' : sv _ _ _ ?h1 _ _ |- _ => rename A into Sk; rename A' into Sw end.
      match goal with A : se _ _ _ _ _ _ _ _ h' |- _ => rename A into Se end.
      match goal with A : conv _ kt _ _ = Ok _ |- _ => rename A into Ck end.
      match goal with A : hashable _ = true |- _ => rename A into Hh end.
      pose proof (IHv _ _ _ _ _ _ _ _ E B Sk (2 * f)%nat (le_n _)) as D0.
      destruct (rd_rest_ok _ _ _ _ _ _ B D0) as [B1 L1].
      pose proof (IHv _ _ _ _ _ _ _ _ E0 B1 Sw (2 * f)%nat (le_n _)) as D1.
      destruct (rd_rest_ok _ _ _ _ _ _ B1 D1) as [B2 L2].
      intros g Hg. destruct g as [|g]; [lia|]. rewrite reS.
      rewrite (re_step_key _ _ _ _ _ _ _ _ _ (IHv _ _ _ _ _ _ _ _ E B Sk g ltac:(lia))).
      rewrite (IHv _ _ _ _ _ _ _ _ E0 B1 Sw g ltac:(lia)). cbn [bind].
      change (dheap (dst_of _ ?x)) with x. rewrite Ck. cbn [bind].
      match goal with A : conv _ vt _ _ = Ok _ |- _ => rewrite A end. cbn [bind]. rewrite Hh.
      apply (IHe _ _ _ _ _ _ _ _ _ _ _ E1 B2 Se g ltac:(lia)).
  Qed.

  Lemma Pfs_step f : Pv f -> Pf f -> Pfs f -> Pfs (S f).
  Proof.
    intros IHv IHf IHfs wire st bs vs rest st' gfs acc h out h' P B S.
    rewrite hparse_n_S in P. destruct wire as [|w ws]; cbn [length pn_step] in P.
    - inversion P; subst. cbn [combine] in S. inversion S; subst. intros g Hg. destruct g as [|g]; [lia|]. reflexivity.
    - brk P. inversion P; subst. cbn [combine] in S. intros g Hg. destruct g as [|g]; [lia|]. rewrite rfsS. unfold rfs_step.
      inversion S; subst.
      + match goal with A : find_field _ _ = None |- _ => rewrite A end.
        match goal with A : sv _ _ _ h _ _ |- _ => rename A into Sv end.
        match goal with A : sfs _ _ _ _ _ _ _ h' |- _ => rename A into Sr end.
        pose proof (IHv _ _ _ _ _ _ _ _ E B Sv g ltac:(lia)) as D0.
        destruct (rd_rest_ok _ _ _ _ _ _ B D0) as [B1 L1]. rewrite D0. cbn [bind snd].
        apply (IHfs _ _ _ _ _ _ _ _ _ _ _ E0 B1 Sr g ltac:(lia)).
      + match goal with A : find_field _ _ = Some _ |- _ => rewrite A end.
        match goal with A : sf _ _ _ _ h _ _ |- _ => rename A into Sv end.
        match goal with A : sfs _ _ _ _ _ _ _ h' |- _ => rename A into Sr end.
        pose proof (IHf _ _ _ _ _ _ _ _ _ E B Sv g ltac:(lia)) as D0.
        pose proof (rf_rest_ok _ _ _ _ _ _ _ B D0) as B1. rewrite D0. cbn [bind].
        apply (IHfs _ _ _ _ _ _ _ _ _ _ _ E0 B1 Sr g ltac:(lia)).
  Qed.

  (* an instance: [x60-x6f] or 'O' int, of ANY class defined so far *)
  Lemma obj_core f : Pfs f -> forall st i r hv rest st' h d h',
    object_of (hparse_n f0 f) st i r = Ok (hv, rest, st') -> bytes_ok r -> sv te tm hv h d h' ->
    forall g, (2 * f + 1 <= g)%nat -> object_at tm (RA g) i (dst_of st h) r = Ok (d, rest, dst_of st' h').
  Proof.
    intros IHfs st i r hv rest st' h d h' P B S g Hg. unfold object_of in P.
    destruct (Grammar.nth_z (pclasses st) i) as [[cname fnames]|] eqn:EN; [|discriminate P]. brk P. inversion P; subst.
    inversion S; subst. match goal with A : sobj _ _ _ _ _ _ _ |- _ => inversion A; subst end.
    match goal with A : hparse_n _ _ _ _ _ = Ok (?vs, _, _) |- _ => rename A into E0; pose proof (hparse_n_length _ _ _ _ _ _ _ _ E0) as LN end.
    unfold object_at. change (Decoder.nth_z (dcls (dst_of st h)) i) with (Grammar.nth_z (pclasses st) i). rewrite EN.
    match goal with A : tm_lookup _ _ = Some _ |- _ => rewrite A end.
    destruct g as [|g]; [lia|]. rewrite roS. unfold ro_step.
    match goal with A : te_lookup _ _ = Some _ |- _ => rewrite A end.
    match goal with A : has_dup _ = false |- _ => rewrite map_fst_combine in A by exact LN; rewrite A end.
    match goal with A : sfs _ _ _ _ _ _ _ _ |- _ => rename A into Sf end.
    change (heap_push (dst_of st h) (RObj n None)) with (dst_of (st_open st) (h ++ [RObj n None])).
    rewrite (IHfs _ _ _ _ _ _ _ _ _ _ _ E0 B Sf g ltac:(lia)). reflexivity.
  Qed.

  Lemma map_core f : Pe f -> forall st bs es rest st' kt vt h d h',
    hparse_e f0 f st bs = Ok (es, rest, st') -> bytes_ok bs -> smap te tm kt vt es h d h' ->
    forall g, (2 * f <= g)%nat -> map_body (RA g) kt vt (dst_of st h) bs = Ok (d, rest, dst_of st' h').
  Proof.
    intros IHe st bs es rest st' kt vt h d h' P B S g Hg. inversion S; subst. unfold map_body.
    change (heap_push (dst_of st h) (Decoder.RMap None)) with (dst_of st (h ++ [Decoder.RMap None])).
    match goal with A : se _ _ _ _ _ _ _ _ _ |- _ => rewrite (IHe _ _ _ _ _ _ _ _ _ _ _ P B A g Hg) end. reflexivity.
  Qed.

  Lemma rl_cls_list t : 0 <= t < 256 -> spec_cls t = CTList \/ spec_cls t = CUList -> rl_cls t = spec_cls t.
  Proof.
    intros Bt C. destruct (pos_cls t Bt) as (_ & A & _). rewrite A, (tag_dispatch_agrees t Bt).
    destruct C as [C|C]; rewrite C; reflexivity.
  Qed.

  (* a list in any of its six forms *)
  Lemma list_core f : Pn f -> Pz f -> forall t st r hv rest st' h d h',
    0 <= t < 256 -> spec_cls t = CTList \/ spec_cls t = CUList ->
    pv_body f0 (hparse_v f0 f) (hparse_n f0 f) (hparse_z f0 f) (hparse_e f0 f) (spec_cls t) t st r = Ok (hv, rest, st') ->
    bytes_ok r -> (forall ty vs, hv = HList ty vs -> slist te tm ty vs h d h') ->
    forall g, (2 * f <= g)%nat -> rl_step tm (RA g) None (dst_of st h) (t :: r) = Ok (d, rest, dst_of st' h').
  Proof.
    intros IHn IHz t st r hv rest st' h d h' Bt C P B HS g Hg.
    rewrite rl_step_cls, (rl_cls_list t Bt C).
    destruct (container_tag_facts t Bt) as (FT & FU & _).
    destruct C as [C|C]; rewrite C in *; cbn [rl_body pv_body] in *.
    - destruct (FT eq_refl) as [->|[->|(F1 & F2 & F3 & F4 & F5 & F6)]].
      + change (85 =? 85) with true in P. cbv iota in P. brk P. inversion P; subst.
        specialize (HS _ _ eq_refl). inversion HS; subst.
        match goal with A : hparse_z _ _ _ _ = Ok _ |- _ => rename A into EZ end.
        match goal with A : sn _ _ _ _ _ _ _ |- _ => rename A into Sn end.
        match goal with A : parse_type _ _ _ = Ok (_, ?r1, _) |- _ =>
          pose proof (type_refines _ _ _ _ _ _ h B A) as RT;
          assert (B1 : bytes_ok r1) by (eapply bytes_ok_psuffix; [eapply read_type_psuffix; exact RT|exact B]) end.
        unfold typed_list_step. rewrite RT. cbn [bind].
        change (85 =? g_listVariableTypedTag) with true. cbv iota. cbn [bind].
        match goal with A : tm_lookup _ _ = Some _ |- _ => rewrite A end.
        change (heap_push (dst_of ?s h) (RList None)) with (dst_of (st_open s) (h ++ [RList None])).
        rewrite (IHz _ _ _ _ _ _ _ _ _ EZ B1 Sn g Hg). reflexivity.
      + change (86 =? 85) with false in P. change (86 =? 86) with true in P. cbv iota in P. brk P. inversion P; subst.
        specialize (HS _ _ eq_refl). inversion HS; subst.
        match goal with A : hparse_n _ _ _ _ _ = Ok _ |- _ => rename A into EN end.
        match goal with A : sn _ _ _ _ _ _ _ |- _ => rename A into Sn end.
        match goal with A : parse_type _ _ _ = Ok (_, ?r1, _) |- _ =>
          pose proof (type_refines _ _ _ _ _ _ h B A) as RT;
          assert (B1 : bytes_ok r1) by (eapply bytes_ok_psuffix; [eapply read_type_psuffix; exact RT|exact B]) end.
        match goal with A : parse_int_value _ = Ok (_, ?r2) |- _ =>
          pose proof (int_value_refines _ _ _ B1 A) as RI;
          assert (B2 : bytes_ok r2) by (eapply bytes_ok_psuffix; [eapply decode_int_psuffix; exact RI|exact B1]) end.
        match goal with A : negb (count_ok _ _) = false |- _ => apply negb_false_iff in A; unfold count_ok in A; apply andb_true_iff in A; destruct A as [C1 C2] end.
        unfold typed_list_step. rewrite RT. cbn [bind].
        change (86 =? g_listVariableTypedTag) with false. change (glistFixedTypedLenTag 86) with false.
        change (86 =? g_listFixedTypedStartTag) with true. cbv iota. rewrite RI. cbn [bind].
        match goal with |- context [?n <? 0] => replace (n <? 0) with false by lia end.
        match goal with |- context [Z.of_nat ?l <? ?n] => replace (Z.of_nat l <? n) with false by lia end.
        match goal with A : tm_lookup _ _ = Some _ |- _ => rewrite A end.
        change (heap_push (dst_of ?s h) (RList None)) with (dst_of (st_open s) (h ++ [RList None])).
        destruct (IHn _ _ _ _ _ _ _ _ _ _ EN B2 Sn) as [_ D]. rewrite (D g Hg). reflexivity.
      + rewrite F3, F4 in P. brk P. inversion P; subst.
        specialize (HS _ _ eq_refl). inversion HS; subst.
        match goal with A : hparse_n _ _ _ _ _ = Ok _ |- _ => rename A into EN end.
        match goal with A : sn _ _ _ _ _ _ _ |- _ => rename A into Sn end.
        match goal with A : parse_type _ _ _ = Ok (_, ?r1, _) |- _ =>
          pose proof (type_refines _ _ _ _ _ _ h B A) as RT;
          assert (B1 : bytes_ok r1) by (eapply bytes_ok_psuffix; [eapply read_type_psuffix; exact RT|exact B]) end.
        destruct (IHn _ _ _ _ _ _ _ _ _ _ EN B1 Sn) as [L D].
        unfold typed_list_step. rewrite RT. cbn [bind]. rewrite F1, F2, F5. cbn [bind].
        match goal with |- context [?n <? 0] => replace (n <? 0) with false by lia end.
        match goal with |- context [Z.of_nat ?l <? ?n] => replace (Z.of_nat l <? n) with false by lia end.
        match goal with A : tm_lookup _ _ = Some _ |- _ => rewrite A end.
        change (heap_push (dst_of ?s h) (RList None)) with (dst_of (st_open s) (h ++ [RList None])).
        rewrite (D g Hg). reflexivity.
    - destruct (FU eq_refl) as [->|[->|(F1 & F2 & F3 & F4 & F5 & F6)]].
      + change (87 =? 87) with true in P. cbv iota in P. brk P. inversion P; subst.
        specialize (HS _ _ eq_refl). inversion HS; subst.
        match goal with A : hparse_z _ _ _ _ = Ok _ |- _ => rename A into EZ end.
        match goal with A : sn _ _ _ _ _ _ _ |- _ => rename A into Sn end.
        unfold untyped_list_step.
        change (87 =? g_listVariableUntypedTag) with true. cbv iota. cbn [bind].
        change (heap_push (dst_of ?s h) (RList None)) with (dst_of (st_open s) (h ++ [RList None])).
        rewrite (IHz _ _ _ _ _ _ _ _ _ EZ B Sn g Hg). reflexivity.
      + change (88 =? 87) with false in P. change (88 =? 88) with true in P. cbv iota in P. brk P. inversion P; subst.
        specialize (HS _ _ eq_refl). inversion HS; subst.
        match goal with A : hparse_n _ _ _ _ _ = Ok _ |- _ => rename A into EN end.
        match goal with A : sn _ _ _ _ _ _ _ |- _ => rename A into Sn end.
        match goal with A : parse_int_value _ = Ok (_, ?r2) |- _ =>
          pose proof (int_value_refines _ _ _ B A) as RI;
          assert (B2 : bytes_ok r2) by (eapply bytes_ok_psuffix; [eapply decode_int_psuffix; exact RI|exact B]) end.
        match goal with A : negb (count_ok _ _) = false |- _ => apply negb_false_iff in A; unfold count_ok in A; apply andb_true_iff in A; destruct A as [C1 C2] end.
        unfold untyped_list_step.
        change (88 =? g_listVariableUntypedTag) with false. change (glistFixedUntypedLenTag 88) with false.
        change (88 =? g_listFixedUntypedTag) with true. cbv iota. rewrite RI. cbn [bind].
        match goal with |- context [?n <? 0] => replace (n <? 0) with false by lia end.
        match goal with |- context [Z.of_nat ?l <? ?n] => replace (Z.of_nat l <? n) with false by lia end.
        change (heap_push (dst_of ?s h) (RList None)) with (dst_of (st_open s) (h ++ [RList None])).
        destruct (IHn _ _ _ _ _ _ _ _ _ _ EN B2 Sn) as [_ D]. rewrite (D g Hg). reflexivity.
      + rewrite F3, F4 in P. brk P. inversion P; subst.
        specialize (HS _ _ eq_refl). inversion HS; subst.
        match goal with A : hparse_n _ _ _ _ _ = Ok _ |- _ => rename A into EN end.
        match goal with A : sn _ _ _ _ _ _ _ |- _ => rename A into Sn end.
        destruct (IHn _ _ _ _ _ _ _ _ _ _ EN B Sn) as [L D].
        unfold untyped_list_step. rewrite F1, F2, F5. cbn [bind].
        match goal with |- context [?n <? 0] => replace (n <? 0) with false by lia end.
        match goal with |- context [Z.of_nat ?l <? ?n] => replace (Z.of_nat l <? n) with false by lia end.
        change (heap_push (dst_of ?s h) (RList None)) with (dst_of (st_open s) (h ++ [RList None])).
        rewrite (D g Hg). reflexivity.
  Qed.

  Lemma sv_list_inv ty vs h d h' : sv te tm (HList ty vs) h d h' -> slist te tm ty vs h d h'.
  Proof. intros H. inversion H; subst. assumption. Qed.
  Lemma sl_list_inv ty vs h d h' : sl te tm (HList ty vs) h d h' -> slist te tm ty vs h d h'.
  Proof. intros H. inversion H; subst. assumption. Qed.

  (* the class-definition prefix, common to every position *)
  Lemma def_prefix pv pn pz pe t st r x h : pv_body f0 pv pn pz pe CDef t st r = Ok x -> bytes_ok r ->
    exists st1 r3, read_class_def (dst_of st h) r = Ok (tt, r3, dst_of st1 h) /\ bytes_ok r3 /\ pv st1 r3 = Ok x.
  Proof.
    intros P B. cbn [pv_body] in P. brk P.
    match goal with A : negb (count_ok _ _) = false |- _ => apply negb_false_iff in A; rename A into CO end.
    match goal with A1 : parse_string_value _ _ = Ok _, A2 : parse_int_value _ = Ok _, A3 : parse_strings _ _ _ = Ok _ |- _ =>
      pose proof (classdef_refines _ st _ _ _ _ _ _ _ h B A1 A2 CO A3) as RC end.
    eexists _, _. split; [exact RC|]. split; [eapply bytes_ok_psuffix; [eapply read_class_def_psuffix; exact RC|exact B]|exact P].
  Qed.

  Lemma Pv_step f : Pv f -> Pn f -> Pz f -> Pe f -> Pfs f -> Pv (S f).
  Proof.
    intros IHv IHn IHz IHe IHfs st bs hv rest st' h d h' P B S g Hg.
    rewrite hparse_v_S in P. destruct bs as [|t r]; [discriminate P|]. rewrite pv_step_cls in P.
    apply bytes_ok_cons in B. destruct B as [Bt Br].
    destruct g as [|g]; [lia|]. rewrite rdS, rd_step_cls, (tag_dispatch_agrees t Bt).
    destruct (container_tag_facts t Bt) as (_ & _ & FO).
    destruct (Z.eqb_spec t 67) as [->|N67].
    - change (spec_cls 67) with CDef in P. destruct (def_prefix _ _ _ _ _ _ _ _ h P Br) as (st1 & r3 & RC & B3 & P3).
      change (spec_cls 67) with CDef. cbn [rd_body]. rewrite RC. cbn [bind snd].
      apply (IHv _ _ _ _ _ _ _ _ P3 B3 S g ltac:(lia)).
    - destruct (spec_cls t) eqn:C; cbn [pv_body rd_body] in *; try discriminate P.
      + inversion P; subst. inversion S; subst. reflexivity.
      + inversion P; subst. inversion S; subst. reflexivity.
      + inversion P; subst. inversion S; subst. reflexivity.
      + brk P. inversion P; subst. inversion S; subst.
        match goal with A : parse_int _ _ = Ok _ |- _ => rewrite (decode_int_follows_spec _ _ _ _ Bt Br A) end. reflexivity.
      + brk P. inversion P; subst. inversion S; subst.
        match goal with A : parse_long _ _ = Ok _ |- _ => rewrite (decode_long_follows_spec _ _ _ _ Bt Br A) end. reflexivity.
      + brk P. inversion P; subst. inversion S; subst.
        match goal with A : parse_double _ _ = Ok _ |- _ => rewrite (decode_double_follows_spec _ _ _ _ Br A) end. reflexivity.
      + brk P. inversion P; subst. inversion S; subst.
        match goal with A : parse_string _ _ _ = Ok _ |- _ => rewrite (decode_string_follows_spec _ _ _ _ _ A) end. reflexivity.
      + brk P. inversion P; subst. inversion S; subst.
        match goal with A : parse_binary _ _ _ = Ok _ |- _ => rewrite (decode_binary_follows_spec _ _ _ _ _ A) end. reflexivity.
      + brk P. inversion P; subst. inversion S.
      + (* instance, short form *) rewrite (FO eq_refl). apply (obj_core _ IHfs _ _ _ _ _ _ _ _ _ P Br S). lia.
      + (* typed list *) destruct g as [|g]; [lia|]. rewrite rlS, rl_step_some.
        eapply (list_core f IHn IHz); try eassumption; [left; exact C|rewrite C; exact P| |lia].
        intros ty vs ->. apply sv_list_inv. exact S.
      + destruct g as [|g]; [lia|]. rewrite rlS, rl_step_some.
        eapply (list_core f IHn IHz); try eassumption; [right; exact C|rewrite C; exact P| |lia].
        intros ty vs ->. apply sv_list_inv. exact S.
      + brk P. inversion P; subst. inversion S; subst.
        match goal with A : parse_int_value _ = Ok _, V : ref_val _ _ = Some _ |- _ => apply (read_ref_val _ _ _ _ _ _ Br A V) end.
      + (* typed map *) brk P. inversion P; subst. inversion S; subst.
        match goal with A : parse_type _ _ _ = Ok (_, ?r1, _) |- _ =>
          pose proof (type_refines _ _ _ _ _ _ h Br A) as RT;
          assert (B1 : bytes_ok r1) by (eapply bytes_ok_psuffix; [eapply read_type_psuffix; exact RT|exact Br]) end.
        rewrite RT. cbn [bind].
        match goal with A : tm_lookup _ _ = Some _ |- _ => rewrite A end.
        match goal with A : hparse_e _ _ _ _ = Ok _, M : smap _ _ _ _ _ _ _ _ |- _ =>
          apply (map_core f IHe _ _ _ _ _ _ _ _ _ _ A B1 M); lia end.
      + brk P. inversion P; subst. inversion S; subst.
        match goal with A : hparse_e _ _ _ _ = Ok _, M : smap _ _ _ _ _ _ _ _ |- _ =>
          apply (map_core f IHe _ _ _ _ _ _ _ _ _ _ A Br M); lia end.
      + apply spec_cls_def in C. contradiction.
      + (* instance, long form *) brk P.
        match goal with A : parse_int_value _ = Ok (_, ?r1) |- _ =>
          pose proof (int_value_refines _ _ _ Br A) as RI;
          assert (B1 : bytes_ok r1) by (eapply bytes_ok_psuffix; [eapply decode_int_psuffix; exact RI|exact Br]) end.
        rewrite RI. cbn [bind]. apply (obj_core _ IHfs _ _ _ _ _ _ _ _ _ P B1 S). lia.
  Qed.

  (* discharge a tag class whose values the position does not accept *)
  Ltac wrong_shape SH S :=
    cbn in SH; first [ destruct SH as (? & ? & ->) | destruct SH as (? & ->) | contradiction | subst ]; inversion S.

  Lemma Pl_step f : Pl f -> Pn f -> Pz f -> Pl (S f).
  Proof.
    intros IHl IHn IHz st bs hv rest st' h d h' P B S g Hg.
    rewrite hparse_v_S in P. destruct bs as [|t r]; [discriminate P|]. rewrite pv_step_cls in P.
    apply bytes_ok_cons in B. destruct B as [Bt Br].
    destruct g as [|g]; [lia|]. rewrite rlS.
    destruct (Z.eqb_spec t 67) as [->|N67].
    - change (spec_cls 67) with CDef in P. destruct (def_prefix _ _ _ _ _ _ _ _ h P Br) as (st1 & r3 & RC & B3 & P3).
      rewrite rl_step_cls. change (rl_cls 67) with CDef. cbn [rl_body]. rewrite RC. cbn [bind snd].
      apply (IHl _ _ _ _ _ _ _ _ P3 B3 S g ltac:(lia)).
    - pose proof (pv_body_shape _ _ _ _ _ _ _ _ _ _ _ _ P) as SH.
      destruct (spec_cls t) eqn:C; try (wrong_shape SH S; fail).
      + (* null *) rewrite rl_step_cls. destruct (pos_cls t Bt) as (_ & RL & _). rewrite RL, (tag_dispatch_agrees t Bt), C.
        cbn [pv_body rl_body] in *. inversion P; subst. inversion S; subst. reflexivity.
      + (* binary *) rewrite rl_step_cls. destruct (pos_cls t Bt) as (_ & RL & _). rewrite RL, (tag_dispatch_agrees t Bt), C.
        cbn [pv_body rl_body] in *. brk P. inversion P; subst. inversion S; subst.
        match goal with A : parse_binary _ _ _ = Ok _ |- _ => rewrite (decode_binary_follows_spec _ _ _ _ _ A) end. reflexivity.
      + eapply (list_core f IHn IHz); try eassumption; [left; exact C|rewrite C; exact P| |lia].
        intros ty vs ->. apply sl_list_inv. exact S.
      + eapply (list_core f IHn IHz); try eassumption; [right; exact C|rewrite C; exact P| |lia].
        intros ty vs ->. apply sl_list_inv. exact S.
      + (* ref *) rewrite rl_step_cls. destruct (pos_cls t Bt) as (_ & RL & _). rewrite RL, (tag_dispatch_agrees t Bt), C.
        cbn [pv_body rl_body] in *. brk P. inversion P; subst. inversion S; subst.
        match goal with A : parse_int_value _ = Ok _, V : ref_val _ _ = Some _ |- _ => apply (read_ref_val _ _ _ _ _ _ Br A V) end.
      + apply spec_cls_def in C. contradiction.
  Qed.

  Lemma Pm_step f : Pm f -> Pe f -> Pm (S f).
  Proof.
    intros IHm IHe st bs hv rest st' kt vt h d h' P B S g Hg.
    rewrite hparse_v_S in P. destruct bs as [|t r]; [discriminate P|]. rewrite pv_step_cls in P.
    apply bytes_ok_cons in B. destruct B as [Bt Br].
    destruct g as [|g]; [lia|]. rewrite rmS, rm_step_cls.
    destruct (Z.eqb_spec t 67) as [->|N67].
    - change (spec_cls 67) with CDef in P. destruct (def_prefix _ _ _ _ _ _ _ _ h P Br) as (st1 & r3 & RC & B3 & P3).
      change (rm_cls 67) with CDef. cbn [rm_body]. rewrite RC. cbn [bind snd].
      apply (IHm _ _ _ _ _ _ _ _ _ _ P3 B3 S g ltac:(lia)).
    - pose proof (pv_body_shape _ _ _ _ _ _ _ _ _ _ _ _ P) as SH.
      destruct (pos_cls t Bt) as (_ & _ & RM). rewrite RM, (tag_dispatch_agrees t Bt).
      destruct (spec_cls t) eqn:C; try (wrong_shape SH S; fail); cbn [pv_body rm_body] in *.
      + inversion P; subst. inversion S; subst. reflexivity.
      + brk P. inversion P; subst. inversion S; subst.
        match goal with A : parse_int_value _ = Ok _, V : ref_val _ _ = Some _ |- _ => rewrite (read_ref_val _ _ _ _ _ _ Br A V) end.
        cbn [bind]. change (dheap (dst_of st' h')) with h'.
        match goal with A : set_value _ _ _ _ = Ok _ |- _ => rewrite A end. reflexivity.
      + brk P. inversion P; subst. inversion S; subst.
        match goal with A : parse_type _ _ _ = Ok (_, ?r1, _) |- _ =>
          pose proof (type_refines _ _ _ _ _ _ h Br A) as RT;
          assert (B1 : bytes_ok r1) by (eapply bytes_ok_psuffix; [eapply read_type_psuffix; exact RT|exact Br]) end.
        rewrite RT. cbn [bind snd].
        match goal with A : hparse_e _ _ _ _ = Ok _, M : smap _ _ _ _ _ _ _ _ |- _ =>
          apply (map_core f IHe _ _ _ _ _ _ _ _ _ _ A B1 M); lia end.
      + brk P. inversion P; subst. inversion S; subst.
        match goal with A : hparse_e _ _ _ _ = Ok _, M : smap _ _ _ _ _ _ _ _ |- _ =>
          apply (map_core f IHe _ _ _ _ _ _ _ _ _ _ A Br M); lia end.
      + apply spec_cls_def in C. contradiction.
  Qed.

  Lemma rf_step_core_eq R t st tag r : scalar_type t = false \/ tag <> 67 ->
    rf_step te tm R t st (tag :: r) = rf_core te tm R t st (tag :: r).
  Proof.
    intros H. unfold rf_step. destruct H as [H|H]; [rewrite H; reflexivity|].
    replace (tag =? g_objectDefTag) with false by (unfold g_objectDefTag; lia). rewrite andb_false_r. reflexivity.
  Qed.

  Lemma rf_struct_like R t st bs : struct_like t ->
    rf_core te tm R t st bs =
    (do (x, st1) <- read_struct tm R st bs ;; let '(s, r) := x in
     do v <- set_value te (dheap st1) t s ;; Ok (v, r, st1)).
  Proof. destruct t as [| | | | | | |n|t'| | | |]; cbn; try contradiction; try reflexivity. destruct t'; try contradiction; reflexivity. Qed.
  Lemma rf_slice_like R t st bs m r st1 : slice_like t -> R_rl R None st bs = Ok (m, r, st1) ->
    rf_core te tm R t st bs = (do v <- set_slice te (dheap st1) t m ;; Ok (v, r, st1)).
  Proof. intros SL E. destruct t; cbn in SL; try contradiction; cbn [rf_core]; rewrite E; reflexivity. Qed.

  (* decoder.go readStruct *)
  Lemma Ps_step f : Pv f -> Pfs f -> forall st bs hv rest st' h d h',
    hparse_v f0 (S f) st bs = Ok (hv, rest, st') -> bytes_ok bs -> ss te tm hv h d h' ->
    forall g, (2 * f + 1 <= g)%nat -> read_struct tm (RA g) (dst_of st h) bs = Ok (d, rest, dst_of st' h').
  Proof.
    intros IHv IHfs st bs hv rest st' h d h' P B S g Hg.
    rewrite hparse_v_S in P. destruct bs as [|t r]; [discriminate P|]. rewrite pv_step_cls in P.
    apply bytes_ok_cons in B. destruct B as [Bt Br]. rewrite read_struct_cls.
    destruct (container_tag_facts t Bt) as (_ & _ & FO).
    destruct (Z.eqb_spec t 67) as [->|N67].
    - change (spec_cls 67) with CDef in P. destruct (def_prefix _ _ _ _ _ _ _ _ h P Br) as (st1 & r3 & RC & B3 & P3).
      change (rs_cls 67) with CDef. cbn [rs_body]. rewrite RC. cbn [bind snd].
      apply (IHv _ _ _ _ _ _ _ _ P3 B3 (ss_sv _ _ _ _ _ _ S) g ltac:(lia)).
    - pose proof (pv_body_shape _ _ _ _ _ _ _ _ _ _ _ _ P) as SH.
      destruct (pos_cls t Bt) as (RS & _ & _). rewrite RS, (tag_dispatch_agrees t Bt).
      destruct (spec_cls t) eqn:C; try (wrong_shape SH S; fail); cbn [pv_body rs_body] in *.
      + inversion P; subst. inversion S; subst. reflexivity.
      + rewrite (FO eq_refl). apply (obj_core _ IHfs _ _ _ _ _ _ _ _ _ P Br (ss_sv _ _ _ _ _ _ S)). lia.
      + brk P. inversion P; subst. inversion S; subst.
        match goal with A : parse_int_value _ = Ok _, V : ref_val _ _ = Some _ |- _ => apply (read_ref_val _ _ _ _ _ _ Br A V) end.
      + apply spec_cls_def in C. contradiction.
      + brk P.
        match goal with A : parse_int_value _ = Ok (_, ?r1) |- _ =>
          pose proof (int_value_refines _ _ _ Br A) as RI;
          assert (B1 : bytes_ok r1) by (eapply bytes_ok_psuffix; [eapply decode_int_psuffix; exact RI|exact Br]) end.
        rewrite RI. cbn [bind]. apply (obj_core _ IHfs _ _ _ _ _ _ _ _ _ P B1 (ss_sv _ _ _ _ _ _ S)). lia.
  Qed.

  Ltac shape_discr SH :=
    exfalso; cbn in SH;
    first [ let E := fresh in destruct SH as (? & ? & E); discriminate E
          | let E := fresh in destruct SH as (? & E); discriminate E
          | discriminate SH | exact SH ].
  Ltac only_class SH C Pb N :=
    destruct (spec_cls _) eqn:C in SH, Pb; try (shape_discr SH); try (apply spec_cls_def in C; contradiction); cbn [pv_body] in Pb.

  Lemma Pf_step f : Pf f -> Pv f -> Pfs f -> Pl (S f) -> Pm (S f) -> Pf (S f).
  Proof.
    intros IHf IHv IHfs IHl IHm st bs hv rest st' t h d h' P B S g Hg.
    destruct g as [|g]; [lia|]. rewrite rfS.
    destruct bs as [|t0 r]; [rewrite hparse_v_S in P; discriminate P|].
    destruct (Bool.bool_dec (scalar_type t) true) as [SC|SC].
    - (* string, integer, bool, float fields: readScalarTag, then the scalar reader *)
      pose proof P as Pb. rewrite hparse_v_S, pv_step_cls in Pb.
      apply bytes_ok_cons in B. destruct B as [Bt Br].
      destruct (Z.eq_dec t0 67) as [->|N].
      + change (spec_cls 67) with CDef in Pb. destruct (def_prefix _ _ _ _ _ _ _ _ h Pb Br) as (st1 & r3 & RC & B3 & P3).
        unfold rf_step. rewrite SC. change (67 =? g_objectDefTag) with true. cbn [andb]. rewrite RC. cbn [bind snd].
        apply (IHf _ _ _ _ _ _ _ _ _ P3 B3 S g ltac:(lia)).
      + rewrite rf_step_core_eq by (right; exact N).
        pose proof (pv_body_shape _ _ _ _ _ _ _ _ _ _ _ _ Pb) as SH.
        inversion S; subst;
          try (exfalso; match goal with
                        | A : struct_like ?x |- _ => destruct x; cbn in A, SC; (contradiction || discriminate SC)
                        | A : slice_like ?x |- _ => destruct x; cbn in A, SC; (contradiction || discriminate SC)
                        | _ => discriminate SC end).
        * (* string *) only_class SH C Pb N. brk Pb. inversion Pb; subst. cbn [rf_core].
          change (decode_string (t0 :: r)) with (decode_string_tag t0 r).
          match goal with A : parse_string _ _ _ = Ok _ |- _ => rewrite (decode_string_follows_spec _ _ _ _ _ A) end. reflexivity.
        * (* null at a string field: the empty string *) only_class SH C Pb N. inversion Pb; subst.
          apply (proj1 (spec_cls_single t0)) in C. subst t0. reflexivity.
        * (* integer kinds read as int *) only_class SH C Pb N. brk Pb. inversion Pb; subst. cbn [rf_core]. unfold dec_field_kind.
          match goal with A : kind_wire_int _ = true |- _ => rewrite A end.
          change (decode_int (t0 :: r)) with (decode_int_tag t0 r).
          match goal with A : parse_int _ _ = Ok _ |- _ => rewrite (decode_int_follows_spec _ _ _ _ Bt Br A) end. reflexivity.
        * only_class SH C Pb N. brk Pb. inversion Pb; subst. cbn [rf_core]. unfold dec_field_kind.
          match goal with A : kind_wire_int _ = false |- _ => rewrite A end.
          change (decode_long (t0 :: r)) with (decode_long_tag t0 r).
          match goal with A : parse_long _ _ = Ok _ |- _ => rewrite (decode_long_follows_spec _ _ _ _ Bt Br A) end. reflexivity.
        * (* bool *) only_class SH C Pb N.
          -- inversion Pb; subst. apply (proj1 (proj2 (spec_cls_single t0))) in C. subst t0. reflexivity.
          -- inversion Pb; subst. apply (proj2 (proj2 (spec_cls_single t0))) in C. subst t0. reflexivity.
        * (* float64 *) only_class SH C Pb N. brk Pb. inversion Pb; subst. cbn [rf_core].
          change (decode_double (t0 :: r)) with (decode_double_tag t0 r).
          match goal with A : parse_double _ _ = Ok _ |- _ => rewrite (decode_double_follows_spec _ _ _ _ Br A) end. reflexivity.
        * only_class SH C Pb N. brk Pb. inversion Pb; subst. cbn [rf_core].
          change (decode_double (t0 :: r)) with (decode_double_tag t0 r).
          match goal with A : parse_double _ _ = Ok _ |- _ => rewrite (decode_double_follows_spec _ _ _ _ Br A) end. reflexivity.
    - (* struct, map and list fields: their readers handle the definition tag themselves *)
      rewrite rf_step_core_eq by (left; destruct (scalar_type t); congruence).
      inversion S; subst; try (exfalso; apply SC; reflexivity).
      + (* struct, pointer to struct *)
        match goal with A : struct_like _ |- _ => rewrite (rf_struct_like _ _ _ _ A) end.
        match goal with A : ss _ _ _ _ _ _ |- _ => rewrite (Ps_step f IHv IHfs _ _ _ _ _ _ _ _ P B A g ltac:(lia)) end.
        cbn [bind]. change (dheap (dst_of st' h')) with h'.
        match goal with A : set_value _ _ _ _ = Ok _ |- _ => rewrite A end. reflexivity.
      + (* map *) cbn [rf_core].
        match goal with A : sm _ _ _ _ _ _ _ _ |- _ => apply (IHm _ _ _ _ _ _ _ _ _ _ P B A g ltac:(lia)) end.
      + (* slice, byte slice *)
        match goal with A : slice_like _, L : sl _ _ _ _ _ _ |- _ =>
          rewrite (rf_slice_like _ _ _ _ _ _ _ A (IHl _ _ _ _ _ _ _ _ P B L g ltac:(lia))) end.
        change (dheap (dst_of st' h')) with h'.
        match goal with A : set_slice _ _ _ _ = Ok _ |- _ => rewrite A end. reflexivity.
  Qed.

  Definition All (f : nat) : Prop := Pv f /\ Pl f /\ Pm f /\ Pf f /\ Pn f /\ Pz f /\ Pe f /\ Pfs f.
  Lemma all_fuel : forall f, All f.
  Proof.
    induction f as [|f (IHv & IHl & IHm & IHf & IHn & IHz & IHe & IHfs)].
    - unfold All, Pv, Pl, Pm, Pf, Pn, Pz, Pe, Pfs. repeat split; intros; try match goal with P : _ = Ok _ |- _ => discriminate P end.
    - pose proof (Pl_step f IHl IHn IHz) as Hl. pose proof (Pm_step f IHm IHe) as Hm.
      refine (conj _ (conj Hl (conj Hm (conj _ (conj _ (conj _ (conj _ _))))))).
      + apply Pv_step; assumption.
      + apply Pf_step; assumption.
      + apply Pn_step; assumption.
      + apply Pz_step; assumption.
      + apply Pe_step; assumption.
      + apply Pfs_step; assumption.
  Qed.

  (* from any pair of corresponding tables, in the middle of a stream *)
  Theorem refines_from_any_state f st bs hv rest st' h d h' :
    hparse_v f0 f st bs = Ok (hv, rest, st') -> bytes_ok bs -> sv te tm hv h d h' ->
    forall g, (2 * f <= g)%nat -> R_rd (RA g) (dst_of st h) bs = Ok (d, rest, dst_of st' h').
  Proof. apply (proj1 (all_fuel f)). Qed.
  Theorem field_refines_from_any_state f st bs hv rest st' t h d h' :
    hparse_v f0 f st bs = Ok (hv, rest, st') -> bytes_ok bs -> sf te tm t hv h d h' ->
    forall g, (2 * f <= g)%nat -> R_rf (RA g) t (dst_of st h) bs = Ok (d, rest, dst_of st' h').
  Proof. apply (proj1 (proj2 (proj2 (proj2 (all_fuel f))))). Qed.
End Main.

(* Decoder.Decode / ToObject on a whole message *)
Theorem decoder_refines_grammar te tm bs hv rest st' d h' :
  hparse pstate0 bs = Ok (hv, rest, st') -> bytes_ok bs -> sv te tm hv [] d h' ->
  decode te tm bs = Ok (d, rest, dst_of st' h').
Proof.
  intros P B S. unfold decode. change dstate0 with (dst_of pstate0 []).
  eapply refines_from_any_state; try eassumption. unfold decode_fuel. lia.
Qed.

(* C03: two renderings the grammar reads as the same abstract value decode to the same Go value
   and the same reference table *)
Theorem renderings_decode_alike te tm bs1 bs2 hv st1 st2 d h' :
  hparse pstate0 bs1 = Ok (hv, [], st1) -> hparse pstate0 bs2 = Ok (hv, [], st2) ->
  bytes_ok bs1 -> bytes_ok bs2 -> sv te tm hv [] d h' ->
  decode te tm bs1 = Ok (d, [], dst_of st1 h') /\ decode te tm bs2 = Ok (d, [], dst_of st2 h').
Proof. intros P1 P2 B1 B2 S. split; eapply decoder_refines_grammar; eassumption. Qed.

