(* Structural facts about the encoder model: an induction principle for gval, fail-stop
   encoding (C13), and the behaviour under a failing writer (C15). *)
From Coq Require Import ZArith List Lia Bool.
From GH Require Import Base.GoSem Base.Result Gen.GoConsts Gen.GoLeaf Model.Scalars Model.Strings Spec.Grammar Model.Encoder.
Import ListNotations.
Open Scope Z_scope.

(* ---- induction principle for the nested type gval ---- *)
Section GvalInd.
  Variable P : gval -> Prop.
  Hypothesis Hnil : P VNil.
  Hypothesis Hbool : forall b, P (VBool b).
  Hypothesis Hint : forall k z, P (VInt k z).
  Hypothesis Hf32 : forall b, P (VF32 b).
  Hypothesis Hf64 : forall b, P (VF64 b).
  Hypothesis Hstr : forall rs, P (VStr rs).
  Hypothesis Hbytes : forall bs, P (VBytes bs).
  Hypothesis Htime : forall s n, P (VTime s n).
  Hypothesis Hstruct : forall a ty fs, Forall (fun f => P (snd f)) fs -> P (VStruct a ty fs).
  Hypothesis Hslice : forall a ty l, Forall P l -> P (VSlice a ty l).
  Hypothesis Hmap : forall a ty es, Forall (fun e => P (fst e) /\ P (snd e)) es -> P (VMap a ty es).
  Hypothesis Hseen : forall k a, P (VSeen k a).
  Hypothesis Hunexp : P VUnexported.
  Hypothesis Hbad : P VBad.

  Fixpoint gval_ind' (v : gval) : P v :=
    match v with
    | VNil => Hnil | VBool b => Hbool b | VInt k z => Hint k z | VF32 b => Hf32 b | VF64 b => Hf64 b
    | VStr rs => Hstr rs | VBytes bs => Hbytes bs | VTime s n => Htime s n
    | VStruct a ty fs =>
      Hstruct a ty fs ((fix go (l : list (name * gval)) : Forall (fun f => P (snd f)) l :=
                          match l with
                          | [] => Forall_nil _
                          | (n, x) :: r => Forall_cons (n, x) (gval_ind' x) (go r)
                          end) fs)
    | VSlice a ty l =>
      Hslice a ty l ((fix go (l : list gval) : Forall P l :=
                        match l with [] => Forall_nil _ | x :: r => Forall_cons x (gval_ind' x) (go r) end) l)
    | VMap a ty es =>
      Hmap a ty es ((fix go (l : list (gval * gval)) : Forall (fun e => P (fst e) /\ P (snd e)) l :=
                       match l with
                       | [] => Forall_nil _
                       | (k, x) :: r => Forall_cons (k, x) (conj (gval_ind' k) (gval_ind' x)) (go r)
                       end) es)
    | VSeen k a => Hseen k a | VUnexported => Hunexp | VBad => Hbad
    end.
End GvalInd.

(* the three loops of write_data, named *)
Fixpoint write_fields (fs : list (name * gval)) (s : estate) : eres :=
  match fs with [] => Ok s | (_, fv) :: r => match write_data fv s with Ok s' => write_fields r s' | e => e end end.
Fixpoint write_items (l : list gval) (s : estate) : eres :=
  match l with [] => Ok s | x :: r => match write_data x s with Ok s' => write_items r s' | e => e end end.
Fixpoint write_entries (l : list (gval * gval)) (s : estate) : eres :=
  match l with
  | [] => Ok s
  | (k, x) :: r => match write_data k s with
                   | Ok s1 => match write_data x s1 with Ok s2 => write_entries r s2 | e => e end
                   | e => e end
  end.

Definition struct_prefix (st1 : estate) (ty : name) (fields : list (name * gval)) : estate :=
  let '(cname, st2) :=
    match nm_lookup (enm st1) ty with
    | Some c => (c, st1)
    | None => (ty, {| ecls := ecls st1; erefs := erefs st1; enm := enm st1 ++ [(ty, ty)]; eout := eout st1 |})
    end in
  let '(idx, st3) :=
    match cls_index (ecls st2) cname 0 with
    | Some i => (i, st2)
    | None => (Z.of_nat (length (ecls st2)), write_cls_def st2 cname (map fst fields))
    end in
  if idx <=? g_objectTagMaxLen
  then emit st3 [wrap 8 (wrap 8 idx + g_objectLenTagMin)]
  else emit (emit st3 [g_objectTag]) (gencodeInt (swrap 32 idx)).

Definition map_prefix (st1 : estate) (ty : name) : estate :=
  match nm_lookup (enm st1) ty with
  | Some mn => emit (emit st1 [g_mapTypedTag]) (encode_string mn)
  | None => emit st1 [g_mapUntypedTag]
  end.

(* unfolding equations *)
Lemma fields_loop_eq fs : forall s,
  (fix go (fs : list (name * gval)) (s : estate) {struct fs} : eres :=
     match fs with [] => Ok s | (_, fv) :: r => match write_data fv s with Ok s' => go r s' | e => e end end) fs s
  = write_fields fs s.
Proof. intros s. reflexivity. Qed.
Lemma items_loop_eq l : forall s,
  (fix go (l : list gval) (s : estate) {struct l} : eres :=
     match l with [] => Ok s | x :: r => match write_data x s with Ok s' => go r s' | e => e end end) l s
  = write_items l s.
Proof. intros s. reflexivity. Qed.
Lemma entries_loop_eq l : forall s,
  (fix go (l : list (gval * gval)) (s : estate) {struct l} : eres :=
     match l with
     | [] => Ok s
     | (k, x) :: r => match write_data k s with
                      | Ok s1 => match write_data x s1 with Ok s2 => go r s2 | e => e end
                      | e => e end
     end) l s
  = write_entries l s.
Proof. intros s. reflexivity. Qed.

Lemma write_data_struct a ty fs st :
  write_data (VStruct a ty fs) st =
  match check_ref st RStruct a with
  | (Some i, st1) => Ok (write_ref st1 i)
  | (None, st1) => write_fields fs (struct_prefix st1 ty fs)
  end.
Proof.
  cbn [write_data]. destruct (check_ref st RStruct a) as [[i|] st1]; [reflexivity|].
  unfold struct_prefix.
  destruct (nm_lookup (enm st1) ty);
  match goal with |- context [cls_index ?c ?n 0] => destruct (cls_index c n 0) end;
  apply fields_loop_eq.
Qed.
Lemma write_data_slice a ty l st :
  write_data (VSlice a ty l) st =
  match check_ref st RSlice (if (length l =? 0)%nat then 0 else a) with
  | (Some i, st1) => Ok (write_ref st1 i)
  | (None, st1) => write_items l (list_header st1 ty (Z.of_nat (length l)))
  end.
Proof.
  cbn [write_data]. destruct (check_ref st RSlice _) as [[i|] st1]; [reflexivity|]. apply items_loop_eq.
Qed.
Lemma write_data_map a ty es st :
  write_data (VMap a ty es) st =
  match es with
  | [] => Ok (emit st [g_nilTag])
  | _ => match check_ref st RMap a with
         | (Some i, st1) => Ok (write_ref st1 i)
         | (None, st1) => match write_entries es (map_prefix st1 ty) with Ok s => Ok (emit s [g_endFlag]) | e => e end
         end
  end.
Proof.
  cbn [write_data]. destruct es as [|e0 es0]; [reflexivity|].
  destruct (check_ref st RMap a) as [[i|] st1]; [reflexivity|].
  reflexivity.
Qed.

(* ================= C13: fail-stop ================= *)
(* values without sharing: every address is 0 (by value / fresh) and nothing is marked as seen *)
Fixpoint addr_free (v : gval) : bool :=
  match v with
  | VStruct a _ fs => (a =? 0) && forallb (fun f => addr_free (snd f)) fs
  | VSlice a _ l => (a =? 0) && forallb addr_free l
  | VMap a _ es => (a =? 0) && forallb (fun e => addr_free (fst e) && addr_free (snd e)) es
  | VSeen _ _ => false
  | _ => true
  end.
(* an unrepresentable part somewhere inside *)
Fixpoint contains_bad (v : gval) : bool :=
  match v with
  | VBad | VUnexported => true
  | VStruct _ _ fs => existsb (fun f => contains_bad (snd f)) fs
  | VSlice _ _ l => existsb contains_bad l
  | VMap _ _ es => existsb (fun e => contains_bad (fst e) || contains_bad (snd e)) es
  | _ => false
  end.

Lemma ref_find_zero refs k0 i : ref_find refs 0 k0 i = None.
Proof. revert i. induction refs as [|[a k] r IH]; intros i; cbn [ref_find]; [reflexivity|]. rewrite andb_false_r. apply IH. Qed.
Lemma check_ref_zero st k : exists st1, check_ref st k 0 = (None, st1).
Proof. unfold check_ref. rewrite ref_find_zero. eexists; reflexivity. Qed.

Definition is_err {A} (r : result A) : Prop := match r with Err _ => True | _ => False end.
Definition ok_or_err {A} (r : result A) : Prop := match r with Ok _ | Err _ => True | _ => False end.

Lemma gencodeDouble_ok b : exists bs, gencodeDouble b = Ok bs.
Proof.
  unfold gencodeDouble. cbv zeta.
  repeat (match goal with |- context [if ?c then _ else _] => destruct c end); eexists; reflexivity.
Qed.

Lemma enc_kind_ok_or_err k z : ok_or_err (enc_kind k z).
Proof. destruct k; cbn [enc_kind]; try exact I. destruct (between (-2147483648) 2147483647 z); exact I. Qed.

(* without sharing the encoder never reaches an ill-formed-input outcome: it succeeds or errors *)
Lemma addr_free_ok_or_err v : addr_free v = true -> forall st, ok_or_err (write_data v st).
Proof.
  induction v using gval_ind'; cbn [addr_free]; intros Ha st; try discriminate; try exact I.
  - cbn [write_data]. pose proof (enc_kind_ok_or_err k z) as E. destruct (enc_kind k z); try contradiction; exact I.
  - cbn [write_data]. unfold write_double. destruct (gencodeDouble_ok (Base.FloatBits.widen b)) as [bs ->]. exact I.
  - cbn [write_data]. unfold write_double. destruct (gencodeDouble_ok b) as [bs ->]. exact I.
  - apply andb_true_iff in Ha. destruct Ha as [Ha0 Hfs]. replace a with 0 by lia.
    rewrite write_data_struct. destruct (check_ref_zero st RStruct) as [st1 ->].
    generalize (struct_prefix st1 ty fs). clear st st1.
    induction fs as [|[n x] r IHr]; intros s; [exact I|].
    inversion H as [|? ? Hx Hr]; subst. cbn [forallb snd write_fields] in *.
    apply andb_true_iff in Hfs. destruct Hfs as [Hax Har].
    specialize (Hx Hax s). destruct (write_data x s); try contradiction; try exact I. apply IHr; assumption.
  - apply andb_true_iff in Ha. destruct Ha as [Ha0 Hl]. replace a with 0 by lia.
    rewrite write_data_slice. replace (if (length l =? 0)%nat then 0 else 0) with 0 by (destruct (length l =? 0)%nat; reflexivity).
    destruct (check_ref_zero st RSlice) as [st1 ->].
    generalize (list_header st1 ty (Z.of_nat (length l))). clear st st1.
    induction l as [|x r IHr]; intros s; [exact I|].
    inversion H as [|? ? Hx Hr]; subst. cbn [forallb write_items] in *.
    apply andb_true_iff in Hl. destruct Hl as [Hax Har].
    specialize (Hx Hax s). destruct (write_data x s); try contradiction; try exact I. apply IHr; assumption.
  - apply andb_true_iff in Ha. destruct Ha as [Ha0 Hes]. replace a with 0 by lia.
    rewrite write_data_map. destruct es as [|e0 es0]; [exact I|].
    destruct (check_ref_zero st RMap) as [st1 ->].
    assert (G : forall s, ok_or_err (write_entries (e0 :: es0) s)).
    { revert H Hes. generalize (e0 :: es0). clear. intros l H Hes.
      induction l as [|[k x] r IHr]; intros s; [exact I|].
      inversion H as [|? ? [Hk Hx] Hr]; subst. cbn [forallb fst snd write_entries] in *.
      apply andb_true_iff in Hes. destruct Hes as [Hkx Har]. apply andb_true_iff in Hkx. destruct Hkx as [Hak Hax].
      specialize (Hk Hak s). destruct (write_data k s) as [s1| | |]; try contradiction; try exact I.
      specialize (Hx Hax s1). destruct (write_data x s1); try contradiction; try exact I. apply IHr; assumption. }
    specialize (G (map_prefix st1 ty)). destruct (write_entries (e0 :: es0) (map_prefix st1 ty)); try contradiction; exact I.
Qed.

(* C13: an unrepresentable part at ANY depth and position makes the encode call return an error:
   never success, never a panic *)
Theorem bad_kind_errors v : addr_free v = true -> contains_bad v = true -> forall st, is_err (write_data v st).
Proof.
  induction v using gval_ind'; cbn [addr_free contains_bad]; intros Ha Hb st; try discriminate; try exact I.
  - apply andb_true_iff in Ha. destruct Ha as [Ha0 Hfs]. replace a with 0 by lia.
    rewrite write_data_struct. destruct (check_ref_zero st RStruct) as [st1 ->].
    generalize (struct_prefix st1 ty fs). clear st st1.
    induction fs as [|[n x] r IHr]; intros s; [discriminate|].
    inversion H as [|? ? Hx Hr]; subst. cbn [forallb existsb snd write_fields] in *.
    apply andb_true_iff in Hfs. destruct Hfs as [Hax Har].
    pose proof (addr_free_ok_or_err x Hax s) as OE.
    destruct (contains_bad x) eqn:Bx.
    + specialize (Hx Hax eq_refl s). destruct (write_data x s); try contradiction; exact I.
    + cbn [orb] in Hb. destruct (write_data x s) as [s'| | |]; try contradiction; try exact I.
      apply IHr; assumption.
  - apply andb_true_iff in Ha. destruct Ha as [Ha0 Hl]. replace a with 0 by lia.
    rewrite write_data_slice. replace (if (length l =? 0)%nat then 0 else 0) with 0 by (destruct (length l =? 0)%nat; reflexivity).
    destruct (check_ref_zero st RSlice) as [st1 ->].
    generalize (list_header st1 ty (Z.of_nat (length l))). clear st st1.
    induction l as [|x r IHr]; intros s; [discriminate|].
    inversion H as [|? ? Hx Hr]; subst. cbn [forallb existsb write_items] in *.
    apply andb_true_iff in Hl. destruct Hl as [Hax Har].
    pose proof (addr_free_ok_or_err x Hax s) as OE.
    destruct (contains_bad x) eqn:Bx.
    + specialize (Hx Hax eq_refl s). destruct (write_data x s); try contradiction; exact I.
    + cbn [orb] in Hb. destruct (write_data x s) as [s'| | |]; try contradiction; try exact I.
      apply IHr; assumption.
  - apply andb_true_iff in Ha. destruct Ha as [Ha0 Hes]. replace a with 0 by lia.
    rewrite write_data_map. destruct es as [|e0 es0]; [discriminate|].
    destruct (check_ref_zero st RMap) as [st1 ->].
    assert (G : forall s, is_err (write_entries (e0 :: es0) s)).
    { revert H Hes Hb. generalize (e0 :: es0). clear. intros l H Hes Hb.
      induction l as [|[k x] r IHr]; intros s; [discriminate|].
      inversion H as [|? ? [Hk Hx] Hr]; subst. cbn [forallb existsb fst snd write_entries] in *.
      apply andb_true_iff in Hes. destruct Hes as [Hkx Har]. apply andb_true_iff in Hkx. destruct Hkx as [Hak Hax].
      pose proof (addr_free_ok_or_err k Hak s) as OEk.
      destruct (contains_bad k) eqn:Bk.
      { specialize (Hk Hak eq_refl s). destruct (write_data k s); try contradiction; exact I. }
      destruct (write_data k s) as [s1| | |]; try contradiction; try exact I.
      pose proof (addr_free_ok_or_err x Hax s1) as OEx.
      destruct (contains_bad x) eqn:Bx.
      { specialize (Hx Hax eq_refl s1). destruct (write_data x s1); try contradiction; exact I. }
      cbn [orb] in Hb. destruct (write_data x s1) as [s2| | |]; try contradiction; try exact I.
      apply IHr; assumption. }
    specialize (G (map_prefix st1 ty)). destruct (write_entries (e0 :: es0) (map_prefix st1 ty)); try contradiction; exact I.
Qed.

Corollary bad_kind_encode_errors nm v : addr_free v = true -> contains_bad v = true -> is_err (encode nm v).
Proof.
  intros Ha Hb. unfold encode. pose proof (bad_kind_errors v Ha Hb (estate0 nm)) as E.
  destruct (write_data v (estate0 nm)); try contradiction; exact I.
Qed.

Example bad_kind_nonvacuous :
  let v := VStruct 0 [79] [([65], VInt KInt32 1); ([66], VSlice 0 [91] [VStr [104]; VMap 0 [] [(VStr [107], VBad)]])] in
  addr_free v = true /\ contains_bad v = true /\ encode [] v = Err ECodec.
Proof. cbv zeta. repeat split; vm_compute; reflexivity. Qed.

(* ================= C15: a failing writer ================= *)
(* the destination writer answers the k-th Write call (0-based) with the number of bytes it took
   and whether it reported an error *)
Definition writer_model := nat -> bytes -> (nat * bool).
(* encoder.go stickyWriter: after the first failure (an error, or a short count) every later
   write is refused; WriteObject returns the remembered failure *)
Fixpoint sticky_run (w : writer_model) (k : nat) (writes : list bytes) : bool (* failed? *) :=
  match writes with
  | [] => false
  | x :: r => let '(n, e) := w k x in
              if e || (n <? length x)%nat then true else sticky_run w (S k) r
  end.
Definition write_fails (w : writer_model) (k : nat) (x : bytes) : Prop :=
  snd (w k x) = true \/ (fst (w k x) < length x)%nat.

Theorem fault_surfaces w writes k x :
  nth_error writes k = Some x -> write_fails w k x -> sticky_run w 0 writes = true.
Proof.
  assert (G : forall writes k base, nth_error writes k = Some x -> write_fails w (base + k) x -> sticky_run w base writes = true).
  { clear. induction writes as [|y r IH]; intros k base Hn Hf; [destruct k; discriminate|].
    cbn [sticky_run]. destruct k as [|k'].
    - cbn in Hn. inversion Hn; subst y. rewrite Nat.add_0_r in Hf. unfold write_fails in Hf.
      destruct (w base x) as [n e]. cbn [fst snd] in Hf. destruct Hf as [->|Hlt]; [reflexivity|].
      apply Nat.ltb_lt in Hlt. rewrite Hlt. rewrite orb_true_r. reflexivity.
    - destruct (w base y) as [n e]. destruct (e || (n <? length y)%nat); [reflexivity|].
      apply (IH k' (S base)); [exact Hn|]. replace (S base + k')%nat with (base + S k')%nat by lia. exact Hf. }
  intros Hn Hf. apply (G writes k 0%nat); assumption.
Qed.

(* encode against a writer: success only if no write failed *)
Definition encode_to (w : writer_model) (nm : namemap) (v : gval) : result unit :=
  match encode_writes nm v with
  | Ok ws => if sticky_run w 0 ws then Err ECodec else Ok tt
  | Err e => Err e | Panic => Panic | Fuel => Fuel
  end.
Corollary fault_surfaces_encode w nm v ws k x :
  encode_writes nm v = Ok ws -> nth_error ws k = Some x -> write_fails w k x -> encode_to w nm v = Err ECodec.
Proof. intros E Hn Hf. unfold encode_to. rewrite E, (fault_surfaces w ws k x Hn Hf). reflexivity. Qed.

Example fault_nonvacuous :
  let w : writer_model := fun k x => if (k =? 2)%nat then (0%nat, true) else (length x, false) in
  exists ws, encode_writes [] (VSlice 0 [91] [VInt KInt32 1; VStr [104]]) = Ok ws /\ length ws = 4%nat /\
  encode_to w [] (VSlice 0 [91] [VInt KInt32 1; VStr [104]]) = Err ECodec.
Proof. cbv zeta. eexists. split; [vm_compute; reflexivity|]. split; vm_compute; reflexivity. Qed.
