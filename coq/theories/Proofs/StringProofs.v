From Coq Require Import ZArith List Lia Bool.
From GH Require Import Base.GoSem Base.Result Base.Utf8 Gen.GoConsts Gen.GoLeaf Model.Scalars Model.Strings
  Proofs.IntProofs Proofs.Utf8Proofs Proofs.BinaryProofs.
Import ListNotations.
Open Scope Z_scope.
Ltac Zify.zify_post_hook ::= Z.div_mod_to_equations.
Arguments Z.add : simpl never. Arguments Z.sub : simpl never. Arguments Z.mul : simpl never.
Arguments Z.leb : simpl never. Arguments Z.eqb : simpl never. Arguments Z.ltb : simpl never.
Arguments Z.to_nat : simpl never. Arguments Z.of_nat : simpl never.

Ltac sconsts := unfold g_stringChunkSize, g_stringFinalChunk, g_stringChunk, g_stringShortLenMin,
                       g_stringShortLenMax, g_stringShortMaxLen, g_stringMiddleLenMin, g_stringMiddleLenMax,
                       g_stringMiddleMaxLen, g_nilTag in *.

Lemma str_short_tag n : 0 <= n <= 31 ->
  gstringShortTag n = true /\ gstringEndTag n = true /\ gstringTag n = true.
Proof.
  intros H. unfold gstringTag, gstringEndTag, gstringShortTag, gstringMiddleTag, gstringChunkTag. sconsts.
  replace ((0 <=? n) && (n <=? 31)) with true by lia. rewrite ?orb_true_r, ?orb_true_l. auto.
Qed.
Lemma str_middle_tag h : 0 <= h <= 3 ->
  gstringShortTag (h + 48) = false /\ gstringMiddleTag (h + 48) = true /\ gstringEndTag (h + 48) = true /\ gstringTag (h + 48) = true.
Proof.
  intros H. unfold gstringTag, gstringEndTag, gstringShortTag, gstringMiddleTag, gstringChunkTag. sconsts.
  replace ((0 <=? h + 48) && (h + 48 <=? 31)) with false by lia.
  replace ((48 <=? h + 48) && (h + 48 <=? 51)) with true by lia. rewrite ?orb_true_r, ?orb_true_l. auto.
Qed.

Definition str_decodes (enc : bytes) (rs acc : list Z) (rest : bytes) : Prop :=
  exists t tl len r3, enc = t :: tl /\ gstringTag t = true /\ t <> 78 /\
    get_string_len t (tl ++ rest) = Ok (len, r3) /\ (length rs <= length r3)%nat /\
    forall fuel2, (length rs < fuel2)%nat -> dec_str_loop fuel2 t len r3 acc = Ok (acc ++ rs, rest).

Lemma str_final_decodes rs acc rest : Forall valid_rune rs -> zlen rs <= 2048 ->
  str_decodes (enc_str_final rs) rs acc rest.
Proof.
  intros Hv Hn. unfold str_decodes, enc_str_final. cbv zeta. sconsts.
  pose proof (Zle_0_nat (length rs)) as Hp. fold (zlen rs) in Hp.
  pose proof (utf8_encs_length rs) as Hul.
  destruct (zlen rs <=? 31) eqn:E.
  - rewrite wrap8_id by lia. replace (0 + zlen rs) with (zlen rs) by lia.
    destruct (str_short_tag (zlen rs) ltac:(lia)) as (S1 & S2 & S3).
    exists (zlen rs), (utf8_encs rs), (zlen rs), (utf8_encs rs ++ rest).
    split; [reflexivity|]. split; [exact S3|]. split; [lia|].
    split; [unfold get_string_len; rewrite S1; sconsts; cbn [bind]; rewrite wrap8_id by lia; do 2 f_equal; lia|].
    split; [rewrite app_length; lia|].
    intros fuel2 Hf. destruct fuel2 as [|f2]; [lia|].
    cbn [dec_str_loop]. rewrite zlen_nat, read_runes_app by exact Hv. rewrite S2. reflexivity.
  - destruct (zlen rs <=? 1023) eqn:E2.
    + rewrite shr8.
      assert (Hh : 0 <= zlen rs / 256 <= 3) by lia.
      rewrite (wrap8_id (zlen rs / 256 + 48)) by lia.
      destruct (str_middle_tag (zlen rs / 256) Hh) as (M0 & M1 & M2 & M3).
      exists (zlen rs / 256 + 48), (wrap 8 (zlen rs) :: utf8_encs rs), (zlen rs), (utf8_encs rs ++ rest).
      split; [reflexivity|]. split; [exact M3|]. split; [lia|].
      split.
      { unfold get_string_len. rewrite M0, M1. sconsts. cbn [app]. rewrite read_full_app1. cbn [bind].
        unfold be_val. cbn [fold_left]. rewrite !wrap8_mod. do 2 f_equal. lia. }
      split; [rewrite app_length; lia|].
      intros fuel2 Hf. destruct fuel2 as [|f2]; [lia|].
      cbn [dec_str_loop]. rewrite zlen_nat, read_runes_app by exact Hv. rewrite M2. reflexivity.
    + exists 83, (wrap 8 (Z.shiftr (zlen rs) 8) :: wrap 8 (zlen rs) :: utf8_encs rs), (zlen rs), (utf8_encs rs ++ rest).
      split; [reflexivity|]. split; [reflexivity|]. split; [lia|].
      split.
      { unfold get_string_len. change (gstringShortTag 83) with false. change (gstringMiddleTag 83) with false.
        change (gstringChunkTag 83) with true. cbv iota. cbn [app]. rewrite read_full_app2. cbn [bind].
        rewrite be2_val by lia. reflexivity. }
      split; [rewrite app_length; lia|].
      intros fuel2 Hf. destruct fuel2 as [|f2]; [lia|].
      cbn [dec_str_loop]. rewrite zlen_nat, read_runes_app by exact Hv. change (gstringEndTag 83) with true. reflexivity.
Qed.

Lemma get_string_len_shrinks t r len r3 : get_string_len t r = Ok (len, r3) -> (length r3 <= length r)%nat.
Proof.
  unfold get_string_len. destruct (gstringShortTag t); [intros E; inversion E; subst; lia|].
  destruct (gstringMiddleTag t).
  { destruct r as [|a l]; cbn; [discriminate|]. intros E; inversion E; subst. lia. }
  destruct (gstringChunkTag t); [|discriminate].
  destruct r as [|a [|b l]]; cbn; try discriminate. intros E; inversion E; subst. cbn [length]. lia.
Qed.

Lemma str_chunks_decode : forall fuel rs acc rest, Forall valid_rune rs ->
  (length rs <= fuel)%nat -> str_decodes (enc_str_chunks fuel rs) rs acc rest.
Proof.
  induction fuel as [|f IH]; intros rs acc rest Hv Hl.
  - cbn [enc_str_chunks]. apply str_final_decodes; [exact Hv|unfold zlen; lia].
  - cbn [enc_str_chunks]. sconsts.
    destruct (2048 <? zlen rs) eqn:E; [|apply str_final_decodes; [exact Hv|lia]].
    assert (Hlen : (Z.to_nat 2048 <= length rs)%nat) by (unfold zlen in E; lia).
    set (K := Z.to_nat 2048) in *.
    assert (Hfl : length (firstn K rs) = K) by (apply firstn_length_le; exact Hlen).
    assert (Hsl : length (skipn K rs) = (length rs - K)%nat) by apply skipn_length.
    assert (HK : (1 <= K)%nat) by (unfold K; lia).
    assert (Hv1 : Forall valid_rune (firstn K rs)).
    { rewrite <- (firstn_skipn K rs) in Hv. apply Forall_app in Hv. apply Hv. }
    assert (Hv2 : Forall valid_rune (skipn K rs)).
    { rewrite <- (firstn_skipn K rs) in Hv. apply Forall_app in Hv. apply Hv. }
    destruct (IH (skipn K rs) (acc ++ firstn K rs) rest Hv2 ltac:(lia))
      as (t' & tl' & len' & r3' & E1 & T1 & _ & G1 & L1 & D1).
    unfold str_decodes.
    exists 82, (wrap 8 (Z.shiftr 2048 8) :: wrap 8 2048 :: utf8_encs (firstn K rs) ++ enc_str_chunks f (skipn K rs)),
           2048, (utf8_encs (firstn K rs) ++ enc_str_chunks f (skipn K rs) ++ rest).
    split; [reflexivity|]. split; [reflexivity|]. split; [lia|].
    split.
    { unfold get_string_len. change (gstringShortTag 82) with false. change (gstringMiddleTag 82) with false.
      change (gstringChunkTag 82) with true. cbv iota.
      change (wrap 8 (Z.shiftr 2048 8)) with 8. change (wrap 8 2048) with 0.
      cbn [app]. rewrite read_full_app2. cbn [bind]. change (be_val [8; 0]) with 2048.
      rewrite <- app_assoc. reflexivity. }
    split.
    { rewrite !app_length, E1. cbn [length].
      pose proof (utf8_encs_length (firstn K rs)). pose proof (get_string_len_shrinks _ _ _ _ G1) as Sh.
      rewrite app_length in *. lia. }
    intros fuel2 Hf. destruct fuel2 as [|f2]; [lia|].
    cbn [dec_str_loop]. fold K.
    rewrite <- Hfl at 1. rewrite read_runes_app by exact Hv1.
    change (gstringEndTag 82) with false. cbv iota.
    rewrite E1. cbn [app]. rewrite T1, G1. cbn [bind].
    rewrite D1 by lia. rewrite <- app_assoc, firstn_skipn. reflexivity.
Qed.

(* every valid string of any length: exact content back, exact framing *)
Theorem string_roundtrip rs rest : Forall valid_rune rs -> decode_string (encode_string rs ++ rest) = Ok (rs, rest).
Proof.
  intros Hv. destruct rs as [|r rs'] eqn:Ers.
  - cbn [encode_string app decode_string read_tag bind]. unfold decode_string_tag. sconsts.
    change (0 =? 78) with false. cbv iota. unfold get_string_len.
    change (gstringShortTag 0) with true. cbv iota. cbn [bind].
    change (Datatypes.length rest) with (length rest). cbn [dec_str_loop].
    change (Z.to_nat (wrap 8 (0 - 0))) with O. cbn [read_runes app].
    change (gstringEndTag 0) with true. reflexivity.
  - rewrite <- Ers in *.
    replace (encode_string rs) with (enc_str_chunks (length rs) rs) by (subst rs; reflexivity).
    destruct (str_chunks_decode (length rs) rs [] rest Hv ltac:(lia)) as (t & tl & len & r3 & E1 & T1 & N1 & G1 & L1 & D1).
    rewrite E1. cbn [app decode_string read_tag bind]. unfold decode_string_tag. sconsts.
    replace (t =? 78) with false by lia.
    rewrite G1. cbn [bind]. apply D1. lia.
Qed.

(* shape of the output: a sequence of chunks, each a header whose length field counts code
   points followed by the UTF-8 of exactly that many whole code points *)
Inductive str_chunked : list Z -> bytes -> Prop :=
| sc_short rs : zlen rs <= 31 -> str_chunked rs (zlen rs :: utf8_encs rs)
| sc_middle rs : 31 < zlen rs <= 1023 -> str_chunked rs (48 + zlen rs / 256 :: zlen rs mod 256 :: utf8_encs rs)
| sc_final rs : 1023 < zlen rs <= 65535 -> str_chunked rs (83 :: zlen rs / 256 :: zlen rs mod 256 :: utf8_encs rs)
| sc_chunk rs1 rs2 bs : 0 < zlen rs1 <= 65535 -> str_chunked rs2 bs ->
    str_chunked (rs1 ++ rs2) (82 :: zlen rs1 / 256 :: zlen rs1 mod 256 :: utf8_encs rs1 ++ bs).

Lemma str_final_chunked rs : zlen rs <= 2048 -> str_chunked rs (enc_str_final rs).
Proof.
  intros Hn. unfold enc_str_final. cbv zeta. sconsts.
  pose proof (Zle_0_nat (length rs)) as Hp. fold (zlen rs) in Hp.
  destruct (zlen rs <=? 31) eqn:E1.
  - rewrite wrap8_id by lia. replace (0 + zlen rs) with (zlen rs) by lia. apply sc_short. lia.
  - destruct (zlen rs <=? 1023) eqn:E2.
    + rewrite shr8, !wrap8_mod. replace ((zlen rs / 256 + 48) mod 256) with (48 + zlen rs / 256) by lia.
      apply sc_middle. lia.
    + rewrite shr8, !wrap8_mod. replace ((zlen rs / 256) mod 256) with (zlen rs / 256) by lia.
      apply sc_final. lia.
Qed.

Lemma str_chunks_chunked : forall fuel rs, (length rs <= fuel)%nat -> str_chunked rs (enc_str_chunks fuel rs).
Proof.
  induction fuel as [|f IH]; intros rs Hl; cbn [enc_str_chunks]; sconsts.
  - apply str_final_chunked. unfold zlen. lia.
  - destruct (2048 <? zlen rs) eqn:E; [|apply str_final_chunked; lia].
    assert (Hlen : (Z.to_nat 2048 <= length rs)%nat) by (unfold zlen in E; lia).
    set (K := Z.to_nat 2048) in *.
    assert (Hfl : zlen (firstn K rs) = 2048) by (unfold zlen; rewrite firstn_length_le by exact Hlen; unfold K; lia).
    assert (Hsl : length (skipn K rs) = (length rs - K)%nat) by apply skipn_length.
    assert (HK : (1 <= K)%nat) by (unfold K; lia).
    rewrite <- (firstn_skipn K rs) at 1.
    change (wrap 8 (Z.shiftr 2048 8)) with (2048 / 256). change (wrap 8 2048) with (2048 mod 256).
    rewrite <- Hfl. apply sc_chunk; [lia|]. apply IH. lia.
Qed.

Theorem string_chunks_whole_runes rs : str_chunked rs (encode_string rs).
Proof.
  destruct rs as [|r rs'] eqn:Ers; [apply (sc_short []); unfold zlen; cbn; lia|]. rewrite <- Ers.
  replace (encode_string rs) with (enc_str_chunks (length rs) rs) by (subst rs; reflexivity).
  apply str_chunks_chunked. lia.
Qed.

Theorem string_bytes_ok rs : bytes_ok (encode_string rs).
Proof.
  assert (U : forall rs, bytes_ok (utf8_encs rs)).
  { induction rs0 as [|r rs0 IH]; [constructor|]. cbn [utf8_encs flat_map]. apply Forall_app. split; [apply utf8_enc_bytes_ok|exact IH]. }
  assert (Final : forall rs, bytes_ok (enc_str_final rs)).
  { intros rs0. unfold enc_str_final. cbv zeta.
    destruct (zlen rs0 <=? g_stringShortMaxLen); [|destruct (zlen rs0 <=? g_stringMiddleMaxLen)];
    repeat (constructor; [try apply wrap8_range; sconsts; lia|]); apply U. }
  destruct rs as [|r rs'] eqn:Ers; [repeat constructor; sconsts; lia|]. rewrite <- Ers.
  replace (encode_string rs) with (enc_str_chunks (length rs) rs) by (subst rs; reflexivity).
  clear Ers. generalize (length rs) at 1. intros fuel. revert rs.
  induction fuel as [|f IH]; intros rs; cbn [enc_str_chunks]; [apply Final|].
  destruct (g_stringChunkSize <? zlen rs); [|apply Final].
  repeat (constructor; [try apply wrap8_range; sconsts; lia|]).
  apply Forall_app. split; [apply U|apply IH].
Qed.

Example string_nonvacuous :
  Forall valid_rune [104; 233; 20013; 128512] /\ encode_string [104; 233; 20013; 128512] = [4; 104; 195; 169; 228; 184; 173; 240; 159; 152; 128].
Proof. split; [repeat constructor; unfold valid_rune; lia|vm_compute; reflexivity]. Qed.
