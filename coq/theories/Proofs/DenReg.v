(* What a timestamp-free Go value denotes is a regular abstract value (no timestamp in it), so
   the hypothesis `reg hv` of the C03 converse can be stated on the Go value. *)
From Coq Require Import ZArith List Lia Bool.
From GH Require Import Base.GoSem Base.Result Base.FloatBits Base.TimeSem Base.Utf8 Gen.GoConsts Gen.GoLeaf
  Model.Scalars Model.Strings Spec.Grammar Model.Encoder Proofs.EncoderFacts Proofs.EncSpec Proofs.DecRefinesConv.
Import ListNotations.
Open Scope Z_scope.

(* no timestamp other than the zero time (which travels as null) *)
Inductive notime : gval -> Prop :=
| nt_nil : notime VNil | nt_bool b : notime (VBool b) | nt_int k z : notime (VInt k z)
| nt_f32 b : notime (VF32 b) | nt_f64 b : notime (VF64 b) | nt_str rs : notime (VStr rs)
| nt_bytes bs : notime (VBytes bs)
| nt_time0 s n : time_is_zero s n = true -> notime (VTime s n)
| nt_seen k a : notime (VSeen k a)
| nt_struct a ty fs : Forall (fun f => notime (snd f)) fs -> notime (VStruct a ty fs)
| nt_slice a ty l : Forall notime l -> notime (VSlice a ty l)
| nt_map a ty es : Forall (fun e => notime (fst e) /\ notime (snd e)) es -> notime (VMap a ty es).

Scheme den_mind := Induction for den Sort Prop
  with den_list_mind := Induction for den_list Sort Prop
  with den_entries_mind := Induction for den_entries Sort Prop.

Lemma Forall_combine_r {A B} (P : B -> Prop) : forall (l : list A) (m : list B), Forall P m -> Forall (fun p => P (snd p)) (combine l m).
Proof. induction l as [|x l IH]; intros [|y m] H; cbn; constructor; inversion H; subst; auto. Qed.

Theorem den_reg nm F : forall refs v hv refs', den nm F refs v hv refs' -> notime v -> reg hv.
Proof.
  apply (den_mind nm F
    (fun refs v hv refs' (_ : den nm F refs v hv refs') => notime v -> reg hv)
    (fun refs l hs refs' (_ : den_list nm F refs l hs refs') => Forall notime l -> Forall reg hs)
    (fun refs l hes refs' (_ : den_entries nm F refs l hes refs') =>
       Forall (fun e => notime (fst e) /\ notime (snd e)) l -> Forall (fun e => reg (fst e) /\ reg (snd e)) hes));
    intros; try (constructor; fail).
  - (* a time that is not zero *) match goal with N : notime (VTime _ _) |- _ => inversion N; subst; congruence end.
  - (* struct *) match goal with N : notime (VStruct _ _ _) |- _ => inversion N; subst end. constructor. apply Forall_combine_r.
    match goal with IH : Forall notime _ -> Forall reg _ |- _ => apply IH end.
    match goal with A : Forall (fun f => notime (snd f)) fs |- _ => clear - A; induction A; cbn; constructor; auto end.
  - (* slice *) match goal with N : notime (VSlice _ _ _) |- _ => inversion N; subst end. constructor. auto.
  - (* map *) match goal with N : notime (VMap _ _ _) |- _ => inversion N; subst end. constructor. auto.
  - (* list cons *) match goal with N : Forall notime (_ :: _) |- _ => inversion N; subst end. constructor; auto.
  - (* entries cons *) match goal with N : Forall _ (_ :: _) |- _ => inversion N as [|? ? [Nk Nx] Nr]; subst end. constructor; [split|]; auto.
Qed.
