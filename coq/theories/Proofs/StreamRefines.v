(* C06 / C03 for streams of ANY values: n values that the reference grammar reads one after the
   other from a byte string (its type and class tables persisting from value to value) are read
   one after the other by one decoder (read_n: n calls of ReadObject on one Decoder), each call
   returning a meaning of its value and consuming exactly its bytes; and conversely every
   successful sequence of n reads returns meanings of the n values. *)
From Coq Require Import ZArith List Lia Bool.
From GH Require Import Base.GoSem Base.Result Base.FloatBits Base.TimeSem Base.Utf8 Gen.GoConsts Gen.GoLeaf
  Model.Scalars Model.Strings Spec.Grammar Model.Encoder Model.Decoder
  Proofs.SpecDispatch Proofs.DecoderFacts Proofs.RoundTrip Proofs.DecRefines Proofs.DecRefinesConv.
Import ListNotations.
Open Scope Z_scope.

Section Streams.
  Variables (te : tenv) (tm : typmap) (f0 : nat).

  Theorem stream_refines : forall f n st bs vs rest st' h items h',
    hparse_n f0 f n st bs = Ok (vs, rest, st') -> bytes_ok bs -> sn te tm TIface vs h items h' ->
    forall g, (2 * f <= g)%nat -> read_n te tm g n (dst_of st h) bs = Ok (items, rest, dst_of st' h').
  Proof.
    induction f as [|f IH]; intros n st bs vs rest st' h items h' P B S g Hg; [discriminate P|].
    rewrite hparse_n_S in P. destruct n as [|n]; cbn [pn_step read_n] in *.
    - inversion P; subst. inversion S; subst. reflexivity.
    - brk P. inversion P; subst. inversion S; subst.
      match goal with A : conv _ TIface _ _ = Ok _ |- _ => cbn in A; inversion A; subst end.
      match goal with A : hparse_v _ _ _ _ = Ok _, Sv : sv _ _ _ h _ _ |- _ =>
        pose proof (refines_from_any_state te tm f0 _ _ _ _ _ _ _ _ _ A B Sv g ltac:(lia)) as D0 end.
      rewrite D0. cbn [bind].
      destruct (rd_rest_ok _ _ _ _ _ _ _ _ B D0) as [B1 _].
      match goal with A : hparse_n _ _ _ _ _ = Ok _, Sn : sn _ _ _ _ _ _ h' |- _ =>
        rewrite (IH _ _ _ _ _ _ _ _ _ A B1 Sn g ltac:(lia)) end.
      reflexivity.
  Qed.

  Theorem stream_success_is_meaning : forall f n st bs vs rest st' h g items rest2 dst2,
    hparse_n f0 f n st bs = Ok (vs, rest, st') -> bytes_ok bs -> Forall reg vs ->
    read_n te tm g n (dst_of st h) bs = Ok (items, rest2, dst2) ->
    exists h', sn te tm TIface vs h items h' /\ rest2 = rest /\ dst2 = dst_of st' h'.
  Proof.
    induction f as [|f IH]; intros n st bs vs rest st' h g items rest2 dst2 P B Rg D; [discriminate P|].
    rewrite hparse_n_S in P. destruct n as [|n]; cbn [pn_step read_n] in *.
    - inversion P; subst. inversion D; subst. exists h. split; [constructor|]. split; reflexivity.
    - brk P. inversion P; subst. inversion Rg; subst. dbrk D. cbn [bind] in D.
      match goal with A : hparse_v _ _ _ _ = Ok (?v, _, _), A' : R_rd _ _ _ = Ok _, Rv : reg ?v |- _ =>
        destruct (success_is_meaning_from_any_state te tm f0 _ _ _ _ _ _ _ _ _ _ _ A B Rv A') as (hp1 & S1 & -> & ->);
        destruct (rd_rest_ok _ _ _ _ _ _ _ _ B A') as [B1 _] end.
      dbrk D. cbn [bind] in D. inversion D; subst.
      match goal with A : hparse_n _ _ _ _ _ = Ok (?l, _, _), A' : read_n _ _ _ _ _ _ = Ok _, Rl : Forall reg ?l |- _ =>
        destruct (IH _ _ _ _ _ _ _ _ _ _ _ A B1 Rl A') as (hp2 & S2 & -> & ->) end.
      exists hp2. split; [econstructor; [exact S1|reflexivity|exact S2]|]. split; reflexivity.
  Qed.
End Streams.
