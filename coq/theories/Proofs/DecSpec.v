(* The scalar decoders against the reference parser (C03, scalar part): for EVERY form the
   grammar allows - compact or full-width numbers, any chunking of a string or byte array - the
   decoder reads what the reference parser reads, consuming the same bytes. *)
From Coq Require Import ZArith List Lia Bool.
From GH Require Import Base.GoSem Base.Result Base.FloatBits Base.TimeSem Base.Utf8 Gen.GoConsts Gen.GoLeaf
  Model.Scalars Model.Strings Spec.Grammar
  Proofs.IntProofs Proofs.LongProofs Proofs.DateProofs Proofs.FloatFacts Proofs.DoubleProofs Proofs.Utf8Proofs Proofs.BinaryProofs Proofs.StringProofs Proofs.SpecScalars.
Import ListNotations.
Open Scope Z_scope.
Ltac Zify.zify_post_hook ::= Z.div_mod_to_equations.
Arguments Z.add : simpl never. Arguments Z.sub : simpl never. Arguments Z.mul : simpl never.
Arguments Z.leb : simpl never. Arguments Z.eqb : simpl never. Arguments Z.ltb : simpl never.
Arguments Z.to_nat : simpl never. Arguments Z.of_nat : simpl never. Arguments Z.pow : simpl never.

(* the tag predicates translated from the Go source agree with the grammar's byte-code map on
   all 256 tags, in the order ReadData tests them (decided by computation over the whole domain) *)
Inductive cls := CNull | CTrue | CFalse | CInt | CLong | CDouble | CString | CBinary | CDate | CObj | CTList | CUList
               | CRef | CMapT | CMapU | CDef | CObjL | CEnd | COther.
Definition spec_cls (t : Z) : cls :=
  if t =? 78 then CNull else if t =? 84 then CTrue else if t =? 70 then CFalse
  else if is_int_tag t then CInt else if is_long_tag t then CLong else if is_double_tag t then CDouble
  else if is_date_tag t then CDate else if is_string_tag t then CString else if is_binary_tag t then CBinary
  else if t =? 81 then CRef else if (t =? 85) || (t =? 86) || rng 112 119 t then CTList
  else if (t =? 87) || (t =? 88) || rng 120 127 t then CUList
  else if t =? 77 then CMapT else if t =? 72 then CMapU else if t =? 67 then CDef
  else if t =? 79 then CObjL else if rng 96 111 t then CObj else if t =? 90 then CEnd else COther.
Definition go_cls (t : Z) : cls :=
  if t =? g_endFlag then CEnd else if t =? g_nilTag then CNull else if t =? g_boolTrueTag then CTrue else if t =? g_boolFalseTag then CFalse
  else if gintTag t then CInt else if glongTag t then CLong else if gdoubleTag t then CDouble
  else if gstringTag t then CString else if gdateTag t then CDate else if gbinaryTag t then CBinary
  else if grefTag t then CRef else if t =? g_mapTypedTag then CMapT else if t =? g_mapUntypedTag then CMapU
  else if t =? g_objectDefTag then CDef else if gobjectLenTag t then CObj else if t =? g_objectTag then CObjL
  else if gtypedListTag t then CTList else if guntypedListTag t then CUList else COther.
Definition cls_eqb (a b : cls) : bool :=
  match a, b with
  | CNull,CNull|CTrue,CTrue|CFalse,CFalse|CInt,CInt|CLong,CLong|CDouble,CDouble|CString,CString|CBinary,CBinary|CDate,CDate
  | CObj,CObj|CTList,CTList|CUList,CUList|CRef,CRef|CMapT,CMapT|CMapU,CMapU|CDef,CDef|CObjL,CObjL|CEnd,CEnd|COther,COther => true
  | _,_ => false end.
Lemma cls_eqb_eq a b : cls_eqb a b = true -> a = b.
Proof. destruct a, b; cbn; congruence. Qed.

Theorem tag_dispatch_agrees t : 0 <= t < 256 -> go_cls t = spec_cls t.
Proof.
  intros H. apply cls_eqb_eq.
  apply (byte_forall (fun t => cls_eqb (go_cls t) (spec_cls t))); [vm_compute; reflexivity|exact H].
Qed.

(* string/binary tag predicates, for the chunk loops *)
Lemma string_tags t : 0 <= t < 256 ->
  gstringTag t = is_string_tag t /\ gstringEndTag t = (is_string_tag t && negb (t =? 82)) /\
  gstringShortTag t = rng 0 31 t /\ gstringMiddleTag t = rng 48 51 t /\ gstringChunkTag t = ((t =? 83) || (t =? 82)).
Proof.
  intros H.
  assert (F : forallb (fun t => Bool.eqb (gstringTag t) (is_string_tag t) && Bool.eqb (gstringEndTag t) (is_string_tag t && negb (t =? 82))
                        && Bool.eqb (gstringShortTag t) (rng 0 31 t) && Bool.eqb (gstringMiddleTag t) (rng 48 51 t)
                        && Bool.eqb (gstringChunkTag t) ((t =? 83) || (t =? 82))) all_bytes = true) by (vm_compute; reflexivity).
  pose proof (byte_forall _ F t H) as G. rewrite !andb_true_iff in G. destruct G as [[[[A B] C] D] E].
  repeat split; apply eqb_prop; assumption.
Qed.
Lemma binary_tags t : 0 <= t < 256 ->
  gbinaryTag t = is_binary_tag t /\ gbinaryEndTag t = (is_binary_tag t && negb (t =? 65)) /\
  gbinaryShortTag t = rng 32 47 t /\ gbinaryMiddleTag t = rng 52 55 t.
Proof.
  intros H.
  assert (F : forallb (fun t => Bool.eqb (gbinaryTag t) (is_binary_tag t) && Bool.eqb (gbinaryEndTag t) (is_binary_tag t && negb (t =? 65))
                        && Bool.eqb (gbinaryShortTag t) (rng 32 47 t) && Bool.eqb (gbinaryMiddleTag t) (rng 52 55 t)) all_bytes = true) by (vm_compute; reflexivity).
  pose proof (byte_forall _ F t H) as G. rewrite !andb_true_iff in G. destruct G as [[[A B] C] D].
  repeat split; apply eqb_prop; assumption.
Qed.

(* take_n / need vs read_full *)
Lemma read_full_cons n c r0 : read_full (S n) (c :: r0) = match take_n (S n) (c :: r0) with Some p => Ok p | None => Err EUnexpEof end.
Proof. reflexivity. Qed.
Lemma need_read_full n r x r' : need n r = Ok (x, r') -> read_full n r = Ok (x, r').
Proof.
  unfold need. destruct (take_n n r) as [[a b]|] eqn:E; [|discriminate]. intros H; inversion H; subst.
  destruct n as [|n']; [cbn in E; inversion E; reflexivity|]. destruct r as [|c r0]; [cbn in E; discriminate|].
  rewrite read_full_cons, E. reflexivity.
Qed.
Lemma take_n_length n : forall r x r', take_n n r = Some (x, r') -> length x = n /\ r = x ++ r'.
Proof.
  induction n as [|n IH]; intros r x r' H; cbn in H; [inversion H; subst; split; reflexivity|].
  destruct r as [|c r0]; [discriminate|]. destruct (take_n n r0) as [[a b]|] eqn:E; [|discriminate]. inversion H; subst.
  destruct (IH _ _ _ E) as [L A]. split; [cbn; lia|cbn; rewrite <- A; reflexivity].
Qed.

(* ---------------- int: every form of the grammar ---------------- *)
Theorem decode_int_follows_spec t r v r' :
  0 <= t < 256 -> bytes_ok r -> parse_int t r = Ok (v, r') -> decode_int_tag t r = Ok (v, r').
Proof.
  intros Ht Hr. unfold parse_int, decode_int_tag, between, rng. iconsts.
  destruct ((128 <=? t) && (t <=? 191)) eqn:E1.
  { intros H; inversion H; subst. rewrite swrap8_def, wrap8_mod. do 2 f_equal. lia. }
  destruct ((192 <=? t) && (t <=? 207)) eqn:E2.
  { destruct (need 1 r) as [[x rr]| | |] eqn:N; cbn [bind]; try discriminate. intros H; inversion H; subst.
    rewrite (need_read_full _ _ _ _ N). cbn [bind].
    unfold need in N. destruct r as [|b0 r0]; [discriminate|]. cbn in N. inversion N; subst.
    inversion Hr; subst. unfold be_val. cbn [fold_left]. rewrite swrap16_def, wrap8_mod. do 2 f_equal. lia. }
  destruct ((208 <=? t) && (t <=? 215)) eqn:E3.
  { destruct (need 2 r) as [[x rr]| | |] eqn:N; cbn [bind]; try discriminate. intros H; inversion H; subst.
    rewrite (need_read_full _ _ _ _ N). cbn [bind].
    unfold need in N. destruct r as [|b1 [|b0 r0]]; try discriminate. cbn in N. inversion N; subst.
    inversion Hr as [|? ? Hb1 Hr1]; subst. inversion Hr1 as [|? ? Hb0 _]; subst.
    cbv zeta. rewrite wrap8_mod. rewrite land8 by lia. unfold be_val. cbn [fold_left]. rewrite swrap32_def. do 2 f_equal.
    destruct (8 <=? ((t - 212) mod 256) mod 16) eqn:E4; lia. }
  destruct (t =? 73) eqn:E4; [|discriminate].
  destruct (need 4 r) as [[x rr]| | |] eqn:N; cbn [bind]; try discriminate. intros H; inversion H; subst.
  rewrite (need_read_full _ _ _ _ N). cbn [bind].
  unfold need in N. destruct r as [|b3 [|b2 [|b1 [|b0 r0]]]]; try discriminate. cbn in N. inversion N; subst.
  inversion Hr as [|? ? H3 Hr1]; subst. inversion Hr1 as [|? ? H2 Hr2]; subst. inversion Hr2 as [|? ? H1 Hr3]; subst. inversion Hr3 as [|? ? H0 _]; subst.
  unfold sbe, be_val. cbn [fold_left]. change (2 ^ (8 * 4 - 1)) with 2147483648. change (2 ^ (8 * 4)) with 4294967296.
  rewrite swrap32_def. do 2 f_equal. destruct (_ <? 2147483648) eqn:E5; lia.
Qed.

(* ---------------- long ---------------- *)
Lemma be_val8_range bs : bytes_ok bs -> length bs = 8%nat -> 0 <= be_val bs < 18446744073709551616.
Proof.
  intros H L. destruct bs as [|a [|b [|c [|d [|e [|f [|g [|h [|]]]]]]]]]; try discriminate.
  inversion H as [|? ? Ha H1]; subst. inversion H1 as [|? ? Hb H2]; subst. inversion H2 as [|? ? Hc H3]; subst.
  inversion H3 as [|? ? Hd H4]; subst. inversion H4 as [|? ? He H5]; subst. inversion H5 as [|? ? Hf H6]; subst.
  inversion H6 as [|? ? Hg H7]; subst. inversion H7 as [|? ? Hh _]; subst.
  unfold be_val. cbn [fold_left]. lia.
Qed.

Theorem decode_long_follows_spec t r v r' :
  0 <= t < 256 -> bytes_ok r -> parse_long t r = Ok (v, r') -> decode_long_tag t r = Ok (v, r').
Proof.
  intros Ht Hr. unfold parse_long, decode_long_tag, between, rng. lconsts.
  destruct ((216 <=? t) && (t <=? 239)) eqn:E1.
  { intros H; inversion H; subst. rewrite swrap8_def, wrap8_mod. do 2 f_equal. lia. }
  destruct ((240 <=? t) && (t <=? 255)) eqn:E2.
  { destruct (need 1 r) as [[x rr]| | |] eqn:N; cbn [bind]; try discriminate. intros H; inversion H; subst.
    rewrite (need_read_full _ _ _ _ N). cbn [bind].
    unfold need in N. destruct r as [|b0 r0]; [discriminate|]. cbn in N. inversion N; subst.
    inversion Hr; subst. unfold be_val. cbn [fold_left]. rewrite swrap16_def, wrap8_mod. do 2 f_equal. lia. }
  destruct ((56 <=? t) && (t <=? 63)) eqn:E3.
  { destruct (need 2 r) as [[x rr]| | |] eqn:N; cbn [bind]; try discriminate. intros H; inversion H; subst.
    rewrite (need_read_full _ _ _ _ N). cbn [bind].
    unfold need in N. destruct r as [|b1 [|b0 r0]]; try discriminate. cbn in N. inversion N; subst.
    inversion Hr as [|? ? Hb1 Hr1]; subst. inversion Hr1 as [|? ? Hb0 _]; subst.
    cbv zeta. rewrite wrap8_mod. rewrite land128 by lia. unfold be_val. cbn [fold_left]. rewrite swrap32_def. do 2 f_equal.
    destruct (128 <=? (t - 60) mod 256) eqn:E4; lia. }
  destruct (t =? 89) eqn:E4.
  { destruct (need 4 r) as [[x rr]| | |] eqn:N; cbn [bind]; try discriminate. intros H; inversion H; subst.
    rewrite (need_read_full _ _ _ _ N). cbn [bind].
    unfold need in N. destruct r as [|b3 [|b2 [|b1 [|b0 r0]]]]; try discriminate. cbn in N. inversion N; subst.
    inversion Hr as [|? ? H3 Hr1]; subst. inversion Hr1 as [|? ? H2 Hr2]; subst. inversion Hr2 as [|? ? H1 Hr3]; subst. inversion Hr3 as [|? ? H0 _]; subst.
    unfold sbe, be_val. cbn [fold_left]. change (2 ^ (8 * 4 - 1)) with 2147483648. change (2 ^ (8 * 4)) with 4294967296.
    rewrite swrap32_def. do 2 f_equal. destruct (_ <? 2147483648) eqn:E5; lia. }
  destruct (t =? 76) eqn:E5; [|discriminate].
  destruct (need 8 r) as [[x rr]| | |] eqn:N; cbn [bind]; try discriminate. intros H; inversion H; subst.
  rewrite (need_read_full _ _ _ _ N). cbn [bind].
  unfold need in N. destruct (take_n 8 r) as [[x0 r0]|] eqn:T; [|discriminate]. inversion N; subst.
  destruct (take_n_length _ _ _ _ T) as [L A]. subst r.
  assert (Hx : bytes_ok x) by (unfold bytes_ok in *; apply Forall_app in Hr; apply Hr).
  pose proof (be_val8_range x Hx L) as R.
  unfold sbe. change (2 ^ (8 * 8 - 1)) with 9223372036854775808. change (2 ^ (8 * 8)) with 18446744073709551616.
  rewrite swrap64_def. set (u := be_val x) in *. clearbody u. do 2 f_equal.
  destruct (u <? 9223372036854775808) eqn:E6.
  - rewrite Z.mod_small by lia. lia.
  - replace (u + 9223372036854775808) with ((u - 9223372036854775808) + 1 * 18446744073709551616) by ring.
    rewrite Z.mod_add by lia. rewrite Z.mod_small by lia. lia.
Qed.

(* ---------------- double ---------------- *)
Theorem decode_double_follows_spec t r v r' :
  bytes_ok r -> parse_double t r = Ok (v, r') -> decode_double_tag t r = Ok (v, r').
Proof.
  intros Hr. unfold parse_double, decode_double_tag. fconsts.
  destruct (t =? 91); [intros H; exact H|]. destruct (t =? 92); [intros H; exact H|].
  destruct (t =? 93).
  { destruct (need 1 r) as [[x rr]| | |] eqn:N; cbn [bind]; try discriminate. intros H; inversion H; subst.
    unfold need in N. destruct r as [|b0 r0]; [discriminate|]. cbn in N. inversion N; subst.
    inversion Hr; subst. cbn [read_tag bind]. unfold sbe, be_val. cbn [fold_left].
    change (2 ^ (8 * 1 - 1)) with 128. change (2 ^ (8 * 1)) with 256. rewrite swrap8_def. do 3 f_equal.
    destruct (0 * 256 + b0 <? 128) eqn:E; lia. }
  destruct (t =? 94).
  { destruct (need 2 r) as [[x rr]| | |] eqn:N; cbn [bind]; try discriminate. intros H; inversion H; subst.
    rewrite (need_read_full _ _ _ _ N). cbn [bind].
    unfold need in N. destruct r as [|b1 [|b0 r0]]; try discriminate. cbn in N. inversion N; subst.
    inversion Hr as [|? ? Hb1 Hr1]; subst. inversion Hr1 as [|? ? Hb0 _]; subst.
    unfold sbe, be_val. cbn [fold_left]. change (2 ^ (8 * 2 - 1)) with 32768. change (2 ^ (8 * 2)) with 65536.
    rewrite swrap16_def. do 3 f_equal. destruct (_ <? 32768) eqn:E; lia. }
  destruct (t =? 95).
  { destruct (need 4 r) as [[x rr]| | |] eqn:N; cbn [bind]; try discriminate. intros H; inversion H; subst.
    rewrite (need_read_full _ _ _ _ N). reflexivity. }
  destruct (t =? 68); [|discriminate].
  destruct (need 8 r) as [[x rr]| | |] eqn:N; cbn [bind]; try discriminate. intros H; inversion H; subst.
  rewrite (need_read_full _ _ _ _ N). reflexivity.
Qed.

(* ---------------- date (the millisecond form; the compact form is finding C03-F1) ---------------- *)
Theorem decode_date_ms_follows_spec r ms r' :
  bytes_ok r -> parse_date 74 r = Ok (ms, r') ->
  exists sec nsec, decode_date_tag 74 r = Ok ((sec, nsec), r') /\ sec * 1000 + nsec / 1000000 = ms /\ 0 <= nsec < 1000000000 /\ nsec mod 1000000 = 0.
Proof.
  intros Hr. unfold parse_date, decode_date_tag. dconsts. change (74 =? 74) with true. cbv iota.
  destruct (need 8 r) as [[x rr]| | |] eqn:N; cbn [bind]; try discriminate. intros H; inversion H; subst.
  rewrite (need_read_full _ _ _ _ N). cbn [bind].
  unfold need in N. destruct (take_n 8 r) as [[x0 r0]|] eqn:T; [|discriminate]. inversion N; subst.
  destruct (take_n_length _ _ _ _ T) as [L A]. subst r.
  assert (Hx : bytes_ok x) by (unfold bytes_ok in *; apply Forall_app in Hr; apply Hr).
  pose proof (be_val8_range x Hx L) as R.
  assert (S8 : swrap 64 (be_val x) = sbe 8 x).
  { unfold sbe. change (2 ^ (8 * 8 - 1)) with 9223372036854775808. change (2 ^ (8 * 8)) with 18446744073709551616.
    rewrite swrap64_def. set (u := be_val x) in *. clearbody u.
    destruct (u <? 9223372036854775808) eqn:E6.
    - rewrite Z.mod_small by lia. lia.
    - replace (u + 9223372036854775808) with ((u - 9223372036854775808) + 1 * 18446744073709551616) by ring.
      rewrite Z.mod_add by lia. rewrite Z.mod_small by lia. lia. }
  rewrite S8. set (m := sbe 8 x). unfold unix_milli.
  exists (m / 1000), ((m mod 1000) * 1000000). split; [reflexivity|]. clearbody m. repeat split; lia.
Qed.

(* ---------------- string: any split into chunks ---------------- *)
Lemma runes_n_read_runes n : forall bs rs bs', runes_n n bs = Ok (rs, bs') -> read_runes n bs = (rs, bs').
Proof.
  induction n as [|n IH]; intros bs rs bs' H; cbn [runes_n read_runes] in *; [inversion H; reflexivity|].
  unfold utf8_dec_strict in H. destruct (utf8_dec bs) as [[r rest]|] eqn:D; [|discriminate].
  destruct (r =? rune_error) eqn:E.
  - destruct bs as [|b0 [|b1 [|b2 rest']]]; try discriminate.
    destruct ((b0 =? 239) && (b1 =? 191) && (b2 =? 189)) eqn:E0; [|discriminate].
    assert (b0 = 239 /\ b1 = 191 /\ b2 = 189) as (-> & -> & ->) by lia.
    cbn in D. injection D as <- <-.
    destruct (runes_n n rest') as [[rs0 bs0]| | |] eqn:R; cbn [bind] in H; try discriminate. inversion H; subst.
    rewrite (IH _ _ _ R). reflexivity.
  - destruct (runes_n n rest) as [[rs0 bs0]| | |] eqn:R; cbn [bind] in H; try discriminate. inversion H; subst.
    rewrite (IH _ _ _ R). reflexivity.
Qed.

Lemma utf8_dec_shrink bs r rest : utf8_dec bs = Some (r, rest) -> (length rest < length bs)%nat.
Proof.
  unfold utf8_dec. destruct bs as [|b0 r0]; [discriminate|].
  destruct (b0 <? 128); [intros H; inversion H; subst; cbn; lia|].
  destruct (inr 194 223 b0).
  { destruct r0 as [|b1 r1]; [intros H; inversion H; subst; cbn; lia|].
    destruct (is_cont b1); intros H; inversion H; subst; cbn; lia. }
  destruct (inr 224 239 b0).
  { destruct r0 as [|b1 [|b2 r2]]; try (intros H; inversion H; subst; cbn; lia).
    destruct (_ && _); intros H; inversion H; subst; cbn; lia. }
  destruct (inr 240 244 b0).
  { destruct r0 as [|b1 [|b2 [|b3 r3]]]; try (intros H; inversion H; subst; cbn; lia).
    destruct (_ && _ && _); intros H; inversion H; subst; cbn; lia. }
  intros H; inversion H; subst; cbn; lia.
Qed.
Lemma utf8_dec_strict_shrink bs r rest : utf8_dec_strict bs = Some (r, rest) -> (length rest < length bs)%nat.
Proof.
  unfold utf8_dec_strict. destruct (utf8_dec bs) as [[r' rest']|] eqn:D; [|discriminate].
  destruct (r' =? rune_error).
  - destruct bs as [|c0 [|c1 [|c2 rr]]]; try discriminate.
    destruct (_ && _ && _); [|discriminate]. intros H; inversion H; subst. cbn; lia.
  - intros H; inversion H; subst. apply (utf8_dec_shrink _ _ _ D).
Qed.
Lemma runes_n_shrink n : forall bs rs bs', runes_n n bs = Ok (rs, bs') -> (length bs' <= length bs)%nat.
Proof.
  induction n as [|n IH]; intros bs rs bs' H; cbn [runes_n] in H; [inversion H; subst; lia|].
  destruct (utf8_dec_strict bs) as [[r rest]|] eqn:D; [|discriminate].
  destruct (runes_n n rest) as [[rs0 bs0]| | |] eqn:R; cbn [bind] in H; try discriminate. inversion H; subst.
  pose proof (IH _ _ _ R). pose proof (utf8_dec_strict_shrink _ _ _ D). lia.
Qed.

(* header of a chunk: the decoder reads the length the grammar defines, for each of the four forms *)
Lemma string_hdr_follows t r len final r1 : string_chunk_hdr t r = Ok (len, final, r1) ->
  0 <= t < 256 /\ is_string_tag t = true /\ t <> 78 /\ get_string_len t r = Ok (len, r1) /\ gstringEndTag t = final /\ (length r1 <= length r)%nat.
Proof.
  unfold string_chunk_hdr, rng. intros H.
  assert (Ht : 0 <= t < 256 /\ is_string_tag t = true /\ t <> 78).
  { unfold is_string_tag, rng.
    destruct ((0 <=? t) && (t <=? 31)) eqn:A; [lia|]. destruct ((48 <=? t) && (t <=? 51)) eqn:B; [lia|].
    destruct (t =? 83) eqn:C; [lia|]. destruct (t =? 82) eqn:D; [lia|]. discriminate. }
  destruct Ht as (Hr & Hs & Hn). destruct (string_tags t Hr) as (T1 & T2 & T3 & T4 & T5).
  split; [exact Hr|]. split; [exact Hs|]. split; [exact Hn|].
  unfold get_string_len. rewrite T3, T4, T5, T2, Hs. unfold rng. sconsts.
  destruct ((0 <=? t) && (t <=? 31)) eqn:A.
  { injection H as <- <- <-. split; [rewrite wrap8_id by lia; do 2 f_equal; lia|]. split; [replace (t =? 82) with false by lia; reflexivity|lia]. }
  destruct ((48 <=? t) && (t <=? 51)) eqn:B.
  { destruct (need 1 r) as [[x rr]| | |] eqn:N; cbn [bind] in H; try discriminate. inversion H; subst.
    rewrite (need_read_full _ _ _ _ N). cbn [bind]. split; [rewrite wrap8_id by lia; reflexivity|].
    split; [replace (t =? 82) with false by lia; reflexivity|].
    unfold need in N. destruct (take_n 1 r) as [[a b]|] eqn:T; [|discriminate]. inversion N; subst.
    destruct (take_n_length _ _ _ _ T) as [L ->]. rewrite app_length. lia. }
  destruct (t =? 83) eqn:C.
  { destruct (need 2 r) as [[x rr]| | |] eqn:N; cbn [bind] in H; try discriminate. inversion H; subst.
    cbn [orb]. rewrite (need_read_full _ _ _ _ N). cbn [bind]. split; [reflexivity|].
    split; [replace (t =? 82) with false by lia; reflexivity|].
    unfold need in N. destruct (take_n 2 r) as [[a b]|] eqn:T; [|discriminate]. inversion N; subst.
    destruct (take_n_length _ _ _ _ T) as [L ->]. rewrite app_length. lia. }
  destruct (t =? 82) eqn:D; [|discriminate].
  destruct (need 2 r) as [[x rr]| | |] eqn:N; cbn [bind] in H; try discriminate. inversion H; subst.
  cbn [orb]. rewrite (need_read_full _ _ _ _ N). cbn [bind]. split; [reflexivity|]. split; [reflexivity|].
  unfold need in N. destruct (take_n 2 r) as [[a b]|] eqn:T; [|discriminate]. inversion N; subst.
  destruct (take_n_length _ _ _ _ T) as [L ->]. rewrite app_length. lia.
Qed.

Lemma dec_str_loop_follows : forall fuel t r rs r' acc fuel2 len r1,
  parse_string fuel t r = Ok (rs, r') -> get_string_len t r = Ok (len, r1) -> (length r1 < fuel2)%nat ->
  dec_str_loop fuel2 t len r1 acc = Ok (acc ++ rs, r').
Proof.
  induction fuel as [|f IH]; intros t r rs r' acc fuel2 len r1 P G Hf; [discriminate|].
  cbn [parse_string] in P.
  destruct (string_chunk_hdr t r) as [[[len0 final] r10]| | |] eqn:Hh; cbn [bind] in P; try discriminate.
  destruct (string_hdr_follows _ _ _ _ _ Hh) as (Hr & Hs & Hn & G' & Ge & Hl).
  rewrite G in G'. inversion G'; subst len0 r10. clear G'.
  destruct (runes_n (Z.to_nat len) r1) as [[rs1 r2]| | |] eqn:R; cbn [bind] in P; try discriminate.
  destruct fuel2 as [|f2]; [lia|]. cbn [dec_str_loop].
  rewrite (runes_n_read_runes _ _ _ _ R). rewrite Ge.
  destruct final.
  - inversion P; subst. reflexivity.
  - destruct r2 as [|t' r3]; [discriminate|].
    destruct (parse_string f t' r3) as [[rs' r4]| | |] eqn:P2; cbn [bind] in P; try discriminate. inversion P; subst.
    (* the next chunk's header *)
    destruct f as [|f']; [discriminate|]. pose proof P2 as P2'. cbn [parse_string] in P2'.
    destruct (string_chunk_hdr t' r3) as [[[len2 final2] r5]| | |] eqn:Hh2; cbn [bind] in P2'; try discriminate.
    destruct (string_hdr_follows _ _ _ _ _ Hh2) as (Hr2 & Hs2 & Hn2 & G2 & Ge2 & Hl2).
    destruct (string_tags t' Hr2) as (T1 & _). rewrite T1, Hs2, G2. cbn [bind].
    rewrite (IH t' r3 rs' r' (acc ++ rs1) f2 len2 r5 P2 G2).
    + rewrite app_assoc. reflexivity.
    + pose proof (runes_n_shrink _ _ _ _ R) as S1. cbn [length] in S1. lia.
Qed.

(* C03: EVERY legal rendering of a string - any split into chunks, any of the four length forms
   for the last chunk, chunks that grow, empty chunks - decodes to the same string *)
Theorem decode_string_follows_spec fuel t r rs r' :
  parse_string fuel t r = Ok (rs, r') -> decode_string_tag t r = Ok (rs, r').
Proof.
  intros P. destruct fuel as [|f]; [discriminate|]. pose proof P as P'. cbn [parse_string] in P'.
  destruct (string_chunk_hdr t r) as [[[len final] r1]| | |] eqn:Hh; cbn [bind] in P'; try discriminate.
  destruct (string_hdr_follows _ _ _ _ _ Hh) as (Hr & Hs & Hn & G & Ge & Hl).
  unfold decode_string_tag. sconsts. replace (t =? 78) with false by lia. rewrite G. cbn [bind].
  apply (dec_str_loop_follows (S f) t r rs r' [] (S (length r1)) len r1 P G). lia.
Qed.

(* ---------------- binary: any split into chunks ---------------- *)
Lemma binary_hdr_follows t r len final r1 : binary_chunk_hdr t r = Ok (len, final, r1) ->
  0 <= t < 256 /\ is_binary_tag t = true /\ get_binary_len t r = Ok (len, r1) /\ gbinaryEndTag t = final /\ (length r1 <= length r)%nat.
Proof.
  unfold binary_chunk_hdr, rng. intros H.
  assert (Ht : 0 <= t < 256 /\ is_binary_tag t = true).
  { unfold is_binary_tag, rng.
    destruct ((32 <=? t) && (t <=? 47)) eqn:A; [lia|]. destruct ((52 <=? t) && (t <=? 55)) eqn:B; [lia|].
    destruct (t =? 66) eqn:C; [lia|]. destruct (t =? 65) eqn:D; [lia|]. discriminate. }
  destruct Ht as (Hr & Hs). destruct (binary_tags t Hr) as (T1 & T2 & T3 & T4).
  split; [exact Hr|]. split; [exact Hs|].
  unfold get_binary_len. rewrite T3, T4, T2, Hs. unfold rng. bconsts. unfold g_binaryMiddleLenTagMin.
  destruct ((32 <=? t) && (t <=? 47)) eqn:A.
  { injection H as <- <- <-. split; [rewrite wrap8_id by lia; reflexivity|]. split; [replace (t =? 65) with false by lia; reflexivity|lia]. }
  destruct ((52 <=? t) && (t <=? 55)) eqn:B.
  { destruct (need 1 r) as [[x rr]| | |] eqn:N; cbn [bind] in H; try discriminate. inversion H; subst.
    rewrite (need_read_full _ _ _ _ N). cbn [bind]. split; [rewrite wrap8_id by lia; reflexivity|].
    split; [replace (t =? 65) with false by lia; reflexivity|].
    unfold need in N. destruct (take_n 1 r) as [[a b]|] eqn:T; [|discriminate]. inversion N; subst.
    destruct (take_n_length _ _ _ _ T) as [L ->]. rewrite app_length. lia. }
  destruct (t =? 66) eqn:C.
  { destruct (need 2 r) as [[x rr]| | |] eqn:N; cbn [bind] in H; try discriminate. inversion H; subst.
    rewrite (need_read_full _ _ _ _ N). cbn [bind]. split; [reflexivity|].
    split; [replace (t =? 65) with false by lia; reflexivity|].
    unfold need in N. destruct (take_n 2 r) as [[a b]|] eqn:T; [|discriminate]. inversion N; subst.
    destruct (take_n_length _ _ _ _ T) as [L ->]. rewrite app_length. lia. }
  destruct (t =? 65) eqn:D; [|discriminate].
  destruct (need 2 r) as [[x rr]| | |] eqn:N; cbn [bind] in H; try discriminate. inversion H; subst.
  rewrite (need_read_full _ _ _ _ N). cbn [bind]. split; [reflexivity|]. split; [reflexivity|].
  unfold need in N. destruct (take_n 2 r) as [[a b]|] eqn:T; [|discriminate]. inversion N; subst.
  destruct (take_n_length _ _ _ _ T) as [L ->]. rewrite app_length. lia.
Qed.

Lemma need_read_upto n r x r' : need n r = Ok (x, r') -> read_upto n r = (x, r') /\ (length r' <= length r)%nat.
Proof.
  unfold need. destruct (take_n n r) as [[a b]|] eqn:T; [|discriminate]. intros H; inversion H; subst.
  destruct (take_n_length _ _ _ _ T) as [L ->]. rewrite <- L. split; [apply read_upto_app|rewrite app_length; lia].
Qed.

Lemma dec_bin_loop_follows : forall fuel t r bs r' acc fuel2 len r1,
  parse_binary fuel t r = Ok (bs, r') -> get_binary_len t r = Ok (len, r1) -> (length r1 < fuel2)%nat ->
  dec_bin_loop fuel2 t len r1 acc = Ok (acc ++ bs, r').
Proof.
  induction fuel as [|f IH]; intros t r bs r' acc fuel2 len r1 P G Hf; [discriminate|].
  cbn [parse_binary] in P.
  destruct (binary_chunk_hdr t r) as [[[len0 final] r10]| | |] eqn:Hh; cbn [bind] in P; try discriminate.
  destruct (binary_hdr_follows _ _ _ _ _ Hh) as (Hr & Hs & G' & Ge & Hl).
  rewrite G in G'. inversion G'; subst len0 r10. clear G'.
  destruct (need (Z.to_nat len) r1) as [[x r2]| | |] eqn:R; cbn [bind] in P; try discriminate.
  destruct (need_read_upto _ _ _ _ R) as [RU S1].
  destruct fuel2 as [|f2]; [lia|]. cbn [dec_bin_loop]. rewrite RU, Ge.
  destruct final.
  - inversion P; subst. reflexivity.
  - destruct r2 as [|t' r3]; [discriminate|].
    destruct (parse_binary f t' r3) as [[bs' r4]| | |] eqn:P2; cbn [bind] in P; try discriminate. inversion P; subst.
    destruct f as [|f']; [discriminate|]. pose proof P2 as P2'. cbn [parse_binary] in P2'.
    destruct (binary_chunk_hdr t' r3) as [[[len2 final2] r5]| | |] eqn:Hh2; cbn [bind] in P2'; try discriminate.
    destruct (binary_hdr_follows _ _ _ _ _ Hh2) as (Hr2 & Hs2 & G2 & Ge2 & Hl2).
    destruct (binary_tags t' Hr2) as (T1 & _). rewrite T1, Hs2, G2. cbn [bind].
    rewrite (IH t' r3 bs' r' (acc ++ x) f2 len2 r5 P2 G2).
    + rewrite app_assoc. reflexivity.
    + cbn [length] in S1. lia.
Qed.

Theorem decode_binary_follows_spec fuel t r bs r' :
  parse_binary fuel t r = Ok (bs, r') -> decode_binary_tag t r = Ok (bs, r').
Proof.
  intros P. destruct fuel as [|f]; [discriminate|]. pose proof P as P'. cbn [parse_binary] in P'.
  destruct (binary_chunk_hdr t r) as [[[len final] r1]| | |] eqn:Hh; cbn [bind] in P'; try discriminate.
  destruct (binary_hdr_follows _ _ _ _ _ Hh) as (Hr & Hs & G & Ge & Hl).
  unfold decode_binary_tag. bconsts.
  destruct (t =? 32) eqn:E.
  - (* the empty short form: the decoder answers nil at once *)
    assert (t = 32) by lia. subst t. cbn [parse_binary] in P. rewrite Hh in P. cbn [bind] in P.
    unfold binary_chunk_hdr, rng in Hh. cbn in Hh. inversion Hh; subst.
    change (Z.to_nat (32 - 32)) with O in P. cbn [need take_n bind] in P. inversion P; subst. reflexivity.
  - rewrite G. cbn [bind].
    apply (dec_bin_loop_follows (S f) t r bs r' [] (S (length r1)) len r1 P G). lia.
Qed.
