(* Tag dispatch of the reference parser: which branch of pv_step a first byte takes. *)
From Coq Require Import ZArith List Lia Bool.
From GH Require Import Base.GoSem Base.Result Base.FloatBits Base.Utf8 Spec.Grammar.
Import ListNotations.
Open Scope Z_scope.

Section Dispatch.
  Variable f0 : nat.
  Variable pv : pstate -> bytes -> pres hval.
  Variable pn : nat -> pstate -> bytes -> pres (list hval).
  Variable pz : pstate -> bytes -> pres (list hval).
  Variable pe : pstate -> bytes -> pres (list (hval * hval)).
  Local Notation PV := (pv_step f0 pv pn pz pe).

  Lemma pv_null st r : PV st (78 :: r) = Ok (HNull, r, st). Proof. reflexivity. Qed.
  Lemma pv_true st r : PV st (84 :: r) = Ok (HBool true, r, st). Proof. reflexivity. Qed.
  Lemma pv_false st r : PV st (70 :: r) = Ok (HBool false, r, st). Proof. reflexivity. Qed.

  Lemma pv_int st t r : is_int_tag t = true ->
    PV st (t :: r) = (do (z, r') <- parse_int t r ;; Ok (HInt z, r', st)).
  Proof.
    intros H. unfold pv_step. rewrite H.
    unfold is_int_tag, rng in H.
    replace (t =? 78) with false by lia. replace (t =? 84) with false by lia. replace (t =? 70) with false by lia.
    reflexivity.
  Qed.
  Lemma pv_long st t r : is_int_tag t = false -> is_long_tag t = true ->
    PV st (t :: r) = (do (z, r') <- parse_long t r ;; Ok (HLong z, r', st)).
  Proof.
    intros H0 H. unfold pv_step. rewrite H0, H.
    unfold is_long_tag, rng in H.
    replace (t =? 78) with false by lia. replace (t =? 84) with false by lia. replace (t =? 70) with false by lia.
    reflexivity.
  Qed.
  Lemma pv_double st t r : is_int_tag t = false -> is_long_tag t = false -> is_double_tag t = true ->
    PV st (t :: r) = (do (z, r') <- parse_double t r ;; Ok (HDouble z, r', st)).
  Proof.
    intros H0 H1 H. unfold pv_step. rewrite H0, H1, H.
    unfold is_double_tag, rng in H.
    replace (t =? 78) with false by lia. replace (t =? 84) with false by lia. replace (t =? 70) with false by lia.
    reflexivity.
  Qed.
  Lemma pv_date st t r : is_date_tag t = true ->
    PV st (t :: r) = (do (z, r') <- parse_date t r ;; Ok (HDate z, r', st)).
  Proof.
    intros H. unfold is_date_tag in H.
    assert (C : t = 74 \/ t = 75) by lia. destruct C; subst; reflexivity.
  Qed.
  Lemma pv_string st t r : is_string_tag t = true ->
    PV st (t :: r) = (do (s, r') <- parse_string f0 t r ;; Ok (HString s, r', st)).
  Proof.
    intros H. unfold pv_step. unfold is_string_tag, rng in H.
    replace (t =? 78) with false by lia. replace (t =? 84) with false by lia. replace (t =? 70) with false by lia.
    replace (is_int_tag t) with false by (unfold is_int_tag, rng; lia).
    replace (is_long_tag t) with false by (unfold is_long_tag, rng; lia).
    replace (is_double_tag t) with false by (unfold is_double_tag, rng; lia).
    replace (is_date_tag t) with false by (unfold is_date_tag; lia).
    replace (is_string_tag t) with true by (unfold is_string_tag, rng; lia).
    reflexivity.
  Qed.
  Lemma pv_binary st t r : is_binary_tag t = true ->
    PV st (t :: r) = (do (s, r') <- parse_binary f0 t r ;; Ok (HBinary s, r', st)).
  Proof.
    intros H. unfold pv_step. unfold is_binary_tag, rng in H.
    replace (t =? 78) with false by lia. replace (t =? 84) with false by lia. replace (t =? 70) with false by lia.
    replace (is_int_tag t) with false by (unfold is_int_tag, rng; lia).
    replace (is_long_tag t) with false by (unfold is_long_tag, rng; lia).
    replace (is_double_tag t) with false by (unfold is_double_tag, rng; lia).
    replace (is_date_tag t) with false by (unfold is_date_tag; lia).
    replace (is_string_tag t) with false by (unfold is_string_tag, rng; lia).
    replace (is_binary_tag t) with true by (unfold is_binary_tag, rng; lia).
    reflexivity.
  Qed.
  Lemma pv_ref st r : PV st (81 :: r) = (do (z, r') <- parse_int_value r ;; Ok (HRef z, r', st)).
  Proof. reflexivity. Qed.
  Lemma pv_list_untyped_fixed st r :
    PV st (88 :: r) =
    (do (n, r2) <- parse_int_value r ;;
     if negb (count_ok n r2) then Err ECodec else
     do (y, st2) <- pn (Z.to_nat n) (st_open st) r2 ;; let '(vs, r3) := y in Ok (HList None vs, r3, st2)).
  Proof. reflexivity. Qed.
  Lemma pv_list_typed_fixed st r :
    PV st (86 :: r) =
    (do (x, st1) <- parse_type f0 st r ;; let '(ty, r1) := x in
     do (n, r2) <- parse_int_value r1 ;;
     if negb (count_ok n r2) then Err ECodec else
     do (y, st2) <- pn (Z.to_nat n) (st_open st1) r2 ;; let '(vs, r3) := y in Ok (HList (Some ty) vs, r3, st2)).
  Proof. reflexivity. Qed.
  Lemma pv_list_typed_short st n r : 0 <= n <= 7 ->
    PV st (112 + n :: r) =
    (do (x, st1) <- parse_type f0 st r ;; let '(ty, r1) := x in
     do (y, st2) <- pn (Z.to_nat n) (st_open st1) r1 ;; let '(vs, r2) := y in Ok (HList (Some ty) vs, r2, st2)).
  Proof.
    intros H. assert (C : n = 0 \/ n = 1 \/ n = 2 \/ n = 3 \/ n = 4 \/ n = 5 \/ n = 6 \/ n = 7) by lia.
    destruct C as [->|[->|[->|[->|[->|[->|[->| ->]]]]]]]; reflexivity.
  Qed.
  Lemma pv_map_typed st r :
    PV st (77 :: r) =
    (do (x, st1) <- parse_type f0 st r ;; let '(ty, r1) := x in
     do (y, st2) <- pe (st_open st1) r1 ;; let '(es, r2) := y in Ok (HMap (Some ty) es, r2, st2)).
  Proof. reflexivity. Qed.
  Lemma pv_map_untyped st r :
    PV st (72 :: r) = (do (y, st2) <- pe (st_open st) r ;; let '(es, r2) := y in Ok (HMap None es, r2, st2)).
  Proof. reflexivity. Qed.
  Lemma pv_classdef st r :
    PV st (67 :: r) =
    (do (cname, r1) <- parse_string_value f0 r ;;
     do (n, r2) <- parse_int_value r1 ;;
     if negb (count_ok n r2) then Err ECodec else
     do (fs, r3) <- parse_strings f0 (Z.to_nat n) r2 ;;
     pv (st_add_class st (cname, fs)) r3).
  Proof. reflexivity. Qed.
  Lemma pv_object_long st r :
    PV st (79 :: r) = (do (i, r1) <- parse_int_value r ;; object_of pn st i r1).
  Proof. reflexivity. Qed.
  Lemma pv_object_short st i r : 0 <= i <= 15 -> PV st (96 + i :: r) = object_of pn st i r.
  Proof.
    intros H.
    assert (C : i = 0 \/ i = 1 \/ i = 2 \/ i = 3 \/ i = 4 \/ i = 5 \/ i = 6 \/ i = 7 \/ i = 8 \/ i = 9 \/ i = 10 \/ i = 11 \/ i = 12 \/ i = 13 \/ i = 14 \/ i = 15) by lia.
    destruct C as [->|[->|[->|[->|[->|[->|[->|[->|[->|[->|[->|[->|[->|[->|[->| ->]]]]]]]]]]]]]]]; reflexivity.
  Qed.
End Dispatch.

(* unfolding of the fuelled parsers *)
Lemma hparse_v_S f0 f : hparse_v f0 (S f) = pv_step f0 (hparse_v f0 f) (hparse_n f0 f) (hparse_z f0 f) (hparse_e f0 f).
Proof. unfold hparse_v, hparse_n, hparse_z, hparse_e. cbn [parsers]. destruct (parsers f0 f) as [[[a b] c] d]. reflexivity. Qed.
Lemma hparse_n_S f0 f : hparse_n f0 (S f) = pn_step (hparse_v f0 f) (hparse_n f0 f).
Proof. unfold hparse_v, hparse_n. cbn [parsers]. destruct (parsers f0 f) as [[[a b] c] d]. reflexivity. Qed.
Lemma hparse_e_S f0 f : hparse_e f0 (S f) = pe_step (hparse_v f0 f) (hparse_e f0 f).
Proof. unfold hparse_v, hparse_e. cbn [parsers]. destruct (parsers f0 f) as [[[a b] c] d]. reflexivity. Qed.
Lemma hparse_z_S f0 f : hparse_z f0 (S f) = pz_step (hparse_v f0 f) (hparse_z f0 f).
Proof. unfold hparse_v, hparse_z. cbn [parsers]. destruct (parsers f0 f) as [[[a b] c] d]. reflexivity. Qed.
