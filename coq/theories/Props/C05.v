(* C05: objects bind fields by name; every instance uses the class definition it names.
   On the decoder model (Model/Decoder.v), tied to the code by the correspondence run over
   certified renderings with permuted / dropped / added fields at table positions 0..40. *)
From Coq Require Import ZArith List.
From GH Require Import Base.GoSem Base.Result Gen.GoConsts Gen.GoLeaf Model.Scalars Spec.Grammar Model.Encoder Model.Decoder Proofs.StructFacts.
Import ListNotations.
Open Scope Z_scope.

(* the Go field a wire name is bound to carries that name, up to the case of its first letter *)
Theorem C05_find_field_sound : forall fs w n t, find_field fs w = Some (n, t) -> In (n, t) fs /\ (n = w \/ n = capitalize_name w).
Proof. exact find_field_sound. Qed.
Print Assumptions C05_find_field_sound.
(* whatever the order of the definition: a known field is read with ITS type and stored under ITS name *)
Theorem C05_known_field_bound_by_name : forall R g w ws acc st bs gn gt, find_field g w = Some (gn, gt) ->
  rfs_step R g (w :: ws) acc st bs =
  (do (x, st1) <- R_rf R gt st bs ;; let '(v, r) := x in R_rfs R g ws (assoc_set acc gn v) st1 r).
Proof. exact known_field_bound_by_name. Qed.
(* an unknown one consumes exactly one value and disturbs nothing *)
Theorem C05_unknown_field_skips_one_value : forall R g w ws acc st bs, find_field g w = None ->
  rfs_step R g (w :: ws) acc st bs = (do (x, st1) <- R_rd R st bs ;; R_rfs R g ws acc st1 (snd x)).
Proof. exact unknown_field_skips_one_value. Qed.

(* with any number of definitions in the table, an instance naming definition i is built from
   definition i: by the compact tag x60+i for i <= 15, by 'O' int for every i (2 and >= 16 are
   instances of these statements) *)
Theorem C05_instance_uses_named_def : forall tm R st i cname fnames n bs,
  nth_z (dcls st) i = Some (cname, fnames) -> tm_lookup tm cname = Some (TStruct n) ->
  object_at tm R i st bs = R_ro R n fnames st bs.
Proof. exact instance_uses_named_def. Qed.
Theorem C05_short_instance_tag : forall tm R st i r, 0 <= i <= 15 ->
  rd_step tm R st (96 + i :: r) = object_at tm R (wrap 8 (96 + i - g_objectLenTagMin)) st r /\ wrap 8 (96 + i - g_objectLenTagMin) = i.
Proof. exact short_instance_tag_dispatch. Qed.
Theorem C05_long_instance_selects : forall tm R st i r, in_i32 i ->
  rd_step tm R st (79 :: gencodeInt i ++ r) = object_at tm R i st r.
Proof. exact long_instance_selects. Qed.
Print Assumptions C05_long_instance_selects.

Example C05_nonvacuous :
  find_field [([65], TInt KInt32); ([66], TStr)] [98] = Some ([66], TStr) /\ find_field [([65], TInt KInt32)] [122] = None.
Proof. split; vm_compute; reflexivity. Qed.
