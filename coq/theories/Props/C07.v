(* C07: integers of every width are carried exactly and in the shortest wire form.
   Only statements, each closed by `exact`, with Print Assumptions beneath. *)
From Coq Require Import ZArith List.
From GH Require Import Base.GoSem Base.Result Gen.GoLeaf Model.Scalars
  Proofs.IntProofs Proofs.LongProofs Proofs.KindProofs.
Import ListNotations.
Open Scope Z_scope.

(* every int32: the generated encodeInt followed by the model of decodeIntValue is the identity,
   consuming exactly the bytes of the value *)
Theorem C07_int_roundtrip : forall v rest, in_i32 v -> decode_int (gencodeInt v ++ rest) = Ok (v, rest).
Proof. exact int_roundtrip. Qed.
Print Assumptions C07_int_roundtrip.

(* ... in the shortest form the grammar defines (1, 2, 3 or 5 octets) *)
Theorem C07_int_shortest : forall v, length (gencodeInt v) = spec_int_len v.
Proof. exact int_shortest. Qed.
Print Assumptions C07_int_shortest.

Theorem C07_long_roundtrip : forall v rest, in_i64 v -> decode_long (gencodeLong v ++ rest) = Ok (v, rest).
Proof. exact long_roundtrip. Qed.
Print Assumptions C07_long_roundtrip.

Theorem C07_long_shortest : forall v, length (gencodeLong v) = spec_long_len v.
Proof. exact long_shortest. Qed.
Print Assumptions C07_long_shortest.

(* a struct field of any of the ten Go integer kinds: exact, or the encode call fails *)
Theorem C07_kind_field_exact_or_error : forall k z r, in_kind k z ->
  match enc_kind k z with
  | Ok bs => dec_field_kind k (bs ++ r) = Ok (z, r)
  | Err _ => k = KInt /\ ~ in_i32 z
  | _ => False
  end.
Proof. exact kind_field_exact_or_error. Qed.
Print Assumptions C07_kind_field_exact_or_error.

Theorem C07_kind_shortest : forall k z bs, in_kind k z -> enc_kind k z = Ok bs ->
  length bs = if kind_wire_int k then spec_int_len z else spec_long_len (swrap 64 z).
Proof. exact kind_shortest. Qed.
Print Assumptions C07_kind_shortest.

(* untyped positions (top level, interface element, map entry of an untyped map).
   Full statement: *)
Definition C07_untyped_statement : Prop := forall k z r, in_kind k z ->
  match enc_kind k z with
  | Ok bs => dec_top_int (bs ++ r) = Ok (z, r)
  | Err _ => k = KInt /\ ~ in_i32 z
  | _ => False
  end.
(* proved under the guard z <= MaxInt64 (missing: unsigned values above MaxInt64, finding C07-F2) *)
Theorem C07_untyped_partial : forall k z r, in_kind k z -> z <= 9223372036854775807 ->
  match enc_kind k z with
  | Ok bs => dec_top_int (bs ++ r) = Ok (z, r)
  | Err _ => k = KInt /\ ~ in_i32 z
  | _ => False
  end.
Proof. exact kind_untyped_exact_partial. Qed.
Print Assumptions C07_untyped_partial.
Theorem C07_untyped_refuted_F2 :
  exists k z, in_kind k z /\ exists bs, enc_kind k z = Ok bs /\ dec_top_int bs <> Ok (z, []).
Proof. exact kind_untyped_refuted. Qed.
Print Assumptions C07_untyped_refuted_F2.

Example C07_nonvacuous : in_kind KUint16 40000 /\ in_kind KInt (1099511627776) /\ enc_kind KInt 1099511627776 = Err ECodec.
Proof. exact kind_nonvacuous. Qed.
