(* C11, decoder side, on the decoder model (Model/Decoder.v, Model/DSession.v): over ALL histories
   of calls on one decoder - one-shot and streaming, successful or failed (whatever tables a failed
   call leaves behind), Reset - the next one-shot decode gives exactly the outcome (value and unread
   rest, or error) of a freshly constructed decoder; and so does any further sequence of calls that
   starts with a one-shot decode or a Reset (the streaming reads that follow see only what that
   sequence itself put into the tables).  That the implementation's one-shot entry points do reset
   first and that Reset covers every field is Props/C11facts.v (regenerated from the source). *)
From Coq Require Import ZArith List Bool.
From GH Require Import Base.Result Model.Scalars Spec.Grammar Model.Decoder Model.DSession Proofs.DSessionProofs.
Import ListNotations.

Theorem C11_decoder_reuse_is_fresh : forall te tm h bs junk,
  snd (dstep te tm (drun te tm h dstate0) (DDecode bs, junk)) = snd (dstep te tm dstate0 (DDecode bs, junk)) /\
  snd (dstep te tm dstate0 (DDecode bs, junk)) =
    match decode te tm bs with Ok (v, rest, _) => Ok (v, rest) | Err e => Err e | Panic => Panic | Fuel => Fuel end.
Proof. exact decoder_reuse_is_fresh. Qed.
Print Assumptions C11_decoder_reuse_is_fresh.

Theorem C11_decoder_sequences_after_reset_are_fresh : forall te tm h o calls,
  resets (fst o) = true ->
  douts te tm (o :: calls) (drun te tm h dstate0) = douts te tm (o :: calls) dstate0.
Proof. exact decoder_sequences_after_reset_are_fresh. Qed.
Print Assumptions C11_decoder_sequences_after_reset_are_fresh.

(* non-vacuity: a history that leaves the tables non-empty (the object P{a: 5} read by a streaming
   call registers a class and a reference), after which a streaming read of a bare instance 0x60
   succeeds - while on a fresh decoder, and after any one-shot call, it is an error *)
Example C11_decoder_nonvacuous :
  let te : tenv := [([80], [([65], TInt KInt32)])] in
  let tm : typmap := [([80], TStruct [80])] in
  let h := [(DRead [67; 1; 80; 145; 1; 97; 96; 149], dstate0)] in
  dcls (drun te tm h dstate0) <> [] /\
  (exists v, snd (dstep te tm (drun te tm h dstate0) (DRead [96; 149], dstate0)) = Ok v) /\
  (exists e, snd (dstep te tm dstate0 (DRead [96; 149], dstate0)) = Err e) /\
  (exists e, douts te tm [(DReset, dstate0); (DRead [96; 149], dstate0)] (drun te tm h dstate0) = [Ok (DNil, []); Err e]).
Proof.
  cbv zeta. split; [vm_compute; discriminate|].
  split; [eexists; vm_compute; reflexivity|]. split; eexists; vm_compute; reflexivity.
Qed.
